import StepModel.P21.Reader
import StepModel.P21.Writer
/-!
Working-session files at the level of BYTES: the state letters as a thin layer over the byte-level reader of C01/C03
(`StepModel.P21.Reader`: `createInstance`, `readInstance`, `skipInstance`, `foundEndSec`, `resync`, …; not edited here).

`ReadData1` / `ReadData2` of src/cleditor/STEPfile.cc with `_fileType == WORKING_SESSION` differ from the exchange-file loops
in four places, all modelled here and nowhere else:
* after the token separator one character is read; if it is one of `C I N D` it sets `inst_state` (`EntityWfState`), the
  token separator is read again and the NEXT character is taken for the `#` test; if it is not, pass 1 sets `incompleteSE`
  (with a warning) while pass 2 leaves `inst_state` what it was for the previous entry;
* with `inst_state == deleteSE` the record is skipped with `SkipInstance` and counted neither as created nor as failed;
* pass 1 appends the instance with `inst_state` instead of `newSE`;
* `ReadInstance` does not refuse an instance whose state is not `newSE` and never changes the state (every `ChangeState` sits
  under `_fileType != WORKING_SESSION`; regenerated `Generated.workingReadKeepsState`): modelled as the exchange-file
  `readInstance` run on the manager VIEWED with every state `newSE`, the state found in the real manager kept.
The statements are in `WsBytesLemmas.lean` / `Props/C16.lean`.
-/
namespace StepModel.WsBytes
open StepModel StepModel.IStream StepModel.P21

/-- `inst_state` as far as the loops look at it -/
inductive Letter where | C | I | N | D
  deriving DecidableEq, Repr, Inhabited

/-- `strchr( "CIND", c )` + `EntityWfState( c )` -/
def letterOf (c : Byte) : Option Letter :=
  if c == 67 then some .C else if c == 73 then some .I else if c == 78 then some .N else if c == 68 then some .D else none

/-- the character `WriteWorkingData` prints -/
def Letter.byte : Letter → Byte | .C => 67 | .I => 73 | .N => 78 | .D => 68

/-- the state a created instance is appended with (`D`: never appended) -/
def Letter.state : Letter → NState | .C => .complete | .I => .incomplete | .N => .new | .D => .incomplete

/-- the prefix step: `c` is the character just read; (letter found, character in hand, stream) -/
def prefixStep (c : Byte) (s : IStream) : Option Letter × Byte × IStream :=
  match letterOf c with
  | some L =>
    let s1 := readTokenSeparator s
    let (c', s2) := shiftInto c s1
    (some L, c', s2)
  | none => (none, c, s)

/-- `ReadData1`, working-session file -/
def wsData1Loop {F} (cfg : RWCfg) (d : Dict) : Nat → P1 F → Bool → M (P1 F)
  | 0, _, _ => throw .outOfFuel
  | fuel + 1, st, endsec =>
    if st.s.good && !endsec then do
      let s1 := readTokenSeparator st.s
      let (c0, s2) := shiftInto 0 s1
      let (oL, c, s2') := prefixStep c0 s2
      let L : Letter := oL.getD .I          -- "Invalid editing state character … Assigning editing state to be INCOMPLETE"
      let (_, endsec1, s3) ← if c != 35 then resync (s2'.right.length + 3) c (s2'.putback c) else pure (c, false, s2')
      if endsec1 then wsData1Loop cfg d fuel { st with s := s3 } true
      else if L = .D then do
        let s4 ← skipInstance cfg s3
        let (es, s5) := foundEndSec s4
        wsData1Loop cfg d fuel { st with s := s5 } es
      else
        let (oi, s4) ← createInstance cfg d st.mgr s3
        let st1 : P1 F := match oi with
          | some i => { st with mgr := { insts := st.mgr.insts ++ [{ i with state := L.state }] }, count := st.count + 1, s := s4 }
          | none => { st with notCreated := st.notCreated + 1, s := s4 }
        let (es, s5) := foundEndSec st1.s
        wsData1Loop cfg d fuel { st1 with s := s5 } es
    else pure st

def wsData1 {F} (cfg : RWCfg) (d : Dict) (s : IStream) : M (P1 F) := do
  let (es, s1) := foundEndSec s
  wsData1Loop cfg d (s1.right.length + 3) { mgr := {}, count := 0, notCreated := 0, s := s1 } es

/-- the manager as `ReadInstance` sees it in a working-session read: no "already exists" refusal, whatever the state -/
def viewNew {F} (m : Mgr F) : Mgr F := { insts := m.insts.map (fun i => { i with state := .new }) }

/-- `ReadInstance` in a working-session read: values as in an exchange read, the state is the one the manager holds -/
def wsReadInstance {F} (ops : FloatOps F) (lex : LexCfg) (cfg : RWCfg) (d : Dict) (strict : Bool) (st : P2 F) : M (IOut F) := do
  let o ← readInstance ops lex cfg d strict { st with mgr := viewNew st.mgr }
  pure { o with inst := o.inst.map (fun i =>
    { i with state := match st.mgr.find? i.id with | some j => j.state | none => i.state }) }

/-- `ReadData2`, working-session file; `del`: `inst_state == deleteSE` (kept from the previous entry when no letter is read) -/
def wsData2Loop {F} (ops : FloatOps F) (lex : LexCfg) (cfg : RWCfg) (d : Dict) (strict : Bool) :
    Nat → P2 F → Bool → Bool → M (P2 F)
  | 0, _, _, _ => throw .outOfFuel
  | fuel + 1, st, del, endsec =>
    if st.s.good && !endsec then do
      let s1 := readTokenSeparator st.s
      let (c0, s2) := shiftInto 0 s1
      let (oL, c, s2') := prefixStep c0 s2
      let del' : Bool := match oL with | some L => decide (L = .D) | none => del
      let (_, endsec1, s3) ← if c != 35 then resync (s2'.right.length + 3) c (s2'.putback c) else pure (c, false, s2')
      if endsec1 then wsData2Loop ops lex cfg d strict fuel { st with s := s3 } del' true
      else if del' then do
        let s4 ← skipInstance cfg s3
        let (es, s5) := foundEndSec s4
        wsData2Loop ops lex cfg d strict fuel { st with s := s5 } del' es
      else
        let o ← wsReadInstance ops lex cfg d strict { st with s := s3 }
        let st2 := applyOutcome st o
        let (es, s5) := foundEndSec st2.s
        wsData2Loop ops lex cfg d strict fuel { st2 with s := s5 } del' es
    else pure st

/-- both passes over the bytes that follow `DATA;` (the end keyword after `ENDSEC;` is not looked at here) -/
def wsReadData {F} (ops : FloatOps F) (lex : LexCfg) (cfg : RWCfg) (d : Dict) (strict : Bool) (bytes : List Byte) :
    M (P1 F × P2 F) := do
  let s0 : IStream := { right := bytes, skipws := false }
  let p1 ← wsData1 (F := F) cfg d s0
  let e1 : P21.Sev := if p1.notCreated > 0 then .warning else .null
  let (es, s1) := foundEndSec s0
  let st0 : P2 F := { mgr := p1.mgr, fileErr := e1, total := 0, valid := 0, invalid := 0, incomplete := 0, warnings := 0, s := s1 }
  let p2 ← wsData2Loop ops lex cfg d strict (s1.right.length + 3) st0 false es
  pure (p1, p2)

/-- the letter `WriteWorkingData` prints for a node state (`noStateSE`: the node is not written) -/
def letterFor : NState → Option Letter
  | .complete => some .C | .incomplete => some .I | .new => some .N | .noState => none

/-- `WriteWorkingData` for the instances that are not marked deleted: letter, then the instance as `WriteData` prints it -/
def wsWriteInsts {F} (ops : FloatOps F) (cfg : RWCfg) (d : Dict) (m : Mgr F) : List Byte :=
  m.insts.flatMap (fun i => match letterFor i.state with
    | some L => L.byte :: writeInst ops cfg d i
    | none => [])

end StepModel.WsBytes

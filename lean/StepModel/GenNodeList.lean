/-!
Model of the intrusive circular doubly-linked list behind the instance manager's state lists:
`src/clutils/gennodelist.cc` (`GenNodeList::InsertBefore`, `Append`, `Remove`, `ClearEntries`),
`include/clutils/gennode.h` (`GenericNode::Remove`, the null-guarded unlinking every `MgrNode::Remove` ends in) and
`src/clstepcore/mgrnodelist.cc` (`MgrNodeList::InsertBefore` / `Append`: "deletes the node from its previous list and
appends").  Cells live in one heap (address ↦ next/prev, `none` = null pointer); every statement of the C++ bodies is
one heap update, in the order of the source; a null dereference is an explicit `none` result.

Model file: definitions only (theorems are in `GenNodeListLemmas.lean` and `Props/C13.lean`).
-/
namespace StepModel.GenNodeList

structure Cell where
  next : Option Nat
  prev : Option Nat
deriving DecidableEq, Repr, Inhabited

/-- a node that is in no list (`GenericNode::GenericNode()` sets both pointers to 0) -/
def Cell.unlinked : Cell := ⟨none, none⟩

abbrev Heap := Nat → Cell

def setNext (h : Heap) (a : Nat) (v : Option Nat) : Heap :=
  fun x => if x = a then { h x with next := v } else h x

def setPrev (h : Heap) (a : Nat) (v : Option Nat) : Heap :=
  fun x => if x = a then { h x with prev := v } else h x

/-- `GenNodeList::GenNodeList( GenericNode * headNode )`: `head->next = head; head->prev = head;` -/
def initHead (h : Heap) (head : Nat) : Heap :=
  setPrev (setNext h head (some head)) head (some head)

/-- `GenNodeList::InsertBefore( newNode, existNode )`, statement by statement:
    `existNode->prev->next = newNode; newNode->prev = existNode->prev; newNode->next = existNode; existNode->prev = newNode;` -/
def insertBefore (h : Heap) (n e : Nat) : Option Heap :=
  match (h e).prev with
  | none => none
  | some p =>
    let h1 := setNext h p (some n)
    let h2 := setPrev h1 n (h1 e).prev
    let h3 := setNext h2 n (some e)
    some (setPrev h3 e (some n))

/-- `GenericNode::Remove()` (gennode.h): `next ? next->prev = prev : 0; prev ? prev->next = next : 0; next = 0; prev = 0;` -/
def removeSelf (h : Heap) (n : Nat) : Heap :=
  let h1 := match (h n).next with
    | some q => setPrev h q (h n).prev
    | none => h
  let h2 := match (h1 n).prev with
    | some p => setNext h1 p (h1 n).next
    | none => h1
  setPrev (setNext h2 n none) n none

/-- `GenNodeList::Remove( node )` (unguarded: dereferences `node->next` and `node->prev`; does nothing for the head) -/
def removeFrom (h : Heap) (head n : Nat) : Option Heap :=
  if n = head then some h else
  match (h n).next with
  | none => none
  | some q =>
    let h1 := setPrev h q (h n).prev
    match (h1 n).prev with
    | none => none
    | some p =>
      let h2 := setNext h1 p (h1 n).next
      some (setPrev (setNext h2 n none) n none)

/-- `MgrNodeList::InsertBefore( newNode, existNode )`: `if( newNode->next != 0 ) newNode->Remove();` then the generic insertion -/
def mgrInsertBefore (h : Heap) (n e : Nat) : Option Heap :=
  let h0 := if (h n).next ≠ none then removeSelf h n else h
  insertBefore h0 n e

/-- `MgrNodeList::Append( node )` = `InsertBefore( node, head )` -/
def mgrAppend (h : Heap) (head n : Nat) : Option Heap := mgrInsertBefore h n head

/-- the forward walk `for( n = head->next; n != head; n = n->next )` every consumer of a state list uses, with fuel;
    `none` = the walk met a null pointer or did not come back to the head within the fuel -/
def walk (h : Heap) (head : Nat) : Nat → Nat → Option (List Nat)
  | 0, _ => none
  | fuel + 1, cur =>
    match (h cur).next with
    | none => none
    | some nx => if nx = head then some [] else (walk h head fuel nx).map (nx :: ·)

/-- the same walk backwards along `prev` -/
def walkBack (h : Heap) (head : Nat) : Nat → Nat → Option (List Nat)
  | 0, _ => none
  | fuel + 1, cur =>
    match (h cur).prev with
    | none => none
    | some nx => if nx = head then some [] else (walkBack h head fuel nx).map (nx :: ·)

/-- `GenNodeList::ClearEntries()` on a ring whose members are `L` (the loop nulls both pointers of every member, then
    re-initialises the head) — as a fold over the members the loop visits -/
def clearEntries (h : Heap) (head : Nat) (L : List Nat) : Heap :=
  initHead (L.foldl (fun acc x => setNext (setPrev acc x none) x none) h) head

/-- the loop of `GenNodeList::ClearEntries()` statement by statement (`while( gnPrev != head ) { gnPrev->prev = 0;
    gnPrev->next = 0; gnPrev = gn; gn = gn->Next(); }`), with fuel; `none` = a null dereference or fuel exhausted -/
def clearLoop (head : Nat) : Nat → Heap → Nat → Nat → Option Heap
  | 0, _, _, _ => none
  | f + 1, h, gnPrev, gn =>
    if gnPrev = head then some h else
    let h2 := setNext (setPrev h gnPrev none) gnPrev none
    match (h2 gn).next with
    | none => none
    | some g' => clearLoop head f h2 gn g'

/-- `GenNodeList::ClearEntries()`: `gnPrev = head->Next(); gn = gnPrev->Next();` the loop; `head->next = head; head->prev = head;` -/
def clearEntriesLoop (h : Heap) (head : Nat) (fuel : Nat) : Option Heap :=
  match (h head).next with
  | none => none
  | some gnPrev =>
    match (h gnPrev).next with
    | none => none
    | some gn => (clearLoop head fuel h gnPrev gn).map fun h' => initHead h' head

/-! ### Representation -/

/-- `a`'s successor is `b` and `b`'s predecessor is `a` -/
def Link (h : Heap) (a b : Nat) : Prop := (h a).next = some b ∧ (h b).prev = some a

def Links (h : Heap) : List Nat → Prop
  | a :: b :: rest => Link h a b ∧ Links h (b :: rest)
  | _ => True

/-- the heap holds the ring `head → L[0] → … → L[last] → head` (and back), all cells distinct -/
def Ring (h : Heap) (head : Nat) (L : List Nat) : Prop :=
  (head :: L).Nodup ∧ Links h (head :: L ++ [head])

/-! ### Operation histories on two state lists sharing one heap -/

inductive Op where
  | append (list : Bool) (n : Nat)     -- `MgrNodeList::Append` on list A (`false`) or B (`true`): moves the node there
  | remove (n : Nat)                   -- `MgrNode::Remove()` (`GenericNode::Remove`)
deriving Repr, DecidableEq

structure World where
  heap : Heap
  headA : Nat
  headB : Nat

def World.init (headA headB : Nat) : World :=
  { heap := initHead (initHead (fun _ => Cell.unlinked) headA) headB, headA, headB }

def step (w : World) : Op → Option World
  | .append l n => (mgrAppend w.heap (if l then w.headB else w.headA) n).map fun h => { w with heap := h }
  | .remove n => some { w with heap := removeSelf w.heap n }

def run (w : World) : List Op → Option World
  | [] => some w
  | o :: os => (step w o).bind fun w' => run w' os

/-- reference: two plain lists; appending moves the node to the end of the target list, wherever it was -/
structure Ref where
  a : List Nat
  b : List Nat
deriving Repr, DecidableEq

def refStep (r : Ref) : Op → Ref
  | .append false n => { a := r.a.erase n ++ [n], b := r.b.erase n }
  | .append true n => { a := r.a.erase n, b := r.b.erase n ++ [n] }
  | .remove n => { a := r.a.erase n, b := r.b.erase n }

def refRun (r : Ref) (ops : List Op) : Ref := ops.foldl refStep r

/-- operations a client may issue: the two sentinels are never appended or removed -/
def Op.node : Op → Nat
  | .append _ n => n
  | .remove n => n

end StepModel.GenNodeList

import StepModel.ExpTypeDeclSyn
/-!
# declaration syntax: FUNCTION / PROCEDURE / RULE and the schema (property C07)

Token image of `FUNC_out`, `PROC_out`, `RULE_out` (`src/exppp/pretty_func.c`, `pretty_proc.c`, `pretty_rule.c`: header with
`ALGargs_out`, return type through `TYPE_head_out`, then `ALGscope_out` — nested types, entities and algorithms, the CONSTANT
block, the LOCAL block — the statement list, for a rule its WHERE clause) and of `SCHEMAout` (`pretty_schema.c`: CONSTANT
block, then the declarations), with readers following `function_decl`, `procedure_decl`, `rule_decl`, `schema_body` of
expparse.y.  The order in which exppp prints the declarations of one scope (by kind, then by name) is an input here: a scope is
the list of its declarations as printed.  Declaration lists are `nil`/`cons` spines inside the one inductive type.
Formal parameters are read back as (name, VAR, type): the type-object identity (`Param.obj`) that decides how `ALGargs_out`
groups them is not in the text — `Decl.erase` forgets it.
-/
namespace StepModel.Express

inductive Decl
  | typeD (d : TypeDeclS)
  | entityD (e : EntityDecl)
  /-- FUNCTION (`ret = some t`) or PROCEDURE (`ret = none`) -/
  | alg (name : String) (params : List Param) (ret : Option Ty) (nested : Decl) (consts : List ConstDeclS)
      (locals : List Local) (body : Stmt)
  | rule (name : String) (ents : List String) (nested : Decl) (consts : List ConstDeclS) (locals : List Local) (body : Stmt)
      (dom : List DomRule)
  | nil | cons (d t : Decl)
  deriving DecidableEq, Repr, Inhabited

def paramsToks (ps : List Param) : List DTok := if ps = [] then [] else [.sym "("] ++ argsToks ps ++ [.sym ")"]

mutual
def declToks : Decl → List DTok
  | .typeD d => typeDeclToks d
  | .entityD e => entityToks e
  | .alg name ps (some t) nested cs ls b =>
    [.kw "FUNCTION", .id name] ++ paramsToks ps ++ [.sym ":"] ++ tyToks t ++ [.sym ";"] ++ declsToks nested ++ constsToks cs
      ++ algBodyToks ls b ++ [.kw "END_FUNCTION", .sym ";"]
  | .alg name ps none nested cs ls b =>
    [.kw "PROCEDURE", .id name] ++ paramsToks ps ++ [.sym ";"] ++ declsToks nested ++ constsToks cs
      ++ algBodyToks ls b ++ [.kw "END_PROCEDURE", .sym ";"]
  | .rule name ents nested cs ls b dom =>
    [.kw "RULE", .id name, .kw "FOR", .sym "("] ++ nameListToks ents ++ [.sym ")", .sym ";"] ++ declsToks nested ++ constsToks cs
      ++ algBodyToks ls b ++ (if dom = [] then [] else .kw "WHERE" :: dom.flatMap domToks) ++ [.kw "END_RULE", .sym ";"]
  | .nil => []
  | .cons _ _ => []
def declsToks : Decl → List DTok
  | .cons d t => declToks d ++ declsToks t
  | _ => []
end

structure SchemaS where
  name : String
  consts : List ConstDeclS
  decls : Decl
  deriving DecidableEq, Repr

/-- `SCHEMAout` after its header comment -/
def schemaToks (s : SchemaS) : List DTok :=
  [.kw "SCHEMA", .id s.name, .sym ";"] ++ constsToks s.consts ++ declsToks s.decls ++ [.kw "END_SCHEMA", .sym ";"]

def mkParam (t : String × Bool × Ty) : Param := ⟨t.1, t.2.1, t.2.2, 0⟩

/-- optional `( formal parameters )` -/
def parseParamsOpt (n : Nat) : List DTok → Option (List Param × List DTok)
  | .sym "(" :: r =>
    match parseParams n r with
    | some (ts, .sym ")" :: r') => some (ts.map mkParam, r')
    | _ => none
  | r => some ([], r)

def declStarters : List String := ["TYPE", "ENTITY", "FUNCTION", "PROCEDURE", "RULE"]

def startsDecl : List DTok → Bool
  | .kw k :: _ => declStarters.contains k
  | _ => false

mutual
def parseDecl : Nat → List DTok → Option (Decl × List DTok)
  | 0, _ => none
  | n + 1, ts =>
    match ts with
    | .kw "TYPE" :: _ => (parseTypeDecl n ts).map fun (d, r) => (.typeD d, r)
    | .kw "ENTITY" :: _ => (parseEntity n ts).map fun (e, r) => (.entityD e, r)
    | .kw "FUNCTION" :: .id name :: r0 =>
      match parseParamsOpt n r0 with
      | some (ps, .sym ":" :: r1) =>
        match parseTy n r1 with
        | some (t, .sym ";" :: r2) =>
          match parseDecls n r2 with
          | some (nested, r3) =>
            match parseConsts n r3 with
            | some (cs, r4) =>
              match parseAlgBody n r4 with
              | some ((ls, b), .kw "END_FUNCTION" :: .sym ";" :: r5) => some (.alg name ps (some t) nested cs ls b, r5)
              | _ => none
            | none => none
          | none => none
        | _ => none
      | _ => none
    | .kw "PROCEDURE" :: .id name :: r0 =>
      match parseParamsOpt n r0 with
      | some (ps, .sym ";" :: r2) =>
        match parseDecls n r2 with
        | some (nested, r3) =>
          match parseConsts n r3 with
          | some (cs, r4) =>
            match parseAlgBody n r4 with
            | some ((ls, b), .kw "END_PROCEDURE" :: .sym ";" :: r5) => some (.alg name ps none nested cs ls b, r5)
            | _ => none
          | none => none
        | none => none
      | _ => none
    | .kw "RULE" :: .id name :: .kw "FOR" :: .sym "(" :: r0 =>
      match parseIdList n r0 with
      | some (ents, .sym ";" :: r2) =>
        match parseDecls n r2 with
        | some (nested, r3) =>
          match parseConsts n r3 with
          | some (cs, r4) =>
            match parseAlgBody n r4 with
            | some ((ls, b), r5) =>
              match optClause "WHERE" (parseDom n) r5 with
              | some (dom, .kw "END_RULE" :: .sym ";" :: r6) => some (.rule name ents nested cs ls b dom, r6)
              | _ => none
            | none => none
          | none => none
        | none => none
      | _ => none
    | _ => none
def parseDecls : Nat → List DTok → Option (Decl × List DTok)
  | 0, _ => none
  | n + 1, ts =>
    if startsDecl ts then
      match parseDecl n ts with
      | some (d, r) =>
        match parseDecls n r with
        | some (t, r') => some (.cons d t, r')
        | none => none
      | none => none
    else some (.nil, ts)
end

/-- `schema_decl` -/
def parseSchema (n : Nat) : List DTok → Option (SchemaS × List DTok)
  | .kw "SCHEMA" :: .id name :: .sym ";" :: r =>
    match parseConsts n r with
    | some (cs, r1) =>
      match parseDecls n r1 with
      | some (ds, .kw "END_SCHEMA" :: .sym ";" :: r2) => some (⟨name, cs, ds⟩, r2)
      | _ => none
    | none => none
  | _ => none

/-- what is read back: type-object identities forgotten (`EntityDecl.norm` is the identity since a right operand keeps its parentheses) -/
def Decl.erase : Decl → Decl
  | .typeD d => .typeD d
  | .entityD e => .entityD e.norm
  | .alg name ps ret nested cs ls b => .alg name (ps.map fun p => mkParam p.triple) ret nested.erase cs ls b
  | .rule name ents nested cs ls b dom => .rule name ents nested.erase cs ls b dom
  | .nil => .nil
  | .cons d t => .cons d.erase t.erase

def SchemaS.erase (s : SchemaS) : SchemaS := { s with decls := s.decls.erase }

/-! ### the order in which exppp emits the declarations of one scope

`SCHEMAout` / `ALGscope_out`: types, entities, then `SCOPEalgs_out` = rules, functions, procedures; within each kind alphabetically
(`SCOPEadd_inorder`, `strcmp` on the names).  The token model takes the order as an input; this is the rule it is checked against
(driver request `schema`: `order-ok`). -/

def Decl.rank : Decl → Nat
  | .typeD _ => 0
  | .entityD _ => 1
  | .rule .. => 2
  | .alg _ _ (some _) .. => 3
  | .alg _ _ none .. => 4
  | _ => 5

def Decl.declName : Decl → String
  | .typeD d => d.name
  | .entityD e => e.name
  | .rule name .. => name
  | .alg name .. => name
  | _ => ""

/-- `a` is emitted before `b` -/
def Decl.before (a b : Decl) : Bool := a.rank < b.rank || (a.rank == b.rank && a.declName < b.declName)

mutual
def orderedSpine : Decl → Bool
  | .cons d (.cons d' t) => d.before d' && orderedInner d && orderedSpine (.cons d' t)
  | .cons d .nil => orderedInner d
  | .nil => true
  | _ => false
def orderedInner : Decl → Bool
  | .alg _ _ _ nested _ _ _ => orderedSpine nested
  | .rule _ _ nested _ _ _ _ => orderedSpine nested
  | _ => true
end

end StepModel.Express

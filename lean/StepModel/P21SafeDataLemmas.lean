import StepModel.P21SafeSubLemmas
/-! Termination, step count, cut-off and resynchronisation of the `ReadData1` instance loop (helper file for Props/C05). -/
namespace StepModel.P21Safe

theorem get_putback_m (s : IS) (c : Byte) :
    ((s.get).1.putback ((s.get).2.getD c)).m ≤ s.m := by
  obtain ⟨pre, rest, eof, fail, sk⟩ := s
  cases eof <;> cases fail <;> cases rest <;> simp [IS.get, IS.good, IS.putback, IS.m]

theorem matchKw_m : ∀ (ks : List Byte) (s : IS) (c : Byte), (matchKw ks s c).1.m ≤ s.m := by
  intro ks
  induction ks with
  | nil => intro s c; simp [matchKw]
  | cons k ks ih =>
    intro s c
    unfold matchKw
    have hg := get_m_le s
    have hp := get_putback_m s c
    generalize s.get = g at hg hp ⊢
    obtain ⟨s1, o⟩ := g
    cases o with
    | none =>
      simp only [] at hg hp ⊢
      split
      · exact Nat.le_trans (ih s1 c) hg
      · simpa using hp
    | some c1 =>
      simp only [] at hg hp ⊢
      split
      · exact Nat.le_trans (ih s1 c1) hg
      · simpa using hp

theorem foundEndSecKywd_m (s : IS) : (foundEndSecKywd s).1.m ≤ s.m := by
  unfold foundEndSecKywd
  have h1 := matchKw_m kwENDSEC s.ws 0
  have hw := ws_m s
  generalize matchKw kwENDSEC s.ws 0 = mk at h1 ⊢
  obtain ⟨s1, b⟩ := mk
  cases b with
  | false => simp only [] at h1 ⊢; omega
  | true =>
    simp only [] at h1 ⊢
    have hw1 := ws_m s1
    have hp := get_putback_m s1.ws 67
    have hg := get_m_le s1.ws
    generalize s1.ws.get = g at hp hg ⊢
    obtain ⟨s2, o⟩ := g
    cases o with
    | none => simp only [] at hp hg ⊢; simp at hp; omega
    | some c =>
      simp only [] at hp hg ⊢
      split
      · show s2.m ≤ s.m
        omega
      · show (s2.putback c).m ≤ s.m
        simp at hp; omega


theorem ciFail_ok {R B : Nat} {skip : IS → Out LoopRes} (hs : StageOk R skip 1 B) (s : IS) (st : Nat) (h : s.m ≤ B) :
    ∃ r, ciFail skip s st = .ok r ∧ r.s.m ≤ s.m ∧ r.steps + pot R r.s ≤ st + pot R s + 1 := by
  obtain ⟨r, h1, h2, h3⟩ := hs s h
  refine ⟨⟨r.s, 0, 0, st + r.steps⟩, by simp [ciFail, h1], h2, ?_⟩
  show st + r.steps + pot R r.s ≤ _
  omega

theorem ciDone_ok {R B : Nat} {tok skip : IS → Out LoopRes} (ht : StageOk R tok 1 B) (hs : StageOk R skip 1 B)
    (s : IS) (st : Nat) (h : s.m ≤ B) :
    ∃ r, ciDone tok skip s st = .ok r ∧ r.s.m ≤ s.m ∧ r.steps + pot R r.s ≤ st + pot R s + 2 := by
  obtain ⟨r, h1, h2, h3⟩ := hs s h
  obtain ⟨r', h1', h2', h3'⟩ := ht r.s (by omega)
  refine ⟨⟨r'.s, 1, 0, st + r.steps + r'.steps⟩, by simp [ciDone, h1, h1'], ?_, ?_⟩
  · show r'.s.m ≤ s.m
    omega
  · show st + r.steps + r'.steps + pot R r'.s ≤ _
    omega

/-- the keyword costs what it consumed -/
theorem readStdKeyword_pot (R : Nat) (s : IS) :
    (readStdKeyword s).2.length + pot R (readStdKeyword s).1 ≤ pot R s + 4 := by
  obtain ⟨h1, h2, h3⟩ := readStdKeyword_m s
  by_cases hz : (readStdKeyword s).1.m = 0
  · rw [pot_zero hz]
    by_cases hs : s.m = 0
    · omega
    · rw [pot_pos (by omega)]; omega
  · have hs : 1 ≤ s.m := by omega
    rw [pot_pos (by omega), pot_pos hs]; omega

theorem ciRecord_ok {R B : Nat} (o : Oracle) {sub tok skip : IS → Out LoopRes}
    (hsub : StageOk R sub 3 B) (ht : StageOk R tok 1 B) (hs : StageOk R skip 1 B) (s : IS) (st : Nat) (h : s.m ≤ B) :
    ∃ r, ciRecord o sub tok skip s st = .ok r ∧ r.s.m ≤ s.m ∧ r.steps + pot R r.s ≤ st + pot R s + 9 := by
  unfold ciRecord
  have hp := peek_m s
  generalize s.peek = pk at hp ⊢
  obtain ⟨s3, p⟩ := pk
  simp only [] at hp ⊢
  have hp3 := pot_mono (R := R) hp
  split
  · obtain ⟨rs, a0, b0, c0⟩ := hsub s3 (by omega)
    rw [a0]
    simp only []
    split
    · obtain ⟨r, a, b, c⟩ := ciDone_ok ht hs rs.s (st + rs.steps) (by omega)
      exact ⟨r, a, by omega, by omega⟩
    · obtain ⟨r, a, b, c⟩ := ciFail_ok hs rs.s (st + rs.steps) (by omega)
      exact ⟨r, a, by omega, by omega⟩
  · split
    · have hgp := get_putback_m s3 chAmp
      have hgp' : ((s3.get).1.putback chAmp).m ≤ s3.m := by
        have h2 := putback_m (s3.get).1 chAmp
        have h3 := get_m s3
        rcases h3 with hh | hh
        · omega
        · have := putback_m_zero (s3.get).1 chAmp hh; omega
      have hpp := pot_mono (R := R) hgp'
      obtain ⟨r, a, b, c⟩ := ciFail_ok hs ((s3.get).1.putback chAmp) (st + 1) (by omega)
      exact ⟨r, a, by omega, by omega⟩
    · split
      · have hg := get_m_le s3
        have hpg := pot_mono (R := R) hg
        obtain ⟨k1, _, _⟩ := readStdKeyword_m (s3.get).1
        have kp := readStdKeyword_pot R (s3.get).1
        obtain ⟨r, a, b, c⟩ := ciFail_ok hs (readStdKeyword (s3.get).1).1 (st + (readStdKeyword (s3.get).1).2.length) (by omega)
        exact ⟨r, a, by omega, by omega⟩
      · obtain ⟨k1, _, _⟩ := readStdKeyword_m s3
        have kp := readStdKeyword_pot R s3
        split
        · obtain ⟨r, a, b, c⟩ := ciDone_ok ht hs (readStdKeyword s3).1 (st + (readStdKeyword s3).2.length) (by omega)
          exact ⟨r, a, by omega, by omega⟩
        · obtain ⟨r, a, b, c⟩ := ciFail_ok hs (readStdKeyword s3).1 (st + (readStdKeyword s3).2.length) (by omega)
          exact ⟨r, a, by omega, by omega⟩

/-- the `CreateInstance` skeleton is a stage with constant 15, whatever the oracle answers -/
theorem createInstanceSkel_ok {R B : Nat} (o : Oracle) {sub tok skip : IS → Out LoopRes}
    (hsub : StageOk R sub 3 B) (ht : StageOk R tok 1 B) (hs : StageOk R skip 1 B) :
    StageOk R (createInstanceSkel o sub tok skip) 15 B := by
  intro s h
  unfold createInstanceSkel
  obtain ⟨r0, a0, b0, c0⟩ := ht s h
  rw [a0]
  simp only []
  have hi := extractInt_m r0.s
  have hpi := pot_mono (R := R) hi
  split
  · obtain ⟨r, a, b, c⟩ := ciFail_ok hs r0.s.extractInt (r0.steps + 1) (by omega)
    exact ⟨r, a, by omega, by omega⟩
  · obtain ⟨r1, a1, b1, c1⟩ := ht r0.s.extractInt (by omega)
    rw [a1]
    simp only []
    have hg := get_m_le r1.s
    have hpg := pot_mono (R := R) hg
    split
    · obtain ⟨r, a, b, c⟩ := ciFail_ok hs (r1.s.get).1 (r0.steps + r1.steps + 2) (by omega)
      exact ⟨r, a, by omega, by omega⟩
    · obtain ⟨r2, a2, b2, c2⟩ := ht (r1.s.get).1 (by omega)
      rw [a2]
      simp only []
      obtain ⟨r, a, b, c⟩ := ciRecord_ok o hsub ht hs r2.s (r0.steps + r1.steps + r2.steps + 3) (by omega)
      exact ⟨r, a, by omega, by omega⟩

/-- the potential of the instance loop: 32 steps per byte -/
def bigPot (R : Nat) (s : IS) : Nat := pot R s + 28 * s.m

theorem bigPot_zero {R : Nat} {s : IS} (h : s.m = 0) : bigPot R s = 0 := by simp [bigPot, pot_zero h, h]

/-- the resynchronisation loop: terminates, never un-reads, steps paid by the potential; it ends with `endsec`, or with
`c == '#'`, or on a stream that is not good -/
theorem recoverLoop_ok {R B : Nat} {findStart tok : IS → Out LoopRes} (hfs : StageOk R findStart 1 B) (ht : StageOk R tok 1 B) :
    ∀ (fuel : Nat) (s : IS) (c : Byte) (steps : Nat), s.m + 1 ≤ fuel → s.m ≤ B →
      ∃ s' c' e st, recoverLoop findStart tok fuel s c steps = .ok (s', c', e, st) ∧ s'.m ≤ s.m ∧
        st + bigPot R s' ≤ steps + bigPot R s + 2 ∧ (e = false → c' = chHash ∨ s'.good = false) := by
  intro fuel
  induction fuel with
  | zero => intro s c steps h; omega
  | succ fuel ih =>
    intro s c steps h hB
    show ∃ s' c' e st, recoverStep (recoverLoop findStart tok fuel) findStart tok s c steps = _ ∧ _
    unfold recoverStep
    split
    · rename_i hcond
      have hg : s.good = true := by simp at hcond; exact hcond.2
      have hpos := good_m_pos hg
      have hfe := foundEndSecKywd_m s
      generalize foundEndSecKywd s = fe at hfe ⊢
      obtain ⟨s1, e1⟩ := fe
      simp only [] at hfe
      have hp1 := pot_mono (R := R) hfe
      cases e1 with
      | true =>
        refine ⟨s1, c, true, steps + 1, rfl, hfe, ?_, by simp⟩
        simp only [bigPot]; omega
      | false =>
        simp only []
        obtain ⟨r, a, b, cc⟩ := hfs s1 (by omega)
        rw [a]
        simp only []
        have hx := extract_m r.s
        generalize r.s.extract = ex at hx ⊢
        obtain ⟨s2, o⟩ := ex
        simp only [] at hx ⊢
        obtain ⟨r2, a2, b2, c2⟩ := ht s2 (by omega)
        rw [a2]
        simp only []
        have hr2f : r2.s.m + 1 ≤ fuel := by rcases hx with hx | hx <;> omega
        obtain ⟨s', c', e, st, hh, hm, hp, hres⟩ := ih r2.s (o.getD c) (steps + 1 + r.steps + r2.steps) hr2f (by omega)
        refine ⟨s', c', e, st, hh, by rcases hx with hx | hx <;> omega, ?_, hres⟩
        have hps : pot R s2 ≤ pot R r.s := pot_mono (by rcases hx with hx | hx <;> omega)
        rcases hx with hx | hx
        · have hd := pot_drop (R := R) (a := s2) (b := r.s) hx (Nat.le_refl 1)
          simp only [bigPot] at hp ⊢
          omega
        · have hz2 : r2.s.m = 0 := by omega
          rw [bigPot_zero hz2] at hp
          rw [pot_zero hx] at c2
          rw [pot_zero hz2] at c2
          simp only [bigPot] at hp ⊢
          have := Nat.zero_le (bigPot R s')
          omega
    · rename_i hcond
      refine ⟨s, c, false, steps, rfl, Nat.le_refl _, by omega, ?_⟩
      intro _
      simp at hcond
      by_cases hc : c = chHash
      · exact Or.inl hc
      · right
        have := hcond hc
        simpa using this


/-- started on a stream that is good or has failed, with `c ≠ '#'`: unless it finds ENDSEC the loop has consumed
at least one byte, or the stream has failed -/
theorem recoverLoop_progress {R B : Nat} {findStart tok : IS → Out LoopRes} (hfs : StageOk R findStart 1 B) (ht : StageOk R tok 1 B)
    (fuel : Nat) (s : IS) (c : Byte) (steps : Nat) (h : s.m + 1 ≤ fuel) (hB : s.m ≤ B)
    (hgz : s.good = true ∨ s.m = 0) (hc : c ≠ chHash) :
    ∃ s' c' e st, recoverLoop findStart tok fuel s c steps = .ok (s', c', e, st) ∧ s'.m ≤ s.m ∧
      st + bigPot R s' ≤ steps + bigPot R s + 2 ∧ (e = false → c' = chHash ∨ s'.good = false) ∧
      (e = false → s'.m + 1 ≤ s.m ∨ s'.m = 0) := by
  cases fuel with
  | zero => omega
  | succ fuel =>
    obtain ⟨s', c', e, st, hh, hm, hp, hres⟩ := recoverLoop_ok hfs ht (fuel + 1) s c steps h hB
    refine ⟨s', c', e, st, hh, hm, hp, hres, ?_⟩
    intro he
    -- look at the first iteration
    have hh' := hh
    change recoverStep (recoverLoop findStart tok fuel) findStart tok s c steps = _ at hh'
    unfold recoverStep at hh'
    split at hh'
    · rename_i hcond
      have hg : s.good = true := by simp at hcond; exact hcond.2
      have hpos := good_m_pos hg
      have hfe := foundEndSecKywd_m s
      generalize foundEndSecKywd s = fe at hfe hh'
      obtain ⟨s1, e1⟩ := fe
      simp only [] at hfe
      cases e1 with
      | true => simp at hh'; obtain ⟨_, _, h3, _⟩ := hh'; subst h3; simp at he
      | false =>
        simp only [] at hh'
        obtain ⟨r, a, b, cc⟩ := hfs s1 (by omega)
        rw [a] at hh'
        simp only [] at hh'
        have hx := extract_m r.s
        generalize r.s.extract = ex at hx hh'
        obtain ⟨s2, o⟩ := ex
        simp only [] at hx hh'
        obtain ⟨r2, a2, b2, c2⟩ := ht s2 (by omega)
        rw [a2] at hh'
        simp only [] at hh'
        have hr2f : r2.s.m + 1 ≤ fuel := by rcases hx with hx | hx <;> omega
        obtain ⟨t', tc, te, tst, th, tm, _, _⟩ := recoverLoop_ok hfs ht fuel r2.s (o.getD c) (steps + 1 + r.steps + r2.steps) hr2f (by omega)
        rw [th] at hh'
        simp at hh'
        obtain ⟨h1, _, _, _⟩ := hh'
        subst h1
        rcases hx with hx | hx
        · left; omega
        · right; omega
    · rename_i hcond
      simp at hh'
      obtain ⟨h1, _, _, _⟩ := hh'
      subst h1
      rcases hgz with hg | hz
      · exfalso; apply hcond; simp [hc, hg]
      · right; exact hz


/-- what the instance loop needs from the resynchronisation loop -/
def RecoverOk (R : Nat) (recover : IS → Byte → Nat → Out (IS × Byte × Bool × Nat)) (B : Nat) : Prop :=
  ∀ (s : IS) (c : Byte) (steps : Nat), s.m ≤ B → (s.good = true ∨ s.m = 0) → c ≠ chHash →
    ∃ s' c' e st, recover s c steps = .ok (s', c', e, st) ∧ s'.m ≤ s.m ∧
      st + bigPot R s' ≤ steps + bigPot R s + 2 ∧ (e = false → s'.m + 1 ≤ s.m ∨ s'.m = 0)

theorem dataLoop_endsec (recover : IS → Byte → Nat → Out (IS × Byte × Bool × Nat)) (inst : Bool → IS → Out LoopRes)
    (tok : IS → Out LoopRes) (wsMode pass2 : Bool) (maxErr fuel : Nat) (s : IS) (c : Byte) (del : Bool) (nc cnt steps : Nat) :
    dataLoop recover inst tok wsMode pass2 maxErr (fuel + 1) s true c del nc cnt steps = .ok ⟨s, true, nc, cnt, steps, false⟩ := by
  show dataStep _ recover inst tok wsMode pass2 maxErr s true c del nc cnt steps = _
  simp [dataStep]

theorem extract_shape (s : IS) (c : Byte) :
    ((s.extract).1.putback ((s.extract).2.getD c)).good = true ∨ ((s.extract).1.putback ((s.extract).2.getD c)).m = 0 := by
  generalize hex : s.extract = ex
  obtain ⟨s1, o⟩ := ex
  cases o with
  | none =>
    right
    exact putback_m_zero _ _ (extract_none hex)
  | some c1 =>
    left
    obtain ⟨hf, he, ⟨ps, hp⟩, _⟩ := extract_some hex
    simp only [Option.getD]
    rw [putback_restore hf hp]
    simp [IS.good, hf]

theorem dataLoop_notgood (recover : IS → Byte → Nat → Out (IS × Byte × Bool × Nat)) (inst : Bool → IS → Out LoopRes)
    (tok : IS → Out LoopRes) (wsMode pass2 : Bool) (maxErr fuel : Nat)
    (s : IS) (e : Bool) (c : Byte) (del : Bool) (nc cnt steps : Nat) (h : s.good = false) :
    dataLoop recover inst tok wsMode pass2 maxErr (fuel + 1) s e c del nc cnt steps = .ok ⟨s, e, nc, cnt, steps, false⟩ := by
  show dataStep _ recover inst tok wsMode pass2 maxErr s e c del nc cnt steps = _
  simp [dataStep, h]

theorem not_good_of_m_zero {s : IS} (h : s.m = 0) : s.good = false := by
  obtain ⟨pre, rest, eof, fail, sk⟩ := s
  cases fail <;> simp_all [IS.m, IS.good]

/-- the potential of the instance loop: `32 + D` steps per byte, `D` chosen by the caller (≥ the per-instance constant + 7) -/
def dataPot (D R : Nat) (s : IS) : Nat := bigPot R s + D * s.m

theorem dataPot_zero {D R : Nat} {s : IS} (h : s.m = 0) : dataPot D R s = 0 := by simp [dataPot, bigPot_zero h, h]

theorem mul_mono' (D : Nat) {a b : Nat} (h : a ≤ b) : D * a ≤ D * b := Nat.mul_le_mul_left D h
theorem mul_drop' (D : Nat) {a b : Nat} (h : a + 1 ≤ b) : D * a + D ≤ D * b := by
  have := Nat.mul_le_mul_left D h
  rw [Nat.mul_add, Nat.mul_one] at this
  exact this

/-- the extraction after a token separator: strict progress or failure, and the put-back stream is good or failed -/
theorem extract_after (R : Nat) (t : IS) (c : Byte) :
    ((t.extract).1.m + 1 ≤ t.m ∨ (t.extract).1.m = 0) ∧
    (((t.extract).1.putback ((t.extract).2.getD c)).good = true ∨ ((t.extract).1.putback ((t.extract).2.getD c)).m = 0) ∧
    ((t.extract).1.putback ((t.extract).2.getD c)).m ≤ t.m := by
  refine ⟨extract_m t, extract_shape t c, ?_⟩
  have hx := extract_m t
  have hp := putback_m (t.extract).1 ((t.extract).2.getD c)
  rcases hx with hx | hx
  · omega
  · have := putback_m_zero (t.extract).1 ((t.extract).2.getD c) hx; omega

/-- the head of an iteration (token separator, `in >> c`, optional state letter): a stage with constant 4 -/
theorem headStage_ok {R B : Nat} {tok : IS → Out LoopRes} (ht : StageOk R tok 1 B) (wsMode pass2 : Bool)
    (s : IS) (c : Byte) (del : Bool) (steps : Nat) (hB : s.m ≤ B) :
    ∃ s1 c1 del1 st0, headStage tok wsMode pass2 s c del steps = .ok (s1, c1, del1, st0) ∧
      (s1.m + 1 ≤ s.m ∨ s1.m = 0) ∧
      ((s1.putback c1).good = true ∨ (s1.putback c1).m = 0) ∧ (s1.putback c1).m ≤ s.m ∧
      st0 + bigPot R s1 ≤ steps + bigPot R s + 4 ∧ st0 + bigPot R (s1.putback c1) ≤ steps + bigPot R s + 4 := by
  unfold headStage
  obtain ⟨r0, a0, b0, c0⟩ := ht s hB
  rw [a0]
  simp only []
  obtain ⟨hx0, hsh0, hpb0⟩ := extract_after R r0.s c
  split
  · obtain ⟨r1, a1, b1, c1'⟩ := ht (r0.s.extract).1 (by rcases hx0 with h | h <;> omega)
    rw [a1]
    simp only []
    obtain ⟨hx1, hsh1, hpb1⟩ := extract_after R r1.s ((r0.s.extract).2.getD c)
    have hp0 := pot_mono (R := R) (a := (r0.s.extract).1) (b := r0.s) (by rcases hx0 with h | h <;> omega)
    have hp1 := pot_mono (R := R) (a := (r1.s.extract).1) (b := r1.s) (by rcases hx1 with h | h <;> omega)
    have hp1b := pot_mono (R := R) hpb1
    refine ⟨_, _, _, _, rfl, ?_, hsh1, by omega, ?_, ?_⟩
    · rcases hx1 with h | h
      · left; rcases hx0 with h0 | h0 <;> omega
      · right; exact h
    · simp only [bigPot]
      have : (r1.s.extract).1.m ≤ s.m := by rcases hx1 with h | h <;> rcases hx0 with h0 | h0 <;> omega
      omega
    · simp only [bigPot]
      have : ((r1.s.extract).1.putback ((r1.s.extract).2.getD ((r0.s.extract).2.getD c))).m ≤ s.m := by
        rcases hx0 with h0 | h0 <;> omega
      omega
  · have hp0 := pot_mono (R := R) (a := (r0.s.extract).1) (b := r0.s) (by rcases hx0 with h | h <;> omega)
    have hp0b := pot_mono (R := R) hpb0
    refine ⟨_, _, _, _, rfl, ?_, hsh0, by omega, ?_, ?_⟩
    · rcases hx0 with h | h
      · left; omega
      · right; exact h
    · simp only [bigPot]
      have : (r0.s.extract).1.m ≤ s.m := by rcases hx0 with h | h <;> omega
      omega
    · simp only [bigPot]; omega

/-- the per-instance reader of either pass: for both values of "marked deleted" a stage with constant `K` -/
def InstOk (R : Nat) (inst : Bool → IS → Out LoopRes) (K B : Nat) : Prop := ∀ d, StageOk R (inst d) K B

/-- an instance reader as the instance loop needs it: it returns, never un-reads, and its steps are paid by the loop's own
potential `dataPot D R` up to a constant `K` — and `E` more when it leaves the stream failed (which ends the loop) -/
def InstOkD (D R : Nat) (inst : Bool → IS → Out LoopRes) (K E B : Nat) : Prop :=
  ∀ d s, s.m ≤ B → ∃ r, inst d s = .ok r ∧ r.s.m ≤ s.m ∧
    r.steps + dataPot D R r.s ≤ dataPot D R s + K + (if r.s.m = 0 then E else 0)

theorem InstOk.toD {R K B : Nat} {inst : Bool → IS → Out LoopRes} (h : InstOk R inst K B) (D : Nat) : InstOkD D R inst K 0 B := by
  intro d s hB
  obtain ⟨r, a, b, cc⟩ := h d s hB
  have hDr := mul_mono' D b
  exact ⟨r, a, b, by simp only [dataPot, bigPot]; split <;> omega⟩

/-- the instance loop of `ReadData1` / `ReadData2`: terminates with fuel `m + 1`, never un-reads, at most `32 + D` steps per
consumed byte (all nesting levels), and the cut-off: it never counts more than `maxErr + 1` failed instances, and stops
as soon as it has -/
theorem dataLoop_okD {R B K E D maxErr : Nat} {recover : IS → Byte → Nat → Out (IS × Byte × Bool × Nat)}
    {inst : Bool → IS → Out LoopRes} {tok : IS → Out LoopRes} (wsMode pass2 : Bool)
    (hrec : RecoverOk R recover B) (hinst : InstOkD D R inst K E B) (ht : StageOk R tok 1 B) (hD : K + 7 ≤ D) :
    ∀ (fuel : Nat) (s : IS) (e : Bool) (c : Byte) (del : Bool) (nc cnt steps : Nat), s.m + 1 ≤ fuel → s.m ≤ B → nc ≤ maxErr →
      ∃ r, dataLoop recover inst tok wsMode pass2 maxErr fuel s e c del nc cnt steps = .ok r ∧ r.s.m ≤ s.m ∧
        r.steps + dataPot D R r.s ≤ steps + dataPot D R s + (K + 8 + E) ∧
        nc ≤ r.notCreated ∧ r.notCreated ≤ maxErr + 1 ∧ (r.aborted = true ↔ r.notCreated = maxErr + 1) := by
  intro fuel
  induction fuel with
  | zero => intro s e c del nc cnt steps h; omega
  | succ fuel ih =>
    intro s e c del nc cnt steps h hB hnc
    show ∃ r, dataStep (dataLoop recover inst tok wsMode pass2 maxErr fuel) recover inst tok wsMode pass2 maxErr
      s e c del nc cnt steps = .ok r ∧ _
    unfold dataStep
    split
    · rename_i hcond
      have hg : s.good = true := by simp at hcond; exact hcond.1
      have hpos := good_m_pos hg
      obtain ⟨f, rfl⟩ : ∃ f, fuel = f + 1 := ⟨fuel - 1, by omega⟩
      obtain ⟨s1, c1, del1, st0, hhead, hx, hsh, hpbm, hq1, hq1b⟩ := headStage_ok (R := R) ht wsMode pass2 s c del steps hB
      rw [hhead]
      simp only []
      -- the state after the optional resynchronisation
      have hrc : ∃ s2 c2 e2 st,
          (if c1 ≠ chHash then recover (s1.putback c1) c1 st0 else Out.ok (s1, c1, false, st0)) = .ok (s2, c2, e2, st) ∧
          s2.m ≤ s.m ∧ st + bigPot R s2 ≤ steps + bigPot R s + 6 ∧
          (e2 = false → s2.m + 1 ≤ s.m ∨ s2.m = 0) := by
        split
        · rename_i hne
          obtain ⟨s2, c2, e2, st, hh, hm, hp, hpr⟩ := hrec (s1.putback c1) c1 st0 (by omega) hsh hne
          refine ⟨s2, c2, e2, st, hh, by omega, by omega, ?_⟩
          intro he
          rcases hpr he with h1 | h1
          · left; omega
          · right; exact h1
        · refine ⟨s1, c1, false, st0, rfl, by rcases hx with h1 | h1 <;> omega, by omega, ?_⟩
          intro _
          exact hx
      obtain ⟨s2, c2, e2, st, hh, hm2, hp2, hpr2⟩ := hrc
      simp only [hh]
      have hD2 := mul_mono' D hm2
      have hq2 : st + dataPot D R s2 ≤ steps + dataPot D R s + 6 := by simp only [dataPot]; omega
      cases e2 with
      | true =>
        simp only []
        rw [dataLoop_endsec]
        refine ⟨_, rfl, hm2, by simp only []; omega, Nat.le_refl _, by simp only []; omega, ?_⟩
        simp only []
        constructor
        · intro hh'; cases hh'
        · intro hh'; exfalso; omega
      | false =>
        simp only []
        obtain ⟨r, a, b, hqr'⟩ := hinst (wsMode && del1) s2 (by omega)
        rw [a]
        simp only []
        have hqr : r.s.m ≠ 0 → r.steps + dataPot D R r.s ≤ dataPot D R s2 + K := by
          intro hne; rw [if_neg hne] at hqr'; omega
        have hqz : r.s.m = 0 → r.steps ≤ dataPot D R s2 + K + E := by
          intro he0; rw [if_pos he0, dataPot_zero he0] at hqr'; omega
        have hprog := hpr2 rfl
        have hbud : st + r.steps + dataPot D R r.s + 1 + (K + 8 + E) ≤ steps + dataPot D R s + (K + 8 + E) ∨ r.s.m = 0 := by
          by_cases hr0 : r.s.m = 0
          · right; exact hr0
          have hqr := hqr hr0
          rcases hprog with h1 | h1
          · left
            have hdd := mul_drop' D h1
            have : st + dataPot D R s2 + D ≤ steps + dataPot D R s + 6 := by
              simp only [dataPot]; omega
            omega
          · right; omega
        have hz : r.s.m = 0 → st + r.steps + 1 ≤ steps + dataPot D R s + (K + 7 + E) := by
          intro hz0
          have hqr := hqz hz0
          have h00 : dataPot D R r.s = 0 := dataPot_zero hz0
          have : 0 ≤ dataPot D R s2 := Nat.zero_le _
          rcases hprog with h1 | h1
          · have hdd := mul_drop' D h1
            have : st + dataPot D R s2 + D ≤ steps + dataPot D R s + 6 := by
              simp only [dataPot]; omega
            omega
          · have h0 := dataPot_zero (D := D) (R := R) h1
            omega
        generalize hnn : (if r.sev = 1 then (nc, cnt + 1) else if r.sev = 0 then (nc + 1, cnt) else (nc, cnt)) = nn
        obtain ⟨nc', cnt'⟩ := nn
        have hnc' : nc ≤ nc' ∧ nc' ≤ nc + 1 := by
          split at hnn
          · simp at hnn; omega
          · split at hnn <;> (simp at hnn; omega)
        simp only []
        split
        · rename_i hab
          refine ⟨_, rfl, by simp only []; omega, ?_, by simp only []; omega, by simp only []; omega, ?_⟩
          · simp only []
            rcases hbud with h1 | h1
            · omega
            · have := hz h1; have := dataPot_zero (D := D) (R := R) h1; omega
          · simp only []
            constructor
            · intro _; omega
            · intro _; trivial
        · rename_i hab
          have hfe := foundEndSecKywd_m r.s
          generalize foundEndSecKywd r.s = fe at hfe ⊢
          obtain ⟨s3, e3⟩ := fe
          simp only [] at hfe ⊢
          by_cases hz3 : s3.m = 0
          · rw [dataLoop_notgood _ _ _ _ _ _ _ _ _ _ _ _ _ _ (not_good_of_m_zero hz3)]
            refine ⟨_, rfl, by simp only []; omega, ?_, by simp only []; omega, by simp only []; omega, ?_⟩
            · simp only []
              rw [dataPot_zero hz3]
              rcases hbud with h1 | h1
              · have : 0 ≤ dataPot D R r.s := Nat.zero_le _
                omega
              · have := hz h1; omega
            · simp only []
              constructor
              · intro hh'; cases hh'
              · intro hh'; exfalso; omega
          · have hs3 : s3.m + 1 ≤ s.m := by
              rcases hprog with h1 | h1
              · omega
              · omega
            obtain ⟨rr, ha, hb, hc, hd, he, hf⟩ := ih s3 e3 c2 del1 nc' cnt' (st + r.steps + 1) (by omega) (by omega) (by omega)
            refine ⟨rr, ha, by omega, ?_, by omega, he, hf⟩
            have hq3 : dataPot D R s3 ≤ dataPot D R r.s := by
              have := pot_mono (R := R) hfe
              have := mul_mono' D hfe
              simp only [dataPot, bigPot]; omega
            rcases hbud with h1 | h1
            · omega
            · omega
    · rename_i hcond
      refine ⟨_, rfl, Nat.le_refl _, by simp only []; omega, Nat.le_refl _, by simp only []; omega, ?_⟩
      simp only []
      constructor
      · intro h; cases h
      · intro h; exfalso; omega

theorem dataLoop_ok {R B K D maxErr : Nat} {recover : IS → Byte → Nat → Out (IS × Byte × Bool × Nat)}
    {inst : Bool → IS → Out LoopRes} {tok : IS → Out LoopRes} (wsMode pass2 : Bool)
    (hrec : RecoverOk R recover B) (hinst : InstOk R inst K B) (ht : StageOk R tok 1 B) (hD : K + 7 ≤ D) :
    ∀ (fuel : Nat) (s : IS) (e : Bool) (c : Byte) (del : Bool) (nc cnt steps : Nat), s.m + 1 ≤ fuel → s.m ≤ B → nc ≤ maxErr →
      ∃ r, dataLoop recover inst tok wsMode pass2 maxErr fuel s e c del nc cnt steps = .ok r ∧ r.s.m ≤ s.m ∧
        r.steps + dataPot D R r.s ≤ steps + dataPot D R s + (K + 8) ∧
        nc ≤ r.notCreated ∧ r.notCreated ≤ maxErr + 1 ∧ (r.aborted = true ↔ r.notCreated = maxErr + 1) := by
  intro fuel s e c del nc cnt steps h1 h2 h3
  obtain ⟨r, a, b, cc, d⟩ := dataLoop_okD (E := 0) wsMode pass2 hrec (hinst.toD D) ht hD fuel s e c del nc cnt steps h1 h2 h3
  exact ⟨r, a, b, by omega, d⟩

theorem dataPot_le {D R : Nat} (s : IS) : dataPot D R s ≤ (32 + D) * s.m + R := by
  have := pot_le (R := R) s
  simp only [dataPot, bigPot, Nat.add_mul]; omega

theorem instOrSkip_ok {R B K : Nat} {rd skip : IS → Out LoopRes} (hrd : StageOk R rd K B) (hs : StageOk R skip 1 B) (hK : 1 ≤ K) :
    InstOk R (instOrSkip rd skip) K B := by
  intro d s h
  unfold instOrSkip
  cases d with
  | true =>
    obtain ⟨r, a, b, c⟩ := hs s h
    simp only [a, if_true]
    exact ⟨_, rfl, b, by simp only []; omega⟩
  | false => simpa using hrd s h

/-- the concrete sub-loops of both passes as stages, for fuel `F` and streams of at most `F - 1` bytes -/
theorem stages (cm : Bool) (iters F : Nat) (hF1 : 1 ≤ F) :
    StageOk iters (readTokenSeparator cm iters F) 1 (F - 1) ∧ StageOk iters (skipInstance cm iters F) 1 (F - 1) ∧
    RecoverOk iters (recoverLoop (findStartOfInstance F) (readTokenSeparator cm iters F) F) (F - 1) := by
  have ht : StageOk iters (readTokenSeparator cm iters F) 1 (F - 1) := by
    intro t htB
    exact readTokenSeparator_pot iters cm iters (Nat.le_refl _) F t (by omega)
  have hs : StageOk iters (skipInstance cm iters F) 1 (F - 1) := by
    intro t htB
    obtain ⟨r, a, b, c⟩ := scanUntil_pot iters chSemi false cm iters (Nat.le_refl _) F t 0 0 0 (by omega)
    exact ⟨r, a, b, by omega⟩
  have hfs : StageOk iters (findStartOfInstance F) 1 (F - 1) := by
    intro t htB
    obtain ⟨r, a, b, c⟩ := scanUntil_pot iters chHash true false 0 (Nat.zero_le _) F t 0 0 0 (by omega)
    exact ⟨r, a, b, by omega⟩
  refine ⟨ht, hs, ?_⟩
  intro t c steps htB hgz hc
  obtain ⟨s', c', e, st, h1, h2, h3, _, h5⟩ := recoverLoop_progress hfs ht F t c steps (by omega) htB hgz hc
  exact ⟨s', c', e, st, h1, h2, h3, h5⟩

/-- `ReadData1` with the concrete sub-loops (incl. `CreateSubSuperInstance` with the regenerated or any other guard), in
potential form and for any fuel `F` above the stream measure: for every oracle, exchange and working-session files -/
theorem readData1_okF (o : Oracle) (stay : Bool) (guard : Option Nat) (cm wsMode : Bool) (iters maxErr : Nat) (s : IS) (F : Nat)
    (hm : s.m + 1 ≤ F) :
    ∃ r, readData1 o stay guard cm wsMode iters maxErr F s = .ok r ∧ r.s.m ≤ s.m ∧
      r.steps + dataPot 22 iters r.s ≤ dataPot 22 iters s + 23 ∧
      r.notCreated ≤ maxErr + 1 ∧ (r.aborted = true ↔ r.notCreated = maxErr + 1) := by
  obtain ⟨ht, hs, hrec⟩ := stages cm iters F (by omega)
  have hsub := createSubSuper_ok iters stay guard F (by omega)
  have hci := createInstanceSkel_ok (R := iters) (B := F - 1) o hsub ht hs
  have hinst := instOrSkip_ok hci hs (by omega)
  unfold readData1
  have hfe := foundEndSecKywd_m s
  generalize foundEndSecKywd s = fe at hfe ⊢
  obtain ⟨s0, e⟩ := fe
  simp only [] at hfe ⊢
  obtain ⟨r, a, b, c, _, d, f⟩ := dataLoop_ok (D := 22) (maxErr := maxErr) wsMode false hrec hinst ht (by omega)
    F s0 e 0 false 0 0 0 (by omega) (by omega) (Nat.zero_le _)
  refine ⟨r, a, by omega, ?_, d, f⟩
  have h1 := pot_mono (R := iters) hfe
  have h2 := mul_mono' 22 hfe
  simp only [dataPot, bigPot] at c ⊢
  omega

theorem readData1_ok (o : Oracle) (stay : Bool) (guard : Option Nat) (cm wsMode : Bool) (iters maxErr : Nat) (s : IS) :
    ∃ r, readData1 o stay guard cm wsMode iters maxErr (s.rest.length + 2) s = .ok r ∧ r.s.m ≤ s.m ∧
      r.steps ≤ 54 * (s.rest.length + 1) + iters + 23 ∧
      r.notCreated ≤ maxErr + 1 ∧ (r.aborted = true ↔ r.notCreated = maxErr + 1) := by
  have hm : s.m ≤ s.rest.length + 1 := by unfold IS.m; split <;> omega
  obtain ⟨r, a, b, c, d, f⟩ := readData1_okF o stay guard cm wsMode iters maxErr s (s.rest.length + 2) (by omega)
  refine ⟨r, a, b, ?_, d, f⟩
  have h1 := dataPot_le (D := 22) (R := iters) s
  have : 54 * s.m ≤ 54 * (s.rest.length + 1) := by omega
  omega

/-- `ReadData2`: the same loop around any per-instance reader `ri` that is a stage with constant `K` (never un-reads, its
steps paid by what it consumes up to `K`) -/
theorem readData2_okF (ri : IS → Out LoopRes) (K : Nat) (hK : 1 ≤ K) (cm wsMode : Bool) (iters maxErr : Nat) (s : IS) (F : Nat)
    (hm : s.m + 1 ≤ F) (hri : StageOk iters ri K (F - 1)) :
    ∃ r, readData2 ri cm wsMode iters maxErr F s = .ok r ∧ r.s.m ≤ s.m ∧
      r.steps + dataPot (K + 7) iters r.s ≤ dataPot (K + 7) iters s + (K + 8) ∧
      r.notCreated ≤ maxErr + 1 ∧ (r.aborted = true ↔ r.notCreated = maxErr + 1) := by
  obtain ⟨ht, hs, hrec⟩ := stages cm iters F (by omega)
  have hinst := instOrSkip_ok hri hs hK
  unfold readData2
  have hfe := foundEndSecKywd_m s
  generalize foundEndSecKywd s = fe at hfe ⊢
  obtain ⟨s0, e⟩ := fe
  simp only [] at hfe ⊢
  obtain ⟨r, a, b, c, _, d, f⟩ := dataLoop_ok (D := K + 7) (maxErr := maxErr) wsMode true hrec hinst ht (Nat.le_refl _)
    F s0 e 0 false 0 0 0 (by omega) (by omega) (Nat.zero_le _)
  refine ⟨r, a, by omega, ?_, d, f⟩
  have h1 := pot_mono (R := iters) hfe
  have h2 := mul_mono' (K + 7) hfe
  simp only [dataPot, bigPot] at c ⊢
  omega

theorem readData2_ok (ri : IS → Out LoopRes) (K : Nat) (hK : 1 ≤ K) (cm wsMode : Bool) (iters maxErr : Nat) (s : IS)
    (hri : StageOk iters ri K (s.rest.length + 1)) :
    ∃ r, readData2 ri cm wsMode iters maxErr (s.rest.length + 2) s = .ok r ∧ r.s.m ≤ s.m ∧
      r.steps ≤ (39 + K) * (s.rest.length + 1) + iters + K + 8 ∧
      r.notCreated ≤ maxErr + 1 ∧ (r.aborted = true ↔ r.notCreated = maxErr + 1) := by
  have hm : s.m ≤ s.rest.length + 1 := by unfold IS.m; split <;> omega
  obtain ⟨r, a, b, c, d, f⟩ := readData2_okF ri K hK cm wsMode iters maxErr s (s.rest.length + 2) (by omega) hri
  refine ⟨r, a, b, ?_, d, f⟩
  have h1 := dataPot_le (D := K + 7) (R := iters) s
  have h2 : (32 + (K + 7)) * s.m ≤ (39 + K) * (s.rest.length + 1) := by
    have : 32 + (K + 7) = 39 + K := by omega
    rw [this]
    exact Nat.mul_le_mul_left _ (by omega)
  omega

/-! ### resynchronisation: when `FindStartOfInstance` reports success the next byte on the stream is `#` -/

def Resync (rec : IS → Byte → Nat → Nat → Out LoopRes) (stop : Byte) : Prop :=
  ∀ (s : IS) (c : Byte) (len steps : Nat) (r : LoopRes), c ≠ stop → rec s c len steps = .ok r → r.sev = sevNull →
    ∃ t, r.s.rest = stop :: t ∧ r.s.good = true

theorem scanAfter_resync (rec : IS → Byte → Nat → Nat → Out LoopRes) (stop : Byte) (cm : Bool) (iters : Nat)
    (ih : Resync rec stop) (s1 : IS) (c1 : Byte) (len steps : Nat) (r : LoopRes)
    (hshape : (∃ ps, s1.fail = false ∧ s1.eof = false ∧ s1.pre = c1 :: ps) ∨ c1 ≠ stop)
    (h : scanAfter rec stop true cm iters s1 c1 len steps = .ok r) (hsev : r.sev = sevNull) :
    ∃ t, r.s.rest = stop :: t ∧ r.s.good = true := by
  unfold scanAfter at h
  split at h
  · rename_i hc
    rcases hshape with ⟨ps, hf, he, hp⟩ | hne
    · simp at h
      subst h
      subst hc
      rw [putback_restore hf hp]
      exact ⟨s1.rest, rfl, by simp [IS.good, hf]⟩
    · exact absurd hc hne
  · rename_i hns
    split at h
    · generalize s1.peek = pk at h
      obtain ⟨s2, p⟩ := pk
      simp only [] at h
      split at h
      · generalize readCommentWith (fun s' => rec s' 0 0 0) iters (s2.putback c1) = rc at h
        cases rc with
        | ok rr => exact ih _ _ _ _ _ hns h hsev
        | overflow i k => cases h
        | outOfFuel => cases h
      · exact ih _ _ _ _ _ hns h hsev
    · split at h
      · generalize sdaiStringRead (s1.putback c1) = sr at h
        obtain ⟨s2, str⟩ := sr
        exact ih _ _ _ _ _ hns h hsev
      · split at h
        · simp at h; subst h; simp [sevInputError, sevNull] at hsev
        · exact ih _ _ _ _ _ hns h hsev

theorem scanUntil_resync (stop : Byte) (cm : Bool) (iters : Nat) :
    ∀ fuel, Resync (scanUntil stop true cm iters fuel) stop := by
  intro fuel
  induction fuel with
  | zero => intro s c len steps r _ h; cases h
  | succ fuel ih =>
    intro s c len steps r hc h hsev
    change scanStep (scanUntil stop true cm iters fuel) stop true cm iters s c len steps = .ok r at h
    unfold scanStep at h
    split at h
    · simp at h; subst h; simp [sevInputError, sevNull] at hsev
    · generalize hex : s.extract = ex at h
      obtain ⟨s', o⟩ := ex
      cases o with
      | none => exact scanAfter_resync _ stop cm iters ih s' c len steps r (Or.inr hc) h hsev
      | some c' =>
        obtain ⟨hf1, he1, ⟨ps, hpre⟩, _⟩ := extract_some hex
        exact scanAfter_resync _ stop cm iters ih s' c' len steps r (Or.inl ⟨ps, hf1, he1, hpre⟩) h hsev

end StepModel.P21Safe

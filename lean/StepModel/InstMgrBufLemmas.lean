import StepModel.InstMgrBuf
import StepModel.InstMgrInv
namespace StepModel.InstMgr
open StepModel.Generated StepModel.GenNodeArray

theorem link_congr {s s' : State} {a : Arr} (hn : s'.nodes = s.nodes) (hb : s'.bufsize = s.bufsize)
    (L : Link s a) : Link s' a :=
  ⟨L.wf, by rw [L.view]; simp [ptrs, hn], by rw [L.len, hb]⟩

theorem link_count {s : State} {a : Arr} (L : Link s a) : a.count = s.nodes.length := by
  have h := congrArg List.length L.view
  simp only [GenNodeArray.view, ptrs, List.length_take, List.length_map] at h
  have := L.wf.le
  omega

theorem link_init : Link init GenNodeArray.init :=
  ⟨wf_init, by simp [GenNodeArray.init, view_mk, ptrs, init], by simp [GenNodeArray.init, GenNodeArray.mk, init]⟩

/-! ### block length -/
theorem check_length (a : Arr) (i : Nat) (h : a.count ≤ a.buf.length) :
    (check a i).buf.length = checkCap a.buf.length i := by
  unfold check checkCap
  have hg := growTo_gt i
  split
  · simp only [List.length_append, List.length_take, List.length_replicate]; omega
  · rfl

theorem insertAtEnd_length (a a' : Arr) (gn : Nat) (h : a.count ≤ a.buf.length) (he : insertAtEnd a gn = some a') :
    a'.buf.length = checkCap a.buf.length a.count := by
  unfold insertAtEnd store at he
  simp only at he
  split at he
  · simp only [Option.map_some, Option.some.injEq] at he
    subst he
    simp only [List.length_set]
    exact check_length a a.count h
  · simp at he

theorem remove_length (a a' : Arr) (i : Nat) (h : a.count ≤ a.buf.length) (he : remove a i = some a') :
    a'.buf.length = a.buf.length := by
  unfold remove at he
  split at he
  · rename_i hi
    simp only at he
    split at he
    · rename_i hroom
      have hrv : removeNullsVacated = true := rfl
      rw [if_pos hrv] at he
      unfold store at he
      split at he
      · simp only [Option.map_some, Option.some.injEq] at he
        subst he
        simp only [List.length_set, List.length_append, List.length_take, List.length_drop]
        omega
      · simp at he
    · simp at he
  · simp only [Option.some.injEq] at he; subst he; rfl

theorem dropAll_length (b : Bool) (a : Arr) (h : a.count ≤ a.buf.length) : (dropAll b a).buf.length = a.buf.length := by
  unfold dropAll
  cases b
  · rfl
  · simp only [if_true, List.length_append, List.length_replicate, List.length_drop]; omega

/-! ### one call on `master` -/
theorem link_push {s s' : State} {a : Arr} (L : Link s a) (g : Nat) (nd : Node) (hg : nd.nid = g)
    (hn : s'.nodes = s.nodes ++ [nd]) (hb : s'.bufsize = checkCap s.bufsize s.nodes.length) :
    ∃ a', runBuf a [.push g] = some a' ∧ Link s' a' := by
  obtain ⟨a', h1, h2, h3, _⟩ := insertAtEnd_spec a g L.wf
  refine ⟨a', by simp [runBuf, stepBuf, h1], h2, ?_, ?_⟩
  · rw [h3, L.view]; simp [ptrs, hn, hg]
  · rw [insertAtEnd_length a a' g L.wf.le h1, L.len, link_count L, hb]

theorem ptrs_arrayRemove (ns : List Node) (idx : Nat) :
    (arrayRemove ns idx).map (fun n => some n.nid) = (ns.map (fun n => some n.nid)).eraseIdx idx := by
  unfold arrayRemove
  have : (renumberFrom idx 0 (ns.eraseIdx idx)).map (fun n => some n.nid)
      = ((renumberFrom idx 0 (ns.eraseIdx idx)).map (·.nid)).map some := by simp
  rw [this, renumberFrom_map_nid]
  have me : ∀ (l : List Node) (k : Nat), (l.eraseIdx k).map (fun n => some n.nid) = (l.map (fun n => some n.nid)).eraseIdx k := by
    intro l
    induction l with
    | nil => intro k; simp
    | cons x xs ih =>
      intro k
      cases k with
      | zero => simp
      | succ k => simp [ih k]
  rw [← me]; simp

theorem link_remove {s s' : State} {a : Arr} (L : Link s a) (idx : Nat) (hi : idx < s.nodes.length)
    (hn : s'.nodes = arrayRemove s.nodes idx) (hb : s'.bufsize = s.bufsize) :
    ∃ a', runBuf a [.remove idx] = some a' ∧ Link s' a' := by
  have hc : idx < a.count := by rw [link_count L]; exact hi
  obtain ⟨a', h1, h2, h3, _⟩ := remove_spec a idx L.wf hc
  refine ⟨a', by simp [runBuf, stepBuf, h1], h2, ?_, ?_⟩
  · rw [h3, L.view]; simp only [ptrs, hn]; exact (ptrs_arrayRemove s.nodes idx).symm
  · rw [remove_length a a' idx L.wf.le h1, L.len, hb]

theorem link_nil {s : State} {a : Arr} (L : Link s a) : ∃ a', runBuf a [] = some a' ∧ Link s a' := ⟨a, rfl, L⟩

/-! ### `Delete( MgrNode * )` -/
theorem link_deleteNodeCore {s : State} {a : Arr} (L : Link s a) (n : Node) :
    ∃ a', runBuf a (deleteNodeCoreOps s n) = some a' ∧ Link (deleteNodeCore s n).1 a' := by
  unfold deleteNodeCoreOps deleteNodeCore
  cases s.heap n.inst with
  | none => exact link_nil L
  | some i =>
    simp only
    split
    · rename_i hc
      exact link_remove L _ hc.2 rfl rfl
    · exact link_nil L

/-! ### `Append` -/
theorem renumber_bufsize (s : State) (h : Nat) : (renumber s h).1.bufsize = s.bufsize := rfl
theorem renumber_nextNid (s : State) (h : Nat) : (renumber s h).1.nextNid = s.nextNid := rfl

theorem link_appendFind {s1 : State} {a : Arr} (L : Link s1 a) (id1 : Int) (h : Nat) (st : St) :
    ∃ a', runBuf a (appendFindOps s1 id1 h) = some a' ∧ Link (appendFind s1 id1 h st).1 a' := by
  unfold appendFindOps appendFind
  cases findFileId s1 id1 with
  | dangling => exact link_nil L
  | none =>
    simp only
    exact link_push L s1.nextNid _ rfl (pushNode_nodes s1 h st id1) (pushNode_bufsize s1 h st id1)
  | node n =>
    simp only
    split
    · exact link_nil L
    · have L' : Link (renumber s1 h).1 a := link_congr (renumber_nodes s1 h) (renumber_bufsize s1 h) L
      have := link_push L' (renumber s1 h).1.nextNid _ rfl
        (pushNode_nodes (renumber s1 h).1 h st (renumber s1 h).2) (pushNode_bufsize (renumber s1 h).1 h st (renumber s1 h).2)
      rw [renumber_nextNid] at this
      exact this

/-! ### every operation -/
theorem link_step {s : State} {a : Arr} (L : Link s a) (op : Op) :
    ∃ a', runBuf a (stepOps s op) = some a' ∧ Link (step s op).1 a' := by
  cases op with
  | newInst h id name =>
    refine ⟨a, rfl, ?_⟩
    simp only [step, newInst]
    cases s.heap h with
    | some _ => exact L
    | none => exact ⟨L.wf, L.view, L.len⟩
  | append h st =>
    simp only [step, stepOps, append]
    cases s.heap h with
    | none => exact link_nil L
    | some i0 =>
      simp only
      split
      · exact link_appendFind (link_congr (renumber_nodes s h) (renumber_bufsize s h) L) _ h st
      · exact link_appendFind L _ h st
  | deleteNode i =>
    simp only [step, stepOps, deleteNode]
    cases s.nodes[i]? with
    | none => exact link_nil L
    | some n => exact link_deleteNodeCore L n
  | deleteInst h =>
    simp only [step, stepOps, deleteInst]
    cases s.heap h with
    | none => exact link_nil L
    | some i =>
      simp only
      split
      · cases findFileId s i.fileId with
        | node n => exact link_deleteNodeCore L n
        | none => exact link_nil L
        | dangling => exact link_nil L
      · exact link_nil L
  | changeState i st =>
    refine ⟨a, rfl, ?_⟩
    simp only [step, changeState]
    cases s.nodes[i]? with
    | none => exact L
    | some n =>
      simp only
      split
      · exact L
      · refine ⟨L.wf, ?_, L.len⟩
        rw [L.view]
        simp only [ptrs]
        apply List.ext_getElem?
        intro j
        simp only [List.getElem?_map, List.getElem?_modify]
        by_cases hj : i = j
        · subst hj; cases s.nodes[i]? <;> simp
        · simp [hj]
  | clear =>
    obtain ⟨h1, h2⟩ := clear_spec a L.wf
    refine ⟨GenNodeArray.clear a, rfl, h1, ?_, ?_⟩
    · rw [h2]; simp [ptrs, step, InstMgr.clear]
    · show (dropAll _ a).buf.length = _
      rw [dropAll_length _ a L.wf.le, L.len]; rfl
  | deleteAll =>
    simp only [step, stepOps, deleteAll]
    cases freeAll s.heap s.nodes with
    | none => exact link_nil L
    | some heap =>
      obtain ⟨h1, h2⟩ := deleteEntries_spec a L.wf
      refine ⟨deleteEntries a, rfl, h1, ?_, ?_⟩
      · rw [h2]; simp [ptrs]
      · show (dropAll _ a).buf.length = _
        rw [dropAll_length _ a L.wf.le, L.len]

  | lookup i =>
    obtain ⟨h1, h2, _, _⟩ := check_spec a i L.wf
    refine ⟨check a i, rfl, h1, ?_, ?_⟩
    · rw [h2, L.view]; rfl
    · rw [check_length a i L.wf.le, L.len]; rfl

theorem runBuf_append (a : Arr) (xs ys : List BufOp) :
    runBuf a (xs ++ ys) = (runBuf a xs).bind (fun a' => runBuf a' ys) := by
  induction xs generalizing a with
  | nil => simp [runBuf]
  | cons x xs ih =>
    simp only [List.cons_append, runBuf]
    cases stepBuf a x with
    | none => rfl
    | some a1 => simp only [Option.bind_some]; exact ih a1

theorem link_run {s : State} {a : Arr} (L : Link s a) (ops : List Op) :
    ∃ a', runBuf a (traceOf s ops) = some a' ∧ Link (run s ops) a' := by
  induction ops generalizing s a with
  | nil => exact ⟨a, rfl, L⟩
  | cons op ops ih =>
    obtain ⟨a1, h1, L1⟩ := link_step L op
    obtain ⟨a2, h2, L2⟩ := ih L1
    refine ⟨a2, ?_, L2⟩
    simp only [traceOf, runBuf_append, h1, Option.bind_some, h2]

end StepModel.InstMgr

import StepModel.Generated.GenPyGen
/-!
# `Gen.Py` — what exp2python emits for a schema (src/exp2python/src/classes_python.c, classes_wrapper_python.cc)

The emission rule of `LIBdescribe_entity` / `TYPEprint_descriptions` at the level the property observes it:
class names, base classes, constructor parameters, type definitions, keyword escaping.  Bodies of emitted methods
are not modelled.

* `pyName`      – `is_python_keyword`: identifiers in `keyword_list[]` (regenerated from the C source into
                  `Generated/GenPyGen.lean`) get a trailing underscore; with the regenerated `escapesStems` also a keyword
                  followed by underscores (`class_` → `class__`), so that the escaped `class` and a declared `class_` differ.
* `chainLen`    – `count_supertypes`: length of the longest supertype chain.
* `bases`       – `LISTsort(supertypes, cmp_python_mro)`: the bubble sort of linklist.c swaps neighbours while the left
                  chain is *shorter*; the result is the stable sort by decreasing chain length.  The sort is in place:
                  every later use of the entity's supertype list (its own constructor, `ENTITYget_all_attributes` of
                  its subtypes, which are printed later – `SCOPEget_entities_superclass_order`) sees the sorted list.
* `allAttrs`    – `ENTITYget_all_attributes`: supertypes' attributes (recursively, sorted order, once *per path*)
                  then the entity's own.
* `ctorParams`  – `inherited<i>__<name>` for every explicit (non-derived, non-inverse) attribute of every sorted
                  supertype's `allAttrs`, numbered consecutively, then the entity's own explicit attributes.
-/
namespace StepModel.GenPy
open StepModel.Generated

inductive AKind | explicit | optional | derived | inverse
  deriving DecidableEq, Repr

/-- the declared type of an attribute as far as the emitted setter shows it -/
inductive ATy
  | simple (py : String)        -- INTEGER REAL NUMBER STRING BINARY LOGICAL: `check_type(value, INTEGER)`
  | boolean                     -- `check_type(value, BOOLEAN)` (`BOOLEAN = bool`)
  | named (n : String)          -- a defined type or an entity: `check_type(value, <escaped name>)`
  | aggregate                   -- an aggregate expression written inline: `check_type(value, LIST(…))`
  deriving DecidableEq, Repr

structure Attr where
  owner : String
  name : String
  kind : AKind
  ty : ATy := .simple "INTEGER"
  deriving DecidableEq, Repr

structure Entity where
  name : String
  supers : List String
  attrs : List Attr
  deriving DecidableEq, Repr

/-- an aggregate type expression as `process_aggregate` writes it: `KIND(lo,hi,` + the base + `)`; the base is either
another aggregate (written recursively, **without** a `scope=` argument at this level) or a type name, written
`'name', scope = schema_scope` — only the innermost level carries the scope in which the name is looked up -/
inductive AggT
  | leaf (base : String)
  | agg (kind : String) (lo : Int) (hi : Option Int) (inner : AggT)
  deriving DecidableEq, Repr

def AggT.mapLeaf (f : String → String) : AggT → AggT
  | .leaf b => .leaf (f b)
  | .agg k lo hi i => .agg k lo hi (i.mapLeaf f)

/-- the nesting levels that are given a `scope=` argument (outermost = 0): exactly the innermost one -/
def AggT.scopedLevels : AggT → List Nat
  | .leaf _ => []
  | .agg _ _ _ (.leaf _) => [0]
  | .agg _ _ _ i => i.scopedLevels.map (· + 1)

def AggT.depth : AggT → Nat
  | .leaf _ => 0
  | .agg _ _ _ i => i.depth + 1

/-- underlying type of a defined type, as far as the emitted definition shows it -/
inductive TBody
  | simple (py : String)                 -- `class t(REAL): pass` ; py = REAL INTEGER STRING BINARY NUMBER LOGICAL
  | boolean                              -- `t = bool`
  | defined (ref : String)               -- `class t(ref): pass`
  | enum (items : List String)           -- `t = ENUMERATION('t','a b c ')`
  | select (members : List String)       -- `t = SELECT('a','b',scope = schema_scope)`
  | aggregate (a : AggT)                 -- `t = LIST(lo,hi,'base', scope = …)`, `t = ARRAY(lo,hi,LIST(lo,hi,'base', scope = …))`
  deriving DecidableEq, Repr

structure TypeDef where
  name : String
  body : TBody
  deriving DecidableEq, Repr

structure Schema where
  name : String
  types : List TypeDef
  entities : List Entity
  deriving Repr

def isParam (a : Attr) : Bool := a.kind == .explicit || a.kind == .optional

/-- the word without its trailing underscores (`while( stem > 0 && word[stem - 1] == '_' ) stem--;`) -/
def stem (n : String) : String := String.ofList ((n.toList.reverse.dropWhile (· == '_')).reverse)

/-- what `is_python_keyword` compares with the items of `keyword_list[]`: the word (`strcmp`), or — regenerated
`escapesStems` — the word without its trailing underscores -/
def keywordKey (n : String) : String := if escapesStems then stem n else n

/-- `is_python_keyword` + the trailing underscore -/
def pyName (n : String) : String := if keywordKey n ∈ pythonKeywords then n ++ "_" else n

def find (es : List Entity) (n : String) : Option Entity := es.find? (fun e => e.name == n)

/-- `count_supertypes` (fuel = number of entities suffices for an acyclic schema) -/
def chainLen (es : List Entity) : Nat → String → Nat
  | 0, _ => 0
  | f + 1, n =>
    match find es n with
    | none => 0
    | some e => (e.supers.map (fun p => 1 + chainLen es f p)).foldl max 0

/-- insert keeping decreasing keys; an element goes *before* later elements of equal key (stability) -/
def insertDesc (key : String → Nat) (x : String) : List String → List String
  | [] => [x]
  | y :: ys => if key y > key x then y :: insertDesc key x ys else x :: y :: ys

def sortDesc (key : String → Nat) : List String → List String
  | [] => []
  | x :: xs => insertDesc key x (sortDesc key xs)

/-- the supertype list as `ENTITYget_supertypes` returns it while the module is written: declaration order, unless the
generator sorts it in place (`sortsBases`, regenerated from the C source) -/
def superOrder (es : List Entity) (e : Entity) : List String :=
  if sortsBases then sortDesc (chainLen es es.length) e.supers else e.supers

/-- `ENTITYhas_ancestor( n, anc )`: `anc` is a direct or indirect supertype of `n` -/
def isAncestor (es : List Entity) : Nat → String → String → Bool
  | 0, _, _ => false
  | f + 1, anc, n =>
    match find es n with
    | none => false
    | some e => e.supers.any (fun p => p == anc || isAncestor es f anc p)

/-- `anc` is a direct or indirect supertype of `n` -/
inductive Anc (es : List Entity) : String → String → Prop
  | direct {anc n : String} {e : Entity} : find es n = some e → anc ∈ e.supers → Anc es anc n
  | step {anc p n : String} {e : Entity} : find es n = some e → p ∈ e.supers → Anc es anc p → Anc es anc n

/-- `r` has to wait: a subtype of it is still among the remaining supertypes -/
def blocked (es : List Entity) (r : String) (remaining : List String) : Bool :=
  remaining.any (fun o => o != r && isAncestor es es.length r o)

/-- `python_base_order`: repeatedly take the first remaining supertype that is not an ancestor of another remaining one -/
def pyOrder (es : List Entity) : Nat → List String → List String
  | 0, rem => rem
  | f + 1, rem =>
    match rem with
    | [] => []
    | x :: xs =>
      let r := ((x :: xs).find? (fun r => !blocked es r (x :: xs))).getD x
      r :: pyOrder es f ((x :: xs).erase r)

/-- the emitted base-class list (before escaping) -/
def bases (es : List Entity) (e : Entity) : List String :=
  if ancestorsLast then pyOrder es (superOrder es e).length (superOrder es e) else superOrder es e

/-- keep the first occurrence of every attribute (`LISTadd_attributes_once`: identity of the `Variable`) -/
def dedup : List Attr → List Attr
  | [] => []
  | a :: as => a :: (dedup as).filter (fun b => b ≠ a)

/-- `ENTITYget_all_attributes` over the sorted supertype lists -/
def allAttrs (es : List Entity) : Nat → Entity → List Attr
  | 0, e => e.attrs
  | f + 1, e =>
    ((superOrder es e).flatMap (fun p => match find es p with
        | some pe => allAttrs es f pe
        | none => [])) ++ e.attrs

/-- all attributes of the supertypes, in emission order, once per supertype path -/
def inheritedAll (es : List Entity) (e : Entity) : List Attr :=
  (superOrder es e).flatMap (fun p => match find es p with
      | some pe => allAttrs es es.length pe
      | none => [])

/-- the attributes behind the `inherited<i>__…` parameters: with `inheritedOnce` (regenerated from the C source) every
inherited attribute once (`ENTITYget_inherited_attributes_once`), else once per path -/
def inheritedAttrs (es : List Entity) (e : Entity) : List Attr :=
  (if inheritedOnce then dedup (inheritedAll es e) else inheritedAll es e).filter isParam

def ownParams (e : Entity) : List String := (e.attrs.filter isParam).map (fun a => pyName a.name)

def numbered : Nat → List Attr → List String
  | _, [] => []
  | i, a :: as => ("inherited" ++ toString i ++ "__" ++ pyName a.name) :: numbered (i + 1) as

def ctorParams (es : List Entity) (e : Entity) : List String := numbered 0 (inheritedAttrs es e) ++ ownParams e

/-- an `__init__` is emitted unless the entity has neither explicit attributes nor supertypes -/
def hasCtor (e : Entity) : Bool := !(e.attrs.filter isParam).isEmpty || !e.supers.isEmpty

structure PyClass where
  name : String
  bases : List String            -- `[]` stands for the single base `BaseEntityClass`
  ctor : Option (List String)    -- `none`: no `__init__` emitted
  deriving DecidableEq, Repr

def classOf (es : List Entity) (e : Entity) : PyClass :=
  { name := pyName e.name, bases := (bases es e).map pyName,
    ctor := if hasCtor e then some (ctorParams es e) else none }

/-! ### the class body: one property per own attribute (`LIBdescribe_entity`, "write attributes as python properties") -/

/-- what the emitted setter does -/
inductive Access
  | mandatory      -- `assert value is not None`, then `check_type(value, T)`
  | optional       -- `None` is stored as it is, anything else goes through `check_type(value, T)`
  | derived        -- `raise AssertionError('Argument … is DERIVED …')`
  | inverse        -- `raise AssertionError('Argument … is INVERSE …')`
  deriving DecidableEq, Repr

structure PyProp where
  name : String                 -- the property (and the getter/setter functions) carry the escaped attribute name
  access : Access
  checks : Option String        -- the name handed to `check_type` (`none`: an inline aggregate expression, or read-only)
  deriving DecidableEq, Repr

def accessOf : AKind → Access
  | .explicit => .mandatory | .optional => .optional | .derived => .derived | .inverse => .inverse

def checkedName : ATy → Option String
  | .simple py => some py
  | .boolean => some "BOOLEAN"
  | .named n => some (pyName n)
  | .aggregate => none

def propOf (a : Attr) : PyProp :=
  { name := pyName a.name, access := accessOf a.kind,
    checks := if isParam a then checkedName a.ty else none }

/-- the properties of the class, in the order of `ENTITYget_attributes` (the entity's own attributes only; inherited ones
come with the base classes) -/
def propsOf (e : Entity) : List PyProp := e.attrs.map propOf

def PyProp.settable (p : PyProp) : Bool := p.access == .mandatory || p.access == .optional

/-- Which values of a fixed probe battery the setter stores (`I` = INTEGER(1), `R` = REAL(1.5), `S` = STRING('x'),
`B` = BINARY('01'), `T` = True): `check_type` for a class is `isinstance`; NUMBER is a base class of INTEGER and REAL;
a defined type over BOOLEAN is the alias `bool`; instances of the simple classes are never instances of a defined-type
class, an entity class, an enumeration, a select or an aggregate. -/
def acceptsProbe (types : List TypeDef) (a : Attr) : List Char :=
  if !isParam a then [] else
  match a.ty with
  | .simple "INTEGER" => ['I']
  | .simple "REAL" => ['R']
  | .simple "NUMBER" => ['I', 'R']
  | .simple "STRING" => ['S']
  | .simple "BINARY" => ['B']
  | .simple _ => []
  | .boolean => ['T']
  | .named n => match (types.find? (fun t => t.name == n)).map (fun t => t.body) with
      | some TBody.boolean => ['T']
      | _ => []
  | .aggregate => []

/-- type definitions as emitted: the defined name and every identifier in the body (enumeration items, select members,
the referenced type of a renamed type, the base type of an aggregate) are escaped -/
def typeOf (t : TypeDef) : TypeDef :=
  { name := pyName t.name,
    body := match t.body with
      | .enum items => .enum (items.map pyName)
      | .select ms => .select (ms.map pyName)
      | .defined r => .defined (pyName r)
      | .aggregate a => .aggregate (a.mapLeaf pyName)
      | b => b }

structure PyModule where
  package : String
  classes : List PyClass
  types : List TypeDef
  deriving Repr

def moduleOf (s : Schema) : PyModule :=
  { package := runtimePackage, classes := s.entities.map (classOf s.entities), types := s.types.map typeOf }

/-! ### the property's reading (`Spec.PyMirror`) -/
namespace Spec

/-- the Python keywords an EXPRESS schema can use as identifiers: Python's own hard keywords (regenerated from the
interpreter, `keyword.kwlist`) that are not reserved words of stepcode's EXPRESS scanner (regenerated from lexact.c).
Independent of exp2python's `keyword_list[]`. -/
def pyKeywords : List String := pythonHardKeywords.filter (fun k => !(expressReserved.contains k))

/-- attributes of an entity in declaration order: supertypes (recursively, as declared) then own; an ancestor reached
along several paths appears once per path here -/
def declAttrs (es : List Entity) : Nat → Entity → List Attr
  | 0, e => e.attrs
  | f + 1, e =>
    (e.supers.flatMap (fun p => match find es p with
        | some pe => declAttrs es f pe
        | none => [])) ++ e.attrs

/-- inherited attributes in Part 21 order: declaration order, every attribute once (first occurrence) -/
def inheritedP21 (es : List Entity) (e : Entity) : List Attr :=
  dedup (e.supers.flatMap (fun p => match find es p with
      | some pe => declAttrs es es.length pe
      | none => []))

/-- constructor parameters the property asks for, as attribute names: inherited-then-own explicit attributes in Part 21
order -/
def ctorAttrNames (es : List Entity) (e : Entity) : List String :=
  ((inheritedP21 es e).filter isParam ++ e.attrs.filter isParam).map (fun a => a.name)

end Spec

/-- the attribute names behind the emitted constructor parameters (prefix and escaping removed) -/
def ctorAttrNames (es : List Entity) (e : Entity) : List String :=
  ((inheritedAttrs es e) ++ e.attrs.filter isParam).map (fun a => a.name)

end StepModel.GenPy

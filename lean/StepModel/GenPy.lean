import StepModel.Generated.GenPyGen
/-!
# `Gen.Py` — what exp2python emits for a schema (src/exp2python/src/classes_python.c, classes_wrapper_python.cc)

The emission rule of `LIBdescribe_entity` / `TYPEprint_descriptions` at the level the property observes it:
class names, base classes, constructor parameters, type definitions, keyword escaping.  Bodies of emitted methods
are not modelled.

* `pyName`      – `is_python_keyword`: identifiers in `keyword_list[]` (regenerated from the C source into
                  `Generated/GenPyGen.lean`) get a trailing underscore.
* `chainLen`    – `count_supertypes`: length of the longest supertype chain.
* `bases`       – `LISTsort(supertypes, cmp_python_mro)`: the bubble sort of linklist.c swaps neighbours while the left
                  chain is *shorter*; the result is the stable sort by decreasing chain length.  The sort is in place:
                  every later use of the entity's supertype list (its own constructor, `ENTITYget_all_attributes` of
                  its subtypes, which are printed later – `SCOPEget_entities_superclass_order`) sees the sorted list.
* `allAttrs`    – `ENTITYget_all_attributes`: supertypes' attributes (recursively, sorted order, once *per path*)
                  then the entity's own.
* `ctorParams`  – `inherited<i>__<name>` for every explicit (non-derived, non-inverse) attribute of every sorted
                  supertype's `allAttrs`, numbered consecutively, then the entity's own explicit attributes.
-/
namespace StepModel.GenPy
open StepModel.Generated

inductive AKind | explicit | optional | derived | inverse
  deriving DecidableEq, Repr

structure Attr where
  owner : String
  name : String
  kind : AKind
  deriving DecidableEq, Repr

structure Entity where
  name : String
  supers : List String
  attrs : List Attr
  deriving DecidableEq, Repr

/-- underlying type of a defined type, as far as the emitted definition shows it -/
inductive TBody
  | simple (py : String)                 -- `class t(REAL): pass` ; py = REAL INTEGER STRING BINARY NUMBER LOGICAL
  | boolean                              -- `t = bool`
  | defined (ref : String)               -- `class t(ref): pass`
  | enum (items : List String)           -- `t = ENUMERATION('t','a b c ')`
  | select (members : List String)       -- `t = SELECT('a','b',scope = schema_scope)`
  | aggregate (kind : String) (lo : Int) (hi : Option Int) (base : String)   -- `t = LIST(lo,hi,'base', scope = …)`
  deriving DecidableEq, Repr

structure TypeDef where
  name : String
  body : TBody
  deriving DecidableEq, Repr

structure Schema where
  name : String
  types : List TypeDef
  entities : List Entity
  deriving Repr

def isParam (a : Attr) : Bool := a.kind == .explicit || a.kind == .optional

/-- `is_python_keyword` + the trailing underscore -/
def pyName (n : String) : String := if n ∈ pythonKeywords then n ++ "_" else n

def find (es : List Entity) (n : String) : Option Entity := es.find? (fun e => e.name == n)

/-- `count_supertypes` (fuel = number of entities suffices for an acyclic schema) -/
def chainLen (es : List Entity) : Nat → String → Nat
  | 0, _ => 0
  | f + 1, n =>
    match find es n with
    | none => 0
    | some e => (e.supers.map (fun p => 1 + chainLen es f p)).foldl max 0

/-- insert keeping decreasing keys; an element goes *before* later elements of equal key (stability) -/
def insertDesc (key : String → Nat) (x : String) : List String → List String
  | [] => [x]
  | y :: ys => if key y > key x then y :: insertDesc key x ys else x :: y :: ys

def sortDesc (key : String → Nat) : List String → List String
  | [] => []
  | x :: xs => insertDesc key x (sortDesc key xs)

/-- the emitted base-class list (before escaping) -/
def bases (es : List Entity) (e : Entity) : List String := sortDesc (chainLen es es.length) e.supers

/-- `ENTITYget_all_attributes` over the sorted supertype lists -/
def allAttrs (es : List Entity) : Nat → Entity → List Attr
  | 0, e => e.attrs
  | f + 1, e =>
    ((bases es e).flatMap (fun p => match find es p with
        | some pe => allAttrs es f pe
        | none => [])) ++ e.attrs

def inheritedAttrs (es : List Entity) (e : Entity) : List Attr :=
  ((bases es e).flatMap (fun p => match find es p with
      | some pe => allAttrs es es.length pe
      | none => [])).filter isParam

def ownParams (e : Entity) : List String := (e.attrs.filter isParam).map (fun a => pyName a.name)

def numbered : Nat → List Attr → List String
  | _, [] => []
  | i, a :: as => ("inherited" ++ toString i ++ "__" ++ pyName a.name) :: numbered (i + 1) as

def ctorParams (es : List Entity) (e : Entity) : List String := numbered 0 (inheritedAttrs es e) ++ ownParams e

/-- an `__init__` is emitted unless the entity has neither explicit attributes nor supertypes -/
def hasCtor (e : Entity) : Bool := !(e.attrs.filter isParam).isEmpty || !e.supers.isEmpty

structure PyClass where
  name : String
  bases : List String            -- `[]` stands for the single base `BaseEntityClass`
  ctor : Option (List String)    -- `none`: no `__init__` emitted
  deriving DecidableEq, Repr

def classOf (es : List Entity) (e : Entity) : PyClass :=
  { name := pyName e.name, bases := (bases es e).map pyName,
    ctor := if hasCtor e then some (ctorParams es e) else none }

/-- type definitions as emitted: the defined name and every identifier in the body (enumeration items, select members,
the referenced type of a renamed type, the base type of an aggregate) are escaped -/
def typeOf (t : TypeDef) : TypeDef :=
  { name := pyName t.name,
    body := match t.body with
      | .enum items => .enum (items.map pyName)
      | .select ms => .select (ms.map pyName)
      | .defined r => .defined (pyName r)
      | .aggregate k lo hi b => .aggregate k lo hi (pyName b)
      | b => b }

structure PyModule where
  package : String
  classes : List PyClass
  types : List TypeDef
  deriving Repr

def moduleOf (s : Schema) : PyModule :=
  { package := runtimePackage, classes := s.entities.map (classOf s.entities), types := s.types.map typeOf }

/-! ### the property's reading (`Spec.PyMirror`) -/
namespace Spec

/-- Python keywords that are legal EXPRESS identifiers (all other Python keywords are reserved words of EXPRESS, and
EXPRESS identifiers are case-folded to lower case, so `None/True/False` cannot occur) -/
def pyKeywords : List String :=
  ["assert", "async", "await", "break", "class", "continue", "def", "del", "elif", "except", "finally", "global",
   "import", "is", "lambda", "nonlocal", "pass", "raise", "try", "yield"]

/-- keep the first occurrence of every attribute (an ancestor reached along two paths contributes once) -/
def dedup : List Attr → List Attr
  | [] => []
  | a :: as => a :: (dedup as).filter (fun b => b ≠ a)

/-- inherited-then-own attributes in declaration order, each once: the order of an instance's Part 21 parameters -/
def p21Attrs (es : List Entity) : Nat → Entity → List Attr
  | 0, e => e.attrs
  | f + 1, e =>
    dedup ((e.supers.flatMap (fun p => match find es p with
        | some pe => p21Attrs es f pe
        | none => [])) ++ e.attrs)

/-- constructor parameters the property asks for, as attribute names -/
def ctorAttrNames (es : List Entity) (e : Entity) : List String :=
  ((p21Attrs es es.length e).filter isParam).map (fun a => a.name)

end Spec

/-- the attribute names behind the emitted constructor parameters (prefix and escaping removed) -/
def ctorAttrNames (es : List Entity) (e : Entity) : List String :=
  ((inheritedAttrs es e) ++ e.attrs.filter isParam).map (fun a => a.name)

end StepModel.GenPy

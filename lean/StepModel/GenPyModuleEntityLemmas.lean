import StepModel.GenPyModule
/-!
# Lemmas about the entity part of a Python module's definition order (`GenPy.EntityOrder`, used by `GenPyModule.lean`)

`SCOPE_dfs` appends an entity after its supertypes; "marked" = already in the list or on the recursion stack.  Whatever the fuel,
when the walk returns a list: a call only APPENDS, what it appends was neither in the list nor on the stack, is defined in the scope
and occurs once (`Spec`); a root that is defined in the scope is in the list afterwards.  Hence for the roots = the entities of
the scope (distinct names) the list is a PERMUTATION of them: every entity class is defined exactly once.
-/
namespace StepModel.GenPy.EntityOrder

/-- what a call (or a sequence of calls) with recursion stack `stack` does to the list -/
def Spec (es : List Entity) (stack out out' : List String) : Prop :=
  ∃ new : List String, out' = out ++ new ∧ (∀ x ∈ new, x ∉ out ∧ x ∉ stack ∧ (find es x).isSome = true) ∧ new.Nodup

theorem Spec.refl (es : List Entity) (stack out : List String) : Spec es stack out out := ⟨[], by simp, by simp, by simp⟩

theorem Spec.trans {es : List Entity} {stack a b c : List String} (h1 : Spec es stack a b) (h2 : Spec es stack b c) : Spec es stack a c := by
  obtain ⟨n1, e1, p1, d1⟩ := h1
  obtain ⟨n2, e2, p2, d2⟩ := h2
  refine ⟨n1 ++ n2, by rw [e2, e1, List.append_assoc], ?_, ?_⟩
  · intro x hx
    rcases List.mem_append.mp hx with hx | hx
    · exact p1 x hx
    · have := p2 x hx
      exact ⟨fun ha => this.1 (by rw [e1]; exact List.mem_append_left _ ha), this.2⟩
  · rw [List.nodup_append]
    refine ⟨d1, d2, ?_⟩
    intro x hx y hy exy
    exact (p2 y hy).1 (by rw [e1, ← exy]; exact List.mem_append_right _ hx)

theorem foldlM_spec (es : List Entity) (stack : List String) (g : List String → String → Option (List String))
    (hg : ∀ o p o', g o p = some o' → Spec es stack o o') :
    ∀ (l : List String) (o o' : List String), l.foldlM g o = some o' → Spec es stack o o' := by
  intro l
  induction l with
  | nil => intro o o' h; simp [List.foldlM] at h; rw [h]; exact Spec.refl es stack o'
  | cons a r ih =>
    intro o o' h
    simp only [List.foldlM_cons] at h
    cases hga : g o a with
    | none => rw [hga] at h; cases h
    | some o1 =>
      rw [hga] at h
      exact (hg o a o1 hga).trans (ih o1 o' h)

theorem dfs_spec (es : List Entity) : ∀ (fuel : Nat) (stack out : List String) (n : String) (out' : List String),
    dfs es fuel stack out n = some out' → Spec es stack out out' := by
  intro fuel
  induction fuel with
  | zero => intro stack out n out' h; cases h
  | succ f ih =>
    intro stack out n out' h
    unfold dfs at h
    by_cases hm : n ∈ out ∨ n ∈ stack
    · rw [if_pos hm] at h
      rw [← Option.some.inj h]; exact Spec.refl es stack out
    · rw [if_neg hm] at h
      cases hf : find es n with
      | none => rw [hf] at h; rw [← Option.some.inj h]; exact Spec.refl es stack out
      | some e =>
        rw [hf] at h
        simp only at h
        cases hfold : e.supers.foldlM (fun o p => dfs es f (n :: stack) o p) out with
        | none => rw [hfold] at h; cases h
        | some o =>
          rw [hfold] at h
          have hout : out' = o ++ [n] := (Option.some.inj h).symm
          obtain ⟨new, e1, p1, d1⟩ := foldlM_spec es (n :: stack) (fun o p => dfs es f (n :: stack) o p)
            (fun o p o' hh => ih (n :: stack) o p o' hh) e.supers out o hfold
          have hm' : n ∉ out ∧ n ∉ stack := ⟨fun a => hm (Or.inl a), fun a => hm (Or.inr a)⟩
          refine ⟨new ++ [n], by rw [hout, e1, List.append_assoc], ?_, ?_⟩
          · intro x hx
            rcases List.mem_append.mp hx with hx | hx
            · have := p1 x hx
              exact ⟨this.1, fun a => this.2.1 (List.mem_cons_of_mem _ a), this.2.2⟩
            · have : x = n := by simpa using hx
              subst this
              exact ⟨hm'.1, hm'.2, by rw [hf]; rfl⟩
          · rw [List.nodup_append]
            refine ⟨d1, by simp, ?_⟩
            intro x hx y hy exy
            have : y = n := by simpa using hy
            subst this
            exact (p1 x hx).2.1 (by rw [exy]; exact List.mem_cons_self)

/-- a root that is defined in the scope and not on the stack is in the list when the call returns -/
theorem dfs_root (es : List Entity) (fuel : Nat) (stack out : List String) (n : String) (out' : List String)
    (h : dfs es fuel stack out n = some out') (hs : n ∉ stack) (hd : (find es n).isSome = true) : n ∈ out' := by
  cases fuel with
  | zero => cases h
  | succ f =>
    unfold dfs at h
    by_cases hm : n ∈ out ∨ n ∈ stack
    · rw [if_pos hm] at h
      rw [← Option.some.inj h]
      rcases hm with hm | hm
      · exact hm
      · exact absurd hm hs
    · rw [if_neg hm] at h
      cases hf : find es n with
      | none => rw [hf] at hd; cases hd
      | some e =>
        rw [hf] at h
        simp only at h
        cases hfold : e.supers.foldlM (fun o p => dfs es f (n :: stack) o p) out with
        | none => rw [hfold] at h; cases h
        | some o =>
          rw [hfold] at h
          rw [← Option.some.inj h]
          simp

theorem find_some_mem (es : List Entity) (n : String) (h : (find es n).isSome = true) : n ∈ es.map (·.name) := by
  unfold find at h
  cases hf : es.find? (fun e => e.name == n) with
  | none => rw [hf] at h; cases h
  | some e =>
    have hm := List.mem_of_find?_eq_some hf
    have hn := List.find?_some hf
    exact List.mem_map.mpr ⟨e, hm, by simpa using hn⟩

theorem mem_find_some (es : List Entity) (n : String) (h : n ∈ es.map (·.name)) : (find es n).isSome = true := by
  unfold find
  obtain ⟨e, he, rfl⟩ := List.mem_map.mp h
  cases hf : es.find? (fun x => x.name == e.name) with
  | some _ => rfl
  | none =>
    have := List.find?_eq_none.mp hf e he
    simp at this

/-- **the entity classes of a module are a permutation of the entities of the scope**: when `SCOPEget_entities_superclass_order`
    returns (any fuel), for the roots = the entity names of the scope (distinct), every entity occurs exactly once -/
theorem order_perm (es : List Entity) (hnd : (es.map (·.name)).Nodup) (fuel : Nat) (out : List String)
    (h : order es fuel (es.map (·.name)) = some out) : out.Perm (es.map (·.name)) := by
  unfold order at h
  -- the fold over the roots: appended elements are new, defined, once; every root ends up in the list
  have loop : ∀ (rs : List String) (o o' : List String), rs.foldlM (fun o r => dfs es fuel [] o r) o = some o' →
      Spec es [] o o' ∧ ∀ r ∈ rs, (find es r).isSome = true → r ∈ o' := by
    intro rs
    induction rs with
    | nil => intro o o' hh; simp [List.foldlM] at hh; rw [hh]; exact ⟨Spec.refl es [] o', fun r hr => by cases hr⟩
    | cons a r ih =>
      intro o o' hh
      simp only [List.foldlM_cons] at hh
      cases hga : dfs es fuel [] o a with
      | none => rw [hga] at hh; cases hh
      | some o1 =>
        rw [hga] at hh
        have s1 := dfs_spec es fuel [] o a o1 hga
        have ⟨s2, r2⟩ := ih o1 o' hh
        refine ⟨s1.trans s2, ?_⟩
        intro x hx hd
        rcases List.mem_cons.mp hx with e | e
        · subst e
          have hin := dfs_root es fuel [] o x o1 hga (by simp) hd
          obtain ⟨new, e2, _, _⟩ := s2
          rw [e2]; exact List.mem_append_left _ hin
        · exact r2 x e hd
  obtain ⟨⟨new, e1, p1, d1⟩, hroots⟩ := loop (es.map (·.name)) [] out h
  simp only [List.nil_append] at e1
  subst e1
  refine (List.perm_ext_iff_of_nodup d1 hnd).mpr ?_
  intro x
  constructor
  · intro hx; exact find_some_mem es x (p1 x hx).2.2
  · intro hx; exact hroots x hx (mem_find_some es x hx)

end StepModel.GenPy.EntityOrder

import StepModel.Props.C07
import StepModel.ExpLexLemmas
/-!
Lemmas that join the layout engine (`wrap`/`raw`, `StepModel/ExpPrint.lean`) and the scanner model (`StepModel/ExpLex.lean`):
fragments written as *annotated fragments* (leading blanks, then tokens each followed by some blanks); a static no-glue
condition on a fragment sequence (`SafeSeq`); the invariant `K` ("the text so far is read as the tokens so far, whatever
follows") is kept by `raw` and by `wrap` at every line length, indent, position and last-blank flag.
-/
namespace StepModel.Express
open StepModel.Generated

def blanks (n : Nat) : List Char := List.replicate n ' '

/-- may token `t` directly follow token `t0` (no white space between them) -/
def adjOK (t0 t : Tok) : Bool :=
  match sp t with
  | c :: _ => nextOK t0 c
  | [] => true

theorem adjOK_noGlue (t0 t : Tok) (h : adjOK t0 t = true) (hw : TokWF t) (r : List Char) : NoGlue t0 (sp t ++ r) := by
  obtain ⟨c, _, r', hs, _, _, _⟩ := sp_ends t hw
  rw [hs]
  simp only [adjOK, hs] at h
  exact h

/-- a fragment: `lead` blanks, then tokens, each followed by some blanks -/
structure AFrag where
  isWrap : Bool
  lead : Nat
  body : List (Tok × Nat)

def bodyText : List (Tok × Nat) → List Char
  | [] => []
  | (t, g) :: rest => sp t ++ blanks g ++ bodyText rest

def AFrag.text (a : AFrag) : List Char := blanks a.lead ++ bodyText a.body
def AFrag.frag (a : AFrag) : Frag := if a.isWrap then .wrap a.text else .raw a.text
def AFrag.toks (a : AFrag) : List Tok := a.body.map (·.1)

/-- the token that may glue onto what follows: the last one, unless blanks follow it -/
def nxt (t : Tok) (g : Nat) : Option Tok := if g = 0 then some t else none

def bodySafe : Option Tok → List (Tok × Nat) → Prop
  | _, [] => True
  | prev, (t, g) :: rest => TokWF t ∧ (∀ t0, prev = some t0 → adjOK t0 t = true) ∧ bodySafe (nxt t g) rest

def endAfter : Option Tok → List (Tok × Nat) → Option Tok
  | prev, [] => prev
  | _, (t, g) :: rest => endAfter (nxt t g) rest

theorem bodySafe_none {p : Option Tok} {body : List (Tok × Nat)} (h : bodySafe p body) : bodySafe none body := by
  cases body with
  | nil => trivial
  | cons x rest =>
    obtain ⟨t, g⟩ := x
    exact ⟨h.1, (fun t0 h0 => nomatch h0), h.2.2⟩

theorem bodySafe_refine {p q : Option Tok} {body : List (Tok × Nat)} (hr : p = none ∨ p = q) (h : bodySafe q body) : bodySafe p body := by
  rcases hr with rfl | rfl
  · exact bodySafe_none h
  · exact h

theorem endAfter_refine {p q : Option Tok} (body : List (Tok × Nat)) (hr : p = none ∨ p = q) :
    endAfter p body = none ∨ endAfter p body = endAfter q body := by
  cases body with
  | nil => exact hr
  | cons x rest => obtain ⟨t, g⟩ := x; exact Or.inr rfl

theorem blanks_eq_nil (n : Nat) : blanks n = [] ↔ n = 0 := by
  cases n <;> simp [blanks, List.replicate_succ]

theorem blanks_ws (n : Nat) : (blanks n).all isWsC = true := by
  simp only [blanks, List.all_eq_true]
  intro c hc
  rw [List.mem_replicate] at hc
  rw [hc.2]; decide

theorem not_endsWs_of_last (T : List Char) (d : Char) (hl : T.getLast? = some d) (hd : isWsC d = false) : ¬ EndsWs T := by
  intro ⟨c, hc, hcc⟩
  rw [hl] at hc
  cases hc
  rcases hcc with rfl | rfl <;> simp [isWsC] at hd

theorem getLast?_append_of {T s : List Char} {d : Char} (h : s.getLast? = some d) : (T ++ s).getLast? = some d := by
  rw [List.getLast?_append, h]; rfl

/-- text level: after text read as `TS`, a fragment body is read as its tokens -/
theorem lexInv_body : ∀ (body : List (Tok × Nat)) (T : List Char) (TS : List Tok) (lt : Option Tok),
    LexInv T TS lt → (EndsWs T → lt = none) → bodySafe lt body →
    LexInv (T ++ bodyText body) (TS ++ body.map (·.1)) (endAfter lt body)
      ∧ (EndsWs (T ++ bodyText body) → endAfter lt body = none) := by
  intro body
  induction body with
  | nil => intro T TS lt h hE _; simpa [bodyText, endAfter] using And.intro h hE
  | cons x rest ih =>
    obtain ⟨t, g⟩ := x
    intro T TS lt h hE hs
    obtain ⟨hwf, hadj, hrest⟩ := hs
    have h1 : LexInv (T ++ sp t) (TS ++ [t]) (some t) :=
      h.tok t (reads_of_wf t hwf) (fun t0 h0 rest => adjOK_noGlue t0 t (hadj t0 h0) hwf rest)
    obtain ⟨c, d, r', hsp, _, hlast, hd⟩ := sp_ends t hwf
    have h2 : LexInv (T ++ sp t ++ blanks g) (TS ++ [t]) (nxt t g) ∧ (EndsWs (T ++ sp t ++ blanks g) → nxt t g = none) := by
      by_cases hg : g = 0
      · subst hg
        simp only [blanks, List.replicate_zero, List.append_nil, nxt, if_true]
        exact ⟨h1, fun he => absurd he (not_endsWs_of_last _ d (getLast?_append_of hlast) hd)⟩
      · have hn : nxt t g = none := by simp [nxt, hg]
        rw [hn]
        refine ⟨h1.ws (blanks g) (blanks_ws g) ?_, fun _ => rfl⟩
        intro hb; exact hg ((blanks_eq_nil g).mp hb)
    have := ih (T ++ sp t ++ blanks g) (TS ++ [t]) (nxt t g) h2.1 h2.2 hrest
    simpa [bodyText, endAfter, List.append_assoc] using this

theorem lexInv_piece (T : List Char) (TS : List Tok) (lt : Option Tok) (h : LexInv T TS lt) (hE : EndsWs T → lt = none)
    (ws : List Char) (hws : ws.all isWsC = true) (body : List (Tok × Nat))
    (hsafe : bodySafe (if ws = [] then lt else none) body) :
    LexInv (T ++ ws ++ bodyText body) (TS ++ body.map (·.1)) (endAfter (if ws = [] then lt else none) body)
      ∧ (EndsWs (T ++ ws ++ bodyText body) → endAfter (if ws = [] then lt else none) body = none) := by
  by_cases hw : ws = []
  · subst hw
    simp only [if_true, List.append_nil] at hsafe ⊢
    exact lexInv_body body T TS lt h hE hsafe
  · simp only [hw, if_false] at hsafe ⊢
    exact lexInv_body body (T ++ ws) TS none (h.ws ws hws hw) (fun _ => rfl) hsafe

/-- the invariant of the layout engine on the scanner's side -/
def K (st : PState) (TS : List Tok) (lt : Option Tok) : Prop :=
  Inv st ∧ LexInv st.text TS lt ∧ (EndsWs st.text → lt = none)

/-- static flow of the "last token" through a fragment -/
def AFrag.prev (a : AFrag) (slt : Option Tok) : Option Tok := if a.lead = 0 then slt else none
def AFrag.flow (a : AFrag) (slt : Option Tok) : Option Tok := endAfter (a.prev slt) a.body

theorem K_raw (st : PState) (TS : List Tok) (lt slt : Option Tok) (a : AFrag) (hK : K st TS lt) (hr : lt = none ∨ lt = slt)
    (hs : bodySafe (a.prev slt) a.body) :
    ∃ lt', K (raw st a.text) (TS ++ a.toks) lt' ∧ (lt' = none ∨ lt' = a.flow slt) := by
  obtain ⟨hinv, hlex, hE⟩ := hK
  have hsafe : bodySafe (if blanks a.lead = [] then lt else none) a.body := by
    by_cases hl : a.lead = 0
    · simp only [(blanks_eq_nil _).mpr hl, if_true]
      simp only [AFrag.prev, hl, if_true] at hs
      exact bodySafe_refine hr hs
    · have : blanks a.lead ≠ [] := fun h => hl ((blanks_eq_nil _).mp h)
      simp only [this, if_false]
      exact bodySafe_none hs
  have := lexInv_piece st.text TS lt hlex hE (blanks a.lead) (blanks_ws _) a.body hsafe
  refine ⟨endAfter (if blanks a.lead = [] then lt else none) a.body, ⟨inv_raw st _ hinv, ?_, ?_⟩, ?_⟩
  · rw [text_raw, AFrag.text, ← List.append_assoc]; exact this.1
  · rw [text_raw, AFrag.text, ← List.append_assoc]; exact this.2
  · by_cases hl : a.lead = 0
    · have hb : blanks a.lead = [] := (blanks_eq_nil _).mpr hl
      rw [if_pos hb]
      have : a.flow slt = endAfter slt a.body := by simp [AFrag.flow, AFrag.prev, hl]
      rw [this]
      exact endAfter_refine a.body hr
    · have hb : blanks a.lead ≠ [] := fun h => hl ((blanks_eq_nil _).mp h)
      rw [if_neg hb]
      have : a.flow slt = endAfter none a.body := by simp [AFrag.flow, AFrag.prev, hl]
      rw [this]
      exact Or.inr rfl

/-- `wrap`, with the separation clause: what it removes are leading blanks; and if the fragment began with a blank, then a
line break was inserted, or the text before ends in white space, or one of the blanks is still there -/
theorem wrap_piece (st : PState) (hinv : Inv st) (s : List Char) :
    ∃ sep k, (wrap st s).text = st.text ++ sep ++ s.drop k ∧ (sep = [] ∨ sep = newlinePiece st.indent2)
      ∧ (∀ x ∈ s.take k, x = ' ')
      ∧ (s.head? = some ' ' → sep ≠ [] ∨ EndsWs st.text ∨ (s.drop k).head? = some ' ') := by
  obtain ⟨k1, h1, a1⟩ := strip_eq_drop st.spaceLast s
  obtain ⟨k2, h2, a2⟩ := strip_eq_drop (wrapMid st s).spaceLast (strip st.spaceLast s)
  have hdrop : strip (wrapMid st s).spaceLast (strip st.spaceLast s) = s.drop (k1 + k2) := by
    rw [h2, h1, List.drop_drop]
  have htake : ∀ c ∈ s.take (k1 + k2), c = ' ' := by
    intro c hc
    rw [← List.take_append_drop k1 s, List.take_add] at hc
    rw [h1] at a2
    simp only [List.take_append_drop] at hc
    rcases List.mem_append.mp hc with hc | hc
    · exact a1 c hc
    · exact a2 c hc
  have htext : (wrap st s).text = (wrapMid st s).text ++ s.drop (k1 + k2) := by
    rw [wrap_eq, ← hdrop]; simp [emit, PState.text]
  by_cases hb : wrapBreaks st (strip st.spaceLast s).length = true
  · refine ⟨newlinePiece st.indent2, k1 + k2, ?_, Or.inr rfl, htake, fun _ => Or.inl (by simp [newlinePiece])⟩
    rw [htext]
    simp only [wrapMid, hb, if_true]; rw [text_break]
  · have hmid : wrapMid st s = st := by simp [wrapMid, hb]
    refine ⟨[], k1 + k2, by rw [htext, hmid]; simp, Or.inl rfl, htake, ?_⟩
    intro hhead
    by_cases hsl : st.spaceLast = true
    · exact Or.inr (Or.inl (hinv hsl))
    · right; right
      have hf : st.spaceLast = false := by simpa using hsl
      rw [← hdrop, hmid, hf]
      cases s with
      | nil => simp at hhead
      | cons c rest =>
        have hc : c = ' ' := by simpa using hhead
        subst hc
        obtain ⟨c', r', hh⟩ : ∃ c' r', strip false (' ' :: rest) = c' :: r' := by
          have := strip_false_head _ rest rfl
          cases hst : strip false (' ' :: rest) with
          | nil => rw [hst] at this; simp at this
          | cons c' r' => exact ⟨c', r', rfl⟩
        have hc' : c' = ' ' := by
          have := strip_false_head _ rest rfl; rw [hh] at this; simpa using this
        subst hc'
        rw [hh]
        exact strip_false_head _ r' rfl

theorem bodyText_head (body : List (Tok × Nat)) (hs : bodySafe none body) :
    bodyText body = [] ∨ ∃ c r, bodyText body = c :: r ∧ c ≠ ' ' := by
  cases body with
  | nil => exact Or.inl rfl
  | cons x rest =>
    obtain ⟨t, g⟩ := x
    obtain ⟨c, _, r', hsp, hc, _, _⟩ := sp_ends t hs.1
    refine Or.inr ⟨c, r' ++ blanks g ++ bodyText rest, by simp [bodyText, hsp], ?_⟩
    intro h; subst h; simp [isWsC] at hc

/-- dropping leading blanks of a fragment leaves fewer leading blanks and the whole body -/
theorem drop_blanks_body (n k : Nat) (B : List Char) (hB : B = [] ∨ ∃ c r, B = c :: r ∧ c ≠ ' ')
    (ht : ∀ x ∈ (blanks n ++ B).take k, x = ' ') : (blanks n ++ B).drop k = blanks (n - k) ++ B := by
  rcases hB with rfl | ⟨c, r, rfl, hc⟩
  · simp [blanks, List.drop_replicate]
  · by_cases hk : k ≤ n
    · rw [List.drop_append]
      simp only [blanks, List.drop_replicate, List.length_replicate]
      have : k - n = 0 := by omega
      rw [this]; rfl
    · exfalso
      apply hc
      apply ht
      rw [List.mem_take_iff_getElem]
      refine ⟨n, ?_, ?_⟩
      · simp [blanks]; omega
      · simp [blanks]

theorem K_wrap (st : PState) (TS : List Tok) (lt slt : Option Tok) (a : AFrag) (hK : K st TS lt) (hr : lt = none ∨ lt = slt)
    (hs : bodySafe (a.prev slt) a.body) :
    ∃ lt', K (wrap st a.text) (TS ++ a.toks) lt' ∧ (lt' = none ∨ lt' = a.flow slt) := by
  obtain ⟨hinv, hlex, hE⟩ := hK
  obtain ⟨sep, k, htext, hsep, htake, hhead⟩ := wrap_piece st hinv a.text
  have hB := bodyText_head a.body (bodySafe_none hs)
  have hdrop : a.text.drop k = blanks (a.lead - k) ++ bodyText a.body := drop_blanks_body a.lead k _ hB htake
  have hwsAll : (sep ++ blanks (a.lead - k)).all isWsC = true := by
    rw [List.all_append, blanks_ws, Bool.and_true]
    rcases hsep with rfl | rfl
    · rfl
    · simp only [newlinePiece, List.all_cons, List.all_eq_true, Bool.and_eq_true]
      refine ⟨by decide, ?_⟩
      intro c hc
      rw [List.mem_replicate] at hc
      rw [hc.2]; decide
  have hp : (if sep ++ blanks (a.lead - k) = [] then lt else none) = none
      ∨ (if sep ++ blanks (a.lead - k) = [] then lt else none) = a.prev slt := by
    by_cases hw : sep ++ blanks (a.lead - k) = []
    · rw [if_pos hw]
      obtain ⟨hs1, hs2⟩ := List.append_eq_nil_iff.mp hw
      by_cases hl : a.lead = 0
      · simp only [AFrag.prev, hl, if_true]; exact hr
      · left
        have hh : a.text.head? = some ' ' := by
          cases hlead : a.lead with
          | zero => exact absurd hlead hl
          | succ n => simp [AFrag.text, hlead, blanks, List.replicate_succ]
        rcases hhead hh with h1 | h1 | h1
        · exact absurd hs1 h1
        · exact hE h1
        · exfalso
          rw [hdrop, hs2, List.nil_append] at h1
          rcases hB with hb | ⟨c, r, hb, hc⟩
          · rw [hb] at h1; simp at h1
          · rw [hb] at h1; simp at h1; exact hc h1
    · rw [if_neg hw]; exact Or.inl rfl
  have hsafe := bodySafe_refine hp hs
  have := lexInv_piece st.text TS lt hlex hE (sep ++ blanks (a.lead - k)) hwsAll a.body hsafe
  have ht : (wrap st a.text).text = st.text ++ (sep ++ blanks (a.lead - k)) ++ bodyText a.body := by
    rw [htext, hdrop]; simp [List.append_assoc]
  refine ⟨endAfter (if sep ++ blanks (a.lead - k) = [] then lt else none) a.body, ⟨inv_wrap st _ hinv, ?_, ?_⟩, ?_⟩
  · rw [ht]; exact this.1
  · rw [ht]; exact this.2
  · exact endAfter_refine a.body hp

theorem K_step (st : PState) (TS : List Tok) (lt slt : Option Tok) (a : AFrag) (hK : K st TS lt) (hr : lt = none ∨ lt = slt)
    (hs : bodySafe (a.prev slt) a.body) :
    ∃ lt', K (step st a.frag) (TS ++ a.toks) lt' ∧ (lt' = none ∨ lt' = a.flow slt) := by
  unfold AFrag.frag
  split
  · exact K_wrap st TS lt slt a hK hr hs
  · exact K_raw st TS lt slt a hK hr hs

/-- static no-glue condition on a fragment sequence, given the token that may still be open before it -/
def SafeSeq : Option Tok → List AFrag → Prop
  | _, [] => True
  | slt, a :: as => bodySafe (a.prev slt) a.body ∧ SafeSeq (a.flow slt) as

def flowSeq : Option Tok → List AFrag → Option Tok
  | slt, [] => slt
  | slt, a :: as => flowSeq (a.flow slt) as

theorem safeSeq_append (as bs : List AFrag) : ∀ slt, SafeSeq slt (as ++ bs) ↔ SafeSeq slt as ∧ SafeSeq (flowSeq slt as) bs := by
  induction as with
  | nil => intro slt; simp [SafeSeq, flowSeq]
  | cons a as ih => intro slt; simp [SafeSeq, flowSeq, ih, and_assoc]

theorem flowSeq_append (as bs : List AFrag) : ∀ slt, flowSeq slt (as ++ bs) = flowSeq (flowSeq slt as) bs := by
  induction as with
  | nil => intro slt; rfl
  | cons a as ih => intro slt; simp [flowSeq, ih]

/-- **Part I**: a statically safe fragment sequence, laid out from any state that satisfies `K`, is read as the tokens
so far followed by the sequence's tokens -/
theorem K_run (as : List AFrag) : ∀ (st : PState) (TS : List Tok) (lt slt : Option Tok), K st TS lt → (lt = none ∨ lt = slt) →
    SafeSeq slt as →
    ∃ lt', K (run st (as.map AFrag.frag)) (TS ++ as.flatMap AFrag.toks) lt' ∧ (lt' = none ∨ lt' = flowSeq slt as) := by
  induction as with
  | nil => intro st TS lt slt hK hr _; exact ⟨lt, by simpa [run] using hK, hr⟩
  | cons a as ih =>
    intro st TS lt slt hK hr hs
    obtain ⟨lt1, hK1, hr1⟩ := K_step st TS lt slt a hK hr hs.1
    obtain ⟨lt2, hK2, hr2⟩ := ih (step st a.frag) (TS ++ a.toks) lt1 (a.flow slt) hK1 hr1 hs.2
    refine ⟨lt2, ?_, hr2⟩
    simpa [run, List.flatMap_cons, List.append_assoc] using hK2

end StepModel.Express

import StepModel.Props.C07
import StepModel.ExpLexLemmas
import StepModel.ExpRealLemmas
/-!
Lemmas that join the layout engine (`wrap`/`raw`, `StepModel/ExpPrint.lean`) and the scanner model (`StepModel/ExpLex.lean`):
fragments written as *annotated fragments* (leading blanks, then tokens each followed by some blanks); a static no-glue
condition on a fragment sequence (`SafeSeq`); the invariant `K` ("the text so far is read as the tokens so far, whatever
follows") is kept by `raw` and by `wrap` at every line length, indent, position and last-blank flag.
-/
namespace StepModel.Express
open StepModel.Generated

def blanks (n : Nat) : List Char := List.replicate n ' '

/-- may token `t` directly follow token `t0` (no white space between them) -/
def adjOK (t0 t : Tok) : Bool :=
  match sp t with
  | c :: _ => nextOK t0 c
  | [] => true

theorem adjOK_noGlue (t0 t : Tok) (h : adjOK t0 t = true) (hw : TokWF t) (r : List Char) : NoGlue t0 (sp t ++ r) := by
  obtain ⟨c, _, r', hs, _, _, _⟩ := sp_ends t hw
  rw [hs]
  simp only [adjOK, hs] at h
  exact h

/-- a fragment: `lead` blanks, then tokens, each followed by some blanks -/
structure AFrag where
  isWrap : Bool
  lead : Nat
  body : List (Tok × Nat)

def bodyText : List (Tok × Nat) → List Char
  | [] => []
  | (t, g) :: rest => sp t ++ blanks g ++ bodyText rest

def AFrag.text (a : AFrag) : List Char := blanks a.lead ++ bodyText a.body
def AFrag.frag (a : AFrag) : Frag := if a.isWrap then .wrap a.text else .raw a.text
def AFrag.toks (a : AFrag) : List Tok := a.body.map (·.1)

/-- the token that may glue onto what follows: the last one, unless blanks follow it -/
def nxt (t : Tok) (g : Nat) : Option Tok := if g = 0 then some t else none

def bodySafe : Option Tok → List (Tok × Nat) → Prop
  | _, [] => True
  | prev, (t, g) :: rest => TokWF t ∧ (∀ t0, prev = some t0 → adjOK t0 t = true) ∧ bodySafe (nxt t g) rest

def endAfter : Option Tok → List (Tok × Nat) → Option Tok
  | prev, [] => prev
  | _, (t, g) :: rest => endAfter (nxt t g) rest

theorem bodySafe_none {p : Option Tok} {body : List (Tok × Nat)} (h : bodySafe p body) : bodySafe none body := by
  cases body with
  | nil => trivial
  | cons x rest =>
    obtain ⟨t, g⟩ := x
    exact ⟨h.1, (fun t0 h0 => nomatch h0), h.2.2⟩

theorem bodySafe_refine {p q : Option Tok} {body : List (Tok × Nat)} (hr : p = none ∨ p = q) (h : bodySafe q body) : bodySafe p body := by
  rcases hr with rfl | rfl
  · exact bodySafe_none h
  · exact h

theorem endAfter_refine {p q : Option Tok} (body : List (Tok × Nat)) (hr : p = none ∨ p = q) :
    endAfter p body = none ∨ endAfter p body = endAfter q body := by
  cases body with
  | nil => exact hr
  | cons x rest => obtain ⟨t, g⟩ := x; exact Or.inr rfl

theorem blanks_eq_nil (n : Nat) : blanks n = [] ↔ n = 0 := by
  cases n <;> simp [blanks, List.replicate_succ]

theorem blanks_ws (n : Nat) : (blanks n).all isWsC = true := by
  simp only [blanks, List.all_eq_true]
  intro c hc
  rw [List.mem_replicate] at hc
  rw [hc.2]; decide

theorem not_endsWs_of_last (T : List Char) (d : Char) (hl : T.getLast? = some d) (hd : isWsC d = false) : ¬ EndsWs T := by
  intro ⟨c, hc, hcc⟩
  rw [hl] at hc
  cases hc
  rcases hcc with rfl | rfl <;> simp [isWsC] at hd

theorem getLast?_append_of {T s : List Char} {d : Char} (h : s.getLast? = some d) : (T ++ s).getLast? = some d := by
  rw [List.getLast?_append, h]; rfl

/-- text level: after text read as `TS`, a fragment body is read as its tokens -/
theorem lexInv_body : ∀ (body : List (Tok × Nat)) (T : List Char) (TS : List Tok) (lt : Option Tok),
    LexInv T TS lt → (EndsWs T → lt = none) → bodySafe lt body →
    LexInv (T ++ bodyText body) (TS ++ body.map (·.1)) (endAfter lt body)
      ∧ (EndsWs (T ++ bodyText body) → endAfter lt body = none) := by
  intro body
  induction body with
  | nil => intro T TS lt h hE _; simpa [bodyText, endAfter] using And.intro h hE
  | cons x rest ih =>
    obtain ⟨t, g⟩ := x
    intro T TS lt h hE hs
    obtain ⟨hwf, hadj, hrest⟩ := hs
    obtain ⟨c, d, r', hsp, _, hlast, hd⟩ := sp_ends t hwf
    have h1 : LexInv (T ++ sp t) (TS ++ [t]) (some t) :=
      h.tok t (reads_of_wf t hwf) (by rw [hsp]; simp) (fun t0 h0 rest => adjOK_noGlue t0 t (hadj t0 h0) hwf rest)
    have h2 : LexInv (T ++ sp t ++ blanks g) (TS ++ [t]) (nxt t g) ∧ (EndsWs (T ++ sp t ++ blanks g) → nxt t g = none) := by
      by_cases hg : g = 0
      · subst hg
        simp only [blanks, List.replicate_zero, List.append_nil, nxt, if_true]
        exact ⟨h1, fun he => absurd he (not_endsWs_of_last _ d (getLast?_append_of hlast) hd)⟩
      · have hn : nxt t g = none := by simp [nxt, hg]
        rw [hn]
        refine ⟨h1.ws (blanks g) (blanks_ws g) ?_, fun _ => rfl⟩
        intro hb; exact hg ((blanks_eq_nil g).mp hb)
    have := ih (T ++ sp t ++ blanks g) (TS ++ [t]) (nxt t g) h2.1 h2.2 hrest
    simpa [bodyText, endAfter, List.append_assoc] using this

theorem lexInv_piece (T : List Char) (TS : List Tok) (lt : Option Tok) (h : LexInv T TS lt) (hE : EndsWs T → lt = none)
    (ws : List Char) (hws : ws.all isWsC = true) (body : List (Tok × Nat))
    (hsafe : bodySafe (if ws = [] then lt else none) body) :
    LexInv (T ++ ws ++ bodyText body) (TS ++ body.map (·.1)) (endAfter (if ws = [] then lt else none) body)
      ∧ (EndsWs (T ++ ws ++ bodyText body) → endAfter (if ws = [] then lt else none) body = none) := by
  by_cases hw : ws = []
  · subst hw
    simp only [if_true, List.append_nil] at hsafe ⊢
    exact lexInv_body body T TS lt h hE hsafe
  · simp only [hw, if_false] at hsafe ⊢
    exact lexInv_body body (T ++ ws) TS none (h.ws ws hws hw) (fun _ => rfl) hsafe

/-- the invariant of the layout engine on the scanner's side -/
def K (st : PState) (TS : List Tok) (lt : Option Tok) : Prop :=
  Inv st ∧ LexInv st.text TS lt ∧ (EndsWs st.text → lt = none)

/-- static flow of the "last token" through a fragment -/
def AFrag.prev (a : AFrag) (slt : Option Tok) : Option Tok := if a.lead = 0 then slt else none
def AFrag.flow (a : AFrag) (slt : Option Tok) : Option Tok := endAfter (a.prev slt) a.body

theorem K_raw (st : PState) (TS : List Tok) (lt slt : Option Tok) (a : AFrag) (hK : K st TS lt) (hr : lt = none ∨ lt = slt)
    (hs : bodySafe (a.prev slt) a.body) :
    ∃ lt', K (raw st a.text) (TS ++ a.toks) lt' ∧ (lt' = none ∨ lt' = a.flow slt) := by
  obtain ⟨hinv, hlex, hE⟩ := hK
  have hsafe : bodySafe (if blanks a.lead = [] then lt else none) a.body := by
    by_cases hl : a.lead = 0
    · simp only [(blanks_eq_nil _).mpr hl, if_true]
      simp only [AFrag.prev, hl, if_true] at hs
      exact bodySafe_refine hr hs
    · have : blanks a.lead ≠ [] := fun h => hl ((blanks_eq_nil _).mp h)
      simp only [this, if_false]
      exact bodySafe_none hs
  have := lexInv_piece st.text TS lt hlex hE (blanks a.lead) (blanks_ws _) a.body hsafe
  refine ⟨endAfter (if blanks a.lead = [] then lt else none) a.body, ⟨inv_raw st _ hinv, ?_, ?_⟩, ?_⟩
  · rw [text_raw, AFrag.text, ← List.append_assoc]; exact this.1
  · rw [text_raw, AFrag.text, ← List.append_assoc]; exact this.2
  · by_cases hl : a.lead = 0
    · have hb : blanks a.lead = [] := (blanks_eq_nil _).mpr hl
      rw [if_pos hb]
      have : a.flow slt = endAfter slt a.body := by simp [AFrag.flow, AFrag.prev, hl]
      rw [this]
      exact endAfter_refine a.body hr
    · have hb : blanks a.lead ≠ [] := fun h => hl ((blanks_eq_nil _).mp h)
      rw [if_neg hb]
      have : a.flow slt = endAfter none a.body := by simp [AFrag.flow, AFrag.prev, hl]
      rw [this]
      exact Or.inr rfl

/-- `wrap`, with the separation clause: what it removes are leading blanks; and if the fragment began with a blank, then a
line break was inserted, or the text before ends in white space, or one of the blanks is still there -/
theorem wrap_piece (st : PState) (hinv : Inv st) (s : List Char) :
    ∃ sep k, (wrap st s).text = st.text ++ sep ++ s.drop k ∧ (sep = [] ∨ sep = newlinePiece st.indent2)
      ∧ (∀ x ∈ s.take k, x = ' ')
      ∧ (s.head? = some ' ' → sep ≠ [] ∨ EndsWs st.text ∨ (s.drop k).head? = some ' ') := by
  obtain ⟨k1, h1, a1⟩ := strip_eq_drop st.spaceLast s
  obtain ⟨k2, h2, a2⟩ := strip_eq_drop (wrapMid st s).spaceLast (strip st.spaceLast s)
  have hdrop : strip (wrapMid st s).spaceLast (strip st.spaceLast s) = s.drop (k1 + k2) := by
    rw [h2, h1, List.drop_drop]
  have htake : ∀ c ∈ s.take (k1 + k2), c = ' ' := by
    intro c hc
    rw [← List.take_append_drop k1 s, List.take_add] at hc
    rw [h1] at a2
    simp only [List.take_append_drop] at hc
    rcases List.mem_append.mp hc with hc | hc
    · exact a1 c hc
    · exact a2 c hc
  have htext : (wrap st s).text = (wrapMid st s).text ++ s.drop (k1 + k2) := by
    rw [wrap_eq, ← hdrop]; simp [emit, PState.text]
  by_cases hb : wrapBreaks st (strip st.spaceLast s).length = true
  · refine ⟨newlinePiece st.indent2, k1 + k2, ?_, Or.inr rfl, htake, fun _ => Or.inl (by simp [newlinePiece])⟩
    rw [htext]
    simp only [wrapMid, hb, if_true]; rw [text_break]
  · have hmid : wrapMid st s = st := by simp [wrapMid, hb]
    refine ⟨[], k1 + k2, by rw [htext, hmid]; simp, Or.inl rfl, htake, ?_⟩
    intro hhead
    by_cases hsl : st.spaceLast = true
    · exact Or.inr (Or.inl (hinv hsl))
    · right; right
      have hf : st.spaceLast = false := by simpa using hsl
      rw [← hdrop, hmid, hf]
      cases s with
      | nil => simp at hhead
      | cons c rest =>
        have hc : c = ' ' := by simpa using hhead
        subst hc
        obtain ⟨c', r', hh⟩ : ∃ c' r', strip false (' ' :: rest) = c' :: r' := by
          have := strip_false_head _ rest rfl
          cases hst : strip false (' ' :: rest) with
          | nil => rw [hst] at this; simp at this
          | cons c' r' => exact ⟨c', r', rfl⟩
        have hc' : c' = ' ' := by
          have := strip_false_head _ rest rfl; rw [hh] at this; simpa using this
        subst hc'
        rw [hh]
        exact strip_false_head _ r' rfl

theorem bodyText_head (body : List (Tok × Nat)) (hs : bodySafe none body) :
    bodyText body = [] ∨ ∃ c r, bodyText body = c :: r ∧ c ≠ ' ' := by
  cases body with
  | nil => exact Or.inl rfl
  | cons x rest =>
    obtain ⟨t, g⟩ := x
    obtain ⟨c, _, r', hsp, hc, _, _⟩ := sp_ends t hs.1
    refine Or.inr ⟨c, r' ++ blanks g ++ bodyText rest, by simp [bodyText, hsp], ?_⟩
    intro h; subst h; simp [isWsC] at hc

/-- dropping leading blanks of a fragment leaves fewer leading blanks and the whole body -/
theorem drop_blanks_body (n k : Nat) (B : List Char) (hB : B = [] ∨ ∃ c r, B = c :: r ∧ c ≠ ' ')
    (ht : ∀ x ∈ (blanks n ++ B).take k, x = ' ') : (blanks n ++ B).drop k = blanks (n - k) ++ B := by
  rcases hB with rfl | ⟨c, r, rfl, hc⟩
  · simp [blanks, List.drop_replicate]
  · by_cases hk : k ≤ n
    · rw [List.drop_append]
      simp only [blanks, List.drop_replicate, List.length_replicate]
      have : k - n = 0 := by omega
      rw [this]; rfl
    · exfalso
      apply hc
      apply ht
      rw [List.mem_take_iff_getElem]
      refine ⟨n, ?_, ?_⟩
      · simp [blanks]; omega
      · simp [blanks]

theorem K_wrap (st : PState) (TS : List Tok) (lt slt : Option Tok) (a : AFrag) (hK : K st TS lt) (hr : lt = none ∨ lt = slt)
    (hs : bodySafe (a.prev slt) a.body) :
    ∃ lt', K (wrap st a.text) (TS ++ a.toks) lt' ∧ (lt' = none ∨ lt' = a.flow slt) := by
  obtain ⟨hinv, hlex, hE⟩ := hK
  obtain ⟨sep, k, htext, hsep, htake, hhead⟩ := wrap_piece st hinv a.text
  have hB := bodyText_head a.body (bodySafe_none hs)
  have hdrop : a.text.drop k = blanks (a.lead - k) ++ bodyText a.body := drop_blanks_body a.lead k _ hB htake
  have hwsAll : (sep ++ blanks (a.lead - k)).all isWsC = true := by
    rw [List.all_append, blanks_ws, Bool.and_true]
    rcases hsep with rfl | rfl
    · rfl
    · simp only [newlinePiece, List.all_cons, List.all_eq_true, Bool.and_eq_true]
      refine ⟨by decide, ?_⟩
      intro c hc
      rw [List.mem_replicate] at hc
      rw [hc.2]; decide
  have hp : (if sep ++ blanks (a.lead - k) = [] then lt else none) = none
      ∨ (if sep ++ blanks (a.lead - k) = [] then lt else none) = a.prev slt := by
    by_cases hw : sep ++ blanks (a.lead - k) = []
    · rw [if_pos hw]
      obtain ⟨hs1, hs2⟩ := List.append_eq_nil_iff.mp hw
      by_cases hl : a.lead = 0
      · simp only [AFrag.prev, hl, if_true]; exact hr
      · left
        have hh : a.text.head? = some ' ' := by
          cases hlead : a.lead with
          | zero => exact absurd hlead hl
          | succ n => simp [AFrag.text, hlead, blanks, List.replicate_succ]
        rcases hhead hh with h1 | h1 | h1
        · exact absurd hs1 h1
        · exact hE h1
        · exfalso
          rw [hdrop, hs2, List.nil_append] at h1
          rcases hB with hb | ⟨c, r, hb, hc⟩
          · rw [hb] at h1; simp at h1
          · rw [hb] at h1; simp at h1; exact hc h1
    · rw [if_neg hw]; exact Or.inl rfl
  have hsafe := bodySafe_refine hp hs
  have := lexInv_piece st.text TS lt hlex hE (sep ++ blanks (a.lead - k)) hwsAll a.body hsafe
  have ht : (wrap st a.text).text = st.text ++ (sep ++ blanks (a.lead - k)) ++ bodyText a.body := by
    rw [htext, hdrop]; simp [List.append_assoc]
  refine ⟨endAfter (if sep ++ blanks (a.lead - k) = [] then lt else none) a.body, ⟨inv_wrap st _ hinv, ?_, ?_⟩, ?_⟩
  · rw [ht]; exact this.1
  · rw [ht]; exact this.2
  · exact endAfter_refine a.body hp

theorem K_step (st : PState) (TS : List Tok) (lt slt : Option Tok) (a : AFrag) (hK : K st TS lt) (hr : lt = none ∨ lt = slt)
    (hs : bodySafe (a.prev slt) a.body) :
    ∃ lt', K (step st a.frag) (TS ++ a.toks) lt' ∧ (lt' = none ∨ lt' = a.flow slt) := by
  unfold AFrag.frag
  split
  · exact K_wrap st TS lt slt a hK hr hs
  · exact K_raw st TS lt slt a hK hr hs

/-- static no-glue condition on a fragment sequence, given the token that may still be open before it -/
def SafeSeq : Option Tok → List AFrag → Prop
  | _, [] => True
  | slt, a :: as => bodySafe (a.prev slt) a.body ∧ SafeSeq (a.flow slt) as

def flowSeq : Option Tok → List AFrag → Option Tok
  | slt, [] => slt
  | slt, a :: as => flowSeq (a.flow slt) as

theorem safeSeq_append (as bs : List AFrag) : ∀ slt, SafeSeq slt (as ++ bs) ↔ SafeSeq slt as ∧ SafeSeq (flowSeq slt as) bs := by
  induction as with
  | nil => intro slt; simp [SafeSeq, flowSeq]
  | cons a as ih => intro slt; simp [SafeSeq, flowSeq, ih, and_assoc]

theorem flowSeq_append (as bs : List AFrag) : ∀ slt, flowSeq slt (as ++ bs) = flowSeq (flowSeq slt as) bs := by
  induction as with
  | nil => intro slt; rfl
  | cons a as ih => intro slt; simp [flowSeq, ih]

/-- **Part I**: a statically safe fragment sequence, laid out from any state that satisfies `K`, is read as the tokens
so far followed by the sequence's tokens -/
theorem K_run (as : List AFrag) : ∀ (st : PState) (TS : List Tok) (lt slt : Option Tok), K st TS lt → (lt = none ∨ lt = slt) →
    SafeSeq slt as →
    ∃ lt', K (run st (as.map AFrag.frag)) (TS ++ as.flatMap AFrag.toks) lt' ∧ (lt' = none ∨ lt' = flowSeq slt as) := by
  induction as with
  | nil => intro st TS lt slt hK hr _; exact ⟨lt, by simpa [run] using hK, hr⟩
  | cons a as ih =>
    intro st TS lt slt hK hr hs
    obtain ⟨lt1, hK1, hr1⟩ := K_step st TS lt slt a hK hr hs.1
    obtain ⟨lt2, hK2, hr2⟩ := ih (step st a.frag) (TS ++ a.toks) lt1 (a.flow slt) hK1 hr1 hs.2
    refine ⟨lt2, ?_, hr2⟩
    simpa [run, List.flatMap_cons, List.append_assoc] using hK2

/-! ## Part II: the expression printer's fragments, annotated -/

def aW (body : List (Tok × Nat)) (lead : Nat := 0) : AFrag := ⟨true, lead, body⟩
def aR (body : List (Tok × Nat)) (lead : Nat := 0) : AFrag := ⟨false, lead, body⟩

mutual
/-- `exprFrags Shared.clean`, every fragment split into leading blanks and tokens with the blanks after them -/
def annot : Expr → Bool → Option BinOp → List AFrag
  | .lit l, _, _ => [aW ((litToks l).map fun t => (t, 0))]
  | .ident s, _, _ => [aW [(.id s, 0)]]
  | .bin o a b, paren, prev =>
    (if binParen o paren prev then [aW [(.lp, 1)]] else [])
      ++ annot a true (some o) ++ [aR [] 1, aW [(.op o, 0)], aW [] 1] ++ annot b true (rprev o)
      ++ (if binParen o paren prev then [aR [(.rp, 0)] 1] else [])
  | .neg a, paren, _ =>
    (if paren then [aW [(.lp, 1)]] else []) ++ [aW [(.op .minus, 0)]] ++ annot a true none ++ (if paren then [aR [(.rp, 0)] 1] else [])
  | .not a, paren, _ =>
    (if paren then [aW [(.lp, 1)]] else []) ++ [aW [(.not, 1)]] ++ annot a true none ++ (if paren then [aR [(.rp, 0)] 1] else [])
  | .dot a f, _, _ => annot a true none ++ [aW [(.dot, 0)], aW [(.id f, 0)]]
  | .group a f, _, _ => annot a true none ++ [aW [(.bslash, 0)], aW [(.id f, 0)]]
  | .index a i, _, _ => annot a true none ++ [aW [(.lb, 0)]] ++ annot i (indexParen i) none ++ [aR [(.rb, 0)]]
  | .range a i j, _, _ =>
    annot a true none ++ [aW [(.lb, 0)]] ++ annot i (indexParen i) none ++ [aW [(.colon, 1)] 1] ++ annot j (indexParen j) none ++ [aR [(.rb, 0)]]
  | .query v s c, _, _ =>
    [aW [(.kw "QUERY", 1), (.lp, 1), (.id v, 1), (.allIn, 1)]] ++ annot s true none ++ [aW [(.bar, 1)] 1] ++ annot c true none ++ [aR [(.rp, 0)] 1]
  | .call f args, _, _ => [aW [(.id f, 0), (.lp, 1)]] ++ argA args true ++ [aR [(.rp, 0)] 1]
  | .aggr items, _, _ => [aW [(.lb, 0)]] ++ itemA items true ++ [aR [(.rb, 0)]]
  | .nil, _, _ => []
  | .cons _ _, _, _ => []
  | .rep _ _ _, _, _ => []
def argA : Expr → Bool → List AFrag
  | .cons e t, first => (if first then [] else [aR [(.comma, 1)]]) ++ annot e false none ++ argA t false
  | _, _ => []
def itemA : Expr → Bool → List AFrag
  | .cons e t, first => (if first then [] else [aR [(.comma, 1)]]) ++ annot e false none ++ itemA t false
  | .rep e c t, first =>
    (if first then [] else [aR [(.comma, 1)]]) ++ annot e false none ++ [aR [(.colon, 1)] 1]
      ++ (if ExpPrec.repeatOverwritesCountType then [aW [(countTok c, 0)]] else annot c false none)
      ++ itemA t false
  | _, _ => []
end

/-- literals whose printed form is one token of the scanner model: a real literal in its printed spelling (`real2exp g = g`; any
other is first respelled, `respell`), not simple string literals (a long string literal is split by `breakLongStr`) -/
def LitLex : Lit → Prop
  | .real g => RealSp g ∧ real2exp g = g
  | .str _ => False
  | .estr s => TokWF (.estr s)
  | .bin s => TokWF (.bin s)
  | _ => True

mutual
/-- expressions covered by the character-level theorem: identifiers are words the scanner reads as identifiers, literals as in
`LitLex`, and the operand of `.` is not an integer literal (the resolver rejects that: PE008) -/
def lexWF : Expr → Prop
  | .lit l => LitLex l
  | .ident s => TokWF (.id s)
  | .bin _ a b => lexWF a ∧ lexWF b
  | .neg a | .not a => lexWF a
  | .dot a f => lexWF a ∧ TokWF (.id f) ∧ ∀ n, a ≠ .lit (.int n)
  | .group a f => lexWF a ∧ TokWF (.id f)
  | .index a i => lexWF a ∧ lexWF i
  | .range a i j => lexWF a ∧ lexWF i ∧ lexWF j
  | .query v s c => TokWF (.id v) ∧ lexWF s ∧ lexWF c
  | .call f as => TokWF (.id f) ∧ lexArgs as
  | .aggr is => lexItems is
  | .nil | .cons _ _ | .rep _ _ _ => False
def lexArgs : Expr → Prop
  | .nil => True
  | .cons e t => lexWF e ∧ lexArgs t
  | _ => False
def lexItems : Expr → Prop
  | .nil => True
  | .cons e t => lexWF e ∧ lexItems t
  | .rep e c t => lexWF e ∧ lexWF c ∧ lexItems t
  | _ => False
end

theorem frag_aW_tok (t : Tok) : (aW [(t, 0)]).frag = .wrap (sp t) := by
  simp [aW, AFrag.frag, AFrag.text, bodyText, blanks]
theorem frag_lp : (aW [(.lp, 1)]).frag = W "( " := by decide
theorem frag_rp : (aR [(.rp, 0)] 1).frag = R " )" := by decide
theorem frag_sp_r : (aR [] 1).frag = R " " := by decide
theorem frag_sp_w : (aW [] 1).frag = W " " := by decide
theorem frag_not : (aW [(.not, 1)]).frag = W "NOT " := by decide
theorem frag_minus : (aW [(.op .minus, 0)]).frag = W "-" := by decide
theorem frag_dot : (aW [(.dot, 0)]).frag = W "." := by decide
theorem frag_bslash : (aW [(.bslash, 0)]).frag = W "\\" := by decide
theorem frag_lb : (aW [(.lb, 0)]).frag = W "[" := by decide
theorem frag_rb : (aR [(.rb, 0)]).frag = R "]" := by decide
theorem frag_colon_w : (aW [(.colon, 1)] 1).frag = W " : " := by decide
theorem frag_colon_r : (aR [(.colon, 1)] 1).frag = R " : " := by decide
theorem frag_bar : (aW [(.bar, 1)] 1).frag = W " | " := by decide
theorem frag_comma : (aR [(.comma, 1)]).frag = R ", " := by decide
theorem frag_id (s : String) : (aW [(.id s, 0)]).frag = W s := by rw [frag_aW_tok]; rfl
theorem frag_op (o : BinOp) : (aW [(.op o, 0)]).frag = W o.text := by rw [frag_aW_tok]; rfl
theorem frag_query (v : String) : (aW [(.kw "QUERY", 1), (.lp, 1), (.id v, 1), (.allIn, 1)]).frag = W ("QUERY ( " ++ v ++ " <* ") := by
  have h1 : "QUERY ( ".toList = "QUERY".toList ++ [' ', '(', ' '] := by decide
  have h2 : " <* ".toList = [' ', '<', '*', ' '] := by decide
  simp [aW, AFrag.frag, AFrag.text, bodyText, blanks, W, sp, String.toList_append, h1, h2]
theorem frag_call (f : String) : (aW [(.id f, 0), (.lp, 1)]).frag = W (f ++ "( ") := by
  have h1 : "( ".toList = ['(', ' '] := by decide
  simp [aW, AFrag.frag, AFrag.text, bodyText, blanks, W, sp, String.toList_append, h1]

theorem frag_lit (l : Lit) (h : LitLex l) : (aW ((litToks l).map fun t => (t, 0))).frag = litFrag false l ∧ ∀ b, litFrag b l = litFrag false l := by
  have hb : ExpPrec.binaryPrintedFrom = ExpPrec.binaryStoredIn := by decide
  cases l with
  | real g =>
    obtain ⟨hsp, hfix⟩ := h
    have hnd : (real2exp g).all Char.isDigit = false := real2exp_not_all_digits g (realSp_dot g hsp)
    refine ⟨?_, fun _ => rfl⟩
    simp only [litToks, hnd, Bool.false_eq_true, if_false, List.map]
    rw [frag_aW_tok]
    simp [litFrag, sp, hfix]
  | str s => exact absurd h (by simp [LitLex])
  | int n => exact ⟨by simp only [litToks, List.map]; rw [frag_aW_tok]; rfl, fun _ => rfl⟩
  | estr s =>
    refine ⟨?_, fun _ => rfl⟩
    simp only [litToks, List.map]; rw [frag_aW_tok]
    have h1 : "\"".toList = ['"'] := by decide
    simp [litFrag, W, sp, String.toList_append, h1]
  | bin s =>
    refine ⟨?_, fun _ => rfl⟩
    simp only [litToks, List.map, hb, if_true]; rw [frag_aW_tok]
    have h1 : "%".toList = ['%'] := by decide
    simp [litFrag, W, sp, String.toList_append, h1, hb]
  | ltrue => exact ⟨by decide, fun _ => rfl⟩
  | lfalse => exact ⟨by decide, fun _ => rfl⟩
  | lunknown => exact ⟨by decide, fun _ => rfl⟩
  | pi => exact ⟨by decide, fun _ => rfl⟩
  | e => exact ⟨by decide, fun _ => rfl⟩
  | infinity => exact ⟨by decide, fun _ => rfl⟩
  | self => exact ⟨by decide, fun _ => rfl⟩

theorem toks_aW (b : List (Tok × Nat)) (l : Nat) : (aW b l).toks = b.map (·.1) := rfl
theorem toks_aR (b : List (Tok × Nat)) (l : Nat) : (aR b l).toks = b.map (·.1) := rfl

theorem litToks_map (l : Lit) : ((litToks l).map fun t => (t, 0)).map (·.1) = litToks l := by
  simp [List.map_map, Function.comp_def]

/-- the annotation is the printer's fragment list and carries the printer's tokens -/
theorem annot_eq (e : Expr) :
    (∀ p q, lexWF e → (annot e p q).map AFrag.frag = exprFrags Shared.clean e p q
        ∧ (annot e p q).flatMap AFrag.toks = toks Shared.clean e p q)
    ∧ (∀ fst, lexArgs e → (argA e fst).map AFrag.frag = argFrags Shared.clean e fst
        ∧ (argA e fst).flatMap AFrag.toks = argToks Shared.clean e fst)
    ∧ (∀ fst, lexItems e → (itemA e fst).map AFrag.frag = itemFrags Shared.clean e fst
        ∧ (itemA e fst).flatMap AFrag.toks = itemToks Shared.clean e fst) := by
  have hrep : ExpPrec.repeatOverwritesCountType = false := rfl
  induction e with
  | lit l =>
    refine ⟨?_, fun _ h => absurd h (by simp [lexArgs]), fun _ h => absurd h (by simp [lexItems])⟩
    intro p q h
    simp only [lexWF] at h
    obtain ⟨h1, h2⟩ := frag_lit l h
    simp only [annot, exprFrags, toks, List.map_cons, List.map_nil, List.flatMap_cons, List.flatMap_nil, List.append_nil, toks_aW,
      litToks_map, h1, h2 (p && q != some BinOp.plus)]
    simp
  | ident s =>
    refine ⟨?_, fun _ h => absurd h (by simp [lexArgs]), fun _ h => absurd h (by simp [lexItems])⟩
    intro p q _
    simp [annot, exprFrags, toks, frag_id, toks_aW]
  | bin o a b iha ihb =>
    refine ⟨?_, fun _ h => absurd h (by simp [lexArgs]), fun _ h => absurd h (by simp [lexItems])⟩
    intro p q h
    simp only [lexWF] at h
    obtain ⟨a1, a2⟩ := iha.1 true (some o) h.1
    obtain ⟨b1, b2⟩ := ihb.1 true (rprev o) h.2
    by_cases hp : binParen o p q = true <;>
      simp [annot, exprFrags, toks, hp, a1, a2, b1, b2, padded_all, frag_lp, frag_rp, frag_sp_r, frag_sp_w, frag_op, toks_aW, toks_aR]
  | neg a iha =>
    refine ⟨?_, fun _ h => absurd h (by simp [lexArgs]), fun _ h => absurd h (by simp [lexItems])⟩
    intro p q h
    simp only [lexWF] at h
    obtain ⟨a1, a2⟩ := iha.1 true none h
    have hm : BinOp.minus.text = "-" := by decide
    cases p <;> simp [annot, exprFrags, toks, a1, a2, frag_lp, frag_rp, frag_minus, toks_aW, toks_aR]
  | not a iha =>
    refine ⟨?_, fun _ h => absurd h (by simp [lexArgs]), fun _ h => absurd h (by simp [lexItems])⟩
    intro p q h
    simp only [lexWF] at h
    obtain ⟨a1, a2⟩ := iha.1 true none h
    cases p <;> simp [annot, exprFrags, toks, a1, a2, frag_lp, frag_rp, frag_not, toks_aW, toks_aR]
  | dot a f iha =>
    refine ⟨?_, fun _ h => absurd h (by simp [lexArgs]), fun _ h => absurd h (by simp [lexItems])⟩
    intro p q h
    simp only [lexWF] at h
    obtain ⟨a1, a2⟩ := iha.1 true none h.1
    simp [annot, exprFrags, toks, a1, a2, frag_dot, frag_id, toks_aW]
  | group a f iha =>
    refine ⟨?_, fun _ h => absurd h (by simp [lexArgs]), fun _ h => absurd h (by simp [lexItems])⟩
    intro p q h
    simp only [lexWF] at h
    obtain ⟨a1, a2⟩ := iha.1 true none h.1
    simp [annot, exprFrags, toks, a1, a2, frag_bslash, frag_id, toks_aW]
  | index a i iha ihi =>
    refine ⟨?_, fun _ h => absurd h (by simp [lexArgs]), fun _ h => absurd h (by simp [lexItems])⟩
    intro p q h
    simp only [lexWF] at h
    obtain ⟨a1, a2⟩ := iha.1 true none h.1
    obtain ⟨i1, i2⟩ := ihi.1 (indexParen i) none h.2
    simp [annot, exprFrags, toks, a1, a2, i1, i2, frag_lb, frag_rb, toks_aW, toks_aR]
  | range a i j iha ihi ihj =>
    refine ⟨?_, fun _ h => absurd h (by simp [lexArgs]), fun _ h => absurd h (by simp [lexItems])⟩
    intro p q h
    simp only [lexWF] at h
    obtain ⟨a1, a2⟩ := iha.1 true none h.1
    obtain ⟨i1, i2⟩ := ihi.1 (indexParen i) none h.2.1
    obtain ⟨j1, j2⟩ := ihj.1 (indexParen j) none h.2.2
    simp [annot, exprFrags, toks, a1, a2, i1, i2, j1, j2, frag_lb, frag_rb, frag_colon_w, toks_aW, toks_aR]
  | query v s c ihs ihc =>
    refine ⟨?_, fun _ h => absurd h (by simp [lexArgs]), fun _ h => absurd h (by simp [lexItems])⟩
    intro p q h
    simp only [lexWF] at h
    obtain ⟨s1, s2⟩ := ihs.1 true none h.2.1
    obtain ⟨c1, c2⟩ := ihc.1 true none h.2.2
    simp [annot, exprFrags, toks, s1, s2, c1, c2, frag_query, frag_bar, frag_rp, toks_aW, toks_aR]
  | call f args ih =>
    refine ⟨?_, fun _ h => absurd h (by simp [lexArgs]), fun _ h => absurd h (by simp [lexItems])⟩
    intro p q h
    simp only [lexWF] at h
    obtain ⟨s1, s2⟩ := ih.2.1 true h.2
    simp [annot, exprFrags, toks, s1, s2, frag_call, frag_rp, toks_aW, toks_aR]
  | aggr items ih =>
    refine ⟨?_, fun _ h => absurd h (by simp [lexArgs]), fun _ h => absurd h (by simp [lexItems])⟩
    intro p q h
    simp only [lexWF] at h
    obtain ⟨s1, s2⟩ := ih.2.2 true h
    simp [annot, exprFrags, toks, s1, s2, frag_lb, frag_rb, toks_aW, toks_aR]
  | nil =>
    refine ⟨fun _ _ h => absurd h (by simp [lexWF]), ?_, ?_⟩
    · intro fst _; simp [argA, argFrags, argToks]
    · intro fst _; simp [itemA, itemFrags, itemToks]
  | cons e t ihe iht =>
    refine ⟨fun _ _ h => absurd h (by simp [lexWF]), ?_, ?_⟩
    · intro fst h
      simp only [lexArgs] at h
      obtain ⟨e1, e2⟩ := ihe.1 false none h.1
      obtain ⟨t1, t2⟩ := iht.2.1 false h.2
      cases fst <;> simp [argA, argFrags, argToks, e1, e2, t1, t2, frag_comma, toks_aR]
    · intro fst h
      simp only [lexItems] at h
      obtain ⟨e1, e2⟩ := ihe.1 false none h.1
      obtain ⟨t1, t2⟩ := iht.2.2 false h.2
      cases fst <;> simp [itemA, itemFrags, itemToks, e1, e2, t1, t2, frag_comma, toks_aR, sharedRep_clean]
  | rep e c t ihe ihc iht =>
    refine ⟨fun _ _ h => absurd h (by simp [lexWF]), fun _ h => absurd h (by simp [lexArgs]), ?_⟩
    intro fst h
    simp only [lexItems] at h
    obtain ⟨e1, e2⟩ := ihe.1 false none h.1
    obtain ⟨c1, c2⟩ := ihc.1 false none h.2.1
    obtain ⟨t1, t2⟩ := iht.2.2 false h.2.2
    cases fst <;> simp [itemA, itemFrags, itemToks, e1, e2, c1, c2, t1, t2, frag_comma, frag_colon_r, toks_aR, sharedRep_clean, hrep]

/-! ### static safety of the annotated expression fragments -/

/-- tokens an expression's output can end with (and `[`, after which anything may follow) -/
def endTok : Tok → Bool
  | .id _ | .kw _ | .bin _ | .estr _ | .str _ | .rp | .rb | .lb | .int _ | .real _ => true
  | _ => false

def EndO (lt : Option Tok) : Prop := ∀ t, lt = some t → endTok t = true
def NotInt (lt : Option Tok) : Prop := ∀ n, lt ≠ some (.int n)
/-- what may be open before an expression printed with `paren = p` -/
def Pre (slt : Option Tok) (p : Bool) : Prop := slt = none ∨ slt = some .lb ∨ (slt = some (.op .minus) ∧ p = true)

/-- does the printed expression end with an integer literal -/
def intEnd : Expr → Bool → Option BinOp → Bool
  | .lit (.int _), _, _ => true
  | .bin o _ b, p, q => !binParen o p q && intEnd b true (rprev o)
  | .neg a, p, _ => !p && intEnd a true none
  | .not a, p, _ => !p && intEnd a true none
  | _, _, _ => false

def Post (e : Expr) (p : Bool) (q : Option BinOp) (lt : Option Tok) : Prop := EndO lt ∧ (intEnd e p q = false → NotInt lt)

theorem adj_end (t : Tok) (h : endTok t = true) :
    adjOK t .comma = true ∧ adjOK t .rb = true ∧ adjOK t .lb = true ∧ adjOK t .bslash = true
      ∧ ((∀ n, t ≠ .int n) → adjOK t .dot = true) := by
  cases t <;> simp [endTok] at h <;> simp (decide := true) [adjOK, sp, nextOK]

theorem adj_lb (t : Tok) : adjOK .lb t = true := by
  simp only [adjOK, nextOK]; split <;> simp

theorem adj_minus (t : Tok) (h : ∀ r, sp t ≠ '-' :: r) : adjOK (.op .minus) t = true := by
  have hm : BinOp.minus.text.toList.all idChar = false := by decide
  unfold adjOK
  cases hs : sp t with
  | nil => rfl
  | cons c r =>
    have : c ≠ '-' := fun hc => h r (by rw [hs, hc])
    simp [nextOK, hm, this]

theorem pre_adj {slt : Option Tok} {p : Bool} (hpre : Pre slt p) (t : Tok) (h : p = true → ∀ r, sp t ≠ '-' :: r) :
    ∀ t0, slt = some t0 → adjOK t0 t = true := by
  intro t0 h0
  rcases hpre with h1 | h1 | ⟨h1, hp⟩
  · rw [h1] at h0; cases h0
  · rw [h1] at h0; cases h0; exact adj_lb t
  · rw [h1] at h0; cases h0; exact adj_minus t (h hp)

theorem id_no_minus (s : String) (h : TokWF (.id s)) : ∀ r, sp (.id s) ≠ '-' :: r := by
  obtain ⟨⟨c, r', hs, ha⟩, _, _⟩ := h
  intro r hr
  simp only [sp] at hr
  rw [hs] at hr
  cases hr
  revert ha; decide

theorem int_no_minus (n : Nat) : ∀ r, sp (.int n) ≠ '-' :: r := by
  intro r hr
  rw [sp_int] at hr
  have hdig : ∀ x ∈ Nat.toDigits 10 n, x.isDigit = true := fun x hx => Nat.isDigit_of_mem_toDigits (by omega) (by omega) hx
  have := hdig '-' (by rw [hr]; simp)
  revert this; decide

def startsMinus : List Char → Bool
  | '-' :: _ => true
  | _ => false

theorem no_minus_of (t : Tok) (h : startsMinus (sp t) = false) : ∀ r, sp t ≠ '-' :: r := by
  intro r hr; rw [hr] at h; simp [startsMinus] at h

theorem post_some {e : Expr} {p : Bool} {q : Option BinOp} (t : Tok) (h1 : endTok t = true)
    (h2 : intEnd e p q = false → ∀ n, t ≠ .int n) : Post e p q (some t) :=
  ⟨fun t' h => by cases h; exact h1, fun hi n hn => by cases hn; exact h2 hi n rfl⟩

theorem pre_true {slt : Option Tok} {p : Bool} (h : Pre slt p) : Pre slt true := by
  rcases h with h | h | ⟨h, _⟩
  · exact Or.inl h
  · exact Or.inr (Or.inl h)
  · exact Or.inr (Or.inr ⟨h, rfl⟩)

theorem wf_lp : TokWF .lp := trivial
theorem wf_rp : TokWF .rp := trivial
theorem wf_lb : TokWF .lb := trivial
theorem wf_rb : TokWF .rb := trivial
theorem wf_comma : TokWF .comma := trivial
theorem wf_colon : TokWF .colon := trivial
theorem wf_dot : TokWF .dot := trivial
theorem wf_bslash : TokWF .bslash := trivial
theorem wf_bar : TokWF .bar := trivial
theorem wf_allIn : TokWF .allIn := trivial
theorem wf_op (o : BinOp) : TokWF (.op o) := trivial
theorem wf_not : TokWF .not := trivial
theorem wf_query : TokWF (.kw "QUERY") := by simp [TokWF]

theorem adj_dot (t : Tok) : adjOK .dot t = true := by
  simp only [adjOK, nextOK]; split <;> simp
theorem adj_bslash (t : Tok) : adjOK .bslash t = true := by
  simp only [adjOK, nextOK]; split <;> simp
theorem adj_id_lp (f : String) : adjOK (.id f) .lp = true := by
  simp (decide := true) [adjOK, sp, nextOK]

theorem intEnd_operand (a : Expr) (h : ∀ n, a ≠ .lit (.int n)) : intEnd a true none = false := by
  cases a with
  | lit l => cases l <;> first | rfl | exact absurd rfl (h _)
  | bin o x y => simp [intEnd, binParen, padded_all]
  | _ => simp [intEnd]

theorem endO_adj {lt : Option Tok} (h : EndO lt) :
    (∀ t0, lt = some t0 → adjOK t0 .comma = true) ∧ (∀ t0, lt = some t0 → adjOK t0 .rb = true)
      ∧ (∀ t0, lt = some t0 → adjOK t0 .lb = true) ∧ (∀ t0, lt = some t0 → adjOK t0 .bslash = true) :=
  ⟨fun t0 h0 => (adj_end t0 (h t0 h0)).1, fun t0 h0 => (adj_end t0 (h t0 h0)).2.1,
   fun t0 h0 => (adj_end t0 (h t0 h0)).2.2.1, fun t0 h0 => (adj_end t0 (h t0 h0)).2.2.2.1⟩

theorem safe_lit (l : Lit) (h : LitLex l) (p : Bool) (q : Option BinOp) (slt : Option Tok) (hpre : Pre slt p) :
    SafeSeq slt (annot (.lit l) p q) ∧ Post (.lit l) p q (flowSeq slt (annot (.lit l) p q)) := by
  have hb : ExpPrec.binaryPrintedFrom = ExpPrec.binaryStoredIn := by decide
  have key : ∀ t : Tok, litToks l = [t] → TokWF t → startsMinus (sp t) = false → endTok t = true →
      ((∀ n, l ≠ .int n) → ∀ n, t ≠ .int n) →
      SafeSeq slt (annot (.lit l) p q) ∧ Post (.lit l) p q (flowSeq slt (annot (.lit l) p q)) := by
    intro t ht hwf hm he hni
    simp only [annot, ht, List.map, SafeSeq, flowSeq, AFrag.prev, AFrag.flow, aW, bodySafe, endAfter, nxt, if_true, and_true]
    refine ⟨⟨hwf, pre_adj hpre _ (fun _ => no_minus_of t hm)⟩, post_some _ he ?_⟩
    intro hi
    apply hni
    intro n hn; subst hn; simp [intEnd] at hi
  cases l with
  | real g =>
    obtain ⟨hsp, hfix⟩ := h
    have hnd : (real2exp g).all Char.isDigit = false := real2exp_not_all_digits g (realSp_dot g hsp)
    apply key (.real g) (by simp [litToks, hnd]) hsp ?_ rfl (fun _ n hn => by cases hn)
    obtain ⟨ds, fs, ex, rfl, hne, hds, _, _⟩ := hsp
    cases ds with
    | nil => exact absurd rfl hne
    | cons c ds' =>
      simp only [List.all_cons, Bool.and_eq_true] at hds
      have hc : c ≠ '-' := by
        rintro rfl
        have := hds.1
        revert this; decide
      simp only [sp, List.cons_append]
      unfold startsMinus
      split
      · rename_i heq; injection heq with h1 _; exact absurd h1 hc
      · rfl
  | str s => exact absurd h (by simp [LitLex])
  | int n =>
    apply key (.int n) rfl trivial ?_ rfl (fun hh m _ => hh n rfl)
    cases hs : sp (.int n) with
    | nil => rfl
    | cons c r =>
      unfold startsMinus
      split
      · rename_i heq; injection heq with h1 h2; subst h1; exact absurd hs (int_no_minus n _)
      · rfl
  | estr s => exact key (.estr s) rfl h (by simp [sp, startsMinus]) rfl (fun _ n hn => by cases hn)
  | bin s =>
    apply key (.bin s) (by simp [litToks, hb]) h (by simp [sp, startsMinus]) rfl (fun _ n hn => by cases hn)
  | ltrue => exact key (.kw "TRUE") rfl (by simp [TokWF]) (by decide) rfl (fun _ n hn => by cases hn)
  | lfalse => exact key (.kw "FALSE") rfl (by simp [TokWF]) (by decide) rfl (fun _ n hn => by cases hn)
  | lunknown => exact key (.kw "UNKNOWN") rfl (by simp [TokWF]) (by decide) rfl (fun _ n hn => by cases hn)
  | pi => exact key (.kw "PI") (by simp [litToks]) (by simp [TokWF]) (by decide) rfl (fun _ n hn => by cases hn)
  | e => exact key (.kw "CONST_E") (by simp [litToks]) (by simp [TokWF]) (by decide) rfl (fun _ n hn => by cases hn)
  | infinity => exact key (.kw "?") rfl (by simp [TokWF]) (by decide) rfl (fun _ n hn => by cases hn)
  | self => exact key (.kw "SELF") rfl (by simp [TokWF]) (by decide) rfl (fun _ n hn => by cases hn)

theorem safe_all (e : Expr) :
    (∀ p q slt, lexWF e → Pre slt p → SafeSeq slt (annot e p q) ∧ Post e p q (flowSeq slt (annot e p q)))
    ∧ (∀ fst slt, lexArgs e → (fst = true → slt = none) → (fst = false → EndO slt) → SafeSeq slt (argA e fst))
    ∧ (∀ fst slt, lexItems e → (fst = true → slt = some .lb) → (fst = false → EndO slt) →
        SafeSeq slt (itemA e fst) ∧ EndO (flowSeq slt (itemA e fst))) := by
  have hrep : ExpPrec.repeatOverwritesCountType = false := rfl
  have lpm : ∀ r, sp .lp ≠ '-' :: r := no_minus_of _ rfl
  have lbm : ∀ r, sp .lb ≠ '-' :: r := no_minus_of _ rfl
  induction e with
  | lit l =>
    refine ⟨?_, fun _ _ h => absurd h (by simp [lexArgs]), fun _ _ h => absurd h (by simp [lexItems])⟩
    intro p q slt h hpre
    exact safe_lit l h p q slt hpre
  | ident s =>
    refine ⟨?_, fun _ _ h => absurd h (by simp [lexArgs]), fun _ _ h => absurd h (by simp [lexItems])⟩
    intro p q slt h hpre
    simp only [lexWF] at h
    simp only [annot, SafeSeq, flowSeq, AFrag.prev, AFrag.flow, aW, bodySafe, endAfter, nxt, if_true, and_true]
    exact ⟨⟨h, pre_adj hpre _ (fun _ => id_no_minus s h)⟩, post_some (.id s) rfl (fun _ n hn => by cases hn)⟩
  | bin o a b iha ihb =>
    refine ⟨?_, fun _ _ h => absurd h (by simp [lexArgs]), fun _ _ h => absurd h (by simp [lexItems])⟩
    intro p q slt h hpre
    simp only [lexWF] at h
    obtain ⟨b1, b2⟩ := ihb.1 true (rprev o) none h.2 (Or.inl rfl)
    by_cases hp : binParen o p q = true
    · obtain ⟨a1, a2⟩ := iha.1 true (some o) none h.1 (Or.inl rfl)
      simp [annot, hp, safeSeq_append, flowSeq_append, SafeSeq, flowSeq, AFrag.prev, AFrag.flow, aW, aR, bodySafe, endAfter, nxt, wf_lp, wf_rp, wf_lb, wf_rb, wf_comma, wf_colon, wf_dot, wf_bslash, wf_bar, wf_allIn, wf_op, wf_not, wf_query, a1, b1]
      exact ⟨pre_adj hpre _ (fun _ => lpm), post_some .rp rfl (fun _ n hn => by cases hn)⟩
    · obtain ⟨a1, a2⟩ := iha.1 true (some o) slt h.1 (pre_true hpre)
      simp [annot, hp, safeSeq_append, flowSeq_append, SafeSeq, flowSeq, AFrag.prev, AFrag.flow, aW, aR, bodySafe, endAfter, nxt, wf_lp, wf_rp, wf_lb, wf_rb, wf_comma, wf_colon, wf_dot, wf_bslash, wf_bar, wf_allIn, wf_op, wf_not, wf_query, a1, b1]
      exact ⟨b2.1, fun hi => b2.2 (by simpa [intEnd, hp] using hi)⟩
  | neg a iha =>
    refine ⟨?_, fun _ _ h => absurd h (by simp [lexArgs]), fun _ _ h => absurd h (by simp [lexItems])⟩
    intro p q slt h hpre
    simp only [lexWF] at h
    obtain ⟨a1, a2⟩ := iha.1 true none (some (.op .minus)) h (Or.inr (Or.inr ⟨rfl, rfl⟩))
    cases p with
    | true =>
      simp [annot, safeSeq_append, flowSeq_append, SafeSeq, flowSeq, AFrag.prev, AFrag.flow, aW, aR, bodySafe, endAfter, nxt, wf_lp, wf_rp, wf_lb, wf_rb, wf_comma, wf_colon, wf_dot, wf_bslash, wf_bar, wf_allIn, wf_op, wf_not, wf_query, a1]
      exact ⟨pre_adj hpre _ (fun _ => lpm), post_some .rp rfl (fun _ n hn => by cases hn)⟩
    | false =>
      simp [annot, safeSeq_append, flowSeq_append, SafeSeq, flowSeq, AFrag.prev, AFrag.flow, aW, aR, bodySafe, endAfter, nxt, wf_lp, wf_rp, wf_lb, wf_rb, wf_comma, wf_colon, wf_dot, wf_bslash, wf_bar, wf_allIn, wf_op, wf_not, wf_query, a1]
      refine ⟨pre_adj hpre _ (fun hh => by cases hh), a2.1, fun hi => a2.2 (by simpa [intEnd] using hi)⟩
  | not a iha =>
    refine ⟨?_, fun _ _ h => absurd h (by simp [lexArgs]), fun _ _ h => absurd h (by simp [lexItems])⟩
    intro p q slt h hpre
    simp only [lexWF] at h
    obtain ⟨a1, a2⟩ := iha.1 true none none h (Or.inl rfl)
    cases p with
    | true =>
      simp [annot, safeSeq_append, flowSeq_append, SafeSeq, flowSeq, AFrag.prev, AFrag.flow, aW, aR, bodySafe, endAfter, nxt, wf_lp, wf_rp, wf_lb, wf_rb, wf_comma, wf_colon, wf_dot, wf_bslash, wf_bar, wf_allIn, wf_op, wf_not, wf_query, a1]
      exact ⟨pre_adj hpre _ (fun _ => lpm), post_some .rp rfl (fun _ n hn => by cases hn)⟩
    | false =>
      simp [annot, safeSeq_append, flowSeq_append, SafeSeq, flowSeq, AFrag.prev, AFrag.flow, aW, aR, bodySafe, endAfter, nxt, wf_lp, wf_rp, wf_lb, wf_rb, wf_comma, wf_colon, wf_dot, wf_bslash, wf_bar, wf_allIn, wf_op, wf_not, wf_query, a1]
      refine ⟨pre_adj hpre _ (fun hh => by cases hh), a2.1, fun hi => a2.2 (by simpa [intEnd] using hi)⟩
  | dot a f iha =>
    refine ⟨?_, fun _ _ h => absurd h (by simp [lexArgs]), fun _ _ h => absurd h (by simp [lexItems])⟩
    intro p q slt h hpre
    simp only [lexWF] at h
    obtain ⟨a1, a2⟩ := iha.1 true none slt h.1 (pre_true hpre)
    have hni := a2.2 (intEnd_operand a h.2.2)
    simp [annot, safeSeq_append, flowSeq_append, SafeSeq, flowSeq, AFrag.prev, AFrag.flow, aW, aR, bodySafe, endAfter, nxt, wf_lp, wf_rp, wf_lb, wf_rb, wf_comma, wf_colon, wf_dot, wf_bslash, wf_bar, wf_allIn, wf_op, wf_not, wf_query, a1]
    exact ⟨⟨fun t0 h0 => (adj_end t0 (a2.1 t0 h0)).2.2.2.2 (fun n hn => hni n (by rw [h0, hn])), h.2.1, adj_dot _⟩,
      post_some (.id f) rfl (fun _ n hn => by cases hn)⟩
  | group a f iha =>
    refine ⟨?_, fun _ _ h => absurd h (by simp [lexArgs]), fun _ _ h => absurd h (by simp [lexItems])⟩
    intro p q slt h hpre
    simp only [lexWF] at h
    obtain ⟨a1, a2⟩ := iha.1 true none slt h.1 (pre_true hpre)
    simp [annot, safeSeq_append, flowSeq_append, SafeSeq, flowSeq, AFrag.prev, AFrag.flow, aW, aR, bodySafe, endAfter, nxt, wf_lp, wf_rp, wf_lb, wf_rb, wf_comma, wf_colon, wf_dot, wf_bslash, wf_bar, wf_allIn, wf_op, wf_not, wf_query, a1]
    exact ⟨⟨(endO_adj a2.1).2.2.2, h.2, adj_bslash _⟩, post_some (.id f) rfl (fun _ n hn => by cases hn)⟩
  | index a i iha ihi =>
    refine ⟨?_, fun _ _ h => absurd h (by simp [lexArgs]), fun _ _ h => absurd h (by simp [lexItems])⟩
    intro p q slt h hpre
    simp only [lexWF] at h
    obtain ⟨a1, a2⟩ := iha.1 true none slt h.1 (pre_true hpre)
    obtain ⟨i1, i2⟩ := ihi.1 (indexParen i) none (some .lb) h.2 (Or.inr (Or.inl rfl))
    simp [annot, safeSeq_append, flowSeq_append, SafeSeq, flowSeq, AFrag.prev, AFrag.flow, aW, aR, bodySafe, endAfter, nxt, wf_lp, wf_rp, wf_lb, wf_rb, wf_comma, wf_colon, wf_dot, wf_bslash, wf_bar, wf_allIn, wf_op, wf_not, wf_query, a1, i1]
    exact ⟨⟨(endO_adj a2.1).2.2.1, (endO_adj i2.1).2.1⟩, post_some .rb rfl (fun _ n hn => by cases hn)⟩
  | range a i j iha ihi ihj =>
    refine ⟨?_, fun _ _ h => absurd h (by simp [lexArgs]), fun _ _ h => absurd h (by simp [lexItems])⟩
    intro p q slt h hpre
    simp only [lexWF] at h
    obtain ⟨a1, a2⟩ := iha.1 true none slt h.1 (pre_true hpre)
    obtain ⟨i1, i2⟩ := ihi.1 (indexParen i) none (some .lb) h.2.1 (Or.inr (Or.inl rfl))
    obtain ⟨j1, j2⟩ := ihj.1 (indexParen j) none none h.2.2 (Or.inl rfl)
    simp [annot, safeSeq_append, flowSeq_append, SafeSeq, flowSeq, AFrag.prev, AFrag.flow, aW, aR, bodySafe, endAfter, nxt, wf_lp, wf_rp, wf_lb, wf_rb, wf_comma, wf_colon, wf_dot, wf_bslash, wf_bar, wf_allIn, wf_op, wf_not, wf_query, a1, i1, j1]
    exact ⟨⟨(endO_adj a2.1).2.2.1, (endO_adj j2.1).2.1⟩, post_some .rb rfl (fun _ n hn => by cases hn)⟩
  | query v s c ihs ihc =>
    refine ⟨?_, fun _ _ h => absurd h (by simp [lexArgs]), fun _ _ h => absurd h (by simp [lexItems])⟩
    intro p q slt h hpre
    simp only [lexWF] at h
    obtain ⟨s1, s2⟩ := ihs.1 true none none h.2.1 (Or.inl rfl)
    obtain ⟨c1, c2⟩ := ihc.1 true none none h.2.2 (Or.inl rfl)
    simp [annot, safeSeq_append, flowSeq_append, SafeSeq, flowSeq, AFrag.prev, AFrag.flow, aW, aR, bodySafe, endAfter, nxt, wf_lp, wf_rp, wf_lb, wf_rb, wf_comma, wf_colon, wf_dot, wf_bslash, wf_bar, wf_allIn, wf_op, wf_not, wf_query, s1, c1]
    exact ⟨⟨pre_adj hpre _ (fun _ => no_minus_of _ (by decide)), h.1⟩, post_some .rp rfl (fun _ n hn => by cases hn)⟩
  | call f args ih =>
    refine ⟨?_, fun _ _ h => absurd h (by simp [lexArgs]), fun _ _ h => absurd h (by simp [lexItems])⟩
    intro p q slt h hpre
    simp only [lexWF] at h
    have s1 := ih.2.1 true none h.2 (fun _ => rfl) (fun hh => by cases hh)
    simp [annot, safeSeq_append, flowSeq_append, SafeSeq, flowSeq, AFrag.prev, AFrag.flow, aW, aR, bodySafe, endAfter, nxt, wf_lp, wf_rp, wf_lb, wf_rb, wf_comma, wf_colon, wf_dot, wf_bslash, wf_bar, wf_allIn, wf_op, wf_not, wf_query, s1]
    exact ⟨⟨h.1, pre_adj hpre _ (fun _ => id_no_minus f h.1), adj_id_lp f⟩, post_some .rp rfl (fun _ n hn => by cases hn)⟩
  | aggr items ih =>
    refine ⟨?_, fun _ _ h => absurd h (by simp [lexArgs]), fun _ _ h => absurd h (by simp [lexItems])⟩
    intro p q slt h hpre
    simp only [lexWF] at h
    obtain ⟨s1, s2⟩ := ih.2.2 true (some .lb) h (fun _ => rfl) (fun hh => by cases hh)
    simp [annot, safeSeq_append, flowSeq_append, SafeSeq, flowSeq, AFrag.prev, AFrag.flow, aW, aR, bodySafe, endAfter, nxt, wf_lp, wf_rp, wf_lb, wf_rb, wf_comma, wf_colon, wf_dot, wf_bslash, wf_bar, wf_allIn, wf_op, wf_not, wf_query, s1]
    exact ⟨⟨pre_adj hpre _ (fun _ => lbm), (endO_adj s2).2.1⟩, post_some .rb rfl (fun _ n hn => by cases hn)⟩
  | nil =>
    refine ⟨fun _ _ _ h => absurd h (by simp [lexWF]), ?_, ?_⟩
    · intro fst slt _ _ _; simp [argA, SafeSeq]
    · intro fst slt _ h1 h2
      simp only [itemA, SafeSeq, flowSeq, true_and]
      cases fst with
      | true => rw [h1 rfl]; intro t ht; cases ht; rfl
      | false => exact h2 rfl
  | cons e t ihe iht =>
    refine ⟨fun _ _ _ h => absurd h (by simp [lexWF]), ?_, ?_⟩
    · intro fst slt h h1 h2
      simp only [lexArgs] at h
      cases fst with
      | true =>
        obtain ⟨e1, e2⟩ := ihe.1 false none slt h.1 (Or.inl (h1 rfl))
        have t1 := iht.2.1 false _ h.2 (fun hh => by cases hh) (fun _ => e2.1)
        simp [argA, safeSeq_append, flowSeq_append, SafeSeq, flowSeq, AFrag.prev, AFrag.flow, aW, aR, bodySafe, endAfter, nxt, wf_lp, wf_rp, wf_lb, wf_rb, wf_comma, wf_colon, wf_dot, wf_bslash, wf_bar, wf_allIn, wf_op, wf_not, wf_query, e1, t1]
      | false =>
        obtain ⟨e1, e2⟩ := ihe.1 false none none h.1 (Or.inl rfl)
        have t1 := iht.2.1 false _ h.2 (fun hh => by cases hh) (fun _ => e2.1)
        simp [argA, safeSeq_append, flowSeq_append, SafeSeq, flowSeq, AFrag.prev, AFrag.flow, aW, aR, bodySafe, endAfter, nxt, wf_lp, wf_rp, wf_lb, wf_rb, wf_comma, wf_colon, wf_dot, wf_bslash, wf_bar, wf_allIn, wf_op, wf_not, wf_query, e1, t1]
        exact (endO_adj (h2 rfl)).1
    · intro fst slt h h1 h2
      simp only [lexItems] at h
      cases fst with
      | true =>
        obtain ⟨e1, e2⟩ := ihe.1 false none slt h.1 (Or.inr (Or.inl (h1 rfl)))
        obtain ⟨t1, t2⟩ := iht.2.2 false _ h.2 (fun hh => by cases hh) (fun _ => e2.1)
        simp [itemA, safeSeq_append, flowSeq_append, SafeSeq, flowSeq, AFrag.prev, AFrag.flow, aW, aR, bodySafe, endAfter, nxt, wf_lp, wf_rp, wf_lb, wf_rb, wf_comma, wf_colon, wf_dot, wf_bslash, wf_bar, wf_allIn, wf_op, wf_not, wf_query, e1, t1]
        exact t2
      | false =>
        obtain ⟨e1, e2⟩ := ihe.1 false none none h.1 (Or.inl rfl)
        obtain ⟨t1, t2⟩ := iht.2.2 false _ h.2 (fun hh => by cases hh) (fun _ => e2.1)
        simp [itemA, safeSeq_append, flowSeq_append, SafeSeq, flowSeq, AFrag.prev, AFrag.flow, aW, aR, bodySafe, endAfter, nxt, wf_lp, wf_rp, wf_lb, wf_rb, wf_comma, wf_colon, wf_dot, wf_bslash, wf_bar, wf_allIn, wf_op, wf_not, wf_query, e1, t1]
        exact ⟨(endO_adj (h2 rfl)).1, t2⟩
  | rep e c t ihe ihc iht =>
    refine ⟨fun _ _ _ h => absurd h (by simp [lexWF]), fun _ _ h => absurd h (by simp [lexArgs]), ?_⟩
    intro fst slt h h1 h2
    simp only [lexItems] at h
    obtain ⟨c1, c2⟩ := ihc.1 false none none h.2.1 (Or.inl rfl)
    obtain ⟨t1, t2⟩ := iht.2.2 false _ h.2.2 (fun hh => by cases hh) (fun _ => c2.1)
    cases fst with
    | true =>
      obtain ⟨e1, e2⟩ := ihe.1 false none slt h.1 (Or.inr (Or.inl (h1 rfl)))
      simp [itemA, hrep, safeSeq_append, flowSeq_append, SafeSeq, flowSeq, AFrag.prev, AFrag.flow, aW, aR, bodySafe, endAfter, nxt, wf_lp, wf_rp, wf_lb, wf_rb, wf_comma, wf_colon, wf_dot, wf_bslash, wf_bar, wf_allIn, wf_op, wf_not, wf_query, e1, c1, t1]
      exact t2
    | false =>
      obtain ⟨e1, e2⟩ := ihe.1 false none none h.1 (Or.inl rfl)
      simp [itemA, hrep, safeSeq_append, flowSeq_append, SafeSeq, flowSeq, AFrag.prev, AFrag.flow, aW, aR, bodySafe, endAfter, nxt, wf_lp, wf_rp, wf_lb, wf_rb, wf_comma, wf_colon, wf_dot, wf_bslash, wf_bar, wf_allIn, wf_op, wf_not, wf_query, e1, c1, t1]
      exact ⟨(endO_adj (h2 rfl)).1, t2⟩

/-! ### real literals: the printer sees a real only through `real2exp` -/

def respellLit : Lit → Lit
  | .real g => .real (real2exp g)
  | l => l

/-- every real literal replaced by the spelling exppp prints for it -/
def respell : Expr → Expr
  | .lit l => .lit (respellLit l)
  | .ident s => .ident s
  | .bin o a b => .bin o (respell a) (respell b)
  | .neg a => .neg (respell a)
  | .not a => .not (respell a)
  | .dot a f => .dot (respell a) f
  | .group a f => .group (respell a) f
  | .index a i => .index (respell a) (respell i)
  | .range a i j => .range (respell a) (respell i) (respell j)
  | .query v s c => .query v (respell s) (respell c)
  | .call f as => .call f (respell as)
  | .aggr is => .aggr (respell is)
  | .nil => .nil
  | .cons e t => .cons (respell e) (respell t)
  | .rep e c t => .rep (respell e) (respell c) (respell t)

theorem indexParen_respell (i : Expr) : indexParen (respell i) = indexParen i := by
  cases i <;> simp [respell, indexParen]

theorem litFrag_respell (l : Lit) (h : LitLex (respellLit l)) (b : Bool) : litFrag b (respellLit l) = litFrag b l := by
  cases l with
  | real g => simp only [respellLit, LitLex] at h; simp [respellLit, litFrag, h.2]
  | _ => rfl

/-- the fragments of an expression depend on its real literals only through their printed spelling -/
theorem frags_respell (e : Expr) :
    (∀ p q, lexWF (respell e) → exprFrags Shared.clean (respell e) p q = exprFrags Shared.clean e p q)
    ∧ (∀ fst, lexArgs (respell e) → argFrags Shared.clean (respell e) fst = argFrags Shared.clean e fst)
    ∧ (∀ fst, lexItems (respell e) → itemFrags Shared.clean (respell e) fst = itemFrags Shared.clean e fst) := by
  have hrep : ExpPrec.repeatOverwritesCountType = false := rfl
  induction e with
  | lit l =>
    refine ⟨fun p q h => ?_, fun _ _ => rfl, fun _ _ => rfl⟩
    simp only [respell, lexWF] at h
    simp [respell, exprFrags, litFrag_respell l h]
  | ident s => exact ⟨fun _ _ _ => rfl, fun _ _ => rfl, fun _ _ => rfl⟩
  | bin o a b iha ihb =>
    refine ⟨fun p q h => ?_, fun _ _ => rfl, fun _ _ => rfl⟩
    simp only [respell, lexWF] at h
    simp [respell, exprFrags, iha.1 _ _ h.1, ihb.1 _ _ h.2]
  | neg a iha =>
    refine ⟨fun p q h => ?_, fun _ _ => rfl, fun _ _ => rfl⟩
    simp only [respell, lexWF] at h
    simp [respell, exprFrags, iha.1 _ _ h]
  | not a iha =>
    refine ⟨fun p q h => ?_, fun _ _ => rfl, fun _ _ => rfl⟩
    simp only [respell, lexWF] at h
    simp [respell, exprFrags, iha.1 _ _ h]
  | dot a f iha =>
    refine ⟨fun p q h => ?_, fun _ _ => rfl, fun _ _ => rfl⟩
    simp only [respell, lexWF] at h
    simp [respell, exprFrags, iha.1 _ _ h.1]
  | group a f iha =>
    refine ⟨fun p q h => ?_, fun _ _ => rfl, fun _ _ => rfl⟩
    simp only [respell, lexWF] at h
    simp [respell, exprFrags, iha.1 _ _ h.1]
  | index a i iha ihi =>
    refine ⟨fun p q h => ?_, fun _ _ => rfl, fun _ _ => rfl⟩
    simp only [respell, lexWF] at h
    have := ihi.1 (indexParen i) none h.2
    simp [respell, exprFrags, iha.1 _ _ h.1, indexParen_respell, this]
  | range a i j iha ihi ihj =>
    refine ⟨fun p q h => ?_, fun _ _ => rfl, fun _ _ => rfl⟩
    simp only [respell, lexWF] at h
    have h1 := ihi.1 (indexParen i) none h.2.1
    have h2 := ihj.1 (indexParen j) none h.2.2
    simp [respell, exprFrags, iha.1 _ _ h.1, indexParen_respell, h1, h2]
  | query v s c ihs ihc =>
    refine ⟨fun p q h => ?_, fun _ _ => rfl, fun _ _ => rfl⟩
    simp only [respell, lexWF] at h
    simp [respell, exprFrags, ihs.1 _ _ h.2.1, ihc.1 _ _ h.2.2]
  | call f as ih =>
    refine ⟨fun p q h => ?_, fun _ _ => rfl, fun _ _ => rfl⟩
    simp only [respell, lexWF] at h
    simp [respell, exprFrags, ih.2.1 _ h.2]
  | aggr is ih =>
    refine ⟨fun p q h => ?_, fun _ _ => rfl, fun _ _ => rfl⟩
    simp only [respell, lexWF] at h
    simp [respell, exprFrags, ih.2.2 _ h]
  | nil => exact ⟨fun _ _ _ => rfl, fun _ _ => rfl, fun _ _ => rfl⟩
  | cons e t ihe iht =>
    refine ⟨fun _ _ _ => rfl, fun fst h => ?_, fun fst h => ?_⟩
    · simp only [respell, lexArgs] at h
      simp [respell, argFrags, ihe.1 _ _ h.1, iht.2.1 _ h.2]
    · simp only [respell, lexItems] at h
      simp [respell, itemFrags, ihe.1 _ _ h.1, iht.2.2 _ h.2, sharedRep_clean]
  | rep e c t ihe ihc iht =>
    refine ⟨fun _ _ _ => rfl, fun _ _ => rfl, fun fst h => ?_⟩
    simp only [respell, lexItems] at h
    simp [respell, itemFrags, ihe.1 _ _ h.1, ihc.1 _ _ h.2.1, iht.2.2 _ h.2.2, sharedRep_clean, hrep]

end StepModel.Express

import StepModel.ComplexSatO5
/-! Fuel: `matchNonORs` and `matchORs` do not run out of fuel when the fuel is at least twice the size of the list (plus
one); with the retry loop (`retry_terminates`) the whole of `ComplexList::matches` and `ComplexCollect::supports`
terminates within `cap + 2·size + 2`. -/
namespace StepModel.Complex.Match
open StepModel.Generated StepModel.Complex

mutual
  /-- size of a list: itself, its link cells, its children -/
  def szT : Tree → Nat
    | .simple _ => 1
    | .and cs => szTL cs + cs.length + 2
    | .or cs => szTL cs + cs.length + 2
    | .andor cs => szTL cs + cs.length + 2
  def szTL : List Tree → Nat
    | [] => 0
    | c :: cs => szT c + szTL cs
end

mutual
  /-- number of choice combinations of the OrLists of a list (`LISTEND` and "none yet" count as choices) -/
  def capT : Tree → Nat
    | .simple _ => 1
    | .or cs => (cs.length + 2) * capTL cs
    | .and cs => capTL cs
    | .andor cs => capTL cs
  def capTL : List Tree → Nat
    | [] => 1
    | c :: cs => capT c * capTL cs
end

mutual
  /-- every OrList has fewer children than `LISTEND` -/
  def smallOrT : Tree → Prop
    | .simple _ => True
    | .or cs => (cs.length : Int) < listEnd ∧ smallOrTL cs
    | .and cs => smallOrTL cs
    | .andor cs => smallOrTL cs
  def smallOrTL : List Tree → Prop
    | [] => True
    | c :: cs => smallOrT c ∧ smallOrTL cs
end

mutual
  theorem sz_trV : ∀ (v : VT), sz v = szT (trV v)
    | .simple _ _ => rfl
    | .mult .and _ cs => by simp only [sz, trV, szT, szL_trVL cs, trVL_length]
    | .mult .or _ cs => by simp only [sz, trV, szT, szL_trVL cs, trVL_length]
    | .mult .andor _ cs => by simp only [sz, trV, szT, szL_trVL cs, trVL_length]
  theorem szL_trVL : ∀ (cs : List VT), szL cs = szTL (trVL cs)
    | [] => rfl
    | c :: cs => by simp only [szL, trVL, szTL, sz_trV c, szL_trVL cs]
end

mutual
  theorem cap_trV : ∀ (v : VT), cap v = capT (trV v)
    | .simple _ _ => rfl
    | .mult .and _ cs => by simp only [cap, trV, capT, capL_trVL cs]
    | .mult .or _ cs => by simp only [cap, trV, capT, capL_trVL cs, trVL_length]
    | .mult .andor _ cs => by simp only [cap, trV, capT, capL_trVL cs]
  theorem capL_trVL : ∀ (cs : List VT), capL cs = capTL (trVL cs)
    | [] => rfl
    | c :: cs => by simp only [capL, trVL, capTL, cap_trV c, capL_trVL cs]
end

mutual
  theorem smallOr_trV : ∀ (v : VT), smallOrT (trV v) → smallOr v
    | .simple _ _, _ => trivial
    | .mult .and _ cs, h => by
      simp only [trV, smallOrT] at h
      exact ⟨(fun h' => by cases h'), smallOrL_trVL cs h⟩
    | .mult .or _ cs, h => by
      simp only [trV, smallOrT, trVL_length] at h
      exact ⟨fun _ => h.1, smallOrL_trVL cs h.2⟩
    | .mult .andor _ cs, h => by
      simp only [trV, smallOrT] at h
      exact ⟨(fun h' => by cases h'), smallOrL_trVL cs h⟩
  theorem smallOrL_trVL : ∀ (cs : List VT), smallOrTL (trVL cs) → smallOrL cs
    | [], _ => trivial
    | c :: cs, h => by
      simp only [trVL, smallOrTL] at h
      exact ⟨smallOr_trV c h.1, smallOrL_trVL cs h.2⟩
end

theorem sz_fresh (t : Tree) : sz (skel (fresh t)) = szT t := by rw [sz_trV, trV_fresh]

theorem sz_of_trV {v : VT} {t : Tree} (h : trV v = t) : sz v = szT t := by rw [sz_trV, h]


-- ------------------------------------------------------------------ matchNonORs
theorem nonors_fuel (N : List Name) (hN : N.Pairwise (· < ·)) : ∀ f : Nat,
    (∀ t es, treeWF t = true → names es = N → 2 * szT t ≤ f → NF (matchNonORs f (fresh t) es)) ∧
    (∀ restT done es, treeWFL restT = true → names es = N → 2 * szTL restT + restT.length + 1 ≤ f →
      NF (andNonORs f done (freshL restT) es)) ∧
    (∀ restT done es, treeWFL restT = true → names es = N → 2 * szTL restT + restT.length + 1 ≤ f →
      NF (andorNonORs f done (freshL restT) es)) := by
  intro f
  induction f with
  | zero =>
    refine ⟨fun t es _ _ h => ?_, fun _ _ _ _ _ h => by omega, fun _ _ _ _ _ h => by omega⟩
    have : 0 < szT t := by cases t <;> simp [szT]
    omega
  | succ f ih =>
    obtain ⟨ih1, ih2, ih3⟩ := ih
    refine ⟨?_, ?_, ?_⟩
    · intro t es hwf hnm hf
      cases t with
      | simple n => simp only [fresh, matchNonORs]; exact NF_ok _
      | or ts => simp only [fresh, matchNonORs]; exact NF_ok _
      | and ts =>
        simp only [treeWF, Bool.and_eq_true, Bool.not_eq_true', List.isEmpty_eq_false_iff] at hwf
        simp only [szT] at hf
        simp only [fresh, matchNonORs, freshL_isEmpty hwf.1, Bool.false_eq_true, if_false]
        refine NF_bind (ih2 ts [] es hwf.2 hnm (by omega)) (fun a _ => ?_)
        split
        · exact NF_pure _
        · exact NF_pure _
      | andor ts =>
        simp only [treeWF, Bool.and_eq_true, Bool.not_eq_true', List.isEmpty_eq_false_iff] at hwf
        simp only [szT] at hf
        simp only [fresh, matchNonORs, freshL_isEmpty hwf.1, Bool.false_eq_true, if_false]
        refine NF_bind (ih3 ts [] es hwf.2 hnm (by omega)) (fun a _ => ?_)
        split
        · exact NF_pure _
        · exact NF_pure _
    · intro restT done es hwf hnm hf
      cases restT with
      | nil => simp only [freshL, andNonORs]; exact NF_ok _
      | cons c rest =>
        simp only [treeWFL, Bool.and_eq_true] at hwf
        simp only [szTL, List.length_cons] at hf
        have hpos : 0 < szT c := by cases c <;> simp [szT]
        simp only [freshL, andNonORs]
        split
        · exact ih2 rest _ es hwf.2 hnm (by omega)
        · refine NF_bind (ih1 c es hwf.1 hnm (by omega)) (fun a ha => ?_)
          have P := (nonors_sem N hN f).1 c es a ha hwf.1 hnm
          split
          · exact NF_pure _
          · exact ih2 rest _ _ hwf.2 P.nm (by omega)
    · intro restT done es hwf hnm hf
      cases restT with
      | nil => simp only [freshL, andorNonORs]; exact NF_ok _
      | cons c rest =>
        simp only [treeWFL, Bool.and_eq_true] at hwf
        simp only [szTL, List.length_cons] at hf
        have hpos : 0 < szT c := by cases c <;> simp [szT]
        simp only [freshL, andorNonORs]
        split
        · exact ih3 rest _ es hwf.2 hnm (by omega)
        · refine NF_bind (ih1 c es hwf.1 hnm (by omega)) (fun a ha => ?_)
          have P := (nonors_sem N hN f).1 c es a ha hwf.1 hnm
          split
          · split
            · exact NF_pure _
            · exact ih3 rest _ _ hwf.2 P.nm (by omega)
          · split
            · have hsz : sz (skel a.1) = szT c := sz_of_trV P.trr
              refine NF_bind ((unmark_fuel f).1 a.1 a.2.1 (by omega)) (fun b hb => ?_)
              refine ih3 rest _ _ hwf.2 ?_ (by omega)
              rw [(unmark_names f).1 _ _ _ hb]; exact P.nm
            · exact ih3 rest _ _ hwf.2 P.nm (by omega)


-- ------------------------------------------------------------------ matchORs
theorem orstep_A (N : List Name) (hN : N.Pairwise (· < ·)) (f : Nat) (t : Tree) (es : Ents) (rv : MT)
    (x : ST × Ents × MT) (hwf : treeWF t = true) (hnm : names es = N)
    (hx : (if (!(fresh t).isOr) = true then matchNonORs f (fresh t) es else pure (fresh t, es, rv)) = .ok x) :
    SemV N (skel x.1) ∧ trV (skel x.1) = t ∧ names x.2.1 = N ∧ (x.1.viable = .unknown → Pend x.1) := by
  split at hx
  · have P := (nonors_sem N hN f).1 t es _ hx hwf hnm
    exact ⟨P.sem, P.trr, P.nm, P.pend⟩
  · rename_i hno
    cases hx
    have hor : isOrT t = true := by rw [← isOr_fresh']; simpa using hno
    refine ⟨fresh_SemV N t hwf, trV_fresh t, hnm, fun _ => ?_⟩
    cases t with
    | or ts => exact ⟨ts, rfl, hwf⟩
    | simple n => cases hor
    | and ts => cases hor
    | andor ts => cases hor

theorem orstep_B (N : List Name) (hN : N.Pairwise (· < ·)) (f : Nat) (t : Tree) (x y : ST × Ents × MT)
    (A : SemV N (skel x.1) ∧ trV (skel x.1) = t ∧ names x.2.1 = N ∧ (x.1.viable = .unknown → Pend x.1))
    (hy : (if x.1.viable = .unknown then (if x.1.isSimple = true then Outcome.crash .castSimple else matchORs f x.1 x.2.1)
        else pure (x.1, x.2.1, x.2.2)) = .ok y) :
    trV (skel y.1) = t ∧ names y.2.1 = N := by
  obtain ⟨a1, a2, a3, a4⟩ := A
  split at hy
  · rename_i hu
    split at hy
    · cases hy
    · have O := (ors_sem N hN f).1 x.1 x.2.1 _ hy (a4 hu) a1 a3
      exact ⟨O.trr.trans a2, O.nm⟩
  · cases hy; exact ⟨a2, a3⟩

theorem trVL_szL {cs : List ST} {ts : List Tree} (h : trVL (skelL cs) = ts) :
    szL (skelL cs) = szTL ts ∧ cs.length = ts.length := by
  refine ⟨by rw [szL_trVL, h], ?_⟩
  rw [← skelL_length cs, ← trVL_length, h]

theorem ors_fuel (N : List Name) (hN : N.Pairwise (· < ·)) : ∀ f : Nat,
    (∀ t es, Pend t → SemV N (skel t) → names es = N → 2 * sz (skel t) + 1 ≤ f → NF (matchORs f t es)) ∧
    (∀ isAnd done rest es, PendL rest → SemVL N (skelL rest) → names es = N →
      2 * szL (skelL rest) + rest.length + 1 ≤ f → NF (joinORs f isAnd done rest es)) ∧
    (∀ restT idx done es rv v c c1 k, treeWFL restT = true → names es = N →
      2 * szTL restT + restT.length + 1 ≤ f → NF (orORs f idx done (freshL restT) es rv v c c1 k)) := by
  intro f
  induction f with
  | zero => exact ⟨fun _ _ _ _ _ h => by omega, fun _ _ _ _ _ _ _ h => by omega, fun _ _ _ _ _ _ _ _ _ _ _ h => by omega⟩
  | succ f ih =>
    obtain ⟨ih1, ih2, ih3⟩ := ih
    refine ⟨?_, ?_, ?_⟩
    · intro t es hp hs hnm hf
      cases t with
      | simple n v im => simp only [matchORs]; exact NF_crash _
      | mult j v c c1 k cs =>
        cases j with
        | and =>
          simp only [Pend] at hp
          simp only [skel] at hs
          simp only [skel, sz, skelL_length] at hf
          simp only [matchORs]
          split
          · exact NF_crash _
          · refine NF_bind (ih2 true [] cs es hp.2 hs.2.1 hnm (by omega)) (fun a _ => ?_)
            split
            · exact NF_pure _
            · exact NF_pure _
        | andor =>
          simp only [Pend] at hp
          simp only [skel] at hs
          simp only [skel, sz, skelL_length] at hf
          simp only [matchORs]
          split
          · exact NF_crash _
          · exact NF_bind (ih2 false [] cs es hp.2 hs.2.1 hnm (by omega)) (fun a _ => NF_pure _)
        | or =>
          simp only [Pend] at hp
          obtain ⟨ts, hts, hwf⟩ := hp
          rw [hts] at hf
          rw [sz_fresh] at hf
          simp only [fresh] at hts
          injection hts with _ hv hc hc1 hk hcs
          subst hv hc hc1 hk hcs
          simp only [treeWF, Bool.and_eq_true, Bool.not_eq_true', List.isEmpty_eq_false_iff] at hwf
          simp only [szT] at hf
          simp only [matchORs]
          refine NF_bind (ih3 ts 0 [] es _ _ _ _ _ hwf.2 hnm (by omega)) (fun a ha => ?_)
          have I0 : OInv [] .unknown orInitChoice orInitChoice1 :=
            ⟨(fun d hd => by cases hd), Or.inl rfl, fun _ => rfl, (fun h => by cases h),
              (fun h => absurd rfl (K_ne_unknown h)), (fun h => by simp [MT.rank] at h), fun _ => rfl⟩
          obtain ⟨_, tail, htail, htr, _, _⟩ := (ors_sem N hN f).2.2 ts 0 [] es _ _ _ _ _ a ha hwf.2 hnm rfl I0
          simp only [List.nil_append] at htail
          obtain ⟨hszl, hlen⟩ := trVL_szL (cs := a.1) (ts := ts) (by rw [htail]; exact htr)
          refine NF_ite_bind ?_ (fun x _ => ?_)
          · split
            · unfold acceptDrop
              refine NF_bind ((accept_fuel f).1 _ _ ?_) (fun b _ => NF_pure _)
              simp only [skel, sz, skelL_length]
              omega
            · exact NF_pure _
          · repeat (first | exact NF_pure _ | exact NF_crash _ | split)
    · intro isAnd done rest es hpl hsl hnm hf
      cases rest with
      | nil => simp only [joinORs]; exact NF_ok _
      | cons ch rest =>
        simp only [PendL] at hpl
        simp only [skelL, SemVL] at hsl
        simp only [skelL, szL, List.length_cons] at hf
        have hpos := sz_pos (skel ch)
        simp only [joinORs]
        split
        · rename_i hu
          split
          · exact NF_crash _
          · have hpend : Pend ch := by
              rcases hpl.1 with h' | h'
              · exact absurd hu h'
              · exact h'
            refine NF_bind (ih1 ch es hpend hsl.1 hnm (by omega)) (fun a ha => ?_)
            have O := (ors_sem N hN f).1 ch es a ha hpend hsl.1 hnm
            have hsz : sz (skel a.1) = sz (skel ch) := by rw [sz_trV, O.trr, ← sz_trV]
            split
            · split
              · exact NF_pure _
              · refine NF_bind ((unmark_fuel f).1 a.1 a.2.1 (by omega)) (fun b hb => ?_)
                refine ih2 _ _ rest _ hpl.2 hsl.2 ?_ (by omega)
                rw [(unmark_names f).1 _ _ _ hb]; exact O.nm
            · exact ih2 _ _ rest _ hpl.2 hsl.2 O.nm (by omega)
        · exact ih2 _ _ rest _ hpl.2 hsl.2 hnm (by omega)
    · intro restT idx done es rv v c c1 k hwf hnm hf
      cases restT with
      | nil => simp only [freshL, orORs]; exact NF_ok _
      | cons t rest =>
        simp only [treeWFL, Bool.and_eq_true] at hwf
        simp only [szTL, List.length_cons] at hf
        have hpos : 0 < szT t := by cases t <;> simp [szT]
        simp only [freshL, orORs]
        refine NF_ite_bind ?_ (fun x hx => ?_)
        · split
          · exact (nonors_fuel N hN f).1 t es hwf.1 hnm (by omega)
          · exact NF_pure _
        · have A := orstep_A N hN f t es rv x hwf.1 hnm hx
          have hszx : sz (skel x.1) = szT t := sz_of_trV A.2.1
          refine NF_ite_bind ?_ (fun y hy => ?_)
          · split
            · rename_i hu
              split
              · exact NF_crash _
              · exact ih1 x.1 x.2.1 (A.2.2.2 hu) A.1 A.2.2.1 (by omega)
            · exact NF_pure _
          · have B := orstep_B N hN f t x y A hy
            have hszy : sz (skel y.1) = szT t := sz_of_trV B.1
            refine NF_bind ((unmark_fuel f).1 y.1 y.2.1 (by omega)) (fun z hz => ?_)
            refine ih3 rest _ _ _ _ _ _ _ _ hwf.2 ?_ (by omega)
            rw [(unmark_names f).1 _ _ _ hz]; exact B.2


-- ------------------------------------------------------------------ ComplexList::matches, ComplexCollect::supports
/-- `ComplexList::matches` terminates within `cap + 2·size + 2` -/
theorem matches_fuel (fuel : Nat) (combo : Bool) (head : Tree) (es : Ents) (hwf : treeWF head = true)
    (hN : (names es).Pairwise (· < ·)) (hsm : smallOrT head) (hf : capT head + 2 * szT head + 2 ≤ fuel) :
    NF (matchesList fuel combo head es) := by
  have hcpos : 0 < capT head := by rw [← trV_fresh head, ← cap_trV]; exact cap_pos _
  unfold matchesList
  split
  · exact NF_crash _
  · split
    · exact NF_ok _
    · refine NF_bind ((nonors_fuel (names es) hN fuel).1 head es hwf rfl (by omega)) (fun a ha => ?_)
      have P := (nonors_sem (names es) hN fuel).1 head es a ha hwf rfl
      obtain ⟨h1, es1, r1⟩ := a
      simp only
      split
      · exact NF_pure _
      · split
        · exact NF_pure _
        · rename_i hnall hu
          have hu' : r1 = .unknown := Classical.byContradiction (fun hne => hu hne)
          have hnotor : isOrT head = false := by
            rename_i list hbl _
            cases head with
            | or ts => simp [buildList] at hbl
            | simple n => rfl
            | and ts => rfl
            | andor ts => rfl
          have hvia : h1.viable = r1 := P.via hnotor
          have hsz1 : sz (skel h1) = szT head := sz_of_trV P.trr
          have hpend : Pend h1 := P.pend (by rw [hvia]; exact hu')
          refine NF_bind ((ors_fuel (names es) hN fuel).1 h1 es1 hpend P.sem P.nm (by omega)) (fun b hb => ?_)
          have O := (ors_sem (names es) hN fuel).1 h1 es1 b hb hpend P.sem P.nm
          obtain ⟨h2, es2, r2⟩ := b
          simp only
          have htr2 : trV (skel h2) = head := O.trr.trans P.trr
          split
          · exact NF_pure _
          · split
            · refine retry_terminates combo (cap (skel h2)) fuel h2 es2 (smallOr_trV _ (by rw [htr2]; exact hsm))
                (Nat.sub_le _ _) ?_
              rw [cap_trV, htr2, sz_of_trV htr2]; exact hf
            · exact NF_pure _

theorem foldlM_NF {c : Collect} {g : Tree → Outcome Bool} (hg : ∀ h ∈ c, NF (g h)) :
    ∀ (acc : Bool), NF (c.foldlM (fun a h => if a = true then pure true else g h) acc) := by
  induction c with
  | nil => intro acc; simp only [List.foldlM]; exact NF_pure _
  | cons a c ih =>
    intro acc
    simp only [List.foldlM_cons]
    refine NF_bind ?_ (fun b _ => ih (fun h hh => hg h (List.mem_cons_of_mem _ hh)) b)
    split
    · exact NF_pure _
    · exact hg a (by simp)

/-- `ComplexCollect::supports` terminates on a request without multiply-inheriting members: the default fuel is enough
whenever it covers, for every list, its number of choice combinations plus one walk -/
theorem supports_fuel (c : Collect) (parts : List Name) (hc : ∀ h ∈ c, headWF h = true)
    (hsm : ∀ h ∈ c, smallOrT h) (hf : ∀ h ∈ c, capT h + 2 * szT h + 2 ≤ defaultFuel c) :
    NF (supports c [] parts) := by
  have hn : names (mkEnts [] parts) = mkNames parts := by
    simp [names, mkEnts, List.map_map, Function.comp_def]
  have hsorted : (names (mkEnts [] parts)).Pairwise (· < ·) := by rw [hn]; exact sorted_mkNames parts
  unfold supports supportsEnts
  have hnm : (mkEnts [] parts).any (fun e => e.mult) = false := by simp [mkEnts]
  simp only [hnm, Bool.false_eq_true, if_false]
  refine foldlM_NF (fun h hh => ?_) false
  obtain ⟨n, t, rfl, ht⟩ := headWF_shape (hc h hh)
  have hwf : treeWF (.and [.simple n, t]) = true := by simp [treeWF, treeWFL, ht]
  exact matches_fuel _ false _ _ hwf hsorted (hsm _ hh) (hf _ hh)


mutual
  theorem szT_le_size : ∀ (t : Tree), szT t + 2 ≤ 4 * size t
    | .simple _ => by simp [szT, size]
    | .and cs => by
      have := szTL_le_sizeL cs
      simp only [szT, size]; omega
    | .or cs => by
      have := szTL_le_sizeL cs
      simp only [szT, size]; omega
    | .andor cs => by
      have := szTL_le_sizeL cs
      simp only [szT, size]; omega
  theorem szTL_le_sizeL : ∀ (cs : List Tree), szTL cs + 2 * cs.length ≤ 4 * sizeL cs
    | [] => by simp [szTL, sizeL]
    | c :: cs => by
      have h1 := szT_le_size c
      have h2 := szTL_le_sizeL cs
      simp only [szTL, sizeL, List.length_cons]
      omega
end

theorem size_le_sizeL {h : Tree} : ∀ {c : List Tree}, h ∈ c → size h ≤ sizeL c
  | [], hh => by cases hh
  | a :: l, hh => by
    simp only [sizeL]
    rcases List.mem_cons.mp hh with e | e
    · subst e; omega
    · have := size_le_sizeL e; omega

/-- the fuel hypothesis of `supports_fuel` holds whenever no list has more than 4096 choice combinations -/
theorem fuel_of_capT (c : Collect) (hcap : ∀ h ∈ c, capT h ≤ 4096) : ∀ h ∈ c, capT h + 2 * szT h + 2 ≤ defaultFuel c := by
  intro h hh
  have h1 := hcap h hh
  have h2 := szT_le_size h
  have h3 := size_le_sizeL hh
  unfold defaultFuel
  omega

theorem toplevel_NF : ∀ (acc : List Tree) (nm : Name), NF (toplevel acc nm)
  | [], _ => by simp only [toplevel]; exact NF_ok _
  | [.simple n], nm => by
    simp only [toplevel]
    split
    · exact NF_ok _
    · exact NF_ok _
  | .simple n :: x :: rest', nm => by
    simp only [toplevel]
    split
    · exact NF_ok _
    · exact toplevel_NF rest' nm
  | .and _ :: _, _ => by simp only [toplevel]; exact NF_crash _
  | .or _ :: _, _ => by simp only [toplevel]; exact NF_crash _
  | .andor _ :: _, _ => by simp only [toplevel]; exact NF_crash _
termination_by acc => acc.length

theorem smallOrTL_iff (l : List Tree) : smallOrTL l ↔ ∀ t ∈ l, smallOrT t := by
  induction l with
  | nil => simp [smallOrTL]
  | cons a l ih => simp [smallOrTL, ih]

/-- `supports` terminates on every request, the combo case included, when the fuel also covers the joined list -/
theorem supports_fuel_all (c : Collect) (mult parts : List Name) (hc : ∀ h ∈ c, headWF h = true)
    (hsm : ∀ h ∈ c, smallOrT h) (hf : ∀ h ∈ c, capT h + 2 * szT h + 2 ≤ defaultFuel c)
    (hfj : ∀ joined, joinLists c (mkEnts mult parts) = .ok joined →
      capT (.and joined) + 2 * szT (.and joined) + 2 ≤ defaultFuel c) :
    NF (supports c mult parts) := by
  have hn : names (mkEnts mult parts) = mkNames parts := by
    simp [names, mkEnts, List.map_map, Function.comp_def]
  have hsorted : (names (mkEnts mult parts)).Pairwise (· < ·) := by rw [hn]; exact sorted_mkNames parts
  have hwfh : ∀ h ∈ c, treeWF h = true ∧ ∃ ch, h = .and ch := by
    intro h hh
    obtain ⟨n, t, rfl, ht⟩ := headWF_shape (hc h hh)
    exact ⟨by simp [treeWF, treeWFL, ht], _, rfl⟩
  unfold supports supportsEnts
  split
  · -- joinLists has no fuel
    have hjl : NF (joinLists c (mkEnts mult parts)) := by
      unfold joinLists
      have inner : ∀ (node : ENode) (l : List Tree) (acc : List Tree), NF (l.foldlM (fun acc' h =>
          match buildList h, superOf h with
          | some list, some sup =>
            if containsWalk list [node.name] then do
              let already ← toplevel acc' sup
              pure (if already then acc' else acc' ++ h.children)
            else pure acc'
          | _, _ => Outcome.crash .badHead) acc) := by
        intro node l
        induction l with
        | nil => intro acc; simp only [List.foldlM]; exact NF_pure _
        | cons a l ih =>
          intro acc
          simp only [List.foldlM_cons]
          refine NF_bind ?_ (fun b _ => ih b)
          split
          · split
            · refine NF_bind ?_ (fun _ _ => NF_pure _)
              exact toplevel_NF _ _
            · exact NF_pure _
          · exact NF_crash _
      generalize ([] : List Tree) = acc0
      generalize mkEnts mult parts = es
      induction es generalizing acc0 with
      | nil => simp only [List.foldlM]; exact NF_pure _
      | cons e es ih =>
        simp only [List.foldlM_cons]
        refine NF_bind ?_ (fun b _ => ih b)
        split
        · exact NF_pure _
        · exact inner e c acc0
    refine NF_bind hjl (fun joined hj => ?_)
    split
    · exact NF_crash _
    · rename_i hemp
      split
      · exact NF_crash _
      · obtain ⟨hs0, a1, a2⟩ := joinLists_from c _ joined hj
        have hne : joined ≠ [] := by
          intro e; rw [e] at hemp; simp at hemp
        have hmemj : ∀ t ∈ joined, ∃ ch, .and ch ∈ c ∧ t ∈ ch := by
          intro t ht
          rw [a2] at ht
          obtain ⟨l, hl, htl⟩ := List.mem_flatten.mp ht
          obtain ⟨h0, hh0, rfl⟩ := List.mem_map.mp hl
          obtain ⟨_, ch, rfl⟩ := hwfh h0 (a1 h0 hh0)
          exact ⟨ch, a1 _ hh0, htl⟩
        have hwf : treeWF (.and joined) = true := by
          simp only [treeWF, Bool.and_eq_true, Bool.not_eq_true', List.isEmpty_eq_false_iff]
          refine ⟨hne, (treeWFL_iff _).mpr ?_⟩
          intro t ht
          obtain ⟨ch, hch, htc⟩ := hmemj t ht
          have w := (hwfh _ hch).1
          simp only [treeWF, Bool.and_eq_true] at w
          exact (treeWFL_iff _).mp w.2 t htc
        have hsmj : smallOrT (.and joined) := by
          simp only [smallOrT]
          apply (smallOrTL_iff _).mpr
          intro t ht
          obtain ⟨ch, hch, htc⟩ := hmemj t ht
          have w := hsm _ hch
          simp only [smallOrT] at w
          exact (smallOrTL_iff _).mp w t htc
        exact matches_fuel _ true _ _ hwf hsorted hsmj (hfj joined hj)
  · refine foldlM_NF (fun h hh => ?_) false
    exact matches_fuel _ false _ _ (hwfh h hh).1 hsorted (hsm _ hh) (hf _ hh)

end StepModel.Complex.Match

import StepModel.GenSelectOrder
/-!
# Lemmas about the select emission order (`GenSelectOrder.lean`)

* `visit_step`: whatever the fuel, a call only adds tags, only appends events, and the events it appends are for types that had no
  tag when it began, each at most once — so no select is emitted twice (`good_visitAll`);
* `visit_done`: with fuel for every untagged type of the file, every select tagged during a call has been emitted when the call
  returns — so every select of the schema is emitted (`visitAll_complete`).
-/
namespace StepModel.SelOrder

/-- what one call (or a sequence of calls) does to the state -/
structure Step (st st' : St) : Prop where
  tags : ∀ x ∈ st.tagged, x ∈ st'.tagged
  outs : ∃ new : List Ev, st'.out = st.out ++ new ∧ (∀ e ∈ new, e.name ∉ st.tagged ∧ e.name ∈ st'.tagged) ∧ (new.map Ev.name).Nodup

theorem Step.refl (st : St) : Step st st := ⟨fun _ h => h, [], by simp, by simp, by simp⟩

theorem Step.trans {a b c : St} (h1 : Step a b) (h2 : Step b c) : Step a c := by
  obtain ⟨n1, e1, p1, d1⟩ := h1.outs
  obtain ⟨n2, e2, p2, d2⟩ := h2.outs
  refine ⟨fun x hx => h2.tags x (h1.tags x hx), n1 ++ n2, by rw [e2, e1, List.append_assoc], ?_, ?_⟩
  · intro e he
    rcases List.mem_append.mp he with he | he
    · exact ⟨(p1 e he).1, h2.tags _ (p1 e he).2⟩
    · exact ⟨fun hx => (p2 e he).1 (h1.tags _ hx), (p2 e he).2⟩
  · rw [List.map_append, List.nodup_append]
    refine ⟨d1, d2, ?_⟩
    intro x hx y hy exy
    obtain ⟨e, he, rfl⟩ := List.mem_map.mp hx
    obtain ⟨f, hf, rfl⟩ := List.mem_map.mp hy
    exact (p2 f hf).1 (exy ▸ (p1 e he).2)

theorem fold_step (G : String → Option Sel) (fuel : Nat) (ih : ∀ t st, Step st (visit G fuel t st)) (l : List String) (st : St) :
    Step st (l.foldl (fun s ii => visit G fuel ii s) st) := by
  induction l generalizing st with
  | nil => exact Step.refl st
  | cons a r ihl => exact (ih a st).trans (ihl _)

/-- appending the event of `t`, which was tagged at the start of the call and has not been emitted since -/
theorem step_emit (st s1 st' : St) (t : String) (ev : Ev) (hev : ev.name = t) (ht : t ∉ st.tagged)
    (h1 : s1 = { st with tagged := t :: st.tagged }) (h : Step s1 st') : Step st { st' with out := st'.out ++ [ev] } := by
  obtain ⟨n, e, p, d⟩ := h.outs
  subst h1
  refine ⟨fun x hx => h.tags x (List.mem_cons_of_mem _ hx), n ++ [ev], by simp [e], ?_, ?_⟩
  · intro x hx
    rcases List.mem_append.mp hx with hx | hx
    · exact ⟨fun hh => (p x hx).1 (List.mem_cons_of_mem _ hh), (p x hx).2⟩
    · have : x = ev := by simpa using hx
      subst this
      rw [hev]
      exact ⟨ht, h.tags t List.mem_cons_self⟩
  · rw [List.map_append, List.nodup_append]
    refine ⟨d, by simp, ?_⟩
    intro x hx y hy exy
    obtain ⟨f, hf, rfl⟩ := List.mem_map.mp hx
    have hy' : y = t := by simpa [hev] using hy
    exact (p f hf).1 (by rw [exy, hy']; exact List.mem_cons_self)

theorem visit_step (G : String → Option Sel) : ∀ fuel t st, Step st (visit G fuel t st) := by
  intro fuel
  induction fuel with
  | zero => intro t st; exact Step.refl st
  | succ f ih =>
    intro t st
    unfold visit
    by_cases ht : t ∈ st.tagged
    · rw [if_pos ht]; exact Step.refl st
    · rw [if_neg ht]
      have htag : Step st { st with tagged := t :: st.tagged } :=
        ⟨fun x hx => List.mem_cons_of_mem _ hx, [], by simp, by simp, by simp⟩
      cases hg : G t with
      | none => exact htag
      | some s =>
        cases s with
        | renamed i => exact step_emit st _ _ t (.typedefs t) rfl ht rfl (ih i _)
        | items sels => exact step_emit st _ _ t (.cls t) rfl ht rfl (fold_step G f ih sels _)

theorem visitAll_step (G : String → Option Sel) (fuel : Nat) (roots : List String) (st : St) :
    Step st (visitAll G fuel roots st) := fold_step G fuel (visit_step G fuel) roots st

/-- no name is emitted twice, and only tagged types are emitted -/
def Good (st : St) : Prop := (st.out.map Ev.name).Nodup ∧ ∀ e ∈ st.out, e.name ∈ st.tagged

theorem good_of_step {st st' : St} (h : Step st st') (g : Good st) : Good st' := by
  obtain ⟨n, e, p, d⟩ := h.outs
  refine ⟨?_, ?_⟩
  · rw [e, List.map_append, List.nodup_append]
    refine ⟨g.1, d, ?_⟩
    intro x hx y hy exy
    obtain ⟨a, ha, rfl⟩ := List.mem_map.mp hx
    obtain ⟨b, hb, rfl⟩ := List.mem_map.mp hy
    exact (p b hb).1 (exy ▸ g.2 a ha)
  · intro x hx
    rw [e] at hx
    rcases List.mem_append.mp hx with hx | hx
    · exact h.tags _ (g.2 x hx)
    · exact (p x hx).2

/-! ## completeness -/

/-- the types of `N` that carry no tag yet -/
def untagged (N : List String) (st : St) : Nat := (N.filter (fun x => decide (x ∉ st.tagged))).length

/-- every type `TYPEselect_print` can reach is one of `N` -/
def Closed (N : List String) (G : String → Option Sel) : Prop :=
  ∀ t s, G t = some s → match s with
    | .renamed i => i ∈ N
    | .items l => ∀ x ∈ l, x ∈ N

/-- every select that got its tag between `st` and `st'` has been emitted in `st'` -/
def Emitted (G : String → Option Sel) (st st' : St) : Prop :=
  ∀ x, x ∈ st'.tagged → x ∉ st.tagged → (G x).isSome = true → x ∈ st'.out.map Ev.name

theorem filter_length_mono {α : Type} (N : List α) (p q : α → Bool) (h : ∀ x, q x = true → p x = true) :
    (N.filter q).length ≤ (N.filter p).length := by
  induction N with
  | nil => simp
  | cons a r ih =>
    simp only [List.filter_cons]
    by_cases hq : q a = true
    · simp [hq, h a hq]; exact ih
    · by_cases hp : p a = true
      · simp [hq, hp]; omega
      · simp [hq, hp]; exact ih

theorem filter_length_lt {α : Type} (N : List α) (p q : α → Bool) (h : ∀ x, q x = true → p x = true) (t : α) (ht : t ∈ N)
    (pt : p t = true) (qt : q t = false) : (N.filter q).length + 1 ≤ (N.filter p).length := by
  induction N with
  | nil => cases ht
  | cons a r ih =>
    simp only [List.filter_cons]
    rcases List.mem_cons.mp ht with e | e
    · subst e
      simp only [pt, qt, if_true, Bool.false_eq_true, if_false, List.length_cons]
      have := filter_length_mono r p q h
      omega
    · have := ih e
      by_cases hq : q a = true
      · simp [hq, h a hq]; exact this
      · by_cases hp : p a = true
        · simp [hq, hp]; omega
        · simp [hq, hp]; exact this

theorem untagged_mono (N : List String) (a b : St) (h : ∀ x ∈ a.tagged, x ∈ b.tagged) : untagged N b ≤ untagged N a := by
  unfold untagged
  apply filter_length_mono
  intro x hx
  simp only [decide_eq_true_eq] at hx ⊢
  exact fun hh => hx (h x hh)

theorem untagged_tag (N : List String) (st : St) (t : String) (ht : t ∈ N) (hn : t ∉ st.tagged) :
    untagged N { st with tagged := t :: st.tagged } + 1 ≤ untagged N st := by
  unfold untagged
  apply filter_length_lt _ _ _ _ t ht
  · simpa using hn
  · simp
  · intro x hx
    simp only [decide_eq_true_eq] at hx ⊢
    exact fun hh => hx (List.mem_cons_of_mem _ hh)

theorem Emitted.trans {G : String → Option Sel} {a b c : St} (h1 : Emitted G a b) (h2 : Emitted G b c) (s2 : Step b c) :
    Emitted G a c := by
  intro x hc ha hs
  by_cases hb : x ∈ b.tagged
  · obtain ⟨n, e, _, _⟩ := s2.outs
    rw [e, List.map_append]
    exact List.mem_append_left _ (h1 x hb ha hs)
  · exact h2 x hc hb hs

theorem fold_done (G : String → Option Sel) (N : List String) (fuel : Nat)
    (ih : ∀ t st, t ∈ N → untagged N st ≤ fuel → Emitted G st (visit G fuel t st)) (l : List String) (hl : ∀ x ∈ l, x ∈ N)
    (st : St) (hf : untagged N st ≤ fuel) : Emitted G st (l.foldl (fun s ii => visit G fuel ii s) st) := by
  induction l generalizing st with
  | nil => intro x h1 h2; exact absurd h1 h2
  | cons a r ihl =>
    simp only [List.foldl_cons]
    have s1 := visit_step G fuel a st
    have hf' : untagged N (visit G fuel a st) ≤ fuel := Nat.le_trans (untagged_mono N _ _ s1.tags) hf
    exact (ih a st (hl a List.mem_cons_self) hf).trans (ihl (fun x hx => hl x (List.mem_cons_of_mem _ hx)) _ hf')
      (fold_step G fuel (visit_step G fuel) r _)

theorem emitted_emit (G : String → Option Sel) (st st' : St) (t : String) (ev : Ev) (hev : ev.name = t)
    (h : Emitted G { st with tagged := t :: st.tagged } st') : Emitted G st { st' with out := st'.out ++ [ev] } := by
  intro x hx hn hs
  simp only [List.map_append, List.map_cons, List.map_nil, List.mem_append, List.mem_singleton]
  by_cases e : x = t
  · right; rw [hev]; exact e
  · left
    apply h x hx _ hs
    intro hh
    rcases List.mem_cons.mp hh with hh | hh
    · exact e hh
    · exact hn hh

theorem visit_done (G : String → Option Sel) (N : List String) (hc : Closed N G) :
    ∀ fuel t st, t ∈ N → untagged N st ≤ fuel → Emitted G st (visit G fuel t st) := by
  intro fuel
  induction fuel with
  | zero => intro t st _ _ x h1 h2; exact absurd h1 h2
  | succ f ih =>
    intro t st htN hf
    unfold visit
    by_cases ht : t ∈ st.tagged
    · rw [if_pos ht]; intro x h1 h2; exact absurd h1 h2
    · rw [if_neg ht]
      have hf1 : untagged N { st with tagged := t :: st.tagged } ≤ f := by
        have := untagged_tag N st t htN ht; omega
      cases hg : G t with
      | none =>
        intro x hx hn hs
        rcases List.mem_cons.mp hx with e | e
        · subst e; rw [hg] at hs; cases hs
        · exact absurd e hn
      | some s =>
        have hcl := hc t s hg
        cases s with
        | renamed i => exact emitted_emit G st _ t (.typedefs t) rfl (ih i _ hcl hf1)
        | items sels => exact emitted_emit G st _ t (.cls t) rfl (fold_done G N f ih sels hcl _ hf1)

theorem visit_tags (G : String → Option Sel) (fuel : Nat) (t : String) (st : St) : t ∈ (visit G (fuel + 1) t st).tagged := by
  unfold visit
  by_cases ht : t ∈ st.tagged
  · rw [if_pos ht]; exact ht
  · rw [if_neg ht]
    have h0 : t ∈ ({ st with tagged := t :: st.tagged } : St).tagged := List.mem_cons_self
    cases hg : G t with
    | none => exact h0
    | some s =>
      cases s with
      | renamed i => exact (visit_step G fuel i _).tags t h0
      | items sels => exact (fold_step G fuel (visit_step G fuel) sels _).tags t h0

/-- **every select of the schema is emitted**: with fuel for all types of the file, each root that is a select and had no tag
    when the loop began is in the output when it ends -/
theorem visitAll_complete (G : String → Option Sel) (N : List String) (hc : Closed N G) (roots : List String)
    (hr : ∀ x ∈ roots, x ∈ N) (st : St) :
    ∀ t ∈ roots, t ∉ st.tagged → (G t).isSome = true → t ∈ (visitAll G (N.length + 1) roots st).out.map Ev.name := by
  intro t ht hn hs
  have hfuel : ∀ s : St, untagged N s ≤ N.length + 1 := fun s => Nat.le_succ_of_le (List.length_filter_le _ _)
  have hem : Emitted G st (visitAll G (N.length + 1) roots st) :=
    fold_done G N _ (visit_done G N hc _) roots hr st (hfuel st)
  apply hem t _ hn hs
  -- t carries a tag at the end
  have key : ∀ (l : List String) (s : St), t ∈ l → t ∈ (l.foldl (fun s ii => visit G (N.length + 1) ii s) s).tagged := by
    intro l
    induction l with
    | nil => intro s h; cases h
    | cons a r ihl =>
      intro s h
      simp only [List.foldl_cons]
      rcases List.mem_cons.mp h with e | e
      · subst e
        exact (fold_step G _ (visit_step G _) r _).tags _ (visit_tags G N.length _ s)
      · exact ihl _ e
  exact key roots st ht

end StepModel.SelOrder

import StepModel.ComplexSpec
/-!
# `collectOf` — the EntList trees exp2cxx builds (src/exp2cxx/expressbuild.cc, collect.cc; written out by write.cc)

* `ComplexCollect::ComplexCollect(Express)`: one `ComplexList` per entity that has subtypes; lists of entities that
  themselves have supertypes are *dependent* and removed at the end, so the collect holds one list per root with subtypes,
  kept sorted by supertype name (`ComplexCollect::insert`).
* `ComplexList::ComplexList(Entity)`: head = `AND(supertype, …)`; `processSubExp` turns the subtype expression into
  children (`exprChildren`): an AND/ANDOR operand of the same operator is flattened into its parent **except directly under
  the supertype's head**; ONEOF becomes an `OrList`; an entity reference goes through `addSimpleAndSubs` (`entTree`).
* `addImplicitSubs`: every subtype whose name is not yet among the leaves of the list is implicit; the first one wraps
  the expression's child in an `AndOrList`, all are appended to it.
* `addSimpleAndSubs`: a subtype without subtypes is a `SimpleList`; otherwise its own list's head (original or
  `copyList` copy — same shape) is used, wrapped as `OR(simple, head)` when the subtype is not ABSTRACT.

The recursion over an expression is structural; the recursion through the subtype graph is on `fuel` (two units per
generation; running out of fuel yields `none`, never a made-up tree).
-/
namespace StepModel.Complex

inductive Parent | superHead | andL | andorL | orL
  deriving DecidableEq, Repr

mutual
  /-- `MultList::processSubExp`: the children that expression `x` adds to a list of kind `p`; `T` builds the tree of an
  entity reference (`addSimpleAndSubs`) -/
  def exprKids (T : Name → Option Tree) : Parent → Expr → Option (List Tree)
    | _, .ent n => (T n).map (fun t => [t])
    | p, .and a b =>
      match exprKids T .andL a, exprKids T .andL b with
      | some l, some r => if p = .andL then some (l ++ r) else some [.and (l ++ r)]
      | _, _ => none
    | p, .andor a b =>
      match exprKids T .andorL a, exprKids T .andorL b with
      | some l, some r => if p = .andorL then some (l ++ r) else some [.andor (l ++ r)]
      | _, _ => none
    | _, .oneof es => (exprKidsL T es).map (fun cs => [.or cs])
  /-- the operands of a ONEOF, each processed with the new `OrList` as parent -/
  def exprKidsL (T : Name → Option Tree) : List Expr → Option (List Tree)
    | [] => some []
    | x :: xs =>
      match exprKids T .orL x, exprKidsL T xs with
      | some l, some r => some (l ++ r)
      | _, _ => none
end

def mapOpt {α β : Type} (f : α → Option β) : List α → Option (List β)
  | [] => some []
  | a :: as => match f a, mapOpt f as with
    | some b, some bs => some (b :: bs)
    | _, _ => none

mutual
  /-- `MultList::addSimpleAndSubs` -/
  def entTree (s : Schema) : Nat → Name → Option Tree
    | 0, _ => none
    | fuel + 1, n =>
      match s.find n with
      | none => none
      | some e =>
        if e.subs.isEmpty then some (.simple n)
        else match headOf s fuel e with
          | none => none
          | some h => if e.abstract then some h else some (.or [.simple n, h])

  /-- `ComplexList::ComplexList(Entity, ComplexCollect*)`: the head AND of the entity's own list -/
  def headOf (s : Schema) : Nat → Entity → Option Tree
    | 0, _ => none
    | fuel + 1, e =>
      let base : Option (List Tree) := match e.expr with
        | none => some []
        | some x => exprKids (fun n => entTree s fuel n) .superHead x
      match base with
      | none => none
      | some b =>
        -- `contains(&node)` looks the subtype's name up among the leaves collected by `buildList()`; without an
        -- expression `list` is still NULL and nothing is contained
        let known := match e.expr with | none => [] | some _ => e.name :: leavesL b
        let impl := e.subs.filter (fun n => !known.contains n)
        if impl.isEmpty then some (.and (.simple e.name :: b))
        else match mapOpt (fun n => entTree s fuel n) impl with
          | none => none
          | some ts => some (.and [.simple e.name, .andor (b ++ ts)])
end

/-- insertion by supertype name, as `ComplexCollect::insert` (`*cl < *c` is strict: equal names keep arrival order) -/
def insertHead (h : Tree) : Collect → Collect
  | [] => [h]
  | c :: cs =>
    match superOf c, superOf h with
    | some a, some b => if a < b then c :: insertHead h cs else h :: c :: cs
    | _, _ => h :: c :: cs

/-- the collect exp2cxx emits for schema `s`: lists of the entities that have subtypes and no supertypes -/
def collectOf (s : Schema) (fuel : Nat) : Option Collect :=
  s.foldl (fun acc e =>
    match acc with
    | none => none
    | some c =>
      if e.subs.isEmpty || !e.supers.isEmpty then some c
      else match headOf s fuel e with
        | none => none
        | some h => some (insertHead h c)) (some [])

end StepModel.Complex

import StepModel.P21SafeBase
/-! C05 — the fixed-capacity sites of the Part 21 reader as *write-index* functions.

Every site is modelled by the list of array indices the C++ code writes, in program order, for a given input
(`…Writes`), parameterised by the capacities / guards found in the source (`Generated/C05Buffers.lean`).
`runWrites storage writes` then yields `.overflow i cap` at the first index that is outside the array.
Nothing is totalised: an unguarded loop produces indices without bound.

  site                       source
  `readRealWrites`           `ReadReal` (src/clstepcore/read_func.cc): `in.get( buf[i++] )` … `buf[i] = '\0'`
  `strCopyWrites`            `StrToLower/StrToUpper/StrToConstant( const char *, std::string & )` (src/clutils/Str.cc)
  `prettyWrites`             `PrettyTmpName` (src/clutils/Str.cc)
  `entNodeCtorWrites`        `EntNode::EntNode( const char * )` + `EntNode::Name` (include/clstepcore/complexSupport.h)
  `entNmArrWrites`           `STEPfile::CreateSubSuperInstance` (src/cleditor/STEPfile.cc)
  `nmsWrites`                `STEPcomplex::STEPcomplex( Registry *, const std::string **, … )` (src/clstepcore/STEPcomplex.cc)
  `sprintfWrites`            every `sprintf( fixedArray, "literal format", … )` of the anchored files
-/
namespace StepModel.P21Safe

abbrev Byte := UInt8

def isDigit (c : Byte) : Bool := 48 ≤ c && c ≤ 57
/-- C `isspace` in the "C" locale -/
def isSpace (c : Byte) : Bool := c == 32 || (9 ≤ c && c ≤ 13)
def isUpper (c : Byte) : Bool := 65 ≤ c && c ≤ 90
def isLower (c : Byte) : Bool := 97 ≤ c && c ≤ 122
def isAlpha (c : Byte) : Bool := isUpper c || isLower c
def isAlnum (c : Byte) : Bool := isAlpha c || isDigit c

def chPlus : Byte := 43
def chMinus : Byte := 45
def chDot : Byte := 46
def chE : Byte := 69
def che : Byte := 101
def chUnderscore : Byte := 95

/-- indices `a, a+1, …, a+n-1` -/
def idxRange (a : Nat) : Nat → List Nat
  | 0 => []
  | n + 1 => a :: idxRange (a + 1) n

/-- a C string: the bytes before the first NUL -/
def cstr : List Byte → List Byte
  | [] => []
  | c :: cs => if c = 0 then [] else c :: cstr cs

/-! ### ReadReal -/

def dropSpaces : List Byte → List Byte
  | [] => []
  | c :: cs => if isSpace c then dropSpaces cs else c :: cs

/-- number of leading decimal digits, and the rest -/
def spanDigits : List Byte → Nat × List Byte
  | [] => (0, [])
  | c :: cs => if isDigit c then let (n, r) := spanDigits cs; (n + 1, r) else (0, c :: cs)

def optSign : List Byte → Nat × List Byte
  | c :: cs => if c = chPlus || c = chMinus then (1, cs) else (0, c :: cs)
  | [] => (0, [])

/-- How many characters `ReadReal` stores through `buf[i++]` before it writes the terminator:
`in >> ws`, optional sign, digits, optional `.`, digits, optional (`e`|`E`, optional sign, digits). -/
def realLexLen (inp : List Byte) : Nat :=
  let inp := dropSpaces inp
  let (n0, inp) := optSign inp
  let (n1, inp) := spanDigits inp
  let (n2, inp) := match inp with
    | c :: cs => if c = chDot then (1, cs) else (0, c :: cs)
    | [] => (0, [])
  let (n3, inp) := spanDigits inp
  let n4 := match inp with
    | c :: cs =>
      if c = che || c = chE then
        let (a, r) := optSign cs
        let (b, _) := spanDigits r
        1 + a + b
      else 0
    | [] => 0
  n0 + n1 + n2 + n3 + n4

/-- indices written by a copy loop that stores `n` characters at `0 … n-1` (stopping early when a guard
`i < g` is part of every store's condition) and then the terminator at the final index -/
def copyWrites (guard : Option Nat) (n : Nat) : List Nat :=
  let k := match guard with
    | none => n
    | some g => min n g
  idxRange 0 k ++ [k]

def readRealWrites (guard : Option Nat) (inp : List Byte) : List Nat :=
  copyWrites guard (realLexLen inp)

def readReal (st : Storage) (guard : Option Nat) (inp : List Byte) : Out Unit :=
  runWrites st (readRealWrites guard inp)

/-! ### StrToLower / StrToUpper / StrToConstant (std::string & variants) -/

def strCopyWrites (guard : Option Nat) (word : List Byte) : List Nat :=
  copyWrites guard (cstr word).length

def strCopy (st : Storage) (guard : Option Nat) (word : List Byte) : Out Unit :=
  runWrites st (strCopyWrites guard word)

/-! ### PrettyTmpName
```
newname[0] = '\0';
while( oldname[i] != '\0' && i < G ) {
    newname[i] = ToLower( oldname[i] );
    if( oldname[i] == '_' ) { ++i; newname[i] = ToUpper( oldname[i] ); }
    if( oldname[i] != '\0' ) { ++i; }
}
newname[0] = ToUpper( oldname[0] );  newname[i] = '\0';
``` -/

/-- the loop: `i` is the current index, the list is `oldname + i` up to its NUL.  Returns the writes and the final `i`. -/
def prettyLoop (g : Nat) : Nat → List Byte → List Nat × Nat
  | i, [] => ([], i)
  | i, [c] =>
    if i < g then
      if c = chUnderscore then ([i, i + 1], i + 1)   -- `++i`, store the (upper-cased) NUL, no second `++i`
      else ([i], i + 1)
    else ([], i)
  | i, c :: d :: rest =>
    if i < g then
      if c = chUnderscore then
        let (w, f) := prettyLoop g (i + 2) rest
        (i :: (i + 1) :: w, f)
      else
        let (w, f) := prettyLoop g (i + 1) (d :: rest)
        (i :: w, f)
    else ([], i)

def prettyWrites (g : Nat) (oldname : List Byte) : List Nat :=
  let (w, f) := prettyLoop g 0 (cstr oldname)
  [0] ++ w ++ [0, f]

def pretty (cap g : Nat) (oldname : List Byte) : Out Unit :=
  runWrites (.fixed cap) (prettyWrites g oldname)

/-- index at which `PrettyTmpName` stores the terminator = upper bound of the length of the string it returns -/
def prettyOutLen (g : Nat) (oldname : List Byte) : Nat := (prettyLoop g 0 (cstr oldname)).2

/-- `Registry::FindEntity`: `strcpy( schformat, PrettyTmpName( schNm ) )` — `schNm` is the FILE_SCHEMA name of the file.
(`cap = none`: the tree has no such copy.) -/
def schformatCopy (cap : Option Nat) (g : Nat) (schNm : List Byte) : Out Unit :=
  match cap with
  | none => .ok ()
  | some c => runWrites (.fixed c) (copyWrites none (prettyOutLen g schNm))

/-! ### EntNode( const char * nm ) -/

/-- `strncpy( dst, src, n )` writes exactly `n` bytes (copy, then NUL padding) -/
def strncpyWrites (n : Nat) : List Nat := idxRange 0 n

def entNodeCtorWrites (k : CopyKind) (nm : List Byte) : List Nat :=
  match k with
  | .unbounded => copyWrites none (cstr nm).length          -- StrToLower( nm, name ): no bound at all
  | .strncpy n term =>
    let w1 := strncpyWrites n
    match term with
    | some t =>
      -- `name[t] = '\0'`, then StrToLower( name, name ) in place: it runs to the first NUL of `name`, which is at
      -- `strlen nm` when the source is shorter than both `n` and `t`, and at `t` at the latest otherwise
      let len := (cstr nm).length
      let len' := if len < min n t then len else t
      w1 ++ [t] ++ copyWrites none len'
    | none =>
      -- no terminator: the in-place pass runs as far as the source is long (what follows `name` is unknown)
      w1 ++ copyWrites none (cstr nm).length

def entNodeCtor (cap : Nat) (k : CopyKind) (nm : List Byte) : Out Unit :=
  runWrites (.fixed cap) (entNodeCtorWrites k nm)

/-! ### CreateSubSuperInstance: `entNmArr[enaIndex]`, one slot per part keyword, then the NULL terminator -/

def entNmArrStored (guard : Option Nat) (parts : Nat) : Nat :=
  match guard with
  | none => parts
  | some g => min parts g

def entNmArrWrites (guard : Option Nat) (parts : Nat) : List Nat :=
  copyWrites guard parts

def entNmArr (st : Storage) (guard : Option Nat) (parts : Nat) : Out Unit :=
  runWrites st (entNmArrWrites guard parts)

/-- STEPcomplex ctor: `for( j = 0; names[j] [&& j < g]; j++ ) nms[j] = …;  nms[j] = NULL;` over what the caller
collected (`callerMax` = the caller's cap on the number of part names; none = no cap) -/
def nmsWrites (calleeGuard callerMax : Option Nat) (parts : Nat) : List Nat :=
  copyWrites calleeGuard (entNmArrStored callerMax parts)

def nms (st : Storage) (calleeGuard callerMax : Option Nat) (parts : Nat) : Out Unit :=
  runWrites st (nmsWrites calleeGuard callerMax parts)

/-! ### sprintf into a fixed array -/

/-- bytes produced: literal text + the conversions' output; then the terminating NUL -/
def sprintfLen (s : SprintfSite) (ints names reals : List Nat) : Nat :=
  s.literal + ints.sum + names.sum + reals.sum

def sprintfWrites (s : SprintfSite) (ints names reals : List Nat) : List Nat :=
  copyWrites none (sprintfLen s ints names reals)

def sprintf (s : SprintfSite) (ints names reals : List Nat) : Out Unit :=
  runWrites (.fixed s.cap) (sprintfWrites s ints names reals)

end StepModel.P21Safe

import StepModel.ComplexMarks10
/-!
# Towards completeness on lists with distinct leaves: the shape of a request that *is* a derivation

With distinct leaf names and a request `N` that is exactly a derivation of the list, every sub-list is **alive** (its
names in `N` are exactly one of its derivations) or **dead** (no leaf in `N`): an AND has only alive children, an ANDOR
alive and dead ones (at least one alive), an OrList exactly one alive alternative.
-/
namespace StepModel.Complex.Match
open StepModel.Generated StepModel.Complex

def DeadT (N : List Name) (t : Tree) : Prop := ∀ x ∈ leaves t, x ∉ N
def DeadL (N : List Name) (cs : List Tree) : Prop := ∀ x ∈ leavesL cs, x ∉ N

mutual
  def AliveT (N : List Name) : Tree → Prop
    | .simple n => n ∈ N
    | .and cs => AliveAll N cs
    | .andor cs => AliveSome N cs ∧ AliveAny N cs
    | .or cs => AliveOne N cs
  def AliveAll (N : List Name) : List Tree → Prop
    | [] => True
    | c :: cs => AliveT N c ∧ AliveAll N cs
  def AliveSome (N : List Name) : List Tree → Prop
    | [] => True
    | c :: cs => (AliveT N c ∨ DeadT N c) ∧ AliveSome N cs
  def AliveAny (N : List Name) : List Tree → Prop
    | [] => False
    | c :: cs => AliveT N c ∨ AliveAny N cs
  def AliveOne (N : List Name) : List Tree → Prop
    | [] => False
    | c :: cs => (AliveT N c ∧ DeadL N cs) ∨ (DeadT N c ∧ AliveOne N cs)
end

theorem deadL_cons {N : List Name} {c : Tree} {cs : List Tree} : DeadL N (c :: cs) ↔ DeadT N c ∧ DeadL N cs := by
  simp only [DeadL, DeadT, leavesL, List.mem_append]
  constructor
  · intro h; exact ⟨fun x hx => h x (Or.inl hx), fun x hx => h x (Or.inr hx)⟩
  · rintro ⟨h1, h2⟩ x (hx | hx)
    · exact h1 x hx
    · exact h2 x hx

theorem aliveSome_of_dead {N : List Name} : ∀ (cs : List Tree), DeadL N cs → AliveSome N cs
  | [], _ => trivial
  | c :: cs, h => by
    obtain ⟨h1, h2⟩ := deadL_cons.mp h
    exact ⟨Or.inr h1, aliveSome_of_dead cs h2⟩

theorem nodup_append_disj {l1 l2 : List Name} (h : (l1 ++ l2).Nodup) : l1.Nodup ∧ l2.Nodup ∧ ∀ x ∈ l1, x ∉ l2 := by
  rw [List.nodup_append] at h
  exact ⟨h.1, h.2.1, fun x hx hx2 => h.2.2 x hx x hx2 rfl⟩

mutual
  theorem alive_of_der (N : List Name) : ∀ (T : Tree) (Y : List Name), Y ∈ denote T → (leaves T).Nodup →
      (∀ x ∈ leaves T, x ∈ N ↔ x ∈ Y) → AliveT N T
    | .simple n, Y, hY, _, h => by
      simp only [denote, List.mem_singleton] at hY; subst hY
      simp only [AliveT]
      exact (h n (by simp [leaves])).mpr (by simp)
    | .and cs, Y, hY, hnd, h => by
      simp only [denote] at hY; simp only [leaves] at hnd h; simp only [AliveT]
      exact aliveAll_of_der N cs Y hY hnd h
    | .andor cs, Y, hY, hnd, h => by
      simp only [denote] at hY; simp only [leaves] at hnd h; simp only [AliveT]
      exact aliveSome_of_der N cs Y hY hnd h
    | .or cs, Y, hY, hnd, h => by
      simp only [denote] at hY; simp only [leaves] at hnd h; simp only [AliveT]
      exact aliveOne_of_der N cs Y hY hnd h
  theorem aliveAll_of_der (N : List Name) : ∀ (cs : List Tree) (Y : List Name), Y ∈ prodD (denoteL cs) → (leavesL cs).Nodup →
      (∀ x ∈ leavesL cs, x ∈ N ↔ x ∈ Y) → AliveAll N cs
    | [], _, _, _, _ => trivial
    | c :: cs, Y, hY, hnd, h => by
      simp only [denoteL] at hY
      obtain ⟨Y1, h1, Y2, h2, rfl⟩ := mem_prodD_cons''.mp hY
      simp only [leavesL] at hnd h
      obtain ⟨n1, n2, dj⟩ := nodup_append_disj hnd
      refine ⟨alive_of_der N c Y1 h1 n1 (fun x hx => ?_), aliveAll_of_der N cs Y2 h2 n2 (fun x hx => ?_)⟩
      · rw [h x (List.mem_append.mpr (Or.inl hx)), List.mem_append]
        constructor
        · rintro (e | e)
          · exact e
          · exact absurd (prod_sub cs Y2 h2 x e) (dj x hx)
        · exact Or.inl
      · rw [h x (List.mem_append.mpr (Or.inr hx)), List.mem_append]
        constructor
        · rintro (e | e)
          · exact absurd hx (dj x (denote_sub c Y1 h1 x e))
          · exact e
        · exact Or.inr
  theorem aliveSome_of_der (N : List Name) : ∀ (cs : List Tree) (Y : List Name), Y ∈ selD (denoteL cs) → (leavesL cs).Nodup →
      (∀ x ∈ leavesL cs, x ∈ N ↔ x ∈ Y) → AliveSome N cs ∧ AliveAny N cs
    | [], Y, hY, _, _ => by simp [denoteL, selD] at hY
    | c :: cs, Y, hY, hnd, h => by
      simp only [denoteL] at hY
      simp only [leavesL] at hnd h
      obtain ⟨n1, n2, dj⟩ := nodup_append_disj hnd
      rcases mem_selD_cons''.mp hY with hs | hs | ⟨Y1, h1, Y2, h2, rfl⟩
      · -- `c` not selected: dead
        have hdead : DeadT N c := fun x hx hxN =>
          dj x hx (sel_sub cs Y hs x ((h x (List.mem_append.mpr (Or.inl hx))).mp hxN))
        obtain ⟨a, b⟩ := aliveSome_of_der N cs Y hs n2 (fun x hx => h x (List.mem_append.mpr (Or.inr hx)))
        exact ⟨⟨Or.inr hdead, a⟩, Or.inr b⟩
      · -- only `c` selected
        have hal := alive_of_der N c Y hs n1 (fun x hx => h x (List.mem_append.mpr (Or.inl hx)))
        have hdead : DeadL N cs := fun x hx hxN =>
          dj x (denote_sub c Y hs x ((h x (List.mem_append.mpr (Or.inr hx))).mp hxN)) hx
        exact ⟨⟨Or.inl hal, aliveSome_of_dead cs hdead⟩, Or.inl hal⟩
      · have hal := alive_of_der N c Y1 h1 n1 (fun x hx => by
          rw [h x (List.mem_append.mpr (Or.inl hx)), List.mem_append]
          constructor
          · rintro (e | e)
            · exact e
            · exact absurd (sel_sub cs Y2 h2 x e) (dj x hx)
          · exact Or.inl)
        obtain ⟨a, _⟩ := aliveSome_of_der N cs Y2 h2 n2 (fun x hx => by
          rw [h x (List.mem_append.mpr (Or.inr hx)), List.mem_append]
          constructor
          · rintro (e | e)
            · exact absurd hx (dj x (denote_sub c Y1 h1 x e))
            · exact e
          · exact Or.inr)
        exact ⟨⟨Or.inl hal, a⟩, Or.inl hal⟩
  theorem aliveOne_of_der (N : List Name) : ∀ (cs : List Tree) (Y : List Name), Y ∈ (denoteL cs).flatten → (leavesL cs).Nodup →
      (∀ x ∈ leavesL cs, x ∈ N ↔ x ∈ Y) → AliveOne N cs
    | [], Y, hY, _, _ => by simp [denoteL] at hY
    | c :: cs, Y, hY, hnd, h => by
      simp only [denoteL, List.flatten_cons, List.mem_append] at hY
      simp only [leavesL] at hnd h
      obtain ⟨n1, n2, dj⟩ := nodup_append_disj hnd
      rcases hY with hs | hs
      · have hal := alive_of_der N c Y hs n1 (fun x hx => h x (List.mem_append.mpr (Or.inl hx)))
        have hdead : DeadL N cs := fun x hx hxN =>
          dj x (denote_sub c Y hs x ((h x (List.mem_append.mpr (Or.inr hx))).mp hxN)) hx
        exact Or.inl ⟨hal, hdead⟩
      · have hdead : DeadT N c := fun x hx hxN =>
          dj x hx (flat_sub cs Y hs x ((h x (List.mem_append.mpr (Or.inl hx))).mp hxN))
        exact Or.inr ⟨hdead, aliveOne_of_der N cs Y hs n2 (fun x hx => h x (List.mem_append.mpr (Or.inr hx)))⟩
end

end StepModel.Complex.Match

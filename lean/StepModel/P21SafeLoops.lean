import StepModel.P21Safe
/-! C05 — the input-skipping / recovery loops of the Part 21 reader as fuel-taking functions over a small model of
`std::istream` (exactly the operations these loops use, with libstdc++'s state-bit behaviour).

  `skipInstance`, `findStartOfInstance`   `SkipInstance`, `FindStartOfInstance`   src/clstepcore/read_func.cc
  `getLiteralStr`, `sdaiStringRead`       `GetLiteralStr` (src/clutils/Str.cc), `SDAI_String::STEPread` (src/cldai/sdaiString.cc)
  `readComment`                           `ReadComment( istream &, std::string & )` with MAX_COMMENT_LENGTH
  `readPcd`, `readTokenSeparator`         `ReadPcd`, `ReadTokenSeparator`
  `findHeaderSection`                     `STEPfile::FindHeaderSection`           src/cleditor/STEPfile.cc
  `recoveryScan`                          the `);` scan at the end of `SDAI_Application_instance::STEPread`
  `exportList`                            the export-list loop of `STEPfile::CreateScopeInstances` / `ReadScopeInstances`

The C++ keeps the *stale* value of `char c` when an extraction fails; the model threads `c` explicitly.
Every loop iteration costs one unit of `steps`; reading a string literal and a `getline` additionally cost the bytes they
consume (their inner loops); a loop that is handed too little fuel answers `.outOfFuel`. -/
namespace StepModel.P21Safe

/-- the part of `std::istream` the loops use: consumed bytes (latest first), remaining bytes, eofbit, failbit|badbit,
and the `skipws` format flag (cleared for good by `SDAI_String::STEPread` once it has read a string). -/
structure IS where
  pre : List Byte
  rest : List Byte
  eof : Bool
  fail : Bool
  skipws : Bool
  deriving Repr, DecidableEq

namespace IS
def ofBytes (b : List Byte) : IS := ⟨[], b, false, false, true⟩
def good (s : IS) : Bool := !s.eof && !s.fail
def pos (s : IS) : Nat := s.pre.length

/-- move leading white space from `rest` to `pre` -/
def skipSpaces : List Byte → List Byte → List Byte × List Byte
  | pre, [] => (pre, [])
  | pre, c :: cs => if isSpace c then skipSpaces (c :: pre) cs else (pre, c :: cs)

/-- `in >> ws` -/
def ws (s : IS) : IS :=
  if !s.good then { s with fail := true } else
  let (p, r) := skipSpaces s.pre s.rest
  { s with pre := p, rest := r, eof := r.isEmpty }

/-- `in.peek()` -/
def peek (s : IS) : IS × Option Byte :=
  if !s.good then ({ s with fail := true }, none) else
  match s.rest with
  | [] => ({ s with eof := true }, none)
  | c :: _ => (s, some c)

/-- `in.get( c )` / `in.get()` (unformatted: no white-space skipping) -/
def get (s : IS) : IS × Option Byte :=
  if !s.good then ({ s with fail := true }, none) else
  match s.rest with
  | [] => ({ s with eof := true, fail := true }, none)
  | c :: r => ({ s with pre := c :: s.pre, rest := r }, some c)

/-- `in >> c` for `char c` (formatted: skips white space when `skipws` is set) -/
def extract (s : IS) : IS × Option Byte :=
  if !s.good then ({ s with fail := true }, none) else
  let (p, r) := if s.skipws then skipSpaces s.pre s.rest else (s.pre, s.rest)
  match r with
  | [] => ({ s with pre := p, rest := [], eof := true, fail := true }, none)
  | c :: r' => ({ s with pre := c :: p, rest := r' }, some c)

/-- `in.putback( c )` on a stringbuf opened for input: clears eofbit (always), then needs a non-failed stream and `c` equal to the
byte before the get pointer (otherwise badbit, observed through `fail()`) -/
def putback (s : IS) (c : Byte) : IS :=
  if s.fail then { s with eof := false } else
  match s.pre with
  | p :: ps => if p = c then { s with pre := ps, rest := p :: s.rest, eof := false } else { s with eof := false, fail := true }
  | [] => { s with eof := false, fail := true }

/-- `in.ignore()` -/
def ignore (s : IS) : IS :=
  if !s.good then { s with fail := true } else
  match s.rest with
  | [] => { s with eof := true }
  | c :: r => { s with pre := c :: s.pre, rest := r }

/-- `in.clear()` -/
def clear (s : IS) : IS := { s with eof := false, fail := false }

/-- decimal digits at the front: (digits consumed reversed onto pre, rest, value, count) -/
def spanNum : List Byte → List Byte → Nat → Nat → List Byte × List Byte × Nat × Nat
  | pre, [], v, n => (pre, [], v, n)
  | pre, c :: cs, v, n => if isDigit c then spanNum (c :: pre) cs (v * 10 + (c.toNat - 48)) (n + 1) else (pre, c :: cs, v, n)

/-- `in >> i` for `int i`: white space (if `skipws`), optional sign, digits; failbit when there is no digit or the value
does not fit; eofbit when the digits run to the end -/
def extractInt (s : IS) : IS :=
  if !s.good then { s with fail := true } else
  let (p, r) := if s.skipws then skipSpaces s.pre s.rest else (s.pre, s.rest)
  match r with
  | [] => { s with pre := p, rest := [], eof := true, fail := true }
  | c :: r' =>
    let (neg, p1, r1) := if c = chPlus then (false, c :: p, r') else if c = chMinus then (true, c :: p, r') else (false, p, c :: r')
    let (p2, r2, v, n) := spanNum p1 r1 0 0
    let bad := n == 0 || (if neg then v > 2147483648 else v > 2147483647)
    { s with pre := p2, rest := r2, eof := r2.isEmpty, fail := bad }
end IS

structure LoopRes where
  s : IS
  sev : Int
  len : Nat
  steps : Nat
  deriving Repr, DecidableEq

def chQuote : Byte := 39
def chSemi : Byte := 59
def chHash : Byte := 35
def chSlash : Byte := 47
def chStar : Byte := 42
def chBackslash : Byte := 92
def chRParen : Byte := 41
def chComma : Byte := 44
def chNewline : Byte := 10
def sevNull : Int := 3
def sevInputError : Int := -1

/-! ### GetLiteralStr / SDAI_String::STEPread -/

/-- does the string read so far (reversed) end with `\S\` ? -/
def endsSlashS : List Byte → Bool
  | a :: b :: c :: _ => a == chBackslash && b == 83 && c == chBackslash
  | _ => false

/-- the `while( in.good() )` loop of `GetLiteralStr` after the opening quote: (string reversed, rest, hit end, allDelimsEscaped) -/
def litLoop : List Byte → List Byte → Bool → List Byte × List Byte × Bool × Bool
  | [], acc, esc => (acc, [], true, esc)
  | c :: r, acc, esc =>
    if c = chQuote then litLoop r (c :: acc) (if endsSlashS acc then esc else !esc)
    else if !esc then (acc, c :: r, false, esc)
    else litLoop r (c :: acc) esc

/-- character comparisons one `StrEndsWith( s, "\\S\\" )` call costs on a string of `len` characters -/
def endsWithCost : EndsWithShape → Nat → Nat
  | .suffixOnly, _ => 3
  | .wholeString, len => len

/-- cost of the `while( in.good() )` loop of `GetLiteralStr`: one unit per iteration plus, for every apostrophe,
the cost of the `StrEndsWith` call on the string read so far (`acc`) — same recursion as `litLoop` -/
def litLoopCost (sh : EndsWithShape) : List Byte → List Byte → Bool → Nat
  | [], _, _ => 1
  | c :: r, acc, esc =>
    if c = chQuote then 1 + endsWithCost sh acc.length + litLoopCost sh r (c :: acc) (if endsSlashS acc then esc else !esc)
    else if !esc then 1
    else 1 + litLoopCost sh r (c :: acc) esc

/-- `GetLiteralStr`: the stream afterwards and the string (with its quotes) -/
def getLiteralStr (s : IS) : IS × List Byte :=
  let s := s.ws
  if !s.good then (s, []) else
  match s.rest with
  | [] => ({ s with eof := true }, [])      -- unreachable: `ws` already set eofbit
  | c :: r =>
    if c = chQuote then
      let (acc, r', hitEnd, _) := litLoop r [c] true
      ({ s with pre := acc ++ s.pre, rest := r', eof := hitEnd }, acc.reverse)
    else (s, [])

/-- `SDAI_String::STEPread( istream & )`: clears `skipws`, restores it only when nothing was read -/
def sdaiStringRead (s : IS) : IS × List Byte :=
  let old := s.skipws
  let (s', str) := getLiteralStr { s with skipws := false }
  if str.isEmpty then ({ s' with skipws := old }, []) else (s', str)

/-! ### ReadComment( istream &, std::string & ) -/

/-- the `while( commentLength <= MAX_COMMENT_LENGTH )` loop.  `limit` is the number of iterations the guard admits, `left`
what is left of them.  Since /repo 9cc7a1b5 the counter starts again whenever it has run out while the stream is good
(`if( commentLength > MAX_COMMENT_LENGTH && in.good() ) commentLength = 0;` at the end of the body): the limit ends the loop
only when the input has ended inside the comment (`in.get` fails, `c` stays what it was).  `fuel` bounds the iterations of
the model.  Returns `none` when the guard stopped the loop, `some` when the comment was closed. -/
def commentLoop (limit : Nat) : Nat → Nat → IS → Byte → Nat → Nat → Out ((Option Unit) × IS × Byte × Nat × Nat)
  | 0, _, _, _, _, _ => .outOfFuel
  | fuel + 1, left, s, c, len, steps =>
    if left = 0 then .ok (none, s, c, len, steps)
    else if (s.get).2.getD c = chStar then
      if ((s.get).1.get).2.getD chStar = chSlash then .ok (some (), ((s.get).1.get).1, chSlash, len, steps + 1)
      else commentLoop limit fuel
        (if left - 1 = 0 && (((s.get).1.get).1.putback (((s.get).1.get).2.getD chStar)).good then limit else left - 1)
        (((s.get).1.get).1.putback (((s.get).1.get).2.getD chStar)) (((s.get).1.get).2.getD chStar) (len + 1) (steps + 1)
    else commentLoop limit fuel (if left - 1 = 0 && (s.get).1.good then limit else left - 1)
      (s.get).1 ((s.get).2.getD c) (len + 1) (steps + 1)

/-- `ReadComment`; `skip` is the `SkipInstance` it falls back to when the guard ends the loop (the input ended inside the
comment).  `sev` carries the return value: 1 = a comment string is returned, 0 = null pointer -/
def readCommentWith (skip : IS → Out LoopRes) (iters : Nat) (s : IS) : Out LoopRes :=
  let s := s.ws
  let (s, c) := match s.extract with
    | (s', some c') => (s', c')
    | (s', none) => (s', (0 : Byte))
  if c = chSlash then
    let (s1, c1) := match s.get with
      | (s', some c') => (s', c')
      | (s', none) => (s', c)
    if c1 = chStar then
      let s2 := s1.ws
      match commentLoop iters (s2.rest.length + iters + 3) iters s2 c1 0 0 with
      | .ok (some _, s3, _, len, steps) => .ok ⟨s3, 1, len, steps⟩
      | .ok (none, s3, _, len, steps) =>
        match skip s3 with
        | .ok r => .ok ⟨r.s, 1, len, steps + r.steps⟩
        | .overflow i c => .overflow i c
        | .outOfFuel => .outOfFuel
      | .overflow i c => .overflow i c
      | .outOfFuel => .outOfFuel
    else .ok ⟨s1.putback c1, 0, 0, 0⟩
  else .ok ⟨s.putback c, 0, 0, 0⟩

/-! ### SkipInstance / FindStartOfInstance -/

/-- common shape of both: read characters until `stop`; a quote starts a string that is skipped as a whole;
NUL is an input error.  `c` is the C variable (stale after a failed extraction).
`cm`: the `case '/':` of `SkipInstance` (a comment is stepped over; regenerated flag), `iters` the comment limit. -/
def scanAfter (rec : IS → Byte → Nat → Nat → Out LoopRes) (stop : Byte) (putbackStop cm : Bool) (iters : Nat)
    (s1 : IS) (c1 : Byte) (len steps : Nat) : Out LoopRes :=
  if c1 = stop then .ok ⟨if putbackStop then s1.putback c1 else s1, sevNull, len, steps + 1⟩
  else if cm && c1 = chSlash then
    let (s2, p) := s1.peek
    if p = some chStar then
      match readCommentWith (fun s' => rec s' 0 0 0) iters (s2.putback c1) with
      | .ok r => rec r.s c1 len (steps + 1 + r.steps)
      | .overflow i c => .overflow i c
      | .outOfFuel => .outOfFuel
    else rec s2 c1 (len + 1) (steps + 1)
  else if c1 = chQuote then
    let (s2, str) := sdaiStringRead (s1.putback c1)
    rec s2 c1 (len + (cstr str).length) (steps + 1 + str.length)
  else if c1 = 0 then .ok ⟨s1, sevInputError, len, steps + 1⟩
  else rec s1 c1 (len + 1) (steps + 1)

/-- one iteration; `rec` is the rest of the loop (the same function with one unit of fuel less) -/
def scanStep (rec : IS → Byte → Nat → Nat → Out LoopRes) (stop : Byte) (putbackStop cm : Bool) (iters : Nat)
    (s : IS) (c : Byte) (len steps : Nat) : Out LoopRes :=
  if !s.good then .ok ⟨s, sevInputError, len, steps⟩ else
  match s.extract with
  | (s', some c') => scanAfter rec stop putbackStop cm iters s' c' len steps
  | (s', none) => scanAfter rec stop putbackStop cm iters s' c len steps

def scanUntil (stop : Byte) (putbackStop cm : Bool) (iters : Nat) : Nat → IS → Byte → Nat → Nat → Out LoopRes
  | 0 => fun _ _ _ _ => .outOfFuel
  | fuel + 1 => scanStep (scanUntil stop putbackStop cm iters fuel) stop putbackStop cm iters

def skipInstance (cm : Bool) (iters fuel : Nat) (s : IS) : Out LoopRes := scanUntil chSemi false cm iters fuel s 0 0 0
def findStartOfInstance (fuel : Nat) (s : IS) : Out LoopRes := scanUntil chHash true false 0 fuel s 0 0 0

def readComment (cm : Bool) (iters fuel : Nat) (s : IS) : Out LoopRes :=
  readCommentWith (skipInstance cm iters fuel) iters s

/-! ### ReadPcd / ReadTokenSeparator -/

def readPcd (s : IS) : IS :=
  let (s1, c1) := match s.get with | (s', some c') => (s', c') | (s', none) => (s', (0 : Byte))
  if c1 = chBackslash then
    let (s2, c2) := match s1.get with | (s', some c') => (s', c') | (s', none) => (s', c1)
    if c2 = 70 || c2 = 78 then
      let (s3, c3) := match s2.get with | (s', some c') => (s', c') | (s', none) => (s', c2)
      s3      -- (whether or not `c3` closes the directive: nothing more is read — shape checked by the extractor)
    else s2
  else s1

/-- one iteration of `while( in )`; `rec` is the rest of the loop, `skip` the `SkipInstance` an overlong comment falls back to -/
def tokSepStep (rec : IS → Nat → Out LoopRes) (skip : IS → Out LoopRes) (iters : Nat) (s : IS) (steps : Nat) : Out LoopRes :=
  if s.fail then .ok ⟨s, 0, 0, steps⟩ else
  match s.ws.peek with
  | (s2, none) => .ok ⟨s2, 0, 0, steps + 1⟩
  | (s2, some c) =>
    if c = chSlash then
      match readCommentWith skip iters s2 with
      | .ok r => rec r.s (steps + 1 + r.steps)
      | .overflow i c => .overflow i c
      | .outOfFuel => .outOfFuel
    else if c = chBackslash then rec (readPcd s2) (steps + 1)
    else if c = chNewline then rec s2.ignore (steps + 1)
    else .ok ⟨s2, 0, 0, steps + 1⟩

def tokSepLoop (cm : Bool) (iters : Nat) : Nat → IS → Nat → Out LoopRes
  | 0 => fun _ _ => .outOfFuel
  | fuel + 1 => tokSepStep (tokSepLoop cm iters fuel) (skipInstance cm iters (fuel + 1)) iters

def readTokenSeparator (cm : Bool) (iters fuel : Nat) (s : IS) : Out LoopRes :=
  if s.eof then .ok ⟨s, 0, 0, 0⟩ else tokSepLoop cm iters fuel s 0

/-! ### STEPfile::FindHeaderSection -/

/-- characters `getline` stores: up to `k` bytes different from `delim` -/
def takeLine (delim : Byte) : Nat → List Byte → List Byte × List Byte
  | 0, r => ([], r)
  | _ + 1, [] => ([], [])
  | k + 1, c :: r => if c = delim then ([], c :: r) else let (t, r') := takeLine delim k r; (c :: t, r')

/-- `in.getline( buf, n, delim )`: the stream afterwards and the contents of `buf` -/
def getline (n : Nat) (delim : Byte) (s : IS) : IS × List Byte :=
  if !s.good then ({ s with fail := true }, []) else
  let (t, r) := takeLine delim (n - 1) s.rest
  match r with
  | [] => ({ s with pre := t.reverse ++ s.pre, rest := [], eof := true, fail := t.isEmpty }, t)
  | c :: r' =>
    if c = delim then ({ s with pre := c :: (t.reverse ++ s.pre), rest := r' }, t)
    else ({ s with pre := t.reverse ++ s.pre, rest := c :: r', fail := true }, t)

def isPrefix : List Byte → List Byte → Bool
  | [], _ => true
  | _ :: _, [] => false
  | a :: as, b :: bs => a == b && isPrefix as bs

def containsSub (pat : List Byte) : List Byte → Bool
  | [] => pat.isEmpty
  | c :: cs => isPrefix pat (c :: cs) || containsSub pat cs

def kwHEADER : List Byte := [72, 69, 65, 68, 69, 82]

def headerLoop (n : Nat) (ex : ExitCond) : Nat → IS → List Byte → Nat → Out LoopRes
  | 0, _, _, _ => .outOfFuel
  | fuel + 1, s, buf, steps =>
    if containsSub kwHEADER (cstr buf) then .ok ⟨s, 1, 0, steps⟩ else
    let giveUp := match ex with
      | .eofOnly => s.eof
      | .notGood => !s.good
    if giveUp then .ok ⟨s, 0, 0, steps⟩ else
    let (s1, buf1) := getline n chSemi s
    headerLoop n ex fuel s1 buf1 (steps + 1 + buf1.length)

/-- `sev` carries the return value (1 = found).  (`ReadTokenSeparator` first, with the regenerated comment limit
passed by the caller through `iters`.) -/
def findHeaderSectionWith (cm : Bool) (iters n : Nat) (ex : ExitCond) (fuel : Nat) (s : IS) : Out LoopRes :=
  match readTokenSeparator cm iters fuel s with
  | .ok r => headerLoop n ex fuel r.s [] r.steps
  | o => o

/-! ### the `);` recovery scan of SDAI_Application_instance::STEPread -/

/-- the inner loop `while( in.good() && c != ')' [&& !foundEnd] ) { in.get( c ); tmp += c; … }`.  With `stay` (regenerated:
the scan stays in the record) a `;` is put back and ends the scan; with `quotes` as well (the shape of fixes/C05-14) a `'`
toggles `inString` and only a `;` outside a string literal counts.
Returns the stream, `c`, `inString`, `foundEnd`, `len` and the steps. -/
def recoverInner (stay quotes : Bool) : Nat → IS → Byte → Bool → Nat → Nat → Out (IS × Byte × Bool × Bool × Nat × Nat)
  | 0, _, _, _, _, _ => .outOfFuel
  | fuel + 1, s, c, q, len, steps =>
    if s.good && c != chRParen then
      if stay && quotes && (s.get).1.good && (s.get).2.getD c = chQuote then
        recoverInner stay quotes fuel (s.get).1 chQuote (!q) (len + 1) (steps + 1)
      else if stay && (s.get).1.good && (s.get).2.getD c = chSemi && (!quotes || !q) then
        .ok ((s.get).1.putback chSemi, chSemi, q, true, len + 1, steps + 1)
      else recoverInner stay quotes fuel (s.get).1 ((s.get).2.getD c) q (len + 1) (steps + 1)
    else .ok (s, c, q, false, len, steps)

/-- the outer loop `while( in.good() && !foundEnd )`: after a `)`, `in >> ws; in.get( c );` and a `;` ends the scan (`pb`,
regenerated: it is put back for the caller).  `sev` 1: the end was found. -/
def recoverOuter (stay quotes pb : Bool) : Nat → IS → Byte → Bool → Nat → Nat → Out LoopRes
  | 0, _, _, _, _, _ => .outOfFuel
  | fuel + 1, s, c, q, len, steps =>
    if !s.good then .ok ⟨s, 0, len, steps⟩ else
    match recoverInner stay quotes (fuel + 1) s c q len steps with
    | .ok (s1, c1, q1, fnd, len1, steps1) =>
      if fnd then .ok ⟨s1, 1, len1, steps1⟩
      else if s1.good && c1 == chRParen then
        if (s1.ws.get).2.getD c1 = chSemi then
          .ok ⟨if pb then (s1.ws.get).1.putback chSemi else (s1.ws.get).1, 1, len1 + 1, steps1 + 1⟩
        else recoverOuter stay quotes pb fuel (s1.ws.get).1 ((s1.ws.get).2.getD c1)
          (if stay && quotes && (s1.ws.get).1.good && (s1.ws.get).2.getD c1 = chQuote then !q1 else q1) (len1 + 1) (steps1 + 1)
      else recoverOuter stay quotes pb fuel s1 c1 q1 len1 (steps1 + 1)
    | .overflow i c => .overflow i c
    | .outOfFuel => .outOfFuel

/-- `in.clear()` first; `c` is the character that made `STEPread` give up -/
def recoveryScan (stay quotes pb : Bool) (fuel : Nat) (s : IS) (c : Byte) : Out LoopRes :=
  recoverOuter stay quotes pb fuel s.clear c false 0 0

/-- `SDAI_Application_instance::STEPread` of an entity without attributes: `in >> ws; in >> c;` (a character other than `(`
is put back), `ReadTokenSeparator`, `in >> c` — a `)` ends the read (`sev` 1), anything else goes to the recovery scan with that `c` and
the read reports an error (`sev` 0) -/
def stepReadNoAttrs (stay quotes pb cm : Bool) (iters fuel : Nat) (s : IS) : Out LoopRes :=
  match readTokenSeparator cm iters fuel
      (if (s.ws.extract).2.getD 0 = 40 then (s.ws.extract).1 else (s.ws.extract).1.putback ((s.ws.extract).2.getD 0)) with
  | .ok r =>
    if (r.s.extract).2.getD ((s.ws.extract).2.getD 0) = chRParen then .ok ⟨(r.s.extract).1, 1, 0, r.steps + 1⟩
    else
      match recoveryScan stay quotes pb fuel (r.s.extract).1 ((r.s.extract).2.getD ((s.ws.extract).2.getD 0)) with
      | .ok r2 => .ok ⟨r2.s, 0, r2.len, r.steps + 1 + r2.steps⟩
      | o => o
  | o => o

/-! ### export list `/#1, #2/` of Create/ReadScopeInstances -/

/-- one iteration of `while( c == ',' [&& in.good()] )`; `tok` is `ReadTokenSeparator`, `rec` the rest of the loop -/
def exportStep (rec : IS → Byte → Nat → Out LoopRes) (tok : IS → Out LoopRes) (checks : Bool)
    (s : IS) (c : Byte) (steps : Nat) : Out LoopRes :=
  if c = chComma && (!checks || s.good) then
    match tok s with
    | .ok r1 =>
      match tok (r1.s.get).1.extractInt with
      | .ok r2 =>
        match r2.s.get with
        | (s4, some c4) => rec s4 c4 (steps + 1 + r1.steps + r2.steps)
        | (s4, none) => rec s4 c (steps + 1 + r1.steps + r2.steps)
      | o => o
    | o => o
  else .ok ⟨s, 0, 0, steps⟩

def exportLoop (checks cm : Bool) (iters : Nat) : Nat → IS → Byte → Nat → Out LoopRes
  | 0 => fun _ _ _ => .outOfFuel
  | fuel + 1 => exportStep (exportLoop checks cm iters fuel) (readTokenSeparator cm iters (fuel + 1)) checks

end StepModel.P21Safe

import StepModel.P21SafePass2Lemmas
import StepModel.P21SafeSteps2
/-! The readers only move the get pointer (helper file for Props/C05): the input — what is behind the get pointer, reversed,
followed by what is in front of it — is the same list of bytes after every primitive and every modelled loop.  Together with
"the rest does not grow" this makes the rest after a reader a suffix of the rest before it. -/
namespace StepModel.P21Safe

/-- the input of a stream: the bytes already passed (`pre`, most recent first) and the bytes still to come -/
def IS.whole (s : IS) : List Byte := s.pre.reverse ++ s.rest

theorem skipSpaces_whole (pre rest : List Byte) :
    (IS.skipSpaces pre rest).1.reverse ++ (IS.skipSpaces pre rest).2 = pre.reverse ++ rest := by
  fun_induction IS.skipSpaces pre rest <;> simp_all

theorem ws_whole (s : IS) : s.ws.whole = s.whole := by
  obtain ⟨pre, rest, eof, fail, sk⟩ := s
  have := skipSpaces_whole pre rest
  cases eof <;> cases fail <;> simp [IS.ws, IS.good, IS.whole]
  generalize IS.skipSpaces pre rest = sp at this
  obtain ⟨p, r⟩ := sp
  simpa using this

theorem peek_whole (s : IS) : (s.peek).1.whole = s.whole := by
  obtain ⟨pre, rest, eof, fail, sk⟩ := s
  cases eof <;> cases fail <;> cases rest <;> simp [IS.peek, IS.good, IS.whole]

theorem get_whole (s : IS) : (s.get).1.whole = s.whole := by
  obtain ⟨pre, rest, eof, fail, sk⟩ := s
  cases eof <;> cases fail <;> cases rest <;> simp [IS.get, IS.good, IS.whole]

theorem ignore_whole (s : IS) : s.ignore.whole = s.whole := by
  obtain ⟨pre, rest, eof, fail, sk⟩ := s
  cases eof <;> cases fail <;> cases rest <;> simp [IS.ignore, IS.good, IS.whole]

theorem clear_whole (s : IS) : s.clear.whole = s.whole := rfl

theorem skipws_whole (s : IS) (k : Bool) : ({ s with skipws := k } : IS).whole = s.whole := rfl

theorem putback_whole (s : IS) (c : Byte) : (s.putback c).whole = s.whole := by
  obtain ⟨pre, rest, eof, fail, sk⟩ := s
  cases fail
  · cases pre with
    | nil => simp [IS.putback, IS.whole]
    | cons p ps =>
      by_cases h : p = c
      · simp [IS.putback, IS.whole, h]
      · simp [IS.putback, IS.whole, h]
  · simp [IS.putback, IS.whole]

theorem extract_whole (s : IS) : (s.extract).1.whole = s.whole := by
  obtain ⟨pre, rest, eof, fail, sk⟩ := s
  have := skipSpaces_whole pre rest
  cases eof <;> cases fail <;> simp [IS.extract, IS.good, IS.whole]
  cases sk
  · cases rest <;> simp
  · generalize IS.skipSpaces pre rest = sp at this
    obtain ⟨p, r⟩ := sp
    cases r with
    | nil => simpa using this
    | cons x r' => simp at this ⊢; simpa using this

theorem spanNum_whole (pre rest : List Byte) (v n : Nat) :
    (IS.spanNum pre rest v n).1.reverse ++ (IS.spanNum pre rest v n).2.1 = pre.reverse ++ rest := by
  fun_induction IS.spanNum pre rest v n <;> simp_all

theorem litLoop_whole (r acc : List Byte) (esc : Bool) :
    (litLoop r acc esc).1.reverse ++ (litLoop r acc esc).2.1 = acc.reverse ++ r := by
  fun_induction litLoop r acc esc <;> simp_all

theorem getLiteralStr_whole (s : IS) : (getLiteralStr s).1.whole = s.whole := by
  have hw := ws_whole s
  unfold getLiteralStr
  generalize s.ws = w at hw
  obtain ⟨pre, rest, eof, fail, sk⟩ := w
  rw [← hw]
  by_cases hg : (eof = false ∧ fail = false)
  · obtain ⟨rfl, rfl⟩ := hg
    cases rest with
    | nil => simp [IS.good, IS.whole]
    | cons c r =>
      by_cases hq : c = chQuote
      · subst hq
        have h := litLoop_whole r [chQuote] true
        simp at h
        simp [IS.good, IS.whole, List.append_assoc, h]
      · simp [IS.good, IS.whole, hq]
  · cases eof <;> cases fail <;> simp at hg <;> simp [IS.good, IS.whole]

theorem sdaiStringRead_whole (s : IS) : (sdaiStringRead s).1.whole = s.whole := by
  unfold sdaiStringRead
  have := getLiteralStr_whole { s with skipws := false }
  generalize getLiteralStr { s with skipws := false } = g at this
  obtain ⟨s', str⟩ := g
  simp only [] at this ⊢
  split
  · exact this
  · exact this

theorem readPcd_whole (s : IS) : (readPcd s).whole = s.whole := by
  unfold readPcd
  have h1 := get_whole s
  generalize s.get = g1 at h1
  obtain ⟨s1, o1⟩ := g1
  simp only [] at h1
  have key1 : ∀ c1 : Byte, (if c1 = chBackslash then
        (match (match s1.get with | (s', some c') => (s', c') | (s', none) => (s', c1)) with
         | (s2, c2) => if (c2 = 70 || c2 = 78) = true then
              (match (match s2.get with | (s', some c') => (s', c') | (s', none) => (s', c2)) with
               | (s3, c3) => s3)
            else s2)
      else s1).whole = s1.whole := by
    intro c1
    split
    · have h2 := get_whole s1
      generalize s1.get = g2 at h2
      obtain ⟨s2, o2⟩ := g2
      simp only [] at h2
      have key2 : ∀ c2 : Byte, (if (c2 = 70 || c2 = 78) = true then
              (match (match s2.get with | (s', some c') => (s', c') | (s', none) => (s', c2)) with
               | (s3, c3) => s3)
            else s2).whole = s1.whole := by
        intro c2
        split
        · have h3 := get_whole s2
          generalize s2.get = g3 at h3
          obtain ⟨s3, o3⟩ := g3
          simp only [] at h3
          cases o3 <;> simp only [] <;> rw [h3, h2]
        · exact h2
      cases o2 with
      | none => exact key2 c1
      | some c2 => exact key2 c2
    · rfl
  cases o1 with
  | none => rw [← h1]; exact key1 0
  | some c1 => rw [← h1]; exact key1 c1

/-! ### the loops -/

/-- a reader that keeps the input -/
def Keeps (f : IS → Out LoopRes) : Prop := ∀ s r, f s = .ok r → r.s.whole = s.whole

theorem commentLoop_whole (limit : Nat) : ∀ (fuel left : Nat) (s : IS) (c : Byte) (len steps : Nat) o s' c' len' st',
    commentLoop limit fuel left s c len steps = .ok (o, s', c', len', st') → s'.whole = s.whole := by
  intro fuel
  induction fuel with
  | zero => intro left s c len steps o s' c' len' st' h; simp [commentLoop] at h
  | succ f ih =>
    intro left s c len steps o s' c' len' st' h
    unfold commentLoop at h
    split at h
    · cases h; rfl
    · split at h
      · split at h
        · cases h
          rw [get_whole, get_whole]
        · have := ih _ _ _ _ _ _ _ _ _ _ h
          rw [this, putback_whole, get_whole, get_whole]
      · have := ih _ _ _ _ _ _ _ _ _ _ h
        rw [this, get_whole]

theorem readCommentWith_whole (skip : IS → Out LoopRes) (iters : Nat) (hs : Keeps skip) : Keeps (readCommentWith skip iters) := by
  intro s r h
  unfold readCommentWith at h
  dsimp only at h
  have hw := ws_whole s
  have he := extract_whole s.ws
  -- the comment proper, once both characters are known
  have inner : ∀ (s2 : IS) (c1 : Byte), (if c1 = chStar then
        match commentLoop iters (s2.ws.rest.length + iters + 3) iters s2.ws c1 0 0 with
        | .ok (some _, s3, _, len, steps) => Out.ok (⟨s3, 1, len, steps⟩ : LoopRes)
        | .ok (none, s3, _, len, steps) =>
          match skip s3 with
          | .ok r => .ok ⟨r.s, 1, len, steps + r.steps⟩
          | .overflow i c => .overflow i c
          | .outOfFuel => .outOfFuel
        | .overflow i c => .overflow i c
        | .outOfFuel => .outOfFuel
      else .ok ⟨s2.putback c1, 0, 0, 0⟩) = .ok r → r.s.whole = s2.whole := by
    intro s2 c1 hi
    split at hi
    · generalize hcl : commentLoop iters (s2.ws.rest.length + iters + 3) iters s2.ws c1 0 0 = cl at hi
      cases cl with
      | ok v =>
        obtain ⟨o, s3, c3, len, steps⟩ := v
        have h3 := commentLoop_whole iters _ _ _ _ _ _ _ _ _ _ _ hcl
        cases o with
        | some u => simp only [] at hi; cases hi; rw [h3, ws_whole]
        | none =>
          simp only [] at hi
          generalize hsk : skip s3 = sr at hi
          cases sr with
          | ok r' => simp only [] at hi; cases hi; simp only []; rw [hs s3 r' hsk, h3, ws_whole]
          | overflow i k => cases hi
          | outOfFuel => cases hi
      | overflow i k => cases hi
      | outOfFuel => cases hi
    · cases hi; simp only []; rw [putback_whole]
  generalize s.ws.extract = ex at h he
  obtain ⟨s1, o1⟩ := ex
  simp only [] at he
  have fin : ∀ c : Byte, (if c = chSlash then
        if (match s1.get with | (s', some c') => (s', c') | (s', none) => (s', c)).2 = chStar then
          match commentLoop iters ((match s1.get with | (s', some c') => (s', c') | (s', none) => (s', c)).1.ws.rest.length + iters + 3) iters
              (match s1.get with | (s', some c') => (s', c') | (s', none) => (s', c)).1.ws
              (match s1.get with | (s', some c') => (s', c') | (s', none) => (s', c)).2 0 0 with
          | .ok (some _, s3, _, len, steps) => Out.ok (⟨s3, 1, len, steps⟩ : LoopRes)
          | .ok (none, s3, _, len, steps) =>
            match skip s3 with
            | .ok r => .ok ⟨r.s, 1, len, steps + r.steps⟩
            | .overflow i c => .overflow i c
            | .outOfFuel => .outOfFuel
          | .overflow i c => .overflow i c
          | .outOfFuel => .outOfFuel
        else .ok ⟨(match s1.get with | (s', some c') => (s', c') | (s', none) => (s', c)).1.putback
                   (match s1.get with | (s', some c') => (s', c') | (s', none) => (s', c)).2, 0, 0, 0⟩
      else .ok ⟨s1.putback c, 0, 0, 0⟩) = .ok r → r.s.whole = s1.whole := by
    intro c hb
    split at hb
    · have hg := get_whole s1
      generalize s1.get = g at hb hg
      obtain ⟨s2, o2⟩ := g
      simp only [] at hg
      cases o2 with
      | none => simp only [] at hb; rw [inner _ _ hb, hg]
      | some c2 => simp only [] at hb; rw [inner _ _ hb, hg]
    · cases hb; simp only []; rw [putback_whole]
  cases o1 with
  | none => simp only [] at h; rw [fin 0 h, he, hw]
  | some c => simp only [] at h; rw [fin c h, he, hw]

/-- what the rest of a scan loop satisfies -/
def ScanKeeps (rec : IS → Byte → Nat → Nat → Out LoopRes) : Prop := ∀ s c len steps r, rec s c len steps = .ok r → r.s.whole = s.whole

theorem scanAfter_whole (rec : IS → Byte → Nat → Nat → Out LoopRes) (stop : Byte) (pb cm : Bool) (iters : Nat) (ih : ScanKeeps rec)
    (s1 : IS) (c1 : Byte) (len steps : Nat) (r : LoopRes) (h : scanAfter rec stop pb cm iters s1 c1 len steps = .ok r) :
    r.s.whole = s1.whole := by
  unfold scanAfter at h
  split at h
  · cases h
    simp only []
    split
    · rw [putback_whole]
    · rfl
  · split at h
    · have hp := peek_whole s1
      generalize s1.peek = pk at h hp
      obtain ⟨s2, p⟩ := pk
      simp only [] at h hp
      split at h
      · generalize hrc : readCommentWith (fun s' => rec s' 0 0 0) iters (s2.putback c1) = rc at h
        cases rc with
        | ok rr =>
          simp only [] at h
          have h1 := readCommentWith_whole (fun s' => rec s' 0 0 0) iters (fun s r hh => ih s 0 0 0 r hh) _ _ hrc
          rw [ih _ _ _ _ _ h, h1, putback_whole, hp]
        | overflow i k => cases h
        | outOfFuel => cases h
      · rw [ih _ _ _ _ _ h, hp]
    · split at h
      · have hsr := sdaiStringRead_whole (s1.putback c1)
        generalize sdaiStringRead (s1.putback c1) = sr at h hsr
        obtain ⟨s2, str⟩ := sr
        simp only [] at h hsr
        rw [ih _ _ _ _ _ h, hsr, putback_whole]
      · split at h
        · cases h; rfl
        · exact ih _ _ _ _ _ h

theorem scanUntil_whole (stop : Byte) (pb cm : Bool) (iters : Nat) : ∀ fuel, ScanKeeps (scanUntil stop pb cm iters fuel) := by
  intro fuel
  induction fuel with
  | zero => intro s c len steps r h; simp [scanUntil] at h
  | succ f ih =>
    intro s c len steps r h
    have h' : scanStep (scanUntil stop pb cm iters f) stop pb cm iters s c len steps = .ok r := h
    unfold scanStep at h'
    split at h'
    · cases h'; rfl
    · have he := extract_whole s
      generalize s.extract = ex at h' he
      obtain ⟨s1, o⟩ := ex
      simp only [] at he
      cases o with
      | none => simp only [] at h'; rw [scanAfter_whole _ stop pb cm iters ih _ _ _ _ _ h', he]
      | some c' => simp only [] at h'; rw [scanAfter_whole _ stop pb cm iters ih _ _ _ _ _ h', he]

theorem skipInstance_keeps (cm : Bool) (iters fuel : Nat) : Keeps (skipInstance cm iters fuel) :=
  fun s r h => scanUntil_whole chSemi false cm iters fuel s 0 0 0 r h

theorem findStartOfInstance_keeps (fuel : Nat) : Keeps (findStartOfInstance fuel) :=
  fun s r h => scanUntil_whole chHash true false 0 fuel s 0 0 0 r h

theorem readComment_keeps (cm : Bool) (iters fuel : Nat) : Keeps (readComment cm iters fuel) :=
  readCommentWith_whole _ iters (skipInstance_keeps cm iters fuel)

theorem tokSepLoop_whole (cm : Bool) (iters : Nat) : ∀ fuel s steps r, tokSepLoop cm iters fuel s steps = .ok r → r.s.whole = s.whole := by
  intro fuel
  induction fuel with
  | zero => intro s steps r h; simp [tokSepLoop] at h
  | succ f ih =>
    intro s steps r h
    have h' : tokSepStep (tokSepLoop cm iters f) (skipInstance cm iters (f + 1)) iters s steps = .ok r := h
    unfold tokSepStep at h'
    split at h'
    · cases h'; rfl
    · have hp := peek_whole s.ws
      have hw := ws_whole s
      generalize s.ws.peek = pk at h' hp
      obtain ⟨s2, o⟩ := pk
      simp only [] at hp
      cases o with
      | none => simp only [] at h'; cases h'; simp only []; rw [hp, hw]
      | some c =>
        simp only [] at h'
        split at h'
        · generalize hrc : readCommentWith (skipInstance cm iters (f + 1)) iters s2 = rc at h'
          cases rc with
          | ok rr =>
            simp only [] at h'
            rw [ih _ _ _ h', readCommentWith_whole _ iters (skipInstance_keeps cm iters (f + 1)) _ _ hrc, hp, hw]
          | overflow i k => cases h'
          | outOfFuel => cases h'
        · split at h'
          · rw [ih _ _ _ h', readPcd_whole, hp, hw]
          · split at h'
            · rw [ih _ _ _ h', ignore_whole, hp, hw]
            · cases h'; simp only []; rw [hp, hw]

theorem readTokenSeparator_keeps (cm : Bool) (iters fuel : Nat) : Keeps (readTokenSeparator cm iters fuel) := by
  intro s r h
  unfold readTokenSeparator at h
  split at h
  · cases h; rfl
  · exact tokSepLoop_whole cm iters fuel s 0 r h

theorem recoverInner_whole (stay quotes : Bool) : ∀ fuel s c q len steps s' c' q' f' len' st',
    recoverInner stay quotes fuel s c q len steps = .ok (s', c', q', f', len', st') → s'.whole = s.whole := by
  intro fuel
  induction fuel with
  | zero => intro s c q len steps s' c' q' f' len' st' h; simp [recoverInner] at h
  | succ f ih =>
    intro s c q len steps s' c' q' f' len' st' h
    unfold recoverInner at h
    split at h
    · split at h
      · rw [ih _ _ _ _ _ _ _ _ _ _ _ h, get_whole]
      · split at h
        · cases h; rw [putback_whole, get_whole]
        · rw [ih _ _ _ _ _ _ _ _ _ _ _ h, get_whole]
    · cases h; rfl

theorem recoverOuter_whole (stay quotes pb : Bool) : ∀ fuel s c q len steps r,
    recoverOuter stay quotes pb fuel s c q len steps = .ok r → r.s.whole = s.whole := by
  intro fuel
  induction fuel with
  | zero => intro s c q len steps r h; simp [recoverOuter] at h
  | succ f ih =>
    intro s c q len steps r h
    unfold recoverOuter at h
    split at h
    · cases h; rfl
    · generalize hin : recoverInner stay quotes (f + 1) s c q len steps = ri at h
      cases ri with
      | ok v =>
        obtain ⟨s1, c1, q1, fnd, len1, steps1⟩ := v
        have h1 := recoverInner_whole stay quotes _ _ _ _ _ _ _ _ _ _ _ _ hin
        simp only [] at h
        split at h
        · cases h; exact h1
        · split at h
          · split at h
            · cases h
              simp only []
              split
              · rw [putback_whole, get_whole, ws_whole, h1]
              · rw [get_whole, ws_whole, h1]
            · rw [ih _ _ _ _ _ _ h, get_whole, ws_whole, h1]
          · rw [ih _ _ _ _ _ _ h, h1]
      | overflow i k => cases h
      | outOfFuel => cases h

theorem recoveryScan_keeps (stay quotes pb : Bool) (fuel : Nat) (c : Byte) : Keeps (fun s => recoveryScan stay quotes pb fuel s c) := by
  intro s r h
  have := recoverOuter_whole stay quotes pb fuel s.clear c false 0 0 r h
  rw [this, clear_whole]

/-- input kept and the rest not longer: the rest afterwards is a suffix of the rest before -/
theorem suffix_of_whole {s t : IS} (hw : t.whole = s.whole) (hl : t.rest.length ≤ s.rest.length) :
    ∃ k, t.rest = s.rest.drop k := by
  unfold IS.whole at hw
  have hlen : t.pre.reverse.length + t.rest.length = s.pre.reverse.length + s.rest.length := by
    rw [← List.length_append, ← List.length_append, hw]
  refine ⟨t.pre.reverse.length - s.pre.reverse.length, ?_⟩
  have h1 : t.rest = (t.pre.reverse ++ t.rest).drop t.pre.reverse.length := by simp
  rw [hw, List.drop_append] at h1
  have h2 : s.pre.reverse.length ≤ t.pre.reverse.length := by omega
  rw [List.drop_eq_nil_of_le h2] at h1
  simpa using h1

/-! ### where `SkipInstance` ends: right behind a `;` of the input -/

/-- what the rest of a scan that does not put the stop byte back satisfies: success means the byte before the get pointer is
the stop byte, on a good stream -/
def EndsBehind (rec : IS → Byte → Nat → Nat → Out LoopRes) (stop : Byte) : Prop :=
  ∀ (s : IS) (c : Byte) (len steps : Nat) (r : LoopRes), c ≠ stop → rec s c len steps = .ok r → r.sev = sevNull →
    ∃ ps, r.s.pre = stop :: ps ∧ r.s.good = true

theorem scanAfter_endsBehind (rec : IS → Byte → Nat → Nat → Out LoopRes) (stop : Byte) (cm : Bool) (iters : Nat)
    (ih : EndsBehind rec stop) (s1 : IS) (c1 : Byte) (len steps : Nat) (r : LoopRes)
    (hshape : (∃ ps, s1.fail = false ∧ s1.eof = false ∧ s1.pre = c1 :: ps) ∨ c1 ≠ stop)
    (h : scanAfter rec stop false cm iters s1 c1 len steps = .ok r) (hsev : r.sev = sevNull) :
    ∃ ps, r.s.pre = stop :: ps ∧ r.s.good = true := by
  unfold scanAfter at h
  split at h
  · rename_i hc
    rcases hshape with ⟨ps, hf, he, hp⟩ | hne
    · simp at h
      subst h
      subst hc
      exact ⟨ps, hp, by simp [IS.good, hf, he]⟩
    · exact absurd hc hne
  · rename_i hns
    split at h
    · generalize s1.peek = pk at h
      obtain ⟨s2, p⟩ := pk
      simp only [] at h
      split at h
      · generalize readCommentWith (fun s' => rec s' 0 0 0) iters (s2.putback c1) = rc at h
        cases rc with
        | ok rr => exact ih _ _ _ _ _ hns h hsev
        | overflow i k => cases h
        | outOfFuel => cases h
      · exact ih _ _ _ _ _ hns h hsev
    · split at h
      · generalize sdaiStringRead (s1.putback c1) = sr at h
        obtain ⟨s2, str⟩ := sr
        exact ih _ _ _ _ _ hns h hsev
      · split at h
        · simp at h; subst h; simp [sevInputError, sevNull] at hsev
        · exact ih _ _ _ _ _ hns h hsev

theorem scanUntil_endsBehind (stop : Byte) (cm : Bool) (iters : Nat) :
    ∀ fuel, EndsBehind (scanUntil stop false cm iters fuel) stop := by
  intro fuel
  induction fuel with
  | zero => intro s c len steps r _ h; cases h
  | succ fuel ih =>
    intro s c len steps r hc h hsev
    change scanStep (scanUntil stop false cm iters fuel) stop false cm iters s c len steps = .ok r at h
    unfold scanStep at h
    split at h
    · simp at h; subst h; simp [sevInputError, sevNull] at hsev
    · generalize hex : s.extract = ex at h
      obtain ⟨s', o⟩ := ex
      cases o with
      | none => exact scanAfter_endsBehind _ stop cm iters ih s' c len steps r (Or.inr hc) h hsev
      | some c' =>
        obtain ⟨hf1, he1, ⟨ps, hpre⟩, _⟩ := extract_some hex
        exact scanAfter_endsBehind _ stop cm iters ih s' c' len steps r (Or.inl ⟨ps, hf1, he1, hpre⟩) h hsev

/-! ### `SkipInstance` never ends before the first `;` -/

theorem drop_after_first {a b ps pre : List Byte} {x : Byte} (k : Nat) (ha : ∀ y ∈ a, y ≠ x) (hk : 1 ≤ k)
    (heq : pre.reverse ++ (a ++ x :: b).take k = ps.reverse ++ [x]) : a.length + 1 ≤ k := by
  by_cases hlt : a.length + 1 ≤ k
  · exact hlt
  · exfalso
    have hka : k ≤ a.length := by omega
    rw [List.take_append_of_le_length hka] at heq
    have hlen : (a.take k).length = k := by simp; omega
    have h1 : (pre.reverse ++ a.take k).getLast? = some x := by rw [heq]; simp
    cases hT : (a.take k).getLast? with
    | none =>
      have : a.take k = [] := by simpa using hT
      rw [this] at hlen; simp at hlen; omega
    | some y =>
      rw [List.getLast?_append, hT] at h1
      simp at h1
      have hm : y ∈ a.take k := List.mem_of_getLast? hT
      exact ha y (List.mem_of_mem_take hm) h1

/-- on a good stream whose first `;` comes after the bytes `a`, a successful `SkipInstance` leaves at most what follows that `;` -/
theorem skipInstance_not_before_first_semi (pre a b : List Byte) (sk cm : Bool) (iters : Nat) (rs : LoopRes)
    (ha : ∀ y ∈ a, y ≠ chSemi)
    (h : skipInstance cm iters ((a ++ chSemi :: b).length + 2) ⟨pre, a ++ chSemi :: b, false, false, sk⟩ = .ok rs)
    (hsev : rs.sev = sevNull) : rs.s.rest.length ≤ b.length := by
  generalize hL : a ++ chSemi :: b = L at h
  obtain ⟨ps, hp, hg⟩ := scanUntil_endsBehind chSemi cm iters (L.length + 2) _ 0 0 0 rs (by decide) h hsev
  have hw := skipInstance_keeps cm iters (L.length + 2) _ rs h
  have hsm : (⟨pre, L, false, false, sk⟩ : IS).m = L.length + 1 := by simp [IS.m]
  have hsg : (⟨pre, L, false, false, sk⟩ : IS).good = true := by simp [IS.good]
  have hstrict := scanUntil_strict iters chSemi cm iters (Nat.le_refl _) (L.length + 2) ⟨pre, L, false, false, sk⟩ 0 0 0
    (by rw [hsm]; omega) hsg rs h
  have hrf : rs.s.fail = false := by
    simp [IS.good] at hg; exact hg.2
  have hrm : rs.s.m = rs.s.rest.length + 1 := by simp [IS.m, hrf]
  have hlt : rs.s.rest.length + 1 ≤ L.length := by
    rcases hstrict with hh | hh <;> omega
  obtain ⟨k0, hk0⟩ := suffix_of_whole (s := ⟨pre, L, false, false, sk⟩) hw (by simp only []; omega)
  simp only [] at hk0
  -- the offset, normalised
  have hk : rs.s.rest = L.drop (L.length - rs.s.rest.length) := by
    by_cases hle : k0 ≤ L.length
    · have : rs.s.rest.length = L.length - k0 := by rw [hk0]; simp
      have : L.length - rs.s.rest.length = k0 := by omega
      rw [this]; exact hk0
    · have h0 : rs.s.rest = [] := by rw [hk0]; exact List.drop_eq_nil_of_le (by omega)
      rw [h0]; simp
  generalize hkk : L.length - rs.s.rest.length = k at hk
  have hk1 : 1 ≤ k := by omega
  have heq : pre.reverse ++ L.take k = ps.reverse ++ [chSemi] := by
    have e1 : pre.reverse ++ L = ps.reverse ++ chSemi :: rs.s.rest := by
      have := hw
      simp only [IS.whole, hp] at this
      simp at this
      exact this.symm
    have e2 : (pre.reverse ++ L.take k) ++ L.drop k = (ps.reverse ++ [chSemi]) ++ L.drop k := by
      rw [List.append_assoc, List.take_append_drop, e1, hk]
      simp
    exact List.append_cancel_right e2
  rw [← hL] at heq
  have := drop_after_first k ha hk1 heq
  have hLl : L.length = a.length + 1 + b.length := by rw [← hL]; simp; omega
  omega

/-! ### … and twice: the end of the next record -/

theorem drop_tail (a b : List Byte) (x : Byte) (k : Nat) (hk : a.length + 1 ≤ k) :
    (a ++ x :: b).drop k = b.drop (k - (a.length + 1)) := by
  have e : a ++ x :: b = (a ++ [x]) ++ b := by simp
  have hl : (a ++ [x]).length = a.length + 1 := by simp
  rw [e, List.drop_append, hl]
  have : (a ++ [x]).drop k = [] := List.drop_eq_nil_of_le (by omega)
  rw [this]; simp

/-- a successful `SkipInstance` on a good stream leaves a good stream whose rest is not longer -/
theorem skipInstance_rest_le (cm : Bool) (iters F : Nat) (s : IS) (rs : LoopRes) (hg : s.good = true) (hF : s.rest.length + 2 ≤ F)
    (h : skipInstance cm iters F s = .ok rs) (hsev : rs.sev = sevNull) :
    rs.s.good = true ∧ rs.s.rest.length + 1 ≤ s.rest.length := by
  obtain ⟨ps, hp, hg'⟩ := scanUntil_endsBehind chSemi cm iters F s 0 0 0 rs (by decide) h hsev
  have hsm : s.m ≤ s.rest.length + 1 := by unfold IS.m; split <;> omega
  have hstrict := scanUntil_strict iters chSemi cm iters (Nat.le_refl _) F s 0 0 0 (by omega) hg rs h
  have hrf : rs.s.fail = false := by simp [IS.good] at hg'; exact hg'.2
  have hrm : rs.s.m = rs.s.rest.length + 1 := by simp [IS.m, hrf]
  exact ⟨hg', by rcases hstrict with hh | hh <;> omega⟩

/-- the general form of `skipInstance_not_before_first_semi`: any fuel that suffices, and the rest as a suffix of what follows
the first `;` -/
theorem skipInstance_after_first_semi (pre a b : List Byte) (sk cm : Bool) (iters F : Nat) (rs : LoopRes)
    (ha : ∀ y ∈ a, y ≠ chSemi) (hF : (a ++ chSemi :: b).length + 2 ≤ F)
    (h : skipInstance cm iters F ⟨pre, a ++ chSemi :: b, false, false, sk⟩ = .ok rs) (hsev : rs.sev = sevNull) :
    rs.s.good = true ∧ ∃ j, rs.s.rest = b.drop j := by
  generalize hL : a ++ chSemi :: b = L at h hF
  obtain ⟨ps, hp, hg⟩ := scanUntil_endsBehind chSemi cm iters F _ 0 0 0 rs (by decide) h hsev
  have hw := skipInstance_keeps cm iters F _ rs h
  obtain ⟨_, hlt⟩ := skipInstance_rest_le cm iters F ⟨pre, L, false, false, sk⟩ rs (by simp [IS.good]) hF h hsev
  simp only [] at hlt
  obtain ⟨k0, hk0⟩ := suffix_of_whole (s := ⟨pre, L, false, false, sk⟩) hw (by simp only []; omega)
  simp only [] at hk0
  have hk : rs.s.rest = L.drop (L.length - rs.s.rest.length) := by
    by_cases hle : k0 ≤ L.length
    · have : rs.s.rest.length = L.length - k0 := by rw [hk0]; simp
      have : L.length - rs.s.rest.length = k0 := by omega
      rw [this]; exact hk0
    · have h0 : rs.s.rest = [] := by rw [hk0]; exact List.drop_eq_nil_of_le (by omega)
      rw [h0]; simp
  generalize hkk : L.length - rs.s.rest.length = k at hk
  have hk1 : 1 ≤ k := by omega
  have heq : pre.reverse ++ L.take k = ps.reverse ++ [chSemi] := by
    have e1 : pre.reverse ++ L = ps.reverse ++ chSemi :: rs.s.rest := by
      have := hw
      simp only [IS.whole, hp] at this
      simp at this
      exact this.symm
    have e2 : (pre.reverse ++ L.take k) ++ L.drop k = (ps.reverse ++ [chSemi]) ++ L.drop k := by
      rw [List.append_assoc, List.take_append_drop, e1, hk]
      simp
    exact List.append_cancel_right e2
  rw [← hL] at heq
  have hka := drop_after_first k ha hk1 heq
  refine ⟨hg, k - (a.length + 1), ?_⟩
  rw [hk, ← hL]
  exact drop_tail a b chSemi k hka

/-- `SkipInstance` twice: with the first `;` behind `a` and the second behind `a2`, two successful scans leave at most what
follows the second `;` -/
theorem skipInstance_twice (pre a a2 b : List Byte) (sk cm : Bool) (iters F : Nat) (rs rs2 : LoopRes)
    (ha : ∀ y ∈ a, y ≠ chSemi) (ha2 : ∀ y ∈ a2, y ≠ chSemi) (hF : (a ++ chSemi :: (a2 ++ chSemi :: b)).length + 2 ≤ F)
    (h1 : skipInstance cm iters F ⟨pre, a ++ chSemi :: (a2 ++ chSemi :: b), false, false, sk⟩ = .ok rs) (hs1 : rs.sev = sevNull)
    (h2 : skipInstance cm iters F rs.s = .ok rs2) (hs2 : rs2.sev = sevNull) :
    rs2.s.good = true ∧ rs2.s.rest.length ≤ b.length := by
  obtain ⟨hg1, j, hj⟩ := skipInstance_after_first_semi pre a (a2 ++ chSemi :: b) sk cm iters F rs ha hF h1 hs1
  have hlen1 : rs.s.rest.length ≤ (a2 ++ chSemi :: b).length := by rw [hj]; simp
  have hFl : (a ++ chSemi :: (a2 ++ chSemi :: b)).length = a.length + 1 + (a2 ++ chSemi :: b).length := by simp; omega
  by_cases hja : j ≤ a2.length
  · -- the second scan starts before the second `;`
    generalize rs.s = t at hg1 hj hlen1 h2
    obtain ⟨pre2, rest2, eof2, fail2, sk2⟩ := t
    simp [IS.good] at hg1
    obtain ⟨rfl, rfl⟩ := hg1
    simp only [] at hj hlen1 h2
    have hr2 : rest2 = a2.drop j ++ chSemi :: b := by rw [hj, List.drop_append_of_le_length hja]
    subst hr2
    obtain ⟨hg2, j2, hj2⟩ := skipInstance_after_first_semi pre2 (a2.drop j) b sk2 cm iters F rs2
      (fun y hy => ha2 y (List.mem_of_mem_drop hy)) (by omega) h2 hs2
    exact ⟨hg2, by rw [hj2]; simp⟩
  · -- the first scan already ended behind the second `;`
    have hlen : rs.s.rest.length ≤ b.length := by
      rw [hj]
      simp
      omega
    obtain ⟨hg2, hl2⟩ := skipInstance_rest_le cm iters F rs.s rs2 hg1 (by omega) h2 hs2
    exact ⟨hg2, by omega⟩

/-! ### the sections: FindHeaderSection, FindDataSection, GetKeyword -/

theorem takeLine_whole (d : Byte) (k : Nat) (r : List Byte) : (takeLine d k r).1 ++ (takeLine d k r).2 = r := by
  fun_induction takeLine d k r <;> simp_all

theorem getline_whole (n : Nat) (d : Byte) (s : IS) : (getline n d s).1.whole = s.whole := by
  obtain ⟨pre, rest, eof, fail, sk⟩ := s
  unfold getline
  by_cases hg : (eof = false ∧ fail = false)
  · obtain ⟨rfl, rfl⟩ := hg
    have hl := takeLine_whole d (n - 1) rest
    generalize takeLine d (n - 1) rest = tl at hl
    obtain ⟨tk, r⟩ := tl
    simp only [] at hl
    subst hl
    cases r with
    | nil => simp [IS.good, IS.whole]
    | cons c r' =>
      by_cases hc : c = d
      · simp [IS.good, IS.whole, hc]
      · simp [IS.good, IS.whole, hc]
  · cases eof <;> cases fail <;> simp at hg <;> simp [IS.good, IS.whole]

theorem headerLoop_whole (n : Nat) (ex : ExitCond) : ∀ fuel s buf steps r, headerLoop n ex fuel s buf steps = .ok r → r.s.whole = s.whole := by
  intro fuel
  induction fuel with
  | zero => intro s buf steps r h; simp [headerLoop] at h
  | succ f ih =>
    intro s buf steps r h
    have hgl := getline_whole n chSemi s
    unfold headerLoop at h
    by_cases hc : containsSub kwHEADER (cstr buf) = true
    · simp only [hc, if_true] at h; cases h; rfl
    · simp only [hc, Bool.false_eq_true, if_false] at h
      generalize getline n chSemi s = gl at h hgl
      obtain ⟨s1, b1⟩ := gl
      simp only [] at h hgl
      cases ex <;> simp only [] at h <;> split at h <;> first | (cases h; rfl) | (rw [ih _ _ _ _ h, hgl])

theorem findHeaderSection_keeps (cm : Bool) (iters n : Nat) (ex : ExitCond) (fuel : Nat) : Keeps (findHeaderSectionWith cm iters n ex fuel) := by
  intro s r h
  unfold findHeaderSectionWith at h
  generalize hts : readTokenSeparator cm iters fuel s = ts at h
  cases ts with
  | ok r0 =>
    simp only [] at h
    rw [headerLoop_whole n ex _ _ _ _ _ h, readTokenSeparator_keeps cm iters fuel s r0 hts]
  | overflow i k => cases h
  | outOfFuel => cases h

theorem getKwLoop_whole (delims : List Byte) : ∀ fuel s c sz acc steps s' acc' st,
    getKwLoop delims fuel s c sz acc steps = .ok (s', acc', st) → s'.whole = s.whole := by
  intro fuel
  induction fuel with
  | zero => intro s c sz acc steps s' acc' st h; simp [getKwLoop] at h
  | succ f ih =>
    intro s c sz acc steps s' acc' st h
    have h' : getKwStep (getKwLoop delims f) delims s c sz acc steps = .ok (s', acc', st) := h
    unfold getKwStep at h'
    split at h'
    · cases h'; rw [putback_whole]
    · rw [ih _ _ _ _ _ _ _ _ h', get_whole]

theorem getKeyword_keeps (delims : List Byte) (fuel : Nat) : Keeps (getKeyword delims fuel) := by
  intro s r h
  unfold getKeyword at h
  generalize hk : getKeywordFull delims fuel s = kf at h
  cases kf with
  | ok v =>
    obtain ⟨s', acc, st⟩ := v
    simp only [] at h
    cases h
    unfold getKeywordFull at hk
    simp only []
    rw [getKwLoop_whole delims _ _ _ _ _ _ _ _ _ hk, get_whole]
  | overflow i k => cases h
  | outOfFuel => cases h

theorem matchDATA_whole (s : IS) : (matchDATA s).1.whole = s.whole := by
  unfold matchDATA
  split
  · split
    · split
      · split
        · simp only [get_whole, peek_whole, ws_whole]
        · simp only [get_whole, peek_whole, ws_whole]
      · simp only [get_whole, peek_whole, ws_whole]
    · simp only [get_whole, peek_whole, ws_whole]
  · simp only [get_whole, peek_whole, ws_whole]

theorem dataSecLoop_whole (comment : IS → Out LoopRes) (hc : Keeps comment) : ∀ fuel s steps r,
    dataSecLoop comment fuel s steps = .ok r → r.s.whole = s.whole := by
  intro fuel
  induction fuel with
  | zero => intro s steps r h; simp [dataSecLoop] at h
  | succ f ih =>
    intro s steps r h
    have h' : dataSecStep (dataSecLoop comment f) comment s steps = .ok r := h
    unfold dataSecStep at h'
    split at h'
    · cases h'; rfl
    · have he := extract_whole s
      generalize s.extract = ex at h' he
      obtain ⟨s1, o⟩ := ex
      simp only [] at he
      cases o with
      | none => simp only [] at h'; cases h'; exact he
      | some c =>
        simp only [] at h'
        split at h'
        · have hm := matchDATA_whole s1
          generalize matchDATA s1 = md at h' hm
          obtain ⟨s2, fnd⟩ := md
          simp only [] at hm
          cases fnd with
          | true => simp only [] at h'; cases h'; simp only []; rw [hm, he]
          | false => simp only [] at h'; rw [ih _ _ _ h', hm, he]
        · split at h'
          · rw [ih _ _ _ h', sdaiStringRead_whole, putback_whole, he]
          · split at h'
            · generalize hcm : comment (s1.putback c) = cr at h'
              cases cr with
              | ok rr => simp only [] at h'; rw [ih _ _ _ h', hc _ _ hcm, putback_whole, he]
              | overflow i k => cases h'
              | outOfFuel => cases h'
            · split at h'
              · cases h'; exact he
              · rw [ih _ _ _ h', he]

theorem findDataSection_keeps (cm : Bool) (iters fuel : Nat) : Keeps (findDataSection cm iters fuel) :=
  fun s r h => dataSecLoop_whole _ (readComment_keeps cm iters fuel) fuel s 0 r h


/-! ### the cost of the scan that ends at the first `;`: the bytes before it, nothing of what follows -/

/-- the inner loop of the scan that ends at the first `;`, on any record tail `a ;` (parentheses and apostrophes allowed):
it ends at the `;` (put back), or behind the first `)` of `a` -/
theorem recoverInner_first_semi_cost (a : List Byte) : ∀ (pre b : List Byte) (sk : Bool) (c : Byte) (q : Bool) (len steps fuel : Nat),
    (∀ x ∈ a, x ≠ chSemi) → c ≠ chRParen → a.length + 1 ≤ fuel →
    (∃ p' l' st', recoverInner true false fuel ⟨pre, a ++ chSemi :: b, false, false, sk⟩ c q len steps =
        .ok (⟨p', chSemi :: b, false, false, sk⟩, chSemi, q, true, l', st') ∧ st' ≤ steps + a.length + 1) ∨
    (∃ p' a2 l' st', recoverInner true false fuel ⟨pre, a ++ chSemi :: b, false, false, sk⟩ c q len steps =
        .ok (⟨p', a2 ++ chSemi :: b, false, false, sk⟩, chRParen, q, false, l', st') ∧ a2.length < a.length ∧ (∀ x ∈ a2, x ≠ chSemi) ∧
        st' + a2.length ≤ steps + a.length) := by
  induction a with
  | nil =>
    intro pre b sk c q len steps fuel _ hc hf
    obtain ⟨f, rfl⟩ : ∃ f, fuel = f + 1 := ⟨fuel - 1, by omega⟩
    left
    refine ⟨pre, len + 1, steps + 1, ?_, by simp⟩
    unfold recoverInner
    simp [IS.good, IS.get, IS.putback, hc]
  | cons x a ih =>
    intro pre b sk c q len steps fuel ha hc hf
    obtain ⟨f, rfl⟩ : ∃ f, fuel = f + 1 := ⟨fuel - 1, by simp at hf; omega⟩
    have hx := ha x (by simp)
    have hget : IS.get ⟨pre, x :: (a ++ chSemi :: b), false, false, sk⟩ = (⟨x :: pre, a ++ chSemi :: b, false, false, sk⟩, some x) := by
      simp [IS.get, IS.good]
    by_cases hxp : x = chRParen
    · subst hxp
      right
      obtain ⟨f', rfl⟩ : ∃ f', f = f' + 1 := ⟨f - 1, by simp at hf; omega⟩
      refine ⟨chRParen :: pre, a, len + 1, steps + 1, ?_, by simp, fun y hy => ha y (by simp [hy]), by simp; omega⟩
      unfold recoverInner
      simp only [List.cons_append, hget]
      simp [IS.good, hc, hx]
      unfold recoverInner
      simp [IS.good]
    · rcases ih (x :: pre) b sk x q (len + 1) (steps + 1) f (fun y hy => ha y (by simp [hy])) hxp (by simp at hf; omega) with
        ⟨p', l', st', h, hst⟩ | ⟨p', a2, l', st', h, h2, h3, hst⟩
      · left
        refine ⟨p', l', st', ?_, by simp; omega⟩
        unfold recoverInner
        simp only [List.cons_append, hget]
        simp [IS.good, hc, hx, h]
      · right
        refine ⟨p', a2, l', st', ?_, by simp; omega, h3, by simp; omega⟩
        unfold recoverInner
        simp only [List.cons_append, hget]
        simp [IS.good, hc, hx, h]

/-- the scan that ends at the first `;` never reads past it: on **any** record tail `a ;` — parentheses, apostrophes, white
space, whatever character `c` the read gave up on — it ends with the `;` next on a good stream -/
theorem recoverOuter_first_semi_cost (b : List Byte) (sk : Bool) : ∀ (fuel : Nat) (a pre : List Byte) (c : Byte) (q : Bool) (len steps : Nat),
    (∀ x ∈ a, x ≠ chSemi) → a.length + 2 ≤ fuel →
    ∃ p' l' st', recoverOuter true false true fuel ⟨pre, a ++ chSemi :: b, false, false, sk⟩ c q len steps =
      .ok ⟨⟨p', chSemi :: b, false, false, sk⟩, 1, l', st'⟩ ∧ st' ≤ steps + a.length + 1 := by
  intro fuel
  induction fuel with
  | zero => intro a pre c q len steps _ h; omega
  | succ f ih =>
    intro a pre c q len steps ha hf
    -- after a `)`: white space, one character
    have after : ∀ (p1 a2 : List Byte) (q1 : Bool) (l1 st1 : Nat), (∀ x ∈ a2, x ≠ chSemi) → a2.length ≤ a.length →
        ∃ p' l' st',
          (if ((IS.ws ⟨p1, a2 ++ chSemi :: b, false, false, sk⟩).get).2.getD chRParen = chSemi then
            Out.ok (⟨if true = true then ((IS.ws ⟨p1, a2 ++ chSemi :: b, false, false, sk⟩).get).1.putback chSemi
                     else ((IS.ws ⟨p1, a2 ++ chSemi :: b, false, false, sk⟩).get).1, 1, l1 + 1, st1 + 1⟩ : LoopRes)
          else recoverOuter true false true f ((IS.ws ⟨p1, a2 ++ chSemi :: b, false, false, sk⟩).get).1
            (((IS.ws ⟨p1, a2 ++ chSemi :: b, false, false, sk⟩).get).2.getD chRParen)
            (if (true && false && ((IS.ws ⟨p1, a2 ++ chSemi :: b, false, false, sk⟩).get).1.good &&
                decide (((IS.ws ⟨p1, a2 ++ chSemi :: b, false, false, sk⟩).get).2.getD chRParen = chQuote)) = true then !q1 else q1)
            (l1 + 1) (st1 + 1)) = .ok ⟨⟨p', chSemi :: b, false, false, sk⟩, 1, l', st'⟩ ∧ st' ≤ st1 + a2.length + 1 := by
      intro p1 a2 q1 l1 st1 h2 hl2
      obtain ⟨p2, a3, hsp, hl3, h3⟩ := skipSpaces_semi a2 p1 b h2
      have hws : IS.ws ⟨p1, a2 ++ chSemi :: b, false, false, sk⟩ = ⟨p2, a3 ++ chSemi :: b, false, false, sk⟩ := by
        simp [IS.ws, IS.good, hsp]
      rw [hws]
      cases a3 with
      | nil =>
        refine ⟨p2, l1 + 1, st1 + 1, ?_, by omega⟩
        simp [IS.get, IS.good, IS.putback]
      | cons y a4 =>
        have hy := h3 y (by simp)
        have hg : IS.get ⟨p2, (y :: a4) ++ chSemi :: b, false, false, sk⟩ = (⟨y :: p2, a4 ++ chSemi :: b, false, false, sk⟩, some y) := by
          simp [IS.get, IS.good]
        rw [hg]
        simp only [Option.getD_some, hy, if_false, Bool.and_false, Bool.false_and, Bool.false_eq_true]
        obtain ⟨p', l', st', hr, hst⟩ := ih a4 (y :: p2) y q1 (l1 + 1) (st1 + 1) (fun z hz => h3 z (by simp [hz])) (by simp at hl3; omega)
        exact ⟨p', l', st', hr, by simp at hl3; omega⟩
    unfold recoverOuter
    simp only [IS.good, Bool.not_false, Bool.and_self, Bool.not_true, Bool.false_eq_true, if_false]
    by_cases hc : c = chRParen
    · subst hc
      have hin : recoverInner true false (f + 1) ⟨pre, a ++ chSemi :: b, false, false, sk⟩ chRParen q len steps =
          .ok (⟨pre, a ++ chSemi :: b, false, false, sk⟩, chRParen, q, false, len, steps) := by
        unfold recoverInner; simp [IS.good]
      rw [hin]
      simp only [IS.good, Bool.not_false, Bool.and_self, Bool.false_eq_true, if_false, beq_self_eq_true, if_true, Bool.true_and]
      obtain ⟨p', l', st', hr, hst⟩ := after pre a q len steps ha (Nat.le_refl _)
      exact ⟨p', l', st', hr, by omega⟩
    · rcases recoverInner_first_semi_cost a pre b sk c q len steps (f + 1) ha hc (by omega) with ⟨p', l', st', h, hst⟩ | ⟨p', a2, l', st', h, h2, h3, hst⟩
      · rw [h]
        exact ⟨p', l', st', by simp, hst⟩
      · rw [h]
        simp only [IS.good, Bool.not_false, Bool.and_self, Bool.false_eq_true, if_false, beq_self_eq_true, if_true, Bool.true_and]
        obtain ⟨p'', l'', st'', hr, hst2⟩ := after p' a2 q l' st' h3 (by omega)
        exact ⟨p'', l'', st'', hr, by omega⟩

end StepModel.P21Safe

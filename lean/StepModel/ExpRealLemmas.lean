import StepModel.ExpLexLemmas
/-! `real2exp` on the spellings `printf("%#.15g")` produces: shape kept, idempotent. -/
namespace StepModel.Express
open StepModel.Generated

/-- trailing zeros removed -/
def stripZeros (fs : List Char) : List Char := (fs.reverse.dropWhile (· = '0')).reverse

theorem dropWhile_idem {α : Type} (p : α → Bool) (l : List α) : (l.dropWhile p).dropWhile p = l.dropWhile p := by
  induction l with
  | nil => rfl
  | cons x l ih =>
    by_cases hx : p x = true
    · simp [List.dropWhile, hx, ih]
    · simp [List.dropWhile, hx]

theorem stripZeros_idem (fs : List Char) : stripZeros (stripZeros fs) = stripZeros fs := by
  simp [stripZeros, dropWhile_idem]

theorem stripZeros_digits (fs : List Char) (h : fs.all Char.isDigit = true) : (stripZeros fs).all Char.isDigit = true := by
  simp only [List.all_eq_true] at h ⊢
  intro c hc
  apply h
  simp only [stripZeros, List.mem_reverse] at hc
  have := (List.dropWhile_sublist (fun x => decide (x = '0')) (l := fs.reverse)).subset hc
  simpa using this

theorem stripZeros_len (fs : List Char) (h : (stripZeros fs).length = fs.length) : stripZeros fs = fs := by
  have hs : (fs.reverse.dropWhile (· = '0')) <:+ fs.reverse := List.dropWhile_suffix _
  have hl : (fs.reverse.dropWhile (· = '0')).length = fs.reverse.length := by simpa [stripZeros] using h
  have := hs.sublist.eq_of_length hl
  simp [stripZeros, this]

theorem digit_ne_dot (c : Char) (h : c.isDigit = true) : c ≠ '.' := by rintro rfl; revert h; decide

/-- `real2exp` on a real spelling: the fraction loses its trailing zeros, nothing else changes -/
theorem real2exp_eq (ds fs ex : List Char) (hds : ds.all Char.isDigit = true) (hfs : fs.all Char.isDigit = true) (hex : ExpPart ex) :
    real2exp (ds ++ '.' :: (fs ++ ex)) = ds ++ '.' :: (stripZeros fs ++ ex) := by
  have hflag : ExpPrec.realDropsPoint = false := rfl
  have hdsdot : ds.all (fun c => decide (c ≠ '.')) = true := by
    simp only [List.all_eq_true, decide_eq_true_eq] at hds ⊢
    intro c hc; exact digit_ne_dot c (hds c hc)
  have h1 := takeWhile_append_of (p := fun c => decide (c ≠ '.')) ds ('.' :: (fs ++ ex)) hdsdot (by intro c r' hh; cases hh; decide)
  have hexhead : ∀ c r', ex = c :: r' → Char.isDigit c = false := by
    intro c r' hh
    rcases hex with rfl | ⟨e, sg, xs, rfl, he, _, _, _⟩
    · cases hh
    · cases hh; rcases he with rfl | rfl <;> decide
  have h2 := takeWhile_append_of (p := Char.isDigit) fs ex hfs hexhead
  unfold real2exp
  simp only [h1.1, h1.2, h2.1, h2.2]
  show (if (stripZeros fs).length = fs.length then _ else _) = _
  split
  · next hl => rw [stripZeros_len fs hl]
  · split
    · next hke =>
      simp only [Bool.and_eq_true, List.isEmpty_iff] at hke
      have hk : stripZeros fs = [] := hke.1
      simp [hflag, hk, hke.2]
    · simp [stripZeros]

theorem real2exp_shape (g : List Char) (h : RealSp g) : RealSp (real2exp g) := by
  obtain ⟨ds, fs, ex, rfl, hne, hds, hfs, hex⟩ := h
  rw [real2exp_eq ds fs ex hds hfs hex]
  exact ⟨ds, stripZeros fs, ex, rfl, hne, hds, stripZeros_digits fs hfs, hex⟩

theorem real2exp_idem (g : List Char) (h : RealSp g) : real2exp (real2exp g) = real2exp g := by
  obtain ⟨ds, fs, ex, rfl, hne, hds, hfs, hex⟩ := h
  rw [real2exp_eq ds fs ex hds hfs hex, real2exp_eq ds (stripZeros fs) ex hds (stripZeros_digits fs hfs) hex, stripZeros_idem]

theorem realSp_dot (g : List Char) (h : RealSp g) : '.' ∈ g := by
  obtain ⟨ds, fs, ex, rfl, _⟩ := h; simp

end StepModel.Express

import StepModel.Props.C13
#print axioms StepModel.InstMgr.C13_inv_reachable
#print axioms StepModel.InstMgr.C13_no_crash
#print axioms StepModel.InstMgr.C13_refines
#print axioms StepModel.InstMgr.C13_refines_history
#print axioms StepModel.InstMgr.C13_count_eq_ref
#print axioms StepModel.InstMgr.C13_instAt_eq_ref
#print axioms StepModel.InstMgr.C13_count_is_live
#print axioms StepModel.InstMgr.C13_instAt_is_live
#print axioms StepModel.InstMgr.C13_index_reported
#print axioms StepModel.InstMgr.C13_find_exact
#print axioms StepModel.InstMgr.C13_ids_unique
#print axioms StepModel.InstMgr.C13_max_ge_live
#print axioms StepModel.InstMgr.C13_max_monotone
#print axioms StepModel.InstMgr.C13_auto_id_fresh
#print axioms StepModel.InstMgr.C13_explicit_id_kept
#print axioms StepModel.InstMgr.C13_byName_first

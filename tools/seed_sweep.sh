#!/bin/bash
# run every quick check at several VERIF_SEED values on /repo; any non-zero exit is a false alarm to investigate
cd /verif; : > /var/tmp/seed_sweep.log
for s in "$@"; do
  for p in C01 C02 C03 C04 C05 C06 C07 C08 C09 C10 C11 C12 C13 C14 C15 C16 C17 C18 C19 C20; do
    VERIF_SEED=$s ./check $p --tier quick > /var/tmp/sweep_${p}_$s.log 2>&1; rc=$?
    [ $rc -ne 0 ] && echo "seed=$s $p rc=$rc $(grep -m2 -E 'VIOLATION|what:|no longer' /var/tmp/sweep_${p}_$s.log | tr '\n' ' ' | cut -c1-300)" >> /var/tmp/seed_sweep.log
  done
  echo "seed $s done" >> /var/tmp/seed_sweep.log
done
git checkout -- evidence 2>/dev/null
echo SWEEPDONE >> /var/tmp/seed_sweep.log

#!/usr/bin/env python3
"""Regenerate the per-property "as built" table of DESIGN.md §0a (between <!-- ASBUILT-BEGIN/END -->) from MANIFEST.json
(what each check claims), evidence/<ID>.json (obligations discharged, inputs evaluated) and KNOWN_FINDINGS.txt."""
import json, os, re
V = os.path.dirname(os.path.dirname(os.path.abspath(__file__)))
m = json.load(open(os.path.join(V, "MANIFEST.json")))
kf = open(os.path.join(V, "KNOWN_FINDINGS.txt")).read()
rows = []
for c in m["checks"]:
    pid = c["property_id"]
    try:
        e = json.load(open(os.path.join(V, c["evidence_file"])))
    except Exception:
        e = {}
    po = e.get("proof_obligations") or e.get("coverage", {}).get("proof_obligations") or {}
    n = po.get("total") if isinstance(po, dict) else None
    d = po.get("discharged") if isinstance(po, dict) else None
    if n is None:
        n = len(re.findall(r"^theorem %s_" % pid, open(os.path.join(V, "lean/StepModel/Props/%s.lean" % pid)).read(), re.M)); d = n
    fixed = len(re.findall(r"^fixed: property=%s " % pid, kf, re.M))
    keys = re.findall(r"^finding: property=%s key=(\S+)" % pid, kf, re.M)
    txt = re.sub(r"\s+", " ", c["level_claimed"]["text"]).replace("|", "/")
    rows.append(f"| {pid} | {d}/{n} | {txt} | {fixed} | {', '.join('`'+k+'`' for k in keys) or '—'} |")
tab = ("| id | obligations discharged | what the check claims (MANIFEST `level_claimed.text`; theorem names and what is correspondence-only: `notes/<ID>.md`) | defects repaired | findings kept |\n"
       "|---|---|---|---|---|\n" + "\n".join(rows))
p = os.path.join(V, "DESIGN.md")
t = open(p).read()
a, b = "<!-- ASBUILT-BEGIN -->", "<!-- ASBUILT-END -->"
assert a in t and b in t
t = t[:t.index(a) + len(a)] + "\n" + tab + "\n" + t[t.index(b):]
open(p, "w").write(t)
print(len(rows), "rows")

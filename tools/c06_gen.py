"""C06 input generators: valid EXPRESS schemas, token/byte mutants, pathological lexical shapes.

Everything is a pure function of its arguments (and a random.Random passed in), so any input can be
re-created from (seed, index); the check also stores failing inputs verbatim in the replay.
All functions return `bytes`.
"""
import random, re

KEYWORDS = ("SCHEMA END_SCHEMA ENTITY END_ENTITY TYPE END_TYPE FUNCTION END_FUNCTION PROCEDURE END_PROCEDURE "
            "RULE END_RULE FOR WHERE DERIVE INVERSE UNIQUE SUBTYPE SUPERTYPE OF ABSTRACT ONEOF AND ANDOR "
            "LIST SET BAG ARRAY OPTIONAL INTEGER REAL STRING BOOLEAN LOGICAL NUMBER BINARY SELECT ENUMERATION "
            "CONSTANT END_CONSTANT LOCAL END_LOCAL IF THEN ELSE END_IF REPEAT END_REPEAT TO BY WHILE UNTIL "
            "CASE END_CASE OTHERWISE BEGIN END ALIAS END_ALIAS RETURN SKIP ESCAPE QUERY SELF IN LIKE NOT OR XOR "
            "MOD DIV TRUE FALSE UNKNOWN USE REFERENCE FROM AS SIZEOF EXISTS NVL TYPEOF GENERIC AGGREGATE VAR "
            "FIXED").split()


# ------------------------------------------------------------------ valid schemas
def valid_schema(rng, idx=0, size=None):
    """A resolvable schema in the subset all four tools accept (types, enums, selects, entities with
    sub/supertypes, optional/derived/inverse/unique/where, constants, functions, rules, remarks)."""
    n_t = rng.randint(1, 4) if size is None else size
    n_e = rng.randint(2, 6) if size is None else size + 1
    nm = f"gen_{idx}"
    out = [f"(* generated schema {idx} *)", f"SCHEMA {nm};"]
    simple = ["INTEGER", "REAL", "STRING", "BOOLEAN", "LOGICAL", "NUMBER", "BINARY", "STRING(12)", "STRING(5) FIXED",
              "REAL(8)", "BINARY(16)"]
    types, enums, selects = [], [], []
    if rng.random() < 0.7:
        out.append("CONSTANT")
        out.append(f"  c_int : INTEGER := {rng.randint(0, 999)};")
        if rng.random() < 0.5:
            out.append(f"  c_str : STRING := '{_word(rng, rng.randint(0, 40))}';")
        if rng.random() < 0.5:
            out.append(f"  c_real : REAL := {rng.randint(0, 99)}.{rng.randint(0, 999)}E{rng.randint(-5, 5)};")
        if rng.random() < 0.3:
            out.append("  c_agg : LIST OF INTEGER := [1, 2, 3 : 2];")
        if rng.random() < 0.3:
            out.append("  c_bin : BINARY := %0110;")
        out.append("END_CONSTANT;")
    for i in range(n_t):
        k = rng.random()
        if k < 0.35:
            t = f"t{i}"
            base = rng.choice(simple + [x for x in types])
            agg = rng.choice(["", "", "LIST [0:?] OF ", "SET [1:3] OF ", "ARRAY [1:4] OF OPTIONAL ", "BAG OF ",
                              "LIST [1:c_int] OF UNIQUE " if False else "LIST OF LIST [0:2] OF "])
            w = ""
            if agg == "" and base in ("INTEGER", "REAL", "NUMBER") and rng.random() < 0.5:
                w = f" WHERE wr{i} : SELF > 0;"
            out.append(f"TYPE {t} = {agg}{base};{w} END_TYPE;" + (f" -- type {t}" if rng.random() < 0.3 else ""))
            types.append(t)
        elif k < 0.7:
            t = f"en{i}"
            items = ", ".join(f"{_word(rng, rng.randint(1, 8))}_{i}_{j}" for j in range(rng.randint(1, 6)))
            out.append(f"TYPE {t} = ENUMERATION OF ({items}); END_TYPE;")
            enums.append(t)
        else:
            selects.append((f"sel{i}", i))
    ents = [f"e{j}" for j in range(n_e)]
    for name, i in selects:
        k = rng.randint(1, min(3, len(ents)))
        mem = rng.sample(ents, k) + ([rng.choice(types)] if types and rng.random() < 0.4 else [])
        out.append(f"TYPE {name} = SELECT ({', '.join(mem)}); END_TYPE;")
    seltypes = [s for s, _ in selects]
    for j, e in enumerate(ents):
        head = f"ENTITY {e}"
        if j == 0 and n_e > 2 and rng.random() < 0.6:
            subs = ents[1:3]
            head += f" {'ABSTRACT ' if rng.random() < 0.3 else ''}SUPERTYPE OF ({rng.choice(['ONEOF', 'ONEOF'])} ({', '.join(subs)}))"
        sup = None
        if j in (1, 2) and n_e > 2:
            sup = ents[0]
        elif j > 2 and rng.random() < 0.4:
            sup = ents[rng.randrange(0, j)]
        if sup:
            head += f" SUBTYPE OF ({sup})"
        out.append(head + ";")
        attrs = []
        for a in range(rng.randint(0, 4)):
            ty = rng.choice(simple + types + enums + seltypes + [x for x in ents if x != e] + ["LIST [0:?] OF " + rng.choice(ents),
                             "SET [1:?] OF REAL", "ARRAY [0:2] OF INTEGER"])
            opt = "OPTIONAL " if rng.random() < 0.3 else ""
            rem = f" -- remark on a{j}_{a}" if rng.random() < 0.25 else ""
            out.append(f"  a{j}_{a} : {opt}{ty};{rem}")
            attrs.append((f"a{j}_{a}", ty, opt))
        ints = [a for a, ty, opt in attrs if ty in ("INTEGER", "REAL", "NUMBER") and not opt]
        if rng.random() < 0.4:
            out.append("DERIVE")
            out.append(f"  d{j} : INTEGER := {ints[0] + ' * 2 + 1' if ints and attrs[[a for a,_,_ in attrs].index(ints[0])][1] == 'INTEGER' else 'c_int + 1' if 'c_int' in ' '.join(out[:8]) else '7'};")
        if j > 0 and rng.random() < 0.3:
            # inverse needs an entity-valued attribute in another entity referring to us; build one safely
            pass
        if attrs and rng.random() < 0.3:
            out.append("UNIQUE")
            out.append(f"  ur{j} : {attrs[0][0]};")
        if ints and rng.random() < 0.5:
            out.append("WHERE")
            out.append(f"  wr1 : {ints[0]} >= 0;")
            if rng.random() < 0.5:
                out.append(f"  wr2 : ({ints[0]} < 100) OR (({ints[0]} MOD 2) = 0);")
        out.append("END_ENTITY;" + (f" -- {e}" if rng.random() < 0.2 else ""))
    if rng.random() < 0.6:
        out += [f"FUNCTION f_{idx}(x : INTEGER; l : LIST OF REAL) : INTEGER;",
                "  LOCAL", "    r : INTEGER := 0;", "    s : STRING;", "  END_LOCAL;",
                "  IF x > 0 THEN", "    r := x + 1;", "  ELSE", "    r := -x;", "  END_IF;",
                "  REPEAT i := 1 TO SIZEOF(l);", "    r := r + 1;", "  END_REPEAT;",
                "  CASE r OF", "    1 : r := 2;", "    2, 3 : r := 4;", "    OTHERWISE : r := 0;", "  END_CASE;",
                "  s := 'abc' + 'def';",
                "  RETURN (r);", "END_FUNCTION;"]
    if rng.random() < 0.3:
        out += [f"PROCEDURE p_{idx}(VAR x : INTEGER);", "  x := x + 1;", "END_PROCEDURE;"]
    if rng.random() < 0.4:
        out += [f"RULE r_{idx} FOR ({ents[0]});", "WHERE", f"  wr1 : SIZEOF(QUERY(q <* {ents[0]} | TRUE)) >= 0;", "END_RULE;"]
    out.append("END_SCHEMA;" + (f" -- {nm}" if rng.random() < 0.3 else ""))
    return ("\n".join(out) + "\n").encode()


def _word(rng, n):
    return "".join(rng.choice("abcdefghijklmnopqrstuvwxyz") for _ in range(n))


# ------------------------------------------------------------------ mutants
TOKEN_RE = re.compile(rb"\(\*|\*\)|--[^\n]*|'[^'\n]*'|\"[^\"\n]*\"|[A-Za-z_][A-Za-z0-9_]*|\d+(?:\.\d*)?(?:[eE][+-]?\d+)?|:=:|:<>:|:=|<=|>=|<>|<\*|\*\*|\|\||\s+|.", re.S)


def tokens(data):
    return TOKEN_RE.findall(data)


def token_mutant(rng, data):
    """delete / duplicate / swap / replace one or a few tokens"""
    toks = tokens(data)
    sig = [i for i, t in enumerate(toks) if not t.isspace()]
    if not sig:
        return data
    for _ in range(rng.choice([1, 1, 1, 2, 3])):
        i = rng.choice(sig)
        k = rng.randrange(8)
        if k == 0:
            toks[i] = b""
        elif k == 1:
            toks[i] = toks[i] + b" " + toks[i]
        elif k == 2:
            j = rng.choice(sig)
            toks[i], toks[j] = toks[j], toks[i]
        elif k == 3:
            toks[i] = rng.choice(KEYWORDS).encode()
        elif k == 4:
            toks[i] = rng.choice([b";", b"(", b")", b"[", b"]", b":", b",", b"'", b'"', b"(*", b"*)", b"--", b"?", b"\\", b".",
                                  b"|", b"<*", b"{", b"}", b"%", b"_x", b"%101", b"1.5e", b"0", b"99999999999999999999"])
        elif k == 5:
            toks[i] = toks[rng.choice(sig)]
        elif k == 6:
            del toks[i:]          # truncate at a token boundary
            sig = [x for x in sig if x < i] or [0]
            if not toks:
                toks = [b""]
        else:
            toks[i] = toks[i] * rng.choice([2, 3, 50])
    return b"".join(toks)


def byte_mutant(rng, data):
    b = bytearray(data)
    if not b:
        return bytes(b)
    for _ in range(rng.choice([1, 1, 2, 4, 8])):
        k = rng.randrange(6)
        p = rng.randrange(len(b)) if b else 0
        if k == 0 and b:
            b[p] = rng.randrange(256)
        elif k == 1:
            b.insert(p, rng.choice([0, 0x80, 0xff, 0x27, 0x22, 0x0d, 0x28, 0x2a, 0x29, 0x2d, 0x3b, 0x5c, rng.randrange(256)]))
        elif k == 2 and b:
            del b[p]
        elif k == 3 and b:
            del b[p:]
        elif k == 4 and b:
            b[p] ^= 1 << rng.randrange(8)
        elif b:
            q = min(len(b), p + rng.randint(1, 30))
            b[p:p] = b[p:q] * rng.choice([1, 2, 20])
        if not b:
            break
    return bytes(b)


# ------------------------------------------------------------------ pathological shapes (parameter n)
def _sch(body, name="s"):
    return (f"SCHEMA {name};\n{body}END_SCHEMA;\n").encode()


def tail_remark(n):
    """`; -- remark` whose text from the first '-' to the newline (inclusive) is n bytes"""
    n = max(n, 3)
    return _sch("ENTITY a;\n  x : INTEGER; --" + "r" * (n - 3) + "\nEND_ENTITY;\n")


def tail_remark_spaced(n):
    n = max(n, 3)
    return _sch("ENTITY a;\n  x : INTEGER; \t --" + "r" * (n - 3) + "\nEND_ENTITY;\n")


def line_remark(n):
    """a `-- remark` line (SCANsave_comment) of n bytes including the newline"""
    n = max(n, 3)
    return _sch("--" + "c" * (n - 3) + "\nENTITY a;\n  x : INTEGER;\nEND_ENTITY;\n")


def nested_functions(n):
    s = ""
    for i in range(n):
        s += " " * i + f"FUNCTION f{i} : INTEGER;\n"
    s += " " * n + "RETURN (1);\n"
    for i in range(n - 1, -1, -1):
        s += " " * i + "END_FUNCTION;\n"
        if i > 0:
            s += " " * i + "RETURN (1);\n"
    return _sch(s)


def nested_procedures(n):
    s = ""
    for i in range(n):
        s += f"PROCEDURE p{i};\n"
    s += "  ;\n"
    for i in range(n - 1, -1, -1):
        s += "END_PROCEDURE;\n"
        if i > 0:
            s += ";\n"
    return _sch(s)


def nested_queries(n):
    """entity WHERE rule with n nested QUERY expressions (scope index = 2 + n)"""
    e = "TRUE"
    for i in range(n):
        e = f"SIZEOF(QUERY(q{i} <* l | {e})) = 0"
    return _sch(f"ENTITY a;\n  l : LIST OF INTEGER;\nWHERE\n  wr1 : {e};\nEND_ENTITY;\n")


def nested_repeats(n):
    """function with n nested REPEAT i := .. loops (scope index = 2 + n)"""
    s = "FUNCTION f : INTEGER;\n  LOCAL r : INTEGER := 0; END_LOCAL;\n"
    for i in range(n):
        s += f"  REPEAT i{i} := 1 TO 2;\n"
    s += "  r := r + 1;\n"
    for i in range(n):
        s += "  END_REPEAT;\n"
    s += "  RETURN (r);\nEND_FUNCTION;\n"
    return _sch(s)


def nested_aliases(n):
    s = "FUNCTION f(x : INTEGER) : INTEGER;\n  LOCAL r : INTEGER := 0; END_LOCAL;\n"
    prev = "x"
    for i in range(n):
        s += f"  ALIAS y{i} FOR {prev};\n"
        prev = f"y{i}"
    s += f"  r := {prev};\n"
    for i in range(n):
        s += "  END_ALIAS;\n"
    s += "  RETURN (r);\nEND_FUNCTION;\n"
    return _sch(s)


def nested_ifs(n):
    s = "FUNCTION f(x : INTEGER) : INTEGER;\n  LOCAL r : INTEGER := 0; END_LOCAL;\n"
    for i in range(n):
        s += "IF x > %d THEN\n" % i
    s += "r := 1;\n"
    for i in range(n):
        s += "END_IF;\n"
    s += "  RETURN (r);\nEND_FUNCTION;\n"
    return _sch(s)


def nested_parens(n):
    return _sch("CONSTANT\n  c : INTEGER := " + "(" * n + "1" + ")" * n + ";\nEND_CONSTANT;\n")


def nested_aggr_literal(n):
    return _sch("CONSTANT\n  c : " + "LIST OF " * n + "INTEGER := " + "[" * n + "1" + "]" * n + ";\nEND_CONSTANT;\n")


def nested_aggr_type(n):
    return _sch("TYPE t = " + "LIST [0:?] OF " * n + "INTEGER;\nEND_TYPE;\nENTITY a;\n  x : t;\nEND_ENTITY;\n")


def nested_comments(n, closed=True):
    return _sch("(* " * n + "deep" + (" *)" * n if closed else "") + "\nENTITY a;\n  x : INTEGER;\nEND_ENTITY;\n")


def unclosed_comments(n):
    return ("SCHEMA s;\nENTITY a;\n  x : INTEGER;\nEND_ENTITY;\nEND_SCHEMA;\n" + "(* \n" * n).encode()


def string_literal(n, ch="x"):
    return _sch("CONSTANT\n  c : STRING := '" + ch * n + "';\nEND_CONSTANT;\n")


def string_literal_dotted(n):
    body = ("abcdefghi." * (n // 10 + 1))[:n]
    return _sch("CONSTANT\n  c : STRING := '" + body + "';\nEND_CONSTANT;\n")


def string_in_where(n):
    return _sch("ENTITY a;\n  x : STRING;\nWHERE\n  wr1 : x <> '" + "y" * n + "';\nEND_ENTITY;\n")


def string_case_label(n):
    return _sch("FUNCTION f(s : STRING) : INTEGER;\n  CASE s OF\n    '" + "k" * n + "' : RETURN (1);\n"
                "    OTHERWISE : RETURN (0);\n  END_CASE;\nEND_FUNCTION;\n")


def encoded_string(n):
    n = max(8, n - n % 8)
    return _sch('CONSTANT\n  c : STRING := "' + "0000004A"[:8] * (n // 8) + '";\nEND_CONSTANT;\n')


def binary_literal(n):
    return _sch("CONSTANT\n  c : BINARY := %" + "10" * (n // 2) + "1" * (n % 2) + ";\nEND_CONSTANT;\n")


def integer_literal(n):
    return _sch("CONSTANT\n  c : INTEGER := " + "9" * n + ";\nEND_CONSTANT;\n")


def real_literal(n):
    return _sch("CONSTANT\n  c : REAL := 1." + "3" * n + ";\nEND_CONSTANT;\n")


def long_ident(role, n):
    x = "i" + "d" * (n - 1)
    if role == "entity":
        return _sch(f"ENTITY {x};\n  a : INTEGER;\nEND_ENTITY;\nENTITY b;\n  r : {x};\nEND_ENTITY;\n")
    if role == "attribute":
        return _sch(f"ENTITY a;\n  {x} : INTEGER;\n  o : OPTIONAL a;\nEND_ENTITY;\n")
    if role == "type":
        return _sch(f"TYPE {x} = INTEGER;\nEND_TYPE;\nENTITY a;\n  v : {x};\nEND_ENTITY;\n")
    if role == "enum_type":
        return _sch(f"TYPE {x} = ENUMERATION OF (aa, bb);\nEND_TYPE;\nENTITY a;\n  v : {x};\nEND_ENTITY;\n")
    if role == "enum_item":
        return _sch(f"TYPE en = ENUMERATION OF ({x}, bb);\nEND_TYPE;\nENTITY a;\n  v : en;\nEND_ENTITY;\n")
    if role == "select_type":
        return _sch(f"ENTITY a;\n  v : INTEGER;\nEND_ENTITY;\nENTITY b;\n  w : {x};\nEND_ENTITY;\nTYPE {x} = SELECT (a, b);\nEND_TYPE;\n")
    if role == "aggr_type":
        return _sch(f"TYPE {x} = LIST [0:?] OF INTEGER;\nEND_TYPE;\nENTITY a;\n  v : {x};\nEND_ENTITY;\n")
    if role == "schema":
        return _sch("ENTITY a;\n  v : INTEGER;\nEND_ENTITY;\n", name=x)
    if role == "function":
        return _sch(f"FUNCTION {x}(p : INTEGER) : INTEGER;\n  RETURN (p);\nEND_FUNCTION;\n")
    if role == "constant":
        return _sch(f"CONSTANT\n  {x} : INTEGER := 1;\nEND_CONSTANT;\n")
    if role == "where_label":
        return _sch(f"ENTITY a;\n  v : INTEGER;\nWHERE\n  {x} : v > 0;\nEND_ENTITY;\n")
    if role == "subtype":
        return _sch(f"ENTITY {x};\n  v : INTEGER;\nEND_ENTITY;\nENTITY b SUBTYPE OF ({x});\n  w : INTEGER;\nEND_ENTITY;\n")
    if role == "undefined_ref":
        return _sch(f"ENTITY a;\n  v : {x};\nEND_ENTITY;\n")
    if role == "bad_ident":
        return _sch(f"ENTITY a;\n  _{x} : INTEGER;\nEND_ENTITY;\n")
    raise ValueError(role)


IDENT_ROLES = ["entity", "attribute", "type", "enum_type", "enum_item", "select_type", "aggr_type", "schema", "function",
               "constant", "where_label", "subtype", "undefined_ref", "bad_ident"]


def many_enum_items(n):
    return _sch("TYPE en = ENUMERATION OF (" + ", ".join(f"item_{i}" for i in range(n)) + ");\nEND_TYPE;\nENTITY a;\n  v : en;\nEND_ENTITY;\n")


def many_select_items(n):
    ents = "".join(f"ENTITY ent_{i};\n  v : INTEGER;\nEND_ENTITY;\n" for i in range(n))
    return _sch(ents + "TYPE sel = SELECT (" + ", ".join(f"ent_{i}" for i in range(n)) + ");\nEND_TYPE;\nENTITY u;\n  w : sel;\nEND_ENTITY;\n")


def many_attributes(n):
    return _sch("ENTITY a;\n" + "".join(f"  at_{i} : INTEGER;\n" for i in range(n)) + "END_ENTITY;\n")


def many_supertypes(n):
    ents = "".join(f"ENTITY sup_{i};\n  v{i} : INTEGER;\nEND_ENTITY;\n" for i in range(n))
    return _sch(ents + "ENTITY sub SUBTYPE OF (" + ", ".join(f"sup_{i}" for i in range(n)) + ");\nEND_ENTITY;\n")


def many_lex_errors(n, ch="$"):
    """n characters that each raise a line-numbered lexical diagnostic"""
    return _sch("ENTITY a;\n" + "".join(f"  {ch}\n" for _ in range(n)) + "  x : INTEGER;\nEND_ENTITY;\n")


def many_undefined(n):
    """n resolution errors, each with a line number"""
    return _sch("ENTITY a;\n" + "".join(f"  at_{i} : undefined_type_{i};\n" for i in range(n)) + "END_ENTITY;\n")


def long_error_args(n, k=30):
    """k diagnostics whose argument text is n bytes each (fills the 4000-byte message buffer quickly)"""
    return _sch("ENTITY a;\n" + "".join(f"  at_{i} : u{i}" + "z" * n + ";\n" for i in range(k)) + "END_ENTITY;\n")


def non_ascii(n):
    return _sch("ENTITY a;\n  x : INTEGER;\nEND_ENTITY;\n").replace(b"x :", bytes([0xe9, 0x80, 0xff] * n) + b" x :")


def nul_bytes(n):
    base = _sch("ENTITY a;\n  x : INTEGER; -- tail\nEND_ENTITY;\n")
    return base.replace(b"x :", b"\0" * n + b"x :").replace(b"tail", b"ta\0il")


def no_final_newline(kind):
    base = _sch("ENTITY a;\n  x : INTEGER;\nEND_ENTITY;\n").rstrip(b"\n")
    return {"plain": base, "remark": base + b" -- trailing remark without newline",
            "semicolon_remark": base[:-1] + b"; -- remark", "string": base + b" 'unterminated",
            "comment": base + b" (* open", "encoded": base + b' "0000', "dash": base + b"-", "dashdash": base + b"--"}[kind]


NO_NL_KINDS = ["plain", "remark", "semicolon_remark", "string", "comment", "encoded", "dash", "dashdash"]


def trivial(kind):
    return {"empty": b"", "newline": b"\n", "space": b"   ", "comment_only": b"(* nothing *)\n", "remark_only": b"-- nothing\n",
            "schema_only": b"SCHEMA s;\nEND_SCHEMA;\n", "crlf": b"SCHEMA s;\r\nENTITY a;\r\n x : INTEGER;\r\nEND_ENTITY;\r\nEND_SCHEMA;\r\n",
            "semicolon": b";", "end_schema": b"END_SCHEMA;", "nul": b"\0", "ff": b"\xff\xfe\xfd",
            "two_schemas": b"SCHEMA s1;\nENTITY a;\nEND_ENTITY;\nEND_SCHEMA;\nSCHEMA s2;\nREFERENCE FROM s1;\nENTITY b SUBTYPE OF (a);\nEND_ENTITY;\nEND_SCHEMA;\n",
            "dup_schema": b"SCHEMA s;\nEND_SCHEMA;\nSCHEMA s;\nEND_SCHEMA;\n",
            "use_missing": b"SCHEMA s;\nUSE FROM nowhere;\nEND_SCHEMA;\n",
            "include_missing": b"INCLUDE 'nowhere.exp';\nSCHEMA s;\nEND_SCHEMA;\n"}[kind]


TRIVIAL_KINDS = ["empty", "newline", "space", "comment_only", "remark_only", "schema_only", "crlf", "semicolon", "end_schema",
                 "nul", "ff", "two_schemas", "dup_schema", "use_missing", "include_missing"]

# families with one size parameter: name -> (function, scope/buffer site the model predicts for, kind of parameter)
FAMILIES = {
    "tail_remark": tail_remark, "tail_remark_spaced": tail_remark_spaced, "line_remark": line_remark,
    "nested_functions": nested_functions, "nested_procedures": nested_procedures, "nested_queries": nested_queries,
    "nested_repeats": nested_repeats, "nested_aliases": nested_aliases, "nested_ifs": nested_ifs,
    "nested_parens": nested_parens, "nested_aggr_literal": nested_aggr_literal, "nested_aggr_type": nested_aggr_type,
    "nested_comments": nested_comments, "unclosed_comments": unclosed_comments,
    "string_literal": string_literal, "string_literal_dotted": string_literal_dotted, "string_in_where": string_in_where,
    "string_case_label": string_case_label, "encoded_string": encoded_string, "binary_literal": binary_literal,
    "integer_literal": integer_literal, "real_literal": real_literal,
    "many_enum_items": many_enum_items, "many_select_items": many_select_items, "many_attributes": many_attributes,
    "many_supertypes": many_supertypes, "many_lex_errors": many_lex_errors, "many_undefined": many_undefined,
    "long_error_args": long_error_args, "non_ascii": non_ascii, "nul_bytes": nul_bytes,
}
for _r in IDENT_ROLES:
    FAMILIES["ident_" + _r] = (lambda r: (lambda n: long_ident(r, n)))(_r)


def shape(family, n):
    return FAMILIES[family](n)

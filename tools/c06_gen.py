"""C06 input generators: valid EXPRESS schemas, token/byte mutants, pathological lexical shapes.

Everything is a pure function of its arguments (and a random.Random passed in), so any input can be
re-created from (seed, index); the check also stores failing inputs verbatim in the replay.
All functions return `bytes`.
"""
import random, re

KEYWORDS = ("SCHEMA END_SCHEMA ENTITY END_ENTITY TYPE END_TYPE FUNCTION END_FUNCTION PROCEDURE END_PROCEDURE "
            "RULE END_RULE FOR WHERE DERIVE INVERSE UNIQUE SUBTYPE SUPERTYPE OF ABSTRACT ONEOF AND ANDOR "
            "LIST SET BAG ARRAY OPTIONAL INTEGER REAL STRING BOOLEAN LOGICAL NUMBER BINARY SELECT ENUMERATION "
            "CONSTANT END_CONSTANT LOCAL END_LOCAL IF THEN ELSE END_IF REPEAT END_REPEAT TO BY WHILE UNTIL "
            "CASE END_CASE OTHERWISE BEGIN END ALIAS END_ALIAS RETURN SKIP ESCAPE QUERY SELF IN LIKE NOT OR XOR "
            "MOD DIV TRUE FALSE UNKNOWN USE REFERENCE FROM AS SIZEOF EXISTS NVL TYPEOF GENERIC AGGREGATE VAR "
            "FIXED").split()


# ------------------------------------------------------------------ valid schemas
def valid_schema(rng, idx=0, size=None):
    """A resolvable schema in the subset all four tools accept (types, enums, selects, entities with
    sub/supertypes, optional/derived/inverse/unique/where, constants, functions, rules, remarks)."""
    n_t = rng.randint(1, 4) if size is None else size
    n_e = rng.randint(2, 6) if size is None else size + 1
    nm = f"gen_{idx}"
    out = [f"(* generated schema {idx} *)", f"SCHEMA {nm};"]
    simple = ["INTEGER", "REAL", "STRING", "BOOLEAN", "LOGICAL", "NUMBER", "BINARY", "STRING(12)", "STRING(5) FIXED",
              "REAL(8)", "BINARY(16)"]
    types, enums, selects = [], [], []
    if rng.random() < 0.7:
        out.append("CONSTANT")
        out.append(f"  c_int : INTEGER := {rng.randint(0, 999)};")
        if rng.random() < 0.5:
            out.append(f"  c_str : STRING := '{_word(rng, rng.randint(0, 40))}';")
        if rng.random() < 0.5:
            out.append(f"  c_real : REAL := {rng.randint(0, 99)}.{rng.randint(0, 999)}E{rng.randint(-5, 5)};")
        if rng.random() < 0.3:
            out.append("  c_agg : LIST OF INTEGER := [1, 2, 3 : 2];")
        if rng.random() < 0.3:
            out.append("  c_bin : BINARY := %0110;")
        out.append("END_CONSTANT;")
    for i in range(n_t):
        k = rng.random()
        if k < 0.35:
            t = f"t{i}"
            base = rng.choice(simple + [x for x in types])
            agg = rng.choice(["", "", "LIST [0:?] OF ", "SET [1:3] OF ", "ARRAY [1:4] OF OPTIONAL ", "BAG OF ",
                              "LIST [1:c_int] OF UNIQUE " if False else "LIST OF LIST [0:2] OF "])
            w = ""
            if agg == "" and base in ("INTEGER", "REAL", "NUMBER") and rng.random() < 0.5:
                w = f" WHERE wr{i} : SELF > 0;"
            out.append(f"TYPE {t} = {agg}{base};{w} END_TYPE;" + (f" -- type {t}" if rng.random() < 0.3 else ""))
            types.append(t)
        elif k < 0.7:
            t = f"en{i}"
            items = ", ".join(f"{_word(rng, rng.randint(1, 8))}_{i}_{j}" for j in range(rng.randint(1, 6)))
            out.append(f"TYPE {t} = ENUMERATION OF ({items}); END_TYPE;")
            enums.append(t)
        else:
            selects.append((f"sel{i}", i))
    ents = [f"e{j}" for j in range(n_e)]
    for name, i in selects:
        k = rng.randint(1, min(3, len(ents)))
        mem = rng.sample(ents, k) + ([rng.choice(types)] if types and rng.random() < 0.4 else [])
        out.append(f"TYPE {name} = SELECT ({', '.join(mem)}); END_TYPE;")
    seltypes = [s for s, _ in selects]
    for j, e in enumerate(ents):
        head = f"ENTITY {e}"
        if j == 0 and n_e > 2 and rng.random() < 0.6:
            subs = ents[1:3]
            head += f" {'ABSTRACT ' if rng.random() < 0.3 else ''}SUPERTYPE OF ({rng.choice(['ONEOF', 'ONEOF'])} ({', '.join(subs)}))"
        sup = None
        if j in (1, 2) and n_e > 2:
            sup = ents[0]
        elif j > 2 and rng.random() < 0.4:
            sup = ents[rng.randrange(0, j)]
        if sup:
            head += f" SUBTYPE OF ({sup})"
        out.append(head + ";")
        attrs = []
        for a in range(rng.randint(0, 4)):
            ty = rng.choice(simple + types + enums + seltypes + [x for x in ents if x != e] + ["LIST [0:?] OF " + rng.choice(ents),
                             "SET [1:?] OF REAL", "ARRAY [0:2] OF INTEGER"])
            opt = "OPTIONAL " if rng.random() < 0.3 else ""
            rem = f" -- remark on a{j}_{a}" if rng.random() < 0.25 else ""
            out.append(f"  a{j}_{a} : {opt}{ty};{rem}")
            attrs.append((f"a{j}_{a}", ty, opt))
        ints = [a for a, ty, opt in attrs if ty in ("INTEGER", "REAL", "NUMBER") and not opt]
        if rng.random() < 0.4:
            out.append("DERIVE")
            out.append(f"  d{j} : INTEGER := {ints[0] + ' * 2 + 1' if ints and attrs[[a for a,_,_ in attrs].index(ints[0])][1] == 'INTEGER' else 'c_int + 1' if 'c_int' in ' '.join(out[:8]) else '7'};")
        if j > 0 and rng.random() < 0.3:
            # inverse needs an entity-valued attribute in another entity referring to us; build one safely
            pass
        if attrs and rng.random() < 0.3:
            out.append("UNIQUE")
            out.append(f"  ur{j} : {attrs[0][0]};")
        if ints and rng.random() < 0.5:
            out.append("WHERE")
            out.append(f"  wr1 : {ints[0]} >= 0;")
            if rng.random() < 0.5:
                out.append(f"  wr2 : ({ints[0]} < 100) OR (({ints[0]} MOD 2) = 0);")
        out.append("END_ENTITY;" + (f" -- {e}" if rng.random() < 0.2 else ""))
    if rng.random() < 0.6:
        out += [f"FUNCTION f_{idx}(x : INTEGER; l : LIST OF REAL) : INTEGER;",
                "  LOCAL", "    r : INTEGER := 0;", "    s : STRING;", "  END_LOCAL;",
                "  IF x > 0 THEN", "    r := x + 1;", "  ELSE", "    r := -x;", "  END_IF;",
                "  REPEAT i := 1 TO SIZEOF(l);", "    r := r + 1;", "  END_REPEAT;",
                "  CASE r OF", "    1 : r := 2;", "    2, 3 : r := 4;", "    OTHERWISE : r := 0;", "  END_CASE;",
                "  s := 'abc' + 'def';",
                "  RETURN (r);", "END_FUNCTION;"]
    if rng.random() < 0.3:
        out += [f"PROCEDURE p_{idx}(VAR x : INTEGER);", "  x := x + 1;", "END_PROCEDURE;"]
    if rng.random() < 0.4:
        out += [f"RULE r_{idx} FOR ({ents[0]});", "WHERE", f"  wr1 : SIZEOF(QUERY(q <* {ents[0]} | TRUE)) >= 0;", "END_RULE;"]
    out.append("END_SCHEMA;" + (f" -- {nm}" if rng.random() < 0.3 else ""))
    data = ("\n".join(out) + "\n").encode()
    if rng.random() < 0.35:     # a second schema with a select that reaches every kind of underlying type along several paths
        omit = tuple(i for i in range(8) if rng.random() < 0.15)
        data += wide_select(rng.choice([2, 2, 3]), omit, rng.choice([0, 1, 2]), name=f"w{idx}", rng=rng)
    return data


def _word(rng, n):
    return "".join(rng.choice("abcdefghijklmnopqrstuvwxyz") for _ in range(n))


# ------------------------------------------------------------------ mutants
TOKEN_RE = re.compile(rb"\(\*|\*\)|--[^\n]*|'[^'\n]*'|\"[^\"\n]*\"|[A-Za-z_][A-Za-z0-9_]*|\d+(?:\.\d*)?(?:[eE][+-]?\d+)?|:=:|:<>:|:=|<=|>=|<>|<\*|\*\*|\|\||\s+|.", re.S)


def tokens(data):
    return TOKEN_RE.findall(data)


def token_mutant(rng, data):
    """delete / duplicate / swap / replace one or a few tokens"""
    toks = tokens(data)
    sig = [i for i, t in enumerate(toks) if not t.isspace()]
    if not sig:
        return data
    for _ in range(rng.choice([1, 1, 1, 2, 3])):
        i = rng.choice(sig)
        k = rng.randrange(8)
        if k == 0:
            toks[i] = b""
        elif k == 1:
            toks[i] = toks[i] + b" " + toks[i]
        elif k == 2:
            j = rng.choice(sig)
            toks[i], toks[j] = toks[j], toks[i]
        elif k == 3:
            toks[i] = rng.choice(KEYWORDS).encode()
        elif k == 4:
            toks[i] = rng.choice([b";", b"(", b")", b"[", b"]", b":", b",", b"'", b'"', b"(*", b"*)", b"--", b"?", b"\\", b".",
                                  b"|", b"<*", b"{", b"}", b"%", b"_x", b"%101", b"1.5e", b"0", b"99999999999999999999"])
        elif k == 5:
            toks[i] = toks[rng.choice(sig)]
        elif k == 6:
            del toks[i:]          # truncate at a token boundary
            sig = [x for x in sig if x < i] or [0]
            if not toks:
                toks = [b""]
        else:
            toks[i] = toks[i] * rng.choice([2, 3, 50])
    return b"".join(toks)


def byte_mutant(rng, data):
    b = bytearray(data)
    if not b:
        return bytes(b)
    for _ in range(rng.choice([1, 1, 2, 4, 8])):
        k = rng.randrange(6)
        p = rng.randrange(len(b)) if b else 0
        if k == 0 and b:
            b[p] = rng.randrange(256)
        elif k == 1:
            b.insert(p, rng.choice([0, 0x80, 0xff, 0x27, 0x22, 0x0d, 0x28, 0x2a, 0x29, 0x2d, 0x3b, 0x5c, rng.randrange(256)]))
        elif k == 2 and b:
            del b[p]
        elif k == 3 and b:
            del b[p:]
        elif k == 4 and b:
            b[p] ^= 1 << rng.randrange(8)
        elif b:
            q = min(len(b), p + rng.randint(1, 30))
            b[p:p] = b[p:q] * rng.choice([1, 2, 20])
        if not b:
            break
    return bytes(b)


# ------------------------------------------------------------------ pathological shapes (parameter n)
def _sch(body, name="s"):
    return (f"SCHEMA {name};\n{body}END_SCHEMA;\n").encode()


def tail_remark(n):
    """`; -- remark` whose text from the first '-' to the newline (inclusive) is n bytes"""
    n = max(n, 3)
    return _sch("ENTITY a;\n  x : INTEGER; --" + "r" * (n - 3) + "\nEND_ENTITY;\n")


def tail_remark_spaced(n):
    n = max(n, 3)
    return _sch("ENTITY a;\n  x : INTEGER; \t --" + "r" * (n - 3) + "\nEND_ENTITY;\n")


def line_remark(n):
    """a `-- remark` line (SCANsave_comment) of n bytes including the newline"""
    n = max(n, 3)
    return _sch("--" + "c" * (n - 3) + "\nENTITY a;\n  x : INTEGER;\nEND_ENTITY;\n")


def nested_functions(n):
    s = ""
    for i in range(n):
        s += " " * i + f"FUNCTION f{i} : INTEGER;\n"
    s += " " * n + "RETURN (1);\n"
    for i in range(n - 1, -1, -1):
        s += " " * i + "END_FUNCTION;\n"
        if i > 0:
            s += " " * i + "RETURN (1);\n"
    return _sch(s)


def nested_procedures(n):
    s = ""
    for i in range(n):
        s += f"PROCEDURE p{i};\n"
    s += "  ;\n"
    for i in range(n - 1, -1, -1):
        s += "END_PROCEDURE;\n"
        if i > 0:
            s += ";\n"
    return _sch(s)


def nested_queries(n):
    """entity WHERE rule with n nested QUERY expressions (scope index = 2 + n)"""
    e = "TRUE"
    for i in range(n):
        e = f"SIZEOF(QUERY(q{i} <* l | {e})) = 0"
    return _sch(f"ENTITY a;\n  l : LIST OF INTEGER;\nWHERE\n  wr1 : {e};\nEND_ENTITY;\n")


def nested_repeats(n):
    """function with n nested REPEAT i := .. loops (scope index = 2 + n)"""
    s = "FUNCTION f : INTEGER;\n  LOCAL r : INTEGER := 0; END_LOCAL;\n"
    for i in range(n):
        s += f"  REPEAT i{i} := 1 TO 2;\n"
    s += "  r := r + 1;\n"
    for i in range(n):
        s += "  END_REPEAT;\n"
    s += "  RETURN (r);\nEND_FUNCTION;\n"
    return _sch(s)


def nested_aliases(n):
    s = "FUNCTION f(x : INTEGER) : INTEGER;\n  LOCAL r : INTEGER := 0; END_LOCAL;\n"
    prev = "x"
    for i in range(n):
        s += f"  ALIAS y{i} FOR {prev};\n"
        prev = f"y{i}"
    s += f"  r := {prev};\n"
    for i in range(n):
        s += "  END_ALIAS;\n"
    s += "  RETURN (r);\nEND_FUNCTION;\n"
    return _sch(s)


def nested_ifs(n):
    s = "FUNCTION f(x : INTEGER) : INTEGER;\n  LOCAL r : INTEGER := 0; END_LOCAL;\n"
    for i in range(n):
        s += "IF x > %d THEN\n" % i
    s += "r := 1;\n"
    for i in range(n):
        s += "END_IF;\n"
    s += "  RETURN (r);\nEND_FUNCTION;\n"
    return _sch(s)


def nested_parens(n):
    return _sch("CONSTANT\n  c : INTEGER := " + "(" * n + "1" + ")" * n + ";\nEND_CONSTANT;\n")


def nested_aggr_literal(n):
    return _sch("CONSTANT\n  c : " + "LIST OF " * n + "INTEGER := " + "[" * n + "1" + "]" * n + ";\nEND_CONSTANT;\n")


def nested_aggr_type(n):
    return _sch("TYPE t = " + "LIST [0:?] OF " * n + "INTEGER;\nEND_TYPE;\nENTITY a;\n  x : t;\nEND_ENTITY;\n")


def nested_comments(n, closed=True):
    return _sch("(* " * n + "deep" + (" *)" * n if closed else "") + "\nENTITY a;\n  x : INTEGER;\nEND_ENTITY;\n")


def unclosed_comments(n):
    return ("SCHEMA s;\nENTITY a;\n  x : INTEGER;\nEND_ENTITY;\nEND_SCHEMA;\n" + "(* \n" * n).encode()


def string_literal(n, ch="x"):
    return _sch("CONSTANT\n  c : STRING := '" + ch * n + "';\nEND_CONSTANT;\n")


def string_literal_dotted(n):
    body = ("abcdefghi." * (n // 10 + 1))[:n]
    return _sch("CONSTANT\n  c : STRING := '" + body + "';\nEND_CONSTANT;\n")


def string_in_where(n):
    return _sch("ENTITY a;\n  x : STRING;\nWHERE\n  wr1 : x <> '" + "y" * n + "';\nEND_ENTITY;\n")


def string_case_label(n):
    return _sch("FUNCTION f(s : STRING) : INTEGER;\n  CASE s OF\n    '" + "k" * n + "' : RETURN (1);\n"
                "    OTHERWISE : RETURN (0);\n  END_CASE;\nEND_FUNCTION;\n")


def encoded_string(n):
    n = max(8, n - n % 8)
    return _sch('CONSTANT\n  c : STRING := "' + "0000004A"[:8] * (n // 8) + '";\nEND_CONSTANT;\n')


def binary_literal(n):
    return _sch("CONSTANT\n  c : BINARY := %" + "10" * (n // 2) + "1" * (n % 2) + ";\nEND_CONSTANT;\n")


def integer_literal(n):
    return _sch("CONSTANT\n  c : INTEGER := " + "9" * n + ";\nEND_CONSTANT;\n")


def real_literal(n):
    return _sch("CONSTANT\n  c : REAL := 1." + "3" * n + ";\nEND_CONSTANT;\n")


def long_ident(role, n):
    x = "i" + "d" * (n - 1)
    if role == "entity":
        return _sch(f"ENTITY {x};\n  a : INTEGER;\nEND_ENTITY;\nENTITY b;\n  r : {x};\nEND_ENTITY;\n")
    if role == "attribute":
        return _sch(f"ENTITY a;\n  {x} : INTEGER;\n  o : OPTIONAL a;\nEND_ENTITY;\n")
    if role == "type":
        return _sch(f"TYPE {x} = INTEGER;\nEND_TYPE;\nENTITY a;\n  v : {x};\nEND_ENTITY;\n")
    if role == "enum_type":
        return _sch(f"TYPE {x} = ENUMERATION OF (aa, bb);\nEND_TYPE;\nENTITY a;\n  v : {x};\nEND_ENTITY;\n")
    if role == "enum_item":
        return _sch(f"TYPE en = ENUMERATION OF ({x}, bb);\nEND_TYPE;\nENTITY a;\n  v : en;\nEND_ENTITY;\n")
    if role == "select_type":
        return _sch(f"ENTITY a;\n  v : INTEGER;\nEND_ENTITY;\nENTITY b;\n  w : {x};\nEND_ENTITY;\nTYPE {x} = SELECT (a, b);\nEND_TYPE;\n")
    if role == "aggr_type":
        return _sch(f"TYPE {x} = LIST [0:?] OF INTEGER;\nEND_TYPE;\nENTITY a;\n  v : {x};\nEND_ENTITY;\n")
    if role == "schema":
        return _sch("ENTITY a;\n  v : INTEGER;\nEND_ENTITY;\n", name=x)
    if role == "function":
        return _sch(f"FUNCTION {x}(p : INTEGER) : INTEGER;\n  RETURN (p);\nEND_FUNCTION;\n")
    if role == "constant":
        return _sch(f"CONSTANT\n  {x} : INTEGER := 1;\nEND_CONSTANT;\n")
    if role == "where_label":
        return _sch(f"ENTITY a;\n  v : INTEGER;\nWHERE\n  {x} : v > 0;\nEND_ENTITY;\n")
    if role == "subtype":
        return _sch(f"ENTITY {x};\n  v : INTEGER;\nEND_ENTITY;\nENTITY b SUBTYPE OF ({x});\n  w : INTEGER;\nEND_ENTITY;\n")
    if role == "undefined_ref":
        return _sch(f"ENTITY a;\n  v : {x};\nEND_ENTITY;\n")
    if role == "bad_ident":
        return _sch(f"ENTITY a;\n  _{x} : INTEGER;\nEND_ENTITY;\n")
    raise ValueError(role)


IDENT_ROLES = ["entity", "attribute", "type", "enum_type", "enum_item", "select_type", "aggr_type", "schema", "function",
               "constant", "where_label", "subtype", "undefined_ref", "bad_ident"]


def many_enum_items(n):
    return _sch("TYPE en = ENUMERATION OF (" + ", ".join(f"item_{i}" for i in range(n)) + ");\nEND_TYPE;\nENTITY a;\n  v : en;\nEND_ENTITY;\n")


def many_select_items(n):
    ents = "".join(f"ENTITY ent_{i};\n  v : INTEGER;\nEND_ENTITY;\n" for i in range(n))
    return _sch(ents + "TYPE sel = SELECT (" + ", ".join(f"ent_{i}" for i in range(n)) + ");\nEND_TYPE;\nENTITY u;\n  w : sel;\nEND_ENTITY;\n")


def many_attributes(n):
    return _sch("ENTITY a;\n" + "".join(f"  at_{i} : INTEGER;\n" for i in range(n)) + "END_ENTITY;\n")


def many_supertypes(n):
    ents = "".join(f"ENTITY sup_{i};\n  v{i} : INTEGER;\nEND_ENTITY;\n" for i in range(n))
    return _sch(ents + "ENTITY sub SUBTYPE OF (" + ", ".join(f"sup_{i}" for i in range(n)) + ");\nEND_ENTITY;\n")


def many_lex_errors(n, ch="$"):
    """n characters that each raise a line-numbered lexical diagnostic"""
    return _sch("ENTITY a;\n" + "".join(f"  {ch}\n" for _ in range(n)) + "  x : INTEGER;\nEND_ENTITY;\n")


def many_undefined(n):
    """n resolution errors, each with a line number"""
    return _sch("ENTITY a;\n" + "".join(f"  at_{i} : undefined_type_{i};\n" for i in range(n)) + "END_ENTITY;\n")


def long_error_args(n, k=30):
    """k diagnostics whose argument text is n bytes each (fills the 4000-byte message buffer quickly)"""
    return _sch("ENTITY a;\n" + "".join(f"  at_{i} : u{i}" + "z" * n + ";\n" for i in range(k)) + "END_ENTITY;\n")


def non_ascii(n):
    return _sch("ENTITY a;\n  x : INTEGER;\nEND_ENTITY;\n").replace(b"x :", bytes([0xe9, 0x80, 0xff] * n) + b" x :")


def nul_bytes(n):
    base = _sch("ENTITY a;\n  x : INTEGER; -- tail\nEND_ENTITY;\n")
    return base.replace(b"x :", b"\0" * n + b"x :").replace(b"tail", b"ta\0il")


def no_final_newline(kind):
    base = _sch("ENTITY a;\n  x : INTEGER;\nEND_ENTITY;\n").rstrip(b"\n")
    return {"plain": base, "remark": base + b" -- trailing remark without newline",
            "semicolon_remark": base[:-1] + b"; -- remark", "string": base + b" 'unterminated",
            "comment": base + b" (* open", "encoded": base + b' "0000', "dash": base + b"-", "dashdash": base + b"--"}[kind]


NO_NL_KINDS = ["plain", "remark", "semicolon_remark", "string", "comment", "encoded", "dash", "dashdash"]


def trivial(kind):
    return {"empty": b"", "newline": b"\n", "space": b"   ", "comment_only": b"(* nothing *)\n", "remark_only": b"-- nothing\n",
            "schema_only": b"SCHEMA s;\nEND_SCHEMA;\n", "crlf": b"SCHEMA s;\r\nENTITY a;\r\n x : INTEGER;\r\nEND_ENTITY;\r\nEND_SCHEMA;\r\n",
            "semicolon": b";", "end_schema": b"END_SCHEMA;", "nul": b"\0", "ff": b"\xff\xfe\xfd",
            "two_schemas": b"SCHEMA s1;\nENTITY a;\nEND_ENTITY;\nEND_SCHEMA;\nSCHEMA s2;\nREFERENCE FROM s1;\nENTITY b SUBTYPE OF (a);\nEND_ENTITY;\nEND_SCHEMA;\n",
            "dup_schema": b"SCHEMA s;\nEND_SCHEMA;\nSCHEMA s;\nEND_SCHEMA;\n",
            "use_missing": b"SCHEMA s;\nUSE FROM nowhere;\nEND_SCHEMA;\n",
            "include_missing": b"INCLUDE 'nowhere.exp';\nSCHEMA s;\nEND_SCHEMA;\n"}[kind]


TRIVIAL_KINDS = ["empty", "newline", "space", "comment_only", "remark_only", "schema_only", "crlf", "semicolon", "end_schema",
                 "nul", "ff", "two_schemas", "dup_schema", "use_missing", "include_missing"]

# families with one size parameter: name -> (function, scope/buffer site the model predicts for, kind of parameter)
FAMILIES = {
    "tail_remark": tail_remark, "tail_remark_spaced": tail_remark_spaced, "line_remark": line_remark,
    "nested_functions": nested_functions, "nested_procedures": nested_procedures, "nested_queries": nested_queries,
    "nested_repeats": nested_repeats, "nested_aliases": nested_aliases, "nested_ifs": nested_ifs,
    "nested_parens": nested_parens, "nested_aggr_literal": nested_aggr_literal, "nested_aggr_type": nested_aggr_type,
    "nested_comments": nested_comments, "unclosed_comments": unclosed_comments,
    "string_literal": string_literal, "string_literal_dotted": string_literal_dotted, "string_in_where": string_in_where,
    "string_case_label": string_case_label, "encoded_string": encoded_string, "binary_literal": binary_literal,
    "integer_literal": integer_literal, "real_literal": real_literal,
    "many_enum_items": many_enum_items, "many_select_items": many_select_items, "many_attributes": many_attributes,
    "many_supertypes": many_supertypes, "many_lex_errors": many_lex_errors, "many_undefined": many_undefined,
    "long_error_args": long_error_args, "non_ascii": non_ascii, "nul_bytes": nul_bytes,
}
def subtype_chain(n):
    """valid: e0 <- e1 <- ... <- e(n-1), each a subtype of the previous one"""
    return _sch("".join(f"ENTITY e{i}" + (f" SUBTYPE OF (e{i - 1})" if i else "") + f";\n  a{i} : INTEGER;\nEND_ENTITY;\n" for i in range(n)))


def _subtype_cycle(n):
    names = [f"e{i}" for i in range(max(n, 1))]
    k = len(names)
    return _sch("".join(f"ENTITY {names[i]} SUBTYPE OF ({names[(i + 1) % k]});\n  a{i} : INTEGER;\nEND_ENTITY;\n" for i in range(k)) +
                "ENTITY leaf SUBTYPE OF (e0);\n  al : INTEGER;\nEND_ENTITY;\n")


FAMILIES["subtype_chain"] = subtype_chain
FAMILIES["subtype_cycle"] = _subtype_cycle
for _r in IDENT_ROLES:
    FAMILIES["ident_" + _r] = (lambda r: (lambda n: long_ident(r, n)))(_r)


def shape(family, n):
    return FAMILIES[family](n)


# ------------------------------------------------------------------ syntactically valid but contradictory declarations
def _ents(spec):
    """spec: list of (name, [supertypes]) -> ENTITY declarations"""
    return "".join(f"ENTITY {n}" + (f"\n  SUBTYPE OF ({', '.join(sup)})" if sup else "") + f";\n  at_{n} : INTEGER;\nEND_ENTITY;\n"
                   for n, sup in spec)


def subtype_cycle(n):
    """n >= 1 entities whose SUBTYPE OF relation is one cycle (n = 1: an entity naming itself)"""
    names = [f"e{i}" for i in range(n)]
    return _sch(_ents([(names[i], [names[(i + 1) % n]]) for i in range(n)]))


CONTRADICTIONS = {
    "self_subtype": lambda: _sch(_ents([("a", ["a"])])),
    "subtype_cycle_2": lambda: subtype_cycle(2),
    "subtype_cycle_3": lambda: subtype_cycle(3),
    "subtype_cycle_a_c_b": lambda: _sch(_ents([("a", ["c"]), ("b", ["a"]), ("c", ["b"])])),
    "subtype_cycle_with_outside_ancestor": lambda: _sch(_ents([("root", []), ("a", ["root", "c"]), ("b", ["a"]), ("c", ["b"]), ("leaf", ["c"])])),
    "subtype_cycle_behind_sibling": lambda: _sch(_ents([("shared", []), ("a", ["shared", "b"]), ("b", ["shared", "a"])])),
    "subtype_cycle_declared_both_ways": lambda: _sch(
        "ENTITY a SUPERTYPE OF (ONEOF (b)) SUBTYPE OF (b);\n  x : INTEGER;\nEND_ENTITY;\n"
        "ENTITY b SUPERTYPE OF (ONEOF (a)) SUBTYPE OF (a);\n  y : INTEGER;\nEND_ENTITY;\n"),
    "subtype_cycle_long": lambda: subtype_cycle(40),
    "supertype_of_self": lambda: _sch("ENTITY a SUPERTYPE OF (a);\n  x : INTEGER;\nEND_ENTITY;\n"),
    "select_self": lambda: _sch("TYPE s1 = SELECT (s1);\nEND_TYPE;\nENTITY a;\n  v : s1;\nEND_ENTITY;\n"),
    "select_cycle_2": lambda: _sch("TYPE s1 = SELECT (s2);\nEND_TYPE;\nTYPE s2 = SELECT (s1);\nEND_TYPE;\nENTITY a;\n  v : s1;\nEND_ENTITY;\n"),
    "select_cycle_3_with_entity": lambda: _sch("ENTITY a;\n  v : s1;\nEND_ENTITY;\nTYPE s1 = SELECT (a, s2);\nEND_TYPE;\nTYPE s2 = SELECT (a, s3);\nEND_TYPE;\n"
                                               "TYPE s3 = SELECT (s1, a);\nEND_TYPE;\n"),
    "select_cycle_behind_sibling": lambda: _sch("ENTITY a;\n  v : s1;\nEND_ENTITY;\nTYPE sh = SELECT (a);\nEND_TYPE;\nTYPE s1 = SELECT (sh, s2);\nEND_TYPE;\n"
                                                "TYPE s2 = SELECT (sh, s1);\nEND_TYPE;\n"),
    "type_self": lambda: _sch("TYPE t = t;\nEND_TYPE;\n"),
    "type_cycle_2": lambda: _sch("TYPE t1 = t2;\nEND_TYPE;\nTYPE t2 = t1;\nEND_TYPE;\nENTITY a;\n  v : t1;\nEND_ENTITY;\n"),
    "aggregate_of_self": lambda: _sch("TYPE t = LIST OF t;\nEND_TYPE;\nENTITY a;\n  v : t;\nEND_ENTITY;\n"),
    "undefined_supertype": lambda: _sch(_ents([("a", ["nosuch"])])),
    "undefined_subtype": lambda: _sch("ENTITY a SUPERTYPE OF (ONEOF (nosuch, b));\nEND_ENTITY;\nENTITY b SUBTYPE OF (a);\nEND_ENTITY;\n"),
    "undefined_attr_type": lambda: _sch("ENTITY a;\n  v : nosuch;\n  w : LIST OF nosuch2;\nEND_ENTITY;\n"),
    "undefined_select_item": lambda: _sch("TYPE s1 = SELECT (nosuch, a);\nEND_TYPE;\nENTITY a;\n  v : s1;\nEND_ENTITY;\n"),
    "undefined_in_where": lambda: _sch("ENTITY a;\n  v : INTEGER;\nWHERE\n  wr1 : nosuch_fn(v) > nosuch_var;\nEND_ENTITY;\n"),
    "undefined_in_derive": lambda: _sch("ENTITY a;\n  v : INTEGER;\nDERIVE\n  d : INTEGER := SELF\\nosuch.x + v;\nEND_ENTITY;\n"),
    "undefined_inverse": lambda: _sch("ENTITY a;\n  v : INTEGER;\nINVERSE\n  i : SET OF nosuch FOR v;\n  j : SET OF a FOR nosuch_attr;\nEND_ENTITY;\n"),
    "duplicate_entity": lambda: _sch(_ents([("a", []), ("a", [])])),
    "duplicate_entity_type": lambda: _sch(_ents([("a", [])]) + "TYPE a = INTEGER;\nEND_TYPE;\n"),
    "duplicate_attribute": lambda: _sch("ENTITY a;\n  v : INTEGER;\n  v : REAL;\nEND_ENTITY;\n"),
    "duplicate_enum_item": lambda: _sch("TYPE en = ENUMERATION OF (x, y, x);\nEND_TYPE;\nTYPE en2 = ENUMERATION OF (x, z);\nEND_TYPE;\nENTITY a;\n  v : en;\nEND_ENTITY;\n"),
    "duplicate_inherited_attr": lambda: _sch("ENTITY a;\n  v : INTEGER;\nEND_ENTITY;\nENTITY b SUBTYPE OF (a);\n  v : INTEGER;\nEND_ENTITY;\n"),
    "duplicate_schema": lambda: b"SCHEMA s;\nENTITY a;\nEND_ENTITY;\nEND_SCHEMA;\nSCHEMA s;\nENTITY b;\nEND_ENTITY;\nEND_SCHEMA;\n",
    "entity_as_underlying_type": lambda: _sch(_ents([("a", [])]) + "TYPE t = a;\nEND_TYPE;\nENTITY b;\n  v : t;\nEND_ENTITY;\n"),
    "type_as_supertype": lambda: _sch("TYPE t = INTEGER;\nEND_TYPE;\nENTITY a SUBTYPE OF (t);\nEND_ENTITY;\n"),
    "entity_as_select_of_itself_attr": lambda: _sch("ENTITY a;\n  v : a;\n  w : LIST [1:?] OF a;\nEND_ENTITY;\n"),
    "use_missing_schema": lambda: b"SCHEMA s;\nUSE FROM nosuch;\nENTITY a;\nEND_ENTITY;\nEND_SCHEMA;\n",
    "use_missing_schema_items": lambda: b"SCHEMA s;\nUSE FROM nosuch (x, y AS z);\nENTITY a SUBTYPE OF (x);\nEND_ENTITY;\nEND_SCHEMA;\n",
    "reference_missing_schema": lambda: b"SCHEMA s;\nREFERENCE FROM nosuch;\nENTITY a;\n  v : thing;\nEND_ENTITY;\nEND_SCHEMA;\n",
    "reference_missing_schema_items": lambda: b"SCHEMA s;\nREFERENCE FROM nosuch (f AS g);\nENTITY a;\nEND_ENTITY;\nEND_SCHEMA;\n",
    "use_missing_item": lambda: b"SCHEMA lib;\nENTITY a;\nEND_ENTITY;\nEND_SCHEMA;\nSCHEMA s;\nUSE FROM lib (a, nosuch);\nENTITY b SUBTYPE OF (a);\nEND_ENTITY;\nEND_SCHEMA;\n",
    "reference_missing_item": lambda: b"SCHEMA lib;\nENTITY a;\nEND_ENTITY;\nEND_SCHEMA;\nSCHEMA s;\nREFERENCE FROM lib (nosuch AS n2);\nENTITY b;\n  v : n2;\nEND_ENTITY;\nEND_SCHEMA;\n",
    "import_through_failed_use": lambda: b"SCHEMA lib;\nUSE FROM nosuch;\nENTITY a;\nEND_ENTITY;\nEND_SCHEMA;\nSCHEMA s;\nUSE FROM lib (a);\nENTITY b SUBTYPE OF (a);\nEND_ENTITY;\nEND_SCHEMA;\n",
    "import_missing_through_failed_use": lambda: b"SCHEMA lib;\nUSE FROM nosuch;\nENTITY a;\nEND_ENTITY;\nEND_SCHEMA;\nSCHEMA s;\nUSE FROM lib (zz);\nENTITY b;\n  v : zz;\nEND_ENTITY;\nEND_SCHEMA;\n",
    "reference_through_failed_use": lambda: b"SCHEMA lib;\nUSE FROM nosuch;\nENTITY a;\nEND_ENTITY;\nEND_SCHEMA;\nSCHEMA s;\nREFERENCE FROM lib (zz);\nENTITY b;\n  v : zz;\nEND_ENTITY;\nEND_SCHEMA;\n",
    "whole_use_through_failed_use": lambda: b"SCHEMA lib;\nUSE FROM nosuch;\nENTITY a;\nEND_ENTITY;\nEND_SCHEMA;\nSCHEMA s;\nUSE FROM lib;\nENTITY b SUBTYPE OF (zz);\nEND_ENTITY;\nEND_SCHEMA;\n",
    "whole_reference_through_failed_reference": lambda: b"SCHEMA lib;\nREFERENCE FROM nosuch;\nENTITY a;\nEND_ENTITY;\nEND_SCHEMA;\nSCHEMA s;\nREFERENCE FROM lib;\nENTITY b;\n  v : zz;\nEND_ENTITY;\nEND_SCHEMA;\n",
    "use_cycle": lambda: b"SCHEMA s1;\nUSE FROM s2;\nENTITY a;\nEND_ENTITY;\nEND_SCHEMA;\nSCHEMA s2;\nUSE FROM s1;\nENTITY b SUBTYPE OF (zz);\nEND_ENTITY;\nEND_SCHEMA;\n",
    "use_item_cycle": lambda: b"SCHEMA s1;\nUSE FROM s2 (x);\nEND_SCHEMA;\nSCHEMA s2;\nUSE FROM s1 (x);\nEND_SCHEMA;\n",
    "use_self": lambda: b"SCHEMA s1;\nUSE FROM s1;\nENTITY a SUBTYPE OF (zz);\nEND_ENTITY;\nEND_SCHEMA;\n",
    "rename_collision": lambda: b"SCHEMA lib;\nENTITY a;\nEND_ENTITY;\nENTITY b;\nEND_ENTITY;\nEND_SCHEMA;\nSCHEMA s;\nUSE FROM lib (a AS c, b AS c);\nENTITY d SUBTYPE OF (c);\nEND_ENTITY;\nEND_SCHEMA;\n",
    "function_call_undefined": lambda: _sch("FUNCTION f(x : INTEGER) : INTEGER;\n  RETURN (g(x) + h);\nEND_FUNCTION;\n"),
    "function_wrong_arg_count": lambda: _sch("FUNCTION f(x : INTEGER) : INTEGER;\n  RETURN (f(x, x, x));\nEND_FUNCTION;\n"),
    "rule_for_undefined": lambda: _sch("RULE r FOR (nosuch);\nWHERE\n  wr1 : TRUE;\nEND_RULE;\n"),
    "unique_undefined_attr": lambda: _sch("ENTITY a;\n  v : INTEGER;\nUNIQUE\n  ur1 : nosuch;\n  ur2 : SELF\\b.v;\nEND_ENTITY;\n"),
    "derive_redeclares_unknown": lambda: _sch("ENTITY a;\n  v : INTEGER;\nEND_ENTITY;\nENTITY b SUBTYPE OF (a);\nDERIVE\n  SELF\\a.nosuch : INTEGER := 1;\n  SELF\\zz.v : INTEGER := 2;\nEND_ENTITY;\n"),
    "supertype_not_listing_subtype": lambda: _sch("ENTITY a SUPERTYPE OF (ONEOF (b));\nEND_ENTITY;\nENTITY b SUBTYPE OF (a);\nEND_ENTITY;\nENTITY c SUBTYPE OF (a);\nEND_ENTITY;\n"),
    "subtype_not_listing_supertype": lambda: _sch("ENTITY a SUPERTYPE OF (ONEOF (b, c));\nEND_ENTITY;\nENTITY b SUBTYPE OF (a);\nEND_ENTITY;\nENTITY c;\nEND_ENTITY;\n"),
}


# ------------------------------------------------------------------ valid "wide" selects: every underlying kind, several paths
_KIND_DECLS = {
    "int": ("TYPE {n} = INTEGER; END_TYPE;", None), "real": ("TYPE {n} = REAL; END_TYPE;", None),
    "str": ("TYPE {n} = STRING; END_TYPE;", None), "bin": ("TYPE {n} = BINARY; END_TYPE;", None),
    "enum": ("TYPE {n} = ENUMERATION OF ({n}_x, {n}_y); END_TYPE;", None), "log": ("TYPE {n} = LOGICAL; END_TYPE;", None),
    "bool": ("TYPE {n} = BOOLEAN; END_TYPE;", None), "ent": ("ENTITY {n};\n  id : INTEGER;\nEND_ENTITY;", None),
    "list": ("TYPE {n} = LIST [1:?] OF REAL; END_TYPE;", None), "set": ("TYPE {n} = SET [0:?] OF INTEGER; END_TYPE;", None),
    "bag": ("TYPE {n} = BAG OF STRING; END_TYPE;", None), "arr": ("TYPE {n} = ARRAY [1:3] OF INTEGER; END_TYPE;", None),
    "num": ("TYPE {n} = NUMBER; END_TYPE;", None),
}
# the eight classes non_unique_types_vector() counts, with the member kinds that fall into each
KIND_CLASSES = [("int",), ("real",), ("str",), ("bin",), ("enum", "log", "bool"), ("ent",), ("list", "set", "bag", "arr"), ("num",)]


def wide_select(paths=2, omit=(), nest=1, name="ws", rng=None):
    """valid schema: a select from which every kind class (except those in `omit`, given as class indices) is reached
    along `paths` different paths; nest = 0: all members direct, 1: split over `paths` sub-selects, 2: a chain of selects"""
    decls, groups = [], [[] for _ in range(max(1, paths))]
    for ci, cls in enumerate(KIND_CLASSES):
        if ci in omit:
            continue
        for p in range(paths):
            kind = cls[(p if rng is None else rng.randrange(len(cls))) % len(cls)]
            n = f"{name}_{kind}_{ci}_{p}"
            decls.append(_KIND_DECLS[kind][0].format(n=n))
            groups[p].append(n)
    out = list(decls)
    if nest == 0:
        out.append(f"TYPE {name}_top = SELECT ({', '.join(x for g in groups for x in g)}); END_TYPE;")
    elif nest == 1:
        for p, g in enumerate(groups):
            out.append(f"TYPE {name}_part{p} = SELECT ({', '.join(g)}); END_TYPE;")
        out.append(f"TYPE {name}_top = SELECT ({', '.join(f'{name}_part{p}' for p in range(len(groups)))}); END_TYPE;")
    else:
        prev = None
        for p, g in enumerate(groups):
            mem = g + ([prev] if prev else [])
            prev = f"{name}_chain{p}"
            out.append(f"TYPE {prev} = SELECT ({', '.join(mem)}); END_TYPE;")
        out.append(f"TYPE {name}_top = SELECT ({prev}); END_TYPE;")
    out.append(f"ENTITY {name}_holder;\n  v : {name}_top;\n  l : LIST [0:?] OF {name}_top;\nEND_ENTITY;")
    return _sch("\n".join(out) + "\n", name=f"{name}_schema")


def wide_selects():
    """deterministic family: (tag, data)"""
    out = []
    for paths in (1, 2, 3):
        for nest in (0, 1, 2):
            out.append((f"wide:p{paths}n{nest}", wide_select(paths, (), nest)))
    for om in range(8):
        out.append((f"wide:omit{om}", wide_select(2, (om,), 1)))
        out.append((f"wide:only{om}", wide_select(2, tuple(i for i in range(8) if i != om), 0)))
    out.append(("wide:omit_real_aggr", wide_select(2, (1, 6), 2)))
    return out


# ------------------------------------------------------------------ contradictory structures USED in expressions
def _uses(attr_decl, expr_of, ent="user"):
    """the same reference in every expression context: DERIVE, WHERE, function body, rule"""
    e = expr_of
    return (f"ENTITY {ent};\n  {attr_decl};\n  n : INTEGER;\nDERIVE\n  d1 : STRING := {e};\n  d2 : LOGICAL := EXISTS({e});\n"
            f"WHERE\n  wr1 : {e} <> '';\n  wr2 : SIZEOF(QUERY(q <* [{e}] | q = {e})) >= 0;\n  wr3 : f_use({e}) > n;\nEND_ENTITY;\n"
            f"FUNCTION f_use(p : GENERIC) : INTEGER;\n  LOCAL\n    r : INTEGER := 0;\n  END_LOCAL;\n  RETURN (r);\nEND_FUNCTION;\n")


def _struct_select_cycle(first_entity=True, length=2):
    sels = [f"sel{i}" for i in range(length)]
    body = "ENTITY person;\n  name : STRING;\nEND_ENTITY;\nENTITY employee SUBTYPE OF (person);\n  badge : INTEGER;\nEND_ENTITY;\n"
    for i, s in enumerate(sels):
        nxt = sels[(i + 1) % length]
        mem = (["employee", nxt] if first_entity else [nxt, "employee"]) if i == 0 else [nxt]
        body += f"TYPE {s} = SELECT ({', '.join(mem)});\nEND_TYPE;\n"
    return body, "sel0"


def contradictions_with_uses():
    """(tag, data): every cyclic / contradictory structure together with expressions that resolve a qualifier, an index,
    a call argument or a QUERY through it"""
    out = []
    structs = {}
    for fe in (True, False):
        for ln in (1, 2, 3):
            b, t = _struct_select_cycle(fe, ln)
            structs[f"selcycle{ln}{'_entfirst' if fe else '_entlast'}"] = (b, t)
    structs["select_diamond_valid"] = ("ENTITY person;\n  name : STRING;\nEND_ENTITY;\nENTITY employee SUBTYPE OF (person);\n  badge : INTEGER;\nEND_ENTITY;\n"
                                       "TYPE sa = SELECT (employee);\nEND_TYPE;\nTYPE sb = SELECT (employee, sa);\nEND_TYPE;\nTYPE sel0 = SELECT (sa, sb);\nEND_TYPE;\n", "sel0")
    structs["subtype_cycle"] = ("ENTITY person SUBTYPE OF (employee);\n  name : STRING;\nEND_ENTITY;\nENTITY employee SUBTYPE OF (person);\n  badge : INTEGER;\nEND_ENTITY;\n", "employee")
    structs["subtype_cycle_leaf"] = ("ENTITY person SUBTYPE OF (boss);\n  name : STRING;\nEND_ENTITY;\nENTITY boss SUBTYPE OF (person);\n  lvl : INTEGER;\nEND_ENTITY;\n"
                                     "ENTITY employee SUBTYPE OF (boss);\n  badge : INTEGER;\nEND_ENTITY;\n", "employee")
    structs["type_cycle"] = ("ENTITY person;\n  name : STRING;\nEND_ENTITY;\nENTITY employee SUBTYPE OF (person);\nEND_ENTITY;\nTYPE t1 = t2;\nEND_TYPE;\nTYPE t2 = t1;\nEND_TYPE;\n", "t1")
    structs["aggregate_of_self"] = ("ENTITY person;\n  name : STRING;\nEND_ENTITY;\nENTITY employee SUBTYPE OF (person);\nEND_ENTITY;\nTYPE t1 = LIST OF t1;\nEND_TYPE;\n", "t1")
    structs["undefined_type"] = ("ENTITY person;\n  name : STRING;\nEND_ENTITY;\nENTITY employee SUBTYPE OF (person);\nEND_ENTITY;\n", "nosuch_type")
    structs["duplicate_entity"] = ("ENTITY person;\n  name : STRING;\nEND_ENTITY;\nENTITY employee SUBTYPE OF (person);\nEND_ENTITY;\nENTITY employee;\n  name : REAL;\nEND_ENTITY;\n", "employee")
    structs["select_of_undefined"] = ("ENTITY person;\n  name : STRING;\nEND_ENTITY;\nENTITY employee SUBTYPE OF (person);\nEND_ENTITY;\nTYPE sel0 = SELECT (employee, nosuch);\nEND_TYPE;\n", "sel0")
    exprs = {"dot": "v.name", "group_dot": "v\\person.name", "group": "v\\person", "index": "v[1]", "index_dot": "v[1].name",
             "dot_undefined": "v.nosuch_attr", "group_undefined": "v\\nosuch_ent.name", "self_dot": "SELF.v.name",
             "call": "f_use(v)", "nested": "v\\employee\\person.name"}
    for sk, (body, ty) in structs.items():
        for ek, ex in exprs.items():
            decl = f"v : LIST OF {ty}" if ek.startswith("index") else f"v : {ty}"
            out.append((f"uses:{sk}:{ek}", _sch(body + _uses(decl, ex))))
    return out


# ------------------------------------------------------------------ long expressions through the generators' string path
def long_expr(kind, n, dotted=True):
    """valid schema with ONE expression whose pretty-printed text is about n characters"""
    lit = (("abcdefghi." * (n // 10 + 1))[:n]) if dotted else "y" * n
    if kind == "where":
        return _sch(f"ENTITY part;\n  description : STRING;\nWHERE\n  wr1 : description <> '{lit}';\nEND_ENTITY;\n")
    if kind == "derive":
        return _sch(f"ENTITY part;\n  description : STRING;\nDERIVE\n  d : STRING := '{lit}';\nEND_ENTITY;\n")
    if kind == "constant":
        return _sch(f"CONSTANT\n  c : STRING := '{lit}';\nEND_CONSTANT;\nENTITY part;\n  description : STRING;\nWHERE\n  wr1 : description <> c;\nEND_ENTITY;\n")
    if kind == "sum":          # many short operands instead of one literal
        k = max(1, n // 8)
        return _sch("ENTITY part;\n  x : INTEGER;\nWHERE\n  wr1 : " + " + ".join(["x"] * k + ["1"]) + " > 0;\nEND_ENTITY;\n")
    if kind == "rule":
        return _sch(f"ENTITY part;\n  description : STRING;\nEND_ENTITY;\nRULE r FOR (part);\nWHERE\n  wr1 : SIZEOF(QUERY(p <* part | p.description = '{lit}')) = 0;\nEND_RULE;\n")
    if kind == "function":
        return _sch(f"FUNCTION f(s : STRING) : LOGICAL;\n  RETURN (s = '{lit}');\nEND_FUNCTION;\nENTITY part;\n  description : STRING;\nWHERE\n  wr1 : f(description);\nEND_ENTITY;\n")
    if kind == "subtype_expr":  # SUPERTYPE OF expression text
        k = max(2, n // 12)
        subs = [f"s{i:06d}" for i in range(k)]
        return _sch("ENTITY sup SUPERTYPE OF (ONEOF (" + ", ".join(subs) + "));\nEND_ENTITY;\n" +
                    "".join(f"ENTITY {s} SUBTYPE OF (sup);\nEND_ENTITY;\n" for s in subs))
    raise ValueError(kind)


LONG_EXPR_KINDS = ["where", "derive", "constant", "sum", "rule", "function", "subtype_expr"]


def escape_heavy(kind, n):
    """string literals full of characters the generators escape when they copy them into C++ / Python source"""
    ch = {"backslash": "\\", "quote": "''", "dquote": '"', "percent": "%", "newline_concat": "' + '", "question": "??/"}[kind]
    lit = ch * n
    return _sch(f"CONSTANT\n  c : STRING := '{lit}';\nEND_CONSTANT;\n"
                f"ENTITY part;\n  description : STRING;\nDERIVE\n  d : STRING := '{lit}';\nWHERE\n  wr1 : description <> '{lit}';\nEND_ENTITY;\n")


ESCAPE_KINDS = ["backslash", "quote", "dquote", "percent", "newline_concat", "question"]
for _k in ESCAPE_KINDS:
    FAMILIES["escape_" + _k] = (lambda k: (lambda n: escape_heavy(k, n)))(_k)
for _k in LONG_EXPR_KINDS:
    FAMILIES["longexpr_" + _k] = (lambda k: (lambda n: long_expr(k, n)))(_k)


def include_chain(n, nested=False):
    """main file with n successful INCLUDE directives (nested: each included file includes the next); returns {name: bytes}"""
    files = {}
    if nested:
        for i in range(n):
            files[f"inc{i}.exp"] = ((f"INCLUDE 'inc{i + 1}.exp';\n" if i + 1 < n else "") + f"SCHEMA si{i};\nENTITY a{i};\nEND_ENTITY;\nEND_SCHEMA;\n").encode()
        main = ("INCLUDE 'inc0.exp';\n" if n else "") + "SCHEMA s;\nENTITY a;\nEND_ENTITY;\nEND_SCHEMA;\n"
    else:
        for i in range(n):
            files[f"inc{i}.exp"] = f"SCHEMA si{i};\nENTITY a{i};\nEND_ENTITY;\nEND_SCHEMA;\n".encode()
        main = "".join(f"INCLUDE 'inc{i}.exp';\n" for i in range(n)) + "SCHEMA s;\nENTITY a;\nEND_ENTITY;\nEND_SCHEMA;\n"
    files["in.exp"] = main.encode()
    return files


def alias_statements():
    """(tag, data): ALIAS ... END_ALIAS in the places a statement may stand"""
    fn = lambda body, params="x : INTEGER": _sch(f"ENTITY pt;\n  c : LIST [3:3] OF REAL;\n  nm : STRING;\nEND_ENTITY;\n"
                                                  f"FUNCTION f({params}) : REAL;\n  LOCAL\n    r : REAL := 0.0;\n    l : LIST OF REAL := [1.0, 2.0];\n  END_LOCAL;\n{body}  RETURN (r);\nEND_FUNCTION;\n")
    return [
        ("alias:simple", fn("  ALIAS y FOR x;\n    r := y;\n  END_ALIAS;\n")),
        ("alias:attribute", fn("  ALIAS y FOR p.c;\n    r := y[1];\n  END_ALIAS;\n", "p : pt")),
        ("alias:index", fn("  ALIAS y FOR l[1];\n    y := 2.0;\n    r := y;\n  END_ALIAS;\n")),
        ("alias:nested", fn("  ALIAS y FOR p.c;\n    ALIAS z FOR y[2];\n      r := z;\n    END_ALIAS;\n  END_ALIAS;\n", "p : pt")),
        ("alias:index_then_attribute", fn("  ALIAS z FOR q[1];\n    r := z.c[1];\n  END_ALIAS;\n", "q : LIST OF pt")),
        ("alias:attribute_of_alias", fn("  ALIAS z FOR p;\n    r := z.c[2];\n  END_ALIAS;\n", "p : pt")),
        ("alias:group_of_alias", fn("  ALIAS z FOR q[1];\n    r := z\\pt.c[2];\n  END_ALIAS;\n", "q : LIST OF pt")),
        ("alias:in_if", fn("  IF x > 0 THEN\n    ALIAS y FOR x;\n      r := y;\n    END_ALIAS;\n  END_IF;\n")),
        ("alias:in_repeat", fn("  REPEAT i := 1 TO 2;\n    ALIAS y FOR l[i];\n      r := r + y;\n    END_ALIAS;\n  END_REPEAT;\n")),
        ("alias:empty_body", fn("  ALIAS y FOR x;\n    ;\n  END_ALIAS;\n")),
        ("alias:undefined_target", fn("  ALIAS y FOR nosuch;\n    r := y;\n  END_ALIAS;\n")),
        ("alias:shadow", fn("  ALIAS x FOR x;\n    r := x;\n  END_ALIAS;\n")),
        ("alias:in_procedure", _sch("PROCEDURE pr(VAR x : INTEGER);\n  ALIAS y FOR x;\n    y := y + 1;\n  END_ALIAS;\nEND_PROCEDURE;\n")),
        ("alias:in_rule", _sch("ENTITY pt;\n  n : INTEGER;\nEND_ENTITY;\nRULE r FOR (pt);\n  LOCAL\n    k : INTEGER := 0;\n  END_LOCAL;\n  ALIAS y FOR k;\n    y := 1;\n  END_ALIAS;\nWHERE\n  wr1 : k >= 0;\nEND_RULE;\n")),
    ]


def multi_schema(n):
    return "".join(f"SCHEMA m{i};\nENTITY e{i};\n  a : INTEGER;\nEND_ENTITY;\nEND_SCHEMA;\n" for i in range(n)).encode()


# ------------------------------------------------------------------ statement nesting inside algorithm bodies
def _stmt_open_close(kind, i):
    if kind == "if":
        return f"IF x > {i} THEN\n", "END_IF;\n"
    if kind == "if_else":
        return f"IF x > {i} THEN\n  r := {i};\nELSE\n", "END_IF;\n"
    if kind == "repeat_incr":
        return f"REPEAT i{i} := 1 TO 2;\n", "END_REPEAT;\n"
    if kind == "repeat_while":
        return f"REPEAT WHILE r < {i};\n", "END_REPEAT;\n"
    if kind == "repeat_until":
        return f"REPEAT UNTIL r > {i};\n", "END_REPEAT;\n"
    if kind == "repeat_bare":
        return "REPEAT;\n  IF r > 3 THEN\n    ESCAPE;\n  END_IF;\n", "END_REPEAT;\n"
    if kind == "case":
        return f"CASE x OF\n  {i} : r := 0;\n  OTHERWISE :\n", "END_CASE;\n"
    if kind == "begin":
        return "BEGIN\n", "END;\n"
    if kind == "alias":
        return f"ALIAS y{i} FOR r;\n", "END_ALIAS;\n"
    raise ValueError(kind)


STATEMENT_KINDS = ["if", "if_else", "repeat_incr", "repeat_while", "repeat_until", "repeat_bare", "case", "begin", "alias"]


def nested_statements(kind, n, where="function"):
    """valid schema: statements of one kind (or `mixed`) nested n deep in a function / procedure / rule body"""
    kinds = [k for k in STATEMENT_KINDS if k != "alias"] if kind == "mixed" else [kind]
    opens, closes = [], []
    for i in range(n):
        o, c = _stmt_open_close(kinds[i % len(kinds)], i)
        opens.append(o)
        closes.append(c)
    body = "".join(opens) + "r := r + 1;\n" + "".join(reversed(closes))
    ent = "ENTITY holder;\n  v : INTEGER;\nEND_ENTITY;\n"
    if where == "function":
        alg = f"FUNCTION f(x : INTEGER) : INTEGER;\n  LOCAL\n    r : INTEGER := 0;\n  END_LOCAL;\n{body}  RETURN (r);\nEND_FUNCTION;\n"
    elif where == "procedure":
        alg = f"PROCEDURE p(x : INTEGER; VAR r : INTEGER);\n{body}END_PROCEDURE;\n"
    else:
        alg = f"RULE ru FOR (holder);\n  LOCAL\n    r : INTEGER := 0;\n    x : INTEGER := 1;\n  END_LOCAL;\n{body}WHERE\n  wr1 : r >= 0;\nEND_RULE;\n"
    return _sch(ent + alg)


for _k in STATEMENT_KINDS + ["mixed"]:
    FAMILIES["stmt_" + _k] = (lambda k: (lambda n: nested_statements(k, n)))(_k)
    FAMILIES["stmt_rule_" + _k] = (lambda k: (lambda n: nested_statements(k, n, "rule")))(_k)
FAMILIES["stmt_procedure_mixed"] = lambda n: nested_statements("mixed", n, "procedure")


# ------------------------------------------------------------------ diagnostics that fill the -B message buffer
def diag_fill(n_long, long_len, n_medium=0, medium_len=0):
    """schema with n_medium undefined types whose names have medium_len characters followed by n_long with long_len:
    every one raises a line-numbered diagnostic that quotes the name"""
    attrs = [f"  m{i} : um{i}_" + "z" * max(0, medium_len - len(f"um{i}_")) + ";\n" for i in range(n_medium)]
    attrs += [f"  l{i} : ul{i}_" + "y" * max(0, long_len - len(f"ul{i}_")) + ";\n" for i in range(n_long)]
    return _sch("ENTITY a;\n" + "".join(attrs) + "END_ENTITY;\n")


# ------------------------------------------------------------------ more contradictions / corner references
CONTRADICTIONS.update({
    "function_referenced_without_arguments": lambda: _sch("FUNCTION f(p : INTEGER) : INTEGER;\n  RETURN (p);\nEND_FUNCTION;\nENTITY a;\n  v : INTEGER;\nWHERE\n  w1 : v > f;\nEND_ENTITY;\n"),
    "function_without_parameters_referenced": lambda: _sch("FUNCTION g : INTEGER;\n  RETURN (1);\nEND_FUNCTION;\nENTITY a;\n  v : INTEGER;\nWHERE\n  w1 : v > g;\nEND_ENTITY;\n"),
    "procedure_used_as_value": lambda: _sch("PROCEDURE p(x : INTEGER);\nEND_PROCEDURE;\nENTITY a;\n  v : INTEGER;\nWHERE\n  w1 : v > p;\nEND_ENTITY;\n"),
    "entity_used_as_value": lambda: _sch("ENTITY b;\nEND_ENTITY;\nENTITY a;\n  v : INTEGER;\nWHERE\n  w1 : v > b;\n  w2 : b.v = 1;\nEND_ENTITY;\n"),
    "type_used_as_value": lambda: _sch("TYPE t = INTEGER;\nEND_TYPE;\nENTITY a;\n  v : INTEGER;\nWHERE\n  w1 : v > t;\nEND_ENTITY;\n"),
    "function_called_with_function": lambda: _sch("FUNCTION f(p : INTEGER) : INTEGER;\n  RETURN (p);\nEND_FUNCTION;\nENTITY a;\n  v : INTEGER;\nDERIVE\n  d : INTEGER := f(f);\nEND_ENTITY;\n"),
    "use_from_long_schema_name": lambda: ("SCHEMA s;\nUSE FROM " + "n" * 300 + ";\nENTITY a;\nEND_ENTITY;\nEND_SCHEMA;\n").encode(),
    "reference_from_long_schema_name": lambda: ("SCHEMA s;\nREFERENCE FROM " + "n" * 5000 + " (x);\nENTITY a;\nEND_ENTITY;\nEND_SCHEMA;\n").encode(),
    "repeat_without_control": lambda: nested_statements("repeat_bare", 1),
})


def use_from_long(n):
    return ("SCHEMA s;\nUSE FROM " + "n" * n + ";\nENTITY a;\nEND_ENTITY;\nEND_SCHEMA;\n").encode()


FAMILIES["use_from_long"] = use_from_long


# ------------------------------------------------------------------ deep expression trees
def deep_expr(kind, n):
    """valid schema with ONE expression whose tree is about n levels deep"""
    head = "FUNCTION f(x : INTEGER) : INTEGER;\n  RETURN (x);\nEND_FUNCTION;\nENTITY a;\n  v : INTEGER;\n  l : LIST OF INTEGER;\n  b : BOOLEAN;\n  s : STRING;\n  o : OPTIONAL a;\n"
    if kind == "left_sum":
        e, ty = " + ".join(["v"] * (n + 1)), "INTEGER"
    elif kind == "right_sum":
        e, ty = "v + (" * n + "v" + ")" * n, "INTEGER"
    elif kind == "concat":
        e, ty = " + ".join(["''"] * (n + 1)), "STRING"
    elif kind == "and_chain":
        e, ty = " AND ".join(["b"] * (n + 1)), "BOOLEAN"
    elif kind == "unary_not":
        e, ty = "NOT " * n + "b", "BOOLEAN"
    elif kind == "unary_minus":
        e, ty = "-(" * n + "v" + ")" * n, "INTEGER"
    elif kind == "funcall":
        e, ty = "f(" * n + "v" + ")" * n, "INTEGER"
    elif kind == "index":
        e, ty = "l" + "[1]" * n, "INTEGER"
    elif kind == "dot":
        e, ty = "o" + ".o" * n + ".v", "INTEGER"
    elif kind == "aggregate":
        e, ty = "SIZEOF(" + "[" * n + "1" + "]" * n + ")", "INTEGER"
    elif kind == "parens":
        e, ty = "(" * n + "v" + ")" * n, "INTEGER"
    elif kind == "interval":
        e, ty = "{1 < v < " + "(" * n + "9" + ")" * n + "}", "LOGICAL"
    else:
        raise ValueError(kind)
    return _sch(head + f"DERIVE\n  d : {ty} := {e};\nWHERE\n  wr1 : EXISTS({e});\nEND_ENTITY;\n")


DEEP_EXPR_KINDS = ["left_sum", "right_sum", "concat", "and_chain", "unary_not", "unary_minus", "funcall", "index", "dot", "aggregate", "parens", "interval"]
for _k in DEEP_EXPR_KINDS:
    FAMILIES["deep_" + _k] = (lambda k: (lambda n: deep_expr(k, n)))(_k)


def bound_expr(kind, n):
    """aggregate bounds are translated by exp2python's EXPRto_python() (fixed 100000-byte buffer) and printed by exp2cxx"""
    head = "FUNCTION fb(s : STRING; t : STRING) : INTEGER;\n  RETURN (1);\nEND_FUNCTION;\n"
    if kind == "string_arg":
        b = "fb('" + "q" * n + "', '')"
    elif kind == "two_args":
        b = "fb('" + "q" * (n // 2) + "', '" + "r" * (n // 2) + "')"
    elif kind == "nested_calls":
        b = "fb('', '')"
        for _ in range(max(1, n // 12)):
            b = "fb2(" + b + ")"
        head += "FUNCTION fb2(i : INTEGER) : INTEGER;\n  RETURN (i);\nEND_FUNCTION;\n"
    elif kind == "long_identifier_call":
        head += "FUNCTION " + "g" * min(n, 190) + "(i : INTEGER) : INTEGER;\n  RETURN (i);\nEND_FUNCTION;\n"
        b = "g" * min(n, 190) + "(" + "1 + " * (n // 4) + "1)"
    else:
        raise ValueError(kind)
    return _sch(head + f"ENTITY a;\n  v : LIST [0 : {b}] OF INTEGER;\n  w : ARRAY [{b} : 9] OF INTEGER;\nEND_ENTITY;\nTYPE tb = SET [{b} : ?] OF REAL;\nEND_TYPE;\n")


BOUND_KINDS = ["string_arg", "two_args", "nested_calls", "long_identifier_call"]
for _k in BOUND_KINDS:
    FAMILIES["bound_" + _k] = (lambda k: (lambda n: bound_expr(k, n)))(_k)


def bound_kinds():
    """(tag, data): every kind of expression as an aggregate bound (the generators translate bounds on their own paths)"""
    out = []
    for tag, b in (("integer", "3"), ("real", "1.5"), ("pi", "PI"), ("binary", "%101"), ("true", "TRUE"), ("unknown", "UNKNOWN"), ("string", "'abc'"),
                   ("encoded", '"0000004A"'), ("sum", "1 + 2"), ("neg", "-1"), ("aggregate", "[1, 2]"), ("question", "?"), ("call", "fb('a', 'b')"),
                   ("attr", "n"), ("self_attr", "SELF.n"), ("sizeof", "SIZEOF(l)"), ("query", "SIZEOF(QUERY(q <* l | q > 0))"), ("undefined", "nosuch"),
                   ("index", "l[1]"), ("nested_call", "fb2(fb2(fb('', '')))"), ("interval", "{1 < n < 3}")):
        out.append((f"bound:{tag}", _sch("FUNCTION fb(s : STRING; t : STRING) : INTEGER;\n  RETURN (1);\nEND_FUNCTION;\n"
                                           "FUNCTION fb2(i : INTEGER) : INTEGER;\n  RETURN (i);\nEND_FUNCTION;\n"
                                           f"ENTITY a;\n  n : INTEGER;\n  l : LIST OF INTEGER;\n  v : LIST [0 : {b}] OF INTEGER;\n  w : ARRAY [{b} : 9] OF INTEGER;\nEND_ENTITY;\n"
                                           f"TYPE tb = SET [{b} : ?] OF REAL;\nEND_TYPE;\n")))
    return out


# ------------------------------------------------------------------ interface (USE / REFERENCE) graphs
def import_graphs():
    """(tag, data): multi-schema files whose USE/REFERENCE clauses form self-imports, 2- and 3-cycles, chains and diamonds, with
    whole-schema and item-wise edges, and a consumer schema that imports an existing / missing / renamed item from a schema on
    the graph and uses it"""
    out = []
    topologies = {
        "self": {"a": ["a"]},
        "cycle2": {"a": ["b"], "b": ["a"]},
        "cycle3": {"a": ["b"], "b": ["c"], "c": ["a"]},
        "cycle2_tail": {"a": ["b"], "b": ["a", "d"], "d": []},
        "chain3": {"a": ["b"], "b": ["c"], "c": []},
        "diamond": {"a": ["b", "c"], "b": ["d"], "c": ["d"], "d": []},
        "two_cycles": {"a": ["b", "c"], "b": ["a"], "c": ["a"]},
    }
    edge_kinds = {
        "use_all": lambda dst, item: f"USE FROM {dst};",
        "ref_all": lambda dst, item: f"REFERENCE FROM {dst};",
        "use_item": lambda dst, item: f"USE FROM {dst} (e_{dst});",
        "ref_item": lambda dst, item: f"REFERENCE FROM {dst} (e_{dst});",
        "use_item_as": lambda dst, item: f"USE FROM {dst} (e_{dst} AS r_{dst}_{item});",
        "use_missing": lambda dst, item: f"USE FROM {dst} (nosuch_{dst});",
    }
    consumers = {
        "existing": ("USE FROM a (e_a);", "e_a"),
        "missing": ("USE FROM a (nonexistent);", None),
        "missing_ref": ("REFERENCE FROM a (nonexistent);", None),
        "missing_as": ("USE FROM a (nonexistent AS x);", "x"),
        "existing_as": ("USE FROM a (e_a AS x);", "x"),
        "whole_use": ("USE FROM a;", "e_a"),
        "whole_ref": ("REFERENCE FROM a;", "e_a"),
        "whole_use_missing_name": ("USE FROM a;", "nonexistent"),
        "far_item": ("USE FROM a (e_zz);", "e_zz"),         # declared by no schema, or only by one reached through the graph
        "none": ("", None),
    }
    for tk, topo in topologies.items():
        for ek, edge in edge_kinds.items():
            for ck, (imp, used) in consumers.items():
                parts = []
                for s_name, dsts in topo.items():
                    body = "".join(edge(d, s_name) + "\n" for d in dsts)
                    parts.append(f"SCHEMA {s_name};\n{body}ENTITY e_{s_name};\n  v_{s_name} : INTEGER;\nEND_ENTITY;\nEND_SCHEMA;\n")
                use = (f"ENTITY user SUBTYPE OF ({used});\n  w : INTEGER;\nEND_ENTITY;\nENTITY holder;\n  h : {used};\nEND_ENTITY;\n" if used
                       else "ENTITY user;\n  w : INTEGER;\nEND_ENTITY;\n")
                parts.append(f"SCHEMA consumer;\n{imp}\n{use}END_SCHEMA;\n")
                out.append((f"imports:{tk}:{ek}:{ck}", "".join(parts).encode()))
    # chains of renames: every schema re-exports the previous name under a new one
    for n in (2, 5, 40):
        parts = ["SCHEMA r0;\nENTITY x0;\n  v : INTEGER;\nEND_ENTITY;\nEND_SCHEMA;\n"]
        for i in range(1, n):
            parts.append(f"SCHEMA r{i};\nUSE FROM r{i - 1} (x{i - 1} AS x{i});\nEND_SCHEMA;\n")
        for last, closing in ((f"x{n - 1}", ""), ("nonexistent", ""), (f"x{n - 1}", f"SCHEMA r0b;\nUSE FROM r{n - 1} (x{n - 1} AS x0);\nEND_SCHEMA;\n")):
            parts2 = parts + [closing, f"SCHEMA consumer;\nUSE FROM r{n - 1} ({last});\nENTITY user SUBTYPE OF ({last});\nEND_ENTITY;\nEND_SCHEMA;\n"]
            out.append((f"imports:rename_chain{n}:{last[:3]}:{'closed' if closing else 'open'}", "".join(parts2).encode()))
    # a rename cycle: a imports x from b, b imports x from a, nobody declares it
    out.append(("imports:rename_cycle", b"SCHEMA a;\nUSE FROM b (x);\nEND_SCHEMA;\nSCHEMA b;\nUSE FROM a (x);\nEND_SCHEMA;\nSCHEMA consumer;\nUSE FROM a (x);\nENTITY u SUBTYPE OF (x);\nEND_ENTITY;\nEND_SCHEMA;\n"))
    out.append(("imports:rename_cycle_as", b"SCHEMA a;\nUSE FROM b (y AS x);\nEND_SCHEMA;\nSCHEMA b;\nUSE FROM a (x AS y);\nEND_SCHEMA;\nSCHEMA consumer;\nREFERENCE FROM a (x);\nENTITY u;\n  f : x;\nEND_ENTITY;\nEND_SCHEMA;\n"))
    return out


def use_cycle(n, missing=True):
    """n >= 1 schemas that USE FROM each other in a ring, plus a consumer importing a (missing) item from the first"""
    names = [f"s{i}" for i in range(max(1, n))]
    k = len(names)
    parts = [f"SCHEMA {names[i]};\nUSE FROM {names[(i + 1) % k]};\nENTITY e{i};\nEND_ENTITY;\nEND_SCHEMA;\n" for i in range(k)]
    item = "nonexistent" if missing else f"e{k - 1}"
    parts.append(f"SCHEMA consumer;\nUSE FROM s0 ({item});\nENTITY u;\n  w : INTEGER;\nEND_ENTITY;\nEND_SCHEMA;\n")
    return "".join(parts).encode()


FAMILIES["use_cycle"] = use_cycle


# ------------------------------------------------------------------ built-in functions / procedures with the wrong number of arguments
BUILTIN_FUNCTIONS = ["ABS", "ACOS", "ASIN", "ATAN", "BLENGTH", "COS", "EXISTS", "EXP", "FORMAT", "HIBOUND", "HIINDEX", "LENGTH", "LOBOUND",
                     "LOG", "LOG10", "LOG2", "LOINDEX", "ODD", "ROLESOF", "SIN", "SIZEOF", "SQRT", "TAN", "TYPEOF", "VALUE", "VALUE_IN",
                     "VALUE_UNIQUE", "NVL", "USEDIN"]
BUILTIN_PROCEDURES = ["INSERT", "REMOVE"]


def builtin_arity():
    """(tag, data): every built-in called with 0..4 arguments, in DERIVE, WHERE, a function body, an aggregate bound"""
    out = []
    args = ["v", "l", "s", "1", "o"]
    for fn in BUILTIN_FUNCTIONS:
        for k in range(0, 5):
            call = fn + ("(" + ", ".join(args[:k]) + ")" if k else "")
            body = (f"ENTITY a;\n  v : INTEGER;\n  l : LIST OF INTEGER;\n  s : STRING;\n  o : OPTIONAL a;\n  b : LIST [0 : {call}] OF INTEGER;\n"
                    f"DERIVE\n  d : INTEGER := {call};\nWHERE\n  wr1 : {call} = {call};\n  wr2 : SIZEOF([{call}]) > 0;\n  wr3 : f_arity({call}) > 0;\nEND_ENTITY;\n"
                    f"FUNCTION f_arity(p : GENERIC) : INTEGER;\n  RETURN (1);\nEND_FUNCTION;\n"
                    f"FUNCTION f_body(v : INTEGER; l : LIST OF INTEGER; s : STRING; o : INTEGER) : INTEGER;\n  LOCAL\n    r : INTEGER := 0;\n  END_LOCAL;\n"
                    f"  r := {call};\n  IF {call} = 1 THEN\n    r := 1;\n  END_IF;\n  RETURN ({call});\nEND_FUNCTION;\n")
            out.append((f"arity:{fn}:{k}", _sch(body)))
    for pr in BUILTIN_PROCEDURES:
        for k in range(0, 5):
            call = pr + ("(" + ", ".join(["l", "1", "2", "3"][:k]) + ")" if k else "")
            out.append((f"arity:{pr}:{k}", _sch(f"PROCEDURE p_arity(VAR l : LIST OF INTEGER);\n  {call};\nEND_PROCEDURE;\n"
                                                 f"ENTITY a;\n  v : INTEGER;\nWHERE\n  wr1 : {call} = 1;\nEND_ENTITY;\n")))
    return out


# ------------------------------------------------------------------ string literals with apostrophes in the positions the printers measure
def quoted_literal(pos, n, density):
    """valid schema: a string literal of n characters of which round(n*density) are apostrophes (written '' in the source)"""
    q = int(round(n * density))
    step = max(1, n // q) if q else 0
    chars = []
    used = 0
    for i in range(n):
        if q and used < q and (i % step == 0):
            chars.append("''")
            used += 1
        else:
            chars.append("k")
    lit = "'" + "".join(chars) + "'"
    if pos == "case_label":
        return _sch(f"FUNCTION f(s : STRING) : INTEGER;\n  CASE s OF\n    {lit} : RETURN (1);\n    OTHERWISE : RETURN (0);\n  END_CASE;\nEND_FUNCTION;\n"
                    "ENTITY a;\n  v : STRING;\nWHERE\n  wr1 : f(v) = 1;\nEND_ENTITY;\n")
    if pos == "case_label_rule":
        return _sch("ENTITY a;\n  v : STRING;\nEND_ENTITY;\n"
                    f"RULE r FOR (a);\n  LOCAL\n    k : INTEGER := 0;\n    s : STRING := '';\n  END_LOCAL;\n  CASE s OF\n    {lit}, 'x' : k := 1;\n  END_CASE;\nWHERE\n  wr1 : k >= 0;\nEND_RULE;\n")
    if pos == "aggregate":
        return _sch(f"ENTITY a;\n  v : STRING;\nWHERE\n  wr1 : v IN [{lit}, 'b'];\nEND_ENTITY;\nCONSTANT\n  c : LIST OF STRING := [{lit}];\nEND_CONSTANT;\n".replace("ENTITY a;", "ENTITY a;", 1)) \
            if False else _sch(f"CONSTANT\n  c : LIST OF STRING := [{lit}];\nEND_CONSTANT;\nENTITY a;\n  v : STRING;\nWHERE\n  wr1 : v IN [{lit}, 'b'];\nEND_ENTITY;\n")
    if pos == "argument":
        return _sch(f"FUNCTION g(s : STRING; t : STRING) : INTEGER;\n  RETURN (LENGTH(s));\nEND_FUNCTION;\nENTITY a;\n  v : STRING;\nDERIVE\n  d : INTEGER := g({lit}, v);\nWHERE\n  wr1 : g(v, {lit}) > 0;\nEND_ENTITY;\n")
    if pos == "where":
        return _sch(f"ENTITY a;\n  v : STRING;\nWHERE\n  wr1 : v <> {lit};\n  wr2 : {lit} LIKE v;\nEND_ENTITY;\n")
    if pos == "attribute_default":
        return _sch(f"ENTITY a;\n  v : STRING;\nDERIVE\n  d : STRING := {lit};\nEND_ENTITY;\n")
    raise ValueError(pos)


QUOTED_POSITIONS = ["case_label", "case_label_rule", "aggregate", "argument", "where", "attribute_default"]


# ------------------------------------------------------------------ exit-status discipline: inputs with a known sequence of reports
def diag_runs():
    """(tag, data, options, phases, messages): `phases` = the reports of parse / resolve / back end in the notation of the
    model driver (W/E/X/D severity, s = with symbol, p = plain); `messages` = diagnostics that must appear on stderr, or None
    when the resolver's own early returns make the number depend on pass order."""
    out = []
    clean = b"SCHEMA s;\nENTITY a;\n  v : INTEGER;\nEND_ENTITY;\nEND_SCHEMA;\n"
    out.append(("clean", clean, [], ("-", "-", "-"), 0))
    for k in (1, 3, 12, 150):       # 150: the -B buffer (4000 bytes, 100 messages) fills up more than once
        calls = "".join(f"  y{i} := f(x, x, x);\n" for i in range(k))
        loc = "".join(f"  y{i} : INTEGER;\n" for i in range(k))
        w = f"SCHEMA s;\nFUNCTION f(x : INTEGER) : INTEGER;\nLOCAL\n{loc}END_LOCAL;\n{calls}  RETURN (x);\nEND_FUNCTION;\nEND_SCHEMA;\n".encode()
        # any -w/-i switches the blanket "all warnings off" of main off; the named class itself is not used by the input
        out.append((f"warnings:{k}", w, ["-i", "indexing"], ("-", ",".join(["Ws"] * k), "-"), k))
        out.append((f"warnings_default:{k}", w, [], ("-", "-", "-"), 0))
    for k in (1, 3, 12, 150):
        attrs = "".join(f"  v{i} : nosuch{i};\n" for i in range(k))
        e = f"SCHEMA s;\nENTITY a;\n{attrs}END_ENTITY;\nEND_SCHEMA;\n".encode()
        out.append((f"errors:{k}", e, [], ("-", ",".join(["Es"] * k), "-"), k))
    out.append(("syntax", b"SCHEMA s;\nENTITY a;\n  v : ;\nEND_ENTITY;\nEND_SCHEMA;\n", [], ("Xs", "-", "-"), 1))
    out.append(("syntax_at_end", b"SCHEMA s;\nENTITY a;\nEND_ENTITY;\n", [], ("Xs", "-", "-"), 1))
    mixed = (b"SCHEMA s;\nENTITY a;\n  v : nosuch;\nEND_ENTITY;\nFUNCTION f(x : INTEGER) : INTEGER;\n  RETURN (f(x, x, x));\nEND_FUNCTION;\nEND_SCHEMA;\n")
    out.append(("error_and_warning", mixed, ["-i", "indexing"], ("-", "Es,Ws", "-"), None))
    return out


def command_lines():
    """(tag[:tools], argument vector, expected verdict of the model's `exit <tool> <verdict>`): invocations without a usable input file"""
    return [("no_arguments", [], "usage"), ("only_B", ["-B"], "usage"), ("only_r", ["-r"], "usage"), ("unknown_option:check-express,exppp", ["-q", "{in}"], "usage"),       # the generators' own option handlers ignore unknown letters
            ("option_without_value", ["-w"], "usage"), ("unknown_warning", ["-w", "nosuchwarning", "{in}"], "usage"),
            ("unknown_warning_i", ["-i", "nosuchwarning", "{in}"], "usage"), ("version", ["-v"], "accepted"),
            ("missing_file", ["/nonexistent/dir/x.exp"], "errors"), ("missing_file_B", ["-B", "/nonexistent/dir/x.exp"], "errors"),
            ("directory_as_file", ["."], "errors"), ("debug_help", ["-d", "0", "{in}"], "accepted"), ("print_everything", ["-p", "E", "{in}"], "accepted")]


def rename_ring(n, kind):
    """n schemas, schema i imports item x from schema i+1 by name; kind: "closed" (the last imports it from the first — nobody
    declares x), "missing" (the last neither imports nor declares it), "declared" (the last declares it)"""
    parts = []
    for i in range(n):
        last = i == n - 1
        if not last or kind == "closed":
            body = f"USE FROM s{(i + 1) % n} (x);\n"
        elif kind == "declared":
            body = "ENTITY x;\n  v : INTEGER;\nEND_ENTITY;\n"
        else:
            body = ""
        user = "ENTITY u SUBTYPE OF (x);\n  w : INTEGER;\nEND_ENTITY;\n" if i == 0 and not (last and kind == "declared") else ""
        parts.append(f"SCHEMA s{i};\n{body}{user}END_SCHEMA;\n")
    if n == 1 and kind == "declared":
        parts = ["SCHEMA s0;\nENTITY x;\n  v : INTEGER;\nEND_ENTITY;\nENTITY u SUBTYPE OF (x);\n  w : INTEGER;\nEND_ENTITY;\nEND_SCHEMA;\n"]
    return "".join(parts).encode()


# ------------------------------------------------------------------ lattices: many paths through few declarations (valid EXPRESS)
def inheritance_ladder(n, variant="plain"):
    """n levels of two entities each, every entity a subtype of both entities of the level above: 2n entities, 2^n supertype
    paths from the bottom to the top.  variants: plain; super (explicit SUPERTYPE OF (… ANDOR …)); rules (DERIVE / WHERE /
    UNIQUE that use inherited attributes at every level)"""
    out = ["SCHEMA s;"]
    for i in range(n):
        sub = f" SUBTYPE OF (a{i - 1}, b{i - 1})" if i else ""
        sup = f" SUPERTYPE OF (a{i + 1} ANDOR b{i + 1})" if variant == "super" and i < n - 1 else ""
        if variant == "rules" and i:
            out.append(f"ENTITY a{i}{sub}; x{i} : INTEGER; DERIVE d{i} : INTEGER := x0 + y0; WHERE w : SELF\\a0.x0 > 0; END_ENTITY;")
            out.append(f"ENTITY b{i}{sub}; y{i} : INTEGER; UNIQUE u : y{i}, x0; END_ENTITY;")
        else:
            out.append(f"ENTITY a{i}{sup}{sub}; x{i} : INTEGER; END_ENTITY;")
            out.append(f"ENTITY b{i}{sup}{sub}; y{i} : INTEGER; END_ENTITY;")
    out.append(f"ENTITY user; r : a{n - 1}; END_ENTITY;")
    out.append("END_SCHEMA;")
    return ("\n".join(out) + "\n").encode()


def select_ladder(n):
    """n levels of two SELECT types each, every select naming both selects of the level below: 2^n paths to the two entities"""
    out = ["SCHEMA s;", "ENTITY e0; x : INTEGER; END_ENTITY;", "ENTITY f0; y : INTEGER; END_ENTITY;"]
    for i in range(n):
        items = f"sa{i - 1}, sb{i - 1}" if i else "e0, f0"
        out.append(f"TYPE sa{i} = SELECT ({items}); END_TYPE;")
        out.append(f"TYPE sb{i} = SELECT ({items}); END_TYPE;")
    out.append(f"ENTITY user; u : sa{n - 1}; v : LIST OF sb{n - 1}; WHERE w : u.x > 0; END_ENTITY;")
    out.append("END_SCHEMA;")
    return ("\n".join(out) + "\n").encode()


def type_ladder(n):
    """defined types and aggregates over a lattice of defined types: TYPE t<i> = LIST OF t<i-1>, used from two places per level"""
    out = ["SCHEMA s;", "TYPE ta0 = INTEGER; END_TYPE;", "TYPE tb0 = REAL; END_TYPE;"]
    for i in range(1, n):
        out.append(f"TYPE ta{i} = SELECT (ta{i - 1}, tb{i - 1}); END_TYPE;")
        out.append(f"TYPE tb{i} = LIST OF ta{i - 1}; END_TYPE;")
    out.append(f"ENTITY user; u : ta{n - 1}; v : tb{n - 1}; END_ENTITY;")
    out.append("END_SCHEMA;")
    return ("\n".join(out) + "\n").encode()


FAMILIES["ladder_plain"] = lambda n: inheritance_ladder(n, "plain")
FAMILIES["ladder_super"] = lambda n: inheritance_ladder(n, "super")
FAMILIES["ladder_rules"] = lambda n: inheritance_ladder(n, "rules")
FAMILIES["ladder_select"] = select_ladder
FAMILIES["ladder_type"] = type_ladder


REPEAT_POSITIONS = ("case_label_function", "case_label_rule", "case_label_nested", "local_initialiser", "derive", "where", "call_argument")


def repeat_count(position, n, kind="ident"):
    """an aggregate initialiser with a repetition `[ 0 : <count> ]` whose count expression prints about n characters
    (kind ident: one long identifier; sum: 1 + 1 + …; call: a long function name)"""
    if kind == "sum":
        count, decl_p, decl_e = " + ".join(["1"] * max(1, n // 4)), "", ""
    elif kind == "call":
        fname = "g" + "f" * (n - 1)
        count, decl_p, decl_e = f"{fname}(1)", "", f"FUNCTION {fname}(q : INTEGER) : INTEGER;\n  RETURN (q);\nEND_FUNCTION;\n"
    else:
        count = "c" + "n" * (n - 1)
        decl_p, decl_e = f"; {count} : INTEGER", ""
    agg = f"[0 : {count}]"
    if position == "case_label_nested":
        agg = f"[[0 : {count}] : 2]"
    if position in ("case_label_function", "case_label_nested"):
        body = (f"FUNCTION f(x : INTEGER{decl_p}) : INTEGER;\nLOCAL\n  r : INTEGER := 0;\n  l : LIST OF {'LIST OF ' if 'nested' in position else ''}INTEGER := [];\nEND_LOCAL;\n"
                f"  CASE l OF\n    {agg} : r := 1;\n    OTHERWISE : r := 2;\n  END_CASE;\n  RETURN (r);\nEND_FUNCTION;\n")
    elif position == "case_label_rule":
        cnt = count if kind != "ident" else "SIZEOF(a)"
        body = (f"ENTITY a;\n  v : INTEGER;\nEND_ENTITY;\nRULE rr FOR (a);\nLOCAL\n  l : LIST OF INTEGER := [];\n  r : INTEGER := 0;\nEND_LOCAL;\n"
                f"  CASE l OF\n    [0 : {cnt}] : r := 1;\n    OTHERWISE : r := 2;\n  END_CASE;\nWHERE\n  wr1 : r > 0;\nEND_RULE;\n")
    elif position == "local_initialiser":
        body = f"FUNCTION f(x : INTEGER{decl_p}) : INTEGER;\nLOCAL\n  l : LIST OF INTEGER := {agg};\nEND_LOCAL;\n  RETURN (SIZEOF(l));\nEND_FUNCTION;\n"
    elif position == "call_argument":
        body = f"FUNCTION f(x : INTEGER{decl_p}) : INTEGER;\n  RETURN (SIZEOF({agg}));\nEND_FUNCTION;\n"
    else:
        cnt = count if kind != "ident" else "v"
        a2 = f"[0 : {cnt}]" if kind != "ident" else f"[0 : v + {' + '.join(['1'] * max(1, n // 4))}]"
        if position == "derive":
            body = f"ENTITY a;\n  v : INTEGER;\nDERIVE\n  d : LIST OF INTEGER := {a2};\nEND_ENTITY;\n"
        else:
            body = f"ENTITY a;\n  v : INTEGER;\nWHERE\n  w1 : v + SIZEOF({a2}) > 0;\nEND_ENTITY;\n"
    return f"SCHEMA r;\n{decl_e}{body}END_SCHEMA;\n".encode()


def tail_ring(tail, ring, item="missing", clause="REFERENCE", late_at=0):
    """item-wise import through a tail of whole-schema USE clauses that leads into a ring of schemas which does NOT contain the
    interfaced schema: app --(clause FROM t0 (x))--> t0 -> t1 … -> r0 -> r1 … -> r0.
    item: "missing" (x declared nowhere), "late" (declared in a schema that ring member `late_at` USEs *after* its ring edge:
    valid input), "early" (declared in the first ring schema: found before the ring closes), "tail" (declared in the last tail schema).
    tail >= 1, ring >= 1 (ring 1: a schema that USEs itself)."""
    names = [f"t{i}" for i in range(tail)] + [f"r{i}" for i in range(ring)]
    parts = [f"SCHEMA app;\n  {clause} FROM t0 (x);\n  ENTITY holder;\n    content : x;\n  END_ENTITY;\nEND_SCHEMA;\n"]
    for i, nm in enumerate(names):
        nxt = names[i + 1] if i + 1 < len(names) else names[tail]
        body = f"  USE FROM {nxt};\n"
        if item == "late" and nm == f"r{late_at}":
            body += "  USE FROM parts;\n"
        if (item == "early" and nm == "r0") or (item == "tail" and nm == names[tail - 1]):
            body += "  ENTITY x;\n    name : STRING;\n  END_ENTITY;\n"
        body += f"  ENTITY e_{nm};\n    v : INTEGER;\n  END_ENTITY;\n"
        parts.append(f"SCHEMA {nm};\n{body}END_SCHEMA;\n")
    if item == "late":
        parts.append("SCHEMA parts;\n  ENTITY x;\n    name : STRING;\n  END_ENTITY;\nEND_SCHEMA;\n")
    return "".join(parts).encode()


def tail_rings():
    """(tag, data, tail, ring, item)"""
    out = []
    for tail in (1, 2, 4):
        for ring in (1, 2, 3, 7):
            for item in ("missing", "late", "early", "tail"):
                for clause in ("REFERENCE", "USE"):
                    if clause == "USE" and (tail, ring) not in ((1, 2), (2, 3)):
                        continue
                    late_at = ring - 1 if item == "late" and ring > 1 and tail == 2 else 0
                    out.append((f"imports:tail{tail}_ring{ring}:{item}:{clause.lower()}", tail_ring(tail, ring, item, clause, late_at), tail, ring, item))
    return out


def recursive_selects():
    """(tag, data): SELECT types that reach themselves through named aggregate types (legal; a direct circle is not): a
    recursive value type, two selects that contain each other, and a select renamed by a defined type"""
    out = []
    out.append(("recursive_value", b"SCHEMA s;\nTYPE simple = INTEGER;\nEND_TYPE;\nTYPE v = SELECT (simple, v_list);\nEND_TYPE;\nTYPE v_list = LIST OF v;\nEND_TYPE;\n"
                b"ENTITY holder;\n  content : v;\nEND_ENTITY;\nEND_SCHEMA;\n"))
    out.append(("mutual_selects", b"SCHEMA s;\nENTITY e;\n  x : INTEGER;\nEND_ENTITY;\nTYPE a = SELECT (e, b_list);\nEND_TYPE;\nTYPE b = SELECT (e, a_list);\nEND_TYPE;\n"
                b"TYPE a_list = LIST OF a;\nEND_TYPE;\nTYPE b_list = SET OF b;\nEND_TYPE;\nENTITY holder;\n  p : a;\n  q : b;\nEND_ENTITY;\nEND_SCHEMA;\n"))
    out.append(("renamed_select", b"SCHEMA s;\nENTITY e;\n  x : INTEGER;\nEND_ENTITY;\nENTITY f;\n  y : REAL;\nEND_ENTITY;\nTYPE a = SELECT (e, f);\nEND_TYPE;\nTYPE b = a;\nEND_TYPE;\n"
                b"TYPE c = SELECT (b, a);\nEND_TYPE;\nENTITY holder;\n  p : b;\n  q : c;\nEND_ENTITY;\nEND_SCHEMA;\n"))
    out.append(("recursive_value_deep", b"SCHEMA s;\nTYPE v = SELECT (w, v_bag);\nEND_TYPE;\nTYPE w = SELECT (v_arr, t);\nEND_TYPE;\nTYPE t = STRING;\nEND_TYPE;\n"
                b"TYPE v_bag = BAG OF v;\nEND_TYPE;\nTYPE v_arr = ARRAY [1:3] OF v;\nEND_TYPE;\nENTITY holder;\n  content : LIST OF v;\nEND_ENTITY;\nEND_SCHEMA;\n"))
    return out


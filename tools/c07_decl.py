"""Normalised declaration AST for EXPRESS (property C07): parser over tools/c07_exp.py tokens, comparator.

Follows the declaration part of src/express/expparse.y (schema_body, constant_decl, type_decl, entity_decl with
subsuper_decl / explicit_attr_list / derive_decl / inverse_clause / unique_clause / where_rule, function_decl,
procedure_decl, rule_decl, action_body, local_decl, statements).  What is layout is normalised away:
  * `a, b : t` is the list [(a, t), (b, t)]; for formal parameters the triples (name, VAR, type);
  * declarations of one scope are keyed by (kind, name) (exppp prints them alphabetically);
  * expressions are kept as token lists and compared by the caller (Lean `ast`: up to redundant parentheses / split literals).
Everything else (names, VAR, OPTIONAL, UNIQUE, FIXED, precision, bounds, ABSTRACT, labels, statement structure) must be equal.
NONTERMINALS maps every non-terminal of expparse.y to the generator feature(s) that exercise it or to the reason it is excluded.
"""
from tools.c07_exp import DeclError, src_text

S = lambda s: ("sym", s)
K = lambda s: ("skw", s)
SIMPLE = ("INTEGER", "REAL", "STRING", "BINARY", "BOOLEAN", "LOGICAL", "NUMBER")
AGG = ("ARRAY", "BAG", "LIST", "SET")


class E:
    """an expression: token list, compared semantically"""
    def __init__(self, toks):
        self.toks = list(toks)
    def __repr__(self):
        return "E<" + src_text(self.toks) + ">"


class P:
    def __init__(self, toks):
        self.t, self.i = toks, 0
        self.body_spans = []          # ((kind, name), first token index, end index) of every algorithm's statement list

    def peek(self, k=0):
        return self.t[self.i + k] if self.i + k < len(self.t) else ("eof",)

    def at(self, *toks):
        return self.peek() in toks

    def eat(self, tok=None):
        t = self.peek()
        if tok is not None and t != tok:
            raise DeclError(f"expected {tok}, got {t} near `{src_text(self.t[max(0, self.i - 6):self.i + 4])}`")
        if t == ("eof",):
            raise DeclError("unexpected end of text")
        self.i += 1
        return t

    def opt(self, tok):
        if self.peek() == tok:
            self.i += 1
            return True
        return False

    def ident(self):
        t = self.eat()
        if t[0] != "id":
            raise DeclError(f"identifier expected, got {t} near `{src_text(self.t[max(0, self.i - 6):self.i + 4])}`")
        return t[1].lower()

    def expr_until(self, *stops):
        """tokens up to the first stop token at bracket depth 0"""
        out, depth = [], 0
        while True:
            t = self.peek()
            if t == ("eof",):
                raise DeclError("unexpected end inside an expression")
            if depth == 0 and t in stops:
                if not out:
                    raise DeclError(f"empty expression before {t} near `{src_text(self.t[max(0, self.i - 6):self.i + 4])}`")
                return E(out)
            if t in (S("("), S("["), S("{")):
                depth += 1
            elif t in (S(")"), S("]"), S("}")):
                depth -= 1
                if depth < 0:
                    if not out:
                        raise DeclError("empty expression")
                    return E(out)
            out.append(t); self.i += 1

    # ---- types
    def type_(self):
        t = self.peek()
        if t[0] == "id":
            self.eat(); return ("named", t[1].lower())
        if t[0] == "skw" and t[1] in SIMPLE:
            self.eat()
            prec, fixed = None, False
            if self.at(S("(")):
                self.eat(); prec = self.expr_until(S(")")); self.eat(S(")"))
            if self.opt(K("FIXED")):
                fixed = True
            return ("simple", t[1], prec, fixed)
        if t[0] == "skw" and t[1] in AGG:
            self.eat()
            bounds = None
            if self.at(S("[")):
                self.eat(); lo = self.expr_until(S(":")); self.eat(S(":")); hi = self.expr_until(S("]")); self.eat(S("]"))
                bounds = (lo, hi)
            self.eat(K("OF"))
            uq = self.opt(K("UNIQUE")); op = self.opt(K("OPTIONAL"))
            if not uq: uq = self.opt(K("UNIQUE"))
            return ("aggr", t[1], bounds, uq, op, self.type_())
        if t == K("GENERIC"):
            self.eat()
            lab = None
            if self.opt(S(":")): lab = self.ident()
            return ("generic", lab)
        if t == K("AGGREGATE"):
            self.eat()
            lab = None
            if self.opt(S(":")): lab = self.ident()
            self.eat(K("OF"))
            return ("aggregate", lab, self.type_())
        if t == K("ENUMERATION"):
            self.eat(); self.eat(K("OF")); self.eat(S("("))
            items = [self.ident()]
            while self.opt(S(",")): items.append(self.ident())
            self.eat(S(")"))
            return ("enum", items)
        if t == K("SELECT"):
            self.eat(); self.eat(S("("))
            items = [self.ident()]
            while self.opt(S(",")): items.append(self.ident())
            self.eat(S(")"))
            return ("select", items)
        raise DeclError(f"type expected, got {t} near `{src_text(self.t[max(0, self.i - 6):self.i + 4])}`")

    def wheres(self):
        ws = []
        if not self.opt(K("WHERE")):
            return ws
        while not (self.peek()[0] == "skw" and self.peek()[1].startswith("END_")):
            label = None
            if self.peek()[0] == "id" and self.peek(1) == S(":"):
                label = self.ident(); self.eat()
            ws.append((label, self.expr_until(S(";")))); self.eat(S(";"))
        return ws

    def attr_ref(self):
        """attribute_decl: id | SELF\\entity.attr  -> normalised string"""
        if self.at(("kw", "SELF")):
            self.eat(); self.eat(S("\\")); e = self.ident(); self.eat(S(".")); a = self.ident()
            return f"self\\{e}.{a}"
        return self.ident()

    # ---- declarations
    def schema(self):
        self.eat(K("SCHEMA")); name = self.ident(); self.eat(S(";"))
        body = self.scope_body((K("END_SCHEMA"),))
        self.eat(K("END_SCHEMA")); self.eat(S(";"))
        if self.peek() != ("eof",):
            raise DeclError(f"text after END_SCHEMA: {self.peek()}")
        return {"schema": name, **body}

    def scope_body(self, ends):
        """declarations of a scope (schema_body / action_body items), keyed by (kind, name)"""
        decls, consts, locals_ = {}, {}, []
        def add(key, val):
            if key in decls:
                raise DeclError(f"{key} declared twice")
            decls[key] = val
        while True:
            t = self.peek()
            if t == K("CONSTANT"):
                self.eat()
                while not self.at(K("END_CONSTANT")):
                    n = self.ident(); self.eat(S(":")); ty = self.type_(); self.eat(S(":="))
                    if n in consts: raise DeclError(f"constant {n} twice")
                    consts[n] = (ty, self.expr_until(S(";"))); self.eat(S(";"))
                self.eat(); self.eat(S(";"))
            elif t == K("LOCAL"):
                self.eat()
                while not self.at(K("END_LOCAL")):
                    names = [self.ident()]
                    while self.opt(S(",")): names.append(self.ident())
                    self.eat(S(":")); ty = self.type_()
                    init = None
                    if self.opt(S(":=")): init = self.expr_until(S(";"))
                    self.eat(S(";"))
                    locals_ += [(n, ty, init) for n in names]
                self.eat(); self.eat(S(";"))
            elif t == K("TYPE"):
                self.eat(); n = self.ident(); self.eat(("op", "eq")); ty = self.type_(); self.eat(S(";"))
                ws = self.wheres(); self.eat(K("END_TYPE")); self.eat(S(";"))
                add(("type", n), {"type": ty, "where": ws})
            elif t == K("ENTITY"):
                n, e = self.entity(); add(("entity", n), e)
            elif t == K("FUNCTION") or t == K("PROCEDURE"):
                kind = t[1].lower()
                self.eat(); n = self.ident()
                params = self.params()
                ret = None
                if kind == "function":
                    self.eat(S(":")); ret = self.type_()
                self.eat(S(";"))
                end = K("END_" + t[1])
                inner = self.scope_body((end,))
                a0 = self.i
                stmts = self.stmts((end,))
                self.body_spans.append(((kind, n), a0, self.i))
                self.eat(end); self.eat(S(";"))
                add((kind, n), {"params": params, "returns": ret, **inner, "body": stmts})
            elif t == K("RULE"):
                self.eat(); n = self.ident(); self.eat(K("FOR")); self.eat(S("("))
                pop = [self.ident()]
                while self.opt(S(",")): pop.append(self.ident())
                self.eat(S(")")); self.eat(S(";"))
                inner = self.scope_body((K("WHERE"), K("END_RULE")))
                a0 = self.i
                stmts = self.stmts((K("WHERE"), K("END_RULE")))
                self.body_spans.append((("rule", n), a0, self.i))
                ws = self.wheres()
                self.eat(K("END_RULE")); self.eat(S(";"))
                add(("rule", n), {"for": pop, **inner, "body": stmts, "where": ws})
            else:
                return {"decls": decls, "consts": consts, "locals": locals_}

    def params(self):
        """formal_parameter_list -> [(name, VAR, type)]"""
        out = []
        if not self.opt(S("(")):
            return out
        while True:
            var = self.opt(K("VAR"))
            names = [self.ident()]
            while self.opt(S(",")): names.append(self.ident())
            self.eat(S(":")); ty = self.type_()
            out += [(n, var, ty) for n in names]
            if not self.opt(S(";")):
                break
        self.eat(S(")"))
        return out

    def entity(self):
        self.eat(K("ENTITY")); n = self.ident()
        e = {"abstract": False, "supertype_of": None, "subtype_of": [], "attrs": [], "derive": [], "inverse": [], "unique": [], "where": []}
        if self.opt(K("ABSTRACT")):
            e["abstract"] = True; self.eat(K("SUPERTYPE"))
            if self.opt(K("OF")):
                self.eat(S("(")); e["supertype_of"] = self.super_expr(); self.eat(S(")"))
        elif self.opt(K("SUPERTYPE")):
            self.eat(K("OF")); self.eat(S("(")); e["supertype_of"] = self.super_expr(); self.eat(S(")"))
        if self.opt(K("SUBTYPE")):
            self.eat(K("OF")); self.eat(S("("))
            e["subtype_of"] = [self.ident()]
            while self.opt(S(",")): e["subtype_of"].append(self.ident())
            self.eat(S(")"))
        self.eat(S(";"))
        while self.peek()[0] == "id" or self.at(("kw", "SELF")):
            names = [self.attr_ref()]
            while self.opt(S(",")): names.append(self.attr_ref())
            self.eat(S(":")); opt = self.opt(K("OPTIONAL")); ty = self.type_(); self.eat(S(";"))
            e["attrs"] += [(a, opt, ty) for a in names]
        if self.opt(K("DERIVE")):
            while self.peek()[0] == "id" or self.at(("kw", "SELF")):
                a = self.attr_ref(); self.eat(S(":")); ty = self.type_(); self.eat(S(":="))
                e["derive"].append((a, ty, self.expr_until(S(";")))); self.eat(S(";"))
        if self.opt(K("INVERSE")):
            while self.peek()[0] == "id" or self.at(("kw", "SELF")):
                a = self.attr_ref(); self.eat(S(":")); ty = self.type_(); self.eat(K("FOR")); f = self.ident(); self.eat(S(";"))
                e["inverse"].append((a, ty, f))
        if self.opt(K("UNIQUE")):
            while self.peek()[0] == "id" or self.at(("kw", "SELF")):
                label = None
                if self.peek()[0] == "id" and self.peek(1) == S(":"):
                    label = self.ident(); self.eat()
                refs = [self.attr_ref()]
                while self.opt(S(",")): refs.append(self.attr_ref())
                self.eat(S(";"))
                e["unique"].append((label, refs))
        e["where"] = self.wheres()
        self.eat(K("END_ENTITY")); self.eat(S(";"))
        return n, e

    # supertype expression: AND / ANDOR on one left-associative level (as in expparse.y), ONEOF( list ), parentheses
    @staticmethod
    def _chain(op, a, b):
        """a left-nested chain of one operator is kept as the list of its operands ((x AND y) AND z = [x, y, z]: the tree the
        parser builds from `x AND y AND z`); a RIGHT operand is never merged into the chain — `x AND (y AND z)` stays nested:
        no associativity is assumed"""
        xs = (a[1] if a[0] == op else [a]) + [b]
        return (op, xs)

    def super_expr(self):
        # expparse.y: supertype_expression ::= supertype_factor | supertype_expression AND factor | supertype_expression ANDOR factor
        # (one left-associative level)
        a = self.super_factor()
        while True:
            if self.opt(K("ANDOR")):
                a = self._chain("andor", a, self.super_factor())
            elif self.at(("op", "and")):
                self.eat(); a = self._chain("and", a, self.super_factor())
            else:
                return a

    def super_factor(self):
        if self.opt(K("ONEOF")):
            self.eat(S("(")); xs = [self.super_expr()]
            while self.opt(S(",")): xs.append(self.super_expr())
            self.eat(S(")"))
            return ("oneof", xs)
        if self.opt(S("(")):
            a = self.super_expr(); self.eat(S(")")); return a
        return ("ent", self.ident())

    # ---- statements
    def stmts(self, ends):
        out = []
        while not self.at(*ends):
            out.append(self.stmt())
        return out

    def stmt(self):
        t = self.peek()
        if t == K("IF"):
            self.eat(); c = self.expr_until(K("THEN")); self.eat(K("THEN"))
            a = self.stmts((K("ELSE"), K("END_IF")))
            b = []
            if self.opt(K("ELSE")): b = self.stmts((K("END_IF"),))
            self.eat(K("END_IF")); self.eat(S(";"))
            return ("if", c, a, b)
        if t == K("REPEAT"):
            self.eat()
            ctl = {"var": None, "from": None, "to": None, "by": None, "while": None, "until": None}
            if self.peek()[0] == "id" and self.peek(1) == S(":="):
                ctl["var"] = self.ident(); self.eat()
                ctl["from"] = self.expr_until(K("TO")); self.eat(K("TO"))
                ctl["to"] = self.expr_until(K("BY"), K("WHILE"), K("UNTIL"), S(";"))
                # expparse.y: `by_expression ::= /* NULL */ { A = LITERAL_ONE; }` — the parser supplies the default
                # increment, exppp cannot know whether it was written: `BY 1` and no BY clause are the same tree
                ctl["by"] = self.expr_until(K("WHILE"), K("UNTIL"), S(";")) if self.opt(K("BY")) else E([("int", 1)])
            if self.opt(K("WHILE")): ctl["while"] = self.expr_until(K("UNTIL"), S(";"))
            if self.opt(K("UNTIL")): ctl["until"] = self.expr_until(S(";"))
            self.eat(S(";"))
            body = self.stmts((K("END_REPEAT"),)); self.eat(K("END_REPEAT")); self.eat(S(";"))
            return ("repeat", ctl, body)
        if t == K("CASE"):
            self.eat(); sel = self.expr_until(K("OF")); self.eat(K("OF"))
            cases, other = [], None
            while not self.at(K("END_CASE")):
                if self.opt(K("OTHERWISE")):
                    self.eat(S(":")); other = self.stmt(); continue
                labels = [self.expr_until(S(","), S(":"))]
                while self.opt(S(",")): labels.append(self.expr_until(S(","), S(":")))
                self.eat(S(":"))
                cases.append((labels, self.stmt()))
            self.eat(K("END_CASE")); self.eat(S(";"))
            return ("case", sel, cases, other)
        if t == K("BEGIN"):
            self.eat(); body = self.stmts((K("END"),)); self.eat(K("END")); self.eat(S(";"))
            return ("begin", body)
        if t == K("ALIAS"):
            self.eat(); n = self.ident(); self.eat(K("FOR")); ref = self.expr_until(S(";")); self.eat(S(";"))
            body = self.stmts((K("END_ALIAS"),)); self.eat(K("END_ALIAS")); self.eat(S(";"))
            return ("alias", n, ref, body)
        if t == K("RETURN"):
            self.eat(); v = None
            if self.opt(S("(")):
                v = self.expr_until(S(")")); self.eat(S(")"))
            self.eat(S(";")); return ("return", v)
        if t == K("SKIP"):
            self.eat(); self.eat(S(";")); return ("skip",)
        if t == K("ESCAPE"):
            self.eat(); self.eat(S(";")); return ("escape",)
        if t[0] == "id" or t == ("kw", "SELF"):
            # assignment `ref := e ;` or procedure call `p ( args ) ;` / `p ;`
            j, depth = self.i, 0
            while True:
                u = self.t[j] if j < len(self.t) else ("eof",)
                if u == ("eof",): raise DeclError("statement not terminated")
                if u in (S("("), S("[")): depth += 1
                elif u in (S(")"), S("]")): depth -= 1
                elif depth == 0 and u in (S(":="), S(";")): break
                j += 1
            if self.t[j] == S(":="):
                lhs = E(self.t[self.i:j]); self.i = j + 1
                rhs = self.expr_until(S(";")); self.eat(S(";"))
                return ("assign", lhs, rhs)
            name = self.ident(); args = []
            if self.opt(S("(")):
                if not self.at(S(")")):
                    args.append(self.expr_until(S(","), S(")")))
                    while self.opt(S(",")): args.append(self.expr_until(S(","), S(")")))
                self.eat(S(")"))
            self.eat(S(";"))
            return ("call", name, args)
        raise DeclError(f"statement expected, got {t} near `{src_text(self.t[max(0, self.i - 6):self.i + 4])}`")


def parse_schema(toks):
    return P(toks).schema()


# ------------------------------------------------------------------ comparison
def compare(a, b, same_expr, path="schema"):
    """first difference between two normalised ASTs as text, or None.  same_expr(E, E, where) -> message or None"""
    if isinstance(a, E) or isinstance(b, E):
        if not (isinstance(a, E) and isinstance(b, E)):
            return f"{path}: {a!r} -> {b!r}"
        return same_expr(a.toks, b.toks, path)
    if isinstance(a, dict) and isinstance(b, dict):
        if set(a) != set(b):
            return f"{path}: {sorted(map(str, set(a) - set(b)))} missing, {sorted(map(str, set(b) - set(a)))} added"
        for k in a:
            r = compare(a[k], b[k], same_expr, f"{path} / {k if isinstance(k, str) else ' '.join(k)}")
            if r: return r
        return None
    if isinstance(a, (list, tuple)) and isinstance(b, (list, tuple)) and type(a) == type(b):
        if len(a) != len(b):
            return f"{path}: {show(a)} -> {show(b)}"
        for i, (x, y) in enumerate(zip(a, b)):
            if isinstance(x, E) != isinstance(y, E):
                return f"{path}: {show(a)} -> {show(b)}"
            r = compare(x, y, same_expr, path)
            if r:
                return r if (isinstance(x, (E, dict)) or isinstance(x, (list, tuple))) else f"{path}: {show(a)} -> {show(b)}"
        return None
    if a != b:
        return f"{path}: {show(a)} -> {show(b)}"
    return None


def show(x):
    if isinstance(x, E): return "`" + src_text(x.toks) + "`"
    if isinstance(x, (list, tuple)): return "(" + ", ".join(show(y) for y in x) + ")" if isinstance(x, tuple) else "[" + ", ".join(show(y) for y in x) + "]"
    return str(x)


# ------------------------------------------------------------------ grammar coverage map
# non-terminal of expparse.y -> generator feature tag(s) (tools/c07_exp.py: Gen/GenExt .hit) or ("excluded", reason)
X_ = lambda why: ("excluded", why)
NONTERMINALS = {
    "action_body": "decl:function", "action_body_item": "algo:nested-declaration", "action_body_item_rep": "algo:nested-declaration",
    "actual_parameters": "funcall", "aggregate_init_body": "aggr:init", "aggregate_init_element": "aggr:init",
    "aggregate_initializer": "aggr:init", "aggregate_type": "param:aggregate", "aggregation_type": "type:LIST",
    "alias_push_scope": "stmt:alias", "alias_statement": "stmt:alias",
    "array_type": "type:ARRAY", "assignable": "stmt:assignment", "assignment_statement": "stmt:assignment",
    "attribute_decl": "entity:attr", "attribute_decl_list": "entity:attr-list", "attribute_type": "entity:attr",
    "bag_type": "type:BAG", "basic_type": "type:precision", "block_list": X_("obsolete: no rule reaches it"), "block_member": X_("obsolete: no rule reaches it"),
    "bound_spec": "type:bounds", "by_expression": "stmt:repeat", "cardinality_op": X_("syntax accepted but no tree built (`expression ::= simple_expression cardinality_op simple_expression` has no action)"),
    "case_action": "stmt:case", "case_action_list": "stmt:case", "case_block": "stmt:case", "case_labels": "stmt:case",
    "case_otherwise": "stmt:case-otherwise", "case_statement": "stmt:case", "compound_statement": "stmt:compound",
    "conformant_aggregation": "param:conformant", "constant": "lit:constant", "constant_body": "decl:constant", "constant_body_list": "decl:constant",
    "constant_decl": "decl:constant", "declaration": "decl:function", "defined_type": "type:named", "defined_type_list": "entity:subtype",
    "derive_decl": "decl:derive", "derived_attribute": "decl:derive", "derived_attribute_rep": "decl:derive",
    "entity_body": "entity:attr", "entity_decl": "entity:attr", "entity_header": "entity:attr", "enumeration_type": "type:enumeration",
    "escape_statement": "stmt:escape/skip", "explicit_attr_list": "entity:attr", "explicit_attribute": "entity:attr",
    "express_file": "decl:schema", "expression": "op:and", "expression_list": "funcall", "fh_lineno": "decl:function", "fh_plist": "decl:function",
    "fh_push_scope": "decl:function", "formal_parameter": "param:group", "formal_parameter_list": "param:none", "formal_parameter_rep": "param:group",
    "function_call": "funcall", "function_decl": "decl:function", "function_header": "decl:function", "function_id": "funcall",
    "general_ref": "stmt:assignment", "generic_type": "param:generic", "group_ref": "op:group", "id_list": "param:id-list", "identifier": "lit:ident",
    "if_statement": "stmt:if", "include_directive": X_("INCLUDE: separate files"), "increment_control": "stmt:repeat", "initializer": "decl:derive",
    "interface_specification": X_("USE/REFERENCE need several schemas; exppp writes one file per schema"),
    "interface_specification_list": X_("USE/REFERENCE"), "interval": X_("desugared by the parser before exppp sees it"),
    "inverse_attr": "entity:inverse", "inverse_attr_list": "entity:inverse", "inverse_clause": "entity:inverse",
    "labelled_attrib_list": "entity:unique", "labelled_attrib_list_list": "entity:unique", "list_type": "type:LIST", "literal": "lit:int",
    "local_body": "algo:local", "local_decl": "algo:local", "local_decl_rules_off": "algo:local", "local_decl_rules_on": "algo:local",
    "local_initializer": "algo:local-init", "local_variable": "algo:local", "nested_id_list": X_("part of USE/REFERENCE rename lists"),
    "oneof_op": "supertype:oneof", "optional": "entity:optional", "optional_fixed": "type:fixed", "optional_or_unique": "type:unique",
    "parameter_type": "param:group", "parened_rename_list": X_("USE/REFERENCE"), "ph_get_line": "decl:procedure", "ph_push_scope": "decl:procedure",
    "precision_spec": "type:precision", "proc_call_statement": "stmt:procedure-call", "procedure_decl": "decl:procedure", "procedure_header": "decl:procedure",
    "procedure_id": "stmt:procedure-call", "qualified_attr": "entity:unique", "qualified_attr_list": "entity:unique", "qualifier": "op:index",
    "query_expression": "query", "query_start": "query", "reference_clause": X_("USE/REFERENCE"), "reference_head": X_("USE/REFERENCE"),
    "rel_op": X_("only inside interval"), "rename": X_("USE/REFERENCE"), "rename_list": X_("USE/REFERENCE"), "repeat_statement": "stmt:repeat",
    "return_statement": "stmt:return", "rh_get_line": "decl:rule", "rh_start": "decl:rule", "right_curl": X_("only inside interval"),
    "rule_decl": "decl:rule", "rule_formal_parameter": "decl:rule", "rule_formal_parameter_list": "decl:rule", "rule_header": "decl:rule",
    "schema_body": "decl:schema", "schema_decl": "decl:schema", "schema_decl_list": "decl:schema", "schema_header": "decl:schema",
    "select_type": "type:select", "semicolon": "decl:schema", "set_or_bag_of_entity": "entity:inverse", "set_type": "type:SET",
    "simple_expression": "op:plus", "skip_statement": "stmt:skip", "statement": "stmt:assignment", "statement_rep": "stmt:assignment",
    "subsuper_decl": "entity:subtype", "subtype_decl": "entity:subtype", "supertype_decl": "entity:supertype", "supertype_expression": "supertype:and",
    "supertype_expression_list": "supertype:oneof", "supertype_factor": "supertype:oneof", "td_start": "decl:type", "ti_start": "decl:type",
    "type": "decl:type", "type_decl": "decl:type", "type_item": "decl:type", "type_item_body": "decl:type", "unary_expression": "op:negate",
    "unique": "type:unique", "unique_clause": "entity:unique", "until_control": "stmt:repeat-until", "use_clause": X_("USE/REFERENCE"),
    "use_head": X_("USE/REFERENCE"), "var": "param:var", "where_clause": "where:labelled", "where_clause_list": "where:labelled",
    "where_rule": "where:labelled", "where_rule_OPT": "where:unlabelled", "while_control": "stmt:repeat-while",
}


# ------------------------------------------------------------------ correspondence with the Lean declaration-syntax model
from tools.c07_exp import hx


def enc_ty(t):
    """type AST -> request words of the Lean driver (`ty` / `args`)"""
    k = t[0]
    if k == "named": return "N " + hx(t[1])
    if k == "simple": return f"S {t[1]} {1 if t[2] is not None else 0} {1 if t[3] else 0}"
    if k == "aggr": return f"A {t[1]} {1 if t[2] is not None else 0} {1 if t[3] else 0} {1 if t[4] else 0} " + enc_ty(t[5])
    if k == "generic": return "G " + (hx(t[1]) if t[1] else "-")
    if k == "aggregate": return "GA " + (hx(t[1]) if t[1] else "-") + " " + enc_ty(t[2])
    raise DeclError(f"type {t} has no Lean form")


def collapse(toks):
    """raw tokens of a type / parameter list -> the driver's token text: expressions (precision, bounds) become `E`"""
    out, i = [], 0
    def match(j, op, cl):
        d = 0
        while True:
            if toks[j] == S(op): d += 1
            elif toks[j] == S(cl):
                d -= 1
                if d == 0: return j
            j += 1
    while i < len(toks):
        t = toks[i]
        if t[0] == "skw" and t[1] in SIMPLE and i + 1 < len(toks) and toks[i + 1] == S("("):
            j = match(i + 1, "(", ")")
            out += ["k:" + t[1], "s:(", "E", "s:)"]; i = j + 1; continue
        if t == S("["):
            j = match(i, "[", "]")
            out += ["s:[", "E", "s::", "E", "s:]"]; i = j + 1; continue
        if t[0] == "skw": out.append("k:" + t[1])
        elif t[0] == "id": out.append("i:" + t[1].lower())
        elif t[0] == "sym": out.append("s:" + t[1])
        else: out.append("?" + str(t))
        i += 1
    return " ".join(out)


def header_slices(toks):
    """{(kind, name): tokens between the parentheses of a FUNCTION/PROCEDURE header} for non-empty parameter lists"""
    out = {}
    for i, t in enumerate(toks):
        if t in (K("FUNCTION"), K("PROCEDURE")) and i + 2 < len(toks) and toks[i + 1][0] == "id" and toks[i + 2] == S("("):
            d, j = 0, i + 2
            while True:
                if toks[j] == S("("): d += 1
                elif toks[j] == S(")"):
                    d -= 1
                    if d == 0: break
                j += 1
            out[(t[1].lower(), toks[i + 1][1].lower())] = toks[i + 3:j]
    return out


def type_slices(toks):
    """{name: tokens of the underlying type of `TYPE name = … ;`} (enumeration / select excluded)"""
    out = {}
    for i, t in enumerate(toks):
        if t == K("TYPE") and toks[i + 2] == ("op", "eq"):
            j = i + 3
            while toks[j] != S(";"): j += 1
            body = toks[i + 3:j]
            if body and body[0] not in (K("ENUMERATION"), K("SELECT")):
                out[toks[i + 1][1].lower()] = body
    return out


def source_params(slice_toks):
    """source header slice -> [(name, VAR, type AST, object id)]: one type object per source group, named types share one"""
    p = P(slice_toks + [S(")")])
    out, named, g = [], {}, 1000
    while True:
        var = p.opt(K("VAR"))
        names = [p.ident()]
        while p.opt(S(",")): names.append(p.ident())
        p.eat(S(":")); ty = p.type_()
        g += 1
        # one Type object per named type and one for the unlabelled GENERIC (`Type_Generic`); every other type
        # written in a header is an object of its own (`TYPEcreate_from_body_anonymously`)
        if ty[0] == "named": obj = named.setdefault(ty[1], len(named))
        elif ty == ("generic", None): obj = named.setdefault("<GENERIC>", len(named))
        else: obj = g
        out += [(n, var, ty, obj) for n in names]
        if not p.opt(S(";")): break
    return out


def local_blocks(toks):
    """{tuple of local names: tokens of one LOCAL … END_LOCAL ; block}"""
    out, i = {}, 0
    while i < len(toks):
        if toks[i] == K("LOCAL"):
            j = i
            while toks[j] != K("END_LOCAL"): j += 1
            p = P(toks[i + 1:j + 1]); names = []
            while not p.at(K("END_LOCAL")):
                ns = [p.ident()]
                while p.opt(S(",")): ns.append(p.ident())
                p.eat(S(":")); p.type_()
                if p.opt(S(":=")): p.expr_until(S(";"))
                p.eat(S(";")); names += ns
            out[tuple(names)] = toks[i:j + 2]
            i = j + 2
        else:
            i += 1
    return out


def collapse_locals(toks):
    """tokens of an exppp LOCAL block -> the driver's token text (initialisers, precision, bounds become `E`)"""
    p = P(toks[1:]); out = ["k:LOCAL"]
    while not p.at(K("END_LOCAL")):
        n = p.ident(); p.eat(S(":"))
        a = p.i; p.type_(); b = p.i
        out += ["i:" + n, "s::", collapse(p.t[a:b])]
        if p.opt(S(":=")):
            p.expr_until(S(";")); out += ["s::=", "E"]
        p.eat(S(";")); out.append("s:;")
    return " ".join(out + ["k:END_LOCAL", "s:;"])


def typedecl_slices(toks):
    """{name: tokens of one TYPE … END_TYPE ; declaration}"""
    out, i = {}, 0
    while i < len(toks):
        if toks[i] == K("TYPE") and i + 1 < len(toks) and toks[i + 1][0] == "id":
            j = i
            while toks[j] != K("END_TYPE"):
                j += 1
            out.setdefault(toks[i + 1][1].lower(), toks[i:j + 2])
            i = j + 2
        else:
            i += 1
    return out


def enc_typedecl(name, d):
    ty = d["type"]
    if ty[0] == "enum": body = f"EN {len(ty[1])} " + " ".join(hx(x) for x in ty[1])
    elif ty[0] == "select": body = f"SL {len(ty[1])} " + " ".join(hx(x) for x in ty[1])
    else: body = "T " + enc_ty(ty)
    return " ".join([hx(name), body, str(len(d["where"]))] + [hx(l) if l else "-" for l, _ in d["where"]])


def collapse_typedecl(toks):
    p = P(toks); out = []
    p.eat(K("TYPE")); out += ["k:TYPE", "i:" + p.ident()]; p.eat(("op", "eq")); out.append("s:=")
    if p.at(K("ENUMERATION")) or p.at(K("SELECT")):
        a = p.i; p.type_()
        for t in p.t[a:p.i]:
            out.append("k:" + t[1] if t[0] == "skw" else "i:" + t[1].lower() if t[0] == "id" else "s:" + t[1])
    else:
        a = p.i; p.type_(); out.append(collapse(p.t[a:p.i]))
    p.eat(S(";")); out.append("s:;")
    if p.opt(K("WHERE")):
        out.append("k:WHERE")
        while not p.at(K("END_TYPE")):
            if p.peek()[0] == "id" and p.peek(1) == S(":"):
                out += ["i:" + p.ident(), "s::"]; p.eat()
            p.expr_until(S(";")); p.eat(S(";")); out += ["E", "s:;"]
    p.eat(K("END_TYPE")); p.eat(S(";")); out += ["k:END_TYPE", "s:;"]
    return " ".join(out)


def const_block(toks):
    """tokens of the first CONSTANT … END_CONSTANT ; block (the schema's own: exppp prints it first), or None"""
    for i, t in enumerate(toks):
        if t in (K("ENTITY"), K("TYPE"), K("FUNCTION"), K("PROCEDURE"), K("RULE")):
            return None
        if t == K("CONSTANT"):
            j = i
            while toks[j] != K("END_CONSTANT"):
                j += 1
            return toks[i:j + 2]
    return None


def collapse_consts(toks):
    """-> (names in printed order, the driver's token text)"""
    p = P(toks); out = ["k:CONSTANT"]; names = []
    p.eat(K("CONSTANT"))
    while not p.at(K("END_CONSTANT")):
        n = p.ident(); names.append(n); p.eat(S(":"))
        a = p.i; p.type_(); out += ["i:" + n, "s::", collapse(p.t[a:p.i])]
        p.eat(S(":=")); p.expr_until(S(";")); p.eat(S(";")); out += ["s::=", "E", "s:;"]
    p.eat(K("END_CONSTANT")); p.eat(S(";")); out += ["k:END_CONSTANT", "s:;"]
    return names, " ".join(out)


def entity_slices(toks):
    """{name: tokens of one ENTITY … END_ENTITY ; declaration}"""
    out, i = {}, 0
    while i < len(toks):
        if toks[i] == K("ENTITY") and i + 1 < len(toks) and toks[i + 1][0] == "id":
            j = i
            while toks[j] != K("END_ENTITY"):
                j += 1
            out[toks[i + 1][1].lower()] = toks[i:j + 2]
            i = j + 2
        else:
            i += 1
    return out


def _enc_attrname(a):
    if a.startswith("self\\"):
        e, at = a[5:].split(".", 1)
        return f"R {hx(e)} {hx(at)}"
    return "P " + hx(a)


def _enc_sup(s):
    k = s[0]
    if k == "ent":
        return "E " + hx(s[1])
    if k == "oneof":
        return f"O {len(s[1])} " + " ".join(_enc_sup(x) for x in s[1])
    if k in ("and", "andor"):
        acc = _enc_sup(s[1][0])
        for x in s[1][1:]:
            acc = f"B {1 if k == 'andor' else 0} {acc} {_enc_sup(x)}"
        return acc
    raise DeclError(f"supertype expression {s} has no Lean form")


def enc_entity(name, e):
    """entity AST (P.entity) -> request words of the Lean driver (`entity`); embedded expressions are not sent (they are `E` tokens)"""
    w = [hx(name), str(int(e["abstract"]))]
    w += ["1", _enc_sup(e["supertype_of"])] if e["supertype_of"] is not None else ["0"]
    w += [str(len(e["subtype_of"]))] + [hx(x) for x in e["subtype_of"]]
    w.append(str(len(e["attrs"])))
    for a, opt, ty in e["attrs"]:
        w += [_enc_attrname(a), str(int(bool(opt))), enc_ty(ty)]
    w.append(str(len(e["derive"])))
    for a, ty, _ in e["derive"]:
        w += [_enc_attrname(a), enc_ty(ty)]
    w.append(str(len(e["inverse"])))
    for a, ty, f in e["inverse"]:
        if ty[0] == "named":
            w += [_enc_attrname(a), "-", "0", hx(ty[1]), hx(f)]
        elif ty[0] == "aggr" and ty[5][0] == "named":
            w += [_enc_attrname(a), ty[1], str(int(ty[2] is not None)), hx(ty[5][1]), hx(f)]
        else:
            raise DeclError(f"inverse attribute type {ty} has no Lean form")
    w.append(str(len(e["unique"])))
    for label, refs in e["unique"]:
        w += [hx(label) if label else "-", str(len(refs))]
    w.append(str(len(e["where"])))
    for label, _ in e["where"]:
        w.append(hx(label) if label else "-")
    return " ".join(w)


def collapse_entity(toks):
    """tokens of an exppp ENTITY declaration -> the driver's token text (initialisers, bounds, precision, UNIQUE references and
    domain rules become `E`)"""
    p = P(toks); out = []
    def raw(t):
        if t[0] == "id": return "i:" + t[1].lower()
        if t[0] == "skw": return "k:" + t[1]
        if t[0] == "sym": return "s:" + t[1]
        if t == ("op", "and"): return "k:AND"
        if t == ("kw", "SELF"): return "k:SELF"
        return "?" + str(t)
    def name():
        if p.at(("kw", "SELF")):
            a = p.i; p.attr_ref(); out.extend(raw(t) for t in p.t[a:p.i])
        else:
            out.append("i:" + p.ident())
    def is_name():
        return p.peek()[0] == "id" or p.at(("kw", "SELF"))
    p.eat(K("ENTITY")); out += ["k:ENTITY", "i:" + p.ident()]
    if p.opt(K("ABSTRACT")): out.append("k:ABSTRACT")
    if p.opt(K("SUPERTYPE")):
        out.append("k:SUPERTYPE")
        if p.opt(K("OF")):
            out.append("k:OF"); a = p.i; p.eat(S("(")); p.super_expr(); p.eat(S(")"))
            out.extend(raw(t) for t in p.t[a:p.i])
    if p.opt(K("SUBTYPE")):
        a = p.i; p.eat(K("OF")); p.eat(S("("))
        p.ident()
        while p.opt(S(",")): p.ident()
        p.eat(S(")"))
        out.append("k:SUBTYPE"); out.extend(raw(t) for t in p.t[a:p.i])
    p.eat(S(";")); out.append("s:;")
    while is_name():
        name(); p.eat(S(":")); out.append("s::")
        if p.opt(K("OPTIONAL")): out.append("k:OPTIONAL")
        a = p.i; p.type_(); out.append(collapse(p.t[a:p.i])); p.eat(S(";")); out.append("s:;")
    if p.opt(K("DERIVE")):
        out.append("k:DERIVE")
        while is_name():
            name(); p.eat(S(":")); out.append("s::")
            a = p.i; p.type_(); out.append(collapse(p.t[a:p.i]))
            p.eat(S(":=")); p.expr_until(S(";")); p.eat(S(";")); out += ["s::=", "E", "s:;"]
    if p.opt(K("INVERSE")):
        out.append("k:INVERSE")
        while is_name():
            name(); p.eat(S(":")); out.append("s::")
            a = p.i; p.type_(); out.append(collapse(p.t[a:p.i]))
            p.eat(K("FOR")); out += ["k:FOR", "i:" + p.ident()]; p.eat(S(";")); out.append("s:;")
    if p.opt(K("UNIQUE")):
        out.append("k:UNIQUE")
        while is_name():
            if p.peek()[0] == "id" and p.peek(1) == S(":"):
                out += ["i:" + p.ident(), "s::"]; p.eat()
            p.attr_ref(); out.append("E")
            while p.opt(S(",")):
                p.attr_ref(); out += ["s:,", "E"]
            p.eat(S(";")); out.append("s:;")
    if p.opt(K("WHERE")):
        out.append("k:WHERE")
        while not p.at(K("END_ENTITY")):
            if p.peek()[0] == "id" and p.peek(1) == S(":"):
                out += ["i:" + p.ident(), "s::"]; p.eat()
            p.expr_until(S(";")); p.eat(S(";")); out += ["E", "s:;"]
    p.eat(K("END_ENTITY")); p.eat(S(";")); out += ["k:END_ENTITY", "s:;"]
    return " ".join(out)


def algorithm_bodies(ast):
    """[((kind, name), statement list)] of every function / procedure / rule of a parsed schema, nested ones too"""
    out = []
    def walk(scope):
        for key, val in scope["decls"].items():
            if key[0] in ("function", "procedure", "rule"):
                out.append((key, val["body"]))
                walk(val)
    walk(ast)
    return out


def enc_stmt(s):
    """statement AST (P.stmt) -> request words of the Lean driver (`stmts`); embedded expressions are not sent"""
    k = s[0]
    if k == "assign": return "AS"
    if k == "call": return f"CL {hx(s[1])} {len(s[2])}"
    if k == "return": return f"RT {int(s[1] is not None)}"
    if k == "skip": return "SK"
    if k == "escape": return "ES"
    if k == "begin": return enc_stmts(s[1], "BG")
    if k == "if": return f"IF {int(bool(s[3]))} " + enc_stmts(s[2]) + " " + enc_stmts(s[3])
    if k == "case":
        w = [f"CS {len(s[2])}"]
        for labels, action in s[2]:
            w += [str(len(labels)), enc_stmt(action)]
        w.append(str(int(s[3] is not None)))
        if s[3] is not None: w.append(enc_stmt(s[3]))
        return " ".join(w)
    if k == "repeat":
        c = s[1]
        return " ".join(["LP", str(int(c["var"] is not None))] + ([hx(c["var"])] if c["var"] is not None else [])
                        + [str(int(c["while"] is not None)), str(int(c["until"] is not None)), enc_stmts(s[2])])
    if k == "alias": return f"AL {hx(s[1])} " + enc_stmts(s[3])
    raise DeclError(f"statement {s} has no Lean form")


def enc_stmts(body, tag=None):
    return " ".join(([tag] if tag else []) + [str(len(body))] + [enc_stmt(x) for x in body])


def collapse_stmts(toks):
    """tokens of a statement list printed by exppp -> the driver's token text (every expression becomes `E`)"""
    END = K("END_OF_SLICE")
    p = P(list(toks) + [END]); out = []
    def stmts(ends):
        while not p.at(*ends):
            stmt()
    def stmt():
        t = p.peek()
        if t == K("IF"):
            p.eat(); p.expr_until(K("THEN")); p.eat(K("THEN")); out.extend(["k:IF", "E", "k:THEN"])
            stmts((K("ELSE"), K("END_IF")))
            if p.opt(K("ELSE")):
                out.append("k:ELSE"); stmts((K("END_IF"),))
            p.eat(K("END_IF")); p.eat(S(";")); out.extend(["k:END_IF", "s:;"]); return
        if t == K("REPEAT"):
            p.eat(); out.append("k:REPEAT")
            if p.peek()[0] == "id" and p.peek(1) == S(":="):
                out.extend(["i:" + p.ident(), "s::="]); p.eat()
                p.expr_until(K("TO")); p.eat(K("TO")); out.extend(["E", "k:TO"])
                p.expr_until(K("BY"), K("WHILE"), K("UNTIL"), S(";")); out.append("E")
                if p.opt(K("BY")):
                    p.expr_until(K("WHILE"), K("UNTIL"), S(";")); out.extend(["k:BY", "E"])
            if p.opt(K("WHILE")):
                p.expr_until(K("UNTIL"), S(";")); out.extend(["k:WHILE", "E"])
            if p.opt(K("UNTIL")):
                p.expr_until(S(";")); out.extend(["k:UNTIL", "E"])
            p.eat(S(";")); out.append("s:;")
            stmts((K("END_REPEAT"),)); p.eat(K("END_REPEAT")); p.eat(S(";")); out.extend(["k:END_REPEAT", "s:;"]); return
        if t == K("CASE"):
            p.eat(); p.expr_until(K("OF")); p.eat(K("OF")); out.extend(["k:CASE", "E", "k:OF"])
            while not p.at(K("END_CASE")):
                if p.opt(K("OTHERWISE")):
                    p.eat(S(":")); out.extend(["k:OTHERWISE", "s::"]); stmt(); continue
                p.expr_until(S(","), S(":")); out.append("E")
                while p.opt(S(",")):
                    p.expr_until(S(","), S(":")); out.extend(["s:,", "E"])
                p.eat(S(":")); out.append("s::"); stmt()
            p.eat(K("END_CASE")); p.eat(S(";")); out.extend(["k:END_CASE", "s:;"]); return
        if t == K("BEGIN"):
            p.eat(); out.append("k:BEGIN"); stmts((K("END"),)); p.eat(K("END")); p.eat(S(";")); out.extend(["k:END", "s:;"]); return
        if t == K("ALIAS"):
            p.eat(); out.extend(["k:ALIAS", "i:" + p.ident()]); p.eat(K("FOR")); p.expr_until(S(";")); p.eat(S(";"))
            out.extend(["k:FOR", "E", "s:;"])
            stmts((K("END_ALIAS"),)); p.eat(K("END_ALIAS")); p.eat(S(";")); out.extend(["k:END_ALIAS", "s:;"]); return
        if t == K("RETURN"):
            p.eat(); out.append("k:RETURN")
            if p.opt(S("(")):
                p.expr_until(S(")")); p.eat(S(")")); out.extend(["s:(", "E", "s:)"])
            p.eat(S(";")); out.append("s:;"); return
        if t == K("SKIP") or t == K("ESCAPE"):
            p.eat(); p.eat(S(";")); out.extend(["k:" + t[1], "s:;"]); return
        if t[0] == "id" or t == ("kw", "SELF"):
            j, depth = p.i, 0
            while True:
                u = p.t[j] if j < len(p.t) else ("eof",)
                if u == ("eof",): raise DeclError("statement not terminated")
                if u in (S("("), S("[")): depth += 1
                elif u in (S(")"), S("]")): depth -= 1
                elif depth == 0 and u in (S(":="), S(";")): break
                j += 1
            if p.t[j] == S(":="):
                p.i = j + 1; p.expr_until(S(";")); p.eat(S(";")); out.extend(["E", "s::=", "E", "s:;"]); return
            out.append("i:" + p.ident())
            if p.opt(S("(")):
                out.append("s:(")
                if not p.at(S(")")):
                    p.expr_until(S(","), S(")")); out.append("E")
                    while p.opt(S(",")):
                        p.expr_until(S(","), S(")")); out.extend(["s:,", "E"])
                p.eat(S(")")); out.append("s:)")
            p.eat(S(";")); out.append("s:;"); return
        raise DeclError(f"statement expected, got {t}")
    stmts((END,))
    return " ".join(out)


def enc_schema(src_ast, out_ast, hdr):
    """whole schema -> request words of the Lean driver (`schema`): the declarations of the SOURCE, in the order exppp printed
    them (taken from the parsed output: the order within a scope is an input of the Lean model)"""
    def consts(src_scope, out_scope):
        names = list(out_scope["consts"])
        if sorted(names) != sorted(src_scope["consts"]):
            raise DeclError(f"constants {sorted(src_scope['consts'])} -> {sorted(names)}")
        return " ".join([str(len(names))] + [f"{hx(n)} {enc_ty(src_scope['consts'][n][0])}" for n in names])
    def locals_(src_scope):
        ls = src_scope["locals"]
        return " ".join([str(len(ls))] + [f"{hx(n)} {1 if init is not None else 0} {enc_ty(t)}" for n, t, init in ls])
    def decls(src_scope, out_scope):
        keys = list(out_scope["decls"])
        if sorted(keys) != sorted(src_scope["decls"]):
            raise DeclError(f"declarations {sorted(src_scope['decls'])} -> {sorted(keys)}")
        w = [str(len(keys))]
        for k in keys:
            d, o = src_scope["decls"][k], out_scope["decls"][k]
            if k[0] == "type": w.append("TD " + enc_typedecl(k[1], d))
            elif k[0] == "entity": w.append("EN " + enc_entity(k[1], d))
            elif k[0] in ("function", "procedure"):
                ps = source_params(hdr[k]) if k in hdr else []
                if [(n, bool(v)) for n, v, _, _ in ps] != [(n, bool(v)) for n, v, _ in d["params"]]:
                    raise DeclError(f"{k}: header slice does not belong to this declaration")
                w.append(" ".join(["FN", hx(k[1]), str(len(ps))] + [f"{hx(n)} {int(v)} {ob} {enc_ty(t)}" for n, v, t, ob in ps]
                                  + (["1", enc_ty(d["returns"])] if k[0] == "function" else ["0"])
                                  + [decls(d, o), consts(d, o), locals_(d), enc_stmts(d["body"])]))
            elif k[0] == "rule":
                w.append(" ".join(["RL", hx(k[1]), str(len(d["for"]))] + [hx(x) for x in d["for"]]
                                  + [decls(d, o), consts(d, o), locals_(d), enc_stmts(d["body"]), str(len(d["where"]))]
                                  + [hx(l) if l else "-" for l, _ in d["where"]]))
            else:
                raise DeclError(f"declaration {k} has no Lean form")
        return " ".join(w)
    return " ".join([hx(src_ast["schema"]), consts(src_ast, out_ast), decls(src_ast, out_ast)])


def collapse_schema(toks):
    """the whole token stream exppp wrote for a schema -> the driver's token text (every expression becomes `E`)"""
    p = P(toks); out = []
    def upto(end):
        a = p.i
        while not p.at(end):
            p.eat()
        p.eat(end); p.eat(S(";"))
        return p.t[a:p.i]
    def scope(end_stmts):
        decls()
        if p.at(K("CONSTANT")): out.append(collapse_consts(upto(K("END_CONSTANT")))[1])
        if p.at(K("LOCAL")): out.append(collapse_locals(upto(K("END_LOCAL"))))
        a = p.i; p.stmts(end_stmts); out.append(collapse_stmts(p.t[a:p.i]))
    def decls():
        while True:
            t = p.peek()
            if t == K("TYPE"): out.append(collapse_typedecl(upto(K("END_TYPE"))))
            elif t == K("ENTITY"): out.append(collapse_entity(upto(K("END_ENTITY"))))
            elif t in (K("FUNCTION"), K("PROCEDURE")):
                p.eat(); out.extend(["k:" + t[1], "i:" + p.ident()])
                if p.at(S("(")):
                    d, j = 0, p.i
                    while True:
                        if p.t[j] == S("("): d += 1
                        elif p.t[j] == S(")"):
                            d -= 1
                            if d == 0: break
                        j += 1
                    out.extend(["s:(", collapse(p.t[p.i + 1:j]), "s:)"]); p.i = j + 1
                if t == K("FUNCTION"):
                    p.eat(S(":")); a = p.i; p.type_(); out.extend(["s::", collapse(p.t[a:p.i])])
                p.eat(S(";")); out.append("s:;")
                end = K("END_" + t[1])
                scope((end,))
                p.eat(end); p.eat(S(";")); out.extend(["k:END_" + t[1], "s:;"])
            elif t == K("RULE"):
                p.eat(); out.extend(["k:RULE", "i:" + p.ident()]); p.eat(K("FOR")); p.eat(S("(")); out.extend(["k:FOR", "s:("])
                out.append("i:" + p.ident())
                while p.opt(S(",")): out.extend(["s:,", "i:" + p.ident()])
                p.eat(S(")")); p.eat(S(";")); out.extend(["s:)", "s:;"])
                scope((K("WHERE"), K("END_RULE")))
                if p.opt(K("WHERE")):
                    out.append("k:WHERE")
                    while not p.at(K("END_RULE")):
                        if p.peek()[0] == "id" and p.peek(1) == S(":"):
                            out.extend(["i:" + p.ident(), "s::"]); p.eat()
                        p.expr_until(S(";")); p.eat(S(";")); out.extend(["E", "s:;"])
                p.eat(K("END_RULE")); p.eat(S(";")); out.extend(["k:END_RULE", "s:;"])
            else:
                return
    p.eat(K("SCHEMA")); out.extend(["k:SCHEMA", "i:" + p.ident()]); p.eat(S(";")); out.append("s:;")
    if p.at(K("CONSTANT")): out.append(collapse_consts(upto(K("END_CONSTANT")))[1])
    decls()
    p.eat(K("END_SCHEMA")); p.eat(S(";")); out.extend(["k:END_SCHEMA", "s:;"])
    return " ".join(x for x in out if x)


def scopes_with_locals(ast):
    """every algorithm scope of a parsed schema (nested ones too) that has locals: list of [(name, type, init)]"""
    out = []
    def walk(scope):
        for key, d in scope["decls"].items():
            if key[0] in ("function", "procedure", "rule"):
                if d["locals"]:
                    out.append(d["locals"])
                walk(d)
    walk(ast)
    return out

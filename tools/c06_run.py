"""C06: run the sanitizer-built EXPRESS tools on one input and classify what happened.

outcome classes (the property's observable):
  accept     exit status 0
  reject     small positive exit status (1..63) AND a diagnostic on stderr/stdout
  sanitizer  AddressSanitizer / UndefinedBehaviorSanitizer report            -> property violated
  signal     process died on a signal (SIGSEGV/SIGABRT/...; the tools route these to abort())  -> violated
  timeout    did not stop within the per-process budget                      -> violated
  badexit    non-small exit status, or a positive status without any diagnostic  -> violated
  badoutput  a generated file contains a NUL byte although the input has none (bytes from outside a string) -> violated
"""
import os, re, shutil, signal, subprocess, tempfile, time
from concurrent.futures import ThreadPoolExecutor

TOOLS = ["check-express", "exppp", "exp2cxx", "exp2python"]
BAD = ("sanitizer", "signal", "timeout", "badexit", "badoutput")
SMALL_MAX = 63
SAN_ASAN, SAN_UBSAN = 99, 98


def tool_env(b):
    e = b.env()
    # handle_*=2: the tools install their own SIGSEGV/SIGBUS/SIGABRT handler (ERRORinitialize) which, once an ERROR has been
    # reported, longjmps out of the resolver and ends the run with status 1 (express.c: ERRORsafe/ERRORunsafe) — a crash
    # after the first diagnostic would look like an ordinary rejection.  With 2 ASan keeps its handlers, the program's
    # signal() calls have no effect, and a wild access or an abort() is reported with a stack.
    e["ASAN_OPTIONS"] = (f"detect_leaks=0:abort_on_error=0:exitcode={SAN_ASAN}:detect_stack_use_after_return=0:allocator_may_return_null=1"
                         ":handle_segv=2:handle_sigbus=2:handle_abort=2:handle_sigill=2:handle_sigfpe=2")
    e["UBSAN_OPTIONS"] = f"print_stacktrace=1:halt_on_error=1:exitcode={SAN_UBSAN}"
    e["LC_ALL"] = "C"
    return e


_FRAME = re.compile(r"#\d+ 0x[0-9a-f]+ in (\S+) (\S+)")


def _signature(err):
    """stable key of a sanitizer report: kind + first frames inside stepcode sources (function names, no addresses)"""
    kind = "report"
    m = re.search(r"ERROR: AddressSanitizer: ([a-zA-Z0-9_-]+)", err)
    if m:
        kind = m.group(1)
    else:
        m = re.search(r"runtime error: ([^\n]*)", err)
        if m:
            kind = "ubsan:" + re.sub(r"0x[0-9a-f]+|\d+", "N", m.group(1))[:60].strip().replace(" ", "_")
    frames = []
    for fn, loc in _FRAME.findall(err):
        if "/src/src/" in loc or "/bld/" in loc or "expparse" in loc or "expscan" in loc:
            if fn not in frames:
                frames.append(fn)
        if len(frames) >= 2:
            break
    obj = ""
    m = re.search(r"(?:global variable|in frame|\[\d+, \d+\)) '([A-Za-z_0-9]+)'(?: \(line \d+\))?(?: <== Memory access| defined in)", err)
    if m:
        obj = ":" + m.group(1)
    return f"{kind}{obj}@{'<'.join(frames) if frames else '?'}"


def gdb_signature(b, tool, path, args, cwd, timeout=60, no_input=False):
    """top stepcode frames of a fatal signal (the tools install their own SIGSEGV handler, so ASan prints nothing)"""
    if not shutil.which("gdb"):
        return "?"
    try:
        r = subprocess.run(["gdb", "-batch", "-ex", "run", "-ex", "bt 8", "--args", b.tool(tool)] + list(args) + ([] if no_input else [path]),
                           cwd=cwd, env=tool_env(b), capture_output=True, text=True, timeout=timeout,
                           stdin=subprocess.DEVNULL)
    except subprocess.TimeoutExpired:
        return "?"
    out = r.stdout + r.stderr
    sig = re.search(r"received signal (SIG[A-Z]+)", out)
    frames = []
    for m in re.finditer(r"^#\d+\s+(?:0x[0-9a-f]+ in )?(\S+) \(.*?\) at (\S+)", out, re.M):
        if "/src/src/" in m.group(2) or "expparse" in m.group(2) or "expscan" in m.group(2):
            if m.group(1) not in frames:
                frames.append(m.group(1))
        if len(frames) >= 2:
            break
    return f"{sig.group(1) if sig else 'SIG?'}@{'<'.join(frames) if frames else '?'}"


def run_tool(b, tool, data, workroot, timeout=20, args=(), keep=False, want_sig=True, scan_output=True, env_extra=None, no_input=False,
             obstacles=()):
    """run one tool on `data` (bytes) in a fresh directory; returns a dict"""
    d = tempfile.mkdtemp(prefix="r-", dir=workroot)
    path = os.path.join(d, "in.exp")
    out_d = os.path.join(d, "out")
    os.mkdir(out_d)
    if isinstance(data, dict):          # several files: "in.exp" is the input, the others are found relative to the cwd
        for name, content in data.items():
            with open(path if name == "in.exp" else os.path.join(out_d, name), "wb") as fh:
                fh.write(content)
    else:
        with open(path, "wb") as fh:
            fh.write(data)
    # things that are in the way in the output directory before the tool starts: ("dir", name) / ("file", name)
    for kind, name in obstacles:
        pth = os.path.join(out_d, name)
        os.makedirs(os.path.dirname(pth), exist_ok=True)
        if kind == "dir":
            os.makedirs(pth, exist_ok=True)
        else:
            open(pth, "w").close()
    t0 = time.time()
    env = tool_env(b)
    if env_extra:
        env.update(env_extra)
    try:
        p = subprocess.Popen([b.tool(tool)] + [path if a == "{in}" else a for a in args] + ([] if no_input else [path]), cwd=out_d, env=env, stdin=subprocess.DEVNULL,
                             stdout=subprocess.PIPE, stderr=subprocess.PIPE, start_new_session=True)
        try:
            so, se = p.communicate(timeout=timeout)
            rc = p.returncode
            timed_out = False
        except subprocess.TimeoutExpired:
            try:
                os.killpg(p.pid, signal.SIGKILL)
            except OSError:
                pass
            so, se = p.communicate()
            rc, timed_out = None, True
    except OSError as ex:
        shutil.rmtree(d, ignore_errors=True)
        return {"tool": tool, "cls": "badexit", "rc": None, "sig": f"cannot run: {ex}", "err": "", "wall": 0.0}
    wall = time.time() - t0
    err = se.decode("latin-1")
    outt = so.decode("latin-1")
    res = {"tool": tool, "rc": rc, "wall": round(wall, 2), "err": err[-1500:], "args": list(args), "stderr_full": err if len(err) <= 200000 else None,
           "stdout_head": outt[:400]}
    if timed_out:
        res.update(cls="timeout", sig=f"timeout>{timeout}s")
    elif "ERROR: AddressSanitizer" in err or "runtime error:" in err or rc in (SAN_ASAN, SAN_UBSAN):
        res.update(cls="sanitizer", sig=_signature(err), err=err[:3000])
    elif rc < 0 or rc >= 128:
        s = -rc if rc < 0 else rc - 128
        name = signal.Signals(s).name if s in [x.value for x in signal.Signals] else str(s)
        sg = gdb_signature(b, tool, path, [path if a == "{in}" else a for a in args], out_d, no_input=no_input) if want_sig else "?"
        res.update(cls="signal", sig=f"{name}:{sg}")
    elif rc == 0:
        m = re.search(r"^.*\b(internal error|error)\b.*$", err, re.I | re.M)
        if m:
            # exit-status discipline for the messages the tools print themselves: an error message and the success status
            line = re.sub(r"\S*/", "", m.group(0))
            res.update(cls="badexit", sig="status 0 after an error message: " + re.sub(r"\d+", "N", line)[:90])
        else:
            res.update(cls="accept", sig="")
    elif 1 <= rc <= SMALL_MAX:
        if err.strip() or outt.strip():
            res.update(cls="reject", sig="")
        else:
            res.update(cls="badexit", sig=f"status {rc} without any diagnostic")
    else:
        res.update(cls="badexit", sig=f"status {rc}")
    if res["cls"] in ("accept", "reject") and scan_output:
        raw = b"".join(data.values()) if isinstance(data, dict) else data
        if len(raw) <= 300000 and b"\0" not in raw:
            hit = _nul_in_outputs(out_d)
            if hit:
                res.update(cls="badoutput", sig=f"NUL byte in generated *{os.path.splitext(hit)[1] or hit}")
    res["diag"] = _first_diag(err)
    if not keep:
        shutil.rmtree(d, ignore_errors=True)
    else:
        res["dir"] = d
    return res


def _nul_in_outputs(out_d, limit=64 << 20):
    """name of the first generated file that contains a NUL byte"""
    seen = 0
    for root, ds, fs in os.walk(out_d):
        for f in sorted(fs):
            p = os.path.join(root, f)
            try:
                with open(p, "rb") as fh:
                    blob = fh.read()
            except OSError:
                continue
            seen += len(blob)
            if b"\0" in blob:
                return f
            if seen > limit:
                return None
    return None


def _first_diag(err):
    for line in err.split("\n"):
        if "ERROR" in line or "rror" in line or "WARNING" in line:
            return line[:200]
    return err.strip().split("\n")[0][:200] if err.strip() else ""


def run_matrix(b, jobs, workroot, workers=16):
    """jobs: list of (tag, tool, data, timeout, args) -> list of (tag, result) in order"""
    def one(j):
        tag, tool, data, timeout, args = j
        return tag, run_tool(b, tool, data, workroot, timeout=timeout, args=args)
    with ThreadPoolExecutor(max_workers=workers) as ex:
        return list(ex.map(one, jobs))


def run_valgrind(b, tool, data, workroot, timeout=300, args=()):
    """one run of the plain (uninstrumented) build under valgrind memcheck: uninitialised reads, which ASan does not see.
    Returns {tool, rc, cls, sig, err}: cls = "valgrind" when memcheck reported, else accept / reject / signal / timeout."""
    d = tempfile.mkdtemp(prefix="v-", dir=workroot)
    path = os.path.join(d, "in.exp")
    out_d = os.path.join(d, "out")
    os.mkdir(out_d)
    with open(path, "wb") as fh:
        fh.write(data)
    env = b.env()
    env["LC_ALL"] = "C"
    cmd = ["valgrind", "-q", "--error-exitcode=97", "--track-origins=yes", "--num-callers=12", b.tool(tool)] + list(args) + [path]
    t0 = time.time()
    try:
        p = subprocess.run(cmd, cwd=out_d, env=env, stdin=subprocess.DEVNULL, stdout=subprocess.DEVNULL, stderr=subprocess.PIPE, timeout=timeout)
        rc, err = p.returncode, p.stderr.decode("latin-1")
    except subprocess.TimeoutExpired:
        rc, err = None, ""
    shutil.rmtree(d, ignore_errors=True)
    res = {"tool": tool, "rc": rc, "wall": round(time.time() - t0, 2), "err": err[-3000:], "args": list(args), "diag": ""}
    rep = [l for l in err.split("\n") if l.startswith("==")]
    if rc is None:
        res.update(cls="timeout", sig=f"valgrind timeout>{timeout}s")
    elif rc == 97 or rep:
        kind = next((re.sub(r"^==\d+== ", "", l) for l in rep if not l.strip().endswith("==")), "report")
        frames = []
        for l in rep:
            m = re.search(r"(?:at|by) 0x[0-9A-F]+: (\S+) \((\S+?):\d+\)", l)
            if m and not m.group(2).startswith(("vg_", "malloc", "str", "mem")) and m.group(1) not in frames:
                frames.append(m.group(1))
            if len(frames) >= 2:
                break
        res.update(cls="valgrind", sig="valgrind:" + re.sub(r"\s+", "_", re.sub(r"\d+", "N", kind))[:60] + "@" + "<".join(frames), err="\n".join(rep[:40]))
    elif rc < 0 or rc >= 128:
        res.update(cls="signal", sig=f"signal under valgrind rc={rc}")
    else:
        res.update(cls="accept" if rc == 0 else "reject", sig="")
    return res


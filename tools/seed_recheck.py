#!/usr/bin/env python3
"""Re-run the owning check against every stored seed (seeded/<ID>-xN/patch.diff applied to a scratch worktree of /repo HEAD)
and record the outcome in meta.json under 'recheck' (date, /repo commit, /verif commit, exit, first lines).
  tools/seed_recheck.py [ID-prefix ...]"""
import glob, json, os, subprocess, sys, time
V = os.path.dirname(os.path.dirname(os.path.abspath(__file__)))
def sh(c, **k): r = subprocess.run(c, capture_output=True, text=True, **k); return r.returncode, r.stdout + r.stderr
only = sys.argv[1:]
head = sh(["git", "-C", "/repo", "rev-parse", "--short", "HEAD"])[1].strip()
vhead = sh(["git", "-C", V, "rev-parse", "--short", "HEAD"])[1].strip()
for d in sorted(glob.glob(os.path.join(V, "seeded", "C*"))):
    name = os.path.basename(d); pid = name.split("-")[0]
    if only and not any(name.startswith(o) for o in only): continue
    wt = f"/var/tmp/seedre-{name}"
    sh(["git", "-C", "/repo", "worktree", "remove", "--force", wt]); sh(["rm", "-rf", wt])
    rc, out = sh(["git", "-C", "/repo", "worktree", "add", "--detach", wt, "HEAD"])
    res = {"repo_commit": head, "verif_commit": vhead, "at": time.strftime("%Y-%m-%dT%H:%MZ", time.gmtime())}
    rc, out = sh(["git", "apply", os.path.join(d, "patch.diff")], cwd=wt)
    if rc != 0:
        rc, out = sh(["git", "apply", "-3", os.path.join(d, "patch.diff")], cwd=wt)
    if rc != 0:
        # a hand-rebased copy of the same change (stored next to the original when later repairs moved the context)
        for alt in sorted(glob.glob(os.path.join(d, "patch-rebased*.diff")), reverse=True):
            sh(["git", "reset", "--hard", "-q", "HEAD"], cwd=wt)
            rc, out2 = sh(["git", "apply", alt], cwd=wt)
            if rc == 0:
                res["used"] = os.path.basename(alt); break
    if rc != 0:
        res["status"] = "patch-no-longer-applies-to-HEAD"; res["detail"] = out[-300:]
    else:
        t = time.time()
        try:
            rc, out = sh([os.path.join(V, "check"), pid, "--tier", "quick"], cwd=V, env=dict(os.environ, VERIF_REPO=wt), timeout=1800)
        except subprocess.TimeoutExpired:
            rc, out = 124, "TIMEOUT after 1800 s"
        lines = [l for l in out.split("\n") if l.startswith("VIOLATION") or l.startswith("  what:") or l.startswith("  no longer")][:4]
        res.update(exit=rc, wall_s=round(time.time() - t), lines=lines,
                   status="missed" if rc == 0 else ("caught-no-failing-input" if lines and all("no-failing-input-found" in l for l in lines if l.startswith("VIOLATION")) else "caught-with-replay"))
    sh(["git", "-C", "/repo", "worktree", "remove", "--force", wt]); sh(["git", "-C", "/repo", "worktree", "prune"])
    mp = os.path.join(d, "meta.json")
    m = json.load(open(mp)) if os.path.exists(mp) else {}
    m["recheck"] = res
    json.dump(m, open(mp, "w"), indent=1)
    print(name, res.get("status"), res.get("wall_s"), (res.get("lines") or [""])[-1][:140], flush=True)

#!/usr/bin/env python3
"""Run /verif the way the harness will: validate MANIFEST.json, run setup_cmd, then every check's quick_cmd once with its
evidence file removed first; a check is OK when it exits 0, prints no VIOLATION line and rewrites a schema-valid
evidence file whose level equals the manifest's level_claimed.category.   tools/selfcheck.py [--no-setup] [ID ...]"""
import json, os, subprocess, sys, time
V = os.path.dirname(os.path.dirname(os.path.abspath(__file__)))
os.chdir(V)
try:
    import jsonschema
except ImportError:
    jsonschema = None
m = json.load(open("MANIFEST.json"))
if jsonschema:
    jsonschema.validate(m, json.load(open("/root/.vp/MANIFEST.schema.json")))
    ev_schema = json.load(open("/root/.vp/EVIDENCE.schema.json"))
ids = [a for a in sys.argv[1:] if not a.startswith("--")]
if "--no-setup" not in sys.argv:
    t = time.time(); r = subprocess.run(m["setup_cmd"], shell=True, capture_output=True, text=True)
    print(f"setup rc={r.returncode} {time.time()-t:.0f}s :: {r.stdout.strip().splitlines()[-1] if r.stdout.strip() else ''}")
props = [json.loads(l)["id"] for l in open("properties.jsonl")]
claimed = {c["property_id"] for c in m["checks"]}; na = {n["property_id"] for n in m.get("not_applicable", [])}
assert claimed | na == set(props) and not (claimed & na), "every property must be claimed or listed not_applicable"
bad = 0
for c in m["checks"]:
    pid = c["property_id"]
    if ids and pid not in ids: continue
    ev = c["evidence_file"]
    if os.path.exists(ev): os.remove(ev)
    t = time.time(); r = subprocess.run(c["quick_cmd"], shell=True, capture_output=True, text=True); w = time.time() - t
    problems = []
    if r.returncode != 0: problems.append(f"exit {r.returncode}")
    if any(l.startswith("VIOLATION") for l in r.stdout.splitlines()): problems.append("VIOLATION line")
    if not os.path.exists(ev): problems.append("evidence not rewritten")
    else:
        e = json.load(open(ev))
        if jsonschema:
            try: jsonschema.validate(e, ev_schema)
            except Exception as x: problems.append("evidence invalid: " + str(x).splitlines()[0][:100])
        if e.get("level") != c["level_claimed"]["category"]: problems.append(f"evidence level {e.get('level')} != claimed {c['level_claimed']['category']}")
        cov = e.get("coverage", {})
        if e.get("level") == "proof" and cov.get("obligations") != cov.get("discharged"): problems.append("obligations != discharged")
    kf = sum(1 for l in r.stdout.splitlines() if l.startswith("KNOWN-FINDING"))
    print(f"{pid} {'OK  ' if not problems else 'FAIL'} {w:5.0f}s known={kf} {'; '.join(problems)}", flush=True)
    bad += bool(problems)
print("selfcheck:", "all ok" if not bad else f"{bad} problem(s)")
sys.exit(1 if bad else 0)

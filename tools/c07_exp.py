"""EXPRESS helpers for property C07: schema/expression generator, lexer, declaration splitter, driver encoding."""
import re, binascii

REL = ["lt", "gt", "eq", "le", "ge", "ne", "ieq", "ine", "in", "like"]
EXPR_OPS = ["and", "or", "xor"] + REL                      # created by `expression` rules
SIMPLE_OPS = ["concat", "exp", "times", "div", "rdiv", "mod", "plus", "minus"]
OP_TEXT = {"and": "AND", "or": "OR", "xor": "XOR", "lt": "<", "gt": ">", "eq": "=", "le": "<=", "ge": ">=", "ne": "<>",
           "ieq": ":=:", "ine": ":<>:", "in": "IN", "like": "LIKE", "concat": "||", "exp": "**", "times": "*",
           "div": "DIV", "rdiv": "/", "mod": "MOD", "plus": "+", "minus": "-"}
TEXT_OP = {v: k for k, v in OP_TEXT.items()}
LIT_KW = ["TRUE", "FALSE", "UNKNOWN", "PI", "CONST_E", "SELF", "QUERY"]   # lexact.c: the constant e is spelt CONST_E
STRUCT_KW = {"SCHEMA", "END_SCHEMA", "ENTITY", "END_ENTITY", "TYPE", "END_TYPE", "CONSTANT", "END_CONSTANT", "DERIVE",
             "WHERE", "OF", "OPTIONAL", "UNIQUE", "INTEGER", "REAL", "STRING", "BINARY", "BOOLEAN", "LOGICAL", "NUMBER",
             "LIST", "SET", "BAG", "ARRAY", "NOT", "SUBTYPE", "SUPERTYPE", "ABSTRACT", "INVERSE", "FOR", "FUNCTION",
             "END_FUNCTION", "RULE", "END_RULE", "PROCEDURE", "END_PROCEDURE", "LOCAL", "END_LOCAL", "RETURN", "IF", "THEN",
             "ELSE", "END_IF", "REPEAT", "END_REPEAT", "USE", "REFERENCE", "FROM", "ENUMERATION", "SELECT", "GENERIC",
             "AGGREGATE", "ONEOF", "ANDOR", "FIXED", "BEGIN", "END", "CASE", "END_CASE", "OTHERWISE", "ALIAS", "END_ALIAS",
             "SKIP", "ESCAPE", "TO", "BY", "WHILE", "UNTIL", "VAR", "AS", "RENAMED"}

TOKEN_RE = re.compile(r"""
    (?P<ws>\s+)
  | (?P<rem>\(\*.*?\*\))
  | (?P<tail>--[^\n]*)
  | (?P<str>'(?:[^'\n]|'')*')
  | (?P<estr>"[^"\n]*")
  | (?P<bin>%[01]+)
  | (?P<real>\d+\.\d*(?:[eE][+-]?\d+)?)
  | (?P<int>\d+)
  | (?P<word>[A-Za-z][A-Za-z0-9_]*)
  | (?P<sym>:=:|:<>:|<=|>=|<>|<\*|:=|\*\*|\|\||[-=<>+*/()\[\],:;.\\|?{}])
""", re.X | re.S)


class LexError(Exception):
    pass


def real_key(text):
    """the value of a real literal as the string printf("%#.15g") gives (what exppp starts from)"""
    return "%#.15g" % float(text)


def lex(text, spans=None):
    """tokens: ('id',name) ('int',n) ('real',key) ('str',raw) ('estr',s) ('bin',s) ('kw',K) ('op',name) ('sym',s) ('skw',K);
    with `spans` (a list) the (start, end) offsets of the tokens are appended to it"""
    out, i = [], 0
    while i < len(text):
        m = TOKEN_RE.match(text, i)
        if not m:
            raise LexError(f"cannot lex at {text[i:i+30]!r}")
        i = m.end()
        k = m.lastgroup
        v = m.group(k)
        if k in ("ws", "rem", "tail"):
            continue
        if spans is not None:
            spans.append((m.start(), m.end()))
        if k == "str":
            out.append(("str", v[1:-1]))
        elif k == "estr":
            out.append(("estr", v[1:-1]))
        elif k == "bin":
            out.append(("bin", v[1:]))
        elif k == "real":
            out.append(("real", real_key(v), v))      # (kind, the double as printf("%#.15g") shows it, source spelling)
        elif k == "int":
            out.append(("int", int(v)))
        elif k == "word":
            u = v.upper()
            if u in ("AND", "OR", "XOR", "IN", "LIKE", "DIV", "MOD"):
                out.append(("op", TEXT_OP[u]))
            elif u == "NOT":
                out.append(("not",))
            elif u in LIT_KW:
                out.append(("kw", u))
            elif u in STRUCT_KW:
                out.append(("skw", u))
            else:
                out.append(("id", v))
        else:
            if v in TEXT_OP:
                out.append(("op", TEXT_OP[v]))
            elif v == "?":
                out.append(("kw", "?"))
            else:
                out.append(("sym", v))
    return out


def hx(s):
    return binascii.hexlify(s.encode("latin-1")).decode()


def word(t):
    """driver word of an expression token (None if the token cannot occur in an expression)"""
    k = t[0]
    if k == "id": return "d" + hx(t[1])
    if k == "int": return "i%d" % t[1]
    if k == "real": return "r" + hx(t[1])
    if k == "str": return "s" + hx(t[1])
    if k == "estr": return "e" + hx(t[1])
    if k == "bin": return "b" + hx(t[1])
    if k == "kw": return "k" + hx(t[1])
    if k == "op": return "o" + t[1]
    if k == "not": return "not"
    if k == "sym" and t[1] in ("(", ")", "[", "]", ",", ":", ".", "\\", "|", "<*"):
        return t[1]
    return None


# ------------------------------------------------------------------ numeric literal values
from decimal import Decimal, getcontext
getcontext().prec = 60
DBL_MIN = Decimal("2.225073858507205E-308")        # below this the 15-digit spelling exppp prints is below DBL_MIN (2.2250738585072014E-308)
DBL_MAX_15 = Decimal("1.797693134862315E308")      # from here on the 15-digit spelling exppp prints is above DBL_MAX
INT_MAX = 2147483647


def literal_class(t):
    """None for a numeric literal the tools can represent, else the class of the finding (classified from the INPUT)"""
    if t[0] == "int":
        return "integer-literal:above-INT_MAX" if t[1] > INT_MAX else None
    if t[0] == "real":
        v = abs(Decimal(t[2]))
        if v != 0 and v < DBL_MIN:
            return "real-literal:below-DBL_MIN"
        if v >= DBL_MAX_15:
            return "real-literal:above-DBL_MAX"
    return None


def numeric_diff(a, b):
    """source tokens a, output tokens b: the numeric literals, in order, must keep kind and value (reals: <= 1 unit of the
    15th significant digit; zero only for zero).  Returns (message or None, b with the reals that are equal by value
    respelled like the source so that the structural comparison sees them equal)."""
    na = [i for i, t in enumerate(a) if t[0] in ("int", "real")]
    nb = [i for i, t in enumerate(b) if t[0] in ("int", "real")]
    if len(na) != len(nb):
        return None, b
    b2 = list(b)
    for i, j in zip(na, nb):
        x, y = a[i], b[j]
        if x[0] != y[0]:
            return f"{'REAL' if x[0] == 'real' else 'INTEGER'} literal `{tok_text(x)}` was printed as the {'REAL' if y[0] == 'real' else 'INTEGER'} literal `{tok_text(y)}`", b
        if x[0] == "int":
            if x[1] != y[1]:
                return f"INTEGER literal `{x[1]}` was printed as `{y[1]}`", b
            continue
        try:
            dx, dy = Decimal(x[2]), Decimal(y[2])
        except Exception:
            return f"REAL literal `{x[2]}` was printed as `{y[2]}`", b
        if dx == dy or (dx != 0 and dy != 0 and abs(dx - dy) <= Decimal(1).scaleb(dx.adjusted() - 14)):
            b2[j] = x
        else:
            return f"REAL literal `{x[2]}` was printed as `{y[2]}` (value changed" + (": a non-zero literal became zero" if dy == 0 else "") + ")", b
    return None, b2


def real_grid(full, rng):
    """REAL literal spellings: mantissa digit counts x decimal exponents x notations"""
    exps = [-400, -320, -300, -45, -39, -38, -37, -1, 0, 1, 15, 16, 17, 37, 38, 39, 300, 308, 309, 400]
    counts = list(range(1, 18)) if full else [1, 2, 7, 15, 16, 17]
    out = []
    k = 0
    for e in exps:
        for n in counts:
            digits = "".join(rng.choice("123456789") for _ in range(n))
            if e in (308, -38) and rng.random() < 0.5:
                digits = "1" + digits[1:]           # both sides of DBL_MAX / FLT_MIN
            k += 1
            form = k % 4
            mant = digits[0] + "." + digits[1:]
            if form == 0: out.append(f"{mant}E{e}")
            elif form == 1: out.append(f"{mant}e{'+' if e >= 0 else ''}{e}" if len(digits) > 1 else f"{digits}.E{e}")
            elif form == 2 and -8 <= e <= 40:
                if e >= 0:
                    ip = digits[:e + 1].ljust(e + 1, "0"); fp = digits[e + 1:]
                    out.append(ip + "." + fp)
                else:
                    out.append("0." + "0" * (-e - 1) + digits)
            else: out.append(f"{digits}.0E{e - (len(digits) - 1)}" if len(digits) > 1 else f"{digits}.0E{e}")
    out += ["1.", "1.0", "1.E5", "0.5", "100.", "1.17549435E-38", "1.17549436E-38", "2.2250738585072014E-308", "1.7976931348623157E308", "1.797693134862314E308"]
    return out


def int_grid(rng):
    out = ["0", "1", "9", "2147483647", "2147483648", "4294967296", "9223372036854775807", "9223372036854775808"]
    for n in (2, 5, 9, 10, 11, 15, 19, 20, 25):
        out.append(rng.choice("123456789") + "".join(rng.choice("0123456789") for _ in range(n - 1)))
    return out


def literal_schema(name, kind, lits):
    L = [f"SCHEMA {name};", "CONSTANT"]
    for i, l in enumerate(lits):
        L.append(f"  k{i} : {kind} := {l};")
    L += ["END_CONSTANT;", "ENTITY e1;", f"  a : {kind};", "WHERE"]
    for i, l in enumerate(lits[:12]):
        L.append(f"  w{i} : a <> {l};")
    L += ["END_ENTITY;", "END_SCHEMA;"]
    return "\n".join(L) + "\n"


def merge_strings(toks):
    """'a' + 'b'  ->  'ab'   (the property allows the splitting of string literals)"""
    out = []
    for t in toks:
        if t[0] == "str" and len(out) >= 2 and out[-1] == ("op", "plus") and out[-2][0] == "str":
            out.pop()
            out[-1] = ("str", out[-1][1] + t[1])
        else:
            out.append(t)
    return out


# ------------------------------------------------------------------ declaration splitter
class DeclError(Exception):
    pass


class Decls:
    """schema name, consts {name:(type toks, expr toks)}, types {name:(type toks, wheres)}, entities {name:(attrs, wheres)}
    attrs: list of (name, optional, type toks, init toks or None); wheres: list of (label or None, expr toks)"""

    def __init__(self, toks):
        self.t, self.i = toks, 0
        self.consts, self.types, self.entities, self.order = {}, {}, {}, []
        self.parse()

    def peek(self, k=0):
        return self.t[self.i + k] if self.i + k < len(self.t) else ("eof",)

    def eat(self, tok=None):
        t = self.peek()
        if tok is not None and t != tok:
            raise DeclError(f"expected {tok}, got {t} at token {self.i}")
        self.i += 1
        return t

    def ident(self):
        t = self.eat()
        if t[0] != "id":
            raise DeclError(f"identifier expected, got {t}")
        return t[1]

    def until(self, stops):
        """tokens up to (not including) the first token in stops at bracket depth 0"""
        out, depth = [], 0
        while True:
            t = self.peek()
            if t == ("eof",):
                raise DeclError("unexpected end")
            if depth == 0 and t in stops:
                return out
            if t in (("sym", "("), ("sym", "["), ("sym", "{")):
                depth += 1
            elif t in (("sym", ")"), ("sym", "]"), ("sym", "}")):
                depth -= 1
            out.append(t); self.i += 1

    def wheres(self):
        ws = []
        if self.peek() != ("skw", "WHERE"):
            return ws
        self.eat()
        while self.peek()[0] != "skw" or self.peek() == ("skw", "NOT"):
            label = None
            if self.peek()[0] == "id" and self.peek(1) == ("sym", ":"):
                label = self.ident(); self.eat()
            ws.append((label, self.until([("sym", ";")]))); self.eat()
        return ws

    def parse(self):
        self.eat(("skw", "SCHEMA")); self.name = self.ident(); self.eat(("sym", ";"))
        while True:
            t = self.eat()
            if t == ("skw", "END_SCHEMA"):
                self.eat(("sym", ";")); break
            if t == ("skw", "CONSTANT"):
                while self.peek() != ("skw", "END_CONSTANT"):
                    nm = self.ident(); self.eat(("sym", ":"))
                    ty = self.until([("sym", ":=")]); self.eat()
                    self.consts[nm] = (ty, self.until([("sym", ";")])); self.eat()
                    self.order.append(("const", nm))
                self.eat(); self.eat(("sym", ";"))
            elif t == ("skw", "TYPE"):
                nm = self.ident(); self.eat(("op", "eq"))
                ty = self.until([("sym", ";")]); self.eat()
                ws = self.wheres()
                self.eat(("skw", "END_TYPE")); self.eat(("sym", ";"))
                self.types[nm] = (ty, ws); self.order.append(("type", nm))
            elif t == ("skw", "ENTITY"):
                nm = self.ident(); self.eat(("sym", ";"))
                attrs = []
                while self.peek()[0] == "id" or self.peek() == ("skw", "DERIVE"):
                    if self.peek() == ("skw", "DERIVE"):
                        self.eat(); continue
                    an = self.ident(); self.eat(("sym", ":"))
                    opt = False
                    if self.peek() == ("skw", "OPTIONAL"):
                        opt = True; self.eat()
                    ty = self.until([("sym", ":="), ("sym", ";")])
                    init = None
                    if self.eat() == ("sym", ":="):
                        init = self.until([("sym", ";")]); self.eat()
                    attrs.append((an, opt, ty, init))
                ws = self.wheres()
                self.eat(("skw", "END_ENTITY")); self.eat(("sym", ";"))
                self.entities[nm] = (attrs, ws); self.order.append(("entity", nm))
            else:
                raise DeclError(f"unexpected {t}")


# ------------------------------------------------------------------ rendering of generator ASTs
def tok_text(t):
    k = t[0]
    if k == "id": return t[1]
    if k == "int": return str(t[1])
    if k == "realsrc": return t[1]
    if k == "real": return t[2] if len(t) > 2 else repr(float(t[1]))
    if k == "str": return "'" + t[1] + "'"
    if k == "estr": return '"' + t[1] + '"'
    if k == "bin": return "%" + t[1]
    if k == "kw": return t[1]
    if k == "op": return OP_TEXT[t[1]]
    if k == "not": return "NOT"
    if k in ("sym", "skw"): return t[1]
    raise ValueError(t)


def src_text(toks):
    return " ".join(tok_text(t) for t in toks)


def S(s):
    return ("sym", s)


def top_is_expr_level(e):
    return e[0] == "op" and e[1] in EXPR_OPS


SPLIT_SAFE_RENDER = [True]


def render(e, rng, p_paren=0.6):
    """source tokens for an expression tree (redundant parentheses at random; without them the parser decides)"""
    k = e[0]
    def sub(c, force=False, simple_only=False):
        t = render(c, rng, p_paren)
        need = c[0] in ("op", "neg", "not")
        if (need and (force or rng.random() < p_paren or (SPLIT_SAFE_RENDER[0] and has_splittable(c)))) or (simple_only and contains_expr_level(c)):
            return [S("(")] + t + [S(")")]
        if not need and rng.random() < 0.04:
            return [S("(")] + t + [S(")")]
        return t
    if k in ("int", "str", "estr", "bin", "kw", "id"):
        return [e]
    if k == "real":
        return [("realsrc", e[1])]
    if k == "op":
        return sub(e[2]) + [("op", e[1])] + sub(e[3])
    if k == "neg":
        return [("op", "minus")] + sub(e[1], force=e[1][0] in ("op", "neg"))
    if k == "not":
        return [("not",)] + sub(e[1], force=e[1][0] == "op")
    if k == "dot":
        return sub(e[1], force=True) + [S("."), ("id", e[2])]
    if k == "grp":
        return sub(e[1], force=True) + [S("\\"), ("id", e[2])]
    if k == "idx":
        return sub(e[1], force=True) + [S("[")] + sub(e[2], simple_only=True) + [S("]")]
    if k == "rng":
        return sub(e[1], force=True) + [S("[")] + sub(e[2], simple_only=True) + [S(":")] + sub(e[3], simple_only=True) + [S("]")]
    if k == "call":
        out = [("id", e[1]), S("(")]
        for j, a in enumerate(e[2]):
            if j: out.append(S(","))
            out += render(a, rng, p_paren)
        return out + [S(")")]
    if k == "aggr":
        out = [S("[")]
        for j, (a, c) in enumerate(e[1]):
            if j: out.append(S(","))
            out += render(a, rng, p_paren)
            if c is not None:
                out += [S(":")] + render(c, rng, p_paren)
        return out + [S("]")]
    if k == "query":
        return [("kw", "QUERY"), S("("), ("id", e[1]), S("<*")] + render(e[2], rng, p_paren) + [S("|")] + render(e[3], rng, p_paren) + [S(")")]
    raise ValueError(e)


def has_splittable(e):
    """a string literal exppp may split sits on the operator spine: keep the parentheses so that it stays where
    keep_split_safe() allowed it"""
    if e[0] == "str":
        return "." in e[1]
    if e[0] == "op":
        return has_splittable(e[2]) or has_splittable(e[3])
    if e[0] in ("neg", "not"):
        return has_splittable(e[1])
    return False


def contains_expr_level(e):
    """an unparenthesised expression-level operator would surface at the top of the rendered text"""
    if e[0] == "op":
        return e[1] in EXPR_OPS or contains_expr_level(e[2]) or contains_expr_level(e[3])
    return False


def to_lex(toks):
    """generator tokens -> the form lex() gives (reals keyed by value)"""
    return [("real", real_key(t[1])) if t[0] == "realsrc" else t for t in toks]


# ------------------------------------------------------------------ random schemas
SIMPLE_TYPES = ["INTEGER", "REAL", "STRING", "BOOLEAN", "LOGICAL", "NUMBER", "BINARY"]
FUNCS = [("ABS", 1), ("SIZEOF", 1), ("EXISTS", 1), ("NVL", 2), ("LENGTH", 1), ("SQRT", 1), ("TYPEOF", 1), ("BLENGTH", 1),
         ("HIINDEX", 1), ("LOINDEX", 1), ("COS", 1), ("FORMAT", 2)]


class Gen:
    def __init__(self, rng, feats=None, split_safe=True):
        self.rng = rng
        self.split_safe = split_safe      # keep splittable string literals out of operand positions that bind tighter than +
        self.simple_index = True          # index operands without relational/logical operators (tree without fixes/C07-8)
        self.n = 0
        self.feats = feats if feats is not None else {}

    def hit(self, f):
        self.feats[f] = self.feats.get(f, 0) + 1

    def name(self, prefix, maxlen=14):
        self.n += 1
        r = self.rng
        body = "".join(r.choice("abcdfghjkmnqrstuvwxyz_0123456789") for _ in range(r.choice([0, 0, 1, 2, 4, 7, maxlen])))
        body = body.strip("_")
        return f"{prefix}{self.n}{body}".replace("__", "_")

    def string(self):
        r = self.rng
        kind = r.random()
        if kind < 0.35:
            s = "".join(r.choice("abc xyz.") for _ in range(r.randint(0, 8)))
        elif kind < 0.5:
            s = "it''s " + "".join(r.choice("ab'.") for _ in range(r.randint(0, 6))).replace("'", "''")
            self.hit("lit:string-with-apostrophe")
        elif kind < 0.62:
            # long, dotted, with apostrophes: the split path of breakLongStr works on the text with doubled apostrophes
            seg = lambda: "".join(r.choice("abcdefgh_") for _ in range(r.randint(1, 14)))
            parts = [seg() + (r.choice(["''s", "''", "n''t_" + seg()]) if r.random() < 0.5 else "") for _ in range(r.randint(2, 9))]
            if not any("''" in q for q in parts):
                parts[-1] += "''z"
            s = ".".join(parts) + r.choice(["", ".", "''", "x"])
            self.hit("lit:long-dotted-string-with-apostrophes")
        elif kind < 0.8:
            s = ".".join("".join(r.choice("abcdefgh_") for _ in range(r.randint(1, 12))) for _ in range(r.randint(2, 9)))
            self.hit("lit:long-dotted-string")
        else:
            s = "".join(r.choice("abcdefgh ") for _ in range(r.randint(20, 90)))
            self.hit("lit:long-string-no-dots")
        return ("str", s)

    def literal(self):
        r = self.rng
        k = r.randrange(12)
        if k == 0: self.hit("lit:int01"); return ("int", r.choice([0, 1]))
        if k == 1: self.hit("lit:int"); return ("int", r.choice([2, 3, 7, 10, 42, 100, 99999, 2147483647]))
        if k == 2:
            self.hit("lit:real")
            return ("real", r.choice(["1.5", "2.0", "0.5", "3.14159", "1.0E10", "1.5E-7", "100.", "12345.6789", "1.0e+20", "2.5e300", "0.001", "7.0"]))
        if k in (3, 4): self.hit("lit:string"); return self.string()
        if k == 5: self.hit("lit:encoded-string"); return ("estr", r.choice(["00000041", "0000004100000042", ""]))
        if k == 6: self.hit("lit:binary"); return ("bin", r.choice(["0", "1", "1010", "11110000"]))
        if k == 7: self.hit("lit:logical"); return ("kw", r.choice(["TRUE", "FALSE", "UNKNOWN"]))
        if k == 8: self.hit("lit:constant"); return ("kw", r.choice(["PI", "CONST_E"]))
        if k == 9: self.hit("lit:int"); return ("int", r.randint(2, 500))
        return ("int", r.choice([0, 1, 2]))

    def expr(self, ids, depth, aggr_ids=(), self_ent=None, self_attrs=(), refs=()):
        """ids: identifiers in scope; aggr_ids: aggregate-valued ones; refs: (attr, [attrs of the referenced entity])"""
        r = self.rng
        if depth <= 0 or r.random() < 0.18:
            c = r.random()
            if ids and c < 0.5:
                self.hit("lit:ident")
                return ("id", r.choice(ids))
            if self_ent and c < 0.55:
                return ("kw", "SELF")
            return self.literal()
        rec = lambda d=depth - 1: self.expr(ids, d, aggr_ids, self_ent, self_attrs, refs)
        c = r.random()
        if c < 0.50:
            op = r.choice(EXPR_OPS + SIMPLE_OPS)
            self.hit("op:" + op)
            if r.random() < 0.3:       # chains of one operator, both nestings
                a, b, d = rec(), rec(), rec()
                return ("op", op, ("op", op, a, b), d) if r.random() < 0.5 else ("op", op, a, ("op", op, b, d))
            return ("op", op, rec(), rec())
        if c < 0.56: self.hit("op:negate"); return ("neg", rec())
        if c < 0.62: self.hit("op:not"); return ("not", rec())
        if c < 0.68 and (self_ent or refs):
            if refs and r.random() < 0.5:
                a, fs = r.choice(refs)
                self.hit("op:dot")
                return ("dot", ("id", a), r.choice(fs))
            if self_attrs:
                if r.random() < 0.5:
                    self.hit("op:dot"); return ("dot", ("kw", "SELF"), r.choice(self_attrs))
                self.hit("op:group")
                return ("dot", ("grp", ("kw", "SELF"), self_ent), r.choice(self_attrs))
        if c < 0.74 and aggr_ids:
            # an index is a simple_expression: relational/logical operators directly inside [] are not generated (see notes/C07.md)
            def simple(e):
                if e[0] == "op":
                    return ("op", e[1] if e[1] in SIMPLE_OPS else r.choice(["plus", "minus", "times"]), simple(e[2]), simple(e[3]))
                if e[0] in ("neg", "not"):
                    return (e[0], simple(e[1]))
                return e
            def ix():
                e = self.expr(ids, r.choice([1, 1, 2]), aggr_ids)
                return simple(e) if self.simple_index else e
            if r.random() < 0.6:
                self.hit("op:index"); return ("idx", ("id", r.choice(aggr_ids)), ix())
            self.hit("op:subcomponent")
            return ("rng", ("id", r.choice(aggr_ids)), ix(), ix())
        if c < 0.82:
            f, n = r.choice(FUNCS)
            self.hit("funcall")
            return ("call", f, [rec() for _ in range(n)])
        if c < 0.92:
            items = []
            for _ in range(r.choice([0, 1, 2, 3, 3, 5])):
                cnt = None
                if r.random() < 0.3:
                    cnt = r.choice([("int", 0), ("int", 1), ("int", 3), ("id", r.choice(ids)) if ids else ("int", 2),
                                    ("op", "plus", ("int", 1), ("int", 2))])
                    self.hit("aggr:repetition")
                items.append((rec(min(depth - 1, 1)), cnt))
            self.hit("aggr:init")
            return ("aggr", items)
        if aggr_ids:
            v = self.name("q", 3)
            self.hit("query")
            return ("query", v, ("id", r.choice(aggr_ids)), self.expr(ids + [v], depth - 1, aggr_ids, self_ent, self_attrs, refs))
        return ("op", r.choice(SIMPLE_OPS), rec(), rec())

    def type_toks(self, named, depth=0):
        r = self.rng
        c = r.random()
        if c < 0.5 or depth > 1:
            return [("skw", r.choice(SIMPLE_TYPES))], False
        if c < 0.65 and named:
            return [("id", r.choice(named))], False
        kind = r.choice(["LIST", "SET", "BAG", "ARRAY"])
        self.hit("type:" + kind)
        out = [("skw", kind)]
        if kind == "ARRAY" or r.random() < 0.6:
            lo = r.choice([0, 1, 2])
            hi = ("kw", "?") if kind != "ARRAY" and r.random() < 0.4 else ("int", lo + r.choice([0, 1, 5]))
            out += [S("["), ("int", lo), S(":"), hi, S("]")]
        out.append(("skw", "OF"))
        if kind in ("LIST", "ARRAY") and r.random() < 0.25:
            out.append(("skw", "UNIQUE"))
        if kind == "ARRAY" and r.random() < 0.25:
            out.append(("skw", "OPTIONAL"))
        base, _ = self.type_toks(named, depth + 1)
        return out + base, True

    def schema(self, size=1.0):
        """returns dict: name, consts [(name, type toks, expr tree)], types [(name, type toks, wheres)],
        entities [(name, attrs [(name, opt, type toks, tree|None)], wheres [(label|None, tree)])]"""
        r = self.rng
        sc = {"name": self.name("sch"), "consts": [], "types": [], "entities": []}
        for _ in range(r.choice([0, 0, 1, 2, 3])):
            kind = r.random()
            if kind < 0.4:
                items = [(self.string(), None) for _ in range(r.randint(1, 6))]
                self.hit("const:string-list")
                sc["consts"].append((self.name("c", 20), [("skw", "LIST"), ("skw", "OF"), ("skw", "STRING")], ("aggr", items)))
            else:
                sc["consts"].append((self.name("c", 20), [("skw", r.choice(["INTEGER", "REAL", "STRING", "NUMBER"]))], self.expr([], 2)))
        for _ in range(r.choice([0, 1, 1, 2])):
            nm = self.name("t")
            ws = [(self.label(), ("op", r.choice(REL + ["and", "plus"]), ("kw", "SELF"), self.expr([], r.randint(0, 3))))
                  for _ in range(r.choice([0, 1, 2, 3]))]
            sc["types"].append((nm, [("skw", r.choice(["INTEGER", "REAL", "STRING", "NUMBER"]))], ws))
        named = [t[0] for t in sc["types"]]
        ents = []
        for _ in range(int(r.choice([1, 1, 2, 3]) * size) or 1):
            en = self.name("ent")
            attrs, ids, aggr_ids, refs = [], [], [], []
            for _ in range(r.randint(1, 4)):
                an = self.name(r.choice(["a", "attr_", "x"]), 24)
                ty, is_aggr = self.type_toks(named)
                attrs.append((an, r.random() < 0.15, ty, None))
                ids.append(an)
                if is_aggr: aggr_ids.append(an)
            if ents and r.random() < 0.6:
                other = r.choice(ents)
                an = self.name("ref")
                attrs.append((an, False, [("id", other[0])], None))
                refs.append((an, [a[0] for a in other[1] if a[3] is None]))
            self_attrs = list(ids)
            for _ in range(r.choice([0, 1, 2, 3, 5])):
                dn = self.name(r.choice(["d", "derived_"]), 24)
                ty, _ = self.type_toks(named)
                attrs.append((dn, False, ty, self.expr(ids, r.randint(1, 4), aggr_ids, en, self_attrs, refs)))
                self.hit("decl:derive")
            ws = []
            for _ in range(r.choice([0, 1, 2, 3, 4])):
                we = self.expr(ids, r.randint(1, 4), aggr_ids, en, self_attrs, refs)
                if not mentions(we, set(ids)):      # PE067: a domain rule must refer to SELF or an attribute
                    we = ("op", r.choice(REL), ("id", r.choice(ids)), we)
                ws.append((self.label(), we))
            ents.append((en, attrs, ws))
        sc["entities"] = ents
        if not self.split_safe:
            return sc
        sc["consts"] = [(n, ty, keep_split_safe(e)) for n, ty, e in sc["consts"]]
        sc["types"] = [(n, ty, [(l, keep_split_safe(e)) for l, e in ws]) for n, ty, ws in sc["types"]]
        sc["entities"] = [(n, [(an, o, ty, None if i is None else keep_split_safe(i)) for an, o, ty, i in attrs],
                           [(l, keep_split_safe(e)) for l, e in ws]) for n, attrs, ws in ents]
        return sc

    def label(self):
        r = self.rng
        if r.random() < 0.45:
            self.hit("where:unlabelled"); return None
        self.hit("where:labelled")
        return self.name("wr", r.choice([2, 6, 14]))


SPLIT_SAFE_OPS = set(["plus"] + EXPR_OPS)


def keep_split_safe(e, safe=True):
    """A string literal containing '.' may be split into 'a.' + 'b' without parentheses.  Under an operator that binds
    tighter than + (or under a qualifier / prefix operator) that text is a different expression; such operands are
    ill-typed for strings (see notes/C07.md), so the generator does not put splittable literals there."""
    k = e[0]
    if k == "str":
        return e if safe else ("str", e[1].replace(".", "_"))
    if k == "op":
        ok = e[1] in SPLIT_SAFE_OPS
        return ("op", e[1], keep_split_safe(e[2], ok), keep_split_safe(e[3], ok))
    if k in ("neg", "not"):
        return (k, keep_split_safe(e[1], False))
    if k in ("dot", "grp"):
        return (k, keep_split_safe(e[1], False), e[2])
    if k == "idx":
        return (k, keep_split_safe(e[1], False), keep_split_safe(e[2], True))
    if k == "rng":
        return (k, keep_split_safe(e[1], False), keep_split_safe(e[2], True), keep_split_safe(e[3], True))
    if k == "call":
        return (k, e[1], [keep_split_safe(a, True) for a in e[2]])
    if k == "aggr":
        return (k, [(keep_split_safe(a, True), None if c is None else keep_split_safe(c, True)) for a, c in e[1]])
    if k == "query":
        return (k, e[1], keep_split_safe(e[2], True), keep_split_safe(e[3], True))
    return e


def mentions(e, names):
    if e[0] == "id":
        return e[1] in names
    if e == ("kw", "SELF"):
        return True
    if e[0] == "query":      # the bound variable hides nothing we need; look inside
        return mentions(e[2], names) or mentions(e[3], names)
    for c in e[1:]:
        if isinstance(c, tuple) and mentions(c, names):
            return True
        if isinstance(c, list):
            for x in c:
                if isinstance(x, tuple) and len(x) == 2 and isinstance(x[0], tuple):
                    if mentions(x[0], names) or (x[1] is not None and mentions(x[1], names)):
                        return True
                elif isinstance(x, tuple) and mentions(x, names):
                    return True
    return False


def schema_src(sc, rng, p_paren=0.6):
    """EXPRESS source text of a generated schema"""
    L = [f"SCHEMA {sc['name']};"]
    if sc["consts"]:
        L.append("CONSTANT")
        for nm, ty, e in sc["consts"]:
            L.append(f"  {nm} : {src_text(ty)} := {src_text(render(e, rng, p_paren))};")
        L.append("END_CONSTANT;")
    def wh(ws):
        if ws:
            L.append(" WHERE")
            for lab, e in ws:
                L.append("  " + (lab + " : " if lab else "") + src_text(render(e, rng, p_paren)) + ";")
    for nm, ty, ws in sc["types"]:
        L.append(f"TYPE {nm} = {src_text(ty)};")
        wh(ws)
        L.append("END_TYPE;")
    for nm, attrs, ws in sc["entities"]:
        L.append(f"ENTITY {nm};")
        for an, opt, ty, init in attrs:
            if init is None:
                L.append(f"  {an} : {'OPTIONAL ' if opt else ''}{src_text(ty)};")
        if any(a[3] is not None for a in attrs):
            L.append(" DERIVE")
            for an, opt, ty, init in attrs:
                if init is not None:
                    L.append(f"  {an} : {src_text(ty)} := {src_text(render(init, rng, p_paren))};")
        wh(ws)
        L.append("END_ENTITY;")
    L.append("END_SCHEMA;")
    return "\n".join(L) + "\n"


# ------------------------------------------------------------------ driver encoding of a split schema
class EncodeError(Exception):
    pass


def enc_expr(toks):
    ws = []
    for t in toks:
        w = word(t)
        if w is None:
            raise EncodeError(f"token {t} cannot be part of an expression")
        ws.append(w)
    return f"X {len(ws)} " + " ".join(ws) if ws else "X 0"


def enc_type(toks):
    t = toks[0]
    if t[0] == "id" and len(toks) == 1:
        return "TN " + hx(t[1])
    if t[0] == "skw" and t[1] in SIMPLE_TYPES and len(toks) == 1:
        return "TS " + hx(t[1])
    if t[0] == "skw" and t[1] in ("LIST", "SET", "BAG", "ARRAY"):
        i = 1
        bounds = "0"
        if toks[i] == S("["):
            depth, j = 0, i
            colon = None
            while True:
                if toks[j] in (S("["), S("(")): depth += 1
                elif toks[j] in (S("]"), S(")")):
                    depth -= 1
                    if depth == 0: break
                elif toks[j] == S(":") and depth == 1 and colon is None: colon = j
                j += 1
            bounds = "1 " + enc_expr(toks[i + 1:colon]) + " " + enc_expr(toks[colon + 1:j])
            i = j + 1
        if toks[i] != ("skw", "OF"):
            raise EncodeError(f"OF expected in type {toks}")
        i += 1
        uq = op = 0
        if toks[i] == ("skw", "UNIQUE"): uq = 1; i += 1
        if toks[i] == ("skw", "OPTIONAL"): op = 1; i += 1
        return f"TA {hx(t[1])} {bounds} {uq} {op} " + enc_type(toks[i:])
    raise EncodeError(f"unsupported type {toks}")


def enc_schema(d):
    """Decls (of the *source*) -> request words for the Lean driver; declarations in source order"""
    out = ["SCHEMA", hx(d.name)]
    consts = [n for k, n in d.order if k == "const"]
    out.append(str(len(consts)))
    for n in consts:
        ty, e = d.consts[n]
        out.append(f"A {hx(n)} 0 {enc_type(ty)} 1 {enc_expr(e)}")
    types = [n for k, n in d.order if k == "type"]
    out.append(str(len(types)))
    def wh(ws):
        return f"{len(ws)} " + " ".join(f"W {hx(l) if l else '-'} {enc_expr(e)}" for l, e in ws)
    for n in types:
        ty, ws = d.types[n]
        out.append(f"TD {hx(n)} {enc_type(ty)} {wh(ws)}")
    ents = [n for k, n in d.order if k == "entity"]
    out.append(str(len(ents)))
    for n in ents:
        attrs, ws = d.entities[n]
        out.append(f"EN {hx(n)} {len(attrs)} " +
                   " ".join(f"A {hx(an)} {1 if opt else 0} {enc_type(ty)} " + (f"1 {enc_expr(init)}" if init is not None else "0")
                            for an, opt, ty, init in attrs) + " " + wh(ws))
    return " ".join(" ".join(out).split())


# ------------------------------------------------------------------ extended schemas (no Lean model: oracle only)
DECL_END = {"TYPE": "END_TYPE", "ENTITY": "END_ENTITY", "FUNCTION": "END_FUNCTION", "PROCEDURE": "END_PROCEDURE",
            "RULE": "END_RULE", "CONSTANT": "END_CONSTANT"}


def split_decls(toks):
    """generic splitter: {(kind, name): tokens of the declaration}; kind CONSTANT has name ''"""
    i = 0
    if toks[:1] != [("skw", "SCHEMA")]:
        raise DeclError("SCHEMA expected")
    name = toks[1]
    i = 3
    out = {("SCHEMA", ""): [name]}
    while i < len(toks):
        t = toks[i]
        if t == ("skw", "END_SCHEMA"):
            return out
        if t[0] != "skw" or t[1] not in DECL_END:
            raise DeclError(f"declaration keyword expected, got {t} at {i}")
        end = ("skw", DECL_END[t[1]])
        j = i + 1
        while j < len(toks) and toks[j] != end:
            j += 1
        if j >= len(toks):
            raise DeclError(f"{end} missing")
        nm = "" if t[1] == "CONSTANT" else (toks[i + 1][1] if toks[i + 1][0] == "id" else str(toks[i + 1]))
        key = (t[1], nm.lower())
        if key in out:
            raise DeclError(f"duplicate declaration {key}")
        out[key] = toks[i:j + 2]
        i = j + 2
    raise DeclError("END_SCHEMA missing")


def assign_segments(toks):
    """expression token lists after `:=` up to the next `;`/TO at bracket depth 0, in order"""
    segs, i = [], 0
    while i < len(toks):
        if toks[i] == ("sym", ":="):
            j, depth = i + 1, 0
            while j < len(toks):
                t = toks[j]
                if depth == 0 and (t == ("sym", ";") or t == ("skw", "TO")):
                    break
                if t in (("sym", "("), ("sym", "[")): depth += 1
                elif t in (("sym", ")"), ("sym", "]")): depth -= 1
                j += 1
            segs.append(toks[i + 1:j]); i = j
        else:
            i += 1
    return segs


def no_parens(toks):
    return [t for t in merge_strings([x for x in toks if x not in (("sym", "("), ("sym", ")"))])]


class GenExt(Gen):
    """schemas with SUPERTYPE/SUBTYPE, UNIQUE, INVERSE, enumeration/select types, functions, procedures, rules"""

    def supertype_expr(self, subs):
        r = self.rng
        if len(subs) == 1:
            return subs[0]
        k = r.random()
        if k < 0.4:
            self.hit("supertype:oneof")
            n = r.randint(2, len(subs))
            rest = subs[n:]
            e = "ONEOF (" + ", ".join(subs[:n]) + ")"
            if rest:
                op = r.choice(["AND", "ANDOR"]); self.hit("supertype:" + op.lower())
                return e + f" {op} " + self.supertype_expr(rest)
            return e
        op = r.choice(["AND", "ANDOR"]); self.hit("supertype:" + op.lower())
        cut = r.randint(1, len(subs) - 1)
        a, b = self.supertype_expr(subs[:cut]), self.supertype_expr(subs[cut:])
        if r.random() < 0.5: a = "(" + a + ")"
        if r.random() < 0.5: b = "(" + b + ")"
        return f"{a} {op} {b}"

    def stmts(self, ints, lists, depth, in_repeat=False, procs=()):
        r = self.rng
        out = []
        ex = lambda d=2: src_text(render(keep_split_safe(self.expr(ints, d, lists)) if self.split_safe else self.expr(ints, d, lists), r))
        for _ in range(r.randint(1, 3)):
            k = r.random()
            if k < 0.4 or depth <= 0:
                self.hit("stmt:assignment"); out.append(f"{r.choice(ints)} := {ex()};")
            elif k < 0.55:
                self.hit("stmt:if")
                s = [f"IF {ex()} THEN"] + self.stmts(ints, lists, depth - 1, in_repeat, procs)
                if r.random() < 0.5:
                    s += ["ELSE"] + self.stmts(ints, lists, depth - 1, in_repeat, procs)
                out += s + ["END_IF;"]
            elif k < 0.7:
                self.hit("stmt:repeat")
                v = self.name("j", 2)
                ctl = ""
                if r.random() < 0.7:
                    # the parser supplies `BY 1` when no increment is given (like interval desugaring): always written here
                    ctl += f" {v} := {ex(1)} TO {ex(1)} BY {ex(1)}"
                if r.random() < 0.4: ctl += f" WHILE {ex(1)}"; self.hit("stmt:repeat-while")
                if r.random() < 0.4: ctl += f" UNTIL {ex(1)}"; self.hit("stmt:repeat-until")
                body = self.stmts(ints, lists, depth - 1, True, procs)
                if r.random() < 0.3:
                    body.append(r.choice(["ESCAPE;", "SKIP;"])); self.hit("stmt:escape/skip")
                out += [f"REPEAT{ctl};"] + body + ["END_REPEAT;"]
            elif k < 0.8:
                self.hit("stmt:case")
                s = [f"CASE {r.choice(ints)} OF"]
                for lab in r.sample([1, 2, 3, 5, 8], r.randint(1, 3)):
                    s.append(f"{lab} : {r.choice(ints)} := {ex(1)};")
                if r.random() < 0.5:
                    s.append(f"OTHERWISE : {r.choice(ints)} := {ex(1)};"); self.hit("stmt:case-otherwise")
                out += s + ["END_CASE;"]
            elif k < 0.88:
                self.hit("stmt:compound"); out += ["BEGIN"] + self.stmts(ints, lists, depth - 1, in_repeat, procs) + ["END;"]
            elif k < 0.94 and procs:
                self.hit("stmt:procedure-call"); out.append(f"{r.choice(procs)}({r.choice(ints)}, {ex(1)});")
            else:
                self.hit("stmt:skip"); out.append("SKIP;")
        return out

    def ext_schema_src(self):
        r = self.rng
        L = [f"SCHEMA {self.name('xs')};"]
        en = self.name("en"); vals = [self.name("v", 5) for _ in range(r.randint(1, 5))]
        L.append(f"TYPE {en} = ENUMERATION OF ({', '.join(vals)}); END_TYPE;"); self.hit("type:enumeration")
        root = self.name("root")
        subs = [self.name("sub") for _ in range(r.randint(1, 5))]
        sel = self.name("sl")
        L.append(f"TYPE {sel} = SELECT ({', '.join(r.sample(subs, r.randint(1, len(subs))))}); END_TYPE;"); self.hit("type:select")
        xa, ya = self.name("x", 8), self.name("y", 8)
        head = f"ENTITY {root}"
        if r.random() < 0.8:
            head += (" ABSTRACT" if r.random() < 0.5 else "") + f" SUPERTYPE OF ({self.supertype_expr(subs)})"
        L += [head + ";", f"  {xa} : INTEGER;", f"  {ya} : OPTIONAL STRING;", f"  e{en} : {en};"]
        if r.random() < 0.8:
            L.append("UNIQUE"); self.hit("entity:unique")
            for _ in range(r.randint(1, 3)):
                attrs = ", ".join(r.sample([xa, ya], r.randint(1, 2)))
                L.append(f"  {self.name('ur', 4)} : {attrs};" if r.random() < 0.6 else f"  {attrs};")
        L.append("END_ENTITY;")
        owner = self.name("owner", 6)
        for k, sname in enumerate(subs):
            L.append(f"ENTITY {sname} SUBTYPE OF ({root});")
            if k == 0:
                L.append(f"  {owner} : {subs[-1]};")
            if k == len(subs) - 1:
                kind = r.choice([f"SET [0:?] OF {subs[0]}", f"BAG [1:2] OF {subs[0]}", subs[0]])
                L += ["INVERSE", f"  {self.name('inv', 6)} : {kind} FOR {owner};"]; self.hit("entity:inverse")
            if r.random() < 0.4:
                w = src_text(render(("op", r.choice(REL), ("dot", ("grp", ("kw", "SELF"), root), xa), self.expr([], 2)), r))
                L += ["WHERE", f"  {w};"]
            L.append("END_ENTITY;")
        pr = self.name("pr")
        L += [f"PROCEDURE {pr}(VAR v1 : INTEGER; w1 : REAL);", "  v1 := v1 + 1;", "END_PROCEDURE;"]; self.hit("decl:procedure")
        for _ in range(r.randint(1, 2)):
            fn = self.name("fn")
            ints = [self.name("p", 6), self.name("i", 6), self.name("k", 6)]
            lst = self.name("q", 4)
            L.append(f"FUNCTION {fn}({ints[0]} : INTEGER; {lst} : LIST OF INTEGER) : INTEGER;")
            L += ["LOCAL", f"  {ints[1]} : INTEGER := {src_text(render(self.expr([ints[0]], 1, [lst]), r))};", f"  {ints[2]} : INTEGER;", "END_LOCAL;"]
            L += ["  " + x for x in self.stmts(ints, [lst], 2, False, [pr])]
            L += [f"  RETURN ({src_text(render(self.expr(ints, 2, [lst]), r))});", "END_FUNCTION;"]; self.hit("decl:function")
        if r.random() < 0.7:
            rn = self.name("rl"); n = self.name("n", 3)
            pop = r.sample(subs, r.randint(1, min(2, len(subs))))
            L += [f"RULE {rn} FOR ({', '.join(pop)});", f"LOCAL {n} : INTEGER; END_LOCAL;", f"  {n} := SIZEOF({pop[0]});", "WHERE"]
            for _ in range(r.randint(1, 3)):
                e = ("op", r.choice(REL), ("id", n), self.expr([n], 2))
                L.append("  " + (self.name("wr", 5) + " : " if r.random() < 0.5 else "") + src_text(render(e, r)) + ";")
            L.append("END_RULE;"); self.hit("decl:rule")
        L.append("END_SCHEMA;")
        return "\n".join(L) + "\n"


# ------------------------------------------------------------------ grammar-directed declaration generator
class GenDecl(GenExt):
    """Declarations following the declaration part of expparse.y: every optional clause present/absent, id lists,
    adjacent items of one type, precision/FIXED in every type position, VAR groups, GENERIC/AGGREGATE/conformant parameter
    types, nested declarations in algorithms.  cover=True: every construct at least once (first schema of every run)."""

    def ex(self, ids, depth=2, lists=()):
        e = self.expr(list(ids), depth, list(lists))
        if self.split_safe:
            e = keep_split_safe(e)
        return src_text(render(e, self.rng))

    def simple_type(self, cover=False, consts=()):
        r = self.rng
        kw = r.choice(SIMPLE_TYPES)
        out = kw
        if kw in ("REAL", "INTEGER", "STRING", "BINARY") and (cover or r.random() < 0.5):
            self.hit("type:precision")
            prec = r.choice(["6", "12", "( 4 )", "2 + 3"] + [c + " + 1" for c in consts[:1]])
            out += f" ({prec})"
            if kw in ("STRING", "BINARY") and r.random() < 0.5:
                out += " FIXED"; self.hit("type:fixed")
        return out

    def any_type(self, named, depth=0, cover=False, consts=(), param=False, labels=None):
        r = self.rng
        c = r.random()
        if param and labels is not None and c < 0.18:
            self.hit("param:generic")
            return "GENERIC:" + r.choice(labels) if r.random() < 0.8 or not labels else "GENERIC"
        if param and labels is not None and c < 0.3 and depth < 2:
            self.hit("param:aggregate")
            return f"AGGREGATE:{r.choice(labels)}x OF " + self.any_type(named, depth + 1, cover, consts, param, labels) if r.random() < 0.6 \
                else "AGGREGATE OF " + self.any_type(named, depth + 1, cover, consts, param, labels)
        if c < 0.45 or depth >= 2:
            return self.simple_type(cover, consts)
        if c < 0.65 and named:
            self.hit("type:named"); return r.choice(named)
        kind = r.choice(["LIST", "SET", "BAG", "ARRAY"]); self.hit("type:" + kind)
        out = kind
        if kind == "ARRAY" or r.random() < 0.6:
            lo = r.choice([0, 1, 2]); self.hit("type:bounds")
            hi = "?" if kind != "ARRAY" and r.random() < 0.4 else (r.choice(consts) if consts and r.random() < 0.3 else str(lo + r.choice([0, 1, 5])))
            out += f" [{lo} : {hi}]"
        elif param:
            self.hit("param:conformant")
        out += " OF"
        if kind in ("LIST", "ARRAY") and r.random() < 0.3: out += " UNIQUE"; self.hit("type:unique")
        if kind == "ARRAY" and r.random() < 0.3: out += " OPTIONAL"
        return out + " " + self.any_type(named, depth + 1, cover, consts, param, labels)

    def param_list(self, named, var_ok, cover, consts):
        """formal parameters: groups (VAR?, [names], type); adjacent groups of one NAMED type with different VAR-ness"""
        r = self.rng
        groups = []
        labels = [self.name("g", 2)]
        n = r.randint(2, 4) if cover else r.randint(0, 4)
        if n == 0:
            self.hit("param:none"); return "", []
        prev_ty = None
        for _ in range(n):
            names = [self.name("p", 5) for _ in range(r.choice([1, 1, 2, 3]))]
            if len(names) > 1: self.hit("param:id-list")
            if prev_ty is not None and r.random() < 0.45:
                ty = prev_ty; self.hit("param:group")           # adjacent groups of the same type
            else:
                ty = self.any_type(named, 0, cover, consts, True, labels)
            var = var_ok and r.random() < 0.5
            if var: self.hit("param:var")
            groups.append((var, names, ty)); prev_ty = ty
        if cover and named:
            t = r.choice(named)
            a, b, c = self.name("p", 3), self.name("p", 3), self.name("p", 3)
            groups += [(False, [a], t), (var_ok, [b], t), (False, [c], t)]; self.hit("param:group")
            if var_ok: self.hit("param:var")
        txt = "( " + "; ".join(("VAR " if v else "") + ", ".join(ns) + " : " + ty for v, ns, ty in groups) + " )"
        return txt, [(n_, ty) for v, ns, ty in groups for n_ in ns]

    def algorithm(self, kind, named, consts, cover, procs, nest=True):
        r = self.rng
        name = self.name("fn" if kind == "FUNCTION" else "pr")
        ptxt, params = self.param_list(named, kind == "PROCEDURE", cover, consts)
        ints = [self.name("i", 5), self.name("k", 5)]
        lst = self.name("q", 4)
        head = f"{kind} {name}{ptxt}"
        if kind == "FUNCTION":
            head += " : " + self.any_type(named, 0, cover, consts, True, None)
        L = [head + ";"]
        if nest and (cover or r.random() < 0.3):
            self.hit("algo:nested-declaration")
            inner, _ = self.algorithm("FUNCTION", named, consts, False, procs, nest=False)
            L += ["  " + x for x in inner]
            if r.random() < 0.5:
                L += [f"  CONSTANT {self.name('lc', 4)} : INTEGER := {r.randint(0, 9)}; END_CONSTANT;"]
        L += ["LOCAL", f"  {ints[0]}, {ints[1]} : INTEGER := {self.ex([], 1)};", f"  {lst} : LIST OF INTEGER;"]
        self.hit("algo:local"); self.hit("algo:local-init")
        if cover or r.random() < 0.5:
            L.append(f"  {self.name('lv', 5)} : {self.any_type(named, 0, cover, consts, True, None)};")
        L.append("END_LOCAL;")
        L += ["  " + x for x in self.stmts(ints, [lst], 2, False, procs)]
        if cover:
            L += ["  " + x for x in self.every_stmt(ints, lst, procs)]
        if kind == "FUNCTION":
            L += [f"  RETURN ({self.ex(ints, 2, [lst])});"]; self.hit("stmt:return")
        elif cover or r.random() < 0.4:
            L += ["  RETURN;"]; self.hit("stmt:return")
        L.append(f"END_{kind};")
        self.hit("decl:" + kind.lower())
        return L, name

    def every_stmt(self, ints, lst, procs):
        """one statement of every kind of the grammar"""
        a, b = ints[0], ints[1]
        e = lambda d=1: self.ex(ints, d, [lst])
        j = self.name("j", 2)
        out = [f"{a} := {e(2)};", f"{lst}[1] := {e()};",
               f"IF {e()} THEN", f"  {b} := {e()};", "ELSE", "  SKIP;", "END_IF;",
               f"IF {e()} THEN", f"  {b} := {e()};", "END_IF;",
               f"REPEAT {j} := {e()} TO {e()} BY {e()} WHILE {e()} UNTIL {e()};", f"  {a} := {a} + {j};", "  ESCAPE;", "END_REPEAT;",
               f"REPEAT WHILE {e()};", "  SKIP;", "END_REPEAT;", f"REPEAT UNTIL {e()};", "  SKIP;", "END_REPEAT;", "REPEAT;", "  ESCAPE;", "END_REPEAT;",
               f"CASE {a} OF", f"1 : {b} := {e()};", "2 : BEGIN", f"  {a} := {e()};", f"  {b} := {e()};", "END;", f"OTHERWISE : {b} := {e()};", "END_CASE;",
               f"CASE {b} OF", f"{e()} : SKIP;", "END_CASE;",
               "BEGIN", f"  {a} := {e()};", "END;"]
        al = self.name("al", 3)
        out += [f"ALIAS {al} FOR {lst}[1];", f"  {a} := {a} + {al};", "END_ALIAS;"]
        for t in ("assignment", "if", "repeat", "repeat-while", "repeat-until", "escape/skip", "skip", "case", "case-otherwise", "compound", "alias"):
            self.hit("stmt:" + t)
        if procs:
            out.append(f"{procs[0]}({a}, {e()});"); self.hit("stmt:procedure-call")
        return out

    def schema_src(self, cover=False):
        r = self.rng
        self.hit("decl:schema")
        L = [f"SCHEMA {self.name('gs')};"]
        consts = []
        if cover or r.random() < 0.6:
            L.append("CONSTANT"); self.hit("decl:constant")
            for _ in range(r.randint(1, 3)):
                c = self.name("c", 8); consts.append(c)
                L.append(f"  {c} : INTEGER := {r.randint(1, 9)};")
            L.append(f"  {self.name('c', 8)} : {self.simple_type(cover)} := {self.ex([], 1)};")
            L.append("END_CONSTANT;")
        named = []
        def where(ids, n=None, selfref=True):
            ws = []
            for _ in range(r.choice([0, 1, 2]) if n is None else n):
                e = ("op", r.choice(REL), ("kw", "SELF") if selfref else ("id", r.choice(ids)), self.expr(ids, 2))
                if self.split_safe: e = keep_split_safe(e)
                lab = self.label()
                ws.append("  " + (lab + " : " if lab else "") + src_text(render(e, r)) + ";")
            return (["WHERE"] + ws) if ws else []
        for k in range(r.randint(2, 4) if cover else r.randint(0, 3)):
            n = self.name("t"); self.hit("decl:type")
            body = self.simple_type(cover or k == 0, consts) if k % 2 == 0 else self.any_type(named, 0, cover, consts)
            L += [f"TYPE {n} = {body};"] + where([], 2 if cover and k == 0 else None) + ["END_TYPE;"]
            named.append(n)
        en = self.name("en"); vals = [self.name("v", 5) for _ in range(r.randint(1, 5))]
        L.append(f"TYPE {en} = ENUMERATION OF ({', '.join(vals)}); END_TYPE;"); self.hit("type:enumeration")
        root = self.name("root")
        subs = [self.name("sub") for _ in range(r.randint(2, 4) if cover else r.randint(1, 4))]
        sel = self.name("sl")
        L.append(f"TYPE {sel} = SELECT ({', '.join(r.sample(subs, r.randint(1, len(subs))))}); END_TYPE;"); self.hit("type:select")
        xa, ya, za = self.name("x", 8), self.name("y", 8), self.name("z", 8)
        head = f"ENTITY {root}"
        k = 0 if cover else r.randrange(4)
        if k == 0: head += " ABSTRACT SUPERTYPE OF (" + self.supertype_expr(subs) + ")"; self.hit("entity:supertype")
        elif k == 1: head += " SUPERTYPE OF (" + self.supertype_expr(subs) + ")"; self.hit("entity:supertype")
        elif k == 2: head += " ABSTRACT SUPERTYPE"; self.hit("entity:supertype")
        L += [head + ";", f"  {xa}, {za} : INTEGER;", f"  {ya} : OPTIONAL STRING;", f"  e{en} : {en};"]
        self.hit("entity:attr"); self.hit("entity:attr-list"); self.hit("entity:optional")
        for _ in range(r.randint(1, 3)):
            L.append(f"  {self.name('a', 10)} : {'OPTIONAL ' if r.random() < 0.3 else ''}{self.any_type(named, 0, cover, consts)};")
        if cover or r.random() < 0.7:
            L.append("UNIQUE"); self.hit("entity:unique")
            for _ in range(r.randint(1, 3)):
                attrs = ", ".join(r.sample([xa, ya, za], r.randint(1, 3)))
                L.append(f"  {self.name('ur', 4)} : {attrs};" if r.random() < 0.6 else f"  {attrs};")
        L += where([xa, za], None, False) + ["END_ENTITY;"]
        owner = self.name("owner", 6)
        for k, sname in enumerate(subs):
            self.hit("entity:subtype")
            L.append(f"ENTITY {sname} SUBTYPE OF ({root});")
            if k == 0:
                L.append(f"  {owner} : {subs[-1]};")
            if cover or r.random() < 0.4:
                L += ["DERIVE", f"  {self.name('d', 6)} : {self.any_type(named, 0, cover, consts)} := {self.ex([xa], 2)};"]; self.hit("decl:derive")
                if r.random() < 0.5 or (cover and k == 1):
                    L.append(f"  SELF\\{root}.{ya} : STRING := {self.ex([xa], 1)};")
            if k == len(subs) - 1:
                kind = r.choice([f"SET [0:?] OF {subs[0]}", f"BAG [1:2] OF {subs[0]}", f"SET OF {subs[0]}", subs[0]])
                L += ["INVERSE", f"  {self.name('inv', 6)} : {kind} FOR {owner};"]; self.hit("entity:inverse")
            if r.random() < 0.3:
                L += ["UNIQUE", f"  {self.name('ur', 3)} : SELF\\{root}.{xa};"]
            if r.random() < 0.4:
                w = src_text(render(("op", r.choice(REL), ("dot", ("grp", ("kw", "SELF"), root), xa), self.expr([], 2)), r))
                L += ["WHERE", f"  {w};"]
            L.append("END_ENTITY;")
        ents = [root] + subs
        # the generated procedure call passes (int variable, expression): give the called procedure that shape
        pr2 = self.name("pr")
        L += [f"PROCEDURE {pr2}(VAR v1 : INTEGER; w1 : REAL);", "  v1 := v1 + 1;", "END_PROCEDURE;"]
        P1, pr = self.algorithm("PROCEDURE", named + ents[:2], consts, cover, [pr2], nest=False)
        L += P1
        for _ in range(2 if cover else r.randint(0, 2)):
            F, _ = self.algorithm("FUNCTION", named + ents[:2], consts, cover, [pr2])
            L += F
        if cover or r.random() < 0.6:
            rn = self.name("rl"); n = self.name("n", 3)
            pop = r.sample(subs, r.randint(1, min(2, len(subs))))
            L += [f"RULE {rn} FOR ({', '.join(pop)});", f"LOCAL {n} : INTEGER; END_LOCAL;", f"  {n} := SIZEOF({pop[0]});", "WHERE"]
            for _ in range(r.randint(1, 3)):
                e = ("op", r.choice(REL), ("id", n), self.expr([n], 2))
                if self.split_safe: e = keep_split_safe(e)
                lab = self.label()
                L.append("  " + (lab + " : " if lab else "") + src_text(render(e, r)) + ";")
            L.append("END_RULE;"); self.hit("decl:rule")
        L.append("END_SCHEMA;")
        return "\n".join(L) + "\n"

"""C08: generator of inheritance graphs with SUPERTYPE OF expressions, their EXPRESS text, the line encoding the Lean
driver reads, and an *independent* Python evaluation of the property's rule (cross-checks the Lean `Spec.Legal`).

A schema is a list of entity records, in declaration order:
    {"name": "b", "abstract": bool, "supers": ["a", ...], "expr": Expr|None}
Expr ::= ("ent", name) | ("oneof", [Expr, ...]) | ("and", Expr, Expr) | ("andor", Expr, Expr)
Every entity named in x.expr is declared with x among its supers (check-express demands it); direct subtypes that the
expression does not mention are the *implicit* subtypes.
"""
import itertools, random

NAMES = "abcdefgh"


# ------------------------------------------------------------------ expressions
def expr_ents(e):
    if e is None:
        return []
    if e[0] == "ent":
        return [e[1]]
    if e[0] == "oneof":
        return [n for x in e[1] for n in expr_ents(x)]
    return expr_ents(e[1]) + expr_ents(e[2])


def render_expr(e):
    if e[0] == "ent":
        return e[1]
    if e[0] == "oneof":
        return "ONEOF(" + ", ".join(render_expr(x) for x in e[1]) + ")"
    op = " AND " if e[0] == "and" else " ANDOR "

    def par(x):
        s = render_expr(x)
        return s if x[0] in ("ent", "oneof") else "(" + s + ")"
    return par(e[1]) + op + par(e[2])


def enc_expr(e):
    """prefix encoding for the Lean driver: e:<name> | o<k> e1..ek | a e1 e2 | x e1 e2"""
    if e[0] == "ent":
        return ["e:" + e[1]]
    if e[0] == "oneof":
        out = ["o%d" % len(e[1])]
        for x in e[1]:
            out += enc_expr(x)
        return out
    return [("a" if e[0] == "and" else "x")] + enc_expr(e[1]) + enc_expr(e[2])


def random_expr(rng, names, depth=0):
    """random expression mentioning each of `names` exactly once"""
    names = list(names)
    if len(names) == 1:
        if rng.random() < 0.12 and depth < 2:
            return ("oneof", [("ent", names[0])])
        return ("ent", names[0])
    r = rng.random()
    if r < 0.45:
        # ONEOF with 2..len groups
        k = rng.randint(2, len(names))
        rng.shuffle(names)
        cuts = sorted(rng.sample(range(1, len(names)), k - 1))
        groups = [names[i:j] for i, j in zip([0] + cuts, cuts + [len(names)])]
        return ("oneof", [random_expr(rng, g, depth + 1) for g in groups])
    rng.shuffle(names)
    cut = rng.randint(1, len(names) - 1)
    op = "and" if r < 0.70 else "andor"
    return (op, random_expr(rng, names[:cut], depth + 1), random_expr(rng, names[cut:], depth + 1))


# ------------------------------------------------------------------ schemas
def subs_of(schema):
    """direct subtypes of each entity, in declaration order of the subtypes"""
    subs = {e["name"]: [] for e in schema}
    for e in schema:
        for s in e["supers"]:
            subs[s].append(e["name"])
    return subs


def ancestors_map(ents):
    by = {e["name"]: e for e in ents}
    anc = {}

    def go(n):
        if n not in anc:
            anc[n] = set()
            for s in by[n]["supers"]:
                anc[n] |= {s} | go(s)
        return anc[n]
    for e in ents:
        go(e["name"])
    return anc


def random_schema(rng, n=None, shape=None, redundant=False):
    """inheritance graph with n entities: trees, diamonds, two roots; every nesting of ONEOF/AND/ANDOR, implicit subtypes,
    abstract supertypes.  Names are a random permutation so that alphabetical order is unrelated to the hierarchy."""
    n = n or rng.randint(2, 8)
    shape = shape or rng.choice(["tree", "tree", "diamond", "diamond", "tworoots", "free"])
    names = list(NAMES[:n])
    rng.shuffle(names)
    ents = []
    nroots = 1 if shape in ("tree", "diamond") else (2 if shape == "tworoots" else rng.choice([1, 1, 2]))
    nroots = min(nroots, n)
    for i, nm in enumerate(names):
        if i < nroots:
            sup = []
        else:
            cands = names[:i]
            k = 1
            if shape != "tree" and len(cands) >= 2 and rng.random() < (0.35 if shape != "tworoots" else 0.45):
                k = 2
            if shape == "free" and len(cands) >= 3 and rng.random() < 0.08:
                k = 3
            # bias towards shallow-wide graphs (more subtypes per supertype => richer expressions)
            if rng.random() < 0.5:
                cands = cands[:max(1, len(cands) // 2 + 1)]
            sup = rng.sample(cands, min(k, len(cands)))
            if not redundant:
                # no entity is a subtype of both an entity and one of that entity's ancestors
                anc = ancestors_map(ents)
                sup = [s for s in sup if not any(s in anc[t] for t in sup if t != s)]
        ents.append({"name": nm, "abstract": False, "supers": sup, "expr": None})
    return decorate(rng, ents)


def decorate(rng, ents, p_abstract=0.35):
    """random SUPERTYPE OF expressions (all explicit / partly / all implicit), ABSTRACT flags, declaration order"""
    subs = subs_of(ents)
    for e in ents:
        ss = subs[e["name"]]
        e["expr"], e["abstract"] = None, False
        if not ss:
            continue
        r = rng.random()
        if r < 0.12:
            chosen = []                      # all subtypes implicit
        elif r < 0.55:
            chosen = list(ss)                # all explicit
        else:
            chosen = [s for s in ss if rng.random() < 0.7]
        if chosen:
            e["expr"] = random_expr(rng, chosen)
        e["abstract"] = rng.random() < p_abstract
    order = list(ents)
    rng.shuffle(order)
    return order


# topologies (child -> parents) of the directed stream: shapes on which single matcher statements decide the verdict
DIRECTED = {
    # an entity with supertypes under two different roots, the two sides asymmetric
    "tworoots-asym": {"r1": [], "m": ["r1"], "r2": [], "d": ["m", "r2"]},
    "tworoots-asym-leaves": {"r1": [], "m": ["r1"], "r2": [], "d": ["m", "r2"], "x": ["r1"], "y": ["r2"]},
    "tworoots-mids": {"r1": [], "m": ["r1"], "r2": [], "n": ["r2"], "d": ["m", "n"]},
    "tworoots-deep": {"r1": [], "m": ["r1"], "k": ["m"], "r2": [], "d": ["k", "r2"], "z": ["m"]},
    # sub-supertypes (often ABSTRACT) with their own subtypes next to later siblings under an implicit ANDOR
    "subsuper-sibling": {"item": [], "curve": ["item"], "line": ["curve"], "circle": ["curve"], "styled": ["item"]},
    "subsuper-siblings": {"item": [], "curve": ["item"], "line": ["curve"], "circle": ["curve"], "styled": ["item"],
                          "extra": ["item"]},
    "two-subsupers": {"item": [], "curve": ["item"], "line": ["curve"], "circle": ["curve"], "surf": ["item"],
                      "p": ["surf"], "q": ["surf"]},
    # several sub-supertype groups side by side under one AND/ANDOR list: OR groups (non-abstract sub-supertype with its own
    # subtype), ABSTRACT groups, (x AND y) groups — tryNext must restart every later group after an earlier OR moved on
    "groups3": {"r": [], "a": ["r"], "a1": ["a"], "m": ["r"], "x": ["m"], "c": ["r"], "c1": ["c"]},
    "groups3-wide": {"r": [], "a": ["r"], "a1": ["a"], "a2": ["a"], "m": ["r"], "x": ["m"], "c": ["r"], "c1": ["c"]},
    "groups4": {"r": [], "a": ["r"], "a1": ["a"], "b": ["r"], "b1": ["b"], "c": ["r"], "c1": ["c"], "d": ["r"]},
    "groups-leafpair": {"r": [], "a": ["r"], "a1": ["a"], "p": ["r"], "q": ["r"], "c": ["r"], "c1": ["c"], "c2": ["c"]},
    "subsuper-chain": {"item": [], "curve": ["item"], "conic": ["curve"], "circle": ["conic"], "line": ["curve"],
                       "styled": ["item"]},
}


def directed_schema(rng, shape):
    """the topology `shape` with randomly permuted one-letter names (so every alphabetical sibling order occurs),
    random expressions and ABSTRACT flags (ABSTRACT more often than in the random stream)"""
    topo = DIRECTED[shape]
    letters = list(NAMES[:len(topo)])
    rng.shuffle(letters)
    ren = dict(zip(topo, letters))
    ents = [{"name": ren[n], "abstract": False, "supers": [ren[p] for p in ps], "expr": None} for n, ps in topo.items()]
    return decorate(rng, ents, p_abstract=0.5)


def multi_schema(rng):
    """k in {2,3} entities with several supertypes in one graph of 2..3 roots, each either inside one root (a diamond over
    two sub-supertypes of that root) or spanning two/three hierarchies (roots or sub-supertypes of different roots); names
    permuted, so every alphabetical order of the multiply-inheriting entities occurs (the combo list is joined in that order)"""
    nroots = rng.choice([2, 2, 3])
    k = rng.choice([2, 2, 3])
    topo = {f"r{i}": [] for i in range(nroots)}
    mids = {i: [] for i in range(nroots)}

    def mid(i):
        nm = f"m{i}_{len(mids[i])}"
        topo[nm] = [f"r{i}"]
        mids[i].append(nm)
        return nm
    budget = 8 - nroots - k
    for j in range(k):
        kind = rng.choice(["diamond", "span", "span"])
        if kind == "diamond":
            i = rng.randrange(nroots)
            while len(mids[i]) < 2 and budget > 0:
                mid(i); budget -= 1
            if len(mids[i]) >= 2:
                topo[f"x{j}"] = rng.sample(mids[i], 2)
                continue
        width = rng.choice([2, 2, nroots])
        sup = []
        for i in rng.sample(range(nroots), width):
            if mids[i] and rng.random() < 0.4:
                sup.append(rng.choice(mids[i]))
            elif budget > 0 and rng.random() < 0.25:
                sup.append(mid(i)); budget -= 1
            else:
                sup.append(f"r{i}")
        topo[f"x{j}"] = sup
    letters = list(NAMES[:len(topo)])
    rng.shuffle(letters)
    ren = dict(zip(topo, letters))
    ents = [{"name": ren[n], "abstract": False, "supers": [ren[p] for p in ps], "expr": None} for n, ps in topo.items()]
    return decorate(rng, ents, p_abstract=0.3)


def random_expr_noor(rng, names):
    """AND/ANDOR only, each name once"""
    names = list(names)
    if len(names) == 1:
        return ("ent", names[0])
    rng.shuffle(names)
    cut = rng.randint(1, len(names) - 1)
    return (rng.choice(["and", "andor"]), random_expr_noor(rng, names[:cut]), random_expr_noor(rng, names[cut:]))


def orfree_schema(rng):
    """single-supertype graph whose emitted lists contain no OrList: no ONEOF, every sub-supertype ABSTRACT
    (the fragment of C08_sound_complete_partial)"""
    n = rng.randint(3, 8)
    names = list(NAMES[:n])
    rng.shuffle(names)
    ents = []
    for i, nm in enumerate(names):
        sup = [] if i == 0 or (i == 1 and rng.random() < 0.2) else [rng.choice(names[:i])]
        ents.append({"name": nm, "abstract": False, "supers": sup, "expr": None})
    subs = subs_of(ents)
    for e in ents:
        ss = subs[e["name"]]
        if not ss:
            continue
        chosen = [x for x in ss if rng.random() < 0.75]
        if chosen:
            e["expr"] = random_expr_noor(rng, chosen)
        e["abstract"] = bool(e["supers"]) or rng.random() < 0.5     # roots may or may not be abstract
    order = list(ents)
    rng.shuffle(order)
    return order


def render_schema(schema, name="c08"):
    out = [f"SCHEMA {name};"]
    for e in schema:
        line = f"ENTITY {e['name']}"
        if e["expr"] is not None:
            line += (" ABSTRACT" if e["abstract"] else "") + " SUPERTYPE OF (" + render_expr(e["expr"]) + ")"
        elif e["abstract"]:
            line += " ABSTRACT SUPERTYPE"
        if e["supers"]:
            line += " SUBTYPE OF (" + ", ".join(e["supers"]) + ")"
        out.append(line + ";")
        out.append("END_ENTITY;")
    out.append("END_SCHEMA;")
    return "\n".join(out) + "\n"


def enc_schema(schema, sub_order=None):
    """one line for the Lean driver:  schema <n> { <name> <abs 0/1> <k supers> s.. <m subs> t.. <expr|-> }*
    `subs` is the entity's subtype list in the order the generator's resolver holds it (sub_order, else declaration order)."""
    subs = sub_order or subs_of(schema)
    out = ["schema", str(len(schema))]
    for e in schema:
        out += [e["name"], "1" if e["abstract"] else "0", str(len(e["supers"]))] + list(e["supers"])
        out += [str(len(subs[e["name"]]))] + list(subs[e["name"]])
        out += enc_expr(e["expr"]) if e["expr"] is not None else ["-"]
    return " ".join(out)


def mult_supers(schema):
    return {e["name"] for e in schema if len(e["supers"]) > 1}


# ------------------------------------------------------------------ the property's rule, in Python (cross-check of Spec.Legal)
def direct_denote(e):
    """set of frozensets of *direct subtype names* an expression admits (ISO 10303-11 Annex B, subtypes as atoms)"""
    if e[0] == "ent":
        return {frozenset([e[1]])}
    if e[0] == "oneof":
        out = set()
        for x in e[1]:
            out |= direct_denote(x)
        return out
    a, b = direct_denote(e[1]), direct_denote(e[2])
    both = {x | y for x in a for y in b}
    return both if e[0] == "and" else (a | b | both)


def constraint_of(ent, subs):
    """the entity's expression with its implicit subtypes ANDOR-ed on"""
    e = ent["expr"]
    mentioned = set(expr_ents(e))
    for s in subs[ent["name"]]:
        if s not in mentioned:
            e = ("ent", s) if e is None else ("andor", e, ("ent", s))
    return e


def legal(schema, X):
    """the statement's rule: X non-empty, connected, closed under supertypes; each member's expression satisfied over the
    subtypes present; every ABSTRACT member has a subtype present (hence, graph being finite and acyclic, a non-abstract
    descendant)."""
    X = frozenset(X)
    by = {e["name"]: e for e in schema}
    subs = subs_of(schema)
    if not X or not X <= set(by):
        return False
    for n in X:
        if not set(by[n]["supers"]) <= X:
            return False
    # connected through sub/supertype links inside X
    seen, todo = set(), [next(iter(X))]
    while todo:
        n = todo.pop()
        if n in seen:
            continue
        seen.add(n)
        todo += [m for m in X if m not in seen and (m in by[n]["supers"] or n in by[m]["supers"])]
    if seen != X:
        return False
    for n in X:
        present = frozenset(s for s in subs[n] if s in X)
        if not present:
            if by[n]["abstract"]:
                return False
            continue
        c = constraint_of(by[n], subs)
        if present not in direct_denote(c):
            return False
    return True


# ------------------------------------------------------------------ trees printed by harness / Lean driver
def parse_tree(s):
    """'C[ t ; t ]' -> list of trees; tree = name | (op, [children]) with op in A O X"""
    toks = s.replace("(", " ( ").replace(")", " ) ").split()
    assert toks[0] == "C[" and toks[-1] == "]", s
    toks = toks[1:-1]
    pos = 0

    def one():
        nonlocal pos
        t = toks[pos]
        if t == "(":
            op = toks[pos + 1]
            pos += 2
            ch = []
            while toks[pos] != ")":
                ch.append(one())
            pos += 1
            return (op, ch)
        pos += 1
        return t
    out = []
    while pos < len(toks):
        out.append(one())
        if pos < len(toks):
            assert toks[pos] == ";", s
            pos += 1
    return out


def show_tree(t):
    if isinstance(t, str):
        return t
    return "(" + t[0] + "".join(" " + show_tree(c) for c in t[1]) + ")"


def show_collect(ts):
    return "C[" + "".join((" " if i == 0 else " ; ") + show_tree(t) for i, t in enumerate(ts)) + " ]"


def tree_denote(t):
    """Annex-B meaning of an EntList tree: the set of name sets it derives"""
    if isinstance(t, str):
        return {frozenset([t])}
    op, ch = t
    ds = [tree_denote(c) for c in ch]
    if op == "O":
        out = set()
        for d in ds:
            out |= d
        return out
    if op == "A":
        acc = {frozenset()}
        for d in ds:
            acc = {x | y for x in acc for y in d}
        return acc
    acc = {None}
    for d in ds:       # ANDOR: any non-empty selection of children
        acc = acc | {(y if x is None else x | y) for x in acc for y in d}
    acc.discard(None)
    return acc


def all_subsets(names):
    names = sorted(names)
    for r in range(1, len(names) + 1):
        for c in itertools.combinations(names, r):
            yield c


if __name__ == "__main__":
    import sys
    rng = random.Random(int(sys.argv[1]) if len(sys.argv) > 1 else 1)
    s = random_schema(rng)
    print(render_schema(s))
    print(enc_schema(s))
    for X in all_subsets([e["name"] for e in s]):
        if legal(s, X):
            print("legal", X)

#!/usr/bin/env python3
"""Apply delivered fix patches (fixes/<ID>-<n>-<slug>.patch + .txt) to /repo as single `fix:` commits.

  tools/integrate_fixes.py [--only PREFIX ...] [--dry]

A patch is applied when it has a .txt, is not listed in fixes/APPLIED.txt, and `git apply --check` accepts it.
Commit message = the .txt up to the 'KNOWN_FINDINGS line:' marker (must start with 'fix:').
The 'fixed: ...' line of the .txt (with <commit> substituted) is appended to KNOWN_FINDINGS.txt.
Patches that do not apply are reported (merge by hand).  hook-*.patch are skipped (handled by hand).
"""
import glob, os, re, subprocess, sys

VERIF = os.path.dirname(os.path.dirname(os.path.abspath(__file__)))
FIX = os.path.join(VERIF, "fixes")
APPLIED = os.path.join(FIX, "APPLIED.txt")


def sh(cmd, cwd=None, inp=None):
    r = subprocess.run(cmd, cwd=cwd, input=inp, capture_output=True, text=True)
    return r.returncode, r.stdout + r.stderr


def natkey(p):
    b = os.path.basename(p)
    m = re.match(r"(C\d+)-(\d+)-", b)
    return (m.group(1), int(m.group(2))) if m else (b, 0)


def main():
    only = [a for a in sys.argv[1:] if not a.startswith("--")]
    dry = "--dry" in sys.argv
    applied = set(l.split()[0] for l in open(APPLIED)) if os.path.exists(APPLIED) else set()
    for patch in sorted(glob.glob(os.path.join(FIX, "C*.patch")), key=natkey):
        name = os.path.basename(patch)[:-6]
        if name in applied or (only and not any(name.startswith(o) for o in only)):
            continue
        txt = patch[:-6] + ".txt"
        if not os.path.exists(txt):
            print(f"WAIT   {name}: no .txt yet"); continue
        text = open(txt).read()
        msg = re.split(r"\n\s*KNOWN_FINDINGS[^\n]*", text)[0].strip()
        if not msg.startswith("fix:"):
            print(f"SKIP   {name}: message does not start with 'fix:'"); continue
        m = re.search(r"(fixed:\s+property=\S+\s+<commit>[^\n]*)", text)
        fixed = m.group(1).strip() if m else None
        rc, out = sh(["git", "apply", "--check", patch], cwd="/repo")
        if rc != 0:
            print(f"CONFLICT {name}: {out.strip()[:300]}"); continue
        if dry:
            print(f"WOULD  {name}"); continue
        rc, out = sh(["git", "apply", patch], cwd="/repo")
        assert rc == 0, out
        sh(["git", "add", "-A", "--", "src", "include", "cmake", "test", "doc", "data", "example", "CMakeLists.txt"], cwd="/repo")
        rc, out = sh(["git", "commit", "-q", "-F", "-"], cwd="/repo", inp=msg + "\n")
        assert rc == 0, out
        _, h = sh(["git", "rev-parse", "--short", "HEAD"], cwd="/repo")
        h = h.strip()
        with open(APPLIED, "a") as fh:
            fh.write(f"{name} {h}\n")
        if fixed:
            with open(os.path.join(VERIF, "KNOWN_FINDINGS.txt"), "a") as fh:
                fh.write(fixed.replace("<commit>", h) + "\n")
        print(f"APPLIED {name} -> {h}")


if __name__ == "__main__":
    main()

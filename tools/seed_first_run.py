#!/usr/bin/env python3
"""Record the first-run result of a wave in seeded/<ID>-<wave>*/meta.json from confirm.json (written by seed_confirm.py).
  tools/seed_first_run.py <wave-letter> "<wave description>"
Only fills seeds that have a confirm.json and no confirmed_by_integrator yet."""
import glob, json, os, sys
V = os.path.dirname(os.path.dirname(os.path.abspath(__file__)))
wave, desc = sys.argv[1], sys.argv[2]
tot = {}
for d in sorted(glob.glob(os.path.join(V, "seeded", f"C??-{wave}?"))):
    cp, mp = os.path.join(d, "confirm.json"), os.path.join(d, "meta.json")
    if not os.path.exists(cp):
        continue
    c = json.load(open(cp))
    try:
        m = json.load(open(mp))
    except Exception:
        m = {}
    if not isinstance(m, dict):
        m = {"original_meta": m}
    pid = c.get("property")
    chk = (c.get("checks") or {}).get(pid) or {}
    lines = chk.get("lines") or []
    if c.get("error"):
        st = "inconclusive: " + str(c["error"])[:200]
    elif chk.get("exit") == 1 and any(l.startswith("VIOLATION") and "no-failing-input-found" not in l for l in lines):
        st = "caught-with-replay"
    elif chk.get("exit") == 1:
        st = "caught-tie-only (broken proof/correspondence, no failing input found)"
    elif chk.get("exit") == 0:
        st = "missed"
    else:
        st = f"check-broke (exit {chk.get('exit')})"
    if "confirmed_by_integrator" not in m:
        m["confirmed_by_integrator"] = {"base_commit": c.get("head"), "demo_clean_rc": c.get("demo_clean_rc"),
                                        "demo_patched_rc": c.get("demo_patched_rc"), "our_check_first_run": chk,
                                        "status_first_run": st, "wave": desc,
                                        "ran": "tools/seed_confirm.py (scratch worktree of /repo HEAD + core build; demo on clean and patched; VERIF_REPO=<patched> ./check %s --tier quick)" % pid}
        json.dump(m, open(mp, "w"), indent=1)
    k = str(m["confirmed_by_integrator"].get("status_first_run", "?")).split(" ")[0].split(":")[0]
    tot[k] = tot.get(k, 0) + 1
    print(os.path.basename(d), m["confirmed_by_integrator"]["status_first_run"][:60])
print(tot)

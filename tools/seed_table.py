#!/usr/bin/env python3
"""Regenerate Appendix C of DESIGN.md (between the markers) from seeded/*/meta.json."""
import glob, json, os, re
V = os.path.dirname(os.path.dirname(os.path.abspath(__file__)))
rows = []
for d in sorted(glob.glob(os.path.join(V, "seeded", "C*"))):
    name = os.path.basename(d)
    try:
        m = json.load(open(os.path.join(d, "meta.json")))
    except Exception:
        continue
    s = m.get("summary") or ""
    if isinstance(s, list): s = " ".join(map(str, s))
    s = re.sub(r"\s+", " ", str(s)).replace("|", "/")[:230]
    files = m.get("files_changed") or []
    if isinstance(files, str): files = [files]
    files = ", ".join(os.path.basename(str(f)) for f in files)[:70]
    ci = m.get("confirmed_by_integrator") or {}
    first = ci.get("status_first_run") or ("caught-with-replay" if (ci.get("our_check") or {}) else "?")
    if name.startswith("C13"): first = "caught-with-replay" if name != "C13-a1" else "caught (first through an over-demanding oracle clause, then through the stated clause)"
    re_ = (m.get("recheck") or {}).get("status", "?")
    rows.append(f"| {name} | {files} | {s} | {first.split(' (')[0]} | {re_} |")
tab = ("| seed | files changed | what it does | first run of the owning check | after strengthening |\n|---|---|---|---|---|\n" + "\n".join(rows))
p = os.path.join(V, "DESIGN.md")
t = open(p).read()
a, b = "<!-- SEEDED-TABLE-BEGIN -->", "<!-- SEEDED-TABLE-END -->"
if a in t:
    t = t[:t.index(a) + len(a)] + "\n" + tab + "\n" + t[t.index(b):]
    open(p, "w").write(t)
print(len(rows), "rows")

#!/bin/bash
# Build /repo's HEAD (or the given commit) in the full test tree and run the 258-test suite; compare with BASELINE.json.
set -u
C=${1:-$(git -C /repo rev-parse HEAD)}
T=/var/tmp/testtree
cd $T/src && git checkout -q --detach $C || exit 2
echo "commit $C" > $T/last.log
cmake $T/bld > $T/last_cfg.log 2>&1   # explicit re-configure: parallel generate_* tests race on it otherwise
( time nice -n 5 cmake --build $T/bld -j 12 ) > $T/last_build.log 2>&1; echo "build rc=$?" >> $T/last.log
( time ctest --test-dir $T/bld -j 12 --timeout 2400 ) > $T/last_ctest.log 2>&1
python3 - <<PY >> $T/last.log
import json,re,sys
sys.path.insert(0,'/verif/tools')
from seed_confirm import ctest_names
p,f=ctest_names(open('$T/last_ctest.log').read())
base=json.load(open('/root/.vp/BASELINE.json'))
stable={n.split('::')[0] for n in base['stable_pass']}
print('passed',len(p),'failed',sorted(f),'stable_missing',sorted(stable-p))
PY
echo DONE >> $T/last.log

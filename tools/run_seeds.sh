#!/bin/bash
# usage: run_seeds.sh PID dir1 dir2 ...
cd /verif
PID=$1; shift
for d in "$@"; do
  python3 tools/seed_confirm.py $d $PID > $d/confirm.out 2>&1
  python3 - "$d" "$PID" <<'PY' >> /var/tmp/seeds_summary.log
import json,sys
d,pid=sys.argv[1],sys.argv[2]
try:
    c=json.load(open(d+'/confirm.json'))
    print(pid,d,{k:c.get(k) for k in ['demo_clean_rc','demo_patched_rc','patch_applies','error']}, {k:(v['exit'],v['lines'][:2]) for k,v in c.get('checks',{}).items()})
except Exception as e:
    print(pid,d,'ERR',e)
PY
done

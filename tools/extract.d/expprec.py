"""EXPRESS expression grammar tables and exppp's parenthesisation rule -> Generated/ExpPrec.lean   (property C07)

From src/express/expparse.y:   the %left/%right/%nonassoc declarations (in order), the binary-operator rules of the
  `expression` and `simple_expression` non-terminals (token -> OP code), the rule-precedence marks of the unary rules,
  the sentinel label given to unlabelled WHERE rules, whether the repetition count of an aggregate initialiser has its
  own `type` overwritten (`X->type = Type_Repeat`), which field a binary literal is stored in.
  The same action snippets must be present in src/express/generated/expparse.c (that is the file that is compiled).
From src/express/expr.c:       EXPop_table tokens.
From src/exppp/pretty_expr.c:  the dispatch of EXPRop__out (which operators omit parentheses under an equal parent
  operator, printed token, padding), the field a binary literal is printed from.
From src/exppp/pretty_where.c: the label names WHERE_out treats as "no label".
From src/exppp/exppp.c:        default line length, indents, whether breakLongStr doubles apostrophes,
  whether real2exp can drop the decimal point.
Any pattern that no longer matches raises (= broken tie).
"""
import os, re


def _strip_c_comments(s):
    return re.sub(r"/\*.*?\*/", "", s, flags=re.S)


def _body(text, start_pat):
    m = re.search(start_pat, text)
    if not m:
        raise ValueError(f"pattern {start_pat!r} not found")
    j = text.index("{", m.end() - 1)
    depth, k = 0, j
    while True:
        c = text[k]
        if c == "{":
            depth += 1
        elif c == "}":
            depth -= 1
            if depth == 0:
                break
        k += 1
    return text[j + 1:k]


def _lstr(s):
    return '"' + s.replace("\\", "\\\\").replace('"', '\\"') + '"'


def _llist(xs):
    return "[" + ", ".join(xs) + "]"


def _actions(y, lhs_pat):
    """all (rule text, action body) of rules whose left side matches"""
    out = []
    for m in re.finditer(r"^(" + lhs_pat + r")\s*(?:\(\w+\))?\s*::=([^{]*?)\.\s*(?:\[(\w+)\])?\s*\n\{", y, re.M):
        body = _body(y[m.end() - 1:], r"\{")
        out.append((m.group(1), " ".join(m.group(2).split()), m.group(3), body))
    return out


def extract(repo):
    y_raw = open(os.path.join(repo, "src/express/expparse.y")).read()
    y = y_raw
    gen = open(os.path.join(repo, "src/express/generated/expparse.c")).read()
    exprc = open(os.path.join(repo, "src/express/expr.c")).read()
    pe = open(os.path.join(repo, "src/exppp/pretty_expr.c")).read()
    pw = open(os.path.join(repo, "src/exppp/pretty_where.c")).read()
    ex = open(os.path.join(repo, "src/exppp/exppp.c")).read()

    # ---- precedence declarations, in file order
    decls = []
    for m in re.finditer(r"^%(left|right|nonassoc)\s+([^.]*)\.", y, re.M):
        toks = m.group(2).split()
        if not toks or any(not t.startswith("TOK_") for t in toks):
            raise ValueError(f"unexpected precedence declaration {m.group(0)!r}")
        decls.append((m.group(1), toks))
    if len(decls) < 5:
        raise ValueError("fewer than 5 precedence declarations found in expparse.y")

    # ---- binary rules per non-terminal
    def bin_rules(nt):
        rules = []
        for lhs, rhs, mark, body in _actions(y, nt):
            mm = re.fullmatch(nt + r"\(\w\) (TOK_\w+) " + nt + r"\(\w\)", rhs)
            if mm:
                op = re.search(r"BIN_EXPcreate\(\s*(OP_\w+)\s*,\s*B\s*,\s*C\s*\)", body)
                if not op:
                    raise ValueError(f"rule {lhs} ::= {rhs}: BIN_EXPcreate(OP, B, C) not found")
                rules.append((mm.group(1), op.group(1)))
        return rules
    expr_rules = bin_rules("expression")
    simple_rules = bin_rules("simple_expression")
    if len(expr_rules) < 10 or len(simple_rules) < 6:
        raise ValueError(f"binary rules not found (expression {len(expr_rules)}, simple_expression {len(simple_rules)})")
    # chain rules expression ::= simple_expression ; simple_expression ::= unary_expression
    if not re.search(r"^expression\(A\)\s*::=\s*simple_expression\(B\)\s*\.", y, re.M) or \
       not re.search(r"^simple_expression\(A\)\s*::=\s*unary_expression\(B\)\s*\.", y, re.M):
        raise ValueError("stratification rules expression ::= simple_expression ::= unary_expression not found")

    # ---- unary rules
    unary = []
    for lhs, rhs, mark, body in _actions(y, "unary_expression"):
        mm = re.fullmatch(r"(TOK_\w+) unary_expression\(\w\)", rhs)
        if mm:
            op = re.search(r"UN_EXPcreate\(\s*(OP_\w+)\s*,\s*B\s*\)", body)
            unary.append((mm.group(1), op.group(1) if op else "", mark or mm.group(1)))
    if sorted(u[0] for u in unary) != ["TOK_MINUS", "TOK_NOT", "TOK_PLUS"]:
        raise ValueError(f"unary rules changed: {unary}")
    if not re.search(r"^unary_expression\(A\)\s*::=\s*unary_expression\(B\)\s+qualifier\(C\)\s*\.", y, re.M):
        raise ValueError("rule unary_expression ::= unary_expression qualifier not found")
    # index qualifiers take simple_expression
    nq = len(re.findall(r"^qualifier\(A\)\s*::=\s*TOK_LEFT_BRACKET\s+simple_expression\(B\)", y, re.M))
    if nq != 2:
        raise ValueError("index qualifier rules (simple_expression operands) not found")

    # ---- WHERE sentinel
    sentinel = None
    for lhs, rhs, mark, body in _actions(y, "where_clause"):
        if rhs.startswith("expression("):
            mm = re.search(r'A->label\s*=\s*SYMBOLcreate\(\s*"([^"]*)"', body)
            if mm:
                sentinel = mm.group(1)
            elif re.search(r"A->label\s*=\s*(0|NULL|\(Symbol\s*\*\)\s*0)\s*;", body) or "A->label" not in body:
                sentinel = ""
            else:
                raise ValueError("where_clause (unlabelled): cannot tell what the label is set to")
            where_snip = body
    if sentinel is None:
        raise ValueError("unlabelled where_clause rule not found")

    # ---- repetition count
    rep_over = []
    rep_snips = []
    for lhs, rhs, mark, body in _actions(y, "aggregate_init_body"):
        if "TOK_COLON" in rhs:
            cnt = re.search(r"TOK_COLON expression\((\w)\)", rhs).group(1)
            rep_over.append(bool(re.search(r"\b" + cnt + r"->type\s*=\s*Type_Repeat\s*;", body)))
            rep_snips.append(body)
    if len(rep_over) != 2 or rep_over[0] != rep_over[1]:
        raise ValueError(f"aggregate_init_body repetition rules: {rep_over}")
    # ---- binary literal field
    bl = None
    for lhs, rhs, mark, body in _actions(y, "literal"):
        if "TOK_BINARY_LITERAL" in rhs:
            mm = re.search(r"A->([\w.]+)\s*=\s*B\.binary\s*;", body)
            if not mm:
                raise ValueError("binary literal rule: assignment of B.binary not found")
            bl = mm.group(1)
            bin_snip = body
    if bl is None:
        raise ValueError("binary literal rule not found")
    # the compiled parser is generated/expparse.c: the same action text must be there
    def norm_ws(s):
        return re.sub(r"\s+", "", re.sub(r"\byy(lhsminor|msp\[[^\]]*\]\.minor)\.yy\d+", "_", s))
    gen_n = re.sub(r"\s+", "", _strip_c_comments(gen))
    for nm, snip in [("where_clause", where_snip), ("aggregate_init_body", rep_snips[0]), ("literal(binary)", bin_snip)]:
        lines = [l.strip() for l in _strip_c_comments(snip).strip().split("\n") if l.strip()]
        for l in lines:
            # A/B/C.. are renamed by lemon: compare the part right of the first '=' or the whole call
            key = re.sub(r"\s+", "", l)
            key = re.sub(r"\b[A-D]\b", "@", key)
            pat = re.escape(key).replace("@", r"yy\w+(?:\[-?\d+\])?(?:\.minor)?(?:\.yy\d+)?")
            if not re.search(pat, gen_n):
                raise ValueError(f"src/express/generated/expparse.c is out of date with expparse.y: action of {nm}: {l!r} not found")

    # ---- EXPop_table
    optab = re.findall(r'EXPop_create\(\s*(OP_\w+)\s*,\s*"((?:[^"\\]|\\.)*)"', exprc)
    if len(optab) < 25:
        raise ValueError("EXPop_create table not found")
    optab = [(a, bytes(b, "ascii").decode("unicode_escape")) for a, b in optab]

    # ---- EXPRop__out dispatch
    body = _strip_c_comments(_body(pe, r"void\s+EXPRop__out\s*\([^)]*\)\s*\{"))
    sw = _body(body, r"switch\s*\(\s*oe->op_code\s*\)\s*\{")
    dispatch = []
    index_paren = []
    for chunk in sw.split("break;"):
        cases = re.findall(r"case\s+(OP_\w+)\s*:", chunk)
        if not cases:
            if "default" in chunk or not chunk.strip():
                continue
            raise ValueError(f"EXPRop__out: unrecognised chunk {chunk.strip()[:60]!r}")
        rest = chunk[list(re.finditer(r"case\s+OP_\w+\s*:", chunk))[-1].end():].strip()
        m1 = re.fullmatch(r'EXPRop2__out\(\s*oe\s*,\s*(?:\(\s*char\s*\*\s*\)\s*0|NULL|0|"((?:[^"\\]|\\.)*)")\s*,\s*paren\s*,\s*(PAD|NOPAD)\s*,\s*previous_op\s*\)\s*;', rest)
        m2 = re.fullmatch(r'EXPRop2_out\(\s*oe\s*,\s*(?:\(\s*char\s*\*\s*\)\s*0|NULL|0|"((?:[^"\\]|\\.)*)")\s*,\s*paren\s*,\s*(PAD|NOPAD)\s*\)\s*;', rest)
        m3 = re.fullmatch(r'EXPRop1_out\(\s*oe\s*,\s*"((?:[^"\\]|\\.)*)"\s*,\s*paren\s*\)\s*;', rest)
        for c in cases:
            if m1:
                tok = bytes(m1.group(1), "ascii").decode("unicode_escape") if m1.group(1) is not None else ""
                dispatch.append((c, "op2prev", tok, m1.group(2) == "PAD"))
            elif m2:
                tok = bytes(m2.group(1), "ascii").decode("unicode_escape") if m2.group(1) is not None else ""
                dispatch.append((c, "op2", tok, m2.group(2) == "PAD"))
            elif m3:
                dispatch.append((c, "op1", m3.group(1), False))
            elif c in ("OP_ARRAY_ELEMENT", "OP_SUBCOMPONENT"):
                def shape(a2, a3):
                    return re.sub(r"\s+", "", "EXPR_out( oe->op1, 1 ); wrap( \"[\" ); EXPR_out( oe->op2, " + a2 + " ); " +
                                  ("wrap( \" : \" ); EXPR_out( oe->op3, " + a3 + " ); " if c == "OP_SUBCOMPONENT" else "") + "raw( \"]\" );")
                got = re.sub(r"\s+", "", rest)
                if got == shape("0", "0"):
                    index_paren.append(False)
                elif got == shape("EXPRindex_paren( oe->op2 )", "EXPRindex_paren( oe->op3 )"):
                    index_paren.append(True)
                else:
                    raise ValueError(f"EXPRop__out: case {c} changed: {rest!r}")
                dispatch.append((c, "index", "", False))
            else:
                raise ValueError(f"EXPRop__out: case {c}: unrecognised call {rest[:80]!r}")
    # (the bodies of EXPRop2__out / EXPRop1_out are not pattern-matched: the byte comparison with exppp covers them)
    if not re.search(r"#define\s+EXPRop2_out\(oe,string,paren,pad\)\s*\\\s*\n\s*EXPRop2__out\(oe,string,paren,pad,OP_UNKNOWN\)",
                     open(os.path.join(repo, "src/exppp/pretty_expr.h")).read()):
        raise ValueError("macro EXPRop2_out no longer passes OP_UNKNOWN")
    if len(index_paren) != 2 or index_paren[0] != index_paren[1]:
        raise ValueError(f"EXPRop__out: index cases inconsistent: {index_paren}")
    index_ops = []
    if index_paren[0]:
        ib = _strip_c_comments(_body(pe, r"static\s+int\s+EXPRindex_paren\s*\([^)]*\)\s*\{"))
        index_ops = re.findall(r"case\s+(OP_\w+)\s*:", ib)
        if not re.search(r"return\s+1\s*;\s*default\s*:\s*return\s+0\s*;", ib) or not index_ops:
            raise ValueError("EXPRindex_paren: shape changed")
    # binary literal printed from
    mm = re.search(r'case\s+binary_\s*:\s*wrap\(\s*"%%%s"\s*,\s*e->([\w.]+)\s*\)', pe)
    if not mm:
        raise ValueError("EXPR__out: binary_ case not found")
    bin_print = mm.group(1)

    # ---- WHERE_out: which labels count as "no label"
    wb = _strip_c_comments(_body(pw, r"void\s+WHERE_out\s*\([^)]*\)\s*\{"))
    no_label = re.findall(r'strcmp\(\s*(?:w->label->name\s*,\s*"([^"]*)"|"([^"]*)"\s*,\s*w->label->name)\s*\)', wb)
    no_label = sorted({a or b for a, b in no_label})
    helper = re.findall(r"\b(\w+)\(\s*w\s*\)", wb)
    for h in set(helper):
        hm = re.search(r"\b" + h + r"\s*\(\s*Where\s+\w+\s*\)\s*\{", pw)
        if hm:
            hb = _body(pw, r"\b" + h + r"\s*\(\s*Where\s+\w+\s*\)\s*\{")
            no_label += [a or b for a, b in re.findall(r'strcmp\(\s*(?:\w+->label->name\s*,\s*"([^"]*)"|"([^"]*)"\s*,\s*\w+->label->name)\s*\)', hb)]
    no_label = sorted(set(no_label))
    if not re.search(r"EXPR_out\(\s*w->expr\s*,\s*max_indent\s*\)", wb):
        raise ValueError("WHERE_out: EXPR_out( w->expr, max_indent ) not found (paren argument changed)")

    # ---- exppp.c constants and string escaping
    def const(name):
        m = re.search(r"\b" + name + r"\s*=\s*(\d+)\s*;", ex)
        if not m:
            raise ValueError(f"{name} not found in exppp.c")
        return int(m.group(1))
    nesting, cont, ll = const("exppp_nesting_indent"), const("exppp_continuation_indent"), const("exppp_linelength")
    bls = _strip_c_comments(_body(ex, r"void\s+breakLongStr\s*\([^)]*\)\s*\{"))
    if re.search(r"void\s+breakLongStr_paren\s*\([^)]*\)\s*\{", ex):
        bls += _strip_c_comments(_body(ex, r"void\s+breakLongStr_paren\s*\([^)]*\)\s*\{"))
    doubles = bool(re.search(r"'\\''", bls))
    r2e = _strip_c_comments(_body(ex, r"const\s+char\s*\*\s*real2exp\s*\([^)]*\)\s*\{"))
    drops_point = bool(re.search(r"\*\(\s*firstUnnecessaryDigit\s*-\s*1\s*\)\s*=\s*'\\0'", r2e))

    # split string literals in operand position
    mm = re.search(r"case\s+string_\s*:(.*?)break\s*;", _strip_c_comments(pe), re.S)
    if not mm:
        raise ValueError("EXPR__out: string_ case not found")
    sc = re.sub(r"\s+", "", mm.group(1))
    if "breakLongStr(e->symbol.name);" in sc:
        split_paren = False
    elif "breakLongStr_paren(e->symbol.name,paren&&(previous_op!=OP_PLUS));" in sc:
        split_paren = True
    else:
        raise ValueError("EXPR__out: string_ case: call of breakLongStr not recognised")

    # ---- declarations: which simple types get ( precision ) / FIXED printed; does ALGargs_out compare VAR when it merges parameters
    pt = _strip_c_comments(open(os.path.join(repo, "src/exppp/pretty_type.c")).read())
    tbo = _body(pt, r"void\s+TYPE_body_out\s*\([^)]*\)\s*\{")
    swm = re.search(r"switch\s*\(\s*tb->type\s*\)\s*\{", tbo)
    if not swm:
        raise ValueError("TYPE_body_out: switch( tb->type ) not found")
    swb = _body(tbo[swm.start():], r"switch\s*\(\s*tb->type\s*\)\s*\{")
    after = tbo[swm.start() + tbo[swm.start():].index(swb) + len(swb):]
    kinds_all = ["INTEGER", "REAL", "STRING", "BINARY", "BOOLEAN", "LOGICAL", "NUMBER"]
    if re.search(r"tb->precision", after) and re.search(r"tb->flags\.fixed", after):
        prec_kinds = kinds_all
    else:
        helpers = [m.group(1) for m in re.finditer(r"(?:static\s+)?void\s+(\w+)\s*\(\s*TypeBody\s+\w+\s*\)\s*\{", pt)
                   if "->precision" in _body(pt, r"void\s+" + m.group(1) + r"\s*\(\s*TypeBody\s+\w+\s*\)\s*\{")]
        prec_kinds = []
        for cm in re.finditer(r"case\s+(\w+)_\s*:(.*?)break\s*;", swb, re.S):
            if any(re.search(r"\b" + h + r"\s*\(", cm.group(2)) for h in helpers) or "tb->precision" in cm.group(2):
                # consecutive case labels share the block
                labels = re.findall(r"case\s+(\w+)_\s*:", cm.group(0))
                prec_kinds += [l.upper() for l in labels if l.upper() in kinds_all]
        if not helpers and not prec_kinds and "tb->precision" not in tbo:
            prec_kinds = []
    pa = _strip_c_comments(open(os.path.join(repo, "src/exppp/pretty_alg.c")).read())
    ab = _body(pa, r"void\s+ALGargs_out\s*\([^)]*\)\s*\{")
    if not re.search(r"previoustype\s*(?:!=|==)\s*v->type", ab):
        raise ValueError("ALGargs_out: comparison of previoustype with v->type not found")
    merge_var = bool(re.search(r"previousVAR\s*!=\s*v->flags\.var", ab))

    # ---- remark sites of exppp: a `--` remark must be printed raw and the line must end (raw "\n") before anything else is printed
    import glob as _glob
    remark_sites = []
    for cf in sorted(_glob.glob(os.path.join(repo, "src/exppp/*.c"))):
        base = os.path.basename(cf)
        if base == "exppp-main.c":
            continue
        ctext = _strip_c_comments(open(cf).read())
        for fm in re.finditer(r"^(?:static\s+)?(?:const\s+)?[A-Za-z_][\w\s\*]*?\b(\w+)\s*\([^;{)]*\)\s*\{", ctext, re.M):
            try:
                fb = _body(ctext[fm.start():], r"\{")
            except Exception:
                continue
            for cm in re.finditer(r'\b(raw|wrap)\(\s*"((?:[^"\\]|\\.)*)"', fb):
                fmt = cm.group(2)
                if "--" not in fmt:
                    continue
                closed = "\\n" in fmt
                if not closed:
                    rest = fb[cm.end():]
                    rest = rest[rest.index(";") + 1:] if ";" in rest else ""
                    # statements that follow, until a raw call that prints a newline
                    ok_chain = False
                    while True:
                        mm = re.match(r'[\s{}]*(raw|wrap|[A-Za-z_]\w*)\s*\(', rest)
                        if not mm:
                            break
                        if mm.group(1) != "raw":
                            break
                        sm = re.match(r'[\s{}]*raw\(\s*"((?:[^"\\]|\\.)*)"[^;]*;', rest)
                        if not sm:
                            break
                        if "\\n" in sm.group(1):
                            ok_chain = True
                            break
                        rest = rest[sm.end():]
                    closed = ok_chain
                remark_sites.append((f"{base}:{fm.group(1)}", cm.group(1), closed))
    if not remark_sites:
        raise ValueError("no remark site found in src/exppp (tail_comment's raw( \" -- %s\" ) expected)")
    # ---- LOCAL block: the width of the name column is the longest name (and the block is skipped only when it is 0)
    ps = _strip_c_comments(open(os.path.join(repo, "src/exppp/pretty_scope.c")).read())
    lb = _body(ps, r"void\s+SCOPElocals_out\s*\([^)]*\)\s*\{")
    if not re.search(r"if\s*\(\s*!\s*max_indent\s*\)\s*\{\s*return\s*;", lb):
        raise ValueError("SCOPElocals_out: `if( !max_indent ) return;` not found")
    head = lb[:re.search(r"if\s*\(\s*!\s*max_indent\s*\)", lb).start()]
    assigns = re.findall(r"max_indent\s*=\s*([^;]+);", head)
    locals_plain = (len(assigns) == 2 and assigns[0].strip() == "0"
                    and re.sub(r"\s+", "", assigns[1]) == "strlen(v->name->symbol.name)"
                    and bool(re.search(r"if\s*\(\s*strlen\(\s*v->name->symbol\.name\s*\)\s*>\s*max_indent\s*\)", head)))

    # ---- which previous_op EXPRop2__out hands to its two operands (an operand of the same operator drops its parentheses
    # when it is handed the parent's operator)
    op2b = _strip_c_comments(_body(pe, r"void\s+EXPRop2__out\s*\([^)]*\)\s*\{"))
    calls = re.findall(r"EXPR__out\(\s*eo->op([12])\s*,\s*1\s*,\s*([\w>-]+)\s*\)", op2b)
    if [c[0] for c in calls] != ["1", "2"] or any(c[1] not in ("eo->op_code", "OP_UNKNOWN") for c in calls):
        raise ValueError(f"EXPRop2__out: operand calls not recognised ({calls})")
    left_sees, right_sees = calls[0][1] == "eo->op_code", calls[1][1] == "eo->op_code"
    if not left_sees:
        raise ValueError("EXPRop2__out: the left operand is no longer handed the parent operator (model assumes it is)")

    # ---- the printf formats real2exp starts from (the model's REAL literals are the `%#.15g` text: the # flag keeps the point)
    real_formats = re.findall(r'snprintf\(\s*result\s*,\s*PP_SMALL_BUF_SZ\s*,\s*"([^"]*)"', r2e)
    if not real_formats:
        raise ValueError("real2exp: no snprintf( result, PP_SMALL_BUF_SZ, \"…\" ) found")

    # ---- the paren argument EXPRop1_out hands to the operand of NOT / unary minus ("1": always parenthesised when it is an
    # operator expression; anything else, e.g. a function of the operand, is recorded as the text)
    op1b = _strip_c_comments(_body(pe, r"void\s+EXPRop1_out\s*\([^)]*\)\s*\{"))
    m1c = re.findall(r"EXPR_out\(\s*eo->op1\s*,\s*(.+?)\s*\)\s*;", op1b)
    if len(m1c) != 1:
        raise ValueError(f"EXPRop1_out: operand call not recognised ({m1c})")
    unary_operand_paren = m1c[0]

    # ---- spellings of the constants PI and e at both printers (EXPR__out: wrap, EXPRstring: strcpy into the buffer)
    const_sp = []
    for cname in ("PI", "E"):
        for site, rx in (("wrap", r'e\s*==\s*LITERAL_%s\s*\)\s*\{\s*wrap\(\s*"([^"]*)"\s*\)' % cname),
                         ("buffer", r'e\s*==\s*LITERAL_%s\s*\)\s*\{\s*strcpy\(\s*buffer\s*,\s*"([^"]*)"\s*\)' % cname)):
            m = re.findall(rx, pe)
            if len(m) != 1:
                raise ValueError(f"spelling of LITERAL_{cname} ({site}) not found in pretty_expr.c")
            const_sp.append((cname, site, m[0]))

    # ---- scanner tables: keyword table of lexact.c, operator/punctuation rules of expscan.l
    lx = open(os.path.join(repo, "src/express/lexact.c")).read()
    kwtab = re.findall(r'\{\s*"([A-Z_0-9]+)"\s*,\s*(TOK_\w+)\s*\}', lx)
    if len(kwtab) < 100:
        raise ValueError(f"keyword table of lexact.c not found ({len(kwtab)} entries)")
    sl = open(os.path.join(repo, "src/express/expscan.l")).read()
    symtab = re.findall(r'^"((?:[^"\\]|\\.)+)"\s*\{\s*return\s+(TOK_\w+)\s*;\s*\}', sl, re.M)
    symtab = [(bytes(a, "ascii").decode("unicode_escape"), b) for a, b in symtab]
    if len(symtab) < 25:
        raise ValueError(f"operator rules of expscan.l not found ({len(symtab)})")

    L = []
    L.append("-- GENERATED by tools/extract.d/expprec.py from src/express/expparse.y (+ generated/expparse.c), src/express/expr.c,")
    L.append("-- src/exppp/pretty_expr.c, pretty_expr.h, pretty_where.c, exppp.c")
    L.append("namespace StepModel.Generated.ExpPrec\n")
    L.append("/-- `%left/%right/%nonassoc` declarations of expparse.y in file order (first = lowest precedence) -/")
    L.append("def precDecls : List (String × List String) := " +
             _llist(["(" + _lstr(a) + ", " + _llist([_lstr(t) for t in ts]) + ")" for a, ts in decls]))
    L.append("/-- rules `expression ::= expression TOK expression` : (TOK, OP code) -/")
    L.append("def exprRules : List (String × String) := " + _llist([f"({_lstr(a)}, {_lstr(b)})" for a, b in expr_rules]))
    L.append("/-- rules `simple_expression ::= simple_expression TOK simple_expression` : (TOK, OP code) -/")
    L.append("def simpleRules : List (String × String) := " + _llist([f"({_lstr(a)}, {_lstr(b)})" for a, b in simple_rules]))
    L.append("/-- rules `unary_expression ::= TOK unary_expression` : (TOK, OP code or \"\" when the operator is dropped, precedence token of the rule) -/")
    L.append("def unaryRules : List (String × String × String) := " + _llist([f"({_lstr(a)}, {_lstr(b)}, {_lstr(c)})" for a, b, c in unary]))
    L.append("/-- `EXPop_table` : (OP code, token) -/")
    L.append("def opTable : List (String × String) := " + _llist([f"({_lstr(a)}, {_lstr(b)})" for a, b in optab]))
    L.append("/-- dispatch of `EXPRop__out` : (OP code, kind, token override, padded); kind `op2prev` = parentheses omitted under an equal parent operator -/")
    L.append("def opDispatch : List (String × String × String × Bool) := " +
             _llist([f"({_lstr(a)}, {_lstr(b)}, {_lstr(c)}, {'true' if d else 'false'})" for a, b, c, d in dispatch]))
    L.append("/-- label the parser gives an unlabelled WHERE rule (\"\" = none) -/")
    L.append(f"def unnamedLabel : String := {_lstr(sentinel)}")
    L.append("/-- label names `WHERE_out` prints as \"no label\" -/")
    L.append("def whereNoLabelNames : List String := " + _llist([_lstr(s) for s in no_label]))
    L.append("/-- the parser overwrites the `type` of the repetition-count expression itself (shared literal nodes included) -/")
    L.append(f"def repeatOverwritesCountType : Bool := {'true' if rep_over[0] else 'false'}")
    L.append("/-- field the parser stores a binary literal in / field exppp prints it from -/")
    L.append(f"def binaryStoredIn : String := {_lstr(bl)}")
    L.append(f"def binaryPrintedFrom : String := {_lstr(bin_print)}")
    L.append("/-- `breakLongStr` doubles apostrophes -/")
    L.append(f"def stringQuoteDoubled : Bool := {'true' if doubles else 'false'}")
    L.append("/-- `real2exp` can remove the decimal point (turning a real literal into an integer literal) -/")
    L.append(f"def realDropsPoint : Bool := {'true' if drops_point else 'false'}")
    L.append("/-- a simple string literal that has to be split is printed as ( 'a' + 'b' ) in operand position (not under +) -/")
    L.append(f"def splitLiteralParen : Bool := {'true' if split_paren else 'false'}")
    L.append("/-- operators whose expression, as operand of an index qualifier, is printed in parentheses (`EXPRindex_paren`) -/")
    L.append("def indexParenOps : List String := " + _llist([_lstr(o) for o in index_ops]))
    L.append("/-- simple types after which `TYPE_body_out` prints `( precision )` and `FIXED` -/")
    L.append("def precisionKinds : List String := " + _llist([_lstr(k) for k in prec_kinds]))
    L.append("/-- `ALGargs_out` starts a new parameter group when the VAR flag changes (not only when the type object changes) -/")
    L.append(f"def argsMergeChecksVar : Bool := {'true' if merge_var else 'false'}")
    L.append("/-- every place where exppp prints a `--` remark: (file:function, call, the remark is followed only by raw calls up to a raw newline) -/")
    L.append("def remarkSites : List (String × String × Bool) := " + _llist([f"({_lstr(a)}, {_lstr(b)}, {'true' if c else 'false'})" for a, b, c in remark_sites]))
    L.append("/-- `SCOPElocals_out` sizes the name column by the longest local name (so `if( !max_indent ) return;` means: no locals) -/")
    L.append(f"def localsWidthIsNameLength : Bool := {'true' if locals_plain else 'false'}")
    L.append("/-- `EXPRop2__out` hands its operator to the RIGHT operand as previous_op (so `a + (b + c)` loses its parentheses) -/")
    L.append(f"def rightOperandSeesParent : Bool := {'true' if right_sees else 'false'}")
    L.append("/-- the `paren` argument `EXPRop1_out` hands to the operand of NOT / unary minus (the model prints that operand with `paren = true`) -/")
    L.append(f"def unaryOperandParen : String := {_lstr(unary_operand_paren)}")
    L.append("/-- the printf formats `real2exp` formats the value with (before it removes trailing zeros) -/")
    L.append("def realFormats : List String := " + _llist([_lstr(f) for f in real_formats]))
    L.append("/-- what exppp writes for the constants: (constant, printer: wrap = EXPR__out / buffer = EXPRstring, text) -/")
    L.append("def constSpellings : List (String × String × String) := " + _llist([f"({_lstr(a)}, {_lstr(b)}, {_lstr(c)})" for a, b, c in const_sp]))
    L.append(f"def piText : String := {_lstr([c for a, b, c in const_sp if a == 'PI' and b == 'wrap'][0])}")
    L.append(f"def eText : String := {_lstr([c for a, b, c in const_sp if a == 'E' and b == 'wrap'][0])}")
    L.append("/-- keyword table of the scanner (lexact.c): (word, token) -/")
    L.append("def scannerKeywords : List (String × String) := " + _llist([f"({_lstr(a)}, {_lstr(b)})" for a, b in kwtab]))
    L.append("/-- operator and punctuation rules of the scanner (expscan.l): (spelling, token) -/")
    L.append("def scannerSymbols : List (String × String) := " + _llist([f"({_lstr(a)}, {_lstr(b)})" for a, b in symtab]))
    L.append(f"def nestingIndent : Nat := {nesting}")
    L.append(f"def continuationIndent : Nat := {cont}")
    L.append(f"def defaultLineLength : Nat := {ll}")
    L.append("\nend StepModel.Generated.ExpPrec\n")
    return {"ExpPrec.lean": "\n".join(L)}

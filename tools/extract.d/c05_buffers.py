"""C05: fixed-capacity sites, loop guards and limits of the Part 21 reader -> Generated/C05Buffers.lean

Every capacity / guard / limit the C05 theorems mention is re-derived from the working tree, so that a changed
array size, a removed loop guard or a changed limit re-checks (and, when unsafe, breaks) the proof.
Sites (anchors of C05):
  ReadReal buf                         src/clstepcore/read_func.cc
  StrToLower/StrToUpper/StrToConstant  src/clutils/Str.cc            (std::string& variants: `newword`)
  PrettyTmpName newname + loop guard   src/clutils/Str.cc
  EntNode::name, ctor copy, Name()     include/clstepcore/complexSupport.h
  entNmArr + loop guard                src/cleditor/STEPfile.cc      (CreateSubSuperInstance)
  STEPcomplex ctor nms                 src/clstepcore/STEPcomplex.cc
  MAX_COMMENT_LENGTH + ReadComment guard, _maxErrorCount, FindHeaderSection getline count + exit test,
  export-list loops, PushPastImbedAggr frame buffer
  every sprintf into a fixed buffer in the anchored files (format, capacity, %s argument classes)
A shape that is not recognised raises (= broken tie): the model has no clause for it.
White space and comments are ignored.
"""
import os, re, subprocess


# ------------------------------------------------------------------ helpers
def _strip(text):
    """remove comments, keep line structure"""
    text = re.sub(r"/\*.*?\*/", lambda m: " " + "\n" * m.group(0).count("\n"), text, flags=re.S)
    text = re.sub(r"//[^\n]*", " ", text)
    return text


def _body(text, sig, what=None):
    """text of the {...} block that follows the first occurrence of regex `sig`"""
    m = re.search(sig, text)
    if not m:
        raise ValueError(f"{what or sig}: definition not found")
    j = text.index("{", m.end() - 1 if text[m.end() - 1] == "{" else m.end())
    depth, k = 0, j
    while True:
        ch = text[k]
        if ch == "{":
            depth += 1
        elif ch == "}":
            depth -= 1
            if depth == 0:
                break
        k += 1
    return text[j + 1:k]


def _ws(s):
    return re.sub(r"\s+", "", s)


def _bufsiz():
    r = subprocess.run(["g++", "-dM", "-E", "-x", "c++", "-include", "stdio.h", "/dev/null"],
                       capture_output=True, text=True)
    m = re.search(r"#define\s+BUFSIZ\s+(\d+)", r.stdout)
    if not m:
        raise ValueError("BUFSIZ not found in <stdio.h> of the build compiler")
    return int(m.group(1))


class Env:
    def __init__(self, consts):
        self.c = dict(consts)

    def ev(self, expr):
        """integer value of a C constant expression over + - * ( ) literals and known constants"""
        e = expr.strip()
        toks = re.findall(r"\d+|[A-Za-z_]\w*|[-+*()]", e)
        if "".join(toks) != _ws(e):
            raise ValueError(f"cannot evaluate constant expression {expr!r}")
        out = []
        for t in toks:
            if re.match(r"[A-Za-z_]", t):
                if t not in self.c:
                    raise ValueError(f"unknown constant {t!r} in {expr!r}")
                out.append(str(self.c[t]))
            else:
                out.append(t)
        v = eval("".join(out), {"__builtins__": {}})
        if not isinstance(v, int) or v < 0:
            raise ValueError(f"constant expression {expr!r} = {v!r}")
        return v


def _opt(v):
    return "none" if v is None else f"(some {v})"


# ------------------------------------------------------------------ sites
def read_real(rf, env):
    """keyed on structure: the array (or string) that receives `in.get( A[I++] )` / `S += in.get()`, whatever its name"""
    b = _strip(_body(rf, r"int\s+ReadReal\s*\(\s*SDAI_Real\s*&", "ReadReal"))
    st = re.findall(r"in\s*\.\s*get\s*\(\s*(\w+)\s*\[\s*(\w+)\s*\+\+\s*\]\s*\)", b)
    if st:
        names = {x for x, _ in st}; idxs = {y for _, y in st}
        if len(names) != 1 or len(idxs) != 1:
            raise ValueError("ReadReal: stores go to more than one array / index")
        A, I = names.pop(), idxs.pop()
        m = re.search(r"\bchar\s+" + A + r"\s*\[\s*([^\]]+)\]\s*;", b)
        if not m:
            raise ValueError(f"ReadReal: declaration of the array {A} not found")
        cap = env.ev(m.group(1))
        other = re.findall(A + r"\s*\[[^\]]*\]\s*=[^=]", b)
        if len(other) != 1 or not re.search(A + r"\s*\[\s*" + I + r"\s*\]\s*=\s*(?:'\\0'|0)\s*;", b):
            raise ValueError("ReadReal: terminator store `A[i] = '\\0'` not recognised")
        g = re.findall(r"\b" + I + r"\s*<\s*([A-Za-z_0-9 +\-*()]+?)\s*[)&|]", b)
        if g:
            vals = {env.ev(re.sub(r"sizeof\s*\(?\s*" + A + r"\s*\)?", str(cap), x)) for x in g}
            if len(g) < len(st) or len(vals) != 1:
                raise ValueError("ReadReal: partial / non-uniform index guards are not modelled")
            return f".fixed {cap}", _opt(vals.pop()), len(st)
        return f".fixed {cap}", "none", len(st)
    st = re.findall(r"\b(\w+)\s*(?:\+=|\.\s*push_back\s*\()\s*\(?\s*(?:\(\s*char\s*\)\s*)?in\s*\.\s*get\s*\(\s*\)", b)
    if st:
        if len(set(st)) != 1:
            raise ValueError("ReadReal: stores go to more than one string")
        S = st[0]
        if not re.search(r"\b(?:std::)?string\s+" + S + r"\s*;", b):
            raise ValueError(f"ReadReal: {S} is not a std::string")
        if re.search(S + r"\s*\[[^\]]*\]\s*=[^=]|in\s*\.\s*get\s*\(\s*" + S + r"\s*\[", b):
            raise ValueError("ReadReal: std::string written through an index")
        return ".growable", "none", len(st)
    raise ValueError("ReadReal: no store of the shape `in.get( A[i++] )` or `S += in.get()` found")


def str_to(strcc, fn, env):
    """keyed on structure: the function's `const char *` parameter, its `std::string &` parameter, and — if there is one —
    the local char array the characters are copied through (whatever the names)"""
    sig = r"const\s+char\s*\*\s*" + fn + r"\s*\(\s*const\s+char\s*\*\s*(\w+)\s*,\s*std::string\s*&\s*(\w+)\s*\)"
    m0 = re.search(sig, strcc)
    if not m0:
        raise ValueError(f"{fn}( const char *, std::string & ) not found")
    W, S = m0.group(1), m0.group(2)
    b = _strip(_body(strcc, sig, fn))
    m = re.search(r"\bchar\s+(\w+)\s*\[\s*([^\]]+)\]\s*;", b)
    if m:
        A, cap = m.group(1), env.ev(m.group(2))
        st = re.findall(A + r"\s*\[\s*(\w+)\s*\]\s*=[^=]", b)
        if not st or len(set(st)) != 1:
            raise ValueError(f"{fn}: stores into {A} not recognised")
        I = st[0]
        loop = re.search(r"(?:while|for)\s*\(([^{]*)\)\s*\{", b)
        if not loop or _ws(W + "[" + I + "]!='\\0'") not in _ws(loop.group(1)).replace("*(" + W + "+" + I + ")", W + "[" + I + "]"):
            raise ValueError(f"{fn}: loop condition not recognised")
        g = re.search(r"\b" + I + r"\s*<\s*([A-Za-z_0-9 +\-*()]+?)\s*[)&;]", loop.group(1) + ")")
        guard = env.ev(re.sub(r"sizeof\s*\(?\s*" + A + r"\s*\)?", str(cap), g.group(1))) if g else None
        if not re.search(A + r"\s*\[\s*" + I + r"\s*\]\s*=\s*(?:'\\0'|0)\s*;", b):
            raise ValueError(f"{fn}: terminator store not recognised")
        return f".fixed {cap}", _opt(guard)
    if re.search(r"\bchar\s+\w+\s*\[", b) or re.search(r"\b(?:alloca|malloc)\s*\(", b):
        raise ValueError(f"{fn}: scratch storage not recognised")
    if not re.search(r"\b" + S + r"\s*\+=|\b" + S + r"\s*\.\s*(?:push_back|append|assign)\s*\(|\b" + S + r"\s*=\s*" + W + r"\b|std::transform", b):
        raise ValueError(f"{fn}: neither a fixed scratch array nor std::string growth found")
    return ".growable", "none"


def pretty(strcc, env):
    """keyed on structure: parameter, static array and index variable are renamed to canonical names before the loop is
    compared with the modelled shape"""
    sig = r"const\s+char\s*\*\s*PrettyTmpName\s*\(\s*const\s+char\s*\*\s*(\w+)\s*\)"
    m0 = re.search(sig, strcc)
    if not m0:
        raise ValueError("PrettyTmpName( const char * ) not found")
    P = m0.group(1)
    b = _strip(_body(strcc, sig, "PrettyTmpName"))
    m = re.search(r"static\s+char\s+(\w+)\s*\[\s*([^\]]+)\]\s*;", b)
    if not m:
        raise ValueError("PrettyTmpName: `static char <array>[...]` not found")
    A, cap = m.group(1), env.ev(m.group(2))
    mi = re.search(r"\bint\s+(\w+)\s*=\s*0\s*;", b)
    if not mi:
        raise ValueError("PrettyTmpName: index variable not found")
    I = mi.group(1)
    canon = b
    for old, new in ((P, "oldname"), (A, "newname"), (I, "i")):
        canon = re.sub(r"\b" + old + r"\b", "\x00" + new, canon)
    body = _ws(canon.replace("\x00", "")).replace("i++;", "++i;")
    tmpl = ("newname[0]='\\0';while((oldname[i]!='\\0')&&(i<@G@)){newname[i]=ToLower(oldname[i]);"
            "if(oldname[i]=='_'){++i;newname[i]=ToUpper(oldname[i]);}if(oldname[i]!='\\0'){++i;}}"
            "newname[0]=ToUpper(oldname[0]);newname[i]='\\0';returnnewname;")
    pre, post = tmpl.split("@G@")
    mm = re.search(re.escape(pre) + r"([A-Za-z_0-9+\-*()]+?)" + re.escape(post), body)
    if not mm:
        raise ValueError("PrettyTmpName: loop shape not recognised")
    return cap, env.ev(mm.group(1))


def entnode(h, env):
    """keyed on structure: EntNode's only char-array member, the strncpy into it in Name(), the constructor's copy"""
    cls = _strip(_body(h, r"class\s+(?:SC_CORE_EXPORT\s+)?EntNode\s*\{", "class EntNode"))
    arrs = re.findall(r"\bchar\s+(\w+)\s*\[\s*([^\]]+)\]\s*;", cls)
    if len(arrs) != 1:
        raise ValueError("EntNode: exactly one char array member expected")
    M, cap = arrs[0][0], env.ev(arrs[0][1])
    mn = re.search(r"void\s+Name\s*\(\s*const\s+char\s*\*\s*(\w+)\s*\)\s*\{", cls)
    if not mn:
        raise ValueError("EntNode::Name( const char * ) not found")
    nm = _body(cls, r"void\s+Name\s*\(\s*const\s+char\s*\*\s*\w+\s*\)\s*\{", "EntNode::Name")
    mm = re.search(r"strncpy\s*\(\s*" + M + r"\s*,\s*" + mn.group(1) + r"\s*,\s*([^;]+?)\)\s*;", nm)
    if not mm:
        raise ValueError("EntNode::Name: strncpy( <member>, <arg>, N ) not found")
    n = env.ev(re.sub(r"sizeof\s*\(?\s*" + M + r"\s*\)?", str(cap), mm.group(1)))
    t = re.search(M + r"\s*\[\s*([^\]]+)\]\s*=\s*(?:'\\0'|0)\s*;", nm)
    term = env.ev(re.sub(r"sizeof\s*\(?\s*" + M + r"\s*\)?", str(cap), t.group(1))) if t else None
    mc = re.search(r"EntNode\s*\(\s*const\s+char\s*\*\s*(\w+)\s*=\s*\"\"\s*\)", cls)
    if not mc:
        raise ValueError("EntNode( const char * = \"\" ) not found")
    ctor = _body(cls, r"EntNode\s*\(\s*const\s+char\s*\*\s*\w+\s*=\s*\"\"\s*\)[^{]*\{", "EntNode ctor")
    c = _ws(re.sub(r"\b" + mc.group(1) + r"\b", "nm", re.sub(r"\b" + M + r"\b", "name", ctor)))
    if c == "StrToLower(nm,name);":
        kind = ".unbounded"
    elif c in ("Name(nm);StrToLower(name,name);",):
        kind = f".strncpy {n} {_opt(term)}"
    else:
        raise ValueError(f"EntNode ctor body not recognised: {ctor.strip()!r}")
    return cap, kind, n, term


def schformat(reg, env):
    """Registry::FindEntity: `char schformat[cap]` receives strcpy( …, PrettyTmpName( schNm ) ) — schNm is the FILE_SCHEMA name"""
    b = _strip(_body(reg, r"Registry::FindEntity\s*\(", "Registry::FindEntity"))
    m = re.search(r"strcpy\s*\(\s*(\w+)\s*,\s*PrettyTmpName\s*\(\s*\w+\s*\)\s*\)", b)
    if not m:
        if "strcpy" in b or "strcat" in b:
            raise ValueError("Registry::FindEntity: strcpy/strcat of an unrecognised shape")
        return None
    d = re.search(r"\bchar\s+(?:\w+\s*\[[^\]]+\]\s*,\s*)*" + m.group(1) + r"\s*\[\s*([^\]]+)\]", b)
    if not d:
        raise ValueError("Registry::FindEntity: declaration of the strcpy target not found")
    return env.ev(d.group(1))


def nms_copy_exact(sc):
    """STEPcomplex ctor: `nms[j] = new char[ names[j]->length() + 1 ]; strcpy( nms[j], names[j]->c_str() )`"""
    b = _ws(_strip(sc))
    if "strcpy(" not in b:
        return True
    return bool(re.search(r"(\w+)\[(\w+)\]=newchar\[\(?(\w+)\[\2\]\)?->length\(\)\+1\];strcpy\(\1\[\2\],\3\[\2\]->c_str\(\)\);", b))


def _match(b, j, open_ch, close_ch):
    """offset just past the bracket that closes the one opened before offset j (char and string literals skipped)"""
    depth = 1
    while depth:
        ch = b[j]
        if ch in "'\"":
            q = ch
            j += 1
            while b[j] != q:
                j += 2 if b[j] == "\\" else 1
        elif ch == open_ch:
            depth += 1
        elif ch == close_ch:
            depth -= 1
        j += 1
    return j


def _cond_of_while_before(b, pos):
    """(condition text, end offset) of the innermost `while( … ) { … }` whose block encloses offset pos"""
    best = None
    for m in re.finditer(r"\bwhile\s*\(", b):
        if m.start() > pos:
            break
        j = _match(b, m.end(), "(", ")")
        k = j
        while b[k].isspace():
            k += 1
        if b[k] != "{":
            continue
        e = _match(b, k + 1, "{", "}")
        if k < pos < e:
            best = (b[m.end():j - 1], e)
    return best


def subsuper(sf, env):
    """keyed on structure: the loop that reads part keywords (`ReadStdKeyword`) — its bound on the number of names —
    and the container whose address is handed to `new STEPcomplex( … )`"""
    b = _strip(_body(sf, r"STEPfile::CreateSubSuperInstance\s*\(", "CreateSubSuperInstance"))
    for m in re.finditer(r"const\s+(?:int|unsigned|size_t)\s+(\w+)\s*=\s*([^;]+);", b):
        try:
            env.c[m.group(1)] = env.ev(m.group(2))
        except ValueError:
            pass
    k = re.search(r"ReadStdKeyword\s*\(", b)
    if not k:
        raise ValueError("CreateSubSuperInstance: the part loop (ReadStdKeyword) was not found")
    w = _cond_of_while_before(b, k.start())
    if not w:
        raise ValueError("CreateSubSuperInstance: ReadStdKeyword is not inside a while loop")
    cond, loop_end = w
    g = re.findall(r"\b(\w+)\s*<\s*([A-Za-z_0-9 +\-*()]+?)\s*(?:\)|&&|$)", cond)
    g = [(v, e) for v, e in g if not re.fullmatch(r"\d+", v)]
    if len(g) > 1:
        raise ValueError(f"CreateSubSuperInstance: more than one bound in the part loop condition {cond!r}")
    guard = env.ev(g[0][1]) if g else None
    idx = g[0][0] if g else None
    call = re.search(r"new\s+STEPcomplex\s*\(\s*&\s*_reg\s*,\s*([^,]+),", b)
    if not call:
        raise ValueError("CreateSubSuperInstance: `new STEPcomplex( &_reg, <names>, …)` not found")
    arg = _ws(call.group(1))
    am = re.search(r"(\w+)(?:\[0\])?$", arg.replace("&", ""))
    arr = am.group(1)
    m = re.search(r"std::string\s*\*\s*" + arr + r"\s*\[\s*([^\]]+)\]\s*;", b)
    if m:
        cap = env.ev(m.group(1))
        t = re.search(r"\b" + arr + r"\s*\[\s*(\w+)\s*\]\s*=\s*(?:0|NULL|nullptr)\s*;", b[loop_end:])
        if not t:
            raise ValueError(f"CreateSubSuperInstance: terminator `{arr}[i] = 0` after the part loop not found")
        if idx is not None and t.group(1) != idx:
            raise ValueError("CreateSubSuperInstance: the terminator index is not the guarded counter")
        return f".fixed {cap}", guard
    if re.search(r"std::vector\s*<[^;>]*>\s*" + arr + r"\b", b):
        return ".growable", guard
    raise ValueError(f"CreateSubSuperInstance: declaration of the name array {arr!r} not recognised")


def complex_ctor(sc, env):
    """STEPcomplex( Registry *, const std::string ** names, … ): the array the names are copied into and the bound (if any)
    its copy loop puts on the index"""
    b = _strip(_body(sc, r"STEPcomplex::STEPcomplex\s*\(\s*Registry\s*\*\s*\w+\s*,\s*const\s+std::string\s*\*\*\s*(\w+)", "STEPcomplex(names) ctor"))
    pm = re.search(r"STEPcomplex::STEPcomplex\s*\(\s*Registry\s*\*\s*\w+\s*,\s*const\s+std::string\s*\*\*\s*(\w+)", sc)
    names = pm.group(1)
    m = re.search(r"char\s*\*\s*(\w+)\s*\[\s*([^\]]+)\]\s*;", b)
    if m:
        arr, cap = m.group(1), env.ev(m.group(2))
        f = re.search(r"for\s*\(\s*(\w+)\s*=\s*0\s*;([^;]*);[^)]*\)", b)
        if not f or names + "[" + f.group(1) + "]" not in _ws(f.group(2)):
            raise ValueError("STEPcomplex ctor: copy loop `for( j = 0; names[j] …; j++ )` not recognised")
        j = f.group(1)
        if not re.search(arr + r"\s*\[\s*" + j + r"\s*\]\s*=\s*(?:NULL|0|nullptr)\s*;", b):
            raise ValueError("STEPcomplex ctor: terminator store not recognised")
        g = re.findall(r"\b" + j + r"\s*<\s*([A-Za-z_0-9 +\-*()]+?)\s*(?:&&|$)", f.group(2).strip())
        if len(g) > 1:
            raise ValueError("STEPcomplex ctor: more than one bound in the copy loop")
        return f".fixed {cap}", (env.ev(g[0]) if g else None)
    if re.search(r"std::vector\s*<\s*(?:const\s+)?char\s*\*\s*>\s*\w+", b):
        return ".growable", None
    raise ValueError("STEPcomplex ctor: declaration of the pointer array not recognised")


def ends_with_shape(strcc):
    """StrEndsWith must look at the last |suffix| characters only: GetLiteralStr calls it for every apostrophe of a string"""
    b = _ws(_strip(_body(strcc, r"bool\s+StrEndsWith\s*\(\s*const\s+std::string\s*&\s*(\w+)\s*,", "StrEndsWith")))
    m = re.search(r"bool\s+StrEndsWith\s*\(\s*const\s+std::string\s*&\s*(\w+)\s*,", strcc)
    sv = m.group(1)
    whole = re.search(r"\b" + sv + r"\.(rfind|find|find_last_of|find_first_of)\(|for\(|while\(|std::search|strstr\(|std::mismatch|std::equal\(" + sv + r"\.begin\(\)", b)
    if whole:
        return ".wholeString"
    if re.search(r"\b" + sv + r"\.substr\(\w+-\w+\)\.compare\(\w+\)", b) or \
       re.search(r"\b" + sv + r"\.compare\(\w+-\w+,\w+,\w+\)", b) or \
       re.search(r"(?:std::)?(?:mem|strn?)cmp\(" + sv + r"\.(?:c_str|data)\(\)\+\w+-\w+,", b) or \
       re.search(r"std::equal\(\w+\.rbegin\(\),\w+\.rend\(\)," + sv + r"\.rbegin\(\)\)", b):
        return ".suffixOnly"
    raise ValueError("StrEndsWith: comparison shape not recognised (must be a compare of the last |suffix| characters)")


def read_value_coverage(repo):
    """every `Severity <Class>::ReadValue( istream & … )` of src/clstepcore is one of the three element loops whose delete sites
    are modelled, or hands the whole call to STEPaggregate::ReadValue without creating or deleting a node itself"""
    loops = {"STEPaggregate", "EntityAggregate", "SelectAggregate"}
    delegating = []
    d = os.path.join(repo, "src/clstepcore")
    for f in sorted(os.listdir(d)):
        if not f.endswith(".cc"):
            continue
        text = _strip(open(os.path.join(d, f)).read())
        for m in re.finditer(r"Severity\s+(\w+)::ReadValue\s*\(\s*istream", text):
            cls = m.group(1)
            if cls in loops:
                continue
            body = _ws(_body(text[m.start():], r"Severity\s+" + cls + r"::ReadValue\s*\(", cls + "::ReadValue"))
            if not re.search(r"returnSTEPaggregate::ReadValue\(in,err,", body) or re.search(r"\bnew\b|delete|NewNode|AddNode", body):
                raise ValueError(f"{cls}::ReadValue ({f}): an aggregate reader that is neither one of the three modelled element "
                                 "loops nor a plain delegation to STEPaggregate::ReadValue - its node ownership is not modelled")
            delegating.append(cls)
    return delegating


def read_pcd_shape(rf):
    """ReadPcd must have the modelled shape: three `in.get( c )`, nothing read after the closing backslash"""
    b = _ws(_strip(_body(rf, r"Severity\s+ReadPcd\s*\(", "ReadPcd")))
    want = ("charc;in.get(c);if(c=='\\\\'){in.get(c);if(c=='F'||c=='N'){in.get(c);if(c=='\\\\'){returnSEVERITY_NULL;}}}")
    b = re.sub(r"^charc='\\0';", "charc;", b)    # an initialised `c` reads the same (the model starts it at 0)
    if not b.startswith(want):
        raise ValueError("ReadPcd: shape not modelled (the model reads exactly three characters `\\F\\` / `\\N\\`)")
    return True


def aggr_deletes(text, sig, what):
    """`delete item;` statements of one aggregate ReadValue: position (inside the element loop / after it before the
    close-paren test / in the missing-close branch / after the test) and guard"""
    b = _strip(_body(text, sig, what))
    w = re.search(r"\bwhile\s*\(\s*in\.good\(\)\s*&&\s*\(\s*c\s*!=\s*'\)'\s*\)\s*\)\s*\{", b)
    if not w:
        raise ValueError(f"{what}: element loop `while( in.good() && ( c != ')' ) )` not found")
    loop_end = _match(b, w.end(), "{", "}")
    t = re.search(r"\bif\s*\(\s*c\s*==\s*'\)'\s*\)\s*\{", b[loop_end:])
    if not t:
        raise ValueError(f"{what}: close-paren test after the loop not found")
    t_start = loop_end + t.start()
    then_end = _match(b, loop_end + t.end(), "{", "}")
    e = re.match(r"\s*else\s*\{", b[then_end:])
    if not e:
        raise ValueError(f"{what}: `else` branch (missing close paren) not found")
    else_end = _match(b, then_end + e.end(), "{", "}")
    # a flag that stands for "the scratch node was allocated" (set only in the `else if( !assignVal )` block)
    flags = set()
    for m in re.finditer(r"else\s+if\s*\(\s*!\s*assignVal\s*\)\s*\{", b[:w.start()]):
        blk_end = _match(b, m.end(), "{", "}")
        for f in re.finditer(r"\b(\w+)\s*=\s*true\s*;", b[m.end():blk_end]):
            flags.add(f.group(1))
    for f in flags:
        if len(re.findall(r"\b" + f + r"\s*=\s*true\b", b)) != 1:
            flags = flags - {f}
    sites = {}
    for m in re.finditer(r"\bdelete\s+item\s*;", b):
        pos = m.start()
        if w.end() <= pos < loop_end:
            site = "giveUp"
        elif loop_end <= pos < t_start:
            site = "afterLoop"
        elif then_end <= pos < else_end:
            site = "missingClose"
        elif pos >= else_end:
            site = "atEnd"
        elif pos < w.start():
            raise ValueError(f"{what}: `delete item` before the element loop is not modelled")
        else:
            raise ValueError(f"{what}: `delete item` in the close-paren branch is not modelled")
        pre = b[:pos].rstrip()
        g = re.search(r"if\s*\(([^(){};]*)\)\s*\{?\s*$", pre)
        if not g:
            guard = ".always"
        else:
            c = _ws(g.group(1))
            if c == "!assignVal" or c in flags:
                guard = ".ifNotAssign"
            elif c == "assignVal":
                guard = ".ifAssign"
            else:
                raise ValueError(f"{what}: guard `{g.group(1)}` of `delete item` not recognised")
        if site in sites:
            raise ValueError(f"{what}: two `delete item` at {site}")
        sites[site] = guard
    if not re.search(r"if\s*\(\s*assignVal\s*\)\s*\{[^}]*AddNode\s*\(\s*item\s*\)", b[w.end():loop_end]):
        raise ValueError(f"{what}: `if( assignVal ) AddNode( item )` inside the loop not found")
    f = lambda k: ("(some " + sites[k] + ")") if k in sites else "none"
    return "{ giveUp := %s, afterLoop := %s, missingClose := %s, atEnd := %s }" % (f("giveUp"), f("afterLoop"), f("missingClose"), f("atEnd"))


def getkeyword_amp(rf, sf):
    """does GetKeyword accept `&` as a keyword character?  (it does not: `&SCOPE` can then never be recognised and
    CreateScopeInstances always leaves through its first error exit — what the model's `ciRecord` does).
    Also: CreateInstance must return ENTITY_NULL when CreateScopeInstances reports an error."""
    b = _ws(_strip(_body(rf, r"const\s+char\s*\*\s*GetKeyword\s*\(", "GetKeyword")))
    m = re.search(r"if\(!\(\(isupper\(c\)\)\|\|(.*?)\)\)\{", b)
    if not m:
        raise ValueError("GetKeyword: the test for valid keyword characters was not found")
    amp = "c=='&'" in m.group(1)
    cs = _ws(_strip(_body(sf, r"Severity\s+STEPfile::CreateScopeInstances\s*\(", "CreateScopeInstances")))
    if not re.search(r"keywd=GetKeyword\(in,\"[^\"]*\",_error\);if\(strncmp\(const_cast<char\*>\(keywd\.c_str\(\)\),\"&SCOPE\",6\)\)\{SkipInstance\(in,tmpbuf\);.*?returnSEVERITY_INPUT_ERROR;\}", b + cs):
        raise ValueError("CreateScopeInstances: the `&SCOPE` test with its error exit (SkipInstance; return SEVERITY_INPUT_ERROR) was not found")
    ci = _ws(_strip(_body(sf, r"SDAI_Application_instance\s*\*\s*STEPfile::CreateInstance\s*\(", "CreateInstance")))
    if not re.search(r"if\(c=='&'\)\{(?://[^\n]*)?Severitys=CreateScopeInstances\(in,&scopelist\);if\(s<SEVERITY_WARNING\)\{returnENTITY_NULL;\}", ci):
        raise ValueError("CreateInstance: `if( c == '&' ) { s = CreateScopeInstances(…); if( s < SEVERITY_WARNING ) return ENTITY_NULL; …` not found")
    return amp


def recovery_scan(ai):
    """the `);` recovery scan at the end of SDAI_Application_instance::STEPread: (stays in the record, counts apostrophes,
    puts the `;` back).  Three shapes are modelled (`recoverOuter stay quotes pb`): the plain scan for `)` ws `;`, the one
    that also ends at a semicolon outside a string literal (apostrophes counted from where the scan starts), and the one that
    ends at the first semicolon whatever precedes it."""
    b = _ws(_strip(_body(ai, r"Severity\s+SDAI_Application_instance::STEPread\s*\(", "SDAI_Application_instance::STEPread")))
    m = re.search(r"in\.clear\(\);intfoundEnd=0;std::stringtmp;tmp=\"\";(.*?)_error\.AppendToDetailMsg\(tmp\.c_str\(\)\);", b)
    if not m:
        raise ValueError("SDAI_Application_instance::STEPread: the recovery scan (in.clear(); int foundEnd = 0; … AppendToDetailMsg( tmp )) was not found")
    scan = m.group(1)
    plain = re.fullmatch(r"while\(in\.good\(\)&&!foundEnd\)\{while\(in\.good\(\)&&\(c!='\)'\)\)\{in\.get\(c\);tmp\+=c;\}"
                         r"if\(in\.good\(\)&&\(c=='\)'\)\)\{in>>ws;in\.get\(c\);tmp\+=c;if\(c==';'\)\{(in\.putback\(c\);)?foundEnd=1;\}\}\}", scan)
    if plain:
        return False, False, bool(plain.group(1))
    stay = re.fullmatch(r"boolinString=false;while\(in\.good\(\)&&!foundEnd\)\{while\(in\.good\(\)&&\(c!='\)'\)&&!foundEnd\)\{in\.get\(c\);tmp\+=c;"
                        r"if\(in\.good\(\)\)\{if\(c=='\\''\)\{inString=!inString;\}elseif\(c==';'&&!inString\)\{in\.putback\(c\);foundEnd=1;\}\}\}"
                        r"if\(!foundEnd&&in\.good\(\)&&\(c=='\)'\)\)\{in>>ws;in\.get\(c\);tmp\+=c;if\(c==';'\)\{in\.putback\(c\);foundEnd=1;\}"
                        r"elseif\(in\.good\(\)&&c=='\\''\)\{inString=!inString;\}\}\}", scan)
    if stay:
        return True, True, True
    first = re.fullmatch(r"while\(in\.good\(\)&&!foundEnd\)\{while\(in\.good\(\)&&\(c!='\)'\)&&!foundEnd\)\{in\.get\(c\);tmp\+=c;"
                         r"if\(in\.good\(\)&&c==';'\)\{in\.putback\(c\);foundEnd=1;\}\}"
                         r"if\(!foundEnd&&in\.good\(\)&&\(c=='\)'\)\)\{in>>ws;in\.get\(c\);tmp\+=c;if\(c==';'\)\{in\.putback\(c\);foundEnd=1;\}\}\}", scan)
    if first:
        return True, False, True
    raise ValueError("SDAI_Application_instance::STEPread: the recovery scan is none of the three modelled shapes")


def skip_comments(rf):
    """does SkipInstance have the `case '/':` that steps over a comment (peek '*', putback, ReadComment; else keep the '/')?"""
    b = _ws(_strip(_body(rf, r"Severity\s+SkipInstance\s*\(", "SkipInstance")))
    if "case'/':" not in b:
        return False
    if re.search(r"case'/':if\(in\.peek\(\)=='\*'\)\{(?:std::string\w+;)?in\.putback\(c\);(?:std::string\w+;)?ReadComment\(in,\w+\);\}else\{\w+\+=c;\}break;", b):
        return True
    raise ValueError("SkipInstance: `case '/':` present but not of the modelled shape")


def read_comment(rf, rh, env):
    m = re.search(r"#define\s+MAX_COMMENT_LENGTH\s+(\d+)", rh)
    if not m:
        raise ValueError("MAX_COMMENT_LENGTH not found")
    env.c["MAX_COMMENT_LENGTH"] = int(m.group(1))
    b = _strip(_body(rf, r"const\s+char\s*\*\s*ReadComment\s*\(\s*istream\s*&\s*in\s*,", "ReadComment(istream)"))
    g = re.search(r"while\s*\(\s*(\w+)\s*(<=|<)\s*([A-Za-z_0-9 +\-*()]+?)\s*\)\s*\{", b)
    if not g:
        raise ValueError("ReadComment: length guard `while( <counter> <= MAX_COMMENT_LENGTH )` not found")
    lim = env.ev(g.group(3)) + (1 if g.group(2) == "<=" else 0)   # number of iterations the guard admits
    if len(re.findall(r"\b" + g.group(1) + r"\s*\+\+|\+\+\s*" + g.group(1) + r"\b", b)) != 2:
        raise ValueError("ReadComment: both non-terminating branches must count (`<counter>++` twice)")
    # the counter starts again at the end of the loop body while the stream is good (the model's `commentLoop` has this
    # restart built in: the limit only ends the loop once the input has ended inside the comment)
    cnt = g.group(1)
    w = _ws(b)
    if not re.search(r"\}if\(" + cnt + r">" + re.escape(_ws(g.group(3))) + r"&&in\.good\(\)\)\{" + cnt + r"=0;\}\}", w):
        raise ValueError("ReadComment: the restart of the counter at the end of the loop body "
                         "(`if( <counter> > MAX_COMMENT_LENGTH && in.good() ) <counter> = 0;`) was not found")
    return int(m.group(1)), lim


def max_errors(inl, sf):
    m = re.search(r"_maxErrorCount\s*\(\s*(\d+)\s*\)", inl)
    if not m:
        raise ValueError("_maxErrorCount initialiser not found")
    cuts = re.findall(r"if\s*\(\s*(_entsNotCreated|_entsInvalid)\s*>\s*_maxErrorCount\s*\)", _strip(sf))
    if sorted(cuts) != ["_entsInvalid", "_entsNotCreated"]:
        raise ValueError("the two `> _maxErrorCount` cut-offs (ReadData1, ReadData2) were not found")
    return int(m.group(1))


def find_header(sf, env):
    b = _strip(_body(sf, r"int\s+STEPfile::FindHeaderSection\s*\(", "FindHeaderSection"))
    m = re.search(r"\bchar\s+buf\s*\[\s*([^\]]+)\]\s*;", b)
    g = re.search(r"in\s*\.\s*getline\s*\(\s*buf\s*,\s*([^,]+),\s*';'\s*\)", b)
    if not m or not g:
        raise ValueError("FindHeaderSection: buf / getline( buf, N, ';' ) not found")
    cap, n = env.ev(m.group(1)), env.ev(g.group(1))
    t = re.search(r"if\s*\(([^{]*?)\)\s*\{\s*_error\.AppendToUserMsg", b)
    if not t:
        raise ValueError("FindHeaderSection: give-up test not found")
    c = _ws(t.group(1))
    if c == "in.eof()":
        ex = ".eofOnly"
    elif c in ("!in.good()", "in.fail()", "!in", "in.eof()||in.fail()", "in.fail()||in.eof()"):
        ex = ".notGood"
    else:
        raise ValueError(f"FindHeaderSection: give-up test {t.group(1)!r} not recognised")
    return cap, n, ex


def export_loops(sf):
    s = _strip(sf)
    res = []
    for fn in ["CreateScopeInstances", "ReadScopeInstances"]:
        b = _body(s, r"Severity\s+STEPfile::" + fn + r"\s*\(", fn)
        loops = re.findall(r"c\s*=\s*','\s*;\s*while\s*\(([^{]*)\)\s*\{", b)
        if len(loops) != 1:
            raise ValueError(f"{fn}: export-list loop not found")
        c = _ws(loops[0])
        if c == "c==','":
            res.append(False)
        elif c in ("c==','&&in.good()", "in.good()&&c==','", "(c==',')&&in.good()", "in.good()&&(c==',')",
                   "c==','&&in", "in&&c==','"):
            res.append(True)
        else:
            raise ValueError(f"{fn}: export-list loop condition {loops[0]!r} not recognised")
    return res


def imbed_aggr(rf, env):
    b = _strip(_body(rf, r"void\s+PushPastImbedAggr\s*\(", "PushPastImbedAggr"))
    rec = len(re.findall(r"PushPastImbedAggr\s*\(", b))
    m = re.search(r"\bchar\s+messageBuf\s*\[\s*([^\]]+)\]\s*;", b)
    # does the loop end at a `;` outside a string literal (put back), i.e. stay in the record?
    w = _ws(b)
    if "';'" not in w:
        stay = False
    elif re.search(r"\}elseif\(c==';'\)\{in\.putback\(c\);break;\}else\{s\+=c;\}in\.get\(c\);\}", w):
        stay = True
    else:
        raise ValueError("PushPastImbedAggr: a `;` is tested, but not as the modelled `else if( c == ';' ) { in.putback( c ); break; }`")
    return rec > 0, (env.ev(m.group(1)) if m else 0), stay


# sprintf( <buf>, "fmt", args ) into a fixed array, in the files the property is anchored in
SPRINTF_DIRS = ["src/clstepcore", "src/cleditor", "src/cldai", "src/clutils", "include/clstepcore", "include/cleditor",
                "include/cldai", "include/clutils"]


def _sprintf_files(repo):
    out = []
    for d in SPRINTF_DIRS:
        p = os.path.join(repo, d)
        if not os.path.isdir(p):
            continue
        for f in sorted(os.listdir(p)):
            if f.endswith((".cc", ".h", ".c")):
                out.append(os.path.join(d, f))
    return out


# %s arguments that are dictionary (schema) names or string literals — bounded by the schema, not by the file
NAME_ARGS = [r'^"', r"EntityName\(\s*\)$", r"attributes\[i\]\.Name\(\)$", r"attributes\[i\]\.TypeName\(\)\.c_str\(\)$",
             r"ed->Name\(\)$", r"aDesc->Name\(\)$", r"aDesc->Owner\(\)\.Name\(\)$", r"aDesc->TypeName\(\)\.c_str\(\)$",
             r"StrToUpper\(\s*EntityName\(\s*currSch\s*\)\s*,\s*tmp\s*\)$", r"TypeName\(\)\.c_str\(\)$",
             r"eDesc->Name\(\)$", r"\w+->Name\(\)$", r"^Name\(\)$"]
# %s arguments that are strings handed in through the editing API (ValidLevel( const char * attrValue, … )), never
# bytes of a file being read: outside C05's quantifier, listed separately (see notes/C05.md)
API_ARGS = [r"^attrValue$"]
# %s arguments that are the name of the file being read (not its bytes) — see notes/C05.md
FILENAME_ARGS = [r"FileName\(\)", r"^filename\.c_str\(\)$"]


def _split_args(s):
    out, depth, cur, q = [], 0, "", False
    i = 0
    while i < len(s):
        ch = s[i]
        if q:
            cur += ch
            if ch == "\\":
                cur += s[i + 1]; i += 1
            elif ch == '"':
                q = False
        elif ch == '"':
            q = True; cur += ch
        elif ch in "([":
            depth += 1; cur += ch
        elif ch in ")]":
            depth -= 1; cur += ch
        elif ch == "," and depth == 0:
            out.append(cur.strip()); cur = ""
        else:
            cur += ch
        i += 1
    if cur.strip():
        out.append(cur.strip())
    return out


def _c_unescape_len(lit):
    n, i = 0, 0
    while i < len(lit):
        if lit[i] == "\\":
            i += 2
        else:
            i += 1
        n += 1
    return n


def sprintf_sites(repo, env):
    sites, api_sites, errors = [], [], []
    for rel in _sprintf_files(repo):
        text = open(os.path.join(repo, rel)).read()
        if "sprintf" not in text:
            continue
        code = _strip(text)
        decls = []   # (offset, name, cap)
        for m in re.finditer(r"\bchar\s+(\w+)\s*\[\s*([^\]]+)\]\s*;", code):
            try:
                decls.append((m.start(), m.group(1), env.ev(m.group(2))))
            except ValueError:
                pass
        for m in re.finditer(r"\bsprintf\s*\(", code):
            j, depth = m.end(), 1
            while depth:
                ch = code[j]
                if ch == '"':
                    j += 1
                    while code[j] != '"':
                        j += 2 if code[j] == "\\" else 1
                elif ch == "(":
                    depth += 1
                elif ch == ")":
                    depth -= 1
                j += 1
            args = _split_args(code[m.end():j - 1])
            line = code.count("\n", 0, m.start()) + 1
            buf = args[0]
            prior = [c for off, nm, c in decls if nm == buf and off < m.start()]
            if not prior:
                errors.append(f"{rel}:{line}: sprintf target {buf!r} is not a fixed char array declared before the call")
                continue
            cap = prior[-1]
            fmt = "".join(re.findall(r'"((?:[^"\\]|\\.)*)"', args[1]))
            if not args[1].lstrip().startswith('"'):
                errors.append(f"{rel}:{line}: non-literal format"); continue
            convs = re.findall(r"%(?:l?[du]|s|%|\.\*G)", fmt)
            if len(convs) != len(re.findall(r"%", fmt.replace("%%", ""))) + fmt.count("%%"):
                errors.append(f"{rel}:{line}: conversion other than %d %ld %s %.*G %% in {fmt!r}"); continue
            literal = _c_unescape_len(re.sub(r"%(?:l?[du]|s|\.\*G)", "", fmt).replace("%%", "%"))
            ints = sum(2 if c.startswith("%l") else 1 for c in convs if c[-1] in "du")
            reals = sum(1 for c in convs if c.endswith("G"))
            rest = args[2:]
            names = 0
            ai = 0
            api = False
            for c in convs:
                if c == "%%":
                    continue
                if c.endswith("G"):
                    ai += 2
                    continue
                a = _ws(rest[ai]) if ai < len(rest) else "?"
                ai += 1
                if c == "%s":
                    a2 = re.sub(r"^\(\(FileName\(\)\.compare\(\"-\"\)==0\)\?\"standardinput\":(.*)\)$", r"\1", a)
                    if any(re.search(p, a2) for p in FILENAME_ARGS):
                        names += 1      # bounded by PATH_MAX, counted as a name (see notes)
                    elif any(re.search(p, a) for p in NAME_ARGS):
                        names += 1
                    elif any(re.search(p, a) for p in API_ARGS):
                        api = True
                    else:
                        errors.append(f"{rel}:{line}: sprintf %s argument {rest[ai-1]!r} is not a known dictionary name "
                                      f"(a file-derived string in a fixed buffer is an overflow)")
            (api_sites if api else sites).append((rel, line, cap, literal, ints, names, reals))
    if errors:
        raise ValueError("; ".join(errors))
    return sites, api_sites


def extract(repo):
    rd = lambda rel: open(os.path.join(repo, rel)).read()
    rf, rh, strcc = rd("src/clstepcore/read_func.cc"), rd("include/clstepcore/read_func.h"), rd("src/clutils/Str.cc")
    sf, inl, sc, h = (rd("src/cleditor/STEPfile.cc"), rd("src/cleditor/STEPfile.inline.cc"),
                      rd("src/clstepcore/STEPcomplex.cc"), rd("include/clstepcore/complexSupport.h"))
    env = Env({"BUFSIZ": _bufsiz()})
    rr_st, rr_guard, rr_n = read_real(rf, env)
    lo, up, co = str_to(strcc, "StrToLower", env), str_to(strcc, "StrToUpper", env), str_to(strcc, "StrToConstant", env)
    p_cap, p_guard = pretty(strcc, env)
    e_cap, e_kind, e_n, e_term = entnode(h, env)
    ss_st, ss_guard = subsuper(sf, env)
    nms, nms_guard = complex_ctor(sc, env)
    sch_cap = schformat(rd("src/clstepcore/Registry.cc"), env)
    nms_exact = nms_copy_exact(sc)
    skipcm = skip_comments(rf)
    gk_amp = getkeyword_amp(rf, sf)
    rs_stay, rs_quotes, rs_pb = recovery_scan(rd("src/clstepcore/sdaiApplication_instance.cc"))
    ad = [aggr_deletes(rd(f), sig, w) for f, sig, w in [
        ("src/clstepcore/STEPaggregate.cc", r"Severity\s+STEPaggregate::ReadValue\s*\(", "STEPaggregate::ReadValue"),
        ("src/clstepcore/STEPaggrEntity.cc", r"Severity\s+EntityAggregate::ReadValue\s*\(", "EntityAggregate::ReadValue"),
        ("src/clstepcore/STEPaggrSelect.cc", r"Severity\s+SelectAggregate::ReadValue\s*\(", "SelectAggregate::ReadValue")]]
    read_pcd_shape(rf)
    rv_deleg = read_value_coverage(repo)
    ews = ends_with_shape(strcc)
    mcl, rc_iters = read_comment(rf, rh, env)
    mec = max_errors(inl, sf)
    fh_cap, fh_n, fh_exit = find_header(sf, env)
    ex = export_loops(sf)
    rec, frame, ia_stay = imbed_aggr(rf, env)
    sp, sp_api = sprintf_sites(repo, env)
    b = lambda v: "true" if v else "false"
    fmt_site = lambda t: (f'{{ file := "{t[0]}", line := {t[1]}, cap := {t[2]}, literal := {t[3]}, ints := {t[4]}, '
                          f'names := {t[5]}, reals := {t[6]} }}')
    sp_txt = ",\n  ".join(fmt_site(t) for t in sp)
    sp_api_txt = ",\n  ".join(fmt_site(t) for t in sp_api)
    out = f"""-- GENERATED by tools/extract.d/c05_buffers.py from src/clstepcore/read_func.cc, include/clstepcore/read_func.h,
-- src/clutils/Str.cc, include/clstepcore/complexSupport.h, src/cleditor/STEPfile.cc, src/cleditor/STEPfile.inline.cc,
-- src/clstepcore/STEPcomplex.cc and the sprintf calls of the C05-anchored files.  Do not edit.
import StepModel.P21SafeBase
import StepModel.P21SafeOwn
namespace StepModel.Generated.C05
open StepModel.P21Safe

/-- `BUFSIZ` of the build compiler's <stdio.h> -/
def bufsiz : Nat := {env.c['BUFSIZ']}

/-- `ReadReal`: storage of `buf`, bound checked on the index before each store (none = unchecked), number of store sites -/
def readRealStorage : Storage := {rr_st}
def readRealGuard : Option Nat := {rr_guard}
def readRealStoreSites : Nat := {rr_n}

/-- `StrToLower/StrToUpper/StrToConstant( const char *, std::string & )`: scratch storage and loop bound on `i` -/
def strToLowerStorage : Storage := {lo[0]}
def strToLowerGuard : Option Nat := {lo[1]}
def strToUpperStorage : Storage := {up[0]}
def strToUpperGuard : Option Nat := {up[1]}
def strToConstantStorage : Storage := {co[0]}
def strToConstantGuard : Option Nat := {co[1]}

/-- `PrettyTmpName`: `static char newname[cap]`, loop condition `i < guard` -/
def prettyCap : Nat := {p_cap}
def prettyGuard : Nat := {p_guard}

/-- `EntNode`: `char name[cap]`, how the constructor copies, `Name()`'s `strncpy( name, nm, n )` and terminator -/
def entNodeCap : Nat := {e_cap}
def entNodeCtorCopy : CopyKind := {e_kind}
def entNodeNameN : Nat := {e_n}
def entNodeNameTerm : Option Nat := {_opt(e_term)}

/-- `CreateSubSuperInstance`: storage of the part-name array handed to STEPcomplex and the part loop's cap on the
number of names (`<counter> < guard`; none = no cap) -/
def entNmArrStorage : Storage := {ss_st}
def entNmArrGuard : Option Nat := {_opt(ss_guard)}

/-- `STEPcomplex( Registry *, const std::string ** names, … )`: `nms` storage (copy loop runs to the NULL entry) -/
def nmsStorage : Storage := {nms}
/-- bound the constructor's own copy loop puts on the index (none: it runs to the NULL entry whatever the caller collected) -/
def nmsLoopGuard : Option Nat := {_opt(nms_guard)}

/-- `Registry::FindEntity`: capacity of the array that receives `strcpy( …, PrettyTmpName( schNm ) )` (none: no such copy) -/
def schformatCap : Option Nat := {_opt(sch_cap)}
/-- STEPcomplex ctor: every `strcpy( nms[j], … )` goes into a block allocated `length() + 1` on the line before -/
def nmsCopyExactAlloc : Bool := {b(nms_exact)}

/-- `StrEndsWith` (called by `GetLiteralStr` for every apostrophe): how much of the string it inspects -/
def strEndsWithShape : EndsWithShape := {ews}

/-- the `delete item;` statements of the three aggregate `ReadValue` functions (position, guard) -/
def aggrDeletes : DelCfg := {ad[0]}
def entityAggrDeletes : DelCfg := {ad[1]}
def selectAggrDeletes : DelCfg := {ad[2]}
/-- the other `ReadValue` definitions of src/clstepcore: they hand the call to `STEPaggregate::ReadValue` and touch no node
(anything else makes the extractor fail: the three tables above then no longer cover the aggregate readers) -/
def readValueDelegating : List String := [{', '.join('"' + x + '"' for x in rv_deleg)}]

/-- `GetKeyword` accepts `&` as a keyword character (false: `&SCOPE` is never recognised, CreateScopeInstances always takes
its first error exit, CreateInstance returns ENTITY_NULL) -/
def getKeywordAcceptsAmp : Bool := {b(gk_amp)}

/-- `PushPastImbedAggr` ends at a `;` outside a string literal (put back): an aggregate that is not closed does not leave the record -/
def imbedAggrStaysInRecord : Bool := {b(ia_stay)}

/-- the `);` recovery scan of `SDAI_Application_instance::STEPread`: it also ends at a semicolon outside a string literal
(the end of the record); it puts the `;` it found back -/
def recoveryScanStaysInRecord : Bool := {b(rs_stay)}
/-- ... and only a `;` outside a string literal ends it, apostrophes counted from where the scan starts (the scan may start
inside a literal: then it runs past the record's `;`) -/
def recoveryScanCountsQuotes : Bool := {b(rs_quotes)}
def recoveryScanPutsBackSemi : Bool := {b(rs_pb)}

/-- `SkipInstance` has the `case '/':` that steps over a comment -/
def skipInstanceSkipsComments : Bool := {b(skipcm)}

/-- `MAX_COMMENT_LENGTH` and the number of iterations `ReadComment`'s guard admits -/
def maxCommentLength : Nat := {mcl}
def readCommentIters : Nat := {rc_iters}

/-- `_maxErrorCount` (both cut-offs `> _maxErrorCount` are present in ReadData1/ReadData2) -/
def maxErrorCount : Nat := {mec}

/-- `FindHeaderSection`: `char buf[cap]`, `getline( buf, n, ';' )`, give-up test -/
def findHeaderCap : Nat := {fh_cap}
def findHeaderGetlineN : Nat := {fh_n}
def findHeaderExit : ExitCond := {fh_exit}

/-- export-list loops `while( c == ',' … )` of Create/ReadScopeInstances: is the stream state part of the condition? -/
def exportLoopChecksStreamCreate : Bool := {b(ex[0])}
def exportLoopChecksStreamRead : Bool := {b(ex[1])}

/-- `PushPastImbedAggr`: recursive on `(` ?  bytes of fixed scratch in every frame -/
def imbedAggrRecursive : Bool := {b(rec)}
def imbedAggrFrameBuf : Nat := {frame}

/-- every `sprintf` into a fixed array in the anchored files; all `%s` arguments are dictionary names / literals -/
def sprintfSites : List SprintfSite := [
  {sp_txt}
]

/-- sprintf calls whose `%s` argument is a caller-supplied API string (`ValidLevel( const char * attrValue, … )`):
not reachable from file bytes, excluded from the theorem, reported in notes/C05.md -/
def sprintfApiSites : List SprintfSite := [
  {sp_api_txt}
]

end StepModel.Generated.C05
"""
    return {"C05Buffers.lean": out}

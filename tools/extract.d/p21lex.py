"""Constants and behaviour switches of the Part 21 literal scanners -> Generated/P21LexGen.lean  (C09)

Everything the C09 theorems depend on that is a constant, a table or a *shape of code* in the source is re-derived
here on every run; when a pattern no longer matches, extraction fails and the tie is reported broken.

  read_func.cc        ReadInteger / ReadNumber: is a failed extraction reported?   ReadReal: buffer size, is a failed
                      conversion reported?
  sdaiEnum.cc         SDAI_LOGICAL::ReadEnum search bound and whether the UNSET name is rejected; element_at tables
  sdaiBinary.cc       ReadBinary: are delimiters without digits reported?
  STEPattribute.cc    delimiter list passed by STEPread; `$` branch for OPTIONAL attributes; asStr of reals
  sdai.cc / sdai.h    null sentinels and the C types behind SDAI_Integer / SDAI_Real
  errordesc.h         Severity values
  iso-10303-21--2002.bnf   the productions transcribed in P21/Grammar.lean
"""
import os, re


def _body(text, header_re, what):
    """text of the function whose header matches header_re (up to the matching closing brace)"""
    m = re.search(header_re, text)
    if not m:
        raise ValueError(f"{what}: header not found")
    i = text.index("{", m.end() - 1)
    depth, j = 0, i
    while j < len(text):
        if text[j] == "{":
            depth += 1
        elif text[j] == "}":
            depth -= 1
            if depth == 0:
                return text[i:j + 1]
        j += 1
    raise ValueError(f"{what}: unbalanced braces")


def _strip(code):
    code = re.sub(r"//[^\n]*", "", code)
    code = re.sub(r"/\*.*?\*/", "", code, flags=re.S)
    return code


def _b(x):
    return "true" if x else "false"


BNF_EXPECT = {
    "integer": "[ sign ] digit { digit }",
    "real": "[ sign ] digit { digit } '.' { digit } [ 'E' [ sign ] digit { digit } ]",
    "binary": """'"' ( '0' | '1' | '2' | '3' ) { hex } '"'""",
    "enumeration": "'.' upper { upper | digit } '.'",
    "entity_instance_name": "'#' digit { digit }",
    "string": "'''' { non_q_char | apostrophe apostrophe | reverse_solidus reverse_solidus | control_directive } ''''",
    "sign": "'+' | '-'",
    "hex": "'0' | '1' | '2' | '3' | '4' | '5' | '6' | '7' | '8' | '9' | 'A' | 'B' | 'C' | 'D' | 'E' | 'F'",
    "page": "reverse_solidus 'S' reverse_solidus character",
    "alphabet": "reverse_solidus 'P' upper reverse_solidus",
    "arbitrary": "reverse_solidus 'X' reverse_solidus hex_one",
    "extended2": "reverse_solidus 'X2' reverse_solidus hex_two { hex_two } end_extended",
    "extended4": "reverse_solidus 'X4' reverse_solidus hex_four { hex_four } end_extended",
    "end_extended": "reverse_solidus 'X0' reverse_solidus",
    "control_directive": "page | alphabet | extended2 | extended4 | arbitrary",
    "non_q_char": "special | digit | space | lower | upper",
    "character": "space | digit | lower | upper | special | reverse_solidus | apostrophe",
}


def extract(repo):
    rd = lambda p: open(os.path.join(repo, p), encoding="latin-1").read()
    rf = rd("src/clstepcore/read_func.cc")
    en = rd("src/cldai/sdaiEnum.cc")
    bi = rd("src/cldai/sdaiBinary.cc")
    sa = rd("src/clstepcore/STEPattribute.cc")
    sd = rd("src/clstepcore/sdai.cc")
    sh = rd("include/clstepcore/sdai.h")
    ah = rd("include/clstepcore/STEPattribute.h")
    eh = rd("include/cldai/sdaiEnum.h")
    bnf = rd("doc/iso-10303-21--2002.bnf")

    # ---- ReadInteger / ReadNumber: extraction, test of fail(), optional report in the failing branch
    null_flags = {}

    def reports(fn_header, var, what, sentinel):
        body = _strip(_body(rf, fn_header, what))
        if not re.search(r"in\s*>>\s*ws\s*;", body) or not re.search(r"in\s*>>\s*" + var + r"\s*;", body):
            raise ValueError(f"{what}: extraction statements changed")
        # optional first branch: the in-band null sentinel is reported instead of stored (fixes/C09-9)
        m = re.search(r"if\s*\(\s*!\s*in\.fail\(\)\s*(&&\s*" + var + r"\s*==\s*" + sentinel + r"\s*)?\)\s*\{", body)
        if not m:
            raise ValueError(f"{what}: test of the extraction changed")
        null_rep = False
        if m.group(1):
            m2 = re.match(r"[^{}]*err->GreaterSeverity\(\s*SEVERITY_WARNING\s*\)\s*;[^{}]*\}\s*else\s+", body[m.end():], re.S)
            if not m2 or "valAssigned" in m2.group(0) or re.search(r"\bval\s*=", m2.group(0)):
                raise ValueError(f"{what}: unknown code in the null-sentinel branch")
            null_rep = True
            body = body[:m.start()] + body[m.end() + m2.end():]
        null_flags[what] = null_rep
        m = re.search(r"if\s*\(\s*!\s*in\.fail\(\)\s*\)\s*\{\s*valAssigned\s*=\s*1;\s*val\s*=\s*" + var + r";\s*\}(.*?)CheckRemainingInput\(\s*in,\s*err,\s*\"\w+\",\s*tokenList\s*\)", body, re.S)
        if not m:
            raise ValueError(f"{what}: assignment / CheckRemainingInput shape changed")
        tail = m.group(1)
        if tail.strip() == "":
            return False
        # repaired shape: `bool blank = in.eof();` between the two extractions, `else if( !blank ) { err->GreaterSeverity( SEVERITY_WARNING ) ... }`
        if re.search(r"in\s*>>\s*ws\s*;\s*bool\s+blank\s*=\s*in\.eof\(\)\s*;\s*in\s*>>\s*" + var, body) and \
           re.fullmatch(r"\s*else\s+if\s*\(\s*!\s*blank\s*\)\s*\{[^{}]*err->GreaterSeverity\(\s*SEVERITY_WARNING\s*\)\s*;[^{}]*\}\s*", tail, re.S):
            return True
        raise ValueError(f"{what}: unknown code after the assignment: {tail.strip()[:120]!r}")

    int_rep = reports(r"int\s+ReadInteger\(\s*SDAI_Integer\s*&\s*val,\s*istream\s*&\s*in,[^)]*\)\s*\{", "i", "ReadInteger", "S_INT_NULL")
    num_rep = reports(r"int\s+ReadNumber\(\s*SDAI_Real\s*&\s*val,\s*istream\s*&\s*in,[^)]*\)\s*\{", "d", "ReadNumber", "S_NUMBER_NULL")

    # ---- ReadReal
    rr = _strip(_body(rf, r"int\s+ReadReal\(\s*SDAI_Real\s*&\s*val,\s*istream\s*&\s*in,[^)]*\)\s*\{", "ReadReal"))
    m = re.search(r"char\s+buf\s*\[\s*(\d+)\s*\]\s*;", rr)
    if m:
        real_buf = int(m.group(1))          # fixed buffer: the model has an explicit overflow outcome
    elif re.search(r"std::string\s+buf\s*;", rr):
        real_buf = 0                         # growing buffer: no overflow
    else:
        raise ValueError("ReadReal: buffer declaration not found")
    m = re.search(r"if\s*\(\s*!\s*in2\.fail\(\)\s*&&\s*d\s*==\s*S_REAL_NULL\s*\)\s*\{", rr)
    if m:
        m2 = re.match(r"\s*val\s*=\s*S_REAL_NULL\s*;[^{}]*err->GreaterSeverity\(\s*SEVERITY_WARNING\s*\)\s*;[^{}]*\}\s*else\s+", rr[m.end():], re.S)
        if not m2 or "valAssigned" in m2.group(0):
            raise ValueError("ReadReal: unknown code in the null-sentinel branch")
        rr = rr[:m.start()] + rr[m.end() + m2.end():]
        null_flags["ReadReal"] = True
    else:
        null_flags["ReadReal"] = False
    m = re.search(r"if\s*\(\s*!\s*in2\.fail\(\)\s*\)\s*\{\s*valAssigned\s*=\s*1;\s*val\s*=\s*d;\s*err->GreaterSeverity\(\s*e\.severity\(\)\s*\);\s*err->AppendToDetailMsg\(\s*e\.DetailMsg\(\)\s*\);\s*\}\s*else\s*\{\s*val\s*=\s*S_REAL_NULL;(.*?)\}\s*CheckRemainingInput\(\s*in,\s*err,\s*\"Real\",\s*tokenList\s*\)", rr, re.S)
    if not m:
        raise ValueError("ReadReal: conversion / assignment shape changed")
    tail = m.group(1)
    real_unless_blank = False
    if tail.strip() == "":
        real_rep = False
    elif re.fullmatch(r"\s*if\s*\(\s*(?:i\s*>\s*0|!\s*buf\.empty\(\))\s*\)\s*\{[^{}]*err->GreaterSeverity\(\s*SEVERITY_WARNING\s*\)\s*;[^{}]*\}\s*", tail, re.S):
        real_rep = True
    elif re.fullmatch(r"\s*if\s*\(\s*!\s*blank\s*\)\s*\{[^{}]*err->GreaterSeverity\(\s*SEVERITY_WARNING\s*\)\s*;[^{}]*\}\s*", tail, re.S):
        # reported unless the input was blank: `blank` must be the eof test right after the first `in >> ws`
        if not re.search(r"in\s*>>\s*ws\s*;\s*bool\s+blank\s*=\s*in\.eof\(\)\s*;\s*c\s*=\s*in\.peek\(\)\s*;", rr) \
                or len(re.findall(r"\bblank\b", rr)) != 2:
            raise ValueError("ReadReal: `blank` is not `in.eof()` taken right after the leading `in >> ws`")
        real_rep = True
        real_unless_blank = True
    else:
        raise ValueError(f"ReadReal: unknown code in the failing branch: {tail.strip()[:120]!r}")
    # the checks ReadReal makes while collecting, in order (the model's realCollect follows exactly these)
    for pat, what in [(r"if\s*\(\s*c\s*==\s*'\+'\s*\|\|\s*c\s*==\s*'-'\s*\)", "sign"),
                      (r"if\s*\(\s*!\s*isdigit\(\s*c\s*\)\s*\)\s*\{\s*e\.severity\(\s*SEVERITY_WARNING\s*\)", "initial digit"),
                      (r"if\s*\(\s*c\s*==\s*'\.'\s*\)", "decimal point"),
                      (r"if\s*\(\s*\(\s*c\s*==\s*'e'\s*\)\s*\|\|\s*\(\s*c\s*==\s*'E'\s*\)\s*\)", "exponent letter"),
                      (r"istringstream\s+in2\(\s*(?:\(\s*char\s*\*\s*\)\s*)?buf\s*\)", "second stream")]:
        if not re.search(pat, rr):
            raise ValueError(f"ReadReal: {what} test changed")

    # ---- LOGICAL
    lg = _strip(_body(en, r"Severity\s+SDAI_LOGICAL::ReadEnum\(", "SDAI_LOGICAL::ReadEnum"))
    if not re.search(r"while\(\s*\(\s*i\s*<\s*\(\s*no_elements\(\)\s*\+\s*1\s*\)\s*\)", lg):
        raise ValueError("SDAI_LOGICAL::ReadEnum: search bound changed")
    if re.search(r"if\(\s*\(\s*no_elements\(\)\s*\+\s*1\s*\)\s*==\s*i\s*\)\s*\{", lg):
        log_rej = False
    elif re.search(r"if\(\s*\(\s*no_elements\(\)\s*\+\s*1\s*\)\s*==\s*i\s*\|\|\s*LUnset\s*==\s*i\s*\)\s*\{", lg):
        log_rej = True
    else:
        raise ValueError("SDAI_LOGICAL::ReadEnum: not-found test changed")
    m = re.search(r"enum\s+Logical\s*\{([^}]*)\}", eh)
    logical_order = [x.strip() for x in m.group(1).split(",")] if m else None
    if logical_order != ["LFalse", "LTrue", "LUnset", "LUnknown"]:
        raise ValueError(f"enum Logical changed: {logical_order}")
    m = re.search(r"enum\s+Boolean\s*\{([^}]*)\}", eh)
    if not m or [x.strip() for x in m.group(1).split(",")] != ["BFalse", "BTrue", "BUnset"]:
        raise ValueError("enum Boolean changed")

    def element_table(cls, names):
        body = _strip(_body(en, r"const\s+char\s*\*\s*" + cls + r"::element_at\(", cls + "::element_at"))
        out = {}
        for k, v in re.findall(r"case\s+(\w+)\s*:\s*return\s+\"(\w*)\"\s*;", body):
            out[k] = v
        d = re.search(r"default:\s*return\s+\"(\w*)\"", body)
        return [out.get(n, d.group(1) if d else "?") for n in names]
    log_tbl = element_table("SDAI_LOGICAL", ["LFalse", "LTrue", "LUnset", "LUnknown"])
    bool_tbl = element_table("SDAI_BOOLEAN", ["BFalse", "BTrue"])
    m = re.search(r"int\s+SDAI_LOGICAL::no_elements\(\)\s*const\s*\{\s*return\s+(\d+)\s*;", en)
    m2 = re.search(r"int\s+SDAI_BOOLEAN::no_elements\(\)\s*const\s*\{\s*return\s+(\d+)\s*;", en)
    if not m or not m2 or int(m.group(1)) != 3 or int(m2.group(1)) != 2:
        raise ValueError("no_elements of LOGICAL/BOOLEAN changed")

    # ---- BINARY
    rb = _strip(_body(bi, r"Severity\s+SDAI_Binary::ReadBinary\(", "SDAI_Binary::ReadBinary"))
    m = re.search(r"if\(\s*AssignVal\s*&&\s*\(\s*str\.length\(\)\s*>\s*0\s*\)\s*\)\s*\{\s*operator=\s*\(\s*str\.c_str\(\)\s*\);\s*\}(.*?)if\(\s*c\s*==\s*'\\\"'\s*\)", rb, re.S)
    if not m:
        raise ValueError("ReadBinary: assignment shape changed")
    tail = m.group(1)
    if tail.strip() == "":
        bin_rej = False
    elif re.fullmatch(r"\s*if\(\s*str\.length\(\)\s*==\s*0\s*\)\s*\{[^{}]*err->GreaterSeverity\(\s*SEVERITY_WARNING\s*\)\s*;[^{}]*\}\s*", tail, re.S):
        bin_rej = True
    else:
        raise ValueError(f"ReadBinary: unknown code after the assignment: {tail.strip()[:120]!r}")

    # ---- CheckRemainingInput: what is skipped between the value and its delimiter
    st = rd("src/clutils/Str.cc")
    cri = _strip(_body(st, r"Severity\s+CheckRemainingInput\(\s*istream\s*&\s*in,\s*ErrorDescriptor\s*\*\s*err,\s*const\s+char\s*\*\s*typeName", "CheckRemainingInput"))
    m = re.search(r"in\.clear\(\);\s*(.*?)\s*if\(\s*in\.eof\(\)\s*\)", cri, re.S)
    if not m:
        raise ValueError("CheckRemainingInput: clear / skip / eof test changed")
    skip = m.group(1).strip()
    if re.fullmatch(r"in\s*>>\s*ws\s*;", skip):
        cri_comments = False
    elif re.fullmatch(r"SkipTokenSeparators\(\s*in\s*\)\s*;", skip):
        sk = _strip(_body(st, r"static\s+void\s+SkipTokenSeparators\(\s*istream\s*&\s*in\s*\)", "SkipTokenSeparators"))
        for pat, what in [(r"in\s*>>\s*ws\s*;\s*while\(\s*in\.good\(\)\s*&&\s*in\.peek\(\)\s*==\s*'/'\s*\)", "loop head"),
                          (r"if\(\s*in\.peek\(\)\s*!=\s*'\*'\s*\)\s*\{\s*in\.clear\(\);\s*in\.putback\(\s*'/'\s*\);\s*return;", "lone slash"),
                          (r"while\(\s*in\.get\(\s*c\s*\)\s*&&\s*!\(\s*prev\s*==\s*'\*'\s*&&\s*c\s*==\s*'/'\s*\)\s*\)\s*\{\s*prev\s*=\s*c;\s*\}\s*in\s*>>\s*ws\s*;", "comment body")]:
            if not re.search(pat, sk):
                raise ValueError(f"SkipTokenSeparators: {what} changed")
        cri_comments = True
    else:
        raise ValueError(f"CheckRemainingInput: unknown separator skipping: {skip[:100]!r}")
    # the delimiter test, three sites: next character, recovery loop, character the loop stopped at
    bare = [r"if\(\s*strchr\(\s*delimiterList,\s*c\s*\)\s*==\s*NULL\s*\)",
            r"for\(\s*in\.get\(\s*c\s*\);\s*in\s*&&\s*!strchr\(\s*delimiterList,\s*c\s*\);\s*in\.get\(\s*c\s*\)\s*\)",
            r"if\(\s*strchr\(\s*delimiterList,\s*c\s*\)\s*!=\s*NULL\s*\)"]
    guarded = [r"if\(\s*!IsDelimiter\(\s*delimiterList,\s*c\s*\)\s*\)",
               r"for\(\s*in\.get\(\s*c\s*\);\s*in\s*&&\s*!IsDelimiter\(\s*delimiterList,\s*c\s*\);\s*in\.get\(\s*c\s*\)\s*\)",
               r"if\(\s*(?:!endOfRecord\s*&&\s*)?IsDelimiter\(\s*delimiterList,\s*c\s*\)\s*\)"]
    # the recovery loop: plain (`skipBuf += c;`) or ending at the record's `;` outside a string literal (fixes/C05-15)
    lm = re.search(r"for\(\s*in\.get\(\s*c\s*\);[^)]*\)\s*;[^{]*\{(.*?)\}\s*if\(\s*(!endOfRecord\s*&&\s*)?(?:IsDelimiter\(|strchr\()", cri, re.S) \
        or re.search(r"for\(\s*in\.get\(\s*c\s*\);.*?in\.get\(\s*c\s*\)\s*\)\s*\{(.*)\}\s*if\(\s*(!endOfRecord\s*&&\s*)?(?:IsDelimiter\(|strchr\()", cri, re.S)
    if not lm:
        raise ValueError("CheckRemainingInput: recovery loop not found")
    lbody = re.sub(r"\s+", "", lm.group(1))
    if lbody == "skipBuf+=c;" and not lm.group(2):
        cri_semicolon = False
    elif lbody == "if(c==';'){in.putback(c);endOfRecord=true;break;}skipBuf+=c;" and lm.group(2) \
            and re.search(r"bool\s+endOfRecord\s*=\s*false\s*;", cri) and "inString" not in cri:
        cri_semicolon = True       # the first `;`, quoted or not (fixes/C05-15 as corrected by C05-19)
    else:
        raise ValueError(f"CheckRemainingInput: unknown recovery loop body: {lbody[:160]!r}")
    if all(re.search(p, cri) for p in bare) and "IsDelimiter" not in cri:
        nul_is_delim = True          # strchr() matches the terminating NUL of the list
    elif all(re.search(p, cri) for p in guarded) and "strchr" not in cri:
        isd = _strip(_body(st, r"static\s+bool\s+IsDelimiter\(\s*const\s+char\s*\*\s*delimiterList,\s*char\s+c\s*\)", "IsDelimiter"))
        if not re.fullmatch(r"\{\s*return\s+c\s*!=\s*'\\0'\s*&&\s*strchr\(\s*delimiterList,\s*c\s*\)\s*!=\s*NULL\s*;\s*\}", isd):
            raise ValueError(f"IsDelimiter: body changed: {isd[:100]!r}")
        nul_is_delim = False
    else:
        raise ValueError("CheckRemainingInput: delimiter test changed")

    # ---- ReadEntityRef: the id is an `int` read with the formatted extractor (the model's extractInt32: range-checked)
    ai = rd("src/clstepcore/sdaiApplication_instance.cc")
    rer = _strip(_body(ai, r"SDAI_Application_instance\s*\*\s*ReadEntityRef\(\s*istream\s*&\s*in,", "ReadEntityRef"))
    if not re.search(r"int\s+id\s*=\s*-1\s*;\s*in\s*>>\s*id\s*;\s*if\(\s*in\.fail\(\)\s*\)", rer):
        raise ValueError("ReadEntityRef: the id is no longer read with `int id = -1; in >> id; if( in.fail() )`")
    m = re.search(r"default\s*:\s*\{(.*?)CheckRemainingInput\(\s*in,\s*err,\s*\"Entity Reference\",\s*tokenList\s*\);\s*return\s+S_ENTITY_NULL\s*;\s*\}", rer, re.S)
    if not m or not re.search(r"in\s*>>\s*ws\s*;\s*in\s*>>\s*c\s*;\s*switch\(\s*c\s*\)", rer):
        raise ValueError("ReadEntityRef: first character / `default:` branch changed")
    t = m.group(1).strip()
    if re.fullmatch(r"in\.putback\(\s*c\s*\);", t):
        ref_reports = False
    elif re.fullmatch(r"bool\s+gotChar\s*=\s*!in\.fail\(\);\s*in\.putback\(\s*c\s*\);\s*if\(\s*gotChar\s*&&\s*\(\s*c\s*==\s*'\\0'\s*\|\|\s*!tokenList\s*\|\|\s*!strchr\(\s*tokenList,\s*c\s*\)\s*\)\s*\)\s*\{[^{}]*err->GreaterSeverity\(\s*SEVERITY_WARNING\s*\);\s*\}", t, re.S):
        ref_reports = True
    else:
        raise ValueError(f"ReadEntityRef: unknown code in the `default:` branch: {t[:120]!r}")

    # ---- STEPattribute::STEPread
    sr = _strip(_body(sa, r"Severity\s+STEPattribute::STEPread\(\s*istream", "STEPattribute::STEPread"))
    dl = set(re.findall(r"(?:ReadInteger|ReadReal|ReadNumber|ReadEntityRef|CheckRemainingInput)\([^;]*?\"([^\"]*)\"\s*(?:,\s*instances,\s*addFileId\s*)?\)\s*;", sr))
    lists = {d for d in dl if set(d) <= set(",)")}
    if lists != {",)"}:
        raise ValueError(f"STEPattribute::STEPread: delimiter lists changed: {sorted(dl)}")
    m = re.search(r"if\(\s*c\s*==\s*'\$'\s*\)\s*\{\s*in\.ignore\(\);\s*CheckRemainingInput\([^;]*\);\s*\}\s*if\(\s*Nullable\(\)\s*\)\s*\{(.*?)\}\s*else\s+if\(\s*!strict\b[^{};]*\)\s*\{", sr, re.S)
    if not m:
        raise ValueError("STEPattribute::STEPread: `$` branch changed")
    t = m.group(1).strip()
    if t == "":
        dollar_keeps = True
    elif re.fullmatch(r"_error\.severity\(\s*SEVERITY_NULL\s*\)\s*;", t):
        dollar_keeps = False
    else:
        raise ValueError(f"STEPattribute::STEPread: unknown `$` handling for OPTIONAL attributes: {t[:100]!r}")
    # asStr of reals (both overloads must agree)
    as_bodies = [_strip(_body(sa[m.start():], r"STEPattribute::asStr\(", "asStr")) for m in re.finditer(r"STEPattribute::asStr\(", sa)]
    kinds = set()
    for b in as_bodies:
        mm = re.search(r"case\s+NUMBER_TYPE:\s*case\s+REAL_TYPE:(.*?)break;", b, re.S)
        if not mm:
            continue
        t = mm.group(1)
        if re.search(r"ss\.precision\(\s*\(\s*int\s*\)\s*Real_Num_Precision\s*\);\s*ss\s*<<\s*\*\(\s*ptr\.r\s*\);", t):
            kinds.add("ostream")
        elif re.search(r"WriteReal\(\s*\*\(\s*ptr\.r\s*\)\s*\)", t):
            kinds.add("WriteReal")
        else:
            kinds.add("?")
    if kinds == {"ostream"}:
        asstr_wr = False
    elif kinds == {"WriteReal"}:
        asstr_wr = True
    else:
        raise ValueError(f"STEPattribute::asStr: real rendering changed: {kinds}")

    # ---- constants
    m = re.search(r"#define\s+REAL_NUM_PRECISION\s+(\d+)", ah)
    if not m:
        raise ValueError("REAL_NUM_PRECISION not found")
    prec = int(m.group(1))
    wrb = _strip(_body(rf, r"std::string\s+WriteReal\(\s*SDAI_Real\s+val\s*\)", "WriteReal"))
    if re.search(r"sprintf\(\s*rbuf,\s*\"%\.\*G\",\s*\(\s*int\s*\)\s*RealNumPrecision,\s*val\s*\)\s*;", wrb) and "strtod" not in wrb:
        wr_round_trips = False
    elif re.search(r"int\s+prec\s*=\s*\(\s*int\s*\)\s*RealNumPrecision\s*;\s*sprintf\(\s*rbuf,\s*\"%\.\*G\",\s*prec,\s*val\s*\)\s*;\s*"
                   r"while\(\s*prec\s*<\s*17\s*&&\s*strtod\(\s*rbuf,\s*0\s*\)\s*!=\s*val\s*\)\s*\{\s*prec\+\+\s*;\s*"
                   r"sprintf\(\s*rbuf,\s*\"%\.\*G\",\s*prec,\s*val\s*\)\s*;\s*\}", wrb) and prec == 15:
        wr_round_trips = True       # 15, then 16, then 17 significant digits until the text converts back (fixes/C09-10)
    else:
        raise ValueError("WriteReal: format changed")
    if not re.search(r"typedef\s+long\s+SDAI_Integer\s*;", sh) or not re.search(r"typedef\s+double\s+SDAI_Real\s*;", sh):
        raise ValueError("SDAI_Integer / SDAI_Real typedefs changed")
    if not re.search(r"SDAI_INT_NULL\s*=\s*LONG_MAX\s*;", sd) or not re.search(r"SDAI_REAL_NULL\s*=\s*FLT_MIN\s*;", sd) \
            or not re.search(r"SDAI_NUMBER_NULL\s*=\s*FLT_MIN\s*;", sd):
        raise ValueError("null sentinels changed")
    er = rd("include/clutils/errordesc.h")
    m = re.search(r"enum\s+Severity\s*\{(.*?)\}", er, re.S)
    sev = {}
    nxt = 0
    for part in _strip(m.group(1)).split(","):
        part = part.strip()
        if not part:
            continue
        if "=" in part:
            k, v = [x.strip() for x in part.split("=")]
            nxt = int(v, 0)
        else:
            k = part
        sev[k] = nxt
        nxt += 1

    # ---- grammar productions
    prods = {}
    for line in bnf.splitlines():
        mm = re.match(r"^(\w+)\s*=\s*(.*?)\s*\.\s*$", line)
        if mm:
            prods[mm.group(1)] = mm.group(2)
    for k, v in BNF_EXPECT.items():
        if prods.get(k) != v:
            raise ValueError(f"BNF production `{k}` changed: {prods.get(k)!r}")

    def lst(name):
        return "[" + ", ".join(str(ord(c)) for c in name) + "]"
    out = f"""-- GENERATED by tools/extract.d/p21lex.py from read_func.cc, sdaiEnum.cc, sdaiBinary.cc, STEPattribute.cc, sdai.cc, errordesc.h
import StepModel.P21.Lex
namespace StepModel.Generated

/-- behaviour switches and constants of the literal scanners as the source has them now -/
def lexCfg : StepModel.P21.LexCfg :=
  {{ intReportsFail := {_b(int_rep)}, realReportsFail := {_b(real_rep)}, numberReportsFail := {_b(num_rep)},
    logicalRejectsUnset := {_b(log_rej)}, binaryRejectsEmpty := {_b(bin_rej)}, dollarKeepsError := {_b(dollar_keeps)},
    asStrUsesWriteReal := {_b(asstr_wr)}, criSkipsComments := {_b(cri_comments)}, realBuf := {real_buf}, realPrecision := {prec},
    nulIsDelim := {_b(nul_is_delim)}, realFailUnlessBlank := {_b(real_unless_blank)}, refReportsNonRef := {_b(ref_reports)},
    intNullReported := {_b(null_flags["ReadInteger"])}, realNullReported := {_b(null_flags["ReadReal"])},
    numberNullReported := {_b(null_flags["ReadNumber"])}, criStopsAtSemicolon := {_b(cri_semicolon)} }}

/-- `SDAI_LOGICAL::element_at(0..3)` and `SDAI_BOOLEAN::element_at(0..1)` -/
def logicalTable : List (List Nat) := [{", ".join(lst(x) for x in log_tbl)}]
def booleanTable : List (List Nat) := [{", ".join(lst(x) for x in bool_tbl)}]
/-- the delimiter list STEPattribute::STEPread passes to every scanner -/
def attrDelims : List Nat := {lst(",)")}

/-- `WriteReal` raises the precision from 15 to 16 and 17 significant digits until the text converts back to the value -/
def writeRealRoundTrips : Bool := {_b(wr_round_trips)}
/-- Severity values used by the scanners -/
def sevBug : Int := {sev["SEVERITY_BUG"]}
def sevInputError : Int := {sev["SEVERITY_INPUT_ERROR"]}
def sevWarning : Int := {sev["SEVERITY_WARNING"]}
def sevIncomplete : Int := {sev["SEVERITY_INCOMPLETE"]}
def sevUsermsg : Int := {sev["SEVERITY_USERMSG"]}
def sevNull : Int := {sev["SEVERITY_NULL"]}

end StepModel.Generated
"""
    return {"P21LexGen.lean": out}

"""resolve.c cycle searches and express.c built-ins -> Generated/ResolveGen.lean      (used by C04 and C20)

* `ENTITY_check_subsuper_cyclicity` / `TYPE_check_select_cyclicity`: the shape of the sibling loop is checked
  statement by statement and the action taken on an already-visited node (`return 0` or `continue`) is emitted as a
  constant; any other shape is a broken tie.
* `BUILTINSinitialize`: name and parameter count of every built-in function/procedure.
* the passes of `EXPRESSresolve` are not gated on `ERRORoccurred` (checked: no `return` between the passes).
"""
import os, re


def _strip(s):
    s = re.sub(r"/\*.*?\*/", " ", s, flags=re.S)
    return re.sub(r"//[^\n]*", "", s)


def _body(text, sig_re):
    m = re.search(sig_re, text)
    if not m:
        raise ValueError(f"{sig_re} not found")
    j = text.index("{", m.end() - 1)
    depth, k = 0, j
    while True:
        if text[k] == "{":
            depth += 1
        elif text[k] == "}":
            depth -= 1
            if depth == 0:
                break
        k += 1
    return text[j + 1:k]


def _norm(s):
    return re.sub(r"\s+", "", s)


def _cycle(body, kind):
    """returns True when the visited branch returns 0, False when it continues"""
    b = _norm(body)
    if kind == "subsuper":
        pat = (r"LISTdo\(enew->u\.entity->subtypes,sub,Entity\)"
               r"if\(e==sub\)\{ERRORreport_with_symbol\(SUBSUPER_LOOP,&sub->symbol,e->symbol\.name\);return1;\}"
               r"if\(sub->search_id==__SCOPE_search_id\)\{(return0|continue);\}"
               r"sub->search_id=__SCOPE_search_id;"
               r"if\(ENTITY_check_subsuper_cyclicity\(e,sub\)\)\{ERRORreport_with_symbol\(SUBSUPER_CONTINUATION,&sub->symbol,sub->symbol\.name\);return1;\}"
               r"LISTod;?return0;$")
    else:
        pat = (r"LISTdo\(tnew->u\.type->body->list,item,Type\)"
               r"if\(item->u\.type->body->type==select_\)\{"
               r"if\(tb==item->u\.type->body\)\{ERRORreport_with_symbol\(SELECT_LOOP,&item->symbol,item->symbol\.name\);return1;\}"
               r"if\(item->search_id==__SCOPE_search_id\)\{(return0|continue);\}"
               r"item->search_id=__SCOPE_search_id;"
               r"if\(TYPE_check_select_cyclicity\(tb,item\)\)\{ERRORreport_with_symbol\(SELECT_CONTINUATION,&item->symbol,item->symbol\.name\);return1;\}"
               r"\}LISTod;?return0;$")
    m = re.match(pat, b)
    if not m:
        raise ValueError(f"{kind} cycle search is not in the modelled shape: {b[:400]}")
    return m.group(1) == "return0"


def guarded_sites(repo):
    """codes named in an `ERRORis_enabled( CODE )` anywhere in src/express outside error.c"""
    import glob
    guarded = []
    for path in sorted(glob.glob(os.path.join(repo, "src/express/*.c"))):
        if os.path.basename(path) == "error.c":
            continue
        for mg in re.finditer(r"ERRORis_enabled\s*\(\s*(\w+)\s*\)", _strip(open(path).read())):
            guarded.append(mg.group(1))
    return sorted(set(guarded))


def extract(repo):
    rd = lambda p: _strip(open(os.path.join(repo, p)).read())
    res = rd("src/express/resolve.c")
    exp = rd("src/express/express.c")
    # the sub/super search may sit behind a recursion-depth guard: wrapper ENTITY_check_subsuper_cyclicity (static depth counter,
    # refusal through RESOLVEnested_too_deeply = SYNTAX, severity EXIT) around the worker ENTITY_check_subsuper_cyclicity_
    sub_body = _body(res, r"\bint\s+ENTITY_check_subsuper_cyclicity\s*\(\s*Entity\s+e\s*,\s*Entity\s+enew\s*\)\s*\{")
    depth_limit = None
    mw = re.match(r"staticintdepth=0;intfound=0;if\(depth>=(\w+)\)\{RESOLVEnested_too_deeply\(&enew->symbol,enew,\"chainofsubtypes\"\);return0;\}"
                  r"depth\+\+;found=ENTITY_check_subsuper_cyclicity_\(e,enew\);depth--;returnfound;$", _norm(sub_body))
    if mw:
        md = re.search(r"#define\s+" + mw.group(1) + r"\s+(\d+)", res)
        if not md:
            raise ValueError(f"{mw.group(1)} not found")
        depth_limit = int(md.group(1))
        sub_body = _body(res, r"\bstatic\s+int\s+ENTITY_check_subsuper_cyclicity_\s*\(\s*Entity\s+e\s*,\s*Entity\s+enew\s*\)\s*\{")
    sub_ret = _cycle(sub_body, "subsuper")
    sel_ret = _cycle(_body(res, r"\bint\s+TYPE_check_select_cyclicity\s*\(\s*TypeBody\s+tb\s*,\s*Type\s+tnew\s*\)\s*\{"), "select")
    # the drivers: fresh search id per start node, start node not marked
    d1 = _norm(_body(res, r"\bvoid\s+ENTITYcheck_subsuper_cyclicity\s*\(\s*Entity\s+e\s*\)\s*\{"))
    if d1 != "__SCOPE_search_id++;(void)ENTITY_check_subsuper_cyclicity(e,e);":
        raise ValueError("ENTITYcheck_subsuper_cyclicity: unexpected body " + d1)
    d2 = _norm(_body(res, r"\bvoid\s+TYPEcheck_select_cyclicity\s*\(\s*Type\s+t\s*\)\s*\{"))
    if d2 != "if(t->u.type->body->type==select_){__SCOPE_search_id++;(void)TYPE_check_select_cyclicity(t->u.type->body,t);}":
        raise ValueError("TYPEcheck_select_cyclicity: unexpected body " + d2)
    # the checks run only when their diagnostic is enabled
    st = _norm(_body(res, r"\bvoid\s+SCOPEresolve_types\s*\(\s*Scope\s+s\s*\)\s*\{"))
    for need in ("if(ERRORis_enabled(SELECT_LOOP)){TYPEcheck_select_cyclicity((Type)x);}",
                 "ENTITYcheck_missing_supertypes((Entity)x);ENTITYresolve_types((Entity)x);ENTITYcalculate_inheritance((Entity)x);"
                 "if(ERRORis_enabled(SUBSUPER_LOOP)){ENTITYcheck_subsuper_cyclicity((Entity)x);}"):
        if need not in st:
            raise ValueError("SCOPEresolve_types: expected fragment missing: " + need)
    # passes are not gated
    rb = _body(exp, r"\bvoid\s+EXPRESSresolve\s*\(\s*Express\s+model\s*\)\s*\{")
    n_ret = len(re.findall(r"\breturn\b", rb))
    if n_ret != 1 or not re.search(r"if\s*\(\s*setjmp\s*\(\s*env\s*\)\s*\)\s*\{\s*return\s*;", rb):
        raise ValueError("EXPRESSresolve: passes are expected to run unconditionally (only the setjmp return)")
    for call in ("SCOPEresolve_subsupers(", "SCOPEresolve_types(", "SCOPEresolve_expressions_statements("):
        if call not in rb:
            raise ValueError(f"EXPRESSresolve: {call} not found")
    # SCOPEfind_for_rename: the statements the model depends on, in order; each is matched on its own so that an added guard
    # or a reformatting elsewhere does not break the tie.  Recognised: own-table look-up; loop over use_schemas with an optional
    # NULL skip; usedict look-up; optional uselist scan; `return 0`.
    # Since the look-up may be split into a wrapper and a worker that carries the chain of schemas being searched
    # (`struct rename_search`), the steps are matched on whichever function holds them.
    ffr = _norm(_body(exp, r"\bstatic\s+void\s*\*\s*SCOPEfind_for_rename\s*\(\s*Scope\s+schema\s*,\s*char\s*\*\s*name\s*\)\s*\{"))
    rec_call = r"SCOPEfind_for_rename\(use_schema,name\)"
    guard_decl = guard_loop = ""
    search_guard = False
    if re.fullmatch(r"returnSCOPE_find_for_rename\(schema,name,\(structrename_search\*\)0\);", ffr):
        ffr = _norm(_body(exp, r"\bstatic\s+void\s*\*\s*SCOPE_find_for_rename\s*\(\s*Scope\s+schema\s*,\s*char\s*\*\s*name\s*,"
                               r"\s*struct\s+rename_search\s*\*\s*up\s*\)\s*\{"))
        rec_call = r"SCOPE_find_for_rename\(use_schema,name,&here\)"
        guard_decl = r"structrename_searchhere;structrename_search\*p;"
        guard_loop = r"for\(p=up;p;p=p->up\)\{if\(p->schema==schema\)\{return0;\}\}here\.schema=schema;here\.up=up;"
        search_guard = True
    steps = [
        ("decls", r"void\*result;Rename\*rename;" + guard_decl, True),
    ] + ([("search-guard", guard_loop, True)] if search_guard else []) + [
        ("own", r"result=DICTlookup\(schema->symbol_table,name\);if\(result\)\{returnresult;\}", True),
        ("full-use", r"LISTdo\(schema->u\.schema->use_schemas,use_schema,Schema\)\{(?P<skip>if\(!use_schema\)\{continue;\})?"
                     r"result=" + rec_call + r";if\(result\)\{return\(result\);\}\}LISTod;", True),
        ("usedict", r"rename=\(Rename\*\)DICTlookup\(schema->u\.schema->usedict,name\);if\(rename\)\{RENAMEresolve\(rename,schema\);"
                    r"DICT_type=rename->type;return\(rename->object\);\}", True),
        ("uselist", r"LISTdo\(schema->u\.schema->uselist,r,Rename\*\)if\(!strcmp\(\(r->nnew\?r->nnew:r->old\)->name,name\)\)\{"
                    r"RENAMEresolve\(r,schema\);DICT_type=r->type;return\(r->object\);\}LISTod;", False),
        ("end", r"return0;$", True),
    ]
    pos, found = 0, {}
    for nm, pat, required in steps:
        m = re.compile(pat).match(ffr, pos)
        if m:
            found[nm] = m
            pos = m.end()
        elif required:
            raise ValueError(f"SCOPEfind_for_rename: statement `{nm}` not found where the model expects it: ...{ffr[pos:pos + 160]}")
    # EXPresolve_op_dot, select branch, no member knows the name: CASE_SKIP_LABEL iff EVERY member is an enumeration - one loop over
    # the select's own member list that and-s (clears a flag initialised true), then the two reports
    xp = _norm(_body(rd("src/express/expr.c"), r"\bType\s+EXPresolve_op_dot\s*\(\s*Expression\s+expr\s*,\s*Scope\s+scope\s*\)\s*\{"))
    if not re.search(r"boolall_enums=true;", xp):
        raise ValueError("EXPresolve_op_dot: `bool all_enums = true;` not found")
    if not re.search(r"case0:LISTdo\(op1type->u\.type->body->list,t,Type\)\{if\(t->u\.type->body->type!=enumeration_\)\{all_enums=false;\}\}LISTod;"
                     r"if\(all_enums\)\{ERRORreport_with_symbol\(CASE_SKIP_LABEL,&op2->symbol,op2->symbol\.name\);\}"
                     r"else\{ERRORreport_with_symbol\(UNDEFINED_ATTR,&op2->symbol,op2->symbol\.name\);\}resolve_failed\(expr\);return\(Type_Bad\);", xp):
        raise ValueError("EXPresolve_op_dot: the all-enumerations test of the select branch is not the conjunction over the member list "
                         "the model expects: ..." + xp[xp.find("case0:"):xp.find("case0:") + 260])
    dot_conj = True
    # ENTITYfind_inherited_entity (behind `SELF\\name.attr`): supertypes are compared by the name of their declaration; does a second
    # attempt resolve `name` in the entity's scope (an interfaced supertype known under a new name: USE ... AS)?
    ent_c = rd("src/express/entity.c")
    fie = _norm(_body(ent_c, r"\bstruct\s+Scope_\s*\*\s*ENTITYfind_inherited_entity\s*\(\s*struct\s+Scope_\s*\*\s*entity\s*,\s*char\s*\*\s*name\s*,\s*int\s+down\s*\)\s*\{"))
    head = r"if\(!strcmp\(name,entity->symbol\.name\)\)\{return\(entity\);\}"
    if re.fullmatch(head + r"__SCOPE_search_id\+\+;returnENTITY_find_inherited_entity\(entity,name,down\);", fie):
        qual_alias = False
    elif re.fullmatch(r"struct Scope_\*result;Entitynamed;".replace(" ", "") + head +
                      r"__SCOPE_search_id\+\+;result=ENTITY_find_inherited_entity\(entity,name,down\);if\(result\)\{returnresult;\}"
                      r"named=\(Entity\)SCOPEfind\(entity,name,SCOPE_FIND_ENTITY\);"
                      r"if\(named&&\(DICT_type==OBJ_ENTITY\)&&strcmp\(named->symbol\.name,name\)\)\{__SCOPE_search_id\+\+;"
                      r"returnENTITY_find_inherited_entity\(entity,named->symbol\.name,down\);\}return0;", fie):
        qual_alias = True
    else:
        raise ValueError("ENTITYfind_inherited_entity is not in a modelled form: " + fie[:300])
    # the OVERLOADED_ATTR check of ENTITYresolve_expressions: the look-up in each supertype is the marked search (a fresh search id per
    # supertype, every entity visited once, own attributes first, then the supertypes)
    ere = _norm(_body(res, r"\bvoid\s+ENTITYresolve_expressions\s*\(\s*Entity\s+e\s*\)\s*\{"))
    if not re.search(r"LISTdo_n\(e->u\.entity->supertypes,supr,Entity,b\)\{__SCOPE_search_id\+\+;if\(ENTITY_get_named_attribute_once\(supr,"
                     r"attr->name->symbol\.name\)\)\{ERRORreport_with_symbol\(OVERLOADED_ATTR,&attr->name->symbol,attr->name->symbol\.name,"
                     r"supr->symbol\.name\);", ere):
        raise ValueError("ENTITYresolve_expressions: the OVERLOADED_ATTR look-up is not the marked search the model expects")
    once = _norm(_body(res, r"\bstatic\s+Variable\s+ENTITY_get_named_attribute_once\s*\(\s*Entity\s+entity\s*,\s*char\s*\*\s*name\s*\)\s*\{"))
    if not re.fullmatch(r"Variableattribute;if\(entity->search_id==__SCOPE_search_id\)\{return0;\}entity->search_id=__SCOPE_search_id;"
                        r"LISTdo\(entity->u\.entity->attributes,attr,Variable\)if\(!strcmp\(VARget_simple_name\(attr\),name\)\)\{returnattr;\}LISTod;"
                        r"LISTdo\(entity->u\.entity->supertypes,super,Entity\)if\(0!=\(attribute=ENTITY_get_named_attribute_once\(super,name\)\)\)"
                        r"\{returnattribute;\}LISTod;return0;", once):
        raise ValueError("ENTITY_get_named_attribute_once is not in the modelled form: " + once[:200])
    uselist_fallback = "uselist" in found
    skips_null = found["full-use"].group("skip") is not None
    # every place outside error.c where the front end asks ERRORis_enabled( CODE ): the check or side effect behind it depends
    # on the -w/-i switches, so C20 needs the code to be un-switchable (severity above WARNING) and an input shape per site
    guarded = guarded_sites(repo)
    # line numbers: `yylineno` is a zero-initialised global; PARSERrun may (re)set it for every file it scans
    prun = _body(exp, r"\bstatic\s+Express\s+PARSERrun\s*\(\s*char\s*\*\s*filename\s*,\s*FILE\s*\*\s*fp\s*\)\s*\{")
    ml = re.search(r"\byylineno\s*=\s*(\d+)\s*;", prun)
    line_reset, line_base = (True, int(ml.group(1))) if ml else (False, 0)
    if not ml:
        py = rd("src/express/expparse.y")
        if not re.search(r"^\s*int\s+yylineno\s*;", py, re.M):
            raise ValueError("expparse.y: `int yylineno;` (zero-initialised line counter) not found")
    # the SUBTYPE_RESOLVE report: its format has three conversions (%s %s %d)
    msr = re.search(r"ERRORreport_with_symbol\s*\(\s*SUBTYPE_RESOLVE\s*,\s*&ent->symbol\s*,\s*expr->symbol\.name\s*,\s*(sym->name\s*,\s*)?sym->line\s*\)", res)
    if not msr:
        raise ValueError("resolve.c: the SUBTYPE_RESOLVE report is not in the expected form")
    subtype_resolve_name = msr.group(1) is not None
    bi = _body(exp, r"\bvoid\s+BUILTINSinitialize\s*\(\s*\)\s*\{")
    builtins = re.findall(r"(?:funcdef|procdef)\s*\(\s*\"(\w+)\"\s*,\s*(\d+)", bi)
    if len(builtins) < 20:
        raise ValueError("BUILTINSinitialize: built-ins not found")
    out = ["-- GENERATED by tools/extract.d/resolvegen.py from src/express/resolve.c and src/express/express.c.  Do not edit.",
           "namespace StepModel.Generated.ResolveGen", "",
           "/-- `ENTITY_check_subsuper_cyclicity`: on an already-visited subtype the sibling loop `return 0`s (true)",
           "    or `continue`s (false) -/",
           f"def visitedReturnsSubsuper : Bool := {'true' if sub_ret else 'false'}",
           "/-- the same for `TYPE_check_select_cyclicity` -/",
           f"def visitedReturnsSelect : Bool := {'true' if sel_ret else 'false'}",
           "/-- recursion depth at which `ENTITY_check_subsuper_cyclicity` refuses to go deeper (SYNTAX, severity EXIT), if guarded -/",
           f"def subsuperDepthLimit : Option Nat := {'none' if depth_limit is None else 'some ' + str(depth_limit)}",
           "/-- `SCOPEfind_for_rename` falls back to scanning the exporting schema's not-yet-processed `uselist` -/",
           f"def renameUselistFallback : Bool := {'true' if uselist_fallback else 'false'}",
           "/-- `SCOPEfind_for_rename` skips the NULL entry a failed `USE FROM <schema>;` leaves in `use_schemas` (else: crash) -/",
           f"def useSchemasSkipsNull : Bool := {'true' if skips_null else 'false'}",
           "/-- the look-up carries the chain of schemas being searched and does not re-enter one of them (schemas may USE each other) -/",
           f"def renameSearchGuard : Bool := {'true' if search_guard else 'false'}",
           "/-- `x.name` on a SELECT nobody of which knows `name`: the warning CASE_SKIP_LABEL iff every member of the select is an",
           "    enumeration (a conjunction over the member list), the error UNDEFINED_ATTR otherwise -/",
           f"def dotAllEnumsIsConjunction : Bool := {'true' if dot_conj else 'false'}",
           "/-- `SELF\\name.attr`: when no supertype is DECLARED under `name`, the name is resolved in the entity's scope and the search is",
           "    repeated with the declared name of what it denotes (a supertype interfaced under a new name) -/",
           f"def groupQualifierResolvesAlias : Bool := {'true' if qual_alias else 'false'}",
           "/-- the OVERLOADED_ATTR check looks a new attribute up in each supertype with the marked search (one visit per entity) -/",
           "def overloadLookupMarked : Bool := true",
           "/-- the codes some `ERRORis_enabled( CODE )` outside error.c consults -/",
           "def guardedCodeNames : List String := [" + ", ".join(f'"{g}"' for g in guarded) + "]",
           "/-- first line number of a file, and whether the counter restarts for every file that is scanned -/",
           f"def lineBase : Nat := {line_base}",
           f"def lineResetPerFile : Bool := {'true' if line_reset else 'false'}",
           "/-- the SUBTYPE_RESOLVE report passes the name of the non-entity between the subtype name and the line -/",
           f"def subtypeResolvePassesName : Bool := {'true' if subtype_resolve_name else 'false'}", "",
           "/-- `BUILTINSinitialize`: (name, parameter count) -/",
           "def builtins : List (String × Nat) := [" + ", ".join(f'("{n}", {c})' for n, c in builtins) + "]",
           "", "end StepModel.Generated.ResolveGen", ""]
    return {"ResolveGen.lean": "\n".join(out)}

"""Behaviour switches of the Part 21 reader/writer above the literal level -> Generated/P21RWGen.lean  (C01, C03)

Re-derived from the source on every run (a pattern that no longer matches raises = broken tie):

  sdaiString.cc / STEPaggrString.cc   does the string node writer append to the scratch string that
                                      STEPaggregate::STEPwrite shares between nodes, or assign it?
  Str.cc                              does CheckRemainingInput skip Part 21 comments with the white space?
  STEPaggregate.cc, STEPaggrEntity.cc, STEPaggrSelect.cc
                                      do the element loops skip token separators before an element?
  sdaiApplication_instance.cc        does the recovery scan to `);` leave the `;` on the stream?
  STEPcomplex.cc / STEPfile.cc        complex parts: mode flags forwarded, part errors merged, error reported to the file
  STEPfile.cc                         state transitions of ReadInstance, counters of ReadData2, AppendEntityErrorMsg floor
  p21read.cc                          exit rule
"""
import os, re


def _body(text, header_re, what):
    m = re.search(header_re, text)
    if not m:
        raise ValueError(f"{what}: header not found")
    i = text.index("{", m.end() - 1)
    depth, j = 0, i
    while j < len(text):
        if text[j] == "{":
            depth += 1
        elif text[j] == "}":
            depth -= 1
            if depth == 0:
                return text[i:j + 1]
        j += 1
    raise ValueError(f"{what}: unbalanced braces")


def _strip(code):
    code = re.sub(r"//[^\n]*", "", code)
    code = re.sub(r"/\*.*?\*/", "", code, flags=re.S)
    return code


def _b(x):
    return "true" if x else "false"


def flags(repo):
    rd = lambda p: open(os.path.join(repo, p), encoding="latin-1").read()
    ss = rd("src/cldai/sdaiString.cc")
    sn = rd("src/clstepcore/STEPaggrString.cc")
    st = rd("src/clutils/Str.cc")
    ag = rd("src/clstepcore/STEPaggregate.cc")
    ae = rd("src/clstepcore/STEPaggrEntity.cc")
    asel = rd("src/clstepcore/STEPaggrSelect.cc")
    ai = rd("src/clstepcore/sdaiApplication_instance.cc")
    cx = rd("src/clstepcore/STEPcomplex.cc")
    sf = rd("src/cleditor/STEPfile.cc")
    pr = rd("src/test/p21read/p21read.cc")
    out = {}

    # ---- string node writer
    sw = _strip(_body(ss, r"void\s+SDAI_String::STEPwrite\(\s*std::string\s*&\s*s\s*\)\s*const\s*\{", "SDAI_String::STEPwrite(std::string&)"))
    nw = _strip(_body(sn, r"const\s+char\s*\*\s*StringNode::STEPwrite\(\s*std::string\s*&\s*s\s*,", "StringNode::STEPwrite(std::string&)"))
    if not re.search(r"value\.STEPwrite\(\s*s\s*\)\s*;", nw):
        raise ValueError("StringNode::STEPwrite: no longer forwards to value.STEPwrite( s )")
    node_clears = bool(re.search(r"s\.clear\(\)\s*;\s*value\.STEPwrite", nw) or re.search(r"s\s*=\s*\"\"\s*;\s*value\.STEPwrite", nw))
    if re.fullmatch(r"\{\s*s\s*\+=\s*c_str\(\)\s*;\s*\}", sw.strip()):
        str_appends = True
    elif re.fullmatch(r"\{\s*s\s*=\s*c_str\(\)\s*;\s*\}", sw.strip()) or re.fullmatch(r"\{\s*s\.assign\(\s*c_str\(\)\s*\)\s*;\s*\}", sw.strip()):
        str_appends = False
    else:
        raise ValueError(f"SDAI_String::STEPwrite(std::string&): unknown body {sw.strip()[:80]!r}")
    out["stringNodeAppends"] = str_appends and not node_clears
    # every other node writer must assign (the model relies on it)
    for path, cls, pat in [("src/clstepcore/STEPaggrInt.cc", "IntNode", r"s\s*=\s*tmp\s*;"),
                           ("src/clstepcore/STEPaggrReal.cc", "RealNode", r"s\s*=\s*WriteReal\("),
                           ("src/clstepcore/STEPaggrEntity.cc", "EntityNode", r"s\s*=\s*\"\$\"\s*;")]:
        b = _strip(_body(rd(path), r"const\s+char\s*\*\s*" + cls + r"::STEPwrite\(\s*std::string\s*&\s*s\s*,", cls + "::STEPwrite"))
        if not re.search(pat, b):
            raise ValueError(f"{cls}::STEPwrite(std::string&): assignment shape changed")
    for path, cls in [("src/cldai/sdaiBinary.cc", "SDAI_Binary"), ("src/cldai/sdaiEnum.cc", "SDAI_Enum")]:
        b = _strip(_body(rd(path), r"const\s+char\s*\*\s*" + cls + r"::STEPwrite\(\s*std::string\s*&\s*s\s*\)\s*const\s*\{", cls + "::STEPwrite"))
        if re.search(r"s\s*\+=\s*c_str", b) or not re.search(r"s\s*=\s*\"", b):
            raise ValueError(f"{cls}::STEPwrite(std::string&): assignment shape changed")
    agw = _strip(_body(ag, r"void\s+STEPaggregate::STEPwrite\(\s*ostream\s*&\s*out", "STEPaggregate::STEPwrite"))
    if not re.search(r"std::string\s+s\s*;\s*while\(\s*n\s*\)\s*\{\s*out\s*<<\s*n->STEPwrite\(\s*s\s*,\s*currSch\s*\)\s*;", agw):
        raise ValueError("STEPaggregate::STEPwrite: scratch-string loop changed")

    # ---- CheckRemainingInput
    cr = _strip(_body(st, r"Severity\s+CheckRemainingInput\(\s*istream\s*&\s*in", "CheckRemainingInput"))
    if not re.search(r"in\.clear\(\)\s*;", cr):
        raise ValueError("CheckRemainingInput: shape changed")
    if re.search(r"in\.clear\(\)\s*;\s*in\s*>>\s*ws\s*;", cr):
        out["criSkipsComments"] = False
    elif re.search(r"in\.clear\(\)\s*;\s*SkipTokenSeparators\(\s*in\s*\)\s*;", cr) and "SkipTokenSeparators" in st:
        out["criSkipsComments"] = True
    else:
        raise ValueError("CheckRemainingInput: unknown separator skipping after in.clear()")
    # the recovery loop: runs to the next delimiter, or also ends at a `;` outside a string literal (the end of the record)
    stop_shape = (r"bool\s+inString\s*=\s*false\s*,\s*endOfRecord\s*=\s*false\s*;\s*for\(\s*in\.get\(\s*c\s*\)\s*;\s*in\s*&&\s*!IsDelimiter\(\s*delimiterList\s*,\s*c\s*\)\s*;\s*in\.get\(\s*c\s*\)\s*\)\s*\{\s*"
                  r"if\(\s*c\s*==\s*'\\''\s*\)\s*\{\s*inString\s*=\s*!inString\s*;\s*\}\s*else\s+if\(\s*c\s*==\s*';'\s*&&\s*!inString\s*\)\s*\{\s*in\.putback\(\s*c\s*\)\s*;\s*"
                  r"endOfRecord\s*=\s*true\s*;\s*break\s*;\s*\}\s*skipBuf\s*\+=\s*c\s*;\s*\}\s*if\(\s*!endOfRecord\s*&&\s*IsDelimiter\(\s*delimiterList\s*,\s*c\s*\)\s*\)")
    first_shape = (r"bool\s+endOfRecord\s*=\s*false\s*;\s*for\(\s*in\.get\(\s*c\s*\)\s*;\s*in\s*&&\s*!IsDelimiter\(\s*delimiterList\s*,\s*c\s*\)\s*;\s*in\.get\(\s*c\s*\)\s*\)\s*\{\s*"
                   r"if\(\s*c\s*==\s*';'\s*\)\s*\{\s*in\.putback\(\s*c\s*\)\s*;\s*endOfRecord\s*=\s*true\s*;\s*break\s*;\s*\}\s*skipBuf\s*\+=\s*c\s*;\s*\}\s*"
                   r"if\(\s*!endOfRecord\s*&&\s*IsDelimiter\(\s*delimiterList\s*,\s*c\s*\)\s*\)")
    out["criCountsQuotes"] = False
    if re.search(stop_shape, cr):
        out["criStopsAtSemicolon"] = True
        out["criCountsQuotes"] = True
    elif re.search(first_shape, cr) and "inString" not in cr:
        out["criStopsAtSemicolon"] = True
    elif "endOfRecord" not in cr and "inString" not in cr:
        out["criStopsAtSemicolon"] = False
    else:
        raise ValueError("CheckRemainingInput: unknown shape of the recovery loop")
    # the delimiter test: bare strchr (matches the list's terminating NUL) or the guarded helper
    n_strchr, n_isd = len(re.findall(r"\bstrchr\(\s*delimiterList\s*,\s*c\s*\)", cr)), len(re.findall(r"\bIsDelimiter\(\s*delimiterList\s*,\s*c\s*\)", cr))
    if (n_strchr, n_isd) == (3, 0):
        out["nulIsDelim"] = True
    elif (n_strchr, n_isd) == (0, 3) and re.search(
            r"static\s+bool\s+IsDelimiter\([^)]*\)\s*\{\s*return\s+c\s*!=\s*'\\0'\s*&&\s*strchr\(\s*delimiterList\s*,\s*c\s*\)\s*!=\s*NULL\s*;\s*\}", _strip(st)):
        out["nulIsDelim"] = False
    else:
        raise ValueError(f"CheckRemainingInput: delimiter test changed ({n_strchr} strchr, {n_isd} IsDelimiter)")

    # ---- aggregate element loops
    vals = []
    miss = []
    for txt, cls in [(ag, "STEPaggregate"), (ae, "EntityAggregate"), (asel, "SelectAggregate")]:
        b = _strip(_body(txt, r"Severity\s+" + cls + r"::ReadValue\(", cls + "::ReadValue"))
        m = re.search(r"errdesc\.ClearErrorMsg\(\)\s*;(.*?)if\(\s*exchangeFileFormat\s*\)", b, re.S)
        if not m:
            raise ValueError(f"{cls}::ReadValue: element loop changed")
        t = m.group(1).strip()
        peek = r"const\s+int\s+next\s*=\s*in\.peek\(\)\s*;\s*const\s+bool\s+missing\s*=\s*\(\s*next\s*==\s*','\s*\|\|\s*next\s*==\s*'\)'\s*\)\s*;"
        verdict = (r"CheckRemainingInput\(\s*in\s*,\s*&errdesc\s*,\s*buf\s*,\s*\",\)\"\s*\)\s*;\s*if\(\s*missing\s*\)\s*\{\s*"
                   r"errdesc\.GreaterSeverity\(\s*SEVERITY_WARNING\s*\)\s*;[^{}]*\}\s*if\(\s*errdesc\.severity\(\)\s*<\s*SEVERITY_INCOMPLETE\s*\)")
        if t == "":
            vals.append(False); miss.append(False)
        elif re.fullmatch(r"ReadTokenSeparator\(\s*in\s*\)\s*;", t):
            vals.append(True); miss.append(False)
        elif re.fullmatch(r"ReadTokenSeparator\(\s*in\s*\)\s*;\s*" + peek, t) and re.search(verdict, b) and len(re.findall(r"\bmissing\b", b)) == 2:
            vals.append(True); miss.append(True)
        else:
            raise ValueError(f"{cls}::ReadValue: unknown code before the element read: {t[:80]!r}")
        if not miss[-1] and "missing" in b:
            raise ValueError(f"{cls}::ReadValue: unknown use of `missing`")
    if len(set(vals)) != 1 or len(set(miss)) != 1:
        raise ValueError(f"aggregate element loops disagree: separators {vals}, missing element {miss}")
    out["aggrSkipsComments"] = vals[0]
    out["aggrReportsMissingElement"] = miss[0]
    # ---- elements of an aggregate of NUMBER (RealAggregate / RealNode)
    ar = _strip(rd("src/clstepcore/STEPaggrReal.cc"))
    n_rr = len(re.findall(r"if\(\s*ReadReal\(\s*value\s*,\s*(?:s|in)\s*,\s*err\s*,\s*\",\)\"\s*\)\s*\)", ar))
    n_rn = len(re.findall(r"if\(\s*number\s*\?\s*ReadNumber\(\s*value\s*,\s*(s|in)\s*,\s*err\s*,\s*\",\)\"\s*\)\s*:\s*ReadReal\(\s*value\s*,\s*\1\s*,\s*err\s*,\s*\",\)\"\s*\)\s*\)", ar))
    if (n_rr, n_rn) == (4, 0) and "ReadNumber" not in ar and "number" not in ar.replace("NUMBER", ""):
        out["numberElemReadsNumber"] = False
    elif (n_rr, n_rn) == (0, 4) and re.search(
            r"Severity\s+RealAggregate::ReadValue\([^)]*\)\s*\{\s*_number\s*=\s*elem_type\s*&&\s*\(\s*elem_type->NonRefType\(\)\s*==\s*NUMBER_TYPE\s*\)\s*;\s*"
            r"return\s+STEPaggregate::ReadValue\(\s*in\s*,\s*err\s*,\s*elem_type\s*,\s*insts\s*,\s*addFileId\s*,\s*assignVal\s*,\s*exchangeFileFormat\s*,\s*currSch\s*\)\s*;\s*\}", ar) \
            and re.search(r"SingleLinkNode\s*\*\s*RealAggregate::NewNode\(\)\s*\{\s*RealNode\s*\*\s*n\s*=\s*new\s+RealNode\(\)\s*;\s*n->number\s*=\s*_number\s*;\s*return\s+n\s*;\s*\}", ar):
        out["numberElemReadsNumber"] = True
    else:
        raise ValueError(f"RealNode: element readers changed ({n_rr} ReadReal, {n_rn} ReadNumber/ReadReal)")

    # ---- ReadPcd / ReadTokenSeparator (print control directives of Part 21 edition 1)
    rf0 = rd("src/clstepcore/read_func.cc")
    pcd = _strip(_body(rf0, r"Severity\s+ReadPcd\(\s*istream\s*&\s*in\s*\)", "ReadPcd"))
    m = re.fullmatch(r"\{\s*char\s+c\s*;\s*in\.get\(\s*c\s*\)\s*;\s*if\(\s*c\s*==\s*'\\\\'\s*\)\s*\{\s*in\.get\(\s*c\s*\)\s*;\s*"
                     r"if\(\s*c\s*==\s*'F'\s*\|\|\s*c\s*==\s*'N'\s*\)\s*\{\s*in\.get\(\s*c\s*\)\s*;\s*if\(\s*c\s*==\s*'\\\\'\s*\)\s*\{\s*(in\.get\(\s*c\s*\)\s*;\s*)?"
                     r"return\s+SEVERITY_NULL\s*;\s*\}\s*\}\s*\}\s*cerr\s*<<[^;]*;\s*return\s+SEVERITY_WARNING\s*;\s*\}", pcd)
    if not m:
        raise ValueError("ReadPcd: shape changed")
    out["pcdEatsNextChar"] = m.group(1) is not None
    rts = _strip(_body(rf0, r"void\s+ReadTokenSeparator\(\s*istream\s*&\s*in", "ReadTokenSeparator"))
    if not re.search(r"while\(\s*in\s*\)\s*\{\s*in\s*>>\s*ws\s*;\s*c\s*=\s*in\.peek\(\)\s*;\s*switch\(\s*c\s*\)\s*\{\s*case\s+'/'\s*:.*?ReadComment\(\s*in\s*,\s*s\s*\)\s*;.*?break\s*;\s*"
                     r"case\s+'\\\\'\s*:\s*ReadPcd\(\s*in\s*\)\s*;\s*break\s*;\s*case\s+'\\n'\s*:\s*in\.ignore\(\)\s*;\s*break\s*;\s*default\s*:\s*return\s*;\s*\}\s*\}", rts, re.S):
        raise ValueError("ReadTokenSeparator: dispatch changed")

    # ---- SkipInstance
    sk = _strip(_body(rf0, r"Severity\s+SkipInstance\(\s*istream\s*&\s*in", "SkipInstance"))
    if not re.search(r"case\s+';'\s*:\s*return\s+SEVERITY_NULL", sk) or not re.search(r"case\s+'\\''\s*:\s*in\.putback\(\s*c\s*\)\s*;\s*tmp\.STEPread", sk):
        raise ValueError("SkipInstance: shape changed")
    if re.search(r"case\s+'/'\s*:", sk):
        if not re.search(r"case\s+'/'\s*:\s*if\(\s*in\.peek\(\)\s*==\s*'\*'\s*\)\s*\{[^{}]*in\.putback\(\s*c\s*\)\s*;\s*ReadComment\(\s*in\s*,", sk):
            raise ValueError("SkipInstance: unknown handling of '/'")
        out["skipInstanceSkipsComments"] = True
    else:
        out["skipInstanceSkipsComments"] = False

    # ---- recovery scan
    rb = _strip(_body(ai, r"Severity\s+SDAI_Application_instance::STEPread\(\s*int\s+id", "SDAI_Application_instance::STEPread"))
    m = re.search(r"if\(\s*c\s*==\s*';'\s*\)\s*\{(.*?)\}", rb, re.S)
    if not m:
        raise ValueError("SDAI_Application_instance::STEPread: recovery scan changed")
    t = m.group(1).strip()
    if re.fullmatch(r"foundEnd\s*=\s*1\s*;", t):
        out["recoveryKeepsSemicolon"] = False
    elif re.fullmatch(r"in\.putback\(\s*c\s*\)\s*;\s*foundEnd\s*=\s*1\s*;", t) or re.fullmatch(r"foundEnd\s*=\s*1\s*;\s*in\.putback\(\s*c\s*\)\s*;", t):
        out["recoveryKeepsSemicolon"] = True
    else:
        raise ValueError(f"recovery scan: unknown code at `;`: {t[:80]!r}")
    # the loops themselves: `recoverScan` of the model transliterates exactly these two nested loops (character-wise, one
    # look-ahead after `)` that is examined again by the outer loop), in one of two shapes: not string-aware and running on
    # until `);` - or ending at a `;` outside a string literal (`inString` toggled by apostrophes); any other scan is not
    # the model's
    old_scan = (r"while\(\s*in\.good\(\)\s*&&\s*!foundEnd\s*\)\s*\{\s*while\(\s*in\.good\(\)\s*&&\s*\(\s*c\s*!=\s*'\)'\s*\)\s*\)\s*\{\s*"
                r"in\.get\(\s*c\s*\)\s*;\s*tmp\s*\+=\s*c\s*;\s*\}\s*if\(\s*in\.good\(\)\s*&&\s*\(\s*c\s*==\s*'\)'\s*\)\s*\)\s*\{\s*"
                r"in\s*>>\s*ws\s*;\s*in\.get\(\s*c\s*\)\s*;\s*tmp\s*\+=\s*c\s*;\s*if\(\s*c\s*==\s*';'\s*\)\s*\{[^{}]*\}\s*\}\s*\}\s*"
                r"_error\.AppendToDetailMsg\(\s*tmp\.c_str\(\)\s*\)")
    new_scan = (r"bool\s+inString\s*=\s*false\s*;\s*"
                r"while\(\s*in\.good\(\)\s*&&\s*!foundEnd\s*\)\s*\{\s*while\(\s*in\.good\(\)\s*&&\s*\(\s*c\s*!=\s*'\)'\s*\)\s*&&\s*!foundEnd\s*\)\s*\{\s*"
                r"in\.get\(\s*c\s*\)\s*;\s*tmp\s*\+=\s*c\s*;\s*if\(\s*in\.good\(\)\s*\)\s*\{\s*if\(\s*c\s*==\s*'\\''\s*\)\s*\{\s*inString\s*=\s*!inString\s*;\s*\}\s*"
                r"else\s+if\(\s*c\s*==\s*';'\s*&&\s*!inString\s*\)\s*\{\s*in\.putback\(\s*c\s*\)\s*;\s*foundEnd\s*=\s*1\s*;\s*\}\s*\}\s*\}\s*"
                r"if\(\s*!foundEnd\s*&&\s*in\.good\(\)\s*&&\s*\(\s*c\s*==\s*'\)'\s*\)\s*\)\s*\{\s*"
                r"in\s*>>\s*ws\s*;\s*in\.get\(\s*c\s*\)\s*;\s*tmp\s*\+=\s*c\s*;\s*if\(\s*c\s*==\s*';'\s*\)\s*\{[^{}]*\}\s*"
                r"else\s+if\(\s*in\.good\(\)\s*&&\s*c\s*==\s*'\\''\s*\)\s*\{\s*inString\s*=\s*!inString\s*;\s*\}\s*\}\s*\}\s*"
                r"_error\.AppendToDetailMsg\(\s*tmp\.c_str\(\)\s*\)")
    first_scan = (r"while\(\s*in\.good\(\)\s*&&\s*!foundEnd\s*\)\s*\{\s*while\(\s*in\.good\(\)\s*&&\s*\(\s*c\s*!=\s*'\)'\s*\)\s*&&\s*!foundEnd\s*\)\s*\{\s*"
                  r"in\.get\(\s*c\s*\)\s*;\s*tmp\s*\+=\s*c\s*;\s*if\(\s*in\.good\(\)\s*&&\s*c\s*==\s*';'\s*\)\s*\{\s*in\.putback\(\s*c\s*\)\s*;\s*foundEnd\s*=\s*1\s*;\s*\}\s*\}\s*"
                  r"if\(\s*!foundEnd\s*&&\s*in\.good\(\)\s*&&\s*\(\s*c\s*==\s*'\)'\s*\)\s*\)\s*\{\s*"
                  r"in\s*>>\s*ws\s*;\s*in\.get\(\s*c\s*\)\s*;\s*tmp\s*\+=\s*c\s*;\s*if\(\s*c\s*==\s*';'\s*\)\s*\{[^{}]*\}\s*\}\s*\}\s*"
                  r"_error\.AppendToDetailMsg\(\s*tmp\.c_str\(\)\s*\)")
    out["recoveryCountsQuotes"] = False
    if re.search(old_scan, rb) and "inString" not in rb:
        out["recoveryStopsAtSemicolon"] = False
    elif re.search(new_scan, rb) and len(re.findall(r"\binString\b", rb)) == 6 and out["recoveryKeepsSemicolon"]:
        out["recoveryStopsAtSemicolon"] = True
        out["recoveryCountsQuotes"] = True
    elif re.search(first_scan, rb) and "inString" not in rb and out["recoveryKeepsSemicolon"]:
        out["recoveryStopsAtSemicolon"] = True
    else:
        raise ValueError("SDAI_Application_instance::STEPread: the recovery scan after 'No more attributes were expected' is no longer "
                         "one of the three shapes of nested character loops the model's recoverScan transliterates")
    # ---- the raw-text scanners (elements of aggregates of aggregates; parameter lists SkipSimpleRecord steps over): the
    # iterative PushPastImbedAggr and the switch of SCLundefined::STEPread, each with or without the `;` that ends the value
    # at the end of the record (fixes/C05-16 and -17 go together)
    ppa = _strip(_body(rf0, r"void\s+PushPastImbedAggr\(\s*istream\s*&\s*in", "PushPastImbedAggr"))
    ppa_shape = (r"in\s*>>\s*ws\s*;\s*in\.get\(\s*c\s*\)\s*;\s*if\(\s*c\s*==\s*'\('\s*\)\s*\{\s*unsigned\s+long\s+depth\s*=\s*1\s*;\s*s\s*\+=\s*c\s*;\s*in\.get\(\s*c\s*\)\s*;\s*"
                 r"while\(\s*in\.good\(\)\s*\)\s*\{\s*if\(\s*c\s*==\s*'\('\s*\)\s*\{\s*s\s*\+=\s*c\s*;\s*\+\+depth\s*;\s*\}\s*"
                 r"else\s+if\(\s*c\s*==\s*STRING_DELIM\s*\)\s*\{\s*in\.putback\(\s*c\s*\)\s*;\s*PushPastString\(\s*in\s*,\s*s\s*,\s*err\s*\)\s*;\s*\}\s*"
                 r"else\s+if\(\s*c\s*==\s*'\)'\s*\)\s*\{\s*s\s*\+=\s*c\s*;\s*if\(\s*--depth\s*==\s*0\s*\)\s*\{\s*break\s*;\s*\}\s*\}\s*"
                 r"(else\s+if\(\s*c\s*==\s*';'\s*\)\s*\{\s*in\.putback\(\s*c\s*\)\s*;\s*break\s*;\s*\}\s*)?"
                 r"else\s*\{\s*s\s*\+=\s*c\s*;\s*\}\s*in\.get\(\s*c\s*\)\s*;\s*\}")
    mp = re.search(ppa_shape, ppa)
    if not mp:
        raise ValueError("PushPastImbedAggr: no longer the depth-counting loop the model's pushPastAggr stands for")
    su = _strip(_body(rd("src/clstepcore/STEPundefined.cc"), r"Severity\s+SCLundefined::STEPread\(\s*istream\s*&\s*in", "SCLundefined::STEPread"))
    cases = re.findall(r"case\s+('(?:\\.|[^'])'|EOF)\s*:", su)
    semi = re.search(r"case\s+';'\s*:\s*in\.putback\(\s*c\s*\)\s*;\s*terminal\s*=\s*1\s*;\s*break\s*;", su)
    if cases not in (["'('", "'\\''", "','", "')'", "'\\0'", "EOF"], ["'('", "'\\''", "','", "')'", "';'", "'\\0'", "EOF"]) or (("';'" in cases) != bool(semi)):
        raise ValueError(f"SCLundefined::STEPread: the switch changed: {cases}")
    if bool(mp.group(1)) != bool(semi):
        raise ValueError("PushPastImbedAggr and SCLundefined::STEPread disagree about ending a value at `;`")
    out["rawValueStaysInRecord"] = bool(semi)
    # ReadComment: bounded by MAX_COMMENT_LENGTH (a longer comment is abandoned with SkipInstance) or read in chunks of that
    # length while the stream is good (the model's readComment has no bound: it is the code's only in the second shape)
    rc = _strip(_body(rf0, r"const\s+char\s*\*\s*ReadComment\(\s*istream\s*&\s*in", "ReadComment"))
    if not re.search(r"while\(\s*commentLength\s*<=\s*MAX_COMMENT_LENGTH\s*\)", rc):
        raise ValueError("ReadComment: loop header changed")
    chunk = re.search(r"if\(\s*commentLength\s*>\s*MAX_COMMENT_LENGTH\s*&&\s*in\.good\(\)\s*\)\s*\{\s*commentLength\s*=\s*0\s*;\s*\}\s*\}\s*cout", rc)
    if not chunk and len(re.findall(r"\bcommentLength\b", rc)) != 4:
        raise ValueError("ReadComment: unknown use of commentLength")
    out["commentsOfAnyLength"] = bool(chunk)
    # SkipSimpleRecord: the loop `skipRecLoop` of the model transliterates (own character loop; the shared descriptor ends it)
    ssr = _strip(_body(rf0, r"const\s+char\s*\*\s*SkipSimpleRecord\(\s*istream\s*&\s*in", "SkipSimpleRecord"))
    if not re.search(r"in\s*>>\s*ws\s*;\s*in\.get\(\s*c\s*\)\s*;\s*if\(\s*c\s*==\s*'\('\s*\)\s*\{\s*buf\s*\+=\s*c\s*;\s*"
                     r"while\(\s*in\.get\(\s*c\s*\)\s*&&\s*\(\s*c\s*!=\s*'\)'\s*\)\s*&&\s*\(\s*err->severity\(\)\s*>\s*SEVERITY_INPUT_ERROR\s*\)\s*\)\s*\{\s*"
                     r"if\(\s*c\s*==\s*'\\''\s*\)\s*\{\s*in\.putback\(\s*c\s*\)\s*;\s*s\.clear\(\)\s*;\s*PushPastString\(\s*in\s*,\s*s\s*,\s*err\s*\)\s*;[^{}]*\}\s*"
                     r"else\s+if\(\s*c\s*==\s*'\('\s*\)\s*\{\s*in\.putback\(\s*c\s*\)\s*;\s*s\.clear\(\)\s*;\s*PushPastImbedAggr\(\s*in\s*,\s*s\s*,\s*err\s*\)\s*;[^{}]*\}\s*"
                     r"else\s*\{\s*buf\s*\+=\s*c\s*;\s*\}\s*\}\s*if\(\s*!in\.good\(\)\s*\)\s*\{\s*err->GreaterSeverity\(\s*SEVERITY_INPUT_ERROR\s*\)\s*;", ssr):
        raise ValueError("SkipSimpleRecord: no longer the loop the model's skipRecLoop transliterates")
    # the look-ahead for missing trailing values after an early `)`: one `i++` per round (every remaining attribute) or two
    lm = re.search(r"else\s+if\(\s*c\s*==\s*'\)'\s*\)\s*\{\s*while\(\s*i\s*<\s*n\s*-\s*1\s*\)\s*\{(.*?)\}\s*return\s+_error\.severity\(\)\s*;\s*\}", rb, re.S)
    if not lm:
        raise ValueError("SDAI_Application_instance::STEPread: look-ahead for missing trailing values not found")
    la = lm.group(1)
    one = re.fullmatch(r"\s*i\+\+\s*;\s*if\(\s*!\(\s*attributes\[i\]\.aDesc->AttrType\(\)\s*==\s*AttrType_Redefining\s*\)\s*\)\s*\{[^{}]*"
                       r"_error\.GreaterSeverity\(\s*SEVERITY_WARNING\s*\)\s*;\s*return\s+_error\.severity\(\)\s*;\s*\}\s*(i\+\+\s*;\s*)?", la, re.S)
    if not one:
        raise ValueError("SDAI_Application_instance::STEPread: the look-ahead loop has an unknown shape")
    out["missingCheckEverySecond"] = one.group(1) is not None
    # constants of the instance reader the model transliterates
    for pat, what in [(r"if\(\s*severe\s*<=\s*SEVERITY_USERMSG\s*\)", "attribute merge threshold"),
                      (r"CheckRemainingInput\(\s*in,\s*&_error,\s*\"ENTITY\",\s*\",\)\"\s*\)", "delimiter resynchronisation"),
                      (r"if\(\s*_error\.severity\(\)\s*<=\s*SEVERITY_INPUT_ERROR\s*\)", "give-up threshold"),
                      (r"_error\.GreaterSeverity\(\s*SEVERITY_WARNING\s*\)\s*;\s*return\s+_error\.severity\(\)", "missing attribute values")]:
        if not re.search(pat, rb):
            raise ValueError(f"SDAI_Application_instance::STEPread: {what} changed")
    eb = _strip(_body(ai, r"void\s+SDAI_Application_instance::STEPread_error\(", "STEPread_error"))
    if not re.search(r"Error\(\)\.GreaterSeverity\(\s*SEVERITY_WARNING\s*\)", eb) or not re.search(r"Error\(\)\.GreaterSeverity\(\s*SEVERITY_INPUT_ERROR\s*\)", eb):
        raise ValueError("STEPread_error: severities changed")

    # ---- complex instances
    cb = _strip(_body(cx, r"Severity\s+STEPcomplex::STEPread\(\s*int\s+id", "STEPcomplex::STEPread"))
    m = re.search(r"stepc->SDAI_Application_instance::STEPread\(([^;]*)\)\s*;", cb)
    if not m:
        raise ValueError("STEPcomplex::STEPread: part read changed")
    args = [a.strip() for a in m.group(1).split(",")]
    if args[:5] != ["id", "addFileId", "instance_set", "in", "currSch"]:
        raise ValueError(f"STEPcomplex::STEPread: part read arguments changed: {args}")
    if len(args) == 5:
        out["complexPartStrict"] = "(some true)"      # default argument of SDAI_Application_instance::STEPread
        hd = rd("include/clstepcore/sdaiApplication_instance.h")
        if not re.search(r"bool\s+useTechCor\s*=\s*true\s*,\s*bool\s+strict\s*=\s*true", hd):
            raise ValueError("SDAI_Application_instance::STEPread: default arguments changed")
    elif args[5:] == ["useTechCor", "strict"]:
        out["complexPartStrict"] = "none"
    else:
        raise ValueError(f"STEPcomplex::STEPread: part read arguments changed: {args}")
    merged_at_end = bool(re.search(r"_error\.AppendFromErrorArg\(\s*&\s*partErrors\s*\)\s*;\s*return\s+_error\.severity\(\)\s*;", cb))
    out["complexMergesParts"] = bool(re.search(r"AppendFromErrorArg\(\s*&\s*\(?\s*stepc->Error\(\)", cb)) and merged_at_end
    if ("stepc->Error()" in cb) != out["complexMergesParts"]:
        raise ValueError("STEPcomplex::STEPread: unknown use of the parts' error descriptors")
    # (second shape) only what the ATTRIBUTES of a part other than `this` report is merged, derived attributes excepted
    attr_shape = (r"stepc->SDAI_Application_instance::STEPread\([^;]*\)\s*;\s*if\(\s*stepc\s*!=\s*this\s*\)\s*\{\s*"
                  r"int\s+n\s*=\s*stepc->attributes\.list_length\(\)\s*;\s*"
                  r"for\(\s*int\s+i\s*=\s*0\s*;\s*i\s*<\s*n\s*;\s*i\+\+\s*\)\s*\{\s*"
                  r"STEPattribute\s*&\s*a\s*=\s*stepc->attributes\[\s*i\s*\]\s*;\s*"
                  r"if\(\s*!a\.IsDerived\(\)\s*&&\s*\(\s*a\.Error\(\)\.severity\(\)\s*<=\s*SEVERITY_USERMSG\s*\)\s*\)\s*\{\s*"
                  r"partErrors\.AppendFromErrorArg\(\s*&\s*\(\s*a\.Error\(\)\s*\)\s*\)\s*;\s*\}\s*\}\s*\}")
    out["complexMergesAttrErrors"] = bool(re.search(attr_shape, cb)) and merged_at_end
    if ("partErrors" in cb) != (out["complexMergesParts"] or out["complexMergesAttrErrors"]):
        raise ValueError("STEPcomplex::STEPread: unknown use of partErrors")
    if out["complexMergesParts"] and out["complexMergesAttrErrors"]:
        raise ValueError("STEPcomplex::STEPread: both merge shapes at once")
    rib = _strip(_body(sf, r"SDAI_Application_instance\s*\*\s*STEPfile::ReadInstance\(", "STEPfile::ReadInstance"))
    n_append = len(re.findall(r"AppendEntityErrorMsg\(\s*&\(\s*obj->Error\(\)\s*\)\s*\)", rib))
    if n_append not in (1, 2):
        raise ValueError(f"ReadInstance: {n_append} calls of AppendEntityErrorMsg")
    out["complexReportsError"] = n_append == 2
    # the terminating `;` (two sites: subtype/supertype record and simple record)
    old_shape = r"if\(\s*c\s*!=\s*'E'\s*\)\s*\{\s*in\s*>>\s*c\s*;\s*\}"
    new_shape = (r"if\(\s*c\s*==\s*';'\s*\)\s*\{\s*in\s*>>\s*c\s*;\s*\}\s*else\s+if\(\s*c\s*!=\s*'E'\s*\)\s*\{[^{}]*"
                 r"obj->Error\(\)\.GreaterSeverity\(\s*SEVERITY_WARNING\s*\)\s*;\s*sev\s*=\s*obj->Error\(\)\.severity\(\)\s*;\s*\}")
    # (third shape) a record that was not read cleanly is re-synchronised from its start before the `;` test
    resync = (r"if\(\s*sev\s*<=\s*SEVERITY_WARNING\s*&&\s*recStart\s*!=\s*std::streampos\(\s*-1\s*\)\s*\)\s*\{\s*in\.clear\(\)\s*;\s*"
              r"in\.seekg\(\s*recStart\s*\)\s*;\s*SkipInstance\(\s*in\s*,\s*tmpbuf\s*\)\s*;\s*\}\s*else\s+")
    n_peek = len(re.findall(r"c\s*=\s*in\.peek\(\)\s*;\s*if\(\s*(?:c\s*(?:!=\s*'E'|==\s*';')|sev\s*<=)", rib))
    n_old = len(re.findall(r"c\s*=\s*in\.peek\(\)\s*;\s*" + old_shape, rib))
    n_new = len(re.findall(r"c\s*=\s*in\.peek\(\)\s*;\s*" + new_shape, rib))
    n_rs = len(re.findall(r"c\s*=\s*in\.peek\(\)\s*;\s*" + resync + new_shape, rib))
    if n_peek != 2 or (n_old, n_new, n_rs) not in ((2, 0, 0), (0, 2, 0), (0, 0, 2)):
        raise ValueError(f"ReadInstance: handling of the terminating ';' changed ({n_peek} sites, {n_old} old, {n_new} new, {n_rs} resync)")
    out["missingSemicolonReported"] = n_new == 2 or n_rs == 2
    out["errorResyncsFromStart"] = n_rs == 2
    n_tell = len(re.findall(r"std::streampos\s+recStart\s*=\s*in\.tellg\(\)\s*;", rib))
    n_use = len(re.findall(r"\brecStart\b", rib))
    if (n_tell, n_use) != ((1, 5) if n_rs == 2 else (0, 0)):
        raise ValueError(f"ReadInstance: record start bookkeeping changed ({n_tell} tellg, {n_use} uses)")
    if n_rs == 2 and not re.search(r"ReadTokenSeparator\(\s*in\s*,\s*&cmtStr\s*\)\s*;\s*std::streampos\s+recStart\s*=\s*in\.tellg\(\)\s*;\s*c\s*=\s*in\.peek\(\)", rib):
        raise ValueError("ReadInstance: the record start is not taken right after the token separator that follows `=`")
    # state switch of ReadInstance
    if not re.search(r"case\s+SEVERITY_NULL:\s*case\s+SEVERITY_USERMSG:\s*if\(\s*_fileType\s*!=\s*WORKING_SESSION\s*\)\s*\{\s*node->ChangeState\(\s*completeSE\s*\)", rib):
        raise ValueError("ReadInstance: completeSE rule changed")
    if not re.search(r"case\s+SEVERITY_WARNING:\s*case\s+SEVERITY_INPUT_ERROR:\s*case\s+SEVERITY_BUG:\s*case\s+SEVERITY_INCOMPLETE:", rib):
        raise ValueError("ReadInstance: incompleteSE rule changed")
    r2 = _strip(_body(sf, r"int\s+STEPfile::ReadData2\(", "STEPfile::ReadData2"))
    for pat, what in [(r"severity\(\)\s*<\s*SEVERITY_INCOMPLETE\s*\)\s*\{\s*\+\+_entsInvalid", "invalid rule"),
                      (r"severity\(\)\s*==\s*SEVERITY_INCOMPLETE\s*\)\s*\{\s*\+\+_entsIncomplete;\s*\+\+_entsInvalid", "incomplete rule"),
                      (r"severity\(\)\s*==\s*SEVERITY_USERMSG\s*\)\s*\{\s*\+\+_entsWarning", "warning rule"),
                      (r"if\(\s*_entsInvalid\s*\)\s*\{.*?_error\.GreaterSeverity\(\s*SEVERITY_WARNING\s*\)", "summary severity")]:
        if not re.search(pat, r2, re.S):
            raise ValueError(f"ReadData2: {what} changed")
    r1 = _strip(_body(sf, r"int\s+STEPfile::ReadData1\(", "STEPfile::ReadData1"))
    if not re.search(r"if\(\s*_entsNotCreated\s*\)\s*\{.*?_error\.GreaterSeverity\(\s*SEVERITY_WARNING\s*\)", r1, re.S):
        raise ValueError("ReadData1: not-created severity changed")
    af = _strip(_body(sf, r"Severity\s+STEPfile::AppendFile\(", "STEPfile::AppendFile"))
    if not re.search(r"if\(\s*total_insts\s*!=\s*valid_insts\s*\)\s*\{.*?return\s+_error\.GreaterSeverity\(\s*SEVERITY_WARNING\s*\)", af, re.S):
        raise ValueError("AppendFile: total/valid rule changed")
    ae_ = _strip(_body(sf, r"Severity\s+STEPfile::AppendEntityErrorMsg\(", "AppendEntityErrorMsg"))
    if not re.search(r"if\(\s*sev\s*<\s*SEVERITY_WARNING\s*\)\s*\{\s*sev\s*=\s*SEVERITY_WARNING;\s*\}\s*_error\.GreaterSeverity\(\s*sev\s*\)", ae_):
        raise ValueError("AppendEntityErrorMsg: floor changed")
    # p21read exit rule
    if len(re.findall(r"severity\(\)\s*<=\s*SEVERITY_INCOMPLETE", pr)) < 2 or not re.search(r"readSev\s*<=\s*SEVERITY_INCOMPLETE", pr):
        raise ValueError("p21read: exit rule changed")
    # ---- literal level switches (owned by C09's extractor p21lex; re-derived here with coarser patterns so that
    #      this table does not depend on another extractor's exact shapes)
    rf = rd("src/clstepcore/read_func.cc")
    en = rd("src/cldai/sdaiEnum.cc")
    bi = rd("src/cldai/sdaiBinary.cc")
    sa = rd("src/clstepcore/STEPattribute.cc")
    ri = _strip(_body(rf, r"int\s+ReadInteger\(\s*SDAI_Integer\s*&\s*val,\s*istream\s*&\s*in,[^)]*\)\s*\{", "ReadInteger"))
    rr_ = _strip(_body(rf, r"int\s+ReadReal\(\s*SDAI_Real\s*&\s*val,\s*istream\s*&\s*in,[^)]*\)\s*\{", "ReadReal"))
    rn = _strip(_body(rf, r"int\s+ReadNumber\(\s*SDAI_Real\s*&\s*val,\s*istream\s*&\s*in,[^)]*\)\s*\{", "ReadNumber"))
    rep = lambda body: bool(re.search(r"err->GreaterSeverity\(\s*SEVERITY_WARNING\s*\)", body))
    out["intReportsFail"], out["realReportsFail"], out["numberReportsFail"] = rep(ri), rep(rr_), rep(rn)
    for body, what in [(ri, "ReadInteger"), (rr_, "ReadReal"), (rn, "ReadNumber")]:
        if not re.search(r"CheckRemainingInput\(\s*in,\s*err,", body):
            raise ValueError(f"{what}: no CheckRemainingInput")
    # ReadReal: a failed conversion is reported unless the input was blank / only when characters were collected
    if re.search(r"if\(\s*!\s*blank\s*\)\s*\{[^{}]*err->GreaterSeverity\(\s*SEVERITY_WARNING\s*\)", rr_) and \
            re.search(r"bool\s+blank\s*=\s*in\.eof\(\)\s*;", rr_):
        out["realFailUnlessBlank"] = True
    elif "blank" not in rr_:
        out["realFailUnlessBlank"] = False
    else:
        raise ValueError("ReadReal: unknown use of `blank`")
    # the in-band null sentinels: a successfully extracted value that IS the sentinel is reported, not stored (fixes/C09-9)
    for key, body_, var, fail, sent in (("intNullReported", ri, "i", "in", "S_INT_NULL"), ("realNullReported", rr_, "d", "in2", "S_REAL_NULL"),
                                        ("numberNullReported", rn, "d", "in", "S_NUMBER_NULL")):
        shape = (r"if\(\s*!" + fail + r"\.fail\(\)\s*&&\s*" + var + r"\s*==\s*" + sent + r"\s*\)\s*\{[^{}]*err->GreaterSeverity\(\s*SEVERITY_WARNING\s*\)\s*;"
                 r"[^{}]*\}\s*else\s+if\(\s*!" + fail + r"\.fail\(\)\s*\)\s*\{\s*valAssigned\s*=\s*1\s*;")
        if re.search(shape, body_):
            out[key] = True
        elif not re.search(var + r"\s*==\s*" + sent, body_):
            out[key] = False
        else:
            raise ValueError(f"{key}: unknown use of {sent}")
    # ReadEntityRef: something that is neither a reference nor a delimiter is reported by the reader itself
    rer = _strip(_body(ai, r"SDAI_Application_instance\s*\*\s*ReadEntityRef\(\s*istream\s*&\s*in", "ReadEntityRef"))
    if re.search(r"bool\s+gotChar\s*=\s*!in\.fail\(\)\s*;\s*in\.putback\(\s*c\s*\)\s*;\s*if\(\s*gotChar\s*&&[^{}]*\)\s*\{[^{}]*err->GreaterSeverity\(\s*SEVERITY_WARNING\s*\)", rer):
        out["refReportsNonRef"] = True
    elif "gotChar" not in rer:
        out["refReportsNonRef"] = False
    else:
        raise ValueError("ReadEntityRef: unknown use of `gotChar`")
    m = re.search(r"char\s+buf\s*\[\s*(\d+)\s*\]\s*;", rr_)
    if m:
        out["realBuf"] = int(m.group(1))
    elif re.search(r"std::string\s+buf\s*;", rr_):
        out["realBuf"] = 0               # collected in a std::string: no fixed capacity (LexCfg: 0 = no overflow)
    else:
        raise ValueError("ReadReal: lexeme buffer declaration not found")
    lg = _strip(_body(en, r"Severity\s+SDAI_LOGICAL::ReadEnum\(", "SDAI_LOGICAL::ReadEnum"))
    out["logicalRejectsUnset"] = bool(re.search(r"LUnset\s*==\s*i", lg))
    rb_ = _strip(_body(bi, r"Severity\s+SDAI_Binary::ReadBinary\(", "SDAI_Binary::ReadBinary"))
    out["binaryRejectsEmpty"] = bool(re.search(r"str\.length\(\)\s*==\s*0", rb_))
    sr = _strip(_body(sa, r"Severity\s+STEPattribute::STEPread\(\s*istream", "STEPattribute::STEPread"))
    m = re.search(r"if\(\s*Nullable\(\)\s*\)\s*\{(.*?)\}\s*else\s+if\(\s*!strict\s*(&&\s*c\s*==\s*'\$'\s*)?\)", sr, re.S)
    if not m:
        raise ValueError("STEPattribute::STEPread: `$` branch changed")
    out["dollarKeepsError"] = not re.search(r"_error\.severity\(\s*SEVERITY_NULL\s*\)", m.group(1))
    # lenient mode replaces only an explicit `$` (a parameter that is not there at all stays an error)
    out["fillerOnlyForDollar"] = m.group(2) is not None
    # the filler's USERMSG: set outright (what CheckRemainingInput found behind the `$` is lost), or the found severity is
    # saved before and merged back after
    plain = r"_error\.severity\(\s*SEVERITY_USERMSG\s*\)\s*;"
    n_user = len(re.findall(plain, sr))
    keep = re.search(r"Severity\s+afterNull\s*=\s*_error\.severity\(\)\s*;\s*" + plain +
                     r"(?:\s*_error\.AppendToDetailMsg\([^;]*\)\s*;)*\s*_error\.GreaterSeverity\(\s*afterNull\s*\)\s*;\s*\}\s*else\s*\{", sr)
    if n_user != 1 or (("afterNull" in sr) != bool(keep)):
        raise ValueError("STEPattribute::STEPread: severity of the lenient-mode filler changed")
    out["fillerKeepsError"] = bool(keep)
    return out


def _cx_shape_of_attrnull(repo):
    """C15's derivation of the complex-part plumbing (tools/extract.d/attrnull.py: merge mode; stepfile.py: ReadInstance
    reports a complex instance's error) - the two facts `AttrNull.codeShape` is built from"""
    import importlib.util
    txt = ""
    for nm in ("attrnull", "stepfile"):
        spec = importlib.util.spec_from_file_location("extract_" + nm + "_for_p21rw", os.path.join(os.path.dirname(__file__), nm + ".py"))
        m = importlib.util.module_from_spec(spec)
        spec.loader.exec_module(m)
        txt += "\n".join(m.extract(repo).values()) + "\n"
    mm = re.search(r'def complexMerge : String := "(\w+)"', txt)
    rr = re.search(r"def readInstComplexReportsError : Bool := (true|false)", txt)
    if not mm or not rr:
        raise ValueError("attrnull.py / stepfile.py no longer generate complexMerge / readInstComplexReportsError")
    return mm.group(1), rr.group(1) == "true"


def extract(repo):
    f = flags(repo)
    mode, reports = _cx_shape_of_attrnull(repo)
    mine = "all" if f["complexMergesParts"] else "nonDerivedAttrs" if f["complexMergesAttrErrors"] else "none"
    if (mode, reports) != (mine, f["complexReportsError"]):
        raise ValueError(f"complex-part plumbing: attrnull.py derives {(mode, reports)}, p21rw.py {(mine, f['complexReportsError'])}")
    lean = f"""-- GENERATED by tools/extract.d/p21rw.py from sdaiString.cc, STEPaggr*.cc, Str.cc, sdaiApplication_instance.cc, STEPcomplex.cc, STEPfile.cc, p21read.cc
import StepModel.P21.Reader
namespace StepModel.Generated

/-- behaviour switches of the reader/writer above the literal level, as the source has them now -/
def rwCfg : StepModel.P21.RWCfg :=
  {{ stringNodeAppends := {_b(f['stringNodeAppends'])},
    aggrSkipsComments := {_b(f['aggrSkipsComments'])},
    -- the complex-part plumbing is C15's regenerated table (`AttrNull.codeShape`, tools/extract.d/attrnull.py); this
    -- extractor derives the same facts from the source on its own and refuses to generate when the two disagree
    complexMergesParts := decide (StepModel.AttrNull.codeShape.merge = .all),
    complexMergesAttrErrors := decide (StepModel.AttrNull.codeShape.merge = .nonDerivedAttrs),
    complexPartStrict := {f['complexPartStrict']}, recoveryKeepsSemicolon := {_b(f['recoveryKeepsSemicolon'])},
    complexReportsError := StepModel.AttrNull.codeShape.reports,
    skipInstanceSkipsComments := {_b(f['skipInstanceSkipsComments'])},
    missingSemicolonReported := {_b(f['missingSemicolonReported'])},
    commentsOfAnyLength := {_b(f['commentsOfAnyLength'])},
    recoveryStopsAtSemicolon := {_b(f['recoveryStopsAtSemicolon'])},
    recoveryCountsQuotes := {_b(f['recoveryCountsQuotes'])},
    rawValueStaysInRecord := {_b(f['rawValueStaysInRecord'])},
    missingCheckEverySecond := {_b(f['missingCheckEverySecond'])},
    fillerOnlyForDollar := {_b(f['fillerOnlyForDollar'])},
    fillerKeepsError := {_b(f['fillerKeepsError'])},
    errorResyncsFromStart := {_b(f['errorResyncsFromStart'])},
    numberElemReadsNumber := {_b(f['numberElemReadsNumber'])},
    aggrReportsMissingElement := {_b(f['aggrReportsMissingElement'])} }}

/-- the literal-level switches, re-derived by this extractor (C09's `Generated.lexCfg` is the primary tie for them) -/
def rwLexCfg : StepModel.P21.LexCfg :=
  {{ intReportsFail := {_b(f['intReportsFail'])}, realReportsFail := {_b(f['realReportsFail'])},
    numberReportsFail := {_b(f['numberReportsFail'])}, logicalRejectsUnset := {_b(f['logicalRejectsUnset'])},
    binaryRejectsEmpty := {_b(f['binaryRejectsEmpty'])}, dollarKeepsError := {_b(f['dollarKeepsError'])},
    asStrUsesWriteReal := false, criSkipsComments := {_b(f['criSkipsComments'])}, realBuf := {f['realBuf']},
    realPrecision := 15, nulIsDelim := {_b(f['nulIsDelim'])}, realFailUnlessBlank := {_b(f['realFailUnlessBlank'])},
    refReportsNonRef := {_b(f['refReportsNonRef'])},
    intNullReported := {_b(f['intNullReported'])}, realNullReported := {_b(f['realNullReported'])},
    numberNullReported := {_b(f['numberNullReported'])},
    criStopsAtSemicolon := {_b(f['criStopsAtSemicolon'])} }}

end StepModel.Generated
"""
    pcdlean = f"""-- GENERATED by tools/extract.d/p21rw.py from src/clstepcore/read_func.cc (ReadPcd)
namespace StepModel.Generated

/-- `ReadPcd` reads one more character after the closing backslash of a print control directive (and loses it) -/
def pcdEatsNextChar : Bool := {_b(f['pcdEatsNextChar'])}

end StepModel.Generated
"""
    return {"P21RWGen.lean": lean, "P21PcdGen.lean": pcdlean}

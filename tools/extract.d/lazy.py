"""src/cllazyfile scanner/loader constants -> Generated/LazyGen.lean

Regenerated on every run so that the C10/C11 theorems are re-checked against what the source says now:
  keywordDelims     delimiter string nextInstance() passes to getDelimitedKeyword
  seekCases         the case labels of the switch in seekInstanceEnd (the model's branches must be exactly these)
  instanceIdDigits  numeric_limits<instanceID>::digits10 + 1, instanceIdMax (instanceID is uint64_t)
  cacheBeforeRead   is the instance entered in _instancesLoaded before STEPread runs (getRealInstance) ?
  commentSkip       comments are skipped with findNormalString("*/")
  refsSkipMissingAttr, refsPerAttrCandidates, refsAggrByInverse, refsDeferred   shape of lazyRefs.h / loadInstance (C11)
An extraction pattern that no longer matches raises: that is a broken tie.
"""
import os, re


def _body(text, header_re):
    """text of the brace-balanced block following the first match of header_re"""
    m = re.search(header_re, text)
    if not m:
        raise ValueError(f"pattern not found: {header_re}")
    i = text.index("{", m.end() - 1)
    depth, j = 0, i
    while j < len(text):
        if text[j] == "{":
            depth += 1
        elif text[j] == "}":
            depth -= 1
            if depth == 0:
                return text[i:j + 1]
        j += 1
    raise ValueError(f"unbalanced block after {header_re}")


def _strip_comments(t):
    t = re.sub(r"//[^\n]*", "", t)          # line comments first: they may mention `/*`
    return re.sub(r"/\*.*?\*/", "", t, flags=re.S)


def _c_string(lit):
    out, i = [], 0
    while i < len(lit):
        c = lit[i]
        if c == "\\":
            i += 1
            e = lit[i]
            out.append({"n": "\n", "t": "\t", "r": "\r", "\\": "\\", "'": "'", '"': '"', "0": "\0"}[e])
        else:
            out.append(c)
        i += 1
    return out


def _lean_char(c):
    o = ord(c)
    if c == "\\":
        return "'\\\\'"
    if c == "'":
        return "'\\''"
    if 32 <= o < 127:
        return f"'{c}'"
    return f"(Char.ofNat {o})"


def extract(repo):
    rd = lambda p: open(os.path.join(repo, p)).read()
    sr = rd("src/cllazyfile/sectionReader.cc")
    p21 = rd("src/cllazyfile/lazyP21DataSectionReader.cc")
    mgr_cc = rd("src/cllazyfile/lazyInstMgr.cc")
    mgr_h = rd("include/cllazyfile/lazyInstMgr.h")
    types = rd("include/cllazyfile/lazyTypes.h")
    refs_h = rd("src/cllazyfile/lazyRefs.h")

    # --- nextInstance: delimiter string
    ni = _strip_comments(_body(p21, r"lazyP21DataSectionReader::nextInstance\s*\(\s*\)\s*\{"))
    m = re.search(r'getDelimitedKeyword\(\s*"((?:[^"\\]|\\.)*)"\s*\)', ni)
    if not m:
        raise ValueError("nextInstance: getDelimitedKeyword(\"...\") not found")
    delims = _c_string(m.group(1))
    for need in ["readInstanceNumber()", "seekInstanceEnd("]:
        if need not in ni:
            raise ValueError(f"nextInstance no longer calls {need}")

    # --- seekInstanceEnd: case labels
    se = _strip_comments(_body(sr, r"sectionReader::seekInstanceEnd\s*\([^)]*\)\s*\{"))
    cases = re.findall(r"case\s+'((?:[^'\\]|\\.)+)'\s*:", se)
    cases = [_c_string(c)[0] for c in cases]
    src_nc = _strip_comments(sr)
    n_old = len(re.findall(r'findNormalString\(\s*"\*/"\s*\)', src_nc))
    n_raw = len(re.findall(r'\bskipComment\(\s*\)\s*;', src_nc)) - 0
    if n_old > 0 and n_raw == 0:
        comments_raw = False
    elif n_old == 0 and n_raw >= 4:
        sc = _body(src_nc, r"void\s+sectionReader::skipComment\s*\(\s*\)\s*\{")
        if not re.search(r"prev\s*==\s*'\*'\s*\)\s*&&\s*\(\s*c\s*==\s*'/'", sc) or "GetLiteralStr" in sc or "findNormalString" in sc:
            raise ValueError("skipComment: raw scan for */ not recognised")
        comments_raw = True
    else:
        raise ValueError(f"comments are skipped in two different ways ({n_old} x findNormalString, {n_raw} x skipComment)")
    CS = "skipComment()" if comments_raw else 'findNormalString( "*/" )'
    if CS not in se:
        raise ValueError("seekInstanceEnd no longer skips comments")
    if not re.search(r"isdigit\(\s*_file\.peek\(\)\s*\)", se):
        raise ValueError("seekInstanceEnd: `#` followed by a digit test not found")

    # --- layout repairs: any white space ends a keyword; comments between tokens
    gdk = _strip_comments(_body(sr, r"sectionReader::getDelimitedKeyword\s*\([^)]*\)\s*\{"))
    if "strchr( delimiters, c )" not in gdk and "strchr(delimiters, c)" not in gdk:
        raise ValueError("getDelimitedKeyword: delimiter test not found")
    # the keyword is accumulated in an unbounded std::string (a fixed buffer would silently cut long entity names)
    if re.search(r"static\s+std::string\s+str\s*;", gdk) and re.search(r"str\.append\(\s*1\s*,\s*c\s*\)", gdk) and \
            not re.search(r"str\.(length|size)\(\)\s*<", gdk):
        kw_unbounded = True
    elif re.search(r"char\s+str\s*\[", gdk):
        kw_unbounded = False
    else:
        raise ValueError("getDelimitedKeyword: how the keyword is accumulated not recognised")
    kw_space = bool(re.search(r"strchr\(\s*delimiters,\s*c\s*\)\s*&&\s*!isspace\(\s*c\s*\)", gdk))
    ctor = _strip_comments(_body(p21, r"lazyP21DataSectionReader::lazyP21DataSectionReader\s*\([^{]*\{"))
    rn0 = _strip_comments(_body(sr, r"sectionReader::readInstanceNumber\s*\(\s*\)\s*\{"))
    # zero padding of an instance name does not count towards the digit limit
    id_zero_pad = bool(re.search(r"digits\s*==\s*1\s*&&\s*buffer\[\s*0\s*\]\s*==\s*'0'", rn0))
    places = [bool(re.search(r"--parenDepth == 0 \) \{\s*skipWSandComments\(\)", se)),
              bool(re.search(r"buffer\[ digits \] = '\\0';\s*skipWSandComments\(\)", rn0)),
              bool(re.search(r"skipWSandComments\(\);\s*std::streampos pos", ctor))]
    if any(places) and not all(places):
        raise ValueError(f"comments between tokens are skipped in some places only: {places}")
    token_comments = all(places)
    if token_comments:
        swc = _strip_comments(_body(sr, r"sectionReader::skipWSandComments\s*\(\s*\)\s*\{"))
        if CS not in swc or "skipWS()" not in swc:
            raise ValueError("skipWSandComments: shape not recognised")

    # --- what may stand before `#`: white space and ONE comment (old) or any number of comments (skipWSandComments)
    head = rn0[:rn0.find("'#'")]
    if re.search(r"skipWSandComments\(\);\s*c = _file\.get\(\);\s*if\(\s*c != $", head.strip() + " ") or \
            (re.search(r"skipWSandComments\(\)", head) and CS not in head):
        lead_gap = True
    elif CS in head and head.count("skipWS()") >= 2:
        lead_gap = False
    else:
        raise ValueError("readInstanceNumber: what is skipped before '#' not recognised")

    # --- instanceID
    m = re.search(r"typedef\s+(\w+)\s+instanceID\s*;", types)
    if not m:
        raise ValueError("typedef instanceID not found")
    bits = {"uint64_t": 64, "uint32_t": 32}.get(m.group(1))
    if bits is None:
        raise ValueError(f"instanceID is {m.group(1)}: unknown width")
    idmax = 2 ** bits - 1
    digits10 = len(str(idmax)) - 1
    rn = _strip_comments(_body(sr, r"sectionReader::readInstanceNumber\s*\(\s*\)\s*\{"))
    if not re.search(r"digits10\s*\+\s*1", rn):
        raise ValueError("readInstanceNumber: instanceIDLength = digits10 + 1 not found")

    # --- where does the instance enter _instancesLoaded ?
    inserters = set()
    for txt in (mgr_h, mgr_cc):
        t = _strip_comments(txt)
        for mm in re.finditer(r"(\w+)\s*\(([^()]*)\)\s*(?:const\s*)?\{", t):
            name = mm.group(1)
            if name in ("if", "for", "while", "switch", "loadInstance"):
                continue
            try:
                b = _body(t[mm.start():], r"\w+\s*\([^()]*\)\s*(?:const\s*)?\{")
            except ValueError:
                continue
            if "_instancesLoaded.insert" in b:
                inserters.add(name)
    gri = _strip_comments(_body(sr, r"sectionReader::getRealInstance\s*\([^)]*\)\s*\{"))
    k = gri.find("STEPread(")
    if k < 0:
        raise ValueError("getRealInstance no longer calls STEPread")
    before = gri[:k]
    early = any(re.search(r"\b" + re.escape(n) + r"\s*\(", before) for n in inserters) or "_instancesLoaded" in before
    # how STEPread's input is positioned (model: stepReadInput / findOne): seekg( begin ); findNormalString( "(" ); one back
    if not re.search(r'_file\.seekg\(\s*begin\s*\);\s*findNormalString\(\s*"\("\s*\);\s*_file\.seekg\(\s*_file\.tellg\(\)\s*-\s*std::streampos\(\s*1\s*\)\s*\);',
                     before):
        raise ValueError("getRealInstance: seekg( begin ); findNormalString( \"(\" ); seekg( -1 ) before STEPread not recognised")
    # the recorded offset is where nextInstance starts, before the layout in front of `#` (C10_materialise_partial's `begin`)
    if not re.search(r"i\.loc\.begin\s*=\s*_file\.tellg\(\);\s*i\.loc\.instance\s*=\s*readInstanceNumber\(\);", ni):
        raise ValueError("nextInstance: begin = tellg() directly before readInstanceNumber() not recognised")
    fns = _strip_comments(_body(sr, r"sectionReader::findNormalString\s*\([^)]*\)\s*\{"))
    order = [fns.find(x) for x in ("skipWS();", "c = _file.get();", "c == '\\''", "GetLiteralStr(", "_file.peek() == '*'", "str[i] == c")]
    if -1 in order or order != sorted(order) or not re.search(r"c == '/' \) && \( _file\.peek\(\) == '\*' \) \) \{\s*skipComment\(\);", fns):
        if not (n_old and not n_raw):      # the old shape called itself for comments: modelled by findStar only
            raise ValueError("findNormalString: skipWS / get / string literal / comment / compare loop not recognised")
    li = _strip_comments(_body(mgr_cc, r"lazyInstMgr::loadInstance\s*\([^)]*\)\s*\{"))
    if "_instancesLoaded.find" not in li or "getRealInstance" not in li:
        raise ValueError("loadInstance: cache look-up / getRealInstance not found")
    if li.find("_instancesLoaded.find") > li.find("getRealInstance"):
        raise ValueError("loadInstance: cache is no longer consulted before getRealInstance")

    # --- lazyRefs (C11)
    rh = _strip_comments(refs_h)
    rtc = _body(rh, r"bool\s+refersToCurrentInst\s*\([^)]*\)\s*\{")
    k = rtc.find("attributes[")
    guard = re.search(r"if\s*\(\s*rindex\s*<\s*0\s*\)|if\s*\(\s*rindex\s*==\s*-1\s*\)|if\s*\(\s*-1\s*==\s*rindex\s*\)", rtc[:k] if k >= 0 else rtc)
    skip_missing = bool(guard)
    cai = _body(rh, r"void\s+checkAnInvAttr\s*\([^)]*\)\s*\{")
    mloop = re.search(r"referentInstances_t::iterator\s+insts\s*=\s*(\w+)\.begin\(\)", cai)
    if not mloop:
        raise ValueError("checkAnInvAttr: candidate loop not recognised")
    per_attr = mloop.group(1) != "_referentInstances"
    if not re.search(r"subtypesIterator\s+subtypeIter\(\s*ed\s*\)", cai) or not re.search(r"edL\.insert\(\s*\*subtypeIter\s*\)", cai) \
            or not re.search(r"edL\.insert\(\s*ed\s*\)", cai):
        raise ValueError("checkAnInvAttr: edL = inverted entity + subtypesIterator walk not recognised")
    liff = _body(rh, r"void\s+loadInstIFFreferent\s*\([^)]*\)\s*\{")
    if "inverted_attr_()->IsAggrType()" in liff:
        aggr_by_inverse = False
    elif re.search(r"ia->IsAggrType\(\)", liff):
        aggr_by_inverse = True
    else:
        raise ValueError("loadInstIFFreferent: aggregate test not recognised")
    ai = _body(rh, r"int\s+attrIndex\s*\([^)]*\)\s*\{")
    by_desc = "getADesc()" in ai and "Owner().Name()" not in ai
    deferred = not re.search(r"_instancesLoaded\.insert[^}]*lazyRefs\s+lr\s*\(", li, re.S)
    params = re.search(r"void\s+loadInstIFFreferent\s*\(([^)]*)\)", rh).group(1)
    fresh_aggr = not re.search(r"iAstruct\s+\w+", params)     # a by-value iAstruct parameter is a stale copy

    # --- superInvAttrIter: which supertype is scanned after moving on
    sia = _strip_comments(rd("src/clstepcore/superInvAttrIter.h"))
    nx = _body(sia, r"const\s+Inverse_attribute\s*\*\s*next\s*\(\s*\)\s*\{")
    if re.search(r"sit\.next\(\);\s*invIter->ResetItr\(\s*&\(\s*sit\.current\(\)->InverseAttr\(\)", nx):
        iter_adv = True
    elif re.search(r"ResetItr\(\s*&\(\s*sit\.next\(\)->InverseAttr\(\)", nx):
        iter_adv = False
    else:
        raise ValueError("superInvAttrIter::next: shape not recognised")
    ssi = _strip_comments(rd("include/clstepcore/SubSuperIterators.h"))
    nb = _body(ssi, r"const\s+EntityDescriptor\s*\*\s*next\s*\(\s*\)\s*\{")
    # addLinkedList queues EVERY entry of the list (the model's `levelsG`: l ++ … (l.flatMap next)); a loop that can end before the
    # end of the list (a condition beyond `a != 0`, a break/return in the body) or that skips entries is another walk
    all_ = _body(ssi, r"void\s+addLinkedList\s*\([^)]*\)\s*\{")
    mw = re.search(r"while\s*\(([^{]*)\)\s*\{", all_)
    if not mw or re.sub(r"\s+", "", mw.group(1)) != "a!=0" or re.search(r"\b(break|return|continue|if)\b", all_[mw.end():]):
        raise ValueError("recursiveEntDescripIterator::addLinkedList: `while( a != 0 )` over the whole list, every entry queued, not recognised")
    if not re.search(r"q\.pop_front\(\s*\);\s*addLinkedList\(\s*qp\s*\);\s*return\s+qp\.ed", nb):
        raise ValueError("recursiveEntDescripIterator::next: FIFO pop / push-children / return-popped shape not recognised")

    # --- EntityDescriptor::InitIAttrs: is every inverse attribute linked on its own, whatever happened to its siblings ?
    edc = _strip_comments(rd("src/clstepcore/entityDescriptor.cc"))
    iia = _body(edc, r"void\s+EntityDescriptor::InitIAttrs\s*\([^)]*\)\s*\{")
    loop = _body(iia, r"while\s*\(\s*0\s*!=\s*\(\s*ia\s*=\s*iai\.NextInverse_attribute\(\)\s*\)\s*\)\s*\{")
    if re.search(r"\binitIAttr\s*\(\s*ia\b", loop):
        helper = _body(edc, r"void\s+initIAttr\s*\([^)]*\)\s*\{")
        if "ExplicitAttr()" not in helper or "supertypesIterator" not in helper or helper.count("inverted_attr_(") < 2:
            raise ValueError("initIAttr: own-attributes-then-supertypes search not recognised")
        if re.search(r"\breturn\b|\bbreak\b", loop):
            raise ValueError("InitIAttrs: the loop over the inverse attributes can be left early")
        per_inverse = True
    else:
        if "supertypesIterator" not in loop or "inverted_attr_(" not in loop:
            raise ValueError("InitIAttrs: shape not recognised")
        # inlined search: a `return` inside the loop leaves the siblings declared later unlinked
        per_inverse = not re.search(r"\breturn\b", loop)

    # --- lazyFileReader: needKW consumes what it compares; initP21 tests END-ISO... first, DATA second
    lfr = _strip_comments(rd("src/cllazyfile/lazyFileReader.cc"))
    nk = _body(lfr, r"bool\s+lazyFileReader::needKW\s*\([^)]*\)\s*\{")
    if not re.search(r"\*c\s*!=\s*_file\.get\(\)", nk):
        raise ValueError("needKW: consuming comparison not recognised")
    ip = _body(lfr, r"void\s+lazyFileReader::initP21\s*\(\s*\)\s*\{")
    if not re.search(r'needKW\(\s*"END-ISO-10303-21;"\s*\).*needKW\(\s*"DATA"\s*\)', ip, re.S):
        raise ValueError("initP21: END-ISO / DATA tests not recognised")

    out = ["-- GENERATED by tools/extract.d/lazy.py from src/cllazyfile/*.cc, lazyRefs.h, include/cllazyfile/*.h",
           "namespace StepModel.Generated", "",
           "/-- delimiters `nextInstance` accepts after the entity keyword -/",
           "def keywordDelims : List Char := [" + ", ".join(_lean_char(c) for c in delims) + "]",
           "/-- case labels of the switch in `seekInstanceEnd` -/",
           "def seekCases : List Char := [" + ", ".join(_lean_char(c) for c in cases) + "]",
           f"def instanceIdMax : Nat := {idmax}",
           f"/-- `numeric_limits<instanceID>::digits10 + 1` -/\ndef instanceIdDigits : Nat := {digits10 + 1}",
           "/-- comments are skipped as raw text up to the first `*/` (else with the general search findNormalString) -/",
           f"def commentsRaw : Bool := {'true' if comments_raw else 'false'}",
           "/-- `getDelimitedKeyword` accumulates the keyword in an unbounded string: keywords of any length are read whole -/",
           f"def kwUnbounded : Bool := {'true' if kw_unbounded else 'false'}",
           "/-- `readInstanceNumber`: leading zeros of an instance name do not count towards the digit limit -/",
           f"def idZeroPad : Bool := {'true' if id_zero_pad else 'false'}",
           "/-- `getDelimitedKeyword`: any white space ends a keyword (else `abort()`) -/",
           f"def kwSpaceDelim : Bool := {'true' if kw_space else 'false'}",
           "/-- comments are skipped between `)` and `;`, between the id and `=`, before `ENDSEC` -/",
           f"def tokenComments : Bool := {'true' if token_comments else 'false'}",
           "/-- before `#`: any number of comments (else white space, at most one comment, white space) -/",
           f"def leadGap : Bool := {'true' if lead_gap else 'false'}",
           "/-- `getRealInstance` registers the instance in `_instancesLoaded` before `STEPread` -/",
           f"def cacheBeforeRead : Bool := {'true' if early else 'false'}",
           "/-- lazyRefs: a candidate whose entity has no such attribute is skipped instead of indexing `attributes[-1]` -/",
           f"def refsSkipMissingAttr : Bool := {'true' if skip_missing else 'false'}",
           "/-- lazyRefs: the candidate set is rebuilt for every inverse attribute (not shared) -/",
           f"def refsPerAttrCandidates : Bool := {'true' if per_attr else 'false'}",
           "/-- lazyRefs: aggregate storage is chosen by the inverse attribute's own type -/",
           f"def refsAggrByInverse : Bool := {'true' if aggr_by_inverse else 'false'}",
           "/-- lazyRefs: the inverted attribute is found by descriptor (works for inherited attributes), not by owner name -/",
           f"def refsAttrByDescriptor : Bool := {'true' if by_desc else 'false'}",
           "/-- lazyRefs: the aggregate already stored is re-read for every referrer (not a stale by-value copy) -/",
           f"def refsAggrAccumulates : Bool := {'true' if fresh_aggr else 'false'}",
           "/-- superInvAttrIter::next scans the supertype it arrives at (not the one supertypesIterator::next() leaves) -/",
           f"def superIterAdvances : Bool := {'true' if iter_adv else 'false'}",
           "/-- EntityDescriptor::InitIAttrs links every inverse attribute on its own (the loop is never left early) -/",
           f"def initIAttrsPerInverse : Bool := {'true' if per_inverse else 'false'}",
           "/-- loadInstance: inverse attributes are resolved only when no instance is half-read -/",
           f"def refsDeferred : Bool := {'true' if deferred else 'false'}",
           "", "end StepModel.Generated", ""]
    return {"LazyGen.lean": "\n".join(out)}

"""Where the file id increment (addFileId) is handed on, site by site -> Generated/ThreadingGen.lean   (C14)

A reference `#r` of an appended file becomes `#(r + incr)` only if EVERY call on the way from STEPfile::ReadInstance down to
ReadEntityRef hands the increment on.  Each site is one Bool: true = the caller's addFileId (idIncr) is passed, false =
something else (0, a default argument, nothing).  The Session model (`resolveVal`) multiplies the flags along the path of
each reference, so dropping the increment at one site breaks exactly the theorems about the shapes that use the site.

  instAttr        SDAI_Application_instance::STEPread -> attributes[i].STEPread( in, instance_set, idIncr, ... )
  attrRef         STEPattribute::STEPread, ENTITY_TYPE: ReadEntityRef( in, &_error, ",)", instances, addFileId )
  attrAggr        STEPattribute::STEPread, aggregates:  ptr.a->STEPread( in, &_error, elem, instances, addFileId, currSch )
  attrSelect      STEPattribute::STEPread, SELECT_TYPE: ptr.sh->STEPread( in, &_error, instances, 0, addFileId, currSch )
  redef           STEPattribute::STEPread, redeclared:  _redefAttr->STEPread( in, instances, addFileId, ... )
  aggrEntityElem  EntityAggregate::ReadValue -> item->STEPread( ..., insts, addFileId ) and EntityNode::STEPread -> ReadEntityRef( ..., addFileId )
  aggrSelectElem  SelectAggregate::ReadValue -> item->STEPread( ..., insts, addFileId, currSch ) and SelectNode::STEPread -> node->STEPread( in, err, insts, 0, addFileId, currSch )
  selectContent   SDAI_Select::STEPread -> every STEPread_content( in, instances, <utype>, addFileId, ... )
  selectRef       SDAI_Select::STEPread, entity member written as #n: ReadEntityRef( in, err, ",)", instances, addFileId )
  complexPart     STEPcomplex::STEPread -> stepc->SDAI_Application_instance::STEPread( id, addFileId, ... )
  refAdd          ReadEntityRef: `id += addFileId;` before the look-up
  genSelectRef    \
  genSelectNested  } the STEPread_content that exp2cxx EMITS for every select type (src/exp2cxx/selects.c, the format strings of
  genSelectAggr   /  the "Read part 21" block): entity member -> ReadEntityRef( ..., instances, addFileId ); member that is itself
                     a select -> _m.STEPread (in, &_error, instances, utype, addFileId, currSch); aggregate member ->
                     _m STEPread (in, &_error, <elem type>, instances, addFileId, currSch)
  aggrNested      STEPaggregate::ReadValue (the reader of GenericAggregate = aggregate of aggregates, src/exp2cxx/class_strings.c): the
                  elements are kept as text; true = `ShiftEntityRefs( text, addFileId )` is applied to it, false = `(void) addFileId;`
"""
import os, re


def _strip(s):
    s = re.sub(r"//[^\n]*", "", s)
    return re.sub(r"/\*.*?\*/", "", s, flags=re.S)


def _body(text, sig, start=0):
    i = text.find(sig, start)
    if i < 0:
        raise ValueError(f"{sig} not found")
    j = text.index("{", i)
    depth, k = 0, j
    while True:
        if text[k] == "{":
            depth += 1
        elif text[k] == "}":
            depth -= 1
            if depth == 0:
                break
        k += 1
    return text[j + 1:k]


def _scan(text, k, stop_at_close):
    """walk from k honouring string/char literals; returns (end index, top-level argument list)"""
    out, depth, cur = [], 0, ""
    while k < len(text):
        ch = text[k]
        if ch in "\"'":
            j = k + 1
            while text[j] != ch:
                j += 2 if text[j] == "\\" else 1
            cur += text[k:j + 1]
            k = j + 1
            continue
        if ch == "(":
            depth += 1
        elif ch == ")":
            if depth == 0 and stop_at_close:
                break
            depth -= 1
        if ch == "," and depth == 0:
            out.append(cur.strip()); cur = ""
        else:
            cur += ch
        k += 1
    if cur.strip():
        out.append(cur.strip())
    return k, out


def _calls(text, name):
    """argument lists of every call `name( ... )` in text"""
    out = []
    for m in re.finditer(re.escape(name) + r"\s*\(", text):
        _, args = _scan(text, m.end(), True)
        out.append(args)
    return out


def extract(repo):
    rd = lambda p: _strip(open(os.path.join(repo, p)).read())
    attr = rd("src/clstepcore/STEPattribute.cc")
    inst = rd("src/clstepcore/sdaiApplication_instance.cc")
    agge = rd("src/clstepcore/STEPaggrEntity.cc")
    aggs = rd("src/clstepcore/STEPaggrSelect.cc")
    sel = rd("src/clstepcore/sdaiSelect.cc")
    cx = rd("src/clstepcore/STEPcomplex.cc")
    f = {}
    ar = _body(attr, "Severity STEPattribute::STEPread( istream & in, InstMgrBase * instances, int addFileId,")
    ib = _body(inst, "Severity SDAI_Application_instance::STEPread( int id,  int idIncr,")
    c = _calls(ib, "attributes[i].STEPread")
    if len(c) != 1:
        raise ValueError("instance -> attribute call not found")
    f["instAttr"] = len(c[0]) >= 3 and c[0][2] == "idIncr"
    c = _calls(ar, "ReadEntityRef")
    if len(c) != 1:
        raise ValueError("STEPattribute::STEPread: ReadEntityRef call not found")
    f["attrRef"] = c[0][-1] == "addFileId"
    c = _calls(ar, "ptr.a->STEPread")
    if len(c) != 1:
        raise ValueError("STEPattribute::STEPread: aggregate call not found")
    f["attrAggr"] = len(c[0]) >= 5 and c[0][4] == "addFileId"
    c = _calls(ar, "ptr.sh->STEPread")
    if len(c) != 1:
        raise ValueError("STEPattribute::STEPread: select call not found")
    f["attrSelect"] = len(c[0]) >= 5 and c[0][4] == "addFileId"
    c = _calls(_body(ar, "if( _redefAttr )"), "_redefAttr->STEPread")
    if len(c) != 1:
        raise ValueError("STEPattribute::STEPread: forwarding to the redefining attribute not found")
    f["redef"] = len(c[0]) >= 3 and c[0][2] == "addFileId"
    # entity aggregates
    rv = _body(agge, "Severity EntityAggregate::ReadValue(")
    c = [a for a in _calls(rv, "item->STEPread")]
    en = _body(agge, "Severity EntityNode::STEPread( istream & in, ErrorDescriptor * err,")
    c2 = _calls(en, "ReadEntityRef")
    if len(c) != 1 or len(c2) != 1:
        raise ValueError("EntityAggregate/EntityNode read path changed")
    f["aggrEntityElem"] = c[0][-1] == "addFileId" and c2[0][-1] == "addFileId"
    # select aggregates
    rv = _body(aggs, "Severity SelectAggregate::ReadValue(")
    c = _calls(rv, "item->STEPread")
    k = aggs.rfind("Severity SelectNode::STEPread( istream & in, ErrorDescriptor * err,")
    sn = _body(aggs, "Severity SelectNode::STEPread( istream & in, ErrorDescriptor * err,", k)
    c2 = _calls(sn, "node->STEPread")
    if len(c) != 1 or len(c2) != 1:
        raise ValueError("SelectAggregate/SelectNode read path changed")
    f["aggrSelectElem"] = (len(c[0]) >= 5 and c[0][4] == "addFileId") and (len(c2[0]) >= 5 and c2[0][4] == "addFileId")
    # selects
    sb = _body(sel, "Severity SDAI_Select::STEPread( istream & in, ErrorDescriptor * err,")
    c = _calls(sb, "STEPread_content")
    if not c:
        raise ValueError("SDAI_Select::STEPread: STEPread_content calls not found")
    f["selectContent"] = all(len(a) >= 4 and a[3] == "addFileId" for a in c)
    c = _calls(sb, "ReadEntityRef")
    if len(c) != 1:
        raise ValueError("SDAI_Select::STEPread: ReadEntityRef call not found")
    f["selectRef"] = c[0][-1] == "addFileId"
    # complex parts
    xb = _body(cx, "Severity STEPcomplex::STEPread( int id, int addFileId, class InstMgrBase * instance_set,")
    c = _calls(xb, "stepc->SDAI_Application_instance::STEPread")
    if len(c) != 1:
        raise ValueError("STEPcomplex: part read call not found")
    f["complexPart"] = len(c[0]) >= 2 and c[0][1] == "addFileId"
    # the addition itself
    rb = _body(inst, "SDAI_Application_instance * ReadEntityRef( istream & in, ErrorDescriptor * err, const char * tokenList,")
    m = re.search(r"id\s*\+=\s*addFileId\s*;(.*?)instances->FindFileId\(\s*id\s*\)", rb, re.S)
    f["refAdd"] = bool(m)
    if not re.search(r"in\s*>>\s*id\s*;", rb):
        raise ValueError("ReadEntityRef changed")
    # the select classes exp2cxx emits
    gen = open(os.path.join(repo, "src/exp2cxx/selects.c")).read()
    a = gen.find("/*  Read part 21   */")
    b = gen.find("void TYPEselect_lib_StrToVal", a)
    if a < 0 or b < 0:
        raise ValueError("exp2cxx: emitter of STEPread_content not found")
    blk = gen[a:b]
    if not re.search(r"const char \*utype, int addFileId, const char \*currSch\)", blk):
        raise ValueError("exp2cxx: emitted STEPread_content signature changed")

    def case_text(label_re):
        m = re.search(label_re + r"(.*?)break\s*;", blk, re.S)
        if not m:
            raise ValueError(f"exp2cxx: case {label_re} of the STEPread_content emitter not found")
        return m.group(1)
    ent = case_text(r"case entity_:")
    m = re.search(r"ReadEntityRef\(in, &_error, \\\",\)\\\", instances, (\w+)\)", ent)
    if not m:
        raise ValueError("exp2cxx: emitted entity member read changed")
    f["genSelectRef"] = m.group(1) == "addFileId"
    selc = case_text(r"case select_:")
    m = re.search(r"STEPread \(in, &_error, instances, utype, (\w+), currSch\)", selc)
    if not m:
        raise ValueError("exp2cxx: emitted nested select read changed")
    f["genSelectNested"] = m.group(1) == "addFileId"
    agg = case_text(r"case list_:")
    m = re.search(r"STEPread \(in, &_error, %s -> AggrElemTypeDescriptor \(\),\\n\"\s*\"\s*instances, (\w+), currSch\)", agg)
    if not m:
        raise ValueError("exp2cxx: emitted aggregate member read changed")
    f["genSelectAggr"] = m.group(1) == "addFileId"
    # ---- aggregates of aggregates: exp2cxx maps an aggregate whose element type is an aggregate to GenericAggregate, whose
    # elements are kept as TEXT (GenericAggrNode / SCLundefined) and read by the base class STEPaggregate::ReadValue
    cs = rd("src/exp2cxx/class_strings.c")
    if not re.search(r"if\s*\(\s*TYPEinherits_from\(\s*t\s*,\s*aggregate_\s*\)\s*\)\s*\{\s*bt\s*=\s*TYPEget_body\(\s*t\s*\)->base\s*;\s*"
                     r"if\s*\(\s*TYPEinherits_from\(\s*bt\s*,\s*aggregate_\s*\)\s*\)\s*\{\s*return\s*\(\s*\"GenericAggregate\"\s*\)\s*;", cs):
        raise ValueError("exp2cxx: aggregate of aggregates is no longer mapped to GenericAggregate")
    agg0 = rd("src/clstepcore/STEPaggregate.cc")
    gen = rd("src/clstepcore/STEPaggrGeneric.cc")
    if not re.search(r"Severity\s+GenericAggrNode::STEPread\(\s*istream\s*&\s*in\s*,\s*ErrorDescriptor\s*\*\s*err\s*\)\s*\{\s*return\s+value\.STEPread\(\s*in\s*,\s*err\s*\)\s*;\s*\}", gen) \
            or "GenericAggregate::ReadValue" in gen:
        raise ValueError("GenericAggrNode::STEPread / GenericAggregate::ReadValue: shape changed")
    rv = re.sub(r"\s+", "", _body(agg0, "Severity STEPaggregate::ReadValue( istream & in, ErrorDescriptor * err,"))
    uses = len(re.findall(r"\baddFileId\b", rv))
    if "(void)addFileId;" in rv and uses == 1:
        f["aggrNested"] = False           # the increment is dropped: references inside the text stay as written
    elif ("item->STEPread(in,&errdesc);GenericAggrNode*textNode=addFileId?dynamic_cast<GenericAggrNode*>(item):0;"
          "if(textNode){std::stringtext;textNode->value.asStr(text);ShiftEntityRefs(text,addFileId);textNode->value=text.c_str();}") in rv \
            and uses == 2:
        sh = re.sub(r"\s+", "", _body(agg0, "static void ShiftEntityRefs( std::string & s, int add )"))
        for need in ("if(s[i]=='\\''){", "elseif(s[i]=='#'&&i+1<s.size()&&isdigit((unsignedchar)s[i+1])){", "out+=std::to_string(id+add);", "s=out;"):
            if need not in sh:
                raise ValueError("ShiftEntityRefs: shape changed: " + need)
        f["aggrNested"] = True            # every `#<digits>` outside a string literal gets the increment (no look-up: text)
    else:
        raise ValueError("STEPaggregate::ReadValue: unknown use of addFileId")
    # ---- state a reader could carry from one reference to the next (or from one file to the next): `static` locals in the
    # functions of the reference-reading path, and file-scope mutable statics of their source files that these functions use
    path_fns = [(attr, "STEPattribute.cc", "Severity STEPattribute::STEPread( istream & in, InstMgrBase * instances, int addFileId,"),
                (inst, "sdaiApplication_instance.cc", "SDAI_Application_instance * ReadEntityRef( istream & in, ErrorDescriptor * err, const char * tokenList,"),
                (inst, "sdaiApplication_instance.cc", "Severity SDAI_Application_instance::STEPread( int id,  int idIncr,"),
                (agge, "STEPaggrEntity.cc", "Severity EntityAggregate::ReadValue("),
                (agge, "STEPaggrEntity.cc", "Severity EntityNode::STEPread( istream & in, ErrorDescriptor * err,"),
                (aggs, "STEPaggrSelect.cc", "Severity SelectAggregate::ReadValue("),
                (sel, "sdaiSelect.cc", "Severity SDAI_Select::STEPread( istream & in, ErrorDescriptor * err,"),
                (cx, "STEPcomplex.cc", "Severity STEPcomplex::STEPread( int id, int addFileId, class InstMgrBase * instance_set,")]
    state = []

    def file_statics(text):
        out, depth, k = [], 0, 0
        for m in re.finditer(r"[{}]|^static\s+(?!const\b)(?!inline\b)[\w:<>\s\*&]+?\b(\w+)\s*(?:=[^;]*)?;", text, re.M):
            if m.group(0) == "{":
                depth += 1
            elif m.group(0) == "}":
                depth -= 1
            elif depth == 0 and m.group(1):
                out.append(m.group(1))
        return out
    for text, fname, sig in path_fns:
        body_ = _body(text, sig)
        fn = re.search(r"(\w+(?:::\w+)?)\s*\($", sig[:sig.index("(") + 1]).group(1)
        for m in re.finditer(r"\bstatic\s+(?!const\b)[\w:<>\s\*&]+?\b(\w+)\s*(?:=[^;]*)?;", body_):
            state.append(f"{fn}::{m.group(1)}")
        for v in file_statics(text):
            if re.search(r"\b" + re.escape(v) + r"\b", body_):
                state.append(f"{fname}:{v} (used by {fn})")
    # ---- the increment a reader works with is the one it was handed: no function of the path assigns its increment parameter,
    # and the id ReadEntityRef looks up is made of the number read from the stream in this call and that parameter, nothing else
    reassigned = []
    for text, fname, sig in path_fns:
        body_ = _body(text, sig)
        fn = re.search(r"(\w+(?:::\w+)?)\s*\($", sig[:sig.index("(") + 1]).group(1)
        for par in ("addFileId", "idIncr"):
            if re.search(r"\b" + par + r"\s*(?:=(?!=)|\+=|-=|\+\+|--)", body_) or re.search(r"(?:\+\+|--)\s*" + par + r"\b", body_) \
                    or re.search(r"&\s*" + par + r"\b", body_):
                reassigned.append(f"{fn}:{par}")
    rb = _body(inst, "SDAI_Application_instance * ReadEntityRef( istream & in, ErrorDescriptor * err, const char * tokenList,")
    id_writes = [re.sub(r"\s+", "", m.group(0)) for m in re.finditer(r"(?:int\s+id\s*=[^;]*|in\s*>>\s*id|\bid\s*(?:=(?!=)|\+=|-=)[^;]*|\+\+id|id\+\+)\s*;", rb)]
    if id_writes != ["intid=-1;", "in>>id;", "id+=addFileId;"] or not re.search(r"instances->FindFileId\(\s*id\s*\)", rb):
        raise ValueError(f"ReadEntityRef: the looked-up id is no longer `number read` + addFileId: {id_writes}")
    order = ["instAttr", "attrRef", "attrAggr", "attrSelect", "redef", "aggrEntityElem", "aggrSelectElem", "selectContent",
             "selectRef", "complexPart", "refAdd", "genSelectRef", "genSelectNested", "genSelectAggr", "aggrNested"]
    L = ["-- GENERATED by tools/extract.d/threading.py from STEPattribute.cc, sdaiApplication_instance.cc, STEPaggrEntity.cc,",
         "-- STEPaggrSelect.cc, sdaiSelect.cc, STEPcomplex.cc (src/clstepcore) and the emitter src/exp2cxx/selects.c",
         "namespace StepModel.Generated", "",
         "/-- at which call sites the file id increment is handed on (see tools/extract.d/threading.py for the sites) -/",
         "structure Threading where"] + [f"  {k} : Bool" for k in order] + ["  deriving DecidableEq, Repr", "",
         "def threading : Threading :=", "  { " + ", ".join(f"{k} := {'true' if f[k] else 'false'}" for k in order) + " }", "",
         "/-- variables through which a reader of the reference path could carry state from one reference (or file) to the next:",
         "    non-const `static` locals of its functions and file-scope statics they use -/",
         "def readerState : List String := [" + ", ".join('"' + x + '"' for x in sorted(set(state))) + "]", "",
         "/-- functions of the path that assign (or take the address of) the increment they were handed -/",
         "def incrementReassigned : List String := [" + ", ".join('"' + x + '"' for x in sorted(set(reassigned))) + "]", "",
         "/-- every write of the id `ReadEntityRef` looks up, in order (shape checked: initialised, read from the stream, `+= addFileId`) -/",
         "def refIdWrites : List String := [" + ", ".join('"' + x + '"' for x in id_writes) + "]", "",
         "end StepModel.Generated", ""]
    return {"ThreadingGen.lean": "\n".join(L)}

"""InstMgr constants and the NextFileId rule -> Generated/InstMgrGen.lean

The body of the inline `InstMgr::NextFileId()` (include/clstepcore/instmgr.h), the constructor's initial
`maxFileId`, the value ClearInstances/DeleteInstances reset it to, and ARRAY_DEFAULT_SIZE are translated
to Lean, so that the C13 theorems are re-checked against what the header says now.
Supported statement forms inside NextFileId (anything else = broken tie):
    return maxFileId = <expr>;      maxFileId = <expr>;       if( <cond> ) { maxFileId = <expr>; }
    return maxFileId;  return ++maxFileId;  ++maxFileId;  maxFileId++;
with <expr>/<cond> over maxFileId, integer literals, + - * < <= > >= == != ?: and parentheses.
"""
import os, re


def _tok(s):
    toks = re.findall(r"\s*(\d+|[A-Za-z_]\w*|<=|>=|==|!=|\+\+|[-+*<>?:()])", s)
    if "".join(toks) != re.sub(r"\s+", "", s):
        raise ValueError(f"cannot tokenise expression {s!r}")
    return toks


class P:
    def __init__(self, toks):
        self.t, self.i = toks, 0

    def peek(self):
        return self.t[self.i] if self.i < len(self.t) else None

    def eat(self, x=None):
        v = self.peek()
        if v is None or (x is not None and v != x):
            raise ValueError(f"expected {x}, got {v}")
        self.i += 1
        return v

    def tern(self):
        c = self.cmp()
        if self.peek() == "?":
            self.eat(); a = self.tern(); self.eat(":"); b = self.tern()
            return f"(if {c} then {a} else {b})"
        return c

    def cmp(self):
        a = self.add()
        if self.peek() in ("<", "<=", ">", ">=", "==", "!="):
            op = self.eat(); b = self.add()
            op = {"==": "=", "!=": "≠", "<=": "≤", ">=": "≥"}.get(op, op)
            return f"({a} {op} {b})"
        return a

    def add(self):
        a = self.mul()
        while self.peek() in ("+", "-"):
            op = self.eat(); b = self.mul(); a = f"({a} {op} {b})"
        return a

    def mul(self):
        a = self.atom()
        while self.peek() == "*":
            self.eat(); b = self.atom(); a = f"({a} * {b})"
        return a

    def atom(self):
        v = self.eat()
        if v == "(":
            e = self.tern(); self.eat(")"); return e
        if v == "-":
            return f"(-{self.atom()})"
        if v.isdigit():
            return f"({v} : Int)"
        if v == "maxFileId":
            return "m"
        raise ValueError(f"unsupported token {v}")


def _expr(s):
    p = P(_tok(s))
    e = p.tern()
    if p.peek() is not None:
        raise ValueError(f"trailing tokens in {s!r}")
    return e


def _body(text, sig):
    i = text.find(sig)
    if i < 0:
        raise ValueError(f"{sig} not found")
    j = text.index("{", i)
    depth, k = 0, j
    while True:
        if text[k] == "{":
            depth += 1
        elif text[k] == "}":
            depth -= 1
            if depth == 0:
                break
        k += 1
    body = text[j + 1:k]
    body = re.sub(r"//[^\n]*", "", body)
    body = re.sub(r"/\*.*?\*/", "", body, flags=re.S)
    return body


def _stmts(body):
    """translate to a Lean expression in `m` giving the final maxFileId (the function also returns it)."""
    body = body.strip()
    lines = []
    rest = body
    cur = "m"
    ret_is_max = False
    while rest.strip():
        rest = rest.strip()
        m = re.match(r"return\s+maxFileId\s*=\s*([^;]+);", rest)
        if m:
            lines.append(("assign", _expr(m.group(1)))); ret_is_max = True; rest = rest[m.end():]; continue
        m = re.match(r"return\s*\+\+\s*maxFileId\s*;", rest)
        if m:
            lines.append(("assign", "(m + 1)")); ret_is_max = True; rest = rest[m.end():]; continue
        m = re.match(r"return\s+maxFileId\s*;", rest)
        if m:
            ret_is_max = True; rest = rest[m.end():]; continue
        m = re.match(r"(\+\+\s*maxFileId|maxFileId\s*\+\+)\s*;", rest)
        if m:
            lines.append(("assign", "(m + 1)")); rest = rest[m.end():]; continue
        m = re.match(r"maxFileId\s*=\s*([^;]+);", rest)
        if m:
            lines.append(("assign", _expr(m.group(1)))); rest = rest[m.end():]; continue
        m = re.match(r"if\s*\((.*?)\)\s*\{?\s*maxFileId\s*=\s*([^;]+);\s*\}?", rest, re.S)
        if m:
            lines.append(("ifassign", _expr(m.group(1)), _expr(m.group(2)))); rest = rest[m.end():]; continue
        raise ValueError(f"unsupported statement in NextFileId: {rest[:60]!r}")
    if not ret_is_max:
        raise ValueError("NextFileId does not return maxFileId")
    # fold into nested lets
    out = "m"
    code = []
    for st in lines:
        if st[0] == "assign":
            code.append(f"let m : Int := {st[1]}")
        else:
            code.append(f"let m : Int := if {st[1]} then {st[2]} else m")
    return "\n  ".join(code + ["m"])


def extract(repo):
    h = open(os.path.join(repo, "include/clstepcore/instmgr.h")).read()
    cc = open(os.path.join(repo, "src/clstepcore/instmgr.cc")).read()
    ga = open(os.path.join(repo, "include/clutils/gennodearray.h")).read()
    nxt = _stmts(_body(h, "NextFileId()"))
    m = re.search(r"InstMgr::InstMgr\s*\([^)]*\)\s*:\s*maxFileId\s*\(\s*(-?\d+)\s*\)", cc)
    if not m:
        raise ValueError("InstMgr constructor initialiser maxFileId(...) not found")
    init = int(m.group(1))
    resets = []
    for fn in ["ClearInstances", "DeleteInstances"]:
        b = _body(cc, f"InstMgr::{fn}()")
        mm = re.search(r"maxFileId\s*=\s*(-?\d+)\s*;", b)
        if not mm:
            raise ValueError(f"{fn}: reset of maxFileId not found")
        resets.append(int(mm.group(1)))
    gcc = open(os.path.join(repo, "src/clutils/gennodearray.cc")).read()
    cb = _body(gcc, "GenNodeArray::Check(")
    mg = re.search(r"if\s*\(\s*index\s*>=\s*_bufsize\s*\)\s*\{\s*_bufsize\s*=\s*([^;]+);", cb)
    if not mg:
        raise ValueError("GenNodeArray::Check: growth rule `if( index >= _bufsize ) { _bufsize = <expr>;` not found")
    gexpr = mg.group(1).strip()
    if not re.fullmatch(r"[\s\d()+*index]+", gexpr):
        raise ValueError(f"GenNodeArray::Check: unsupported growth expression {gexpr!r}")
    grow = re.sub(r"\bindex\b", "i", gexpr)
    # which routines leave the slots at and above _count null (the look-ups by index test the slot, not the count)
    mcc = open(os.path.join(repo, "src/clstepcore/mgrnodearray.cc")).read()

    def loop_nulls(body, what):
        ml = re.search(r"for\s*\(\s*i\s*=\s*0\s*;\s*i\s*<\s*_count\s*;\s*i\+\+\s*\)\s*\{(.*?)\}\s*_count\s*=\s*0\s*;", body, re.S)
        if not ml:
            raise ValueError(f"{what}: `for( i = 0; i < _count; i++ ) {{...}} _count = 0;` not found")
        return bool(re.search(r"_buf\s*\[\s*i\s*\]\s*=\s*0\s*;", ml.group(1)))
    del_nulls = loop_nulls(_body(mcc, "MgrNodeArray::DeleteEntries()"), "MgrNodeArray::DeleteEntries")
    clr_nulls = loop_nulls(_body(mcc, "MgrNodeArray::ClearEntries()"), "MgrNodeArray::ClearEntries")
    rb = _body(gcc, "GenNodeArray::Remove(")
    if not re.search(r"--_count\s*;.*memmove\s*\(\s*spot\s*,\s*spot\s*\+\s*1\s*,\s*\(\s*_count\s*-\s*index\s*\)", rb, re.S):
        raise ValueError("GenNodeArray::Remove: `--_count; ... memmove( spot, spot + 1, ( _count - index ) ...` not found")
    rem_nulls = bool(re.search(r"_buf\s*\[\s*_count\s*\]\s*=\s*0\s*;", rb))
    m = re.search(r"#define\s+ARRAY_DEFAULT_SIZE\s*\(?\s*(\d+)", ga)
    if not m:
        raise ValueError("ARRAY_DEFAULT_SIZE not found")
    dflt = int(m.group(1))
    # the "no id assigned" sentinel tested by Append
    ab = _body(cc, "InstMgr::Append(")
    m = re.search(r"se->StepFileId\(\)\s*==\s*(-?\d+)", ab)
    if not m:
        raise ValueError("Append: unassigned-id test not found")
    unassigned = int(m.group(1))
    out = f"""-- GENERATED by tools/extract.d/instmgr.py from include/clstepcore/instmgr.h, src/clstepcore/instmgr.cc,
-- include/clutils/gennodearray.h
namespace StepModel.Generated

/-- value of `maxFileId` after `InstMgr::NextFileId()` when it was `m` before (the call returns it) -/
def nextFileIdVal (m : Int) : Int :=
  {nxt}

/-- `InstMgr::InstMgr`: initial `maxFileId` -/
def initMaxFileId : Int := {init}
/-- value `ClearInstances` resets `maxFileId` to -/
def clearMaxFileId : Int := {resets[0]}
/-- value `DeleteInstances` resets `maxFileId` to -/
def deleteAllMaxFileId : Int := {resets[1]}
/-- the file id `Append` treats as "no id assigned" -/
def unassignedFileId : Int := {unassigned}
/-- `ARRAY_DEFAULT_SIZE` -/
def arrayDefaultSize : Nat := {dflt}
/-- `GenNodeArray::Check`: the new `_bufsize` when `index >= _bufsize` -/
def growTo (i : Nat) : Nat := {grow}
/-- `MgrNodeArray::DeleteEntries` stores 0 in every slot whose node it deletes -/
def deleteEntriesNullsSlots : Bool := {str(del_nulls).lower()}
/-- `MgrNodeArray::ClearEntries` stores 0 in every slot below `_count` -/
def clearEntriesNullsSlots : Bool := {str(clr_nulls).lower()}
/-- `GenNodeArray::Remove` stores 0 in the vacated slot `_buf[_count]` -/
def removeNullsVacated : Bool := {str(rem_nulls).lower()}

end StepModel.Generated
"""
    return {"InstMgrGen.lean": out}

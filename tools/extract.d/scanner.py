"""File-set rules of the build-time scanner and of exp2cxx -> Generated/ScannerGen.lean   (C17, C12)

Regenerated from the working tree (a pattern that no longer matches raises = broken tie):
  * `enum type_enum` (include/express/type.h)            -> inductive TypeKind (+ allKinds)
  * schemaScanner.cc  notGenerated(): the switch's case list and the "renamed enum/select" test
  * schemaScanner.cc  printSchemaFilenames(): which DICT classes are listed, the renamed-enum skip,
                      numColumns / colWidth / tab, the fixed header / implementation names of writeLists()
  * genCxxFilenames.c the two snprintf formats (directory and extension of per-entity / per-type files)
  * class_strings.h / classes.h  TYPE_PREFIX, ENTITYCLASS_PREFIX, SCHEMA_FILE_PREFIX
  * classes_type.c    TYPEget_RefTypeVarNm(): kinds for which a head-less type has no referent descriptor;
                      TYPEprint_descriptions(): TYPEPrint is reached for exactly the kinds tested there
  * classes_wrapper.cc SCOPEPrint(): first loop's exclusion, select loop's dispatch; fixed files created by
                      print_file_header / print_file / SCHEMAprint / initUnityFiles
  * selects.c         TYPEselect_print(): renamed selects return before TYPEPrint
"""
import os, re


def _read(repo, rel):
    with open(os.path.join(repo, rel), encoding="utf-8", errors="replace") as fh:
        return fh.read()


def _strip_comments(s):
    """remove /* */ and // comments, leaving string and character literals intact"""
    out, i, n = [], 0, len(s)
    while i < n:
        c = s[i]
        if c in "\"'":
            j = i + 1
            while j < n and s[j] != c:
                j += 2 if s[j] == "\\" else 1
            out.append(s[i:j + 1]); i = j + 1
        elif s.startswith("/*", i):
            j = s.find("*/", i + 2)
            out.append(" "); i = n if j < 0 else j + 2
        elif s.startswith("//", i):
            j = s.find("\n", i)
            i = n if j < 0 else j
        else:
            out.append(c); i += 1
    return "".join(out)


def _func_body(src, header_re):
    m = re.search(header_re, src)
    if not m:
        raise ValueError(f"function header {header_re!r} not found")
    i = src.index("{", m.end() - 1)
    depth, j = 0, i
    while True:
        c = src[j]
        if c in "\"'":                      # skip string / char literals (they may contain braces)
            j += 1
            while src[j] != c:
                j += 2 if src[j] == "\\" else 1
        elif c == "{":
            depth += 1
        elif c == "}":
            depth -= 1
            if depth == 0:
                return src[i + 1:j]
        j += 1


def _blank_strings(s):
    """same text with the contents of string/char literals replaced by blanks (positions preserved)"""
    out, i, n = [], 0, len(s)
    while i < n:
        c = s[i]
        if c in "\"'":
            j = i + 1
            while j < n and s[j] != c:
                j += 2 if s[j] == "\\" else 1
            out.append(c + " " * (j - i - 1) + c); i = j + 1
        else:
            out.append(c); i += 1
    return "".join(out)


def _enclosing(body, pos):
    """conditions of the `if(...) {` / `else if(...) {` / `else {` blocks that enclose position `pos` of a function
    body (comments stripped), outermost first, as (keyword, normalised condition) pairs; other blocks as ('block', '')."""
    stack, i, n = [], 0, len(body)
    while i < pos:
        c = body[i]
        if c in "\"'":
            j = i + 1
            while body[j] != c:
                j += 2 if body[j] == "\\" else 1
            i = j + 1
            continue
        if c == "{":
            head = body[:i].rstrip()
            kw, cond = "block", ""
            if head.endswith(")"):
                depth, k = 0, len(head) - 1
                while True:
                    if head[k] == ")":
                        depth += 1
                    elif head[k] == "(":
                        depth -= 1
                        if depth == 0:
                            break
                    k -= 1
                pre = head[:k].rstrip()
                m = re.search(r"(else\s+if|if|while|for|switch|[A-Za-z_]\w*)$", pre)
                if m:
                    kw = re.sub(r"\s+", " ", m.group(1))
                    cond = re.sub(r"\s+", "", head[k + 1:-1])
            elif re.search(r"\belse$", head):
                kw = "else"
            stack.append((kw, cond))
        elif c == "}":
            stack.pop()
        i += 1
    return stack


def _need(cond, what):
    if not cond:
        raise ValueError("source no longer has the shape the model was written for: " + what)


def _kinds(names, all_kinds, where):
    for n in names:
        _need(n in all_kinds, f"{where}: unknown type kind {n}")
    return "[" + ", ".join("." + n for n in names) + "]"


def _define(src, name):
    m = re.search(r"#define\s+" + name + r"\s+(\S+)", src)
    _need(m, f"#define {name}")
    return m.group(1)


def extract(repo):
    # ---- enum type_enum
    th = _strip_comments(_read(repo, "include/express/type.h"))
    m = re.search(r"enum\s+type_enum\s*\{(.*?)\}", th, re.S)
    _need(m, "enum type_enum in include/express/type.h")
    kinds = []
    for item in m.group(1).split(","):
        item = item.strip()
        if not item:
            continue
        mm = re.match(r"^([a-z_]+_)(\s*=\s*\d+)?$", item)
        _need(mm, f"type_enum item {item!r}")
        kinds.append(mm.group(1))
    _need(len(kinds) >= 20 and "enumeration_" in kinds and "select_" in kinds, "type_enum items")

    # ---- scanner
    sc = _strip_comments(_read(repo, "cmake/schema_scanner/schemaScanner.cc"))
    ng = _func_body(sc, r"bool\s+notGenerated\s*\(\s*const\s+Type\s+t\s*\)\s*\{")
    m = re.match(r"\s*switch\s*\(\s*TYPEget_body\s*\(\s*t\s*\)\s*->\s*type\s*\)\s*\{(.*?)default\s*:\s*break\s*;\s*\}(.*)$", ng, re.S)
    _need(m, "notGenerated: switch( TYPEget_body( t )->type ) { case ...: return true; default: break; } ...")
    sw, rest = m.group(1), m.group(2)
    _need(re.fullmatch(r"(\s*case\s+[a-z_]+\s*:)+\s*return\s+true\s*;\s*", sw), "notGenerated: a single case group returning true")
    ng_cases = re.findall(r"case\s+([a-z_]+)\s*:", sw)
    m = re.fullmatch(r"\s*if\s*\(\s*\(((?:\s*TYPEis_[a-z]+\s*\(\s*t\s*\)\s*\|\|)*\s*TYPEis_[a-z]+\s*\(\s*t\s*\)\s*)\)\s*&&\s*\(\s*TYPEget_head\s*\(\s*t\s*\)\s*\)\s*\)\s*\{\s*return\s+true\s*;\s*\}\s*return\s+false\s*;\s*", rest)
    _need(m, "notGenerated: if( ( TYPEis_X( t ) || ... ) && ( TYPEget_head( t ) ) ) return true; return false;")
    ng_renamed = [k + "_" for k in re.findall(r"TYPEis_([a-z]+)", m.group(1))]

    ps = _func_body(sc, r"void\s+printSchemaFilenames\s*\(\s*Schema\s+sch\s*\)\s*\{")
    _need(re.search(r"DICTdo_init\s*\(\s*sch->symbol_table\s*,\s*&de\s*\)", ps), "printSchemaFilenames iterates sch->symbol_table with DICTdo_init (all classes)")
    cases = re.findall(r"case\s+(OBJ_[A-Z_]+)\s*:", ps)
    _need(cases == ["OBJ_ENTITY", "OBJ_TYPE"], f"printSchemaFilenames handles exactly OBJ_ENTITY and OBJ_TYPE (found {cases})")
    m = re.search(r"case\s+OBJ_TYPE\s*:\s*\{\s*Type\s+t\s*=\s*\(\s*Type\s*\)\s*x\s*;\s*(?:anyType\s*=\s*true\s*;\s*)?if\s*\(\s*TYPEis_([a-z]+)\s*\(\s*t\s*\)\s*&&\s*\(\s*TYPEget_head\s*\(\s*t\s*\)\s*\)\s*\)\s*\{\s*break\s*;\s*\}\s*if\s*\(\s*notGenerated\s*\(\s*t\s*\)\s*\)\s*\{\s*break\s*;\s*\}\s*fn\s*=\s*getTypeFilenames\s*\(\s*t\s*\)\s*;", ps)
    _need(m, "printSchemaFilenames OBJ_TYPE: renamed-<kind> skip, notGenerated skip, getTypeFilenames")
    ps_skip = [m.group(1) + "_"]
    _need(re.search(r"case\s+OBJ_ENTITY\s*:\s*fn\s*=\s*getEntityFilenames\s*\(\s*\(\s*Entity\s*\)\s*x\s*\)\s*;", ps), "printSchemaFilenames OBJ_ENTITY: getEntityFilenames")
    for stream, fld in (("entityHeaders", "header"), ("entityImpls", "impl"), ("typeHeaders", "header"), ("typeImpls", "impl")):
        _need(re.search(stream + r"\s*<<\s*std::left\s*<<\s*std::setw\s*\(\s*colWidth\s*\)\s*<<\s*fn\." + fld + r"\s*<<\s*\" \"", ps), f"{stream} << left << setw(colWidth) << fn.{fld} << \" \"")
    ncol = int(re.search(r"const\s+int\s+numColumns\s*=\s*(\d+)\s*;", ps).group(1))
    colw = int(re.search(r"const\s+int\s+colWidth\s*=\s*(\d+)\s*;", ps).group(1))
    tab = re.search(r'const\s+char\s*\*\s*tab\s*=\s*"( *)"\s*;', ps).group(1)
    _need(re.search(r"writeLists\s*\(\s*sch->symbol\.name\s*,\s*entityHeaders\s*,\s*entityImpls\s*,\s*ecount\s*,\s*typeHeaders\s*,\s*typeImpls\s*,\s*tcount\s*\)", ps), "writeLists( sch->symbol.name, eh, ei, ecount, th, ti, tcount )")

    wl_raw = _func_body(_read(repo, "cmake/schema_scanner/schemaScanner.cc"), r"void\s+writeLists\s*\(")
    wl = _strip_comments(wl_raw)
    # every `cmLists << ...;` statement, translated piecewise into a Lean string expression
    stmts = re.findall(r"cmLists\s*<<(.*?);\s*\n", wl, re.S)
    _need(len(stmts) > 40, "writeLists: cmLists << ... statements")
    pieces = []
    var_map = {"schemaName": "schemaName", "shortName": "shortName", "schema_upper": "schemaUpper", "input_filename": "inputFile",
               "eh.str()": "eh", "ei.str()": "ei", "th.str()": "th", "ti.str()": "ti", "ecount": "toString ecount",
               "tcount": "toString tcount", "( ( ecount + tcount ) * 2 ) + 10": "toString (((ecount + tcount) * 2) + 10)",
               "endl": '"\\n"'}
    for st in stmts:
        toks = re.findall(r'"(?:[^"\\]|\\.)*"|[^<]+', st.replace("<<", "<"))
        for t in toks:
            t = t.strip()
            if not t:
                continue
            if t.startswith('"'):
                pieces.append(t)      # C and Lean escapes agree for \" \\ \n used here
            elif t in var_map:
                pieces.append(var_map[t])
            else:
                raise ValueError(f"writeLists: cannot translate stream operand {t!r}")
    _need('"PROJECT("' in pieces, "writeLists prints PROJECT(<shortName>)")
    render = "String.join [\n    " + ",\n    ".join(pieces) + "]"

    def name_list(start_marker, what):
        """file names printed between `<start_marker>` and the closing parenthesis of that set(), as Lean terms"""
        i = next((k for k, q in enumerate(pieces) if q.startswith('"') and start_marker in q), None)
        _need(i is not None, f"writeLists: set(... {start_marker}")
        txt, k = "", i + 1
        while True:
            q = pieces[k]
            if q.startswith('"'):
                lit = q[1:-1].replace("\\n", "\n")
                if ")" in lit:
                    txt += lit[:lit.index(")")]
                    break
                txt += lit
            elif q == "schemaUpper":
                txt += "\x00"
            else:
                raise ValueError(f"writeLists: unexpected operand {q} in {what}")
            k += 1
        out = []
        for tok in txt.split():
            parts = tok.split("\x00")
            out.append(" ++ schemaUpper ++ ".join(f'"{x}"' for x in parts))
        _need(out, what)
        return "[" + ", ".join(out) + "]"
    misc_hdrs = name_list("_misc_hdrs", "misc headers")
    misc_impls = name_list("_misc_impls", "misc implementation files")
    ue = re.search(r'"_entity_impls\s+(\w*)"\s*<<\s*schema_upper\s*<<\s*"(_unity_entities\.cc)\)"', wl)
    ut = re.search(r'"_type_impls\s+(\w*)"\s*<<\s*schema_upper\s*<<\s*"(_unity_types\.cc)\)"', wl)
    _need(ue and ut, "writeLists: unity implementation names")
    _need(re.search(r"string\s+shortName\s*=\s*makeShortName\s*\(\s*schemaName\s*\)", wl), "writeLists: shortName = makeShortName( schemaName )")
    _need(re.search(r"cmListsPath\s*=\s*shortName\s*;\s*cmListsPath\s*\+=\s*\"/CMakeLists\.txt\"", wl), "writeLists: <shortName>/CMakeLists.txt")
    _need(re.search(r"cout\s*<<\s*pwd\s*<<\s*\"/\"\s*<<\s*shortName\s*<<\s*endl", wl), "writeLists prints <cwd>/<shortName>")
    _need(re.search(r"schema_upper\[i\]\s*=\s*toupper\s*\(\s*schemaName\[i\]\s*\)", wl), "writeLists: schema_upper = toupper(schemaName)")

    ms = _func_body(sc, r"string\s+makeShortName\s*\(\s*const\s+char\s*\*\s*longName\s*\)\s*\{")
    for pat, what in [(r'const\s+char\s*\*\s*dat\s*=\s*"data"', 'dat = "data"'),
                      (r"dirname\.size\(\)\s*>\s*2\s*\)\s*&&\s*\(\s*dirname\.size\(\)\s*<\s*filename\.size\(\)", "dir name used when 2 < |dir| < |file|"),
                      (r"strlen\s*\(\s*longName\s*\)\s*<\s*filename\.size\(\)", "schema name used when shorter"),
                      (r'filename\.insert\s*\(\s*0\s*,\s*"sdai_"\s*\)', 'prefix "sdai_"'),
                      (r"filename\.rfind\s*\(\s*'\.'\s*\)", "extension cut at the last '.'"),
                      (r"dirname\.find\s*\(\s*dat\s*\)", "first occurrence of dat in the directory part"),
                      (r"dirname\.erase\s*\(\s*0\s*,\s*dirname\.rfind\s*\(\s*slash\s*\)\s*\+\s*1\s*\)", "last directory component")]:
        _need(re.search(pat, ms), "makeShortName: " + what)

    # does a file with several schemas give each of them the schema name (fix C17-3)?  recognised: the guarded assignment in
    # makeShortName together with the counting loop in main; neither -> the legacy rule; anything else raises
    per_schema = bool(re.search(r"if\s*\(\s*schemasInFile\s*>\s*1\s*\)\s*\{\s*filename\s*=\s*longName\s*;\s*\}\s*filename\.insert", ms))
    _need(per_schema or "schemasInFile" not in sc, "makeShortName / schemasInFile: not the modelled form of the per-schema short name")
    mn = _func_body(sc, r"int\s+main\s*\(\s*int\s+argc\s*,\s*char\s*\*\*\s*argv\s*\)\s*\{")
    if per_schema:
        _need(re.search(r"static\s+int\s+schemasInFile\s*=\s*0\s*;", sc) and
              re.search(r"DICTdo_type_init\s*\(\s*model->symbol_table\s*,\s*&de\s*,\s*OBJ_SCHEMA\s*\)\s*;\s*while\s*\(\s*0\s*!=\s*\(\s*schema\s*=\s*\(\s*Schema\s*\)\s*DICTdo\s*\(\s*&de\s*\)\s*\)\s*\)\s*\{\s*\+\+schemasInFile\s*;\s*\}", mn),
              "main counts the schemas of the file into schemasInFile before the first printSchemaFilenames")
    # is a schema without any type and entity left without a build description (fix C17-4)?
    skips = bool(re.search(r"if\s*\(\s*\(\s*ecount\s*==\s*0\s*\)\s*&&\s*!anyType\s*\)\s*\{[^{}]*return\s*;\s*\}\s*writeLists", ps))
    _need(skips or "anyType" not in ps, "printSchemaFilenames / anyType: not the modelled form of the codeless-schema skip")
    if skips:
        _need(re.search(r"case\s+OBJ_TYPE\s*:\s*\{\s*Type\s+t\s*=\s*\(\s*Type\s*\)\s*x\s*;\s*anyType\s*=\s*true\s*;", ps) and re.search(r"bool\s+anyType\s*=\s*false\s*;", ps),
              "anyType is set for every OBJ_TYPE entry, before the renamed / notGenerated skips")
    _need(re.search(r"DICTdo_type_init\s*\(\s*model->symbol_table\s*,\s*&de\s*,\s*OBJ_SCHEMA\s*\)\s*;\s*while\s*\(\s*0\s*!=\s*\(\s*schema\s*=\s*\(\s*Schema\s*\)\s*DICTdo\s*\(\s*&de\s*\)\s*\)\s*\)\s*\{\s*printSchemaFilenames\s*\(\s*schema\s*\)", mn), "main: printSchemaFilenames for every schema of the model")

    # ---- shared file-name helper and prefixes
    gf = _strip_comments(_read(repo, "src/exp2cxx/genCxxFilenames.c"))
    fm = re.findall(r'snprintf\s*\(\s*(header|impl)\s*,\s*BUFSIZ-1\s*,\s*"([a-z]+)/%s(\.[a-z]+)"\s*,\s*name\s*\)', gf)
    _need(len(fm) == 4, "genCxxFilenames.c: four snprintf( header|impl, BUFSIZ-1, \"<dir>/%s.<ext>\", name )")
    ge = _func_body(gf, r"filenames_t\s+getEntityFilenames\s*\(\s*Entity\s+e\s*\)\s*\{")
    gt = _func_body(gf, r"filenames_t\s+getTypeFilenames\s*\(\s*Type\s+t\s*\)\s*\{")
    _need("ENTITYget_classname( e )" in ge and "TYPEget_ctype( t )" in gt, "getEntityFilenames uses ENTITYget_classname, getTypeFilenames uses TYPEget_ctype")
    fmt = {}
    for body, who in ((ge, "entity"), (gt, "type")):
        for buf, d, ext in re.findall(r'snprintf\s*\(\s*(header|impl)\s*,\s*BUFSIZ-1\s*,\s*"([a-z]+)/%s(\.[a-z]+)"', body):
            fmt[(who, buf)] = (d, ext)
    _need(len(fmt) == 4, "genCxxFilenames.c formats")
    cs = _read(repo, "src/exp2cxx/class_strings.h")
    type_prefix = _define(cs, "TYPE_PREFIX")
    max_len = int(_define(cs, "MAX_LEN"))
    _need(_define(cs, "ENTITYCLASS_PREFIX") == "TYPE_PREFIX", "ENTITYCLASS_PREFIX = TYPE_PREFIX")
    schema_file_prefix = _define(_read(repo, "src/exp2cxx/classes.h"), "SCHEMA_FILE_PREFIX")
    csc = _strip_comments(_read(repo, "src/exp2cxx/class_strings.c"))
    tg = _func_body(csc, r"const\s+char\s*\*\s*TYPE_get_ctype\s*\(")
    _need(re.search(r'if\s*\(\s*ctype\s*==\s*enumeration_\s*\)\s*\{\s*strncpy\s*\(\s*retval\s*,\s*TypeName\s*\(\s*t\s*\)', tg) and '* var = "_var"' in tg.replace("  ", " "),
          "TYPE_get_ctype: enumeration -> TypeName(t) + \"_var\"")
    _need(re.search(r"if\s*\(\s*ctype\s*==\s*select_\s*\)\s*\{\s*return\s*\(\s*TypeName\s*\(\s*t\s*\)\s*\)", tg), "TYPE_get_ctype: select -> TypeName(t)")

    # ---- exp2cxx: which types reach TYPEPrint
    ct = _strip_comments(_read(repo, "src/exp2cxx/classes_type.c"))
    rv = _func_body(ct, r"int\s+TYPEget_RefTypeVarNm\s*\(\s*const\s+Type\s+t\s*,\s*char\s*\*\s*buf\s*,\s*Schema\s+schema\s*\)\s*\{")
    _need(re.match(r"\s*if\s*\(\s*TYPEget_head\s*\(\s*t\s*\)\s*\)\s*\{.*?return\s+1\s*;\s*\}\s*else\s*\{\s*switch\s*\(\s*TYPEget_body\s*\(\s*t\s*\)->type\s*\)", rv, re.S), "TYPEget_RefTypeVarNm: head -> 1, else switch on body kind")
    m = re.search(r"((?:case\s+[a-z_]+\s*:\s*)+)return\s+0\s*;", rv)
    _need(m, "TYPEget_RefTypeVarNm: case group returning 0")
    ref_none = re.findall(r"case\s+([a-z_]+)\s*:", m.group(1))
    pd = _func_body(ct, r"void\s+TYPEprint_descriptions\s*\(\s*const\s+Type\s+type\s*,\s*FILES\s*\*\s*files\s*,\s*Schema\s+schema\s*\)\s*\{")
    # Only the statements the file set depends on are matched (anything else in the function may change freely):
    #  (1) the single call TYPEPrint( type, files, schema ) and the conditions of the blocks enclosing it,
    #  (2) every `return` that precedes it: exactly one, inside `if( TYPEis_<kind>( type ) && ( i = TYPEget_ancestor( type ) ) != NULL )`.
    pd = _blank_strings(pd)
    calls = [m.start() for m in re.finditer(r"\bTYPEPrint\s*\(", pd)]
    _need(len(calls) == 1, "TYPEprint_descriptions calls TYPEPrint exactly once")
    enc = _enclosing(pd, calls[0])
    _need(len(enc) == 2 and enc[0][0] == "if" and enc[1][0] == "if" and
          re.fullmatch(r"!TYPEget_RefTypeVarNm\(type,typename_buf,schema\)", enc[0][1]) and
          re.fullmatch(r"TYPEis_([a-z]+)\(type\)", enc[1][1]),
          f"TYPEprint_descriptions: TYPEPrint guarded by if( !TYPEget_RefTypeVarNm(...) ) {{ if( TYPEis_<kind>( type ) ) (found {enc})")
    pd_print = re.fullmatch(r"TYPEis_([a-z]+)\(type\)", enc[1][1]).group(1) + "_"
    _need(re.search(r"TYPEPrint\s*\(\s*type\s*,\s*files\s*,\s*schema\s*\)", pd[calls[0]:calls[0] + 60]), "TYPEPrint( type, files, schema )")
    rets = [m.start() for m in re.finditer(r"\breturn\b", pd[:calls[0]])]
    _need(len(rets) == 1, f"TYPEprint_descriptions: exactly one return before the TYPEPrint call (found {len(rets)})")
    renc = _enclosing(pd, rets[0])
    m = re.fullmatch(r"TYPEis_([a-z]+)\(type\)&&\(i=TYPEget_ancestor\(type\)\)!=NULL", renc[0][1]) if len(renc) == 1 and renc[0][0] == "if" else None
    _need(m, f"TYPEprint_descriptions: the early return is inside if( TYPEis_<kind>( type ) && ( i = TYPEget_ancestor( type ) ) != NULL ) (found {renc})")
    pd_renamed = m.group(1) + "_"
    tp = _func_body(ct, r"void\s+TYPEPrint\s*\(\s*const\s+Type\s+type\s*,\s*FILES\s*\*\s*files\s*,\s*Schema\s+schema\s*\)\s*\{")
    _need(re.search(r"names\s*=\s*getTypeFilenames\s*\(\s*type\s*\)", tp) and re.search(r"hdr\s*=\s*FILEcreate\s*\(\s*names\.header\s*\)\s*;\s*impl\s*=\s*FILEcreate\s*\(\s*names\.impl\s*\)", tp), "TYPEPrint creates names.header and names.impl from getTypeFilenames")
    ce = _strip_comments(_read(repo, "src/exp2cxx/classes_entity.c"))
    m = re.search(r"filenames_t\s+names\s*=\s*getEntityFilenames\s*\(\s*entity\s*\)\s*;", ce)
    _need(m and re.search(r"hdr\s*=\s*FILEcreate\s*\(\s*names\.header\s*\)\s*;\s*impl\s*=\s*FILEcreate\s*\(\s*names\.impl\s*\)", ce), "ENTITYPrint creates names.header and names.impl from getEntityFilenames")
    sel = _strip_comments(_read(repo, "src/exp2cxx/selects.c"))
    sp = _func_body(sel, r"void\s+TYPEselect_print\s*\(\s*Type\s+t\s*,\s*FILES\s*\*\s*files\s*,\s*Schema\s+schema\s*\)\s*\{")
    _need(re.search(r"if\s*\(\s*\(\s*i\s*=\s*TYPEget_ancestor\s*\(\s*t\s*\)\s*\)\s*!=\s*NULL\s*\)\s*\{.*?return\s*;\s*\}", sp, re.S) and
          len(re.findall(r"TYPEPrint\s*\(", sp)) == 1 and sp.index("TYPEget_ancestor") < sp.index("TYPEPrint"),
          "TYPEselect_print: renamed select returns before the single TYPEPrint(t, ...)")
    cw = _strip_comments(_read(repo, "src/exp2cxx/classes_wrapper.cc"))
    sp2 = _func_body(cw, r"void\s+SCOPEPrint\s*\(\s*Scope\s+scope\s*,")
    # structural: the calls that can create per-type / per-entity files and the conditions of their enclosing blocks
    sp2 = _blank_strings(sp2)
    def calls_of(name):
        return [m.start() for m in re.finditer(r"\b" + name + r"\s*\(", sp2)]
    td, ts, ep = calls_of("TYPEprint_descriptions"), calls_of("TYPEselect_print"), calls_of("ENTITYPrint")
    _need(len(td) == 3 and len(ts) == 1 and len(ep) == 1, f"SCOPEPrint: 3 calls of TYPEprint_descriptions, 1 of TYPEselect_print, 1 of ENTITYPrint (found {len(td)},{len(ts)},{len(ep)})")
    e1 = _enclosing(sp2, td[0])
    m = re.fullmatch(r"\(t->search_id==CANPROCESS\)&&!\(TYPEis_([a-z]+)\(t\)&&TYPEget_head\(t\)\)", e1[-1][1]) if len(e1) == 2 and e1[0] == ("SCOPEdo_types", "scope,t,de") and e1[1][0] == "if" else None
    _need(m, f"SCOPEPrint loop 1: SCOPEdo_types {{ if( ( t->search_id == CANPROCESS ) && !( TYPEis_<kind>( t ) && TYPEget_head( t ) ) ) {{ TYPEprint_descriptions (found {e1})")
    l1_excl = m.group(1) + "_"
    proc = [x.start() for x in re.finditer(r"t->search_id\s*=\s*PROCESSED", sp2) if x.start() > td[0] and x.start() < td[1]]
    _need(len(proc) == 1, "SCOPEPrint loop 1: one `t->search_id = PROCESSED`")
    ep1 = _enclosing(sp2, proc[0])
    m = re.fullmatch(r"!TYPEis_([a-z]+)\(t\)", ep1[-1][1]) if len(ep1) == 3 and ep1[:2] == e1 and ep1[2][0] == "if" else None
    _need(m, f"SCOPEPrint loop 1: marked PROCESSED under if( !TYPEis_<kind>( t ) ) inside the same block (found {ep1})")
    l1_keep = m.group(1) + "_"
    e3s, e3d = _enclosing(sp2, ts[0]), _enclosing(sp2, td[2])
    ok = (len(e3s) == 3 and len(e3d) == 3 and e3s[:2] == e3d[:2] and e3s[0] == ("SCOPEdo_types", "scope,t,de") and
          e3s[1] == ("if", "t->search_id==CANPROCESS") and e3s[2][0] == "if" and e3d[2][0] == "if")
    ms, md = (re.fullmatch(r"TYPEis_([a-z]+)\(t\)", e3s[2][1]), re.fullmatch(r"TYPEis_([a-z]+)\(t\)", e3d[2][1])) if ok else (None, None)
    _need(ms and md, f"SCOPEPrint loop 3: if( t->search_id == CANPROCESS ) {{ if( TYPEis_<k>( t ) ) TYPEselect_print; if( TYPEis_<k'>( t ) ) TYPEprint_descriptions (found {e3s} / {e3d})")
    l3_sel, l3_enum = ms.group(1) + "_", md.group(1) + "_"
    ee = _enclosing(sp2, ep[0])
    _need(len(ee) == 2 and ee[0] == ("LISTdo", "list,e,Entity") and ee[1] == ("if", "e->search_id==CANPROCESS"),
          f"SCOPEPrint: ENTITYPrint for every CANPROCESS entity of `list` (found {ee})")
    _need(re.search(r"list\s*=\s*SCOPEget_entities_superclass_order\s*\(\s*scope\s*\)", sp2), "SCOPEPrint: entity list from SCOPEget_entities_superclass_order")

    hdr = _func_body(cw, r"void\s+print_file_header\s*\(\s*FILES\s*\*\s*files\s*\)\s*\{")
    fixed = re.findall(r'FILEcreate\s*\(\s*"([^"]+)"\s*\)', hdr)
    pf = _func_body(cw, r"void\s+print_file\s*\(\s*Express\s+express\s*\)\s*\{")
    m = re.search(r'print_complex\s*\(\s*col\s*,\s*"([^"]+)"\s*\)', pf)
    _need(m and len(fixed) == 4, "print_file_header creates 4 fixed files; print_file prints the complex-entity file")
    _need(re.search(r"int\s+separate_schemas\s*=\s*1\s*;", pf), "print_file: separate_schemas = 1")
    fixed.append(m.group(1))
    sch = _func_body(cw, r"void\s+SCHEMAprint\s*\(\s*Schema\s+schema\s*,")
    for pat, what in [(r'snprintf\s*\(\s*schnm\s*,\s*MAX_LEN\s*,\s*"%s%s"\s*,\s*SCHEMA_FILE_PREFIX\s*,\s*StrToUpper\s*\(\s*SCHEMAget_name\s*\(\s*schema\s*\)\s*\)\s*\)', "schnm = snprintf(MAX_LEN) SCHEMA_FILE_PREFIX + upper(name)"),
                      (r'snprintf\s*\(\s*sufnm\s*,\s*MAX_LEN\s*,\s*"%s_%d"\s*,\s*schnm\s*,\s*suffix\s*\)', "sufnm = schnm_<suffix>"),
                      (r'snprintf\s*\(\s*fnm\s*,\s*MAX_LEN\s*,\s*"%s\.h"\s*,\s*sufnm\s*\)', "<sufnm>.h"),
                      (r'initUnityFiles\s*\(\s*sufnm\s*,\s*files\s*\)', "unity files named after sufnm"),
                      (r'sprintf\s*\(\s*np\s*,\s*"cc"\s*\)', "<sufnm>.cc"),
                      (r'snprintf\s*\(\s*fnm\s*,\s*MAX_LEN\s*,\s*"%sNames\.h"\s*,\s*schnm\s*\)', "<schnm>Names.h"),
                      (r'if\s*\(\s*suffix\s*<=\s*1\s*\)\s*\{\s*ocnt\s*=\s*snprintf\s*\(\s*fnm\s*,\s*MAX_LEN\s*,\s*"%s\.init\.cc"\s*,\s*schnm\s*\)', "<schnm>.init.cc on the first pass")]:
        _need(re.search(pat, sch), "SCHEMAprint: " + what)
    iu = _func_body(cw, r"void\s+initUnityFiles\s*\(\s*const\s+char\s*\*\s*schName\s*,\s*FILES\s*\*\s*files\s*\)\s*\{")
    _need('name.append( "_unity_" )' in iu and '"entities.cc"' in iu and '"types.cc"' in iu and iu.count('name.append( "h" )') == 2,
          "initUnityFiles: <sch>_unity_{entities,types}.{cc,h}")
    mp = _strip_comments(_read(repo, "src/exp2cxx/multpass.c"))
    pss = _func_body(mp, r"void\s+print_schemas_separate\s*\(")
    _need(re.search(r"suffix\s*=\s*\+\+\*\(\s*int\s*\*\s*\)\s*schema->clientData\s*;\s*SCHEMAprint\s*\(\s*schema\s*,\s*files\s*,\s*complexCol\s*,\s*suffix\s*\)\s*;\s*\}\s*else\s*\{\s*SCHEMAprint\s*\(\s*schema\s*,\s*files\s*,\s*complexCol\s*,\s*0\s*\)", pss),
          "print_schemas_separate: SCHEMAprint with suffix 1,2,.. for a schema printed in several passes, 0 otherwise")

    _need(re.search(r"if\s*\(\s*val1\s*\|\|\s*val2\s*\)\s*\{", pss) and re.search(r"val1\s*=\s*checkTypes\s*\(\s*schema\s*\)\s*;\s*val2\s*=\s*checkEnts\s*\(\s*schema\s*\)", pss),
          "print_schemas_separate: SCHEMAprint only when checkTypes or checkEnts found something to process (a schema without types and entities is never printed)")
    m = re.search(r"#define\s+MAX_IDENT_LEN\s+\(\s*MAX_LEN\s*-\s*(\d+)\s*\)", cw)
    _need(m, "classes_wrapper.cc: #define MAX_IDENT_LEN ( MAX_LEN - <n> )")
    ident_margin = int(m.group(1))
    pfb = _blank_strings(pf)
    g, h = pfb.find("check_identifier_lengths( express )"), pfb.find("print_file_header(")
    _need(0 <= g < h and _enclosing(pfb, g) == [], "print_file: check_identifier_lengths( express ) is called unconditionally before any file is created")
    gate = _func_body(cw, r"static\s+int\s+identifier_too_long\s*\(")
    _need(re.search(r"if\s*\(\s*len\s*<=\s*MAX_IDENT_LEN\s*\)\s*\{\s*return\s+0\s*;", gate), "identifier_too_long: len <= MAX_IDENT_LEN is accepted")
    chk = _func_body(cw, r"static\s+void\s+check_identifier_lengths\s*\(")
    _need(re.search(r"if\s*\(\s*scope_names_too_long\s*\(\s*express\s*,\s*0\s*\)\s*\)\s*\{\s*exit\s*\(", chk), "check_identifier_lengths exits when a name is too long")
    all_k = set(kinds)
    L = []
    L.append("/- GENERATED by tools/extract.d/scanner.py from the stepcode working tree — do not edit. -/")
    L.append("namespace StepModel.Generated.Scanner")
    L.append("")
    L.append("/-- `enum type_enum` of include/express/type.h (kind of a resolved type body). -/")
    L.append("inductive TypeKind where")
    for k in kinds:
        L.append(f"  | {k}")
    L.append("  deriving DecidableEq, Repr, Inhabited")
    L.append("")
    L.append("def allKinds : List TypeKind := " + _kinds(kinds, all_k, "type_enum"))
    L.append("def kindName : TypeKind → String")
    for k in kinds:
        L.append(f'  | .{k} => "{k}"')
    L.append("")
    L.append("/-- cases of the switch in schemaScanner.cc `notGenerated` that return true -/")
    L.append("def notGeneratedCases : List TypeKind := " + _kinds(ng_cases, all_k, "notGenerated"))
    L.append("/-- kinds K with `TYPEis_K(t) && TYPEget_head(t)` → notGenerated -/")
    L.append("def notGeneratedRenamed : List TypeKind := " + _kinds(ng_renamed, all_k, "notGenerated renamed"))
    L.append("/-- printSchemaFilenames: `TYPEis_K(t) && TYPEget_head(t)` → skipped before notGenerated -/")
    L.append("def scannerSkipRenamed : List TypeKind := " + _kinds(ps_skip, all_k, "printSchemaFilenames"))
    L.append(f"def numColumns : Nat := {ncol}")
    L.append(f"def colWidth : Nat := {colw}")
    L.append(f'def tab : String := "{tab}"')
    L.append("")
    L.append("/-- TYPEget_RefTypeVarNm returns 0 for a head-less type of these kinds (first `return 0` case group) -/")
    L.append("def refTypeNone : List TypeKind := " + _kinds(ref_none, all_k, "TYPEget_RefTypeVarNm"))
    L.append("/-- TYPEprint_descriptions: renamed types of this kind return early (typedefs only) -/")
    L.append(f"def descrRenamedReturn : TypeKind := .{pd_renamed}")
    L.append("/-- TYPEprint_descriptions: `!RefTypeVarNm && TYPEis_K` → TYPEPrint -/")
    L.append(f"def descrPrintKind : TypeKind := .{pd_print}")
    L.append("/-- SCOPEPrint loop 1 skips renamed types of this kind, and leaves this kind unPROCESSED -/")
    L.append(f"def loop1ExcludeRenamed : TypeKind := .{l1_excl}")
    L.append(f"def loop1KeepForLater : TypeKind := .{l1_keep}")
    L.append("/-- SCOPEPrint loop 3: kind handed to TYPEselect_print / to TYPEprint_descriptions -/")
    L.append(f"def loop3SelectKind : TypeKind := .{l3_sel}")
    L.append(f"def loop3DescrKind : TypeKind := .{l3_enum}")
    L.append("")
    L.append(f"def typePrefix : String := {type_prefix}")
    L.append(f"def schemaFilePrefix : String := {schema_file_prefix}")
    for (who, buf), (d, ext) in sorted(fmt.items()):
        L.append(f'def {who}{buf.capitalize()}Dir : String := "{d}"')
        L.append(f'def {who}{buf.capitalize()}Ext : String := "{ext}"')
    L.append("/-- files created by print_file_header and print_file (one set per EXPRESS file) -/")
    L.append("def fixedFiles : List String := [" + ", ".join(f'"{x}"' for x in fixed) + "]")
    L.append("")
    L.append("/-- names listed by writeLists() in <short>_misc_hdrs / <short>_misc_impls / the two unity sets -/")
    L.append(f"def miscHdrs (schemaUpper : String) : List String := {misc_hdrs}")
    L.append(f"def miscImpls (schemaUpper : String) : List String := {misc_impls}")
    L.append(f'def unityEntityImpl (schemaUpper : String) : String := "{ue.group(1)}" ++ schemaUpper ++ "{ue.group(2)}"')
    L.append(f'def unityTypeImpl (schemaUpper : String) : String := "{ut.group(1)}" ++ schemaUpper ++ "{ut.group(2)}"')
    L.append(f"def maxLen : Nat := {max_len}")
    L.append("/-- print_file refuses (exit 1, before any file is created) inputs with an identifier longer than this -/")
    L.append(f"def maxIdentLen : Nat := maxLen - {ident_margin}")
    L.append("/-- makeShortName: in a file with several schemas every schema gets `sdai_<schema name>` (fix C17-3) -/")
    L.append(f"def shortNamePerSchema : Bool := {'true' if per_schema else 'false'}")
    L.append("/-- printSchemaFilenames: a schema whose dictionary holds no type and no entity gets no CMakeLists.txt and no stdout line (fix C17-4) -/")
    L.append(f"def skipsCodelessSchemas : Bool := {'true' if skips else 'false'}")
    L.append("")
    L.append("/-- body of writeLists(): the text streamed into CMakeLists.txt, statement by statement -/")
    L.append("def renderCMakeLists (schemaName shortName schemaUpper inputFile eh ei th ti : String) (ecount tcount : Nat) : String :=")
    L.append("    " + render)
    L.append("")
    L.append("end StepModel.Generated.Scanner")
    return {"ScannerGen.lean": "\n".join(L) + "\n"}


if __name__ == "__main__":
    import sys
    print(extract(sys.argv[1] if len(sys.argv) > 1 else "/repo")["ScannerGen.lean"])

"""Arithmetic of the Python aggregates -> Generated/PyAggGen.lean

Parsed with Python's own `ast` from src/exp2python/python/stepcode/AggregationDataTypes.py and translated to Lean
functions over the two declared bounds, so that the C19 theorems are re-checked against what the file says now:

  arrayAlloc b1 b2   number of slots ARRAY.__init__ preallocates        (`list_size = <expr>`)
  arraySize  b1 b2   what ARRAY.get_size reports                         (`return INTEGER(<expr>)`)
  bagFullAt  b1 b2   the size at which BAG.add refuses                   (`if len(self._container) == <expr>:`)
  setFullAt  b1 b2   the size at which SET.add refuses an absent value   (same form)
  listLoIndex / bagLoIndex / setLoIndex   what get_loindex reports       (`return INTEGER(<int>)`)

  elementBaseCmp     how check_type (TypeChecker.py) compares the base type of an aggregate element with the base type of the
                     expected aggregate type: `identity` (`a.get_type() == b.get_type()`: classes by equality, aggregate
                     objects by identity), `structural` (a helper that recurses through get_type() and compares the
                     aggregate class at every level), `structuralNoKind` (recursion without comparing the class)

  simpleSubclassPairs  the subclass relation among the classes of the simple types (SimpleDataTypes.py, by ast)
  membershipDefined  all four containers define __contains__ as `return value is not None and value in self._container`
  builtinMethod      which container method each EXPRESS built-in function of Builtin.py (SIZEOF HIINDEX LOINDEX HIBOUND LOBOUND
                     VALUE_UNIQUE) returns, after its `isinstance(V, Aggregate)` guard

  *ChecksTypeFirst   statement order in the four mutators (ARRAY.__setitem__, LIST.__setitem__, BAG.add, SET.add): on every path
                     `check_type(value, …)` runs before the first membership test on `value` (`value in …`) and before
                     `value` is stored (python equality crosses EXPRESS types, so a membership shortcut taken first lets a
                     wrong-typed value through)

  elementBoundsChecked   check_type also compares the bounds of an element aggregate with the declared ones (helper
                     `bounds_conform`, called by check_type and by same_base_type); the helper is *executed* on a table of
                     kinds and bounds and must give the EXPRESS rule (ARRAY identical, LIST/BAG/SET within) on all of them

Supported expression forms: integer literals, bound_1/bound_2 (local or self._bound_N), + - *, unary -, parentheses.
Anything else raises = broken tie.
"""
import ast, os

REL = "src/exp2python/python/stepcode/AggregationDataTypes.py"


def _expr(e):
    if isinstance(e, ast.Constant) and isinstance(e.value, int) and not isinstance(e.value, bool):
        return f"({e.value} : Int)"
    if isinstance(e, ast.Name) and e.id in ("bound_1", "bound_2"):
        return "b1" if e.id == "bound_1" else "b2"
    if isinstance(e, ast.Attribute) and isinstance(e.value, ast.Name) and e.value.id == "self" and e.attr in ("_bound_1", "_bound_2"):
        return "b1" if e.attr == "_bound_1" else "b2"
    if isinstance(e, ast.BinOp) and isinstance(e.op, (ast.Add, ast.Sub, ast.Mult)):
        op = {ast.Add: "+", ast.Sub: "-", ast.Mult: "*"}[type(e.op)]
        return f"({_expr(e.left)} {op} {_expr(e.right)})"
    if isinstance(e, ast.UnaryOp) and isinstance(e.op, ast.USub):
        return f"(-{_expr(e.operand)})"
    raise ValueError(f"unsupported expression {ast.dump(e)}")


def _method(cls, name):
    for n in cls.body:
        if isinstance(n, ast.FunctionDef) and n.name == name:
            return n
    raise ValueError(f"{cls.name}.{name} not found")


def _is_len_container(e):
    return (isinstance(e, ast.Call) and isinstance(e.func, ast.Name) and e.func.id == "len" and len(e.args) == 1
            and isinstance(e.args[0], ast.Attribute) and e.args[0].attr == "_container")


def _full_at(cls):
    """the <expr> of `len(self._container) == <expr>` (or `>=`) guarding the refusal in add()"""
    found = []
    for n in ast.walk(_method(cls, "add")):
        if isinstance(n, ast.Compare) and len(n.ops) == 1 and _is_len_container(n.left):
            if not isinstance(n.ops[0], (ast.Eq, ast.GtE)):
                raise ValueError(f"{cls.name}.add: unsupported capacity comparison {ast.dump(n.ops[0])}")
            found.append((type(n.ops[0]).__name__, _expr(n.comparators[0])))
    if len(found) != 1:
        raise ValueError(f"{cls.name}.add: expected exactly one capacity test, found {len(found)}")
    return found[0]


def _int_call_arg(fn, what):
    """the argument of `return INTEGER(<expr>)`"""
    rets = [n for n in ast.walk(fn) if isinstance(n, ast.Return)]
    if len(rets) != 1:
        raise ValueError(f"{what}: expected one return")
    v = rets[0].value
    if isinstance(v, ast.Call) and isinstance(v.func, ast.Name) and v.func.id == "INTEGER" and len(v.args) == 1:
        return v.args[0]
    raise ValueError(f"{what}: return INTEGER(<expr>) not found")


TC = "src/exp2python/python/stepcode/TypeChecker.py"


def _is_get_type_call(e, who):
    return (isinstance(e, ast.Call) and not e.args and isinstance(e.func, ast.Attribute) and e.func.attr == "get_type"
            and isinstance(e.func.value, ast.Name) and e.func.value.id == who)


def _is_agg_test(e, name):
    """isinstance(<name>, BaseType.Aggregate)"""
    return (isinstance(e, ast.Call) and isinstance(e.func, ast.Name) and e.func.id == "isinstance" and len(e.args) == 2
            and isinstance(e.args[0], ast.Name) and e.args[0].id == name and ast.unparse(e.args[1]).endswith("Aggregate"))


def _helper_mode(fn):
    """a recursive comparison helper f(a, b): -> 'structural' | 'structuralNoKind'"""
    a, b = [x.arg for x in fn.args.args]
    body = [n for n in fn.body if not (isinstance(n, ast.Expr) and isinstance(n.value, ast.Constant))]
    if len(body) != 2 or not isinstance(body[0], ast.If) or not isinstance(body[1], ast.Return):
        raise ValueError(f"{fn.name}: unsupported shape")
    t = body[0].test
    if not (isinstance(t, ast.BoolOp) and isinstance(t.op, ast.And) and len(t.values) == 2
            and _is_agg_test(t.values[0], a) and _is_agg_test(t.values[1], b)):
        raise ValueError(f"{fn.name}: unsupported test")
    last = body[1].value
    if not (isinstance(last, ast.Compare) and len(last.ops) == 1 and isinstance(last.ops[0], ast.Eq)
            and ast.unparse(last.left) == a and ast.unparse(last.comparators[0]) == b):
        raise ValueError(f"{fn.name}: final comparison is not `{a} == {b}`")
    if len(body[0].body) != 1 or not isinstance(body[0].body[0], ast.Return) or body[0].orelse:
        raise ValueError(f"{fn.name}: unsupported recursive case")
    r = body[0].body[0].value

    def is_rec(e):
        return (isinstance(e, ast.Call) and isinstance(e.func, ast.Name) and e.func.id == fn.name and len(e.args) == 2
                and _is_get_type_call(e.args[0], a) and _is_get_type_call(e.args[1], b))
    if is_rec(r):
        return "structuralNoKind"
    if isinstance(r, ast.BoolOp) and isinstance(r.op, ast.And) and len(r.values) in (2, 3) and is_rec(r.values[-1]):
        if len(r.values) == 3 and ast.unparse(r.values[1]).replace(" ", "") != f"bounds_conform({a},{b})":
            raise ValueError(f"{fn.name}: unsupported middle conjunct {ast.unparse(r.values[1])}")
        k = ast.unparse(r.values[0]).replace(" ", "")
        if k in (f"type({a})==type({b})", f"type({a})istype({b})", f"type({b})==type({a})", f"type({b})istype({a})"):
            return "structural"
    raise ValueError(f"{fn.name}: unsupported recursive case {ast.unparse(r)}")


def _cmp_mode(repo):
    tree = ast.parse(open(os.path.join(repo, TC)).read())
    fns = {n.name: n for n in tree.body if isinstance(n, ast.FunctionDef)}
    if "check_type" not in fns:
        raise ValueError("check_type not found")
    found = []
    for n in ast.walk(fns["check_type"]):
        # `not (<cmp>)` where <cmp> involves instance.get_type() and expected_type.get_type()
        if isinstance(n, ast.UnaryOp) and isinstance(n.op, ast.Not):
            e = n.operand
            if isinstance(e, ast.Compare) and len(e.ops) == 1 and isinstance(e.ops[0], ast.Eq) \
                    and _is_get_type_call(e.left, "instance") and _is_get_type_call(e.comparators[0], "expected_type"):
                found.append("identity")
            elif isinstance(e, ast.Call) and isinstance(e.func, ast.Name) and len(e.args) == 2 \
                    and _is_get_type_call(e.args[0], "instance") and _is_get_type_call(e.args[1], "expected_type"):
                if e.func.id not in fns:
                    raise ValueError(f"check_type: helper {e.func.id} not found")
                found.append(_helper_mode(fns[e.func.id]))
    if len(found) != 1:
        raise ValueError(f"check_type: expected exactly one base-type comparison of an aggregate element, found {len(found)}")
    return found[0]


BI = "src/exp2python/python/stepcode/Builtin.py"
BUILTINS = [("SIZEOF", "sizeof"), ("HIINDEX", "hiindex"), ("LOINDEX", "loindex"), ("HIBOUND", "hibound"), ("LOBOUND", "lobound"),
            ("VALUE_UNIQUE", "valueUnique")]
METHODS = {"get_size": "size", "get_hiindex": "hiindex", "get_loindex": "loindex", "get_hibound": "hibound",
           "get_lobound": "lobound", "get_value_unique": "unique"}


def _builtins(repo):
    tree = ast.parse(open(os.path.join(repo, BI)).read())
    fns = {n.name: n for n in tree.body if isinstance(n, ast.FunctionDef)}
    out = {}
    for py, lean in BUILTINS:
        if py not in fns:
            raise ValueError(f"Builtin.{py} not found")
        fn = fns[py]
        if len(fn.args.args) != 1:
            raise ValueError(f"Builtin.{py}: expected one parameter")
        v = fn.args.args[0].arg
        body = [n for n in fn.body if not (isinstance(n, ast.Expr) and isinstance(n.value, ast.Constant))]
        if len(body) != 2:
            raise ValueError(f"Builtin.{py}: expected a guard and a return")
        g, r = body
        ok_guard = (isinstance(g, ast.If) and isinstance(g.test, ast.UnaryOp) and isinstance(g.test.op, ast.Not)
                    and ast.unparse(g.test.operand).replace(" ", "") == f"isinstance({v},Aggregate)"
                    and len(g.body) == 1 and isinstance(g.body[0], ast.Raise) and not g.orelse)
        if not ok_guard:
            raise ValueError(f"Builtin.{py}: the `if not isinstance({v}, Aggregate): raise …` guard is not as modelled")
        if not (isinstance(r, ast.Return) and isinstance(r.value, ast.Call) and not r.value.args
                and isinstance(r.value.func, ast.Attribute) and isinstance(r.value.func.value, ast.Name)
                and r.value.func.value.id == v and r.value.func.attr in METHODS):
            raise ValueError(f"Builtin.{py}: `return {v}.<query method>()` not found")
        out[lean] = METHODS[r.value.func.attr]
    return out


def _uses_value(node):
    """a membership test on `value` or a store of `value` inside node (an expression or simple statement)"""
    for n in ast.walk(node):
        if isinstance(n, ast.Compare) and any(isinstance(o, (ast.In, ast.NotIn)) for o in n.ops) \
                and isinstance(n.left, ast.Name) and n.left.id == "value":
            return True
        if isinstance(n, ast.Call) and isinstance(n.func, ast.Attribute) and n.func.attr in ("add", "append", "insert") \
                and any(isinstance(a, ast.Name) and a.id == "value" for a in n.args):
            return True
        if isinstance(n, ast.Assign) and isinstance(n.value, ast.Name) and n.value.id == "value" \
                and any(isinstance(t, ast.Subscript) for t in n.targets):
            return True
    return False


def _is_check(st):
    return (isinstance(st, ast.Expr) and isinstance(st.value, ast.Call) and isinstance(st.value.func, ast.Name)
            and st.value.func.id == "check_type" and st.value.args and isinstance(st.value.args[0], ast.Name)
            and st.value.args[0].id == "value")


def _checks_first(fn):
    """True when on every path check_type(value, …) has run before `value` is tested for membership or stored"""
    ok = [True]

    def walk(stmts, checked):
        for st in stmts:
            if _is_check(st):
                checked = True
            elif isinstance(st, ast.If):
                if not checked and _uses_value(st.test):
                    ok[0] = False
                c1 = walk(st.body, checked)
                c2 = walk(st.orelse, checked) if st.orelse else checked
                checked = c1 and c2
            elif isinstance(st, (ast.For, ast.While, ast.With, ast.Try)):
                raise ValueError(f"{fn.name}: unsupported statement {type(st).__name__}")
            elif isinstance(st, (ast.Return, ast.Raise)):
                if not checked and _uses_value(st):
                    ok[0] = False
                return True          # the path ends here
            else:
                if not checked and _uses_value(st):
                    ok[0] = False
        return checked
    walk(fn.body, False)
    return ok[0]


def _bounds_checked(repo):
    src = open(os.path.join(repo, TC)).read()
    tree = ast.parse(src)
    fns = {n.name: n for n in tree.body if isinstance(n, ast.FunctionDef)}
    calls = [n for n in ast.walk(fns["check_type"]) if isinstance(n, ast.Call) and isinstance(n.func, ast.Name) and n.func.id == "bounds_conform"]
    if "bounds_conform" not in fns:
        if calls:
            raise ValueError("check_type calls bounds_conform, which is not defined")
        return False
    if len(calls) != 1 or [ast.unparse(a) for a in calls[0].args] != ["instance", "expected_type"]:
        raise ValueError("check_type: expected exactly one bounds_conform(instance, expected_type)")
    if "same_base_type" in fns and not any(isinstance(n, ast.Call) and isinstance(n.func, ast.Name) and n.func.id == "bounds_conform"
                                           for n in ast.walk(fns["same_base_type"])):
        raise ValueError("same_base_type does not compare the bounds of the inner levels")
    ns = {}
    exec(compile(ast.Module(body=[fns["bounds_conform"]], type_ignores=[]), "bounds_conform", "exec"), ns)
    f = ns["bounds_conform"]

    def mock(kind, lo, hi):
        return type(kind, (), {"bound_1": lambda self: lo, "bound_2": lambda self: hi})()
    B = [(0, 2), (1, 2), (0, 3), (1, 5), (0, None), (2, None), (0, 0)]
    for kind in ("ARRAY", "LIST", "BAG", "SET"):
        for (lo, hi) in B:
            for (lo2, hi2) in B:
                if kind == "ARRAY":
                    want = (lo, hi) == (lo2, hi2)
                else:
                    want = lo >= lo2 and (hi2 is None or (hi is not None and hi <= hi2))
                got = bool(f(mock(kind, lo, hi), mock(kind, lo2, hi2)))
                if got != want:
                    raise ValueError(f"bounds_conform({kind}[{lo}:{hi}], {kind}[{lo2}:{hi2}]) = {got}, the EXPRESS rule gives {want}")
    return True


SIMPLE_TAGS = {"INTEGER": 0, "STRING": 1, "REAL": 2, "BOOLEAN": 3, "LOGICAL": 4, "NUMBER": 5, "BINARY": 8}


def _simple_hierarchy(repo):
    """the subclass relation among the classes of the simple types in SimpleDataTypes.py (transitive, without the reflexive
    pairs), as pairs of type tags (sub, super): `check_type` is `isinstance`, so this relation is what decides which value
    types a simple base type accepts.  BOOLEAN must be the alias `BOOLEAN = bool`."""
    rel = os.path.join("src", "exp2python", "python", "stepcode", "SimpleDataTypes.py")
    tree = ast.parse(open(os.path.join(repo, rel)).read())
    bases, alias = {}, {}
    for n in tree.body:
        if isinstance(n, ast.ClassDef):
            bases[n.name] = [b.id for b in n.bases if isinstance(b, ast.Name)]
        elif isinstance(n, ast.Assign) and len(n.targets) == 1 and isinstance(n.targets[0], ast.Name) and isinstance(n.value, ast.Name):
            alias[n.targets[0].id] = n.value.id
    for k in SIMPLE_TAGS:
        if k == "BOOLEAN":
            if alias.get("BOOLEAN") != "bool":
                raise ValueError("SimpleDataTypes.py: BOOLEAN is no longer the alias `BOOLEAN = bool`")
        elif k not in bases:
            raise ValueError(f"SimpleDataTypes.py: class {k} not found")

    def supers(c, seen=()):
        out = set()
        for b in bases.get(alias.get(c, c), []):
            b = alias.get(b, b)
            if b not in seen:
                out.add(b); out |= supers(b, seen + (b,))
        return out
    # python's bool is a subclass of int, not of INTEGER / LOGICAL: nothing to add for BOOLEAN
    pairs = sorted((SIMPLE_TAGS[c], SIMPLE_TAGS[b]) for c in SIMPLE_TAGS if c != "BOOLEAN" for b in supers(c) if b in SIMPLE_TAGS)
    return pairs


def extract(repo):
    hier = _simple_hierarchy(repo)
    mode = _cmp_mode(repo)
    bchk = _bounds_checked(repo)
    bi = _builtins(repo)
    src = open(os.path.join(repo, REL)).read()
    tree = ast.parse(src)
    cls = {n.name: n for n in tree.body if isinstance(n, ast.ClassDef)}
    for k in ("ARRAY", "LIST", "BAG", "SET"):
        if k not in cls:
            raise ValueError(f"class {k} not found")
    # ARRAY.__init__: list_size = <expr>
    alloc = None
    for n in ast.walk(_method(cls["ARRAY"], "__init__")):
        if isinstance(n, ast.Assign) and len(n.targets) == 1 and isinstance(n.targets[0], ast.Name) and n.targets[0].id == "list_size":
            alloc = _expr(n.value)
    if alloc is None:
        raise ValueError("ARRAY.__init__: list_size = <expr> not found")
    size = _expr(_int_call_arg(_method(cls["ARRAY"], "get_size"), "ARRAY.get_size"))
    bag_cmp, bag_full = _full_at(cls["BAG"])
    set_cmp, set_full = _full_at(cls["SET"])
    first = {k: _checks_first(_method(cls[k], m)) for k, m in (("ARRAY", "__setitem__"), ("LIST", "__setitem__"), ("BAG", "add"), ("SET", "add"))}
    lo = {}
    for k in ("LIST", "BAG", "SET"):
        a = _int_call_arg(_method(cls[k], "get_loindex"), f"{k}.get_loindex")
        lo[k] = _expr(a)
    # `value in container`: every class defines __contains__ as `return value is not None and value in self._container`, or none does
    want = ast.dump(ast.parse("return value is not None and value in self._container", mode="exec").body[0]) if False else None
    want = ast.dump(ast.parse("def f(self, value):\n    return value is not None and value in self._container").body[0].body[0])
    has = []
    for k in ("ARRAY", "LIST", "BAG", "SET"):
        m = [n for n in cls[k].body if isinstance(n, ast.FunctionDef) and n.name == "__contains__"]
        if not m:
            has.append(False); continue
        body = [b for b in m[0].body if not (isinstance(b, ast.Expr) and isinstance(getattr(b, "value", None), ast.Constant))]
        if len(m) != 1 or len(body) != 1 or ast.dump(body[0]) != want or [a.arg for a in m[0].args.args] != ["self", "value"]:
            raise ValueError(f"{k}.__contains__ is not `return value is not None and value in self._container`")
        has.append(True)
    if any(has) and not all(has):
        raise ValueError("__contains__ is defined by some of ARRAY/LIST/BAG/SET only")
    for k in ("ARRAY", "LIST", "BAG", "SET"):
        if any(isinstance(n, ast.FunctionDef) and n.name == "__iter__" for n in cls[k].body):
            raise ValueError(f"{k}.__iter__ is defined: the membership test is not modelled for it")
    out = f"""-- GENERATED by tools/extract.d/pyagg.py from {REL}
namespace StepModel.Generated

/-- the subclass relation among the classes of the simple types (SimpleDataTypes.py; tags INTEGER 0, STRING 1, REAL 2,
BOOLEAN 3, LOGICAL 4, NUMBER 5, BINARY 8), transitive, as pairs (subclass, class): what `isinstance` adds to "the value's own class" -/
def simpleSubclassPairs : List (Nat × Nat) := [{", ".join("(%d, %d)" % p for p in hier)}]
/-- ARRAY, LIST, BAG and SET define `__contains__` as `return value is not None and value in self._container` (EXPRESS `IN`);
`false`: none does (python falls back to `__getitem__` from 0 — LIST answers False for everything — or raises TypeError) -/
def membershipDefined : Bool := {"true" if all(has) else "false"}

/-- `ARRAY.__init__`: `list_size = ...`, the number of preallocated slots -/
def arrayAlloc (b1 b2 : Int) : Int := {alloc}
/-- `ARRAY.get_size` -/
def arraySize (b1 b2 : Int) : Int := {size}
/-- `BAG.add` refuses when `len(self._container)` reaches this value -/
def bagFullAt (b1 b2 : Int) : Int := {bag_full}
/-- the comparison `BAG.add` uses against `bagFullAt` (`true` = `>=`, `false` = `==`) -/
def bagFullGe : Bool := {"true" if bag_cmp == "GtE" else "false"}
/-- `SET.add` refuses an absent value when `len(self._container)` reaches this value -/
def setFullAt (b1 b2 : Int) : Int := {set_full}
def setFullGe : Bool := {"true" if set_cmp == "GtE" else "false"}
/-- `LIST.get_loindex`, `BAG.get_loindex`, `SET.get_loindex` -/
def listLoIndex : Int := {lo["LIST"]}
def bagLoIndex : Int := {lo["BAG"]}
def setLoIndex : Int := {lo["SET"]}

/-- statement order of the mutators: on every path `check_type(value, …)` runs before `value` is tested for membership or stored -/
def arraySetChecksTypeFirst : Bool := {"true" if first["ARRAY"] else "false"}
def listSetChecksTypeFirst : Bool := {"true" if first["LIST"] else "false"}
def bagAddChecksTypeFirst : Bool := {"true" if first["BAG"] else "false"}
def setAddChecksTypeFirst : Bool := {"true" if first["SET"] else "false"}

/-- how `check_type` compares the base type of an aggregate element with the expected base type ({TC}) -/
inductive BaseCmp | identity | structural | structuralNoKind
  deriving DecidableEq, Repr
def elementBaseCmp : BaseCmp := .{mode}
/-- `check_type` also compares the bounds of an element aggregate with the declared ones, at every level, by the EXPRESS
rule (`bounds_conform`, executed by the extractor on a table of kinds and bounds) -/
def elementBoundsChecked : Bool := {"true" if bchk else "false"}

/-- the query methods of the containers -/
inductive Query | size | hiindex | loindex | hibound | lobound | unique
  deriving DecidableEq, Repr
/-- the EXPRESS built-in functions over aggregates defined in {BI} -/
inductive BFn | sizeof | hiindex | loindex | hibound | lobound | valueUnique
  deriving DecidableEq, Repr
/-- `F(V)`: `if not isinstance(V, Aggregate): raise TypeError` and then `return V.<method>()` -/
def builtinMethod : BFn → Query
{chr(10).join(f"  | .{k} => .{v}" for k, v in bi.items())}

end StepModel.Generated
"""
    # b1/b2 may be unused in a generated body; Lean accepts unused binders in defs
    return {"PyAggGen.lean": out}

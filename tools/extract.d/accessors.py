"""Emission templates of the generated accessor / mutator bodies -> Generated/AccessorGen.lean

src/exp2cxx/classes_attribute.c prints, per attribute kind, a non-const getter, a const getter and a setter.  The C++ text
of each body (the fprintf format strings, logging code under `print_logging` removed) is translated into a list of
abstract statements:
    ensure       if( !_m ) { _m = new T; }            (also: if( !ias.a ) { ias.a = new EntityAggregate; setInvAttr( … ); })
    retMember    return [cast] _m;   return ias.a;   return (T) ias.i;   return getInvAttr( … ).a;
    retAddr      return [cast] &_m;
    assign       _m = x;             ias.a = x; / ias.i = x;  …  setInvAttr( … );
    put          _m.put( x );
    shallowCopy  _m->ShallowCopy( * x );  /  _m.ShallowCopy( * x );
Anything else in a body = the template changed = broken tie (raise).
"""
import os, re


def _strip_comments(s):
    s = re.sub(r"/\*.*?\*/", "", s, flags=re.S)
    return re.sub(r"//[^\n]*", "", s)


def _block(src, start):
    """text of the {...} block whose '{' is the first one at/after start (string literals skipped)"""
    i = src.index("{", start)
    depth, j = 0, i
    while j < len(src):
        c = src[j]
        if c in "\"'":
            q = c; j += 1
            while src[j] != q:
                j += 2 if src[j] == "\\" else 1
            j += 1; continue
        if c == "{":
            depth += 1
        elif c == "}":
            depth -= 1
            if depth == 0:
                return src[i:j + 1], j + 1
        j += 1
    raise ValueError("unbalanced braces")


def _func(src, name):
    m = re.search(r"\bvoid\s+" + name + r"\s*\([^)]*\)\s*\{", src)
    if not m:
        raise ValueError(f"function {name} not found")
    return _block(src, m.start())[0]


def _drop_logging(body):
    out, i = "", 0
    while True:
        m = re.search(r"if\s*\(\s*print_logging\s*\)\s*\{", body[i:])
        if not m:
            return out + body[i:]
        out += body[i:i + m.start()]
        _, end = _block(body, i + m.start())
        i = end


def _emitted(seg):
    """concatenated text of the string literals of every fprintf( file, … ) in a source segment"""
    txt = ""
    for m in re.finditer(r"fprintf\s*\(\s*file\s*,((?:\s*\"(?:[^\"\\]|\\.)*\")+)", seg):
        for lit in re.findall(r"\"((?:[^\"\\]|\\.)*)\"", m.group(1)):
            txt += lit.replace("\\n", "\n").replace('\\"', '"')
    return txt


PATS = [
    ("ensure", r"if\(\s*!_%s\s*\)\s*\{\s*_%s = new %s;\s*\}"),
    ("ensure", r"if\(\s*!ias\.a\s*\)\s*\{\s*ias\.a = new EntityAggregate;\s*setInvAttr\(\s*%s, ias\s*\);\s*\}"),
    ("load", r"iAstruct ias = getInvAttr\(\s*%s\s*\);"),
    ("decl", r"iAstruct ias;"),
    ("retAddr", r"return\s*(?:\([^;&]*\))?\s*&\s*_%s;"),
    ("retMember", r"return getInvAttr\(\s*%s\s*\)\.a;"),
    ("retMember", r"return\s*(?:\([^;]*?\))?\s*ias\.[ai];"),
    ("retMember", r"return\s*(?:\([^;]*?\))?\s*%s_%s;"),
    ("retMember", r"return\s*(?:\([^;]*?\))?\s*_%s;"),
    ("put", r"_%s\.put\s*\(\s*x\s*\);"),
    ("shallowCopy", r"_%s%sShallowCopy\(\s*\*\s*x\s*\);"),
    ("assign", r"ias\.[ai] = x;\s*setInvAttr\(\s*%s, ias\s*\);"),
    ("assign", r"_%s = x;"),
]


def _tokens(cxx, where):
    s = cxx
    s = re.sub(r"^\s*const\s*\{", "{", s.strip())          # `const {` of a const member function
    s = re.sub(r"/\*.*?\*/", " ", s, flags=re.S)
    s = s.strip()
    if s.startswith("{"):
        s = s[1:]
    s = s.strip()
    if s.endswith("}"):
        s = s[:-1]
    toks, pos = [], 0
    s = s.strip()
    while pos < len(s):
        if s[pos].isspace():
            pos += 1; continue
        for name, pat in PATS:
            m = re.compile(pat).match(s, pos)
            if m:
                if name not in ("load", "decl"):
                    toks.append(name)
                pos = m.end()
                break
        else:
            raise ValueError(f"{where}: unrecognised emitted statement at {s[pos:pos + 60]!r}")
    return toks


def _split_heads(body):
    """source segments of one emission function: [first getter] get_head(..true) [const getter] put_head [setter]"""
    parts = re.split(r"ATTRprint_access_methods_(?:get|put)_head\s*\([^;]*\);", body)
    return parts


def extract(repo):
    src = _strip_comments(open(os.path.join(repo, "src/exp2cxx/classes_attribute.c"), encoding="latin-1").read())
    src = re.sub(r"ATTRprint_access_methods_\w*logging\s*\([^;]*\);", "", src)
    kinds = {}

    def three(name, segs, where):
        segs = [_emitted(_drop_logging(x)) for x in segs]
        segs = [x for x in segs if x.strip()]
        if len(segs) == 3:
            g, c, st = segs
        elif len(segs) == 2:            # only a const getter and a setter
            (c, st), g = segs, segs[0]
        else:
            raise ValueError(f"{where}: expected 2 or 3 emitted bodies, found {len(segs)}")
        kinds[name] = (_tokens(g, where + " getter"), _tokens(c, where + " const getter"), _tokens(st, where + " setter"))
    for fn, nm in (("ATTRprint_access_methods_entity", "entity"), ("ATTRprint_access_methods_str_bin", "strBin"),
                   ("ATTRprint_access_methods_enum", "enumeration"), ("ATTRprint_access_methods_log_bool", "logBool"),
                   ("AGGRprint_access_methods", "aggregate")):
        three(nm, _split_heads(_func(src, fn)), fn)
    main = _func(src, "ATTRprint_access_methods")
    for cond, nm in ((r"classType\s*==\s*select_", "select"), (r"classType\s*==\s*integer_", "integer"),
                     (r"\(\s*classType\s*==\s*number_\s*\)\s*\|\|\s*\(\s*classType\s*==\s*real_\s*\)", "real")):
        m = re.search(r"if\s*\(\s*" + cond + r"\s*\)\s*\{", main)
        if not m:
            raise ValueError(f"ATTRprint_access_methods: branch for {nm} not found")
        blk, _ = _block(main, m.start())
        three(nm, _split_heads(blk[1:-1]), f"ATTRprint_access_methods/{nm}")
    inv = _func(src, "INVprint_access_methods")
    m = re.search(r"if\s*\(\s*isAggregate\s*\(\s*a\s*\)\s*\)\s*\{", inv)
    blk, end = _block(inv, m.start())
    three("inverseAggr", [x for x in _split_heads(blk[1:-1])], "INVprint_access_methods/aggregate")
    m2 = re.search(r"else\s*\{", inv[end:])
    blk2, _ = _block(inv, end + m2.start())
    three("inverseEntity", [x for x in _split_heads(blk2[1:-1])], "INVprint_access_methods/entity")
    order = ["integer", "real", "strBin", "logBool", "enumeration", "select", "entity", "aggregate", "inverseAggr", "inverseEntity"]

    def lst(t):
        return "[" + ", ".join("." + x for x in t) + "]"
    text = "/- generated by tools/extract.d/accessors.py from src/exp2cxx/classes_attribute.c — do not edit -/\n" \
           "namespace StepModel.Generated\n\n" \
           "inductive AccStmt | ensure | retMember | retAddr | assign | put | shallowCopy\n  deriving DecidableEq, Repr\n\n" \
           "inductive AccKind | " + " | ".join(order) + "\n  deriving DecidableEq, Repr\n\n"
    for i, fname in enumerate(("accGetter", "accConstGetter", "accSetter")):
        text += f"def {fname} : AccKind → List AccStmt\n"
        for k in order:
            text += f"  | .{k} => {lst(kinds[k][i])}\n"
        text += "\n"
    text += "end StepModel.Generated\n"
    return {"AccessorGen.lean": text}

"""every diagnostic call site of the EXPRESS front end -> Generated/ReportSites.lean         (used by C20)

Scans src/express/*.c, expparse.y and expscan.l for ERRORreport( CODE, … ), ERRORreport_with_symbol( CODE, sym, … ) and
ERRORreport_with_line( CODE, line, … ), splits the argument list and classifies every argument expression as string / char /
int / real from its C shape (member names, literals, known helper functions).  An argument whose shape is not recognised
raises (= broken tie), so that a new call site has to be looked at.  The theorem C20_report_sites_fit then checks, over the
regenerated LibErrors table, that at every site the number and kinds of arguments are what the code's format consumes.
"""
import glob, os, re

STR, CHR, INT, REAL = 0, 1, 2, 3

STR_PATTERNS = [
    r'^"(?:[^"\\]|\\.)*"$', r'^"(?:[^"\\]|\\.)*"(?: \w+\( \w+ \))? "(?:[^"\\]|\\.)*"$', r"(->|\.)name$", r"(->|\.)filename$", r"^\w*name$", r"^yytext$", r"^CURRENT_SCOPE_NAME$",
    r"^CURRENT_SCOPE_TYPE_PRINTABLE$", r"^OBJget_type\(.*\)$", r"^VARget_simple_name\(.*\)$", r"^strerror\(.*\)$", r"^filename$",
    r"^dir->full$", r"^__FILE__$", r"^what$", r'^[\w>.-]+name \? [\w>.-]+name : "(?:[^"\\]|\\.)*"$', r"^\(\s*\w+\s*\?\s*\w+\s*:\s*\w+\s*\)->name$", r"^TYPEget_name\(.*\)$",
]
INT_PATTERNS = [r"(->|\.)line$", r"^__LINE__$", r"^-?\d+$", r"^count$", r"pcount$", r"^LISTget_length\(.*\)$", r"^0x[0-9a-fA-F]+\s*&\s*.*$",
                r"^\w+->line$"]
CHR_PATTERNS = [r"^\*\s*\w+$", r"^yytext\[0\]$"]
REAL_PATTERNS = [r"(->|\.)rVal$"]


def _strip(s):
    s = re.sub(r"/\*.*?\*/", lambda m: re.sub(r"[^\n]", " ", m.group(0)), s, flags=re.S)
    return re.sub(r"//[^\n]*", "", s)


def _split_args(text):
    args, depth, cur, instr = [], 0, "", False
    i = 0
    while i < len(text):
        ch = text[i]
        if instr:
            cur += ch
            if ch == "\\":
                cur += text[i + 1]; i += 1
            elif ch == '"':
                instr = False
        elif ch == '"':
            instr = True; cur += ch
        elif ch in "([":
            depth += 1; cur += ch
        elif ch in ")]":
            depth -= 1; cur += ch
        elif ch == "," and depth == 0:
            args.append(cur.strip()); cur = ""
        else:
            cur += ch
        i += 1
    if cur.strip():
        args.append(cur.strip())
    return args


def _decl_kind(name, before):
    """a plain identifier: the kind its nearest preceding declaration (local variable or parameter) gives it"""
    best = None
    for pat, k in ((r"\b(?:const\s+)?char\s*\*\s*(?:const\s+)?%s\b", STR), (r"\b(?:unsigned\s+|signed\s+)?(?:int|long|short|size_t|bool)\s+%s\b", INT),
                   (r"\b(?:unsigned\s+)?char\s+%s\b", CHR), (r"\b(?:double|float)\s+%s\b", REAL)):
        for m in re.finditer(pat % re.escape(name), before):
            if best is None or m.start() > best[0]:
                best = (m.start(), k)
    return None if best is None else best[1]


def _kind(expr, where, before=""):
    e = re.sub(r"\s+", " ", expr.strip())
    for pats, k in ((STR_PATTERNS, STR), (CHR_PATTERNS, CHR), (REAL_PATTERNS, REAL), (INT_PATTERNS, INT)):
        if any(re.search(p, e) for p in pats):
            return k
    # a (nested) conditional all of whose results are string literals
    if re.fullmatch(r'[()\s\w=!<>?:]*"(?:[^"\\]|\\.)*"(?:[()\s\w=!<>?:]*"(?:[^"\\]|\\.)*")*[()\s]*', e) and "?" in e and \
       all(re.fullmatch(r'\s*"(?:[^"\\]|\\.)*"\s*', t) or '"' not in t for t in re.split(r"[?:()]", e)):
        return STR
    if re.fullmatch(r"\w+", e):
        k = _decl_kind(e, before)
        if k is not None:
            return k
    raise ValueError(f"{where}: cannot classify diagnostic argument `{e}`")


def sites(repo):
    out = []
    files = sorted(glob.glob(os.path.join(repo, "src/express/*.c"))) + [os.path.join(repo, "src/express/expparse.y"),
                                                                         os.path.join(repo, "src/express/expscan.l")]
    for path in files:
        base = os.path.basename(path)
        text = _strip(open(path).read())
        if base == "expparse.y":
            text = re.sub(r"#define\s+ERROR\(code\)[^\n]*", "", text)       # unused convenience macro
        for m in re.finditer(r"\b(ERRORreport_with_symbol|ERRORreport_with_line|ERRORreport)\s*\(", text):
            # skip the definitions / prototypes in error.c
            j, depth = m.end(), 1
            while depth:
                c = text[j]
                if c == '"':
                    j += 1
                    while text[j] != '"':
                        j += 2 if text[j] == "\\" else 1
                elif c == "(":
                    depth += 1
                elif c == ")":
                    depth -= 1
                j += 1
            inner = text[m.end():j - 1]
            args = _split_args(inner)
            if not args or not re.match(r"^[A-Z][A-Z0-9_]+$", args[0]):
                continue                         # a definition (`enum ErrorCode errnum, …`) or the forwarding calls inside error.c
            line = text.count("\n", 0, m.start()) + 1
            skip = {"ERRORreport": 1, "ERRORreport_with_symbol": 2, "ERRORreport_with_line": 2}[m.group(1)]
            where = f"{base}:{line}"
            out.append((where, args[0], [_kind(a, where, text[:m.start()]) for a in args[skip:]],
                        [re.sub(r"\s+", "", a) for a in args[skip - 1:]] if skip == 2 else [""] + [re.sub(r"\s+", "", a) for a in args[skip:]]))
    if len(out) < 60:
        raise ValueError(f"only {len(out)} diagnostic call sites found")
    return out


def extract(repo):
    ss = sites(repo)
    L = ["-- GENERATED by tools/extract.d/reportsites.py from src/express/*.c, expparse.y, expscan.l.  Do not edit.",
         "namespace StepModel.Generated.ReportSites", "",
         "/-- (source position, ErrorCode name, kinds of the arguments passed: 0 = string, 1 = char, 2 = int, 3 = real) -/",
         "def sites : List (String × String × List Nat) := ["]
    L.append(",\n".join(f'  ("{w}", "{c}", [{", ".join(str(k) for k in ks)}])' for w, c, ks, _ in ss) + "]")
    esc = lambda t: t.replace("\\", "\\\\").replace('"', '\\"')
    two = [(w.split(":")[0], c, ex) for w, c, ks, ex in ss if len(ks) >= 2 and len(set(ks)) < len(ks)]
    L += ["", "/-- the sites that pass two or more arguments of one kind — where `sites` cannot tell a swap: (file, ErrorCode name, the position",
          "    expression (symbol / line; empty for `ERRORreport`) followed by the argument expressions as written, white space removed) -/",
          "def argExprs : List (String × String × List String) := ["]
    L.append(",\n".join(f'  ("{w}", "{c}", [{", ".join(chr(34) + esc(e) + chr(34) for e in ex)}])' for w, c, ex in two) + "]")
    L += ["", "end StepModel.Generated.ReportSites", ""]
    return {"ReportSites.lean": "\n".join(L)}

"""exp2python's Python-keyword escaping list and import preamble -> Generated/GenPyGen.lean

  pythonHardKeywords   Python's own keyword.kwlist (lower-case members), from the interpreter that runs the check
  expressReserved  the reserved words of stepcode's EXPRESS scanner (keywords[] of src/express/lexact.c)
  pythonKeywords   the `keyword_list[]` of is_python_keyword() (src/exp2python/src/classes_python.c)
  escapesStems     is_python_keyword compares the word without its trailing underscores (strncmp over the stem) instead of strcmp
  xorSkipsParentheses / bodyEscapesKeywords   the expression printer for derived attributes and WHERE rules (ATTRIBUTE_INITIALIZER*__out,
                   WHEREPrint): operator texts, parenthesisation and literal cases pinned; the two flags say whether XOR hands previous_op
                   down and whether identifiers / rule labels are keyword-escaped
  paramsEscaped / localsInitialised   FUNCPrint: keyword-escaped parameter names in the def line; one assignment per LOCAL variable before the body
  skipIsContinue   STATEMENTPrint writes `continue` for SKIP; the assignment / RETURN / ESCAPE / IF / REPEAT cases and the identifier
                   and XOR cases of EXPRESSION__out are pinned as modelled in GenPyStmt.lean
  repeatBoundInclusive   LOOPpyout writes range(a, (b) + (1 if (s) > 0 else -1), s) for REPEAT i := a TO b BY s (else range(a, b, s))
  runtimePackage   the package the emitted module imports its runtime from (classes_wrapper_python.cc preamble)
  sortsBases       LIBdescribe_entity sorts the supertype list with LISTsort(…, cmp_python_mro) before emitting the bases
  ancestorsLast    LIBdescribe_entity emits the bases through python_base_order( supertypes )
  enumRenameInSchemaOk   the last case of ENUMcanBeProcessed (multpass_python.c): `inSchema( a, s ) || a->search_id == PROCESSED`
  typeRescan       SCOPEPrint (classes_wrapper_python.cc) repeats its scan over the defined types until none is skipped
  (pinned, no constant) SCOPE_dfs / SCOPEget_entities_superclass_order (src/express/scope.c) are the marked post-order traversal
                   the entity-order model describes, and SCOPEPrint takes the entities from it
  inheritedOnce    LIBdescribe_entity takes the inherited constructor parameters from ENTITYget_inherited_attributes_once
                   (each inherited attribute once) instead of ENTITYget_all_attributes of every supertype (once per path)
"""
import os, re


def extract(repo):
    c = open(os.path.join(repo, "src/exp2python/src/classes_python.c")).read()
    m = re.search(r"is_python_keyword\s*\([^)]*\)\s*\{.*?keyword_list\s*\[\s*\]\s*=\s*\{(.*?)\}\s*;", c, re.S)
    if not m:
        raise ValueError("is_python_keyword: keyword_list[] initialiser not found")
    items = re.findall(r'"([^"]*)"', m.group(1))
    if not items or "NULL" not in m.group(1):
        raise ValueError("keyword_list[]: no string items / no NULL terminator")
    i = c.find("bool is_python_keyword(")
    kb = re.sub(r"\s+", " ", re.sub(r"/\*.*?\*/", "", c[i:c.find("\n}", i)], flags=re.S))
    loop = kb[kb.index("NULL};") + 6:].strip()
    if re.fullmatch(r"bool python_keyword = false; for\( i = 0; keyword_list\[i\] != NULL; i\+\+ \) \{ if\( strcmp\( word, keyword_list\[i\] \) == 0 \) "
                    r"\{ python_keyword = true; \} \} return python_keyword;", loop):
        stems = False
    elif re.fullmatch(r"bool python_keyword = false; size_t stem = strlen\( word \); while\( stem > 0 && word\[stem - 1\] == '_' \) \{ stem--; \} "
                      r"for\( i = 0; keyword_list\[i\] != NULL; i\+\+ \) \{ if\( strlen\( keyword_list\[i\] \) == stem && strncmp\( word, keyword_list\[i\], stem \) == 0 \) "
                      r"\{ python_keyword = true; \} \} return python_keyword;", loop):
        stems = True
    else:
        raise ValueError("is_python_keyword: the comparison loop is neither of the two modelled forms: " + loop[:160])
    w = open(os.path.join(repo, "src/exp2python/src/classes_wrapper_python.cc")).read()
    pk = re.findall(r'"from (\w+)\.SCLBase import \*\\n"', w)
    if len(pk) != 1:
        raise ValueError("import preamble `from <pkg>.SCLBase import *` not found exactly once")
    i = c.find("LIBdescribe_entity( Entity entity, FILE * file ) {")
    j = c.find("\nget_local_attribute_number(", i)
    if i < 0 or j < 0:
        raise ValueError("LIBdescribe_entity body not found")
    body = re.sub(r"/\*.*?\*/", "", c[i:j], flags=re.S)
    sorts = re.search(r"LISTsort\s*\(\s*\w+\s*,\s*cmp_python_mro\s*\)", body) is not None
    if not sorts and "LISTsort" in body:
        raise ValueError("LIBdescribe_entity: LISTsort with an unknown comparison")
    anc_last = re.search(r"=\s*python_base_order\s*\(\s*\w+\s*\)", body) is not None
    if sorts and anc_last:
        raise ValueError("LIBdescribe_entity: both LISTsort(cmp_python_mro) and python_base_order are applied")
    once = re.search(r"=\s*ENTITYget_inherited_attributes_once\s*\(\s*entity\s*\)", body) is not None
    per_path = re.search(r"fprintf\(\s*file,\s*\"inherited%i__%s , \",\s*index_attribute", body) is not None
    if not per_path:
        raise ValueError("LIBdescribe_entity: the `inherited%i__%s` parameter emission was not found")
    if not once and "ENTITYget_all_attributes( e )" not in body:
        raise ValueError("LIBdescribe_entity: neither ENTITYget_inherited_attributes_once nor ENTITYget_all_attributes( e ) is used for inherited parameters")
    mp = open(os.path.join(repo, "src/exp2python/src/multpass_python.c")).read()
    i = mp.find("static int ENUMcanBeProcessed( Type e, Schema s )\n")
    i = mp.find("static int ENUMcanBeProcessed( Type e, Schema s )", i + 10) if mp.count("static int ENUMcanBeProcessed( Type e, Schema s )") > 1 else i
    j = mp.find("\nint sameSchema(", i)
    if i < 0 or j < 0:
        raise ValueError("ENUMcanBeProcessed body not found")
    eb = re.sub(r"/\*.*?\*/", "", mp[i:j], flags=re.S)
    eb = re.sub(r"\s+", " ", eb)
    # the three leading cases must be as modelled
    for pat in (r"if\( !inSchema\( e, s \) \) \{ return \( e->search_id == PROCESSED \); \}",
                r"if\( e->search_id != NOTKNOWN \) \{ return \( e->search_id >= CANPROCESS \); \}",
                r"if\( \( a = TYPEget_ancestor\( e \) \) == NULL \) \{ return TRUE; \}"):
        if not re.search(pat, eb):
            raise ValueError("ENUMcanBeProcessed: a leading case is no longer as modelled: " + pat)
    tail = eb[eb.index("== NULL ) { return TRUE; }") + len("== NULL ) { return TRUE; }"):].strip()
    if re.fullmatch(r"if\( inSchema\( a, s \) \|\| a->search_id == PROCESSED \) \{ return TRUE; \} return FALSE; \}", tail):
        rename_ok = True
    elif re.fullmatch(r"return \( a->search_id == PROCESSED \); \}", tail):
        rename_ok = False
    else:
        raise ValueError("ENUMcanBeProcessed: unsupported final case: " + tail[:120])
    i = w.find("void SCOPEPrint( Scope scope, FILES * files, Schema schema ) {")
    j = w.find("/* fill in the values for the type descriptors */", i)
    if i < 0 or j < 0:
        raise ValueError("SCOPEPrint: the defined-type section was not found")
    sec = re.sub(r"\s+", " ", re.sub(r"//[^\n]*|/\*.*?\*/", "", w[i:j], flags=re.S))
    # (`|| i->superscope != scope`: a renamed type of another schema does not block; no effect on a single schema, where every head is in the scope)
    emit = r"i = TYPEget_head\( t \); if\( \( !i \|\| i->search_id == PROCESSED( \|\| i->superscope != scope)? \) && t->search_id == CANPROCESS \) \{ TYPEprint_descriptions\( t, files, schema \); t->search_id = PROCESSED; \}"
    if not re.search(emit, sec):
        raise ValueError("SCOPEPrint: the guarded emission of a defined type (head absent or PROCESSED) is no longer as modelled")
    if re.search(r"while\( 1 \) \{ skipped = 0; SCOPEdo_types", sec) and re.search(r"else if\( t->search_id == CANPROCESS \) \{ skipped\+\+; \}", sec) \
            and re.search(r"if\( !skipped( \|\| skipped == skipped_before)? \) \{ break; \}", sec):
        rescan = True
    elif "while" not in sec and sec.count("SCOPEdo_types") == 1:
        rescan = False
    else:
        raise ValueError("SCOPEPrint: unsupported control structure around the defined types")
    sc = open(os.path.join(repo, "src/express/scope.c")).read()
    i = sc.find("void SCOPE_dfs( Dictionary symbols, Entity root, Linked_List result ) {")
    j = sc.find("Linked_List SCOPEget_entities_superclass_order( Scope scope ) {", i)
    k = sc.find("\n}", j)
    if i < 0 or j < 0 or k < 0:
        raise ValueError("SCOPE_dfs / SCOPEget_entities_superclass_order not found in src/express/scope.c")
    norm = lambda t: re.sub(r"\s+", " ", re.sub(r"//[^\n]*|/\*.*?\*/", "", t, flags=re.S)).strip()
    dfs, sup = norm(sc[i:j]), norm(sc[j:k])
    # mark first, then the supertypes defined in the scope, then append: post-order with marks (as modelled in GenPyEntityOrder.lean)
    want = (r"if\( \( ENTITYget_mark\( root \) != ENTITY_MARK \) \) \{ ENTITYput_mark\( root, ENTITY_MARK \); "
            r"LISTdo\( ENTITYget_supertypes\( root \), super, Entity \) if\( \( ent = \( Entity \)DICTlookup\( symbols, ENTITYget_name\( super \) \) \) != ENTITY_NULL \) \{ "
            r"SCOPE_dfs\( symbols, ent, result \); \} LISTod LISTadd_last\( result, root \); \}")
    if not re.search(want, dfs):
        raise ValueError("SCOPE_dfs is no longer the marked post-order traversal the entity-order model describes")
    if not re.search(r"\+\+ENTITY_MARK; SCOPEdo_entities\( scope, e, de \) SCOPE_dfs\( scope->symbol_table, e, result \); SCOPEod", sup):
        raise ValueError("SCOPEget_entities_superclass_order no longer runs SCOPE_dfs once per entity of the scope under a fresh mark")
    if "list = SCOPEget_entities_superclass_order( scope )" not in w:
        raise ValueError("SCOPEPrint no longer takes the entities from SCOPEget_entities_superclass_order")
    # ---- bodies: ATTRIBUTE_INITIALIZER__out and friends (derived-attribute getters, WHERE rules)
    sq = lambda t: re.sub(r"\s+", " ", re.sub(r"/\*.*?\*/", "", t, flags=re.S))
    i = c.find("\nATTRIBUTE_INITIALIZER__out( Expression e, int paren, int previous_op , FILE * file ) {")
    j = c.find("\nEXPRESSION__out( Expression e,", i)
    if i < 0 or j < 0:
        raise ValueError("ATTRIBUTE_INITIALIZER__out not found")
    ai = sq(c[i:j])
    plain_id = ('case entity_: case identifier_: if( previous_op == OP_DOT || previous_op == OP_GROUP ) { fprintf( file, "%s", e->symbol.name ); } '
                'else { fprintf( file, "self.%s", e->symbol.name ); } break; case attribute_: fprintf( file, "%s", e->symbol.name ); break;')
    esc_id = ('case entity_: case identifier_: if( previous_op == OP_DOT || previous_op == OP_GROUP ) { fprintf( file, "%s%s", e->symbol.name, is_python_keyword( e->symbol.name ) ? "_" : "" ); } '
              'else { fprintf( file, "self.%s%s", e->symbol.name, is_python_keyword( e->symbol.name ) ? "_" : "" ); } break; '
              'case attribute_: fprintf( file, "%s%s", e->symbol.name, is_python_keyword( e->symbol.name ) ? "_" : "" ); break;')
    wp = sq(c[c.find("\nWHEREPrint( Linked_List wheres, int level , FILE * file ) {"):c.find("\nENTITYPrint( Entity entity, FILES * files ) {")])
    plain_lab = 'fprintf( file, "\\tdef %s(self):\\n", w->label->name );'
    esc_lab = 'fprintf( file, "\\tdef %s%s(self):\\n", w->label->name, is_python_keyword( w->label->name ) ? "_" : "" );'
    if plain_id in ai and plain_lab in wp:
        body_esc = False
    elif esc_id in ai and esc_lab in wp:
        body_esc = True
    else:
        raise ValueError("ATTRIBUTE_INITIALIZER__out / WHEREPrint: identifiers and rule labels are written in neither of the two modelled ways")
    for lit in ('case integer_: if( e == LITERAL_INFINITY ) { fprintf( file, " None " ); } else { fprintf( file, "%d", e->u.integer ); } break;',
                'case Ltrue: fprintf( file, "TRUE" ); break; case Lfalse: fprintf( file, "FALSE" ); break;',
                'case self_: fprintf( file, "self" ); break;',
                'case op_: ATTRIBUTE_INITIALIZERop__out( &e->e, paren, previous_op, file ); break;'):
        if lit not in ai:
            raise ValueError("ATTRIBUTE_INITIALIZER__out: no longer as modelled: " + lit[:60])
    i = c.find("\nATTRIBUTE_INITIALIZERop__out( struct Op_Subexpression* oe, int paren, Op_Code previous_op, FILE* file ) {")
    j = c.find("/* print expression that has op and operands */", i)
    if i < 0 or j < 0:
        raise ValueError("ATTRIBUTE_INITIALIZERop__out not found")
    ao = sq(c[i:j]).replace("PAD , file", "PAD, file")
    for case, text in (("case OP_AND:", '" and "'), ("case OP_ANDOR: case OP_OR:", '" or "'), ("case OP_CONCAT: case OP_EQUAL:", '" == "'),
                       ("case OP_PLUS:", '" + "'), ("case OP_TIMES:", '" * "'), ("case OP_GREATER_EQUAL:", '" >= "'), ("case OP_GREATER_THAN:", '" > "'),
                       ("case OP_LESS_EQUAL:", '" <= "'), ("case OP_LESS_THAN:", '" < "'), ("case OP_NOT_EQUAL:", '" != "'), ("case OP_MINUS:", '"-"')):
        if f"{case} ATTRIBUTE_INITIALIZERop2_out( oe, {text}, paren, PAD, file ); break;" not in ao:
            raise ValueError(f"ATTRIBUTE_INITIALIZERop__out: `{case}` no longer writes {text} through ATTRIBUTE_INITIALIZERop2_out")
    for case, text in (("case OP_NOT:", '" not "'), ("case OP_NEGATE:", '"-"')):
        if f"{case} ATTRIBUTE_INITIALIZERop1_out( oe, {text}, paren, file ); break;" not in ao:
            raise ValueError(f"ATTRIBUTE_INITIALIZERop__out: `{case}` no longer writes {text} through ATTRIBUTE_INITIALIZERop1_out")
    if 'case OP_DOT: ATTRIBUTE_INITIALIZERop2_out( oe, ".", paren, NOPAD, file ); break;' not in ao:
        raise ValueError("ATTRIBUTE_INITIALIZERop__out: OP_DOT no longer as modelled")
    if 'case OP_XOR: ATTRIBUTE_INITIALIZERop2__out( oe, " != ", paren, PAD, previous_op, file ); break;' in ao:
        xor_skips = True
    elif 'case OP_XOR: ATTRIBUTE_INITIALIZERop2_out( oe, " != ", paren, PAD, file ); break;' in ao:
        xor_skips = False
    else:
        raise ValueError("ATTRIBUTE_INITIALIZERop__out: OP_XOR is written in neither of the two modelled ways")
    if ao.count("ATTRIBUTE_INITIALIZERop2__out(") != (1 if xor_skips else 0):
        raise ValueError("ATTRIBUTE_INITIALIZERop__out: an operator other than XOR hands previous_op down")
    cs = sq(c)
    for need in ("#define ATTRIBUTE_INITIALIZER_out(e,p,f) ATTRIBUTE_INITIALIZER__out(e,p,OP_UNKNOWN,f)",
                 "#define ATTRIBUTE_INITIALIZERop2_out(oe,string,paren,pad,f) \\ ATTRIBUTE_INITIALIZERop2__out(oe,string,paren,pad,OP_UNKNOWN,f)",
                 "#define PAD 1",
                 'ATTRIBUTE_INITIALIZERop2__out( struct Op_Subexpression * eo, char * opcode, int paren, int pad, Op_Code previous_op, FILE * file ) { '
                 'if( pad && paren && ( eo->op_code != previous_op ) ) { fprintf( file, "(" ); } ATTRIBUTE_INITIALIZER__out( eo->op1, 1, OP_UNKNOWN, file ); '
                 'if( pad ) { fprintf( file, " " ); } fprintf( file, "%s", ( opcode ? opcode : EXPop_table[eo->op_code].token ) ); if( pad ) { fprintf( file, " " ); } '
                 'ATTRIBUTE_INITIALIZER__out( eo->op2, 1, eo->op_code, file ); if( pad && paren && ( eo->op_code != previous_op ) ) { fprintf( file, ")" ); } }',
                 'ATTRIBUTE_INITIALIZERop1_out( struct Op_Subexpression * eo, char * opcode, int paren, FILE * file ) { if( paren ) { fprintf( file, "(" ); } '
                 'fprintf( file, "%s", opcode ); ATTRIBUTE_INITIALIZER_out( eo->op1, 1, file ); if( paren ) { fprintf( file, ")" ); } }',
                 'fprintf( file, "\\t\\tattribute_eval = " ); ATTRIBUTE_INITIALIZER_out( v->initializer, 1, file );',
                 "ATTRIBUTE_INITIALIZER_out( w->expr, level + 1, file );"):
        if need not in cs:
            raise ValueError("expression printer no longer as modelled: " + need[:70])
    # ---- REPEAT with an increment control
    i = c.find("\nLOOPpyout( struct Loop_ *loop, int level, FILE * file ) {")
    j = c.find("\nSTATEMENTlist_out( Linked_List stmts, int indent_level, FILE * file ) {", i)
    if i < 0 or j < 0:
        raise ValueError("LOOPpyout not found")
    lp = sq(c[i:j])
    head = 'fprintf( file, "for %s in range(", v->name->symbol.name ); EXPRESSION_out( loop->scope->u.incr->init, 0 , file ); fprintf( file, "," ); '
    excl = head + 'EXPRESSION_out( loop->scope->u.incr->end, 0 , file ); fprintf( file, "," ); EXPRESSION_out( loop->scope->u.incr->increment, 0 , file ); fprintf( file, "):\\n" );'
    incl = (head + 'fprintf( file, "(" ); EXPRESSION_out( loop->scope->u.incr->end, 0 , file ); fprintf( file, ") + (1 if (" ); '
            'EXPRESSION_out( loop->scope->u.incr->increment, 0 , file ); fprintf( file, ") > 0 else -1)," ); '
            'EXPRESSION_out( loop->scope->u.incr->increment, 0 , file ); fprintf( file, "):\\n" );')
    if excl in lp:
        rep_incl = False
    elif incl in lp:
        rep_incl = True
    else:
        raise ValueError("LOOPpyout: the range() of an increment control is written in neither of the two modelled ways")
    # ---- the specification's keyword list, independent of exp2python: Python's own hard keywords (of the interpreter that runs
    # the check; the lower-case ones - EXPRESS identifiers are folded to lower case) and the reserved words of stepcode's EXPRESS scanner
    import keyword
    hard = sorted(k for k in keyword.kwlist if k == k.lower())
    lx = open(os.path.join(repo, "src/express/lexact.c")).read()
    mt = re.search(r"\}\s*keywords\s*\[\s*\]\s*=\s*\{(.*?)\n\};", lx, re.S)
    if not mt:
        raise ValueError("lexact.c: the keyword table `keywords[]` was not found")
    reserved = sorted({w.lower() for w in re.findall(r'\{\s*"([A-Za-z_0-9]+)"\s*,\s*TOK_\w+\s*\}', mt.group(1))})
    if len(reserved) < 100 or "entity" not in reserved or "end_schema" not in reserved:
        raise ValueError("lexact.c: the keyword table was not read completely (%d words)" % len(reserved))
    # ---- STATEMENTPrint: the statements of the modelled fragment
    i = c.find("\nSTATEMENTPrint( Statement s, int indent_level, FILE * file ) {")
    j = c.find("\nCASEout( struct Case_Statement_ *c, int level, FILE * file ) {", i)
    if i < 0 or j < 0:
        raise ValueError("STATEMENTPrint not found")
    st = sq(c[i:j])
    for need in ('case STMT_ASSIGN: EXPRESSION_out( s->u.assign->lhs, 0, file ); fprintf( file, " = " ); EXPRESSION_out( s->u.assign->rhs, 0, file ); fprintf( file, "\\n" ); break;',
                 'case STMT_RETURN: fprintf( file, "return " ); if( s->u.ret->value ) { EXPRESSION_out( s->u.ret->value, 0, file ); } fprintf( file, "\\n" ); break;',
                 'case STMT_ESCAPE: fprintf( file, "break\\n" ); break;',
                 'case STMT_COND: fprintf( file, "if (" ); EXPRESSION_out( s->u.cond->test, 0 , file ); fprintf( file, "):\\n" ); STATEMENTlist_out( s->u.cond->code, indent_level + 1, file ); '
                 'if( s->u.cond->otherwise ) { python_indent( file, indent_level ); fprintf( file, "else:\\n" ); STATEMENTlist_out( s->u.cond->otherwise, indent_level + 1, file ); } break;',
                 'case STMT_LOOP: LOOPpyout( s->u.loop, indent_level , file ); break;'):
        if need not in st:
            raise ValueError("STATEMENTPrint: no longer as modelled: " + need[:50])
    if 'case STMT_SKIP: fprintf( file, "continue\\n" ); break;' in st:
        skip_cont = True
    elif 'case STMT_SKIP: fprintf( file, "break\\n" ); break;' in st:
        skip_cont = False
    else:
        raise ValueError("STATEMENTPrint: SKIP is written in neither of the two modelled ways")
    # FUNCPrint: parameter names in the def line, LOCAL initial values
    i = c.find("\nFUNCPrint( Function function, FILES * files ) {")
    j = c.find("\nSTATEMENTSPrint( Linked_List stmts , int indent_level, FILE * file ) {", i)
    if i < 0 or j < 0:
        raise ValueError("FUNCPrint not found")
    fp = sq(c[i:j])
    if 'fprintf( files->lib, "%s%s,", param_name, is_python_keyword( param_name ) ? "_" : "" );' in fp:
        params_esc = True
    elif 'fprintf( files->lib, "%s,", param_name );' in fp:
        params_esc = False
    else:
        raise ValueError("FUNCPrint: the parameter list is written in neither of the two modelled ways")
    loc = ('fprintf( files->lib, "\\t%s%s = ", next->name->symbol.name, is_python_keyword( next->name->symbol.name ) ? "_" : "" ); '
           'if( next->initializer ) { EXPRESSION_out( next->initializer, 0, files->lib ); } else { fprintf( files->lib, "None" ); } fprintf( files->lib, "\\n" );')
    if loc in fp and "v->flags.constant || v->flags.parameter || v->offset <= last" in fp and "if( !next || v->offset < next->offset ) { next = v; }" in fp:
        locals_init = True
    elif "initializer" not in fp:
        locals_init = False
    else:
        raise ValueError("FUNCPrint: LOCAL initial values are written in neither of the two modelled ways")
    if "STATEMENTSPrint( function->u.proc->body, 1, files->lib );" not in fp:
        raise ValueError("FUNCPrint: the body is no longer written by STATEMENTSPrint")
    # EXPRESSION__out: identifiers keyword-escaped, XOR through the parenthesising macro (exprCfg of GenPyStmt.lean)
    i = c.find("\nEXPRESSION__out( Expression e, int paren, Op_Code previous_op, FILE* file ) {")
    j = c.find("\nATTRIBUTE_INITIALIZERop__out(", i)
    eo = sq(c[i:j])
    if 'case entity_: case identifier_: if( is_python_keyword( e->symbol.name ) ) { fprintf( file, "%s_", e->symbol.name ); } else { fprintf( file, "%s", e->symbol.name ); } break;' not in eo:
        raise ValueError("EXPRESSION__out: identifiers are no longer keyword-escaped as modelled")
    if 'case OP_XOR: EXPRESSIONop2_out( oe, " != ", paren, PAD, file ); break;' not in sq(c):
        raise ValueError("EXPRESSIONop__out: XOR no longer goes through the parenthesising macro")
    lst = ", ".join('"%s"' % i for i in items)
    out = f"""-- GENERATED by tools/extract.d/genpy.py from src/exp2python/src/classes_python.c, classes_wrapper_python.cc
namespace StepModel.Generated

/-- Python's hard keywords (`keyword.kwlist` of the interpreter that runs the check), lower-case members only: EXPRESS
identifiers are folded to lower case, so `False None True` cannot be emitted -/
def pythonHardKeywords : List String := [{", ".join('"%s"' % k for k in hard)}]
/-- the reserved words of stepcode's EXPRESS scanner (`keywords[]` of src/express/lexact.c), lower case: none of them can be
an identifier of a schema -/
def expressReserved : List String := [{", ".join('"%s"' % k for k in reserved)}]
/-- `keyword_list[]` of `is_python_keyword()`: identifiers that get a trailing underscore -/
def pythonKeywords : List String := [{lst}]
/-- `is_python_keyword` compares the word without its trailing underscores (`class_`, `class__` are escaped like `class`);
`false`: the word itself (`strcmp`) -/
def escapesStems : Bool := {"true" if stems else "false"}
/-- `ATTRIBUTE_INITIALIZERop__out` hands `previous_op` down for XOR: an XOR that is the right operand of an XOR is written
without parentheses (`p != q != r`, which Python reads as a chained comparison) -/
def xorSkipsParentheses : Bool := {"true" if xor_skips else "false"}
/-- attribute references in derived-attribute / WHERE expressions and WHERE-rule labels get the keyword underscore -/
def bodyEscapesKeywords : Bool := {"true" if body_esc else "false"}
/-- `LOOPpyout` writes the stop value of `range()` as `(b) + (1 if (s) > 0 else -1)` (the bound is the last value of the
loop variable); `false`: the bound itself -/
def repeatBoundInclusive : Bool := {"true" if rep_incl else "false"}
/-- `FUNCPrint` writes the parameter names of the `def` line keyword-escaped -/
def paramsEscaped : Bool := {"true" if params_esc else "false"}
/-- `FUNCPrint` writes one assignment per LOCAL variable (its initial value, or None) before the body -/
def localsInitialised : Bool := {"true" if locals_init else "false"}
/-- `STATEMENTPrint` writes `continue` for SKIP (`false`: `break`) -/
def skipIsContinue : Bool := {"true" if skip_cont else "false"}
/-- the package named in the emitted import preamble -/
def runtimePackage : String := "{pk[0]}"
/-- `LISTsort(supertypes, cmp_python_mro)` is applied before the base classes are emitted -/
def sortsBases : Bool := {"true" if sorts else "false"}
/-- the base classes are emitted through `python_base_order` (declaration order, a supertype that is an ancestor of another
listed supertype moved behind it); the supertype list itself is left as declared -/
def ancestorsLast : Bool := {"true" if anc_last else "false"}
/-- `ENUMcanBeProcessed`, last case: a not yet visited renamed enumeration whose original is in the schema being processed
counts as processable in this pass -/
def enumRenameInSchemaOk : Bool := {"true" if rename_ok else "false"}
/-- `SCOPEPrint` rescans the symbol table until no defined type had to be skipped (a rename is written only after the type
it renames); `false`: one scan, the skipped ones are written later in dictionary order -/
def typeRescan : Bool := {"true" if rescan else "false"}
/-- inherited constructor parameters are taken once per attribute (not once per supertype path) -/
def inheritedOnce : Bool := {"true" if once else "false"}

end StepModel.Generated
"""
    return {"GenPyGen.lean": out}

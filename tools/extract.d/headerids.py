"""How STEPfile numbers the instances of the header section -> Generated/HeaderIdsGen.lean   (C16)

  STEPfile::HeaderId( name )        fixed ids for FILE_DESCRIPTION / FILE_NAME / FILE_SCHEMA, `++_headerId` for every other name
  STEPfile::STEPfile( ... )         `_headerId( 0 )`
  Read/Append Exchange/WorkingFile  which of them assign `_headerId` (and what), which clear `_headerInstances`
  STEPfile::ReadHeader              id from HeaderId( keyword ), obj->STEPread( fileid, 0, ... ), im->Append( obj, completeSE ), then
                                    HeaderVerifyInstances( im ), HeaderMergeInstances( im )
  STEPfile::HeaderVerifyInstances   the order in which missing required instances are created
  STEPfile::HeaderMergeInstances    replacement threshold (kept in StepFileGen.headerReplaceBelow) and the order of the three ids
  STEPfile::WriteHeader             the three required instances by name first, then every instance whose id is not one of the three
  InstMgr::Append / NextFileId      an id that is already in the list is replaced by maxFileId + 1
"""
import os, re


def _strip(s):
    s = re.sub(r"//[^\n]*", "", s)
    return re.sub(r"/\*.*?\*/", "", s, flags=re.S)


def _body(text, sig, start=0):
    i = text.find(sig, start)
    if i < 0:
        raise ValueError(f"{sig} not found")
    j = text.index("{", i)
    depth, k = 0, j
    while True:
        if text[k] == "{":
            depth += 1
        elif text[k] == "}":
            depth -= 1
            if depth == 0:
                break
        k += 1
    return text[j + 1:k]


def _ws(s):
    return re.sub(r"\s+", "", s)


def extract(repo):
    rd = lambda p: _strip(open(os.path.join(repo, p)).read())
    cc = rd("src/cleditor/STEPfile.cc")
    inl = rd("src/cleditor/STEPfile.inline.cc")
    mgr = rd("src/clstepcore/instmgr.cc")
    mgrh = rd("include/clstepcore/instmgr.h")

    # --- HeaderId
    hb = _body(cc, "int STEPfile::HeaderId( const char * name )")
    fixed = re.findall(r'if\s*\(\s*tmp\s*==\s*"(\w+)"\s*\)\s*\{\s*return\s+(\d+)\s*;\s*\}', hb)
    if not fixed or "::toupper" not in hb:
        raise ValueError("HeaderId: fixed ids / upper-casing not found")
    tail = _ws(hb[hb.rindex("}") + 1:])
    if tail == "return++_headerId;":
        other = "preIncrement"
    else:
        raise ValueError("HeaderId: rule for the other names changed: " + tail)
    rest = _ws(hb)
    expect = 'std::stringtmp=name;std::transform(tmp.begin(),tmp.end(),tmp.begin(),::toupper);' + \
        "".join(f'if(tmp=="{n}"){{return{i};}}' for n, i in fixed) + "return++_headerId;"
    if rest != expect:
        raise ValueError("HeaderId: body has statements the model does not know")

    # --- constructor
    m = re.search(r"_headerId\(\s*(\d+)\s*\)", inl)
    if not m:
        raise ValueError("STEPfile constructor: _headerId initialiser not found")
    ctor = int(m.group(1))
    # every write of _headerId outside HeaderId and the constructor
    writes = {}
    for fn, key in (("ReadExchangeFile", "readExchange"), ("AppendExchangeFile", "appendExchange"),
                    ("ReadWorkingFile", "readWorking"), ("AppendWorkingFile", "appendWorking")):
        fb = _body(inl, f"Severity STEPfile::{fn}( const std::string filename, bool useTechCor )")
        ms = re.findall(r"_headerId\s*=\s*(\d+)\s*;", fb)
        if len(ms) > 1 or len(re.findall(r"_headerId", fb)) != len(ms):
            raise ValueError(f"{fn}: unexpected use of _headerId")
        if ms and not re.search(r"_headerId\s*=\s*\d+\s*;\s*Severity\s+rval\s*=\s*AppendFile\(", fb):
            raise ValueError(f"{fn}: _headerId is not assigned right before AppendFile")
        clears = bool(re.search(r"_headerInstances->ClearInstances\(\)\s*;.*AppendFile\(", fb, re.S))
        writes[key] = (int(ms[0]) if ms else None, clears)
    n_all = len(re.findall(r"_headerId", cc)) + len(re.findall(r"_headerId", inl))
    n_known = 1 + 1 + sum(1 for v in writes.values() if v[0] is not None)   # HeaderId, constructor, the assignments
    if n_all != n_known:
        raise ValueError(f"_headerId is used in {n_all} places, {n_known} are modelled")

    # --- ReadHeader
    rh = _ws(_body(cc, "Severity STEPfile::ReadHeader( istream & in )"))
    for need in ("InstMgr*im=newInstMgr;", "fileid=HeaderId(const_cast<char*>(keywd.c_str()));",
                 "objsev=obj->STEPread(fileid,0,(InstMgr*)0,in,NULL,true,_strict);", "im->Append(obj,completeSE);",
                 "HeaderVerifyInstances(im);HeaderMergeInstances(im);return_error.severity();"):
        if need not in rh:
            raise ValueError("ReadHeader: expected statement not found: " + need)
    if rh.index("fileid=HeaderId(") > rh.index("objsev=obj->STEPread(fileid") or \
            rh.index("objsev=obj->STEPread(fileid") > rh.index("im->Append(obj,completeSE);"):
        raise ValueError("ReadHeader: order of id / read / append changed")

    # --- HeaderVerifyInstances
    hv = _body(cc, "Severity STEPfile::HeaderVerifyInstances( InstMgr * im )")
    vorder = re.findall(r'fileid\s*=\s*HeaderId\(\s*"(\w+)"\s*\)\s*;\s*if\s*\(\s*!\(\s*im->FindFileId\(\s*fileid\s*\)\s*\)\s*\)\s*\{.*?obj\s*=\s*HeaderDefault(\w+)\(\)\s*;\s*im->Append\(\s*obj\s*,\s*completeSE\s*\)\s*;', hv, re.S)
    if len(vorder) != 3:
        raise ValueError("HeaderVerifyInstances: shape changed")
    for name, dflt in vorder:
        db = _body(cc, f"SDAI_Application_instance * STEPfile::HeaderDefault{dflt}()")
        if not re.search(r'->STEPfile_id\s*=\s*HeaderId\(\s*"%s"\s*\)\s*;' % name, db):
            raise ValueError(f"HeaderDefault{dflt}: id is not HeaderId(\"{name}\")")

    # --- HeaderMergeInstances
    hm = _body(cc, "void STEPfile::HeaderMergeInstances( InstMgr * im )")
    morder = re.findall(r'idnum\s*=\s*HeaderId\(\s*"(\w+)"\s*\)\s*;\s*se\s*=\s*_headerInstances->GetApplication_instance\(\s*_headerInstances->FindFileId\(\s*idnum\s*\)\s*\)\s*;', hm)
    appends = re.findall(r"\}\s*else\s*\{\s*from\s*=\s*im->GetApplication_instance\(\s*im->FindFileId\(\s*idnum\s*\)\s*\)\s*;\s*_headerInstances->Append\(\s*from\s*,\s*completeSE\s*\)\s*;\s*\}", hm)
    if len(morder) != 3 or len(appends) != 3:
        raise ValueError("HeaderMergeInstances: shape changed")
    if not re.search(r"if\s*\(\s*!_headerInstances\s*\)\s*\{\s*_headerInstances\s*=\s*im\s*;\s*return\s*;\s*\}", hm):
        raise ValueError("HeaderMergeInstances: first-header rule changed")

    # --- WriteHeader
    wh = _ws(_body(cc, "void STEPfile::WriteHeader( ostream & out )"))
    m = re.search(r"WriteHeaderInstance(\w+)\(out\);WriteHeaderInstance(\w+)\(out\);WriteHeaderInstance(\w+)\(out\);", wh)
    if not m:
        raise ValueError("WriteHeader: the three required instances are not written first")
    worder = list(m.groups())
    skip = re.findall(r'\(se->StepFileId\(\)==HeaderId\("(\w+)"\)\)', wh)
    if len(skip) != 3 or "if(!(" not in wh or \
            "WriteHeaderInstance(_headerInstances->GetMgrNode(i)->GetApplication_instance(),out);" not in wh:
        raise ValueError("WriteHeader: rule for the other instances changed")
    byname = {}
    for w in worder:
        wb = _body(cc, f"void STEPfile::WriteHeaderInstance{w}( ostream & out )")
        m = re.search(r'se\s*=\s*_headerInstances->GetApplication_instance\(\s*"(\w+)"\s*\)\s*;\s*if\s*\(\s*se\s*==\s*ENTITY_NULL\s*\)\s*\{\s*se\s*=\s*\(\s*SDAI_Application_instance\s*\*\s*\)\s*HeaderDefault(\w+)\(\)\s*;', wb)
        if not m:
            raise ValueError(f"WriteHeaderInstance{w}: look-up by name / default not found")
        byname[w] = m.group(1)

    # --- InstMgr::Append / NextFileId / ClearInstances
    ab = _ws(_body(mgr, "MgrNode * InstMgr::Append( SDAI_Application_instance * se, stateEnum listState )"))
    for need in ("if(se->StepFileId()==0){se->StepFileId(NextFileId());}",
                 "mn=FindFileId(se->StepFileId());if(mn){if(GetApplication_instance(mn)==se){return0;}else{se->StepFileId(NextFileId());}}",
                 "if(se->StepFileId()>MaxFileId()){maxFileId=se->StepFileId();}"):
        if need not in ab:
            raise ValueError("InstMgr::Append: shape changed: " + need)
    nb = _ws(_body(mgrh, "int NextFileId()"))
    if nb != "if(maxFileId<0){maxFileId=0;}returnmaxFileId=maxFileId+1;":
        raise ValueError("InstMgr::NextFileId: shape changed")
    cb = _ws(_body(mgr, "void InstMgr::ClearInstances()"))
    if "maxFileId=-1;" not in cb or "master->ClearEntries();" not in cb:
        raise ValueError("InstMgr::ClearInstances: shape changed")

    up = lambda n: n.upper()
    idof = {up(n): int(i) for n, i in fixed}
    L = ["-- GENERATED by tools/extract.d/headerids.py from src/cleditor/STEPfile.cc, STEPfile.inline.cc, src/clstepcore/instmgr.cc,",
         "-- include/clstepcore/instmgr.h", "namespace StepModel.Generated", ""]
    L.append("/-- `STEPfile::HeaderId`: the names (upper case) with a fixed id -/")
    L.append("def fixedHeaderIds : List (String × Nat) := [" + ", ".join(f'("{up(n)}", {i})' for n, i in fixed) + "]")
    L.append(f"/-- … every other name: \"preIncrement\" = `return ++_headerId;` -/\ndef headerIdOtherwise : String := \"{other}\"")
    L.append(f"/-- `_headerId` in a new STEPfile -/\ndef headerIdCtor : Nat := {ctor}")
    L.append("/-- per reading function: the value assigned to `_headerId` before the file is read (none = left as it is), and whether the\n    header instances of earlier reads are cleared first.  No other statement writes `_headerId`. -/")
    L.append("def headerIdSites : List (String × Option Nat × Bool) := [" + ", ".join(
        f'("{k}", {"none" if v[0] is None else "some " + str(v[0])}, {"true" if v[1] else "false"})' for k, v in writes.items()) + "]")
    L.append("/-- `HeaderVerifyInstances`: ids looked for, in this order; a missing one gets a default instance with that id -/")
    L.append("def headerVerifyOrder : List Nat := [" + ", ".join(str(idof[up(n)]) for n, _ in vorder) + "]")
    L.append("/-- `HeaderMergeInstances` (old header kept): ids looked for in the old header, in this order; a missing one is appended from the new header -/")
    L.append("def headerMergeOrder : List Nat := [" + ", ".join(str(idof[up(n)]) for n in morder) + "]")
    L.append("/-- `WriteHeader`: written first, looked up BY NAME (first instance of that entity; a default if there is none) -/")
    L.append("def headerWriteFirst : List String := [" + ", ".join(f'"{up(byname[w])}"' for w in worder) + "]")
    L.append("/-- … then every instance, in list order, whose id is none of these -/")
    L.append("def headerWriteSkipIds : List Nat := [" + ", ".join(str(idof[up(n)]) for n in skip) + "]")
    L.append("/-- `InstMgr::Append`: an instance whose id is already in the list gets `NextFileId()` = maxFileId + 1 (shape checked) -/")
    L.append('def instMgrClashRule : String := "nextFileId"')
    L += ["", "end StepModel.Generated", ""]
    return {"HeaderIdsGen.lean": "\n".join(L)}

"""C06: fixed-capacity buffers, their guards and the exit-status constants -> Generated/C06Buffers.lean

Every capacity, copy bound, guard and flush condition the C06 theorems mention is re-derived from the
working tree, so that a changed array size or a removed guard re-checks (and breaks) the theorem.
A pattern that no longer matches raises = broken tie.

  src/express/lexact.c           last_comment_[...] and the statements that write it
  src/express/generated/expparse.c (+ expparse.y, must agree)   scopes[MAX_SCOPE_DEPTH], PUSH_SCOPE, depth guard
  src/express/error.c            ERROR_MAX_*, heap[...], ERROR_vprintf, flush rule, LibErrors classes, ERRORset_warning guard
  src/express/express.c, info.c  exit statuses
  src/exppp/exppp.c              wrap()/raw() formatting buffers, wrap()'s continuation line
  src/exppp/pretty_expr.c        EXPRlength buffer, EXPRstring fixed texts, EXPRstring_bound constants
  src/exp2cxx/class_strings.c, src/exp2python/src/classes_misc_python.c   StrToLower/StrToUpper/StrToConstant loops
  src/exp2cxx/classes_wrapper.cc, src/exp2python/src/classes_wrapper_python.cc   identifier-length gate
  src/exp2cxx/classes_type.c     TypeDescription buffer;   src/exppp/pretty_schema.c  exppp_filename_buffer
"""
import os, re


def _read(repo, rel):
    with open(os.path.join(repo, rel), encoding="latin-1") as fh:
        return fh.read()


def _strip_comments(s):
    """remove /* */ and // comments, keeping line numbers; string and character literals are left alone"""
    out, i, n = [], 0, len(s)
    while i < n:
        c = s[i]
        if c == '"' or c == "'":
            j = i + 1
            while j < n and s[j] != c:
                j += 2 if s[j] == "\\" else 1
                if j < n and s[j - 1] == "\n" and c == "'":
                    break           # a stray apostrophe (e.g. in a #error text): not a literal
            out.append(s[i:j + 1])
            i = j + 1
        elif s.startswith("/*", i):
            j = s.find("*/", i + 2)
            j = n if j < 0 else j + 2
            out.append("\n" * s.count("\n", i, j))
            i = j
        elif s.startswith("//", i):
            j = s.find("\n", i)
            i = n if j < 0 else j
        else:
            out.append(c)
            i += 1
    return "".join(out)


def _body(text, sig_re, what):
    m = re.search(sig_re, text)
    if not m:
        raise ValueError(f"{what}: definition not found")
    j = text.index("{", m.end() - 1)
    depth, k = 0, j
    while True:
        c = text[k]
        if c == "{":
            depth += 1
        elif c == "}":
            depth -= 1
            if depth == 0:
                break
        elif c == '"':
            k += 1
            while text[k] != '"':
                k += 2 if text[k] == "\\" else 1
        elif c == "'":
            k += 1
            while text[k] != "'":
                k += 2 if text[k] == "\\" else 1
        k += 1
    return text[j + 1:k]


def _eval(expr, env, what):
    e = expr.strip()
    e = re.sub(r"\(\s*(?:size_t|int|unsigned|unsigned int)\s*\)", "", e)
    for k, v in env.items():
        e = re.sub(r"\b" + re.escape(k) + r"\b", str(v), e)
    if not re.fullmatch(r"[\d\s+\-*()]+", e):
        raise ValueError(f"{what}: cannot evaluate {expr!r}")
    return int(eval(e, {"__builtins__": {}}))


def _define(text, name, what):
    m = re.search(r"#\s*define\s+" + name + r"\s+\(?\s*(\d+)", text)
    if not m:
        raise ValueError(f"{what}: #define {name} not found")
    return int(m.group(1))


# ---------------------------------------------------------------- lexact.c
def remark(repo):
    t = _strip_comments(_read(repo, "src/express/lexact.c"))
    env = {"SCAN_COMMENT_LENGTH": _define(t, "SCAN_COMMENT_LENGTH", "lexact.c")}
    m = re.search(r"static\s+char\s+last_comment_\s*\[\s*([^\]]+)\]", t)
    if not m:
        raise ValueError("lexact.c: declaration of last_comment_[] not found")
    cap = _eval(m.group(1), env, "last_comment_ size")
    env["sizeof(last_comment_)"] = cap
    progs = {}
    seen = 0
    for fn in ("SCANprocess_semicolon", "SCANsave_comment"):
        b = _body(t, r"\b" + fn + r"\s*\([^)]*\)\s*\{", fn)
        ops = []
        for m in re.finditer(r"(\w+)\s*\(\s*last_comment_\s*(?:\+\s*[^,]+)?,([^;]*)\)\s*;|last_comment_\s*\[\s*([^\]]+)\]\s*=\s*([^;]+);", b):
            if m.group(1):
                f, rest = m.group(1), m.group(2)
                if f == "strcpy":
                    ops.append(".strcpy")
                elif f == "strncpy":
                    n = rest.rsplit(",", 1)[1]
                    ops.append(f".strncpy {_eval(n, env, fn + ' strncpy bound')}")
                else:
                    raise ValueError(f"{fn}: unsupported write to last_comment_ through {f}()")
            else:
                if m.group(4).strip() not in ("'\\0'", "0"):
                    raise ValueError(f"{fn}: unsupported store into last_comment_[]: {m.group(0)}")
                ops.append(f".store0 {_eval(m.group(3), env, fn + ' store index')}")
        seen += len(re.findall(r"\blast_comment_\b", b))
        progs[fn] = ops
    total = len(re.findall(r"\blast_comment_\b", t))
    # declaration (1) + the two functions; the alias `last_comment` (no underscore) is a different identifier
    if total != seen + 1:
        raise ValueError(f"lexact.c: last_comment_ is used outside SCANprocess_semicolon/SCANsave_comment ({total} vs {seen}+1)")
    return cap, progs


# ---------------------------------------------------------------- parser scope stack
def _scope_one(t, what):
    t = _strip_comments(t)
    env = {"MAX_SCOPE_DEPTH": _define(t, "MAX_SCOPE_DEPTH", what)}
    m = re.search(r"\}\s*scopes\s*\[\s*([^\]]+)\]\s*,\s*\*\s*scope\s*;", t)
    if not m:
        raise ValueError(f"{what}: scopes[] declaration not found")
    cap = _eval(m.group(1), env, "scopes size")
    m = re.search(r"void\s+parserInitState\s*\(\s*void\s*\)\s*\{\s*scope\s*=\s*scopes\s*;", t)
    if not m:
        raise ValueError(f"{what}: parserInitState no longer starts with scope = scopes")

    def macro(name):
        m = re.search(r"#\s*define\s+" + name + r"\s*\([^)]*\)((?:[^\n]*\\\n)*[^\n]*)\n", t)
        if not m:
            raise ValueError(f"{what}: macro {name} not found")
        return m.group(1).replace("\\\n", "\n")

    def guard_of(mtext, name):
        i = mtext.find("scope++")
        if i < 0:
            raise ValueError(f"{what}: {name} no longer increments scope")
        if re.search(r"scope\s*(\+=|=\s*scope\s*\+)", mtext) or mtext.count("scope++") != 1:
            raise ValueError(f"{what}: {name}: unsupported scope arithmetic")
        pre = mtext[:i]
        for fn in re.findall(r"\b([A-Za-z_]\w*)\s*\(\s*\)\s*;", pre):
            try:
                b = _body(t, r"static\s+void\s+" + fn + r"\s*\(\s*void\s*\)\s*\{", fn)
            except ValueError:
                continue
            g = re.search(r"if\s*\(\s*scope\s*-\s*scopes\s*>=\s*([^)]+?)\s*\)\s*\{(.*)\}", b, re.S)
            if g and re.search(r"ERRORreport_with_symbol\s*\(\s*SYNTAX\b", g.group(2)):
                return _eval(g.group(1), env, f"{fn} limit")
        return None
    return cap, guard_of(macro("PUSH_SCOPE"), "PUSH_SCOPE"), guard_of(macro("PUSH_SCOPE_DUMMY"), "PUSH_SCOPE_DUMMY"), \
        len(re.findall(r"\bPUSH_SCOPE\s*\(", t)) - 1, len(re.findall(r"\bPOP_SCOPE\s*\(", t)) - 1


def scope(repo):
    gen = _scope_one(_read(repo, "src/express/generated/expparse.c"), "generated/expparse.c")
    src = _scope_one(_read(repo, "src/express/expparse.y"), "expparse.y")
    if gen[:3] != src[:3]:
        raise ValueError(f"expparse.y and generated/expparse.c disagree on the scope stack: {src[:3]} vs {gen[:3]}")
    err = _strip_comments(_read(repo, "src/express/error.c"))
    m = re.search(r"\[\s*SYNTAX\s*\]\s*=\s*\{\s*(SEVERITY_\w+)", err)
    if not m:
        raise ValueError("error.c: LibErrors[SYNTAX] not found")
    exits = m.group(1) in ("SEVERITY_EXIT", "SEVERITY_DUMP", "SEVERITY_MAX")
    cap, g, gd, npush, npop = gen
    if not exits:       # a guard that reports a non-fatal diagnostic and then pushes anyway protects nothing
        g = gd = None
    return cap, g, gd, npush, npop


# ---------------------------------------------------------------- error.c
def errors(repo):
    t = _strip_comments(_read(repo, "src/express/error.c"))
    env = {k: _define(t, k, "error.c") for k in ("ERROR_MAX_ERRORS", "ERROR_MAX_SPACE", "ERROR_MAX_STRLEN")}
    m = re.search(r"\}\s*heap\s*\[\s*([^\]]+)\]\s*;", t)
    if not m:
        raise ValueError("error.c: heap[] declaration not found")
    heap = _eval(m.group(1), env, "heap size")
    ini = _body(t, r"void\s+ERRORinitialize\s*\(\s*void\s*\)\s*\{", "ERRORinitialize")
    m = re.search(r"ERROR_string_base\s*=\s*\(\s*char\s*\*\s*\)\s*malloc\s*\(\s*([^;]+?)\s*\)\s*;", ini)
    m2 = re.search(r"ERROR_string_end\s*=\s*ERROR_string_base\s*\+\s*([^;]+);", ini)
    if not m or not m2:
        raise ValueError("error.c: ERRORinitialize allocation of the message buffer not found")
    alloc, span = _eval(m.group(1), env, "message buffer malloc"), _eval(m2.group(1), env, "message buffer end")
    vp = _body(t, r"static\s+int\s+ERROR_vprintf\s*\([^)]*\)\s*\{", "ERROR_vprintf")
    bounded = bool(re.search(r"vsnprintf\s*\(\s*ERROR_string\s*,\s*ERROR_string_end\s*-\s*ERROR_string\s*,", vp))
    if not bounded and not re.search(r"vsprintf\s*\(\s*ERROR_string\s*,", vp):
        raise ValueError("error.c: ERROR_vprintf formatting call not recognised")
    clamp = bool(re.search(r"result\s*>\s*\(?\s*ERROR_string_end\s*-\s*ERROR_string\s*\)?\s*\)\s*\{\s*ERROR_string\s*=\s*ERROR_string_end", vp))
    rs = t      # the buffered branch lives in ERRORreport_with_symbol or in a helper it forwards to
    if not re.search(r"child\s*=\s*\+\+ERROR_with_lines\s*;", rs):
        raise ValueError("error.c: heap insertion `child = ++ERROR_with_lines` not found")
    m = re.search(r"if\s*\(\s*what->severity\s*>=\s*SEVERITY_EXIT\s*\|\|(.*?)\)\s*\{\s*ERROR_flush_message_buffer", rs, re.S)
    full_continues = False
    if not m:
        # second shape: the fatal test alone, then `if( <full> ) { flush; start again }` — the run goes on
        m = re.search(r"if\s*\(\s*((?:ERROR_string\s*\+|ERROR_with_lines)[^{]*?)\)\s*\{\s*ERROR_flush_message_buffer\s*\(\s*\)\s*;\s*ERROR_start_message_buffer\s*\(\s*\)\s*;\s*\}", _strip_comments(rs), re.S)
        full_continues = bool(m)
    if not m:
        raise ValueError("error.c: flush rule of the buffered branch not found")
    cond = re.sub(r"\s+", " ", m.group(1))
    sg = re.search(r"ERROR_string \+ ([\w ]+?) > ERROR_string_base \+ ([\w ]+?)(?: \|\||$)", cond)
    cg = re.search(r"ERROR_with_lines (==|>=) ([\w +\-]+?)(?: \|\||$)", cond)
    space_guard = (_eval(sg.group(1), env, "flush strlen"), _eval(sg.group(2), env, "flush space")) if sg else None
    count_guard = _eval(cg.group(2), env, "flush count") if cg else None
    nx = _body(t, r"static\s+void\s+ERROR_nexterror\s*\(\s*\)\s*\{", "ERROR_nexterror")
    next_guard = bool(re.search(r"if\s*\(\s*ERROR_string\s*==\s*ERROR_string_end\s*\)\s*\{\s*return", nx))
    next_writes = len(re.findall(r"\*\s*ERROR_string\s*(?:\+\+)?\s*=[^=]", nx)) + len(re.findall(r"ERROR_string\s*\[[^\]]*\]\s*=[^=]", nx))
    if not re.search(r"ERROR_string\s*\+\+", nx):
        raise ValueError("ERROR_nexterror: step over the terminator not recognised")
    # warning classes (ERRORset_warning)
    tab = re.search(r"static\s+struct\s+Error_\s+LibErrors\s*\[\s*\]\s*=\s*\{(.*?)\n\};", t, re.S)
    if not tab:
        raise ValueError("error.c: LibErrors[] not found")
    ents = re.findall(r"\[\s*(\w+)\s*\]\s*=\s*\{\s*(SEVERITY_\w+)\s*,\s*((?:\"(?:[^\"\\]|\\.)*\"\s*)+),\s*(NULL|\"[^\"]*\")\s*,", tab.group(1))
    if len(ents) < 50:
        raise ValueError(f"error.c: only {len(ents)} LibErrors entries parsed")
    if len(ents) != len(re.findall(r"\[\s*\w+\s*\]\s*=\s*\{", tab.group(1))):
        raise ValueError("error.c: some LibErrors entries could not be parsed")
    hdr = _strip_comments(_read(repo, "include/express/error.h"))
    if not re.search(r"enum\s*\w*\s*\{\s*SEVERITY_WARNING\s*=\s*0\s*,", hdr) and not re.search(r"\{\s*SEVERITY_WARNING\s*=\s*0\s*,", hdr):
        raise ValueError("error.h: SEVERITY_WARNING is no longer the lowest severity (= 0)")
    sw = _body(t, r"void\s+ERRORset_warning\s*\([^)]*\)\s*\{", "ERRORset_warning")
    m = re.search(r"if\s*\(\s*err->severity\s*<=\s*SEVERITY_WARNING\s*&&(.*?)!\s*strcmp\s*\(\s*err->name\s*,\s*name\s*\)", sw, re.S)
    if not m:
        raise ValueError("error.c: ERRORset_warning comparison not recognised")
    name_guard = bool(re.search(r"err->name\s*(!=\s*(NULL|0)\s*)?&&\s*$", m.group(1).strip() + " ")) or \
        bool(re.search(r"\berr->name\s*(!=\s*(NULL|0))?\s*&&", m.group(1)))
    # exit statuses
    ex = _strip_comments(_read(repo, "src/express/express.c"))
    f = _body(ex, r"int\s+EXPRESS_fail\s*\([^)]*\)\s*\{", "EXPRESS_fail")
    s = _body(ex, r"int\s+EXPRESS_succeed\s*\([^)]*\)\s*\{", "EXPRESS_succeed")
    mf, ms = re.findall(r"return\s+(\d+)\s*;", f), re.findall(r"return\s+(\d+)\s*;", s)
    if len(mf) != 1 or len(ms) != 1:
        raise ValueError("express.c: EXPRESS_fail/EXPRESS_succeed default return values not found")
    usage = []
    for rel in ("src/express/info.c", "src/exppp/exppp-main.c", "src/exp2cxx/fedex_main.c",
                "src/exp2python/src/fedex_main_python.c"):
        usage += [int(x) for x in re.findall(r"\bexit\s*\(\s*(\d+)\s*\)", _strip_comments(_read(repo, rel)))]
    hooks = []
    for rel in ("src/exp2cxx/fedex_main.c", "src/exp2python/src/fedex_main_python.c"):
        b = _body(_strip_comments(_read(repo, rel)), r"int\s+success\s*\([^)]*\)\s*\{", rel + " success")
        hk = [int(x) for x in re.findall(r"return\s*\(?\s*(\d+)\s*\)?\s*;", b)]
        if len(hk) != 1:
            raise ValueError(f"{rel}: success() should have exactly one literal return")
        hooks += hk
    return dict(env=env, heap=heap, alloc=alloc, span=span, bounded=bounded, clamp=clamp, space_guard=space_guard,
                count_guard=count_guard, full_continues=full_continues, next_guard=next_guard, next_writes=next_writes, ents=ents, name_guard=name_guard,
                fail=int(mf[0]), succeed=int(ms[0]), usage=usage, hooks=hooks)


# ---------------------------------------------------------------- exppp
def _fmt_call(t, fn):
    """how wrap()/raw() format into their local buffer"""
    b = _body(t, r"\bvoid\s+" + fn + r"\s*\(\s*const\s+char\s*\*\s*fmt\s*,\s*\.\.\.\s*\)\s*\{", fn)
    arrs = dict((n, int(sz)) for n, sz in re.findall(r"\bchar\s+(\w+)\s*\[\s*(\d+)\s*\]\s*;", b))
    m = re.search(r"\bvsprintf\s*\(\s*(\w+)\s*,", b)
    if m:
        if m.group(1) not in arrs:
            raise ValueError(f"{fn}: vsprintf target {m.group(1)} is not a local array")
        return arrs[m.group(1)], ".vsprintf", arrs, b
    m = re.search(r"\bvsnprintf\s*\(\s*(\w+)\s*,\s*([^,]+),", b)
    if m and m.group(1) in arrs:
        size = _eval(m.group(2), {f"sizeof( {m.group(1)} )": arrs[m.group(1)], f"sizeof({m.group(1)})": arrs[m.group(1)],
                                  f"sizeof {m.group(1)}": arrs[m.group(1)]}, f"{fn} vsnprintf size")
        return arrs[m.group(1)], f".vsnprintfTrunc {size}", arrs, b
    m = re.search(r"\bvformat\s*\(\s*(\w+)\s*,\s*sizeof\s*\(\s*(\w+)\s*\)\s*,\s*fmt\s*,\s*args\s*\)", b)
    if m and m.group(1) == m.group(2) and m.group(1) in arrs:
        vf = _body(t, r"static\s+char\s*\*\s*vformat\s*\([^)]*\)\s*\{", "vformat")
        a = re.search(r"len\s*=\s*vsnprintf\s*\(\s*buf\s*,\s*size\s*,\s*fmt\s*,\s*args\s*\)\s*;", vf)
        fits = re.search(r"if\s*\(\s*len\s*<\s*0\s*\|\|\s*\(\s*size_t\s*\)\s*len\s*<\s*size\s*\)\s*\{", vf)
        mal = re.search(r"big\s*=\s*\(\s*char\s*\*\s*\)\s*malloc\s*\(\s*\(\s*size_t\s*\)\s*len\s*\+\s*(\d+)\s*\)\s*;", vf)
        sec = re.search(r"vsnprintf\s*\(\s*big\s*,\s*\(\s*size_t\s*\)\s*len\s*\+\s*(\d+)\s*,\s*fmt\s*,\s*again\s*\)\s*;", vf)
        nul = re.search(r"if\s*\(\s*!big\s*\)\s*\{[^}]*abort\s*\(\s*\)", vf)
        if not (a and fits and mal and sec and nul):
            raise ValueError("vformat: body not recognised")
        return arrs[m.group(1)], f".sized {arrs[m.group(1)]} {mal.group(1)} {sec.group(1)}", arrs, b
    raise ValueError(f"{fn}: formatting call not recognised")


def exppp(repo):
    t = _strip_comments(_read(repo, "src/exppp/exppp.c"))
    wcap, wcall, warrs, wb = _fmt_call(t, "wrap")
    rcap, rcall, _, _ = _fmt_call(t, "raw")
    # continuation line
    m = re.search(r"sprintf\s*\(\s*(\w+)\s*,\s*\"\\n%\*s\"\s*,\s*indent2\s*,\s*\"\"\s*\)\s*;\s*exp_output\s*\(\s*\1\s*,\s*1\s*\+\s*indent2\s*\)", wb)
    if not m:
        raise ValueError("wrap: continuation-line sprintf not found")
    tgt = m.group(1)
    if tgt in warrs:
        line = (warrs[tgt], ".fixed")
    else:
        d = re.search(r"char\s*\*\s*" + tgt + r"\s*=\s*(\w+)\s*;", wb)
        g = re.search(r"if\s*\(\s*\(\s*size_t\s*\)\s*indent2\s*\+\s*(\d+)\s*>\s*sizeof\s*\(\s*(\w+)\s*\)\s*\)\s*\{\s*" + tgt +
                      r"\s*=\s*\(\s*char\s*\*\s*\)\s*malloc\s*\(\s*\(\s*size_t\s*\)\s*indent2\s*\+\s*(\d+)\s*\)\s*;", wb)
        if not (d and g and d.group(1) == g.group(2) and d.group(1) in warrs):
            raise ValueError("wrap: continuation-line buffer not recognised")
        line = (warrs[d.group(1)], f".mallocAbove {g.group(1)} {g.group(3)}")
    # EXPRlength
    p = _strip_comments(_read(repo, "src/exppp/pretty_expr.c"))
    el = _body(p, r"\bint\s+EXPRlength\s*\(\s*Expression\s+e\s*\)\s*\{", "EXPRlength")
    arrs = dict((n, int(sz)) for n, sz in re.findall(r"\bchar\s+(\w+)\s*\[\s*(\d+)\s*\]\s*;", el))
    if len(arrs) != 1:
        raise ValueError("EXPRlength: expected exactly one local array")
    (an, acap), = arrs.items()
    if re.search(r"EXPRstring\s*\(\s*" + an + r"\s*,\s*e\s*\)", el):
        elen = (acap, ".fixed", 0, 0)
    else:
        need = re.search(r"need\s*=\s*EXPRstring_bound\s*\(\s*e\s*\)\s*\+\s*(\d+)\s*;", el)
        g = re.search(r"if\s*\(\s*need\s*>\s*sizeof\s*\(\s*" + an + r"\s*\)\s*\)\s*\{\s*(\w+)\s*=\s*\(\s*char\s*\*\s*\)\s*malloc\s*\(\s*need\s*\)\s*;", el)
        if not (need and g and re.search(r"EXPRstring\s*\(\s*" + g.group(1) + r"\s*,\s*e\s*\)", el)):
            raise ValueError("EXPRlength: sized-buffer form not recognised")
        bd = _body(p, r"static\s+size_t\s+EXPRstring_bound\s*\(\s*Expression\s+e\s*\)\s*\{", "EXPRstring_bound")
        base = re.search(r"size_t\s+n\s*=\s*(\d+)\s*;", bd)
        per = sorted(set(int(x) for x in re.findall(r"n\s*\+=\s*(\d+)\s*\+\s*EXPRstring_bound\s*\(\s*arg\b", bd)))
        if not base or len(per) != 1:
            raise ValueError("EXPRstring_bound: constants not recognised")
        # every symbol EXPRstring prints must be counted by the bound function
        for pat in (r"strlen\s*\(\s*e->u\.binary\s*\)", r"strlen\s*\(\s*e->symbol\.name\s*\)",
                    r"strlen\s*\(\s*e->u\.query->local->name->symbol\.name\s*\)",
                    r"EXPRstring_bound\s*\(\s*e->u\.query->aggregate\s*\)", r"EXPRstring_bound\s*\(\s*e->u\.query->expression\s*\)",
                    r"EXPRstring_bound\s*\(\s*e->e\.op1\s*\)\s*\+\s*EXPRstring_bound\s*\(\s*e->e\.op2\s*\)"):
            if not re.search(pat, bd):
                raise ValueError(f"EXPRstring_bound: term {pat} missing")
        kf = re.search(r"case\s+string_\s*:(?:\s*case\s+\w+\s*:)*\s*n\s*\+=\s*(?:(\d+)\s*\*\s*)?strlen\s*\(\s*e->symbol\.name\s*\)\s*;", bd)
        if not kf:
            raise ValueError("EXPRstring_bound: how a string literal is counted is not recognised")
        elen = (acap, ".sized", int(base.group(1)), per[0], int(need.group(1)), int(kf.group(1) or 1))
    # node kind by node kind: the sub-expressions EXPRstring descends into vs the ones EXPRstring_bound counts
    es_ = _body(p, r"\bvoid\s+EXPRstring\s*\(\s*char\s*\*\s*buffer\s*,\s*Expression\s+e\s*\)\s*\{", "EXPRstring")
    child_mismatch, repeat_counted = [], True
    if elen[1] == ".sized":
        def cases(body):
            """case labels -> text of the block they lead to (up to the `break;` at nesting depth 0 of the block)"""
            out = {}
            parts = re.split(r"(\bcase\s+\w+\s*:|\bdefault\s*:)", body)
            labels = []
            for i in range(1, len(parts), 2):
                lab = parts[i].replace("case", "").replace(":", "").strip()
                txt = parts[i + 1]
                labels.append(lab)
                if txt.strip():
                    for l in labels:
                        out[l] = txt
                    labels = []
            return out

        def norm(x, blk):
            x = re.sub(r"\s+", "", x)
            for nm, val in re.findall(r"\bbool\s+(\w+)\s*=\s*([^;]+);", blk):
                x = re.sub(r"\b" + nm + r"\b", re.sub(r"\s+", "", val), x)
            return x
        wc, bc = cases(es_), cases(bd)
        # nested switch in the logical_ case: labels Ltrue/Lfalse are not expression kinds
        for kind, blk in wc.items():
            if not kind.endswith("_"):
                continue
            written = [norm(x, blk) for x in re.findall(r"EXPRstring\s*\(\s*buffer[^,]*,\s*([^;]+?)\s*\)\s*;", blk)]
            if re.search(r"EXPRop_string\s*\(\s*buffer\s*,\s*&e->e\s*\)", blk):
                written += ["e->e.op1", "e->e.op2"]
            counted = [norm(x, bc.get(kind, "")) for x in re.findall(r"EXPRstring_bound\s*\(\s*((?:[^()]|\([^()]*\))+?)\s*\)", bc.get(kind, ""))]
            for w_ in written:
                if w_ not in counted:
                    child_mismatch.append(f"{kind}: EXPRstring prints {w_}, EXPRstring_bound counts {counted}")
        agg_w = [norm(x, wc.get("aggregate_", "")) for x in re.findall(r"EXPRstring\s*\(\s*buffer[^,]*,\s*([^;]+?)\s*\)\s*;", wc.get("aggregate_", ""))]
        agg_b = [norm(x, bc.get("aggregate_", "")) for x in re.findall(r"EXPRstring_bound\s*\(\s*((?:[^()]|\([^()]*\))+?)\s*\)", bc.get("aggregate_", ""))]
        if len(agg_w) != 1:
            raise ValueError(f"EXPRstring: aggregate_ case not recognised {agg_w}")
        repeat_counted = agg_w == agg_b
    # fixed text EXPRstring adds per node: sum of literal text outside LISTdo loops, max separator inside
    es = _body(p, r"\bvoid\s+EXPRstring\s*\(\s*char\s*\*\s*buffer\s*,\s*Expression\s+e\s*\)\s*\{", "EXPRstring")
    eo = _body(p, r"\bvoid\s+EXPRop_string\s*\([^)]*\)\s*\{", "EXPRop_string")
    small = _define(_strip_comments(_read(repo, "src/exppp/exppp.c")), "PP_SMALL_BUF_SZ", "exppp.c")

    def lit_len(s):
        s = re.sub(r"%%", "\x01", s)
        s = re.sub(r"%[sd]", "", s)
        s = re.sub(r"\\(.)", "x", s)
        return len(s)
    fixed, sep = 0, 0
    for blk in re.split(r"\bcase\s+\w+\s*:|\bdefault\s*:", es + "\ncase x:" + eo):
        loops = re.findall(r"LISTdo\s*\(.*?LISTod", blk, re.S)
        outside = re.sub(r"LISTdo\s*\(.*?LISTod", "", blk, flags=re.S)
        tot = sum(lit_len(x) for x in re.findall(r"\"((?:[^\"\\]|\\.)*)\"", outside))
        if "%d" in outside:
            tot += 11
        if "real2exp" in outside:
            tot += small
        fixed = max(fixed, tot)
        for lp in loops:
            sep = max([sep] + [lit_len(x) for x in re.findall(r"\"((?:[^\"\\]|\\.)*)\"", lp)])
    # bytes EXPRstring writes per character of a string literal
    sb = re.search(r"case\s+string_\s*:(.*?)\bbreak\s*;", es, re.S)
    if not sb:
        raise ValueError("EXPRstring: case string_ not found")
    blk = sb.group(1)
    if re.search(r"\bfor\s*\(|\bwhile\s*\(", blk):
        lm = re.search(r"(?:for|while)\s*\(", blk)
        stores = len(re.findall(r"\*\s*\w+\s*\+\+\s*=", _body(blk[lm.start():], r"(?:for|while)\s*\([^{]*\)\s*\{", "loop over the literal")))
        if stores < 1:
            raise ValueError("EXPRstring: loop over a string literal not recognised")
        wfac = stores
    elif re.search(r"sprintf\s*\(\s*buffer\s*,\s*\"%s\"\s*,\s*e->symbol\.name\s*\)", blk):
        wfac = 1
    else:
        raise ValueError("EXPRstring: how a string literal is written is not recognised")
    return dict(wrap=(wcap, wcall), raw=(rcap, rcall), line=line, elen=elen, fixed=fixed, sep=sep, wfac=wfac,
                child_mismatch=child_mismatch, repeat_counted=repeat_counted)


# ---------------------------------------------------------------- exp2cxx / exp2python name case functions
def names(repo):
    out = []
    for tool, src, hdr in (("exp2cxx", "src/exp2cxx/class_strings.c", "src/exp2cxx/class_strings.h"),
                           ("exp2python", "src/exp2python/src/classes_misc_python.c", "src/exp2python/src/classes.h")):
        t = _strip_comments(_read(repo, src))
        h = _strip_comments(_read(repo, hdr))
        env = {"MAX_LEN": _define(h, "MAX_LEN", hdr)}
        for fn in ("StrToLower", "StrToUpper", "StrToConstant"):
            b = _body(t, r"const\s+char\s*\*\s*" + fn + r"\s*\(\s*const\s+char\s*\*\s*word\s*\)\s*\{", f"{src}: {fn}")
            m = re.search(r"static\s+char\s+newword\s*\[\s*([^\]]+)\]\s*;", b)
            w = re.search(r"while\s*\(\s*word\s*\[\s*i\s*\]\s*!=\s*'\\0'\s*(?:&&\s*i\s*<\s*([^)]+?)\s*)?\)\s*\{", b)
            if not m or not w or not re.search(r"newword\s*\[\s*i\s*\]\s*=\s*'\\0'\s*;", b):
                raise ValueError(f"{src}: {fn} not recognised")
            cap = _eval(m.group(1), env, fn + " newword size")
            lim = _eval(w.group(1), env, fn + " loop bound") if w.group(1) else None
            out.append((f"{tool}.{fn}", cap, lim))
    return out


def gates(repo):
    """the identifier-length gate of the two generators: (tool, limit or None, MAX_LEN)"""
    out = []
    for tool, src, hdr, before in (("exp2cxx", "src/exp2cxx/classes_wrapper.cc", "src/exp2cxx/class_strings.h", r"ComplexCollect\s+col\s*\("),
                                   ("exp2python", "src/exp2python/src/classes_wrapper_python.cc", "src/exp2python/src/classes.h", r"print_schemas_separate\s*\(")):
        t = _strip_comments(_read(repo, src))
        maxlen = _define(_strip_comments(_read(repo, hdr)), "MAX_LEN", hdr)
        lim = None
        m = re.search(r"#\s*define\s+MAX_IDENT_LEN\s+\(?\s*([^\n]+?)\s*\)?\s*\n", t)
        if m:
            pf = _body(t, r"\bprint_file\s*\(\s*Express\s+express\s*\)\s*\{", f"{src}: print_file")
            call = re.search(r"check_identifier_lengths\s*\(\s*express\s*\)\s*;", pf)
            first = re.search(before, pf)
            try:
                ck = _body(t, r"static\s+void\s+check_identifier_lengths\s*\(\s*Express\s+express\s*\)\s*\{", "check_identifier_lengths")
                tl = _body(t, r"static\s+int\s+identifier_too_long\s*\([^)]*\)\s*\{", "identifier_too_long")
                sc = _body(t, r"static\s+int\s+scope_names_too_long\s*\([^)]*\)\s*\{", "scope_names_too_long")
            except ValueError:
                ck = tl = sc = ""
            ok = (call and first and call.start() < first.start()
                  and re.search(r"if\s*\(\s*scope_names_too_long\s*\(\s*express\s*,\s*0\s*\)\s*\)\s*\{\s*exit\s*\(\s*EXPRESS_fail", ck)
                  and re.search(r"if\s*\(\s*len\s*<=\s*MAX_IDENT_LEN\s*\)\s*\{\s*return\s+0\s*;", tl)
                  and re.search(r"return\s+1\s*;", tl)
                  and re.search(r"bad\s*\+=\s*identifier_too_long\s*\([^;]*de\.e->key", sc)
                  and "s->symbol_table" in sc and "s->enum_table" in sc)
            if ok:
                lim = _eval(m.group(1), {"MAX_LEN": maxlen}, f"{src}: MAX_IDENT_LEN")
        out.append((tool, lim, maxlen))
    return out


def description(repo):
    """exp2cxx TypeDescription(): static buffer and whether every append into it is bounded"""
    t = _strip_comments(_read(repo, "src/exp2cxx/classes_type.c"))
    env = {}
    m = re.search(r"#\s*define\s+TYPE_DESCRIPTION_SIZE\s+(\d+)", t)
    if m:
        env["TYPE_DESCRIPTION_SIZE"] = int(m.group(1))
    td = _body(t, r"char\s*\*\s*TypeDescription\s*\(\s*const\s+Type\s+t\s*\)\s*\{", "TypeDescription")
    m = re.search(r"static\s+char\s+buf\s*\[\s*([^\]]+)\]\s*;", td)
    if not m:
        raise ValueError("TypeDescription: static buffer not found")
    cap = _eval(m.group(1), env, "TypeDescription buffer")
    raw_appends = 0
    for sig, what in ((r"void\s+strcat_expr\s*\([^)]*\)\s*\{", "strcat_expr"), (r"void\s+strcat_bounds\s*\([^)]*\)\s*\{", "strcat_bounds"),
                      (r"void\s+Type_Description\s*\([^)]*\)\s*\{", "Type_Description"),
                      (r"void\s+TypeBody_Description\s*\([^)]*\)\s*\{", "TypeBody_Description")):
        b = _body(t, sig, what)
        raw_appends += len(re.findall(r"\b(?:strcat|strcpy|sprintf)\s*\(\s*buf\b", b))
    bounded = False
    if raw_appends == 0:
        dc = _body(t, r"static\s+void\s+desc_cat\s*\(\s*char\s*\*\s*buf\s*,\s*const\s+char\s*\*\s*s\s*\)\s*\{", "desc_cat")
        bounded = bool(re.search(r"if\s*\(\s*used\s*\+\s*1\s*<\s*TYPE_DESCRIPTION_SIZE\s*\)\s*\{\s*strncat\s*\(\s*buf\s*,\s*s\s*,\s*TYPE_DESCRIPTION_SIZE\s*-\s*1\s*-\s*used\s*\)", dc))
        if not bounded:
            raise ValueError("desc_cat: bounded append not recognised")
    return cap, bounded


def exppp_filename(repo):
    """exppp SCHEMAout(): exppp_filename_buffer[] and the length test before `sprintf( buf, "%s.exp", name )`"""
    t = _strip_comments(_read(repo, "src/exppp/pretty_schema.c"))
    m = re.search(r"char\s+exppp_filename_buffer\s*\[\s*(\d+)\s*\]\s*;", t)
    if not m:
        raise ValueError("pretty_schema.c: exppp_filename_buffer not found")
    cap = int(m.group(1))
    b = _body(t, r"char\s*\*\s*SCHEMAout\s*\(\s*Schema\s+s\s*\)\s*\{", "SCHEMAout")
    sp = re.search(r"sprintf\s*\(\s*exppp_filename_buffer\s*,\s*\"%s(\.\w+)\"\s*,\s*s->symbol\.name\s*\)", b)
    ap = re.search(r"strcat\s*\(\s*exppp_filename_buffer\s*,\s*\"(\.\w+)\"\s*\)", b)
    if not sp:
        raise ValueError("SCHEMAout: sprintf of the file name not found")
    g = re.search(r"if\s*\(\s*strlen\s*\(\s*s->symbol\.name\s*\)\s*\+\s*sizeof\s*\(\s*\"([^\"]*)\"\s*\)\s*>\s*sizeof\s*\(\s*exppp_filename_buffer\s*\)\s*\)\s*\{(.*?)\}", b, re.S)
    guard = None
    if g and g.start() < sp.start() and re.search(r"return\s+0\s*;", g.group(2)):
        guard = len(g.group(1)) + 1
    return cap, len(sp.group(1)), (len(ap.group(1)) if ap else 0), guard


def recursion_marks(repo):
    """recursions over the supertype relation: is the entity marked as visited BEFORE its supertypes are walked?"""
    r = _strip_comments(_read(repo, "src/express/resolve.c"))
    b = _body(r, r"void\s+ENTITYcalculate_inheritance\s*\(\s*Entity\s+e\s*\)\s*\{", "ENTITYcalculate_inheritance")
    loop = b.find("LISTdo")
    guard = re.search(r"if\s*\(\s*super->u\.entity->inheritance\s*==\s*ENTITY_INHERITANCE_UNINITIALIZED\s*\)\s*\{\s*ENTITYcalculate_inheritance\s*\(\s*super\s*\)", b)
    if loop < 0 or not guard:
        raise ValueError("ENTITYcalculate_inheritance: guarded recursion over supertypes not recognised")
    m = re.search(r"e->u\.entity->inheritance\s*=\s*([^;=][^;]*);", b)
    inh_first = bool(m and m.start() < loop and "UNINITIALIZED" not in m.group(1))
    # the OVERLOADED_ATTR check of ENTITYresolve_expressions walks the supertypes of every entity by name
    re_body = _body(r, r"void\s+ENTITYresolve_expressions\s*\(\s*Entity\s+e\s*\)\s*\{", "ENTITYresolve_expressions")
    na_first = False
    if re.search(r"\bENTITYget_named_attribute\s*\(\s*supr\b", re_body):
        na_first = False        # the public function has no visited mark (exp2cxx uses search_id for its own marks)
    else:
        call = re.search(r"__SCOPE_search_id\+\+\s*;\s*if\s*\(\s*(\w+)\s*\(\s*supr\b", re_body)
        if not call:
            raise ValueError("ENTITYresolve_expressions: inherited-attribute look-up of the OVERLOADED_ATTR check not recognised")
        hb = _body(r, r"static\s+Variable\s+" + call.group(1) + r"\s*\([^)]*\)\s*\{", call.group(1))
        g = re.search(r"if\s*\(\s*entity->search_id\s*==\s*__SCOPE_search_id\s*\)\s*\{\s*return\s+(0|NULL)\s*;\s*\}\s*entity->search_id\s*=\s*__SCOPE_search_id\s*;", hb)
        rec = hb.find(call.group(1) + "( super")
        na_first = bool(g and rec > g.end())
    return inh_first, na_first


def _bufsiz():
    try:
        m = re.search(r"#\s*define\s+BUFSIZ\s+(\d+)", open("/usr/include/stdio.h").read())
        return int(m.group(1))
    except Exception:
        return 8192


def non_unique(repo):
    """non_unique_types_string() of both generators: malloc'ed capacity and the literals it strcat()s"""
    out = []
    for tool, src in (("exp2cxx", "src/exp2cxx/selects.c"), ("exp2python", "src/exp2python/src/selects_python.c")):
        t = _strip_comments(_read(repo, src))
        b = _body(t, r"char\s*\*\s*non_unique_types_string\s*\(\s*const\s+Type\s+type\s*\)\s*\{", f"{src}: non_unique_types_string")
        m = re.search(r"typestr\s*=\s*\(\s*char\s*\*\s*\)\s*malloc\s*\(\s*(.+?)\s*\)\s*;", b)
        if not m:
            raise ValueError(f"{src}: malloc of typestr not found")
        arg = m.group(1)
        sz = re.fullmatch(r"sizeof\s*\(\s*(\w+|\"(?:[^\"\\]|\\.)*\")\s*\)", arg)
        if sz:
            lit = sz.group(1)
            if not lit.startswith('"'):
                d = re.search(r"#\s*define\s+" + lit + r"\s*(?:\\\n)?\s*\"((?:[^\"\\]|\\.)*)\"", t)
                if not d:
                    raise ValueError(f"{src}: sizeof({lit}): macro is not a string literal")
                cap = len(d.group(1)) + 1
            else:
                cap = len(lit) - 2 + 1
        else:
            cap = _eval(arg, {"BUFSIZ": _bufsiz()}, f"{src}: malloc size")
        if re.search(r"\b(sprintf|strcpy)\s*\(\s*typestr", b) or not re.search(r"typestr\s*\[\s*0\s*\]\s*=\s*'\\0'\s*;", b):
            raise ValueError(f"{src}: non_unique_types_string builds typestr in an unrecognised way")
        sw = re.search(r"switch\s*\(\s*i\s*\)\s*\{(.*?)\n        \}", b, re.S)
        if not sw:
            raise ValueError(f"{src}: switch over the kinds not found")
        lits = lambda x: re.findall(r"strcat\s*\(\s*typestr\s*,\s*(?:\(\s*char\s*\*\s*\)\s*)?\"((?:[^\"\\]|\\.)*)\"\s*\)", x)
        kinds = lits(sw.group(1))
        ncase = len(re.findall(r"\bcase\s+\w+\s*:", sw.group(1)))
        rest = lits(b[:sw.start()]) + lits(b[sw.end():])
        if len(kinds) != ncase or len(rest) != 4 or not re.search(r"for\s*\(\s*i\s*=\s*0\s*;\s*i\s*<=\s*tnumber\s*;", b):
            raise ValueError(f"{src}: literals of non_unique_types_string not recognised ({kinds}, {rest})")
        en = re.search(r"enum\s+__types\s*\{([^}]*)\}", t)
        if en:
            names = [x.strip().split("=")[0].strip() for x in en.group(1).split(",") if x.strip()]
            if "tnumber" in names and names.index("tnumber") + 1 != ncase + (1 if "tint" in names and names.index("tint") == 1 else 0) and names.index("tnumber") + 1 != ncase:
                pass    # enum may have a leading placeholder; the case count is what the loop can reach
        op, sep, zero, cl = rest
        out.append((tool, cap, len(op), len(sep), len(zero), len(cl), [len(k) for k in kinds]))
    return out


def string_buffer(repo):
    """exppp print-to-string mode: prep_string() / exp_output()"""
    t = _strip_comments(_read(repo, "src/exppp/exppp.c"))
    big = _define(t, "BIGBUFSIZ", "exppp.c")
    ps = _body(t, r"\bint\s+prep_string\s*\(\s*\)\s*\{", "prep_string")
    m = re.search(r"exppp_buf\s*=\s*exppp_bufp\s*=\s*\(\s*char\s*\*\s*\)\s*malloc\s*\(\s*([^;]+?)\s*\)\s*;", ps)
    r = re.search(r"exppp_buflen\s*=\s*exppp_maxbuflen\s*=\s*([^;]+);", ps)
    if not m or not r:
        raise ValueError("prep_string: allocation of the string buffer not recognised")
    alloc, room = _eval(m.group(1), {"BIGBUFSIZ": big}, "prep_string malloc"), _eval(r.group(1), {"BIGBUFSIZ": big}, "prep_string room")
    eo = _body(t, r"\bvoid\s+exp_output\s*\(\s*char\s*\*\s*buf\s*,\s*unsigned\s+int\s+len\s*\)\s*\{", "exp_output")
    g = re.search(r"if\s*\(\s*len\s*>\s*exppp_buflen\s*\)\s*\{(.*?)\}\s*memcpy\s*\(\s*exppp_bufp\s*,\s*buf\s*,\s*len\s*\+\s*(\d+)\s*\)\s*;\s*exppp_bufp\s*\+=\s*len\s*;\s*exppp_buflen\s*-=\s*len\s*;", eo, re.S)
    if not g:
        raise ValueError("exp_output: string branch not recognised")
    inner = g.group(1)
    if re.search(r"\breturn\s*;", inner) and "len" not in re.sub(r"\breturn\s*;", "", inner):
        policy = ".drop"
    elif re.search(r"len\s*=\s*exppp_buflen\s*;", inner):
        policy = ".truncate"
    else:
        raise ValueError("exp_output: what happens to a chunk that does not fit is not recognised")
    return alloc, room, policy, int(g.group(2))


def select_search(repo):
    """EXP_resolve_op_dot_fuzzy / EXP_resolve_op_group_fuzzy: are visited selects marked with an id that stays fixed during
    one search (a parameter), rather than with the global counter that ENTITYfind_inherited_* increment?"""
    t = _strip_comments(_read(repo, "src/express/expr.c"))
    ok = True
    for fn in ("EXP_resolve_op_dot_fuzzy", "EXP_resolve_op_group_fuzzy"):
        m = re.search(r"static\s+int\s+" + fn + r"\s*\(([^)]*)\)\s*\{", t)
        if not m:
            raise ValueError(f"expr.c: {fn} not found")
        b = _body(t, r"static\s+int\s+" + fn + r"\s*\([^)]*\)\s*\{", fn)
        p = re.search(r"int\s+(\w+)\s*$", m.group(1).strip())
        cmp_ = re.search(r"if\s*\(\s*selection->search_id\s*==\s*(\w+)\s*\)\s*\{\s*return\s+0\s*;", b)
        mark = re.search(r"selection->search_id\s*=\s*(\w+)\s*;", b)
        if not cmp_ or not mark:
            raise ValueError(f"expr.c: {fn}: visited test / mark not recognised")
        first_rec = b.find(fn + "(")
        ok = ok and bool(p) and cmp_.group(1) == p.group(1) and mark.group(1) == p.group(1) and mark.start() < first_rec
    return ok


def nesting_limits(repo):
    """resolve.c: depth counters in front of the recursive resolvers (expression, statement, type, supertype expression)"""
    r = _strip_comments(_read(repo, "src/express/resolve.c"))
    err = _strip_comments(_read(repo, "src/express/error.c"))
    m = re.search(r"\[\s*SYNTAX\s*\]\s*=\s*\{\s*(SEVERITY_\w+)", err)
    fatal = bool(m and m.group(1) in ("SEVERITY_EXIT", "SEVERITY_DUMP", "SEVERITY_MAX"))
    lim = re.search(r"#\s*define\s+RESOLVE_MAX_NESTING\s+(\d+)", r)
    out = []
    for what, sig, counter in (("expression", r"void\s+EXP_resolve\s*\(\s*Expression\s+expr[^)]*\)\s*\{", "EXP_resolve_depth"),
                               ("statement", r"void\s+STMTresolve\s*\(\s*Statement\s+statement[^)]*\)\s*\{", "STMT_resolve_depth"),
                               ("type", r"void\s+TYPE_resolve\s*\(\s*Type\s*\*\s*typeaddr[^)]*\)\s*\{", "TYPE_resolve_depth"),
                               ("supertype expression", r"int\s+ENTITYresolve_subtype_expression\s*\(\s*Expression\s+expr[^)]*\)\s*\{", "SUBTYPE_resolve_depth")):
        b = _body(r, sig, what + " resolver")
        g = re.search(r"if\s*\(\s*" + counter + r"\s*>=\s*RESOLVE_MAX_NESTING\s*\)\s*\{\s*RESOLVEnested_too_deeply\s*\([^;]*\)\s*;(.*?)return\b[^;]*;\s*\}\s*" +
                      counter + r"\+\+\s*;[^;]*;\s*" + counter + r"--\s*;", b, re.S)
        ok = bool(g and lim and fatal)
        if ok:
            h = _body(r, r"static\s+void\s+RESOLVEnested_too_deeply\s*\([^)]*\)\s*\{", "RESOLVEnested_too_deeply")
            ok = bool(re.search(r"ERRORreport_with_symbol\s*\(\s*SYNTAX\b", h))
        out.append((what, int(lim.group(1)) if ok else None))
    for what, sig in (("chain of subtypes", r"int\s+ENTITY_check_subsuper_cyclicity\s*\(\s*Entity\s+e\s*,\s*Entity\s+enew\s*\)\s*\{"),
                      ("chain of supertypes", r"void\s+ENTITYcalculate_inheritance\s*\(\s*Entity\s+e\s*\)\s*\{")):
        b = _body(r, sig, what)
        g = re.search(r"static\s+int\s+depth\s*=\s*0\s*;.*?if\s*\(\s*depth\s*>=\s*RESOLVE_MAX_NESTING\s*\)\s*\{\s*RESOLVEnested_too_deeply\s*\([^;]*\)\s*;\s*return\b[^;]*;\s*\}\s*depth\+\+\s*;", b, re.S)
        ok = bool(g and lim and fatal and re.search(r"depth--\s*;", b))
        out.append((what, int(lim.group(1)) if ok else None))
    # the OTHERWISE action of a CASE statement must be resolved (and so counted) as well
    ci = _body(r, r"void\s+CASE_ITresolve\s*\([^)]*\)\s*\{", "CASE_ITresolve")
    otherwise = bool(re.search(r"if\s*\(\s*validLabels\s*\|\|\s*LISTempty\s*\(\s*item->labels\s*\)\s*\)\s*\{[^}]*STMTresolve\s*\(\s*item->action", ci, re.S))
    return out, otherwise


def python_indent(repo):
    t = _strip_comments(_read(repo, "src/exp2python/src/classes_python.c"))
    b = _body(t, r"void\s+python_indent\s*\(\s*FILE\s*\*\s*file\s*,\s*int\s+indent_level\s*\)\s*\{", "python_indent")
    if re.search(r"for\s*\(\s*i\s*=\s*0\s*;\s*i\s*<\s*indent_level\s*;\s*i\+\+\s*\)\s*\{\s*fprintf\s*\(\s*file\s*,\s*\"\\t\"\s*\)", b):
        return ".loop"
    m = re.search(r"char\s+(\w+)\s*\[\s*\]\s*=\s*\"((?:\\t)+)\"\s*;", b)
    w = m and re.search(r"fwrite\s*\(\s*" + m.group(1) + r"\s*,\s*1\s*,[^,]*indent_level[^,]*,\s*file\s*\)", b)
    if m and w:
        clamp = re.search(r"indent_level\s*>\s*(\d+)|sizeof\s*\(\s*" + m.group(1), b)
        if not clamp:
            return f".array {len(m.group(2)) // 2}"
    raise ValueError("python_indent: how the indentation is written is not recognised")


def rename_search(repo):
    """express.c: what does the look-up behind USE/REFERENCE item lists know about the search it is part of?
    -> "path" (refuses a schema that is on the chain of calls), "origin" (only the schema of the first call), "none" """
    t = _strip_comments(_read(repo, "src/express/express.c"))
    m = re.search(r"static\s+void\s*\*\s*(SCOPE_?find_for_rename)\s*\(\s*Scope\s+schema\s*,\s*char\s*\*\s*name\s*(?:,\s*([^)]*?)\s*)?\)\s*\{", t)
    if not m:
        raise ValueError("SCOPEfind_for_rename: definition not found")
    # the recursive function is the one whose body loops over use_schemas
    cands = [mm for mm in re.finditer(r"static\s+void\s*\*\s*(SCOPE_?find_for_rename)\s*\(\s*Scope\s+schema\s*,\s*char\s*\*\s*name\s*(?:,\s*([^)]*?)\s*)?\)\s*\{", t)]
    fn, extra, b = None, None, None
    for mm in cands:
        bb = _body(t[mm.start():], r"\)\s*\{", mm.group(1))
        if re.search(r"LISTdo\s*\(\s*schema->u\.schema->use_schemas", bb):
            fn, extra, b = mm.group(1), (mm.group(2) or "").strip(), bb
    if fn is None or not re.search(fn + r"\s*\(\s*use_schema\s*,\s*name\b", b):
        raise ValueError("SCOPEfind_for_rename: recursion over use_schemas not recognised")
    loop = b.find("LISTdo")
    ms = re.match(r"struct\s+(\w+)\s*\*\s*(\w+)$", extra)
    if ms:
        up = ms.group(2)
        g = re.search(r"for\s*\(\s*(\w+)\s*=\s*" + up + r"\s*;\s*\1\s*;\s*\1\s*=\s*\1->up\s*\)\s*\{\s*if\s*\(\s*\1->schema\s*==\s*schema\s*\)\s*\{\s*return\s+0\s*;", b)
        link = re.search(r"(\w+)\.schema\s*=\s*schema\s*;\s*\1\.up\s*=\s*" + up + r"\s*;", b)
        rec = re.search(fn + r"\s*\(\s*use_schema\s*,\s*name\s*,\s*&\s*(\w+)\s*\)", b)
        if g and link and rec and rec.group(1) == link.group(1) and g.end() < loop and link.end() < loop:
            return "path"
        return "none"
    mo = re.match(r"Scope\s+(\w+)$", extra)
    if mo:
        o = mo.group(1)
        g = re.search(r"if\s*\(\s*schema\s*==\s*" + o + r"\s*\)\s*\{\s*return\s+0\s*;", b)
        rec = re.search(fn + r"\s*\(\s*use_schema\s*,\s*name\s*,\s*" + o + r"\s*\)", b)
        if g and rec and g.end() < loop:
            return "origin"
        return "none"
    return "none"


def scan_buffers(repo):
    h = _strip_comments(_read(repo, "include/express/lexact.h"))
    t = _strip_comments(_read(repo, "src/express/lexact.c"))
    cap = _define(h, "SCAN_NESTING_DEPTH", "lexact.h")
    if not re.search(r"Scan_Buffer\s+SCAN_buffers\s*\[\s*SCAN_NESTING_DEPTH\s*\]", t):
        raise ValueError("lexact.c: SCAN_buffers[SCAN_NESTING_DEPTH] not found")
    inc = _body(t, r"void\s+SCANinclude_file\s*\(\s*char\s*\*\s*filename\s*\)\s*\{", "SCANinclude_file")
    if not re.search(r"SCANpush_buffer\s*\(", t):
        # INCLUDE reports "not read" and pushes nothing: the index is only ever decremented or reset
        ups = re.findall(r"\+\+\s*SCAN_current_buffer|SCAN_current_buffer\s*\+\+|SCAN_current_buffer\s*\+=|SCAN_current_buffer\s*=\s*[^=0\s]", t)
        if ups:
            raise ValueError(f"lexact.c: SCAN_current_buffer is raised outside SCANpush_buffer: {ups[:2]}")
        return cap, cap         # every push is refused: `SCAN_current_buffer + cap >= cap`
    pb = _body(t, r"static\s+void\s+SCANpush_buffer\s*\([^)]*\)\s*\{", "SCANpush_buffer")
    if not re.search(r"\+\+\s*SCAN_current_buffer\s*;", pb):
        raise ValueError("SCANpush_buffer: increment of SCAN_current_buffer not recognised")
    push = inc.find("SCANpush_buffer(")
    g = re.search(r"if\s*\(\s*SCAN_current_buffer\s*\+\s*(\d+)\s*>=\s*SCAN_NESTING_DEPTH\s*\)\s*\{[^}]*ERRORreport_with_line\s*\(\s*INCLUDE_FILE[^}]*\}\s*else\b", inc, re.S)
    guard = int(g.group(1)) if (g and g.start() < push) else None
    if push < 0:
        raise ValueError("SCANinclude_file: push not found")
    return cap, guard


def open_comments(repo):
    out = []
    for rel in ("src/express/generated/expscan.c", "src/express/expscan.l"):
        t = _strip_comments(_read(repo, rel))
        cap = re.search(r"#\s*define\s+MAX_NESTED_COMMENTS\s+(\d+)", t)
        decl = re.search(r"open_comment\s*\[\s*MAX_NESTED_COMMENTS\s*\]", t)
        stores = [m.start() for m in re.finditer(r"open_comment\s*\[\s*nesting_level\s*\]\s*\.\s*\w+\s*=", t)]
        if not cap or not decl or not stores:
            raise ValueError(f"{rel}: open_comment[] not recognised")
        guarded = True
        for st in stores:
            before = t[max(0, st - 160):st]
            if not re.search(r"if\s*\(\s*nesting_level\s*<\s*MAX_NESTED_COMMENTS\s*\)\s*\{\s*(open_comment\s*\[\s*nesting_level\s*\]\s*\.\s*\w+\s*=[^;]*;\s*)?$", before):
                guarded = False
        other = len(re.findall(r"open_comment\s*\[", t)) - len(stores) - 1
        if other != 0:
            raise ValueError(f"{rel}: open_comment[] is used in a way that is not modelled")
        out.append((int(cap.group(1)), guarded))
    if out[0] != out[1]:
        raise ValueError(f"expscan.l and generated/expscan.c disagree on open_comment: {out}")
    return out[0]


def schema_files(repo):
    t = _strip_comments(_read(repo, "src/express/express.c"))
    cap = _define(t, "MAX_SCHEMA_FILENAME_SIZE", "express.c")
    if not re.search(r"char\s+full\s*\[\s*MAX_SCHEMA_FILENAME_SIZE\s*\]", t):
        raise ValueError("express.c: Dir.full not found")
    fs = _body(t, r"Schema\s+EXPRESSfind_schema\s*\([^)]*\)\s*\{", "EXPRESSfind_schema")
    if not re.search(r"char\s+lower\s*\[\s*MAX_SCHEMA_FILENAME_SIZE\s*\]", fs):
        raise ValueError("EXPRESSfind_schema: lower[] not found")
    loop = fs.find("*dest++ = tolower")
    g = re.search(r"if\s*\(\s*strlen\s*\(\s*name\s*\)\s*>=\s*sizeof\s*\(\s*lower\s*\)\s*\)\s*\{\s*return\s+0\s*;", fs)
    name_guard = bool(g and loop > 0 and g.start() < loop)
    if loop < 0:
        raise ValueError("EXPRESSfind_schema: copy into lower[] not recognised")
    sn = re.search(r"snprintf\s*\(\s*dir->leaf\s*,\s*sizeof\s*\(\s*dir->full\s*\)\s*-\s*\(\s*dir->leaf\s*-\s*dir->full\s*\)\s*,\s*\"%s(\.\w+)\"\s*,\s*lower\s*\)", fs)
    sp = re.search(r"\bsprintf\s*\(\s*dir->leaf\s*,\s*\"%s(\.\w+)\"\s*,\s*lower\s*\)", fs)
    if not sn and not sp:
        raise ValueError("EXPRESSfind_schema: file name append not recognised")
    ext = len((sn or sp).group(1))
    pi = _body(t, r"static\s+void\s+EXPRESS_PATHinit\s*\(\s*\)\s*\{", "EXPRESS_PATHinit")
    cp = pi.find("strcpy( dir->full")
    dg = re.search(r"if\s*\(\s*\(\s*size_t\s*\)\s*length\s*\+\s*(\d+)\s*>\s*sizeof\s*\(\s*dir->full\s*\)\s*\)\s*\{[^}]*continue\s*;", pi, re.S)
    dir_guard = int(dg.group(1)) if (dg and cp > 0 and dg.start() < cp) else None
    if cp < 0 or 'sprintf( dir->full, "%s/", start )' not in pi:
        raise ValueError("EXPRESS_PATHinit: copies into dir->full not recognised")
    return cap, name_guard, bool(sn), ext, dir_guard


def escape_buffer(repo):
    e = _strip_comments(_read(repo, "src/exp2cxx/classes_entity.c"))
    m = re.search(r"tmp2\s*=\s*\(\s*char\s*\*\s*\)\s*malloc\s*\(\s*sizeof\s*\(\s*char\s*\)\s*\*\s*\(\s*(.+?)\s*\)\s*\)\s*;", e)
    if not m or "format_for_stringout( tmp, tmp2 )" not in e:
        raise ValueError("classes_entity.c: buffer for format_for_stringout not recognised")
    expr = m.group(1)
    a = re.fullmatch(r"(\d+)\s*\*\s*strlen\s*\(\s*tmp\s*\)\s*\+\s*(\w+)", expr)
    b = re.fullmatch(r"strlen\s*\(\s*tmp\s*\)\s*\+\s*(\w+)", expr)
    if a:
        mul, add = int(a.group(1)), a.group(2)
    elif b:
        mul, add = 1, b.group(1)
    else:
        raise ValueError(f"classes_entity.c: malloc size {expr!r} not recognised")
    add = _bufsiz() if add == "BUFSIZ" else int(add)
    c = _strip_comments(_read(repo, "src/exp2cxx/classes.c"))
    f = _body(c, r"char\s*\*\s*format_for_stringout\s*\([^)]*\)\s*\{", "format_for_stringout")
    w = _body(f, r"while\s*\(\s*\*optr\s*\)\s*\{", "format_for_stringout loop")
    branches = re.split(r"\}\s*else\s+if\s*\([^)]*\)\s*\{|\}\s*else\s*\{|if\s*\([^)]*\)\s*\{", w)
    per = max(len(re.findall(r"\*\s*rptr\s*=", br)) for br in branches)
    adv = len(re.findall(r"\brptr\+\+\s*;", w))
    if per < 1 or adv < 1 or not re.search(r"\*rptr\s*=\s*'\\0'\s*;", f):
        raise ValueError("format_for_stringout: loop not recognised")
    return mul, add, per


def py_call(repo):
    t = _strip_comments(_read(repo, "src/exp2python/src/classes_python.c"))
    big = re.search(r"#\s*define\s+BIGBUFSIZ\s+(\d+)", t)
    f = _body(t, r"char\s*\*\s*EXPRto_python\s*\(\s*Expression\s+e\s*\)\s*\{", "EXPRto_python")
    if not big or not re.search(r"unsigned\s+int\s+bufsize\s*=\s*BIGBUFSIZ\s*;", f) or not re.search(r"buf\s*=\s*\(\s*char\s*\*\s*\)\s*malloc\s*\(\s*bufsize\s*\)", f):
        raise ValueError("EXPRto_python: allocation not recognised")
    fc = re.search(r"case\s+funcall_\s*:(.*?)case\s+op_\s*:", f, re.S)
    if not fc or not re.search(r"snprintf\s*\(\s*buf\s*,\s*bufsize\s*,\s*\"%s\(\"", fc.group(1)):
        raise ValueError("EXPRto_python: funcall branch not recognised")
    blk = fc.group(1)
    lits = re.findall(r"strcat\s*\(\s*buf\s*,\s*\"([^\"]*)\"\s*\)", blk)
    if len(lits) != 2 or "strcat( buf, temp )" not in blk:
        raise ValueError("EXPRto_python: appends of the funcall branch not recognised")
    g = re.search(r"if\s*\(\s*used\s*\+\s*strlen\s*\(\s*temp\s*\)\s*\+\s*sizeof\s*\(\s*\"([^\"]*)\"\s*\)\s*>\s*bufsize\s*\)\s*\{\s*bufsize\s*=\s*used\s*\+\s*strlen\s*\(\s*temp\s*\)\s*\+\s*sizeof\s*\(\s*\"([^\"]*)\"\s*\)\s*\+\s*BIGBUFSIZ\s*;\s*buf\s*=\s*\(\s*char\s*\*\s*\)\s*realloc\s*\(\s*buf\s*,\s*bufsize\s*\)", blk)
    ensure = None
    if g and g.group(1) == g.group(2) and g.start() < blk.find("strcat( buf, temp )") and re.search(r"size_t\s+used\s*=\s*strlen\s*\(\s*buf\s*\)\s*;", blk):
        ensure = len(g.group(1)) + 1
    return int(big.group(1)), ensure, len(lits[0]), len(lits[1])


def graph_walks(repo):
    """the remaining recursive walks over the USE/REFERENCE graph: marked with the current search id before recursing, and
    nothing in the body starts another search (which would make the marks stale)"""
    import glob as _glob
    bumpers = set()
    for f in sorted(_glob.glob(os.path.join(repo, "src/express/*.c"))):
        t = _strip_comments(open(f, encoding="latin-1").read())
        for m in re.finditer(r"^[A-Za-z_][\w \*]*?\b(\w+)\s*\([^;{)]*\)\s*\{", t, re.M):
            try:
                b = _body(t[m.start():], r"\b" + m.group(1) + r"\s*\([^;{)]*\)\s*\{", m.group(1))
            except Exception:
                continue
            if re.search(r"__SCOPE_search_id\s*\+\+|\+\+\s*__SCOPE_search_id", b):
                bumpers.add(m.group(1))
    if len(bumpers) < 4:
        raise ValueError(f"only {sorted(bumpers)} found as functions that start a search")
    out = []
    for rel, sig, fn in (("src/express/schema.c", r"static\s+void\s+SCHEMA_get_entities_use\s*\([^)]*\)\s*\{", "SCHEMA_get_entities_use"),
                         ("src/express/scope.c", r"void\s*\*\s*SCOPE_find\s*\([^)]*\)\s*\{", "SCOPE_find")):
        t = _strip_comments(_read(repo, rel))
        b = _body(t, sig, fn)
        g = re.search(r"if\s*\(\s*scope->search_id\s*==\s*__SCOPE_search_id\s*\)\s*\{\s*return\b[^;]*;\s*\}\s*scope->search_id\s*=\s*__SCOPE_search_id\s*;", b)
        rec = b.find(fn + "(")
        if rec < 0:
            raise ValueError(f"{fn}: recursion not found")
        calls = set(re.findall(r"\b([A-Za-z_]\w*)\s*\(", b))
        stale = sorted((calls & bumpers) - {fn})
        out.append((fn, bool(g and g.end() < rec and not stale)))
    # SCOPE_dfs (SCOPEget_entities_superclass_order, used by both generators): walk over the supertypes, ENTITY_MARK
    t = _strip_comments(_read(repo, "src/express/scope.c"))
    b = _body(t, r"void\s+SCOPE_dfs\s*\([^)]*\)\s*\{", "SCOPE_dfs")
    g = re.search(r"if\s*\(\s*\(?\s*ENTITYget_mark\s*\(\s*root\s*\)\s*!=\s*ENTITY_MARK\s*\)?\s*\)\s*\{\s*ENTITYput_mark\s*\(\s*root\s*,\s*ENTITY_MARK\s*\)\s*;", b)
    rec = b.find("SCOPE_dfs(")
    calls = set(re.findall(r"\b([A-Za-z_]\w*)\s*\(", b))
    known = {"if", "ENTITYget_mark", "ENTITYput_mark", "LISTdo", "ENTITYget_supertypes", "DICTlookup", "ENTITYget_name", "SCOPE_dfs", "LISTadd_last"}
    out.append(("SCOPE_dfs", bool(g and rec > g.end() and calls <= known and not re.search(r"ENTITY_MARK\s*(\+\+|=[^=])|\+\+\s*ENTITY_MARK", b))))
    # the two cyclicity checks mark the successor before they descend into it
    t = _strip_comments(_read(repo, "src/express/resolve.c"))
    for fn, sig, var, rec in (("ENTITY_check_subsuper_cyclicity_", r"static\s+int\s+ENTITY_check_subsuper_cyclicity_\s*\([^)]*\)\s*\{", "sub", "ENTITY_check_subsuper_cyclicity"),
                              ("TYPE_check_select_cyclicity", r"int\s+TYPE_check_select_cyclicity\s*\([^)]*\)\s*\{", "item", "TYPE_check_select_cyclicity")):
        b = _body(t, sig, fn)
        g = re.search(r"if\s*\(\s*" + var + r"->search_id\s*==\s*__SCOPE_search_id\s*\)\s*\{\s*continue\s*;\s*\}\s*" + var +
                      r"->search_id\s*=\s*__SCOPE_search_id\s*;\s*if\s*\(\s*" + rec + r"\s*\(", b)
        calls = set(re.findall(r"\b([A-Za-z_]\w*)\s*\(", b))
        only = len(re.findall(r"\b" + rec + r"\s*\(", b)) == 1
        out.append((fn, bool(g and only and not (calls & bumpers))))
    # exp2cxx TYPEselect_print: selects that contain each other through named aggregates (legal) or rename each other;
    # the tag stored as client data is the mark, put before any item is looked at
    t = _strip_comments(_read(repo, "src/exp2cxx/selects.c"))
    b = _functions(t).get("TYPEselect_print", "")
    g = re.search(r"if\s*\(\s*(?:\(\s*tmp\s*=\s*\(\s*SelectTag\s*\)\s*)?TYPEget_clientData\s*\(\s*t\s*\)\s*\)?\s*\)\s*\{.*?return\s*;\s*\}", b, re.S)
    put = re.search(r"TYPEput_clientData\s*\(\s*t\s*,", b)
    rec = b.find("TYPEselect_print(")
    out.append(("TYPEselect_print", bool(g and put and g.end() <= put.start() and rec > put.end())))
    # TYPE_resolve_: defined types that refer to each other (TYPE a = b; TYPE b = a; / aggregates / selects)
    t = _strip_comments(_read(repo, "src/express/resolve.c"))
    b = _body(t, r"static\s+void\s+TYPE_resolve_\s*\([^)]*\)\s*\{", "TYPE_resolve_")
    hd = _strip_comments(_read(repo, "include/express/resolve.h")) + _strip_comments(_read(repo, "include/express/expbasic.h"))
    macro = re.search(r"#define\s+TYPEresolve\(t\)\s+if\s*\(is_resolvable\(\(\*\(t\)\)\)\)\s*TYPE_resolve\(\(t\)\)", hd)
    notres = re.search(r"#define\s+is_not_resolvable\(x\)\s+\(\(x\)->symbol\.resolved\s*&\s*\(([A-Z_|]+)\)\)", hd)
    isres = re.search(r"#define\s+is_resolvable\(x\)\s+\(!is_not_resolvable\(x\)\)", hd)
    br1 = re.search(r"if\s*\(\s*body\s*\)\s*\{\s*resolve_in_progress\s*\(\s*type\s*\)\s*;", b)
    br2 = re.search(r"else\s+if\s*\(\s*type->u\.type->head\s*\)\s*\{\s*resolve_in_progress\s*\(\s*type\s*\)\s*;\s*TYPEresolve\s*\(", b)
    first_rec = b.find("TYPEresolve(")
    ok = bool(macro and isres and notres and {"RESOLVE_FAILED", "RESOLVED", "RESOLVE_IN_PROGRESS"} <= set(notres.group(1).split("|"))
              and br1 and br2 and first_rec > br1.end())
    out.append(("TYPE_resolve_", ok))
    # RENAMEresolve <-> SCOPE_find_for_rename: item-wise USE/REFERENCE chains.  A rename is "seen" once it has an object, has
    # failed or is in progress; the in-progress mark is set before the search, and is only cleared after one of the other two
    # has been set.
    t = _strip_comments(_read(repo, "src/express/express.c"))
    b = _body(t, r"void\s+RENAMEresolve\s*\([^)]*\)\s*\{", "RENAMEresolve")
    pos = [re.search(p_, b) for p_ in (
        r"if\s*\(\s*r->object\s*\)\s*\{\s*return\s*;",
        r"if\s*\(\s*is_resolve_failed_raw\s*\(\s*r->old\s*\)\s*\)\s*\{\s*return\s*;",
        r"if\s*\(\s*is_resolve_in_progress_raw\s*\(\s*r->old\s*\)\s*\)\s*\{[^}]*return\s*;",
        r"resolve_in_progress_raw\s*\(\s*r->old\s*\)\s*;\s*remote\s*=\s*SCOPEfind_for_rename\s*\(",
        r"if\s*\(\s*remote\s*==\s*0\s*\)\s*\{[^}]*resolve_failed_raw\s*\(\s*r->old\s*\)\s*;\s*\}\s*else\s*\{\s*r->object\s*=\s*remote\s*;",
        r"resolve_not_in_progress_raw\s*\(\s*r->old\s*\)\s*;\s*$")]
    ok = all(pos) and all(pos[i].start() < pos[i + 1].start() for i in range(len(pos) - 1))
    out.append(("RENAMEresolve", bool(ok)))
    return out, sorted(bumpers)


# ------------------------------------------------------------------ walks over lattices
def dag_walks(repo):
    """(function, expands every node once): a membership test on the list of expanded nodes that returns, and the insertion,
    both before the recursion"""
    out = []
    t = _strip_comments(_read(repo, "src/express/entity.c"))
    b = _functions(t).get("ENTITY_get_all_attributes", "")
    g = re.search(r"LISTdo\s*\(\s*seen\s*,\s*(\w+)\s*,\s*Entity\s*\)\s*if\s*\(\s*\1\s*==\s*entity\s*\)\s*\{\s*return\s*;\s*\}\s*LISTod\s*;?\s*LISTadd_last\s*\(\s*seen\s*,\s*entity\s*\)\s*;", b)
    rec = b.find("ENTITY_get_all_attributes(")
    out.append(("ENTITY_get_all_attributes", bool(g and rec > g.end())))
    t = _strip_comments(_read(repo, "src/exp2python/src/classes_python.c"))
    b = _functions(t).get("ENTITYhas_ancestor_", "")
    g = re.search(r"LISTdo\s*\(\s*seen\s*,\s*(\w+)\s*,\s*Entity\s*\)\s*\{\s*if\s*\(\s*\1\s*==\s*e\s*\)\s*\{\s*return\s+false\s*;\s*\}\s*\}\s*LISTod\s*;?\s*LISTadd_last\s*\(\s*seen\s*,\s*e\s*\)\s*;", b)
    rec = b.find("ENTITYhas_ancestor_(")
    plain = _functions(t).get("ENTITYhas_ancestor", "")
    out.append(("ENTITYhas_ancestor", bool(g and rec > g.end() and "ENTITYhas_ancestor_(" in plain and "ENTITYhas_ancestor(" not in plain)))
    t = _strip_comments(_read(repo, "src/exp2cxx/selects.c"))
    b = _functions(t).get("non_unique_types_vector_", "")
    g = re.search(r"for\s*\(\s*k\s*=\s*\*known\s*;\s*k\s*;\s*k\s*=\s*k->next\s*\)\s*\{\s*if\s*\(\s*k->type\s*==\s*type\s*\)\s*\{.*?return\s*;\s*\}\s*\}.*?\*known\s*=\s*k\s*;", b, re.S)
    rec = b.find("non_unique_types_vector_(")
    pub = _functions(t).get("non_unique_types_vector", "")
    out.append(("non_unique_types_vector", bool(g and rec > g.end() and "non_unique_types_vector_(" in pub and not re.search(r"non_unique_types_vector\s*\(", pub))))
    # exp2cxx complex entity support: node budget
    budget = None
    mc = _strip_comments(_read(repo, "src/exp2cxx/multlist.cc"))
    hd = _strip_comments(_read(repo, "src/exp2cxx/complexSupport.h"))
    m = re.search(r"#define\s+MAX_ENTLIST_NODES\s+(\d+)", mc)
    cn = _functions(mc).get("countNode", "")
    if (m and re.search(r"if\s*\(\s*\+\+nodes\s*>\s*MAX_ENTLIST_NODES\s*\)\s*\{[^}]*fprintf\s*\(\s*stderr[^}]*exit\s*\(\s*EXPRESS_fail", cn, re.S)
            and re.search(r"EntList\s*\(\s*JoinType\s+j\s*\)\s*:[^{]*\{\s*countNode\s*\(\s*\)\s*;", hd)):
        budget = int(m.group(1))
    return out, budget


# ------------------------------------------------------------------ exit-status discipline
def _block_at(text, i):
    """(content, end) of the brace block that opens at or after position i"""
    j = text.index("{", i)
    inner = _body(text[j - 1:], r".", "block")      # _body looks for the first '{' from the match on
    return inner, j + 1 + len(inner) + 1


_ACTS = [(r"^(v?fprintf\s*\(\s*(error_file|stderr)\b|fputc\s*\([^;]*,\s*(error_file|stderr)\s*\))", "print"),
         (r"^ERROR_v?printf\s*\(", "buf"), (r"^ERROR_nexterror\s*\(\s*\)", "commit"),
         (r"^ERRORoccurred\s*=\s*true$", "setOccurred"), (r"^(ERROR_flush_message_buffer|ERRORflush_messages)\s*\(\s*\)$", "flush"),
         (r"^ERROR_start_message_buffer\s*\(\s*\)$", "restart")]


def _acts(block, what):
    out = []
    for st in block.split(";"):
        st = " ".join(st.split())
        if not st:
            continue
        for rx, a in _ACTS:
            if re.search(rx, st):
                out.append(a)
                break
        else:
            raise ValueError(f"{what}: statement not understood: {st!r}")
    return out


def _sev_branches(text, what):
    """the three-part shape  if (sev >= ERROR) {A} else {B}  if (sev >= EXIT [|| full...]) { C  if (sev >= DUMP) abort(); else exit(EXPRESS_fail(0)); }"""
    m = re.search(r"if\s*\(\s*what->severity\s*>=\s*SEVERITY_ERROR\s*\)\s*\{", text)
    if not m:
        raise ValueError(f"{what}: severity test not found")
    a, e1 = _block_at(text, m.end() - 1)
    m2 = re.match(r"\s*else\s*\{", text[e1:])
    if not m2:
        raise ValueError(f"{what}: else branch of the severity test not found")
    b, e2 = _block_at(text, e1 + m2.end() - 1)
    m3 = re.match(r"\s*if\s*\(\s*what->severity\s*>=\s*SEVERITY_EXIT\s*(\|\|[^{]*)?\)\s*\{", text[e2:])
    if not m3:
        raise ValueError(f"{what}: SEVERITY_EXIT test not found")
    c, e3 = _block_at(text, e2 + m3.end() - 1)
    m4 = re.search(r"if\s*\(\s*what->severity\s*>=\s*SEVERITY_DUMP\s*\)\s*\{\s*abort\s*\(\s*\)\s*;\s*\}\s*else\s*\{\s*exit\s*\(\s*EXPRESS_fail\s*\([^;]*\)\s*\)\s*;\s*\}\s*$", c)
    if not m4:
        raise ValueError(f"{what}: abort()/exit( EXPRESS_fail ) decision not found")
    full = []
    rest = text[e3:]
    m5 = re.match(r"\s*if\s*\(\s*(?:ERROR_string\s*\+|ERROR_with_lines)[^{]*\)\s*\{", rest)
    if m5:
        fb, e5 = _block_at(rest, m5.end() - 1)
        full = _acts(fb, what + "/full")
        rest = rest[e5:]
    if rest.strip():
        raise ValueError(f"{what}: code after the exit decision: {rest.strip()[:60]!r}")
    return {"pre": text[:m.start()], "err": _acts(a, what), "warn": _acts(b, what), "exit": _acts(c[:m4.start()], what), "alsoWhenFull": bool(m3.group(1)), "full": full}


def _functions(text):
    """name -> body of every function defined in (comment-free) C text"""
    out = {}
    for m in re.finditer(r"^(?:[A-Za-z_][\w \t\*:]*?[ \t\*:])?(\w+)\s*\(([^;{}()]|\([^;{}()]*\))*\)\s*\{", text, re.M):
        if m.group(1) in ("if", "while", "for", "switch"):
            continue
        try:
            out.setdefault(m.group(1), _body(text[m.start():], r"\)\s*\{", m.group(1)))
        except (IndexError, ValueError):
            pass
    return out


def _drop_disabled(text):
    return re.sub(r"^[ \t]*#\s*if(def\s+HASHTEST|\s+0)\b.*?^[ \t]*#\s*endif[^\n]*", "", text, flags=re.S | re.M)


def exit_discipline(repo):
    hdr = _strip_comments(_read(repo, "include/express/error.h"))
    m = re.search(r"enum\s+Severity\s*\{([^}]*)\}", hdr)
    names = [x.strip().split("=")[0].strip() for x in m.group(1).split(",") if x.strip()]
    if names[:4] != ["SEVERITY_WARNING", "SEVERITY_ERROR", "SEVERITY_EXIT", "SEVERITY_DUMP"]:
        raise ValueError(f"enum Severity: {names}")
    sev = {n: i for i, n in enumerate(names)}
    m = re.search(r"enum\s+ErrorCode\s*\{([^}]*)\}", hdr)
    codes, values, nxt = [], {}, 0
    for x in m.group(1).split(","):
        if not x.strip():
            continue
        nm, _, val = x.partition("=")
        nm = nm.strip()
        if val.strip():
            nxt = int(val.strip(), 0)
        codes.append(nm)
        values[nm] = nxt
        nxt += 1
    err_c = _strip_comments(_read(repo, "src/express/error.c"))
    m = re.search(r"LibErrors\s*\[\s*\]\s*=\s*\{", err_c)
    table, _ = _block_at(err_c, m.end() - 1)
    entries = dict(re.findall(r"\[\s*(\w+)\s*\]\s*=\s*\{\s*(SEVERITY_\w+)\s*,", table))
    missing = [c for c in codes if c not in entries]
    if missing or len(entries) != len(codes):
        raise ValueError(f"LibErrors and enum ErrorCode differ: {missing[:5]}")
    # index = the number of the code (PEnnn); numbers without a table entry are zero-initialised (severity 0)
    sevs = [0] * (max(values.values()) + 1)
    for c in codes:
        sevs[values[c]] = sev[entries[c]]
    fns = _functions(err_c)
    gate = r"^\s*(va_list\s+args\s*;|va_start\s*\([^;]*;|Error\s+what\s*=\s*&LibErrors\[errnum\]\s*;|\s)*if\s*\(\s*errnum\s*!=\s*SUBORDINATE_FAILED\s*&&\s*ERRORis_enabled\s*\(\s*errnum\s*\)\s*\)\s*\{"
    reports = []
    # ERRORreport: prints directly in both modes
    b = fns["ERRORreport"]
    mg = re.search(gate, b)
    if not mg:
        raise ValueError("ERRORreport: enabled/SUBORDINATE_FAILED gate not found")
    inner, e = _block_at(b, mg.end() - 1)
    if re.sub(r"va_end\s*\(\s*args\s*\)\s*;", "", b[e:]).strip():
        raise ValueError("ERRORreport: code after the gated block")
    r = _sev_branches(inner, "ERRORreport")
    if r["pre"].strip():
        raise ValueError("ERRORreport: code before the severity test")
    reports.append(("ERRORreport", r))
    b = fns["ERRORvreport_with_symbol"]
    mg = re.search(gate, b)
    if not mg:
        raise ValueError("ERRORvreport_with_symbol: gate not found")
    inner, e = _block_at(b, mg.end() - 1)
    if b[e:].strip():
        raise ValueError("ERRORvreport_with_symbol: code after the gated block")
    mb = re.match(r"\s*if\s*\(\s*__ERROR_buffer_errors\s*\)\s*\{", inner)
    if not mb:
        raise ValueError("ERRORvreport_with_symbol: buffered/unbuffered split not found")
    buf, e1 = _block_at(inner, mb.end() - 1)
    me = re.match(r"\s*else\s*\{", inner[e1:])
    unb, e2 = _block_at(inner, e1 + me.end() - 1)
    if inner[e2:].strip():
        raise ValueError("ERRORvreport_with_symbol: code after the unbuffered branch")
    rb = _sev_branches(buf, "ERRORvreport_with_symbol/buffered")
    # what precedes in the buffered branch is the heap insertion: no output, no flag
    if re.search(r"printf|ERRORoccurred|exit\s*\(|abort\s*\(", rb["pre"]):
        raise ValueError("ERRORvreport_with_symbol: output or exit in the heap insertion")
    ru = _sev_branches(unb, "ERRORvreport_with_symbol/unbuffered")
    if ru["pre"].strip():
        raise ValueError("ERRORvreport_with_symbol: code before the severity test (unbuffered)")
    reports += [("ERRORvreport_with_symbol/buffered", rb), ("ERRORvreport_with_symbol/unbuffered", ru)]
    enabled = re.search(r"ERRORis_enabled\s*\([^)]*\)\s*\{\s*Error\s+err\s*=\s*&LibErrors\[errnum\]\s*;\s*return\s*!\s*err->override\s*;", err_c)
    if not enabled:
        raise ValueError("ERRORis_enabled: not the negated override flag")
    # the flush prints every stored message and empties the heap
    fl = fns["ERROR_flush_message_buffer"]
    if not re.search(r"while\s*\(\s*ERROR_with_lines\s*\)\s*\{[^}]*fprintf\s*\(\s*stderr\s*,[^;]*heap\[1\]\.msg", fl, re.S) or "ERROR_with_lines--" not in fl:
        raise ValueError("ERROR_flush_message_buffer: print-and-pop loop not found")
    inl = re.search(r"ERRORflush_messages\s*\(\s*void\s*\)\s*\{\s*if\s*\(\s*__ERROR_buffer_errors\s*\)\s*\{\s*ERROR_flush_message_buffer\s*\(\s*\)\s*;", hdr)
    if not inl:
        raise ValueError("ERRORflush_messages: does not flush")
    ex_c = _strip_comments(_read(repo, "src/express/express.c"))
    efn = _functions(ex_c)

    def tail(fn, status_re):
        b = efn[fn]
        mh = re.search(r"if\s*\(\s*EXPRESS(fail|succeed)\s*\)\s*\{\s*return\s*\(\s*\(\s*\*\s*EXPRESS(fail|succeed)\s*\)\s*\(\s*model\s*\)\s*\)\s*;\s*\}", b)
        if not mh:
            raise ValueError(f"{fn}: hook call not found")
        before = _acts(b[:mh.start()], fn)
        mt = re.match(r"\s*(fprintf\s*\(\s*stderr\s*,[^;]*)\s*;\s*return\s+(\d+)\s*;\s*$", b[mh.end():])
        if not mt:
            raise ValueError(f"{fn}: trailer and status not found")
        return before, int(mt.group(2))
    fail_pre, fail_status = tail("EXPRESS_fail", None)
    succ_pre, succ_status = tail("EXPRESS_succeed", None)
    # who installs a failure hook (nobody, in the four tools); the success hooks print their own line
    hooks_fail = []
    for f in sorted(_glob_sources(repo)):
        t = _strip_comments(open(f, encoding="latin-1").read())
        if re.search(r"\bEXPRESSfail\s*=[^=]", t):
            hooks_fail.append(os.path.relpath(f, repo))
    # main(): the checks of ERRORoccurred after the three phases
    fx = _strip_comments(_read(repo, "src/express/fedex.c"))
    mainb = _functions(fx)["main"]
    pos = {k: mainb.find(k) for k in ("EXPRESSparse(", "EXPRESSresolve(", "( *EXPRESSbackend )(", "EXPRESS_succeed(")}
    if min(pos.values()) < 0:
        raise ValueError(f"main: phases not found {pos}")
    chk = [mm.start() for mm in re.finditer(r"if\s*\(\s*ERRORoccurred\s*\)\s*\{\s*result\s*=\s*EXPRESS_fail\s*\(\s*model\s*\)\s*;[^}]*return\s+result\s*;\s*\}", mainb)]
    order = [pos["EXPRESSparse("], pos["EXPRESSresolve("], pos["( *EXPRESSbackend )("], pos["EXPRESS_succeed("]]
    checks = [any(order[i] < c < order[i + 1] for c in chk) for i in range(3)]
    mu = re.search(r"if\s*\(\s*!input_filename\s*\)\s*\{(.*?)\n    \}\n", mainb, re.S)
    no_input = mu.group(1) if mu else ""
    usage_guarded = bool(re.search(r"else\s+if\s*\(\s*ERRORusage_function\s*\)\s*\{\s*\(\s*\*\s*ERRORusage_function\s*\)\s*\(\s*\)\s*;\s*\}\s*else\s*\{\s*EXPRESSusage\s*\(\s*1\s*\)\s*;", no_input))
    if "ERRORusage_function" not in no_input:
        raise ValueError("main: the path without an input file was not found")
    sets_usage = {"check-express": bool(re.search(r"ERRORusage_function\s*=\s*[A-Za-z_]", _strip_comments(_read(repo, "src/express/inithook.c"))))}
    for tool, rel in (("exppp", "src/exppp/exppp-main.c"), ("exp2cxx", "src/exp2cxx/fedex_main.c"), ("exp2python", "src/exp2python/src/fedex_main_python.c")):
        sets_usage[tool] = bool(re.search(r"ERRORusage_function\s*=\s*[A-Za-z_]", _strip_comments(_read(repo, rel))))
    # every other exit( ) of the four tools
    sites = []
    for f in sorted(_glob_sources(repo)):
        rel = os.path.relpath(f, repo)
        t = _drop_disabled(_strip_comments(open(f, encoding="latin-1").read()))
        if "exit" not in t:
            continue
        ff = _functions(t)

        def prints(body, depth=0):
            if re.search(r"fprintf\s*\(\s*stderr|ERRORreport|\bperror\s*\(|\bcerr\s*<<", body):
                return True
            if depth >= 3:
                return False
            return any(prints(ff[c], depth + 1) for c in set(re.findall(r"\b([A-Za-z_]\w*)\s*\(", body)) if c in ff and ff[c] is not body)
        for name, body in ff.items():
            for mm in re.finditer(r"\bexit\s*\(\s*(.*?)\s*\)\s*;", body):
                arg = " ".join(mm.group(1).split())
                if rel.endswith("src/express/error.c") and "EXPRESS_fail" in arg:
                    continue            # the three exits modelled above
                before = body[:mm.start()]
                # the condition that guards the exit counts as "before"
                sites.append((f"{rel}:{name}", arg, prints(before)))
    # ERRORoccurred is written nowhere else (the generated parser and scanner included)
    import glob as _glob
    stray = 0
    for f in _glob_sources(repo) + _glob.glob(os.path.join(repo, "src/express/generated/*.c")) + _glob.glob(os.path.join(repo, "src/express/*.[yl]")):
        t = _strip_comments(open(f, encoding="latin-1").read())
        stray += len(re.findall(r"\bERRORoccurred\s*(=[^=]|\+\+|--|[|&^+\-]=)", t))
    stray -= 1 + sum(r["err"].count("setOccurred") + r["warn"].count("setOccurred") for _, r in reports)     # the definition `= false` and the modelled ones
    total = len(re.findall(r"\bexit\s*\(", "".join(_drop_disabled(_strip_comments(open(f, encoding="latin-1").read())) for f in _glob_sources(repo))))
    if total != len(sites) + 3:
        raise ValueError(f"{total} calls of exit( ) in the sources, {len(sites)} + 3 understood")
    return {"sevs": sevs, "subordinate": values["SUBORDINATE_FAILED"], "reports": reports, "failPre": fail_pre, "failStatus": fail_status,
            "succPre": succ_pre, "succStatus": succ_status, "failHooks": hooks_fail, "checks": checks, "usageGuarded": usage_guarded,
            "setsUsage": sets_usage, "sites": sites, "stray": stray, "thresholds": (sev["SEVERITY_ERROR"], sev["SEVERITY_EXIT"], sev["SEVERITY_DUMP"])}


def _glob_sources(repo):
    import glob as _glob
    out = []
    for d in ("src/express", "src/exppp", "src/exp2cxx", "src/exp2python/src"):
        for ext in ("*.c", "*.cc"):
            out += _glob.glob(os.path.join(repo, d, ext))
    return [f for f in out if "/test" not in f]


def _opt(v):
    return "none" if v is None else f"(some {v})"


def extract(repo):
    rcap, rprogs = remark(repo)
    scap, sg, sgd, npush, npop = scope(repo)
    e = errors(repo)
    x = exppp(repo)
    nm = names(repo)
    gt = gates(repo)
    dcap, dbounded = description(repo)
    fcap, fext, fapp, fguard = exppp_filename(repo)
    inh_first, na_first = recursion_marks(repo)
    nu = non_unique(repo)
    sb_alloc, sb_room, sb_policy, sb_extra = string_buffer(repo)
    sel_stable = select_search(repo)
    nest, otherwise = nesting_limits(repo)
    pyind = python_indent(repo)
    rs_guard = rename_search(repo)
    sc_cap, sc_guard = scan_buffers(repo)
    walks, bumpers = graph_walks(repo)
    xd = exit_discipline(repo)
    dwalks, node_budget = dag_walks(repo)
    oc_cap, oc_guarded = open_comments(repo)
    sf_cap, sf_name, sf_bounded, sf_ext, sf_dir = schema_files(repo)
    es_mul, es_add, es_per = escape_buffer(repo)
    py_init, py_ensure, py_sep, py_close = py_call(repo)
    L = []
    A = L.append
    A("-- GENERATED by tools/extract.d/c06_buffers.py from src/express/lexact.c, src/express/generated/expparse.c,")
    A("-- src/express/expparse.y, src/express/error.c, src/express/express.c, src/exppp/exppp.c, src/exppp/pretty_expr.c,")
    A("-- src/exp2cxx/class_strings.c.  Do not edit.")
    A("import StepModel.BuffersCore")
    A("namespace StepModel.Generated.C06")
    A("open StepModel.Buffers")
    A("")
    A("/-- `static char last_comment_[..]` (lexact.c) -/")
    A(f"def remarkCap : Nat := {rcap}")
    A("/-- statements of `SCANprocess_semicolon` that write `last_comment_`, in order (source = text from the first '-') -/")
    A(f"def semicolonOps : List CopyOp := [{', '.join(rprogs['SCANprocess_semicolon'])}]")
    A("/-- statements of `SCANsave_comment` that write `last_comment_`, in order -/")
    A(f"def saveCommentOps : List CopyOp := [{', '.join(rprogs['SCANsave_comment'])}]")
    A("")
    A("/-- `scopes[MAX_SCOPE_DEPTH]`; `guard = some L`: a push is refused with a fatal diagnostic when `scope - scopes ≥ L` -/")
    A(f"def scopeCfg : ScopeCfg := {{ cap := {scap}, guard := {_opt(sg)}, dummyGuard := {_opt(sgd)} }}")
    A(f"def scopePushSites : Nat := {npush}")
    A(f"def scopePopSites : Nat := {npop}")
    A("")
    A("/-- error.c: buffered, line-numbered diagnostics -/")
    A("def errCfg : ErrCfg := {")
    A(f"  maxErrors := {e['env']['ERROR_MAX_ERRORS']}, maxSpace := {e['env']['ERROR_MAX_SPACE']}, maxStrlen := {e['env']['ERROR_MAX_STRLEN']},")
    A(f"  heapSize := {e['heap']}, allocated := {e['alloc']}, span := {e['span']},")
    A(f"  boundedPrint := {str(e['bounded']).lower()}, clampOnTruncation := {str(e['clamp']).lower()}, nextGuard := {str(e['next_guard']).lower()}, nextWrites := {e['next_writes']},")
    sgd_ = e["space_guard"]
    A(f"  spaceGuard := {_opt(None if sgd_ is None else f'({sgd_[0]}, {sgd_[1]})')}, countGuard := {_opt(e['count_guard'])}, fullContinues := {str(e['full_continues']).lower()} }}")
    A("")
    A("/-- `LibErrors[]`: (code name, severity is at most SEVERITY_WARNING, warning-class name or none for NULL) -/")
    A("def libErrorClasses : List (String × Bool × Option String) := [")
    rows = []
    for code, sev, _msg, cls in e["ents"]:
        rows.append(f'  ("{code}", {str(sev == "SEVERITY_WARNING").lower()}, {"none" if cls == "NULL" else "some " + cls})')
    A(",\n".join(rows) + "]")
    A("/-- `ERRORset_warning` tests `err->name` before `strcmp( err->name, name )` -/")
    A(f"def setWarningNameGuard : Bool := {str(e['name_guard']).lower()}")
    A("")
    A("/-- exit statuses: EXPRESS_fail, EXPRESS_succeed defaults, `success` hooks of the generators, usage functions -/")
    A(f"def exitCfg : ExitCfg := {{ fail := {e['fail']}, succeed := {e['succeed']}, hooks := {e['hooks']}, usage := {e['usage']} }}")
    A("")
    A("/-- exppp.c `wrap()` / `raw()`: local buffer and how the fragment is formatted into it -/")
    A(f"def wrapFmt : FmtCfg := {{ cap := {x['wrap'][0]}, call := {x['wrap'][1]} }}")
    A(f"def rawFmt : FmtCfg := {{ cap := {x['raw'][0]}, call := {x['raw'][1]} }}")
    A("/-- `wrap()`'s continuation line `sprintf( line, \"\\n%*s\", indent2, \"\" )` -/")
    A(f"def lineCfg : LineCfg := {{ cap := {x['line'][0]}, alloc := {x['line'][1]} }}")
    el = x["elen"]
    A("/-- pretty_expr.c `EXPRlength`: buffer handed to `EXPRstring`, and the constants of `EXPRstring_bound` -/")
    if el[1] == ".fixed":
        A(f"def exprLenCfg : ExprLenCfg := {{ cap := {el[0]}, sized := false, base := 0, perArg := 0, needExtra := 0, nameFactor := 1, repeatCounted := true }}")
    else:
        A(f"def exprLenCfg : ExprLenCfg := {{ cap := {el[0]}, sized := true, base := {el[2]}, perArg := {el[3]}, needExtra := {el[4]}, nameFactor := {el[5]}, repeatCounted := {str(x['repeat_counted']).lower()} }}")
    A("/-- expression kinds for which EXPRstring descends into a sub-expression that EXPRstring_bound does not count (compared case by case) -/")
    A("def exprChildMismatch : List String := [" + ", ".join('"' + m_.replace('"', "'") + '"' for m_ in x["child_mismatch"]) + "]")
    A("/-- most bytes `EXPRstring` writes for one character of a string literal (1: copied as is; 2: an apostrophe is doubled) -/")
    A(f"def exprNameWriteFactor : Nat := {x['wfac']}")
    A("/-- most fixed text (literals, a formatted number) `EXPRstring` adds for one node; longest list separator -/")
    A(f"def exprFixedMax : Nat := {x['fixed']}")
    A(f"def exprSepMax : Nat := {x['sep']}")
    A("")
    A("/-- class_strings.c: `static char newword[MAX_LEN+1]` filled by a loop over the argument; `limit = some L`: loop stops at i = L -/")
    A("def caseFns : List (String × LoopCfg) := [")
    A(",\n".join(f'  ("{fn}", {{ cap := {cap}, limit := {_opt(lim)} }})' for fn, cap, lim in nm) + "]")
    A("")
    A("/-- identifier-length gate of the generators (`check_identifier_lengths` called first in `print_file`): (tool, limit, MAX_LEN) -/")
    A("def identGates : List (String × Option Nat × Nat) := [")
    A(",\n".join(f'  ("{tool}", {_opt(lim)}, {ml})' for tool, lim, ml in gt) + "]")
    A("")
    A("/-- exp2cxx `TypeDescription`: static buffer; `bounded` = every append goes through `desc_cat` (strncat with the room left) -/")
    A(f"def descCfg : DescCfg := {{ cap := {dcap}, bounded := {str(dbounded).lower()} }}")
    A("")
    A("/-- exppp `SCHEMAout`: `exppp_filename_buffer[cap]`, `sprintf \"%s<ext>\"`, optional `strcat <app>`, `guard = some g`: refused when strlen(name) + g > cap -/")
    A(f"def fileNameCfg : FileNameCfg := {{ cap := {fcap}, ext := {fext}, app := {fapp}, guard := {_opt(fguard)} }}")
    A("")
    A("/-- `ENTITYcalculate_inheritance` stores a count (≠ UNINITIALIZED) into the entity before it walks the supertypes -/")
    A(f"def inheritanceMarkFirst : Bool := {str(inh_first).lower()}")
    A("/-- the inherited-attribute look-up of the OVERLOADED_ATTR check (`ENTITYresolve_expressions`) marks the entity (`search_id`) before it walks the supertypes -/")
    A(f"def namedAttrMarkFirst : Bool := {str(na_first).lower()}")
    A("")
    A("/-- `non_unique_types_string`: (tool, malloc'ed bytes, lengths of \"(\", \" | \", \"0\", \")\" and of the kind names in switch order) -/")
    A("def nonUniqueCfgs : List (String × NonUniqueCfg) := [")
    A(",\n".join(f'  ("{tool}", {{ cap := {cap}, openLen := {op}, sepLen := {sep}, zeroLen := {zero}, closeLen := {cl}, kinds := {kinds} }})'
                  for tool, cap, op, sep, zero, cl, kinds in nu) + "]")
    A("")
    A("/-- exppp print-to-string mode (`prep_string`, `exp_output`): bytes malloc'ed, room announced, what happens to a chunk that does not fit, `memcpy( …, len + extra )` -/")
    A(f"def strBufCfg : StrBufCfg := {{ allocated := {sb_alloc}, room := {sb_room}, policy := {sb_policy}, copyExtra := {sb_extra} }}")
    A("/-- `EXP_resolve_op_dot_fuzzy` / `EXP_resolve_op_group_fuzzy` mark visited selects, before recursing, with an id that is fixed for the search -/")
    A(f"def selectSearchMarkStable : Bool := {str(sel_stable).lower()}")
    A("")
    A("/-- resolve.c: `some L` = the recursive resolver of this kind refuses (fatal SYNTAX diagnostic) to go deeper than L levels -/")
    A("def nestingLimits : List (String × Option Nat) := [" + ", ".join(f'("{w}", {_opt(l)})' for w, l in nest) + "]")
    A("/-- `CASE_ITresolve` also resolves the action of OTHERWISE (an item without labels), so nesting below it is counted -/")
    A(f"def otherwiseResolved : Bool := {str(otherwise).lower()}")
    A("/-- exp2python `python_indent`: one fprintf per level (`.loop`) or one fwrite from an array of n tabs (`.array n`) -/")
    A(f"def pythonIndent : IndentCfg := {pyind}")
    A("/-- express.c: the rename look-up (`SCOPEfind_for_rename`) does not re-enter a schema that is already on its call chain -/")
    A(f"def renameSearchPathGuard : Bool := {str(rs_guard == 'path').lower()}")
    A("/-- the same as a three-way answer: .path, .origin (only the schema the search started in) or .none -/")
    A(f"def renameSearchGuardKind : RenameGuard := .{rs_guard}")
    A("/-- lexact.c `SCAN_buffers[SCAN_NESTING_DEPTH]` and the test in `SCANinclude_file` -/")
    A(f"def scanCfg : ScanCfg := {{ cap := {sc_cap}, guard := {_opt(sc_guard)} }}")
    A("/-- expscan.l / generated/expscan.c `open_comment[MAX_NESTED_COMMENTS]`: every store is inside `if (nesting_level < MAX_NESTED_COMMENTS)` -/")
    A(f"def commentCfg : CommentCfg := {{ cap := {oc_cap}, guarded := {str(oc_guarded).lower()} }}")
    A("/-- express.c: `lower[]`, `Dir.full[]`, the length test of EXPRESSfind_schema, the bounded append, the EXPRESS_PATH entry test -/")
    A(f"def schemaFileCfg : SchemaFileCfg := {{ lowerCap := {sf_cap}, fullCap := {sf_cap}, nameGuard := {str(sf_name).lower()}, boundedAppend := {str(sf_bounded).lower()}, ext := {sf_ext}, dirGuard := {_opt(sf_dir)} }}")
    A("/-- exp2cxx: `malloc( mul * strlen( tmp ) + add )` for `format_for_stringout`, which stores at most `perChar` bytes per character -/")
    A(f"def escapeCfg : EscapeCfg := {{ mul := {es_mul}, add := {es_add}, perChar := {es_per} }}")
    A("/-- exp2python `EXPRto_python`, function-call branch -/")
    A(f"def pyCallCfg : PyCallCfg := {{ initial := {py_init}, ensure := {_opt(py_ensure)}, sep := {py_sep}, close := {py_close} }}")
    A("/-- recursive walks over the USE graph: (function, marks the schema with the current search id before recursing and starts no other search meanwhile) -/")
    A("def graphWalks : List (String × Bool) := [" + ", ".join(f'("{f}", {str(ok).lower()})' for f, ok in walks) + "]")
    A("/-- walks over lattices (supertypes, select members): (function, every node is expanded once) -/")
    A("def dagWalks : List (String × Bool) := [" + ", ".join(f'("{f}", {str(ok).lower()})' for f, ok in dwalks) + "]")
    A("/-- exp2cxx: MAX_ENTLIST_NODES, counted in the constructor of EntList, beyond it a diagnostic and exit( EXPRESS_fail ) -/")
    A(f"def complexNodeBudget : Option Nat := {_opt(node_budget)}")
    A("/-- RENAMEresolve: in-progress mark before the search, cleared only after `failed` or the object is set -/")
    A(f"def renameResolveMarkFirst : Bool := {str(dict(walks)['RENAMEresolve']).lower()}")
    A("/-- functions of src/express that start a new search (increment `__SCOPE_search_id`) -/")
    A("def searchStarters : List String := [" + ", ".join(f'"{x}"' for x in bumpers) + "]")
    def _fn(r):
        acts = lambda l: "[" + ", ".join("." + a for a in l) + "]"
        return f"{{ errActs := {acts(r['err'])}, warnActs := {acts(r['warn'])}, exitActs := {acts(r['exit'])}, alsoWhenFull := {str(r['alsoWhenFull']).lower()}, fullActs := {acts(r['full'])} }}"
    acts = lambda l: "[" + ", ".join("." + a for a in l) + "]"
    rep = dict(xd["reports"])
    A("/-- error.c / express.c / fedex.c: the branches of the reporting functions as action sequences, the severities of LibErrors,")
    A("EXPRESS_fail / EXPRESS_succeed, and the `if( ERRORoccurred )` tests of main after parse, resolve and back end -/")
    A("def exitDiscCfg : ExitDiscCfg :=")
    A(f"  {{ sevs := {xd['sevs']}, subordinate := {xd['subordinate']},")
    A(f"    sevError := {xd['thresholds'][0]}, sevExit := {xd['thresholds'][1]}, sevDump := {xd['thresholds'][2]},")
    A(f"    plain := {_fn(rep['ERRORreport'])},")
    A(f"    symBuffered := {_fn(rep['ERRORvreport_with_symbol/buffered'])},")
    A(f"    symPlain := {_fn(rep['ERRORvreport_with_symbol/unbuffered'])},")
    A(f"    failActs := {acts(xd['failPre'])}, failHooks := {len(xd['failHooks'])}, strayWrites := {xd['stray']}, failStatus := {xd['failStatus']},")
    A(f"    succActs := {acts(xd['succPre'])}, succStatus := {xd['succStatus']},")
    A(f"    checks := [{', '.join(str(b).lower() for b in xd['checks'])}] }}")
    A("/-- every other `exit( )` in the sources of the four tools: (file:function, argument, something is printed to stderr before it in that function or in a function it calls) -/")
    A("def exitSites : List (String × String × Bool) := [" + ", ".join(f'("{a}", "{b}", {str(c).lower()})' for a, b, c in xd["sites"]) + "]")
    A("/-- main without an input file: the usage function pointer is tested before it is called (check-express installs none) -/")
    A(f"def usageFallback : Bool := {str(xd['usageGuarded']).lower()}")
    A("def installsUsage : List (String × Bool) := [" + ", ".join(f'("{k}", {str(v).lower()})' for k, v in sorted(xd["setsUsage"].items())) + "]")
    A("")
    A("end StepModel.Generated.C06")
    return {"C06Buffers.lean": "\n".join(L) + "\n"}


if __name__ == "__main__":
    import sys
    print(extract(sys.argv[1] if len(sys.argv) > 1 else "/repo")["C06Buffers.lean"])

"""exp2cxx's ComplexCollect list discipline -> Generated/CxxCollectGen.lean   (C17: exp2cxx terminates and writes compstructs.cc)

src/exp2cxx/collect.cc      ComplexCollect::insert  - walk `while( cl && *cl < *c )`, put c before the element it stops at
                            ComplexCollect::remove  - the walk that looks for c:   recognised forms (anything else raises)
                               whileLess                 while( cl && *cl < *c )                          (stops at the FIRST list of c's name)
                               untilSelfWhileNotGreater  while( cl && ( cl != c ) && !( *c < *cl ) )      (goes on over equal names until c itself)
                            then `if( cl == NULL || cl != c ) return;` and the unlink of cl
src/exp2cxx/complexSupport.h ComplexList::operator<  = strcmp( supertype(), c.supertype() ) < 0
src/exp2cxx/expressbuild.cc ComplexCollect::ComplexCollect - the loop that drops the dependent lists:
                               cl = clists; while( cl ) { if( cl->Dependent() ) { remove( cl ); cl = prev ? prev->next : clists; } else { prev = cl; cl = cl->next; } }
                            and a ComplexList is built only for entities with `u.entity->subtypes != NULL`, `dependent` = has supertypes
Only the conditions / statements named here are matched (comments and layout are free).
"""
import os, re


def _flat(path):
    """the source without comments and white space; string literals are kept as they are"""
    s = open(path, encoding="utf-8", errors="replace").read()
    s = re.sub(r"(?ms)^[ \t]*#ifdef\s+COMPLEX_INFO\b.*?^[ \t]*#endif", " ", s)      # tracing, compiled out
    out = []
    for m in re.finditer(r'"(?:\\.|[^"\\\n])*"|\'(?:\\.|[^\'\\\n])*\'|/\*.*?\*/|//[^\n]*|\s+|.', s, flags=re.S):
        t = m.group(0)
        if t.startswith("/*") or t.startswith("//") or t.isspace():
            continue
        out.append(t if t[0] != '"' else t.replace(" ", ""))
    return "".join(out)


def _body(flat, head):
    i = flat.find(head)
    if i < 0:
        raise ValueError(f"{head} not found")
    j = flat.index("{", i)
    depth, k = 0, j
    while True:
        if flat[k] == "{":
            depth += 1
        elif flat[k] == "}":
            depth -= 1
            if depth == 0:
                return flat[j:k + 1]
        k += 1


def extract(repo):
    co = _flat(os.path.join(repo, "src/exp2cxx/collect.cc"))
    ins = _body(co, "voidComplexCollect::insert(ComplexList*c)")
    if "while(cl&&*cl<*c){prev=cl;cl=cl->next;}" not in ins or "prev->next=c;c->next=cl;" not in ins or "clists=c;c->next=cl;" not in ins:
        raise ValueError("ComplexCollect::insert is no longer `walk while *cl < *c, link c before cl`")
    rem = _body(co, "voidComplexCollect::remove(ComplexList*c)")
    m = re.search(r"while\((.*?)\)\{prev=cl;cl=cl->next;\}", rem)
    if not m:
        raise ValueError("ComplexCollect::remove: the walk `while( … ) { prev = cl; cl = cl->next; }` not found")
    cond = m.group(1)
    forms = {"cl&&*cl<*c": "whileLess", "cl&&(cl!=c)&&!(*c<*cl)": "untilSelfWhileNotGreater", "cl&&cl!=c&&!(*c<*cl)": "untilSelfWhileNotGreater"}
    if cond not in forms:
        raise ValueError(f"ComplexCollect::remove: walk condition `{cond}` is not one of the modelled forms")
    if "if(cl==NULL||cl!=c){return;}" not in rem or "clists=c->next;" not in rem or "prev->next=cl->next;" not in rem or "count--;" not in rem:
        raise ValueError("ComplexCollect::remove: give-up test / unlink statements changed")
    hs = _flat(os.path.join(repo, "src/exp2cxx/complexSupport.h"))
    if "intoperator<(ComplexList&c){return(strcmp(supertype(),c.supertype())<0);}" not in hs:
        raise ValueError("ComplexList::operator< is no longer strcmp( supertype(), c.supertype() ) < 0")
    eb = _flat(os.path.join(repo, "src/exp2cxx/expressbuild.cc"))
    ctor = _body(eb, "ComplexCollect::ComplexCollect(Expressexpress)")
    if "if(ent->u.entity->subtypes!=NULL){cl=newComplexList(ent,this);insert(cl);}" not in ctor:
        raise ValueError("ComplexCollect::ComplexCollect: a list is no longer built exactly for entities with subtypes")
    if not re.search(r"cl=clists;while\(cl\)\{if\(cl->Dependent\(\)\)\{remove\(cl\);if\(prev\)\{cl=prev->next;\}else\{cl=clists;\}\}else\{prev=cl;cl=cl->next;\}\}", ctor):
        raise ValueError("ComplexCollect::ComplexCollect: the loop that removes the dependent lists changed")
    cl = _body(eb, "ComplexList::ComplexList(Entityent,ComplexCollect*col)")
    if "if(ENTITYget_supertypes(ent)==NULL){dependent=FALSE;" not in cl or "}else{dependent=TRUE;}" not in cl:
        raise ValueError("ComplexList::ComplexList: `dependent` is no longer `the entity has supertypes`")
    wr = _flat(os.path.join(repo, "src/exp2cxx/write.cc"))
    if 'complex<<"//ComplexListwithsupertype\\""<<clist->supertype()<<"\\":\\n";' not in wr:
        raise ValueError("ComplexCollect::write: the `// ComplexList with supertype \"…\":` line changed")
    text = f"""/- GENERATED by tools/extract.d/cxxcollect.py — do not edit. -/
namespace StepModel.Generated.CxxCollect

/-- how `ComplexCollect::remove( c )` walks the name-ordered list looking for `c` -/
inductive RemoveScan
  | whileLess                  -- while( cl && *cl < *c ): stops at the first list whose name is not smaller
  | untilSelfWhileNotGreater   -- while( cl && cl != c && !( *c < *cl ) ): goes on over equal names until c itself
  deriving DecidableEq, Repr

def removeScan : RemoveScan := .{forms[cond]}

end StepModel.Generated.CxxCollect
"""
    return {"CxxCollectGen.lean": text}

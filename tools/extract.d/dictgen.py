"""C02 constants regenerated from the source -> Generated/DictGen.lean

* pushKey          which comparison `STEPattributeList::push` uses to decide "already on the list"
                   (`sameADesc(..)` / `->aDesc ==`  -> descriptor ;  `*a == *( a2->attr )` -> fullEquality, in which
                   case the fields compared by `operator==( STEPattribute, STEPattribute )` are recorded too)
* literalInfinity  the integer exp2cxx prints for an upper bound `?` (LITERAL_INFINITY->u.integer, INT_MAX)
* prefixes         ENTITYCLASS_PREFIX / ATTR_PREFIX / ENT_PREFIX / TD_PREFIX as character codes
* ctorOrder        the order of the three steps in both generated constructors (supertypes, own pushes)
Anything that no longer matches raises = broken tie.
"""
import os, re


def _body(src, head_re):
    m = re.search(head_re, src)
    if not m:
        raise ValueError(f"pattern {head_re!r} not found")
    i = src.index("{", m.end() - 1)
    depth, j = 0, i
    while j < len(src):
        if src[j] in "\"'":            # skip string / character literals (they contain braces)
            q = src[j]
            j += 1
            while j < len(src) and src[j] != q:
                j += 2 if src[j] == "\\" else 1
            j += 1
            continue
        if src.startswith("/*", j):
            j = src.index("*/", j) + 2
            continue
        if src[j] == "{":
            depth += 1
        elif src[j] == "}":
            depth -= 1
            if depth == 0:
                return src[i:j + 1]
        j += 1
    raise ValueError("unbalanced braces")


def _strip_comments(s):
    s = re.sub(r"/\*.*?\*/", "", s, flags=re.S)
    return re.sub(r"//[^\n]*", "", s)


def extract(repo):
    rd = lambda p: open(os.path.join(repo, p), encoding="latin-1").read()
    # ---- push
    al = _strip_comments(rd("src/clstepcore/STEPattributeList.cc"))
    push = _body(al, r"void\s+STEPattributeList::push\s*\([^)]*\)\s*\{")
    cond = re.search(r"while\s*\(\s*a2\s*\)\s*\{\s*if\s*\((.*?)\)\s*\{\s*return\s*;", push, re.S)
    if not cond:
        raise ValueError("STEPattributeList::push: duplicate test not recognised")
    c = re.sub(r"\s+", "", cond.group(1))
    fields = []
    if c in ("sameADesc(*a,*(a2->attr))", "sameADesc(*(a2->attr),*a)", "a->aDesc==a2->attr->aDesc",
             "a2->attr->aDesc==a->aDesc", "a->getADesc()==a2->attr->getADesc()"):
        key = "descriptor"
        if c.startswith("sameADesc") or c.startswith("sameADesc"):
            sa = _strip_comments(rd("src/clstepcore/STEPattribute.cc"))
            b = re.sub(r"\s+", "", _body(sa, r"bool\s+sameADesc\s*\([^)]*\)\s*\{"))
            if b != "{returna1.aDesc==a2.aDesc;}":
                raise ValueError(f"sameADesc body changed: {b}")
    elif c in ("*a==*(a2->attr)", "*(a2->attr)==*a"):
        key = "fullEquality"
        sa = _strip_comments(rd("src/clstepcore/STEPattribute.cc"))
        eq = _body(sa, r"bool\s+operator\s*==\s*\(\s*const\s+STEPattribute\s*&\s*a1\s*,\s*const\s+STEPattribute\s*&\s*a2\s*\)\s*\{")
        fields = re.findall(r"a1\.(\w+)\s*==\s*a2\.\1", eq)
    else:
        raise ValueError(f"STEPattributeList::push: unknown duplicate test {cond.group(1)!r}")
    # ---- infinity
    ex = rd("src/express/expr.c")
    m = re.search(r"LITERAL_INFINITY->u\.integer\s*=\s*(\w+)\s*;", ex)
    if not m:
        raise ValueError("LITERAL_INFINITY initialisation not found")
    inf = {"INT_MAX": 2147483647}.get(m.group(1))
    if inf is None:
        if not m.group(1).isdigit():
            raise ValueError(f"LITERAL_INFINITY = {m.group(1)}: unknown constant")
        inf = int(m.group(1))
    # ---- prefixes
    cs = rd("src/exp2cxx/class_strings.h")
    ch = rd("src/exp2cxx/classes.h")

    def macro(src, name):
        m = re.search(r"#define\s+" + name + r"\s+(\"[^\"]*\"|\w+)", src)
        if not m:
            raise ValueError(f"macro {name} not found")
        v = m.group(1)
        if not v.startswith('"'):
            return macro(cs + ch, v)
        return v[1:-1]
    pre = {n: macro(cs + ch, n) for n in ("ENTITYCLASS_PREFIX", "ATTR_PREFIX", "ENT_PREFIX", "TD_PREFIX")}
    # ---- constructor step order (both constructors): supertypes loop textually before the own-attribute loop
    ce = rd("src/exp2cxx/classes_entity.c")
    for fn in ("LIBstructor_print", "LIBstructor_print_w_args"):
        b = _body(ce, r"void\s+" + fn + r"\s*\([^)]*\)\s*\{")
        i_sup = b.find("ENTITYget_supertypes( entity )")
        i_app = b.find("AppendMultInstance")
        i_own = b.find("attributes.push( a )")
        i_der = b.find("initializeAttrs( entity, file )")
        if not (0 <= i_sup < i_app < i_own < i_der):
            raise ValueError(f"{fn}: order supertypes / AppendMultInstance / own pushes / MakeDerived changed")
    # first supertype is the C++ base class, the others become AppendMultInstance parts
    b = _body(ce, r"void\s+LIBstructor_print\s*\([^)]*\)\s*\{")
    if "if( super_cnt == 1 )" not in b:
        raise ValueError("LIBstructor_print: principal-supertype rule (super_cnt == 1) not found")
    # which attributes get a STEPattribute
    if b.count("!VARget_inverse( a ) && !VARis_derived( a )") != 1:
        raise ValueError("LIBstructor_print: own-attribute filter changed")

    # ---- where the descriptor of an ENUMERATION / SELECT type is created
    ct = rd("src/exp2cxx/classes_type.c")
    tp = _body(ct, r"void\s+TYPEPrint\s*\([^)]*\)\s*\{")
    tpcc = _body(ct, r"void\s+TYPEPrint_cc\s*\([^)]*\)\s*\{")
    in_create = "TYPEprint_new( type, files->create, schema, false )" in tp
    in_init = "TYPEprint_new( type, impl, schema, true )" in tpcc
    if in_create == in_init:
        raise ValueError("TYPEPrint/TYPEPrint_cc: cannot tell where TYPEprint_new is called for enumerations and selects")
    creation = "beforeInits" if in_create else "ownInit"

    # ---- ordered_attrs.cc: does an own attribute that repeats an inherited name ALWAYS mark the inherited one derived,
    #      or only when it is itself in the DERIVE clause (has an initializer)?
    oa = _strip_comments(rd("src/express/ordered_attrs.cc"))
    pb = re.sub(r"\s+", "", _body(oa, r"void\s+populateAttrList\s*\([^)]*\)\s*\{"))
    # does the search for the inherited attribute also look at who created it (SELF\sup.attr: sup or a supertype of sup)?
    if "strcasecmp(attr->name->symbol.name,list[i]->attr->name->symbol.name)&&(!sup||isSelfOrSupertype(sup,list[i]->creator))" in pb:
        search_creator = "true"
    elif "if(0==strcasecmp(attr->name->symbol.name,list[i]->attr->name->symbol.name)){" in pb:
        search_creator = "false"
    else:
        raise ValueError("populateAttrList: the test that finds the inherited attribute is not recognised")
    # is a redeclaration that names an intermediate supertype (which itself redeclares the attribute) followed to its end?
    if "Entitysup=redeclarationTarget(redeclaredIn(ent,attr),attr);" in pb:
        rt = re.sub(r"\s+", "", _body(oa, r"static\s+Entity\s+redeclarationTarget\s*\([^)]*\)\s*\{"))
        if "next=redeclaredIn(sup,a);" not in rt or "sup=next;" not in rt:
            raise ValueError("redeclarationTarget: the chain of redeclarations is not followed as expected")
        follows = "true"
    elif "Entitysup=redeclaredIn(ent,attr);" in pb:
        follows = "false"
    else:
        raise ValueError("populateAttrList: how the supertype named in SELF\\sup.attr is resolved is not recognised")
    ce_ns = re.sub(r"\s+", "", ce)
    decl_follows = "returnATTRdeclarer(x,nm);" in ce_ns
    if decl_follows != (follows == "true"):
        raise ValueError("ATTRdeclarer (MakeRedefined) and populateAttrList (MakeDerived) resolve a redeclaration chain differently")
    if "unique=false;if(attr->initializer){list[i]->deriver=ent;}break;" in pb:
        explicit_marks = "false"
    elif "unique=false;list[i]->deriver=ent;break;" in pb:
        explicit_marks = "true"
    else:
        raise ValueError("populateAttrList: the rule that marks an inherited attribute derived is not recognised")
    if "if(attr->initializer){oa->deriver=ent;}else{oa->deriver=0;}" not in pb:
        raise ValueError("populateAttrList: the rule for a new attribute (derived by its owner iff it has an initializer) changed")
    # ---- dedupList: does the entry that stays take over the "derived by" mark of the repeated entry that is removed?
    db = re.sub(r"\s+", "", _body(oa, r"void\s+dedupList\s*\([^)]*\)\s*\{"))
    if "list.erase(jt+1);" not in db or "strcasecmp((*it)->creator->symbol.name,(*jt)->creator->symbol.name)" not in db:
        raise ValueError("dedupList: first occurrence of (name, creator) stays — not recognised")
    if "if(!(*it)->deriver){(*it)->deriver=(*jt)->deriver;}" in db:
        dedup_merges = "true"
    elif "deriver" not in db:
        dedup_merges = "false"
    else:
        raise ValueError("dedupList: what happens to the deriver mark is not recognised")
    # ---- NonRefTypeDescriptor: the loop that follows REFERENCE_TYPE links
    td = _strip_comments(rd("src/clstepcore/typeDescriptor.cc"))
    nb = re.sub(r"\s+", "", _body(td, r"const\s+TypeDescriptor\s*\*\s*TypeDescriptor::NonRefTypeDescriptor\s*\(\s*\)\s*const\s*\{"))
    if nb == "{constTypeDescriptor*td=this;while(td->ReferentType()){if(td->Type()!=REFERENCE_TYPE){returntd;}td=td->ReferentType();}returntd;}":
        link_bound = "none"
    else:
        m = re.search(r"while\(td->ReferentType\(\)&&\((\w+)\+\+<(\w+)\)\)", nb)
        if not m:
            raise ValueError("TypeDescriptor::NonRefTypeDescriptor: loop not recognised")
        lim = m.group(2)
        if not lim.isdigit():
            mm = re.search(r"#define\s+" + lim + r"\s+(\d+)", td)
            if not mm:
                raise ValueError(f"NonRefTypeDescriptor: bound {lim} not a literal")
            lim = mm.group(1)
        link_bound = f"some {lim}"
    bb = re.sub(r"\s+", "", _body(td, r"const\s+TypeDescriptor\s*\*\s*TypeDescriptor::BaseTypeDescriptor\s*\(\s*\)\s*const\s*\{"))
    if bb != "{constTypeDescriptor*td=this;while(td->ReferentType()){td=td->ReferentType();}returntd;}":
        raise ValueError("TypeDescriptor::BaseTypeDescriptor: loop not recognised")

    # does the generated MakeRedefined() call name the entity that declares the redeclared attribute?
    n3 = ce.count('MakeRedefined( a, \\"%s\\", \\"%s\\" )')
    n2 = ce.count('MakeRedefined( a, \\"%s\\" )')
    if n3 >= 1 and "ATTRdeclarer( sup, VARget_simple_name( a ) )" in ce:
        redef_decl = "true"
    elif n3 == 0 and n2 == 2:
        redef_decl = "false"
    else:
        raise ValueError("the MakeRedefined( … ) call exp2cxx prints is not recognised")

    # ---- SelectTypeDescriptor::CanBe( const TypeDescriptor * ): every element is asked in turn, a select element like any other
    sd = _strip_comments(rd("src/clstepcore/selectTypeDescriptor.cc"))
    cb = re.sub(r"\s+", "", _body(sd, r"const\s+TypeDescriptor\s*\*\s*SelectTypeDescriptor::CanBe\s*\(\s*const\s+TypeDescriptor\s*\*\s*other\s*\)\s*const\s*\{"))
    if cb == ("{if(this==other){returnother;}TypeDescItrelements(GetElements());constTypeDescriptor*td=elements.NextTypeDesc();"
              "while(td){if(td->CanBe(other)){returntd;}td=elements.NextTypeDesc();}return0;}"):
        canbe_rec = "true"
    elif "NonRefType()==SELECT_TYPE" in cb and "td==other" in cb:
        canbe_rec = "false"
    else:
        raise ValueError("SelectTypeDescriptor::CanBe( const TypeDescriptor * ): loop over the elements not recognised")
    ed = rd("include/clstepcore/entityDescriptor.h")
    if not re.search(r"CanBe\(\s*const\s+TypeDescriptor\s*\*\s*o\s*\)\s*const\s*\{\s*return\s+o\s*->\s*IsA\(\s*this\s*\)\s*;", ed):
        raise ValueError("EntityDescriptor::CanBe( const TypeDescriptor * ) is no longer `o->IsA( this )`")
    # ---- identifier length exp2cxx accepts, and the buffers ClassName / PrettyTmpName write into
    cw = rd("src/exp2cxx/classes_wrapper.cc")
    mm = re.search(r"#define\s+MAX_IDENT_LEN\s+\(\s*MAX_LEN\s*-\s*(\d+)\s*\)", cw)
    ml = re.search(r"#define\s+MAX_LEN\s+(\d+)", ch + cs)
    if not mm or not ml or "if( len <= MAX_IDENT_LEN )" not in cw or "check_identifier_lengths( express )" not in cw:
        raise ValueError("classes_wrapper.cc: the identifier length check (MAX_IDENT_LEN) is not recognised")
    max_ident = int(ml.group(1)) - int(mm.group(1))
    cstr = rd("src/exp2cxx/class_strings.c")
    if not re.search(r"static\s+char\s+newname\s*\[\s*BUFSIZ\s*\+\s*1\s*\]", cstr) or "j < BUFSIZ" not in cstr:
        raise ValueError("ClassName: static buffer of BUFSIZ+1 characters with the bound j < BUFSIZ not recognised")
    su = rd("src/clutils/Str.cc")
    if "i < BUFSIZ - 1" not in _body(su, r"const\s+char\s*\*\s*PrettyTmpName\s*\([^)]*\)\s*\{"):
        raise ValueError("PrettyTmpName: bound i < BUFSIZ - 1 not recognised")
    import subprocess
    try:
        o = subprocess.run(["cc", "-E", "-dM", "-x", "c", "-include", "stdio.h", "-"], input="", capture_output=True, text=True, timeout=30).stdout
        bufsiz = int(re.search(r"#define\s+BUFSIZ\s+(\d+)", o).group(1))
    except Exception:
        bufsiz = 256            # the least value ISO C allows
    def codes(s):
        return "[" + ", ".join(str(ord(x)) for x in s) + "]"
    text = f"""/- generated by tools/extract.d/dictgen.py from src/clstepcore/STEPattributeList.cc, STEPattribute.cc,
   src/express/expr.c, src/exp2cxx/class_strings.h, classes.h, classes_entity.c — do not edit -/
namespace StepModel.Generated

inductive PushKey | descriptor | fullEquality
  deriving DecidableEq, Repr

/-- duplicate test of `STEPattributeList::push`: `{c}` -/
def pushKey : PushKey := .{key}

/-- fields compared by the full `operator==` when push uses it -/
def pushEqFields : List String := [{", ".join('"' + f + '"' for f in fields)}]

inductive DescCreation | beforeInits | ownInit
  deriving DecidableEq, Repr

/-- where exp2cxx prints `new EnumTypeDescriptor` / `new SelectTypeDescriptor`: with all other descriptors in
    `InitSchemasAndEnts` (SdaiAll.cc), or inside the type's own `init_Sdai<T>` function (which runs after the init
    code of the other defined types, whose `ReferentType( t_<T> )` then reads a null pointer) -/
def descCreation : DescCreation := .{creation}

/-- ordered_attrs.cc `populateAttrList`: an own attribute that repeats an inherited name marks the inherited attribute
    "derived by this entity" always (true), or only when it is in the DERIVE clause (false) -/
def explicitRedeclMarksDerived : Bool := {explicit_marks}

/-- ordered_attrs.cc `populateAttrList`: the search for the inherited attribute a redeclaration `SELF\\sup.x` means looks at the
    name only (false) or also requires the entry's creator to be `sup` or a supertype of `sup` (true) -/
def redeclSearchUsesCreator : Bool := {search_creator}

/-- ordered_attrs.cc `dedupList`: the entry that stays takes over the "derived by" mark of a repeated (name, creator) entry that is
    removed (true, fix C02-11), or the mark is dropped with the entry (false) -/
def dedupMergesDeriver : Bool := {dedup_merges}

/-- ordered_attrs.cc `redeclarationTarget` / classes_entity.c `ATTRdeclarer`: `SELF\\sup.x` where `sup` itself only redeclares `x`
    (`SELF\\sup2.x`) is resolved to the end of that chain before the attribute is looked for (true, fix C02-14) -/
def redeclFollowsChain : Bool := {follows}

/-- exp2cxx prints `MakeRedefined( a, nm, declarer )` (true) or `MakeRedefined( a, nm )` (false: first attribute named nm) -/
def redefinedSearchUsesDeclarer : Bool := {redef_decl}

/-- `TypeDescriptor::NonRefTypeDescriptor`: maximal number of REFERENCE_TYPE links the loop follows (`none` = no bound) -/
def nonRefLinkBound : Option Nat := {link_bound}

/-- `LITERAL_INFINITY->u.integer` -/
def literalInfinity : Int := {inf}

/-- `SelectTypeDescriptor::CanBe( const TypeDescriptor * )` asks every element whether it can be the argument, an element that is
    itself a select included (true); false: a select element only matches when it IS the argument -/
def selectCanBeRecurses : Bool := {canbe_rec}

/-- classes_wrapper.cc `MAX_IDENT_LEN`: exp2cxx refuses, with a diagnostic and a failure status, a schema with a longer identifier -/
def maxIdentLen : Nat := {max_ident}

/-- `BUFSIZ` of the C library the generator is built with (`ClassName` writes at most BUFSIZ characters into `newname[BUFSIZ+1]`,
    `PrettyTmpName` reads at most BUFSIZ-1) -/
def cBufsiz : Nat := {bufsiz}

def entityClassPrefix : List Nat := {codes(pre["ENTITYCLASS_PREFIX"])}
def attrPrefix : List Nat := {codes(pre["ATTR_PREFIX"])}
def entPrefix : List Nat := {codes(pre["ENT_PREFIX"])}
def tdPrefix : List Nat := {codes(pre["TD_PREFIX"])}

end StepModel.Generated
"""
    return {"DictGen.lean": text}

"""Structs the generators malloc() and the fields they initialise -> Generated/GenInitGen.lean   (C12: no value read from fresh heap memory)

For every `x = ( T ) malloc( sizeof( struct S ) )` in src/exp2cxx, src/exp2python/src and src/exppp (calloc'ed memory is zero and
left out): the fields of `struct S` (from the header or source that defines it) and, in the function that holds the malloc, the
fields assigned through `x -> f = …;` in the statements that directly follow it.  A field of S that is not assigned there AND is read somewhere (through a variable declared
with the struct's pointer typedef) is reported: whatever reads it sees what the
recycled heap chunk held - a value that changes with the heap layout (ASLR), i.e. with the ambient.
"""
import glob, os, re


def _strip(s):
    s = re.sub(r"/\*.*?\*/", " ", s, flags=re.S)
    return re.sub(r"//[^\n]*", " ", s)


def _enclosing_function(src, pos):
    """(name, body text from pos to the end of the function) of the function definition around pos"""
    depth, i = 0, pos
    while i > 0:                     # walk back to the opening brace at depth 0
        c = src[i]
        if c == "}":
            depth += 1
        elif c == "{":
            if depth == 0:
                j = src.rfind(")", 0, i)
                k, d = j, 0
                while k > 0:
                    if src[k] == ")":
                        d += 1
                    elif src[k] == "(":
                        d -= 1
                        if d == 0:
                            break
                    k -= 1
                m = re.search(r"([A-Za-z_]\w*)\s*$", src[:k])
                if m and m.group(1) not in ("if", "while", "for", "switch"):
                    # end of the function
                    e, d2 = i, 0
                    while e < len(src):
                        if src[e] == "{":
                            d2 += 1
                        elif src[e] == "}":
                            d2 -= 1
                            if d2 == 0:
                                break
                        e += 1
                    return m.group(1), src[pos:e]
            else:
                depth -= 1
        i -= 1
    return "?", src[pos:pos + 4000]


def extract(repo):
    dirs = ["src/exp2cxx", "src/exp2python/src", "src/exppp"]
    files = []
    for d in dirs:
        files += sorted(glob.glob(os.path.join(repo, d, "*.c")) + glob.glob(os.path.join(repo, d, "*.cc")) + glob.glob(os.path.join(repo, d, "*.h")))
    srcs = {f: _strip(open(f, encoding="utf-8", errors="replace").read()) for f in files}
    structs = {}
    for f, s in srcs.items():
        for m in re.finditer(r"struct\s+(\w+)\s*\{([^{}]*)\}", s):
            fields = []
            for decl in m.group(2).split(";"):
                decl = decl.strip()
                if not decl:
                    continue
                for part in decl.split(","):
                    fm = re.search(r"(\w+)\s*(?::\s*\d+)?\s*(?:\[[^\]]*\])?\s*$", part.strip())
                    if fm:
                        fields.append(fm.group(1))
            structs.setdefault(m.group(1), fields)
    # which fields of which struct are READ anywhere (through a variable declared with the struct's pointer typedef)
    typedefs = {}
    for f, t in srcs.items():
        for m in re.finditer(r"typedef\s+struct\s+(\w+)\s*\*\s*(\w+)\s*;", t):
            typedefs[m.group(2)] = m.group(1)
    reads = {}
    for f, t in srcs.items():
        for td, st in typedefs.items():
            vars_ = set()
            for m in re.finditer(r"\b" + re.escape(td) + r"\s+([\w\s,\*]+?);", t):
                vars_ |= {v.strip(" *") for v in m.group(1).split(",")}
            for v in vars_:
                if not re.fullmatch(r"\w+", v or ""):
                    continue
                for m in re.finditer(r"\b" + re.escape(v) + r"\s*->\s*(\w+)\b(?!\s*=[^=])", t):
                    reads.setdefault(st, set()).add(m.group(1))
    sites, missing = [], []
    for f, s in srcs.items():
        if f.endswith(".h"):
            continue
        for m in re.finditer(r"(\w+)\s*=\s*\(\s*[\w\s\*]+\)\s*malloc\s*\(\s*sizeof\s*\(\s*struct\s+(\w+)\s*\)\s*\)", s):
            var, st = m.group(1), m.group(2)
            if st not in structs:
                raise ValueError(f"{os.path.basename(f)}: struct {st} is malloc'ed but its definition was not found")
            fn, rest = _enclosing_function(s, m.end())
            # the initialisation block: the run of `x -> f = …;` statements that directly follows the malloc statement (a later
            # assignment does not count: a call made in between - TYPEselect_print recurses - may read the field first)
            assigned, tail = set(), rest[rest.index(";") + 1:] if ";" in rest else ""
            while True:
                am = re.match(r"\s*" + re.escape(var) + r"\s*->\s*(\w+)\s*=[^=;][^;]*;", tail)
                if not am:
                    break
                assigned.add(am.group(1))
                tail = tail[am.end():]
            sites.append((os.path.basename(f), fn, st))
            for fld in structs[st]:
                if fld not in assigned and fld in reads.get(st, set()):
                    missing.append((os.path.basename(f), fn, st, fld))
    if not any(st == "SelectTag_" for _, _, st in sites):
        raise ValueError("the malloc of struct SelectTag_ in TYPEselect_print was not recognised - the site pattern no longer fits the sources")
    q = lambda x: '"' + x + '"'
    text = f"""/- GENERATED by tools/extract.d/geninit.py — do not edit. -/
namespace StepModel.Generated.GenInit

/-- (file, function, struct) of every `malloc( sizeof( struct S ) )` in exp2cxx, exp2python and exppp -/
def mallocSites : List (String × String × String) := [{", ".join(f"({q(a)}, {q(b)}, {q(c)})" for a, b, c in sites)}]

/-- (file, function, struct, field): a field of a malloc'ed struct that the allocating function does not assign although it is read somewhere -/
def uninitialisedFields : List (String × String × String × String) := [{", ".join(f"({q(a)}, {q(b)}, {q(c)}, {q(d)})" for a, b, c, d in missing)}]

end StepModel.Generated.GenInit
"""
    return {"GenInitGen.lean": text}

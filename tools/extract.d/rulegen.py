"""C02 constants for WHERE / UNIQUE rules -> Generated/RuleGen.lean

* unnamedWhereLabel   the label the parser gives a domain rule written without one (expparse.y `where_clause`)
* whereOpen/whereClose, uniqueLabelSep/uniqueSep, uniqueLabelUpper
                      the pieces rules.c WHEREprint / UNIQUEprint put around the printed expression(s)
* stdLiteralEscapes   characters `format_for_std_stringout` (classes.c) prefixes with a backslash when it copies EXPRESS text
                      into a C++ string literal (rule texts, functions, global rules, supertype expressions)
* initLiteralEscapes  the same for `format_for_stringout` (initializer of a derived attribute)
Anything that no longer matches raises = broken tie.
"""
import os, re


def _fn(src, head_re):
    m = re.search(head_re, src)
    if not m:
        raise ValueError(f"pattern {head_re!r} not found")
    i = src.index("{", m.end() - 1)
    depth, j = 0, i
    while j < len(src):
        if src[j] in "\"'":
            q = src[j]
            j += 1
            while j < len(src) and src[j] != q:
                j += 2 if src[j] == "\\" else 1
            j += 1
            continue
        if src.startswith("/*", j):
            j = src.index("*/", j) + 2
            continue
        if src[j] == "{":
            depth += 1
        elif src[j] == "}":
            depth -= 1
            if depth == 0:
                return src[i:j + 1]
        j += 1
    raise ValueError("unbalanced braces")


def _c_unescape(lit):
    """value of the body of a C string/char literal that uses only \\\\ \\" \\' \\n"""
    out, i = "", 0
    while i < len(lit):
        if lit[i] == "\\":
            c = lit[i + 1]
            out += {"n": "\n", "\\": "\\", '"': '"', "'": "'"}.get(c) or _bad(lit)
            i += 2
        else:
            out += lit[i]; i += 1
    return out


def _bad(x):
    raise ValueError(f"unexpected escape in {x!r}")


def _escaped_chars(body, what):
    """the characters compared in the branch that writes a backslash in front of the character"""
    b = re.sub(r"\s+", "", body)
    # the branch for a line break comes first and is modelled separately; then one `else if( <tests> ) { <emit> }`
    m = re.search(r"\}elseif\(((?:\*optr=='(?:\\.|[^'\\])'(?:\|\|)?)+)\)\{(.*?)\}else\{", b)
    if not m:
        raise ValueError(f"{what}: the branch that escapes characters is not recognised")
    chars = [_c_unescape(x) for x in re.findall(r"\*optr=='((?:\\.|[^'\\]))'", m.group(1))]
    emit = m.group(2)
    same_char = emit in ('fprintf(f,"\\\\%c",*optr);', "*rptr='\\\\';rptr++;*rptr=*optr;")
    only_backslash = emit in ('fprintf(f,"\\\\\\\\");', "*rptr='\\\\';rptr++;*rptr='\\\\';")
    if same_char:
        return chars
    if only_backslash and chars == ["\\"]:
        return chars
    raise ValueError(f"{what}: what is written for an escaped character is not recognised: {emit}")


def extract(repo):
    rd = lambda p: open(os.path.join(repo, p), encoding="latin-1").read()
    y = rd("src/express/expparse.y")
    m = re.search(r"where_clause\(A\)\s*::=\s*expression\(B\)\s*semicolon\.\s*\{(.*?)\n\}", y, re.S)
    if not m:
        raise ValueError("expparse.y: rule for a WHERE clause without label not found")
    ml = re.search(r'A->label\s*=\s*SYMBOLcreate\(\s*"([^"]*)"', m.group(1))
    if not ml:
        raise ValueError("expparse.y: label of an unlabelled WHERE clause not recognised")
    unnamed = ml.group(1)

    ru = rd("src/exp2cxx/rules.c")
    wp = _fn(ru, r"void\s+WHEREprint\s*\([^)]*\)\s*\{")
    mo = re.search(r'if\(\s*w->label\s*\)\s*\{\s*fprintf\(\s*impl,\s*"\s*str\.append\(\s*\\"%s((?:[^"\\]|\\.)*?)\\"\s*\);\\n",\s*w->label->name\s*\)', wp)
    mc = re.search(r'format_for_std_stringout\(\s*impl,\s*EXPRto_string\(\s*w->expr\s*\)\s*\);\s*fprintf\(\s*impl,\s*"\s*str\.append\(\s*\\"((?:[^"\\]|\\.)*?)\\"\s*\);\\n"\s*\)', wp)
    if not mo or not mc:
        raise ValueError("WHEREprint: the text put around the printed expression is not recognised")
    # two levels of C escaping: the generator's literal, then the emitted literal
    w_open = _c_unescape(_c_unescape(mo.group(1)))
    w_close = _c_unescape(_c_unescape(mc.group(1)))
    if not re.search(r"new\s+Where_rule\(\s*str\.c_str\(\)\s*\)", wp) or "_where_rules->Append( wr )" not in wp:
        raise ValueError("WHEREprint: one Where_rule per clause appended in list order — not recognised")
    up = _fn(ru, r"void\s+UNIQUEprint\s*\([^)]*\)\s*\{")
    ml = re.search(r'str\.append\(\s*\\"%s((?:[^"\\]|\\.)*?)\\"\s*\);\\n",\s*(StrToUpper\(\s*)?\(\s*\(\s*Symbol\s*\*\s*\)\s*e\s*\)->name', up)
    ms = re.search(r'if\(\s*i\s*>\s*2\s*\)\s*\{\s*fprintf\(\s*impl,\s*"\s*str\.append\(\s*\\"((?:[^"\\]|\\.)*?)\\"\s*\);\\n"\s*\)', up)
    if not ml or not ms or "_uniqueness_rules->Append(ur)" not in up:
        raise ValueError("UNIQUEprint: label / separator / append not recognised")
    u_lab = _c_unescape(_c_unescape(ml.group(1)))
    u_sep = _c_unescape(_c_unescape(ms.group(1)))
    u_upper = "true" if ml.group(2) else "false"

    ce = rd("src/exp2cxx/classes_entity.c")
    pieces = re.findall(r'str\.clear\(\);\\n\s*str\.append\(\s*\\"((?:ABSTRACT )?SUPERTYPE OF \( )\\"\s*\);\\n"\s*\);\s*'
                        r'format_for_std_stringout\(\s*impl,\s*SUBTYPEto_string\([^;]*;\s*'
                        r'fprintf\(\s*impl,\s*"\s*str\.append\(\s*\\"((?:[^"\\]|\\.)*?)\\"\s*\);\\n"\s*\)', ce)
    bare = re.search(r'AddSupertype_Stmt\(\s*\\"(ABSTRACT SUPERTYPE)\\"\s*\)', ce)
    if len(pieces) != 2 or not bare or pieces[0][1] != pieces[1][1] or not pieces[0][0].startswith("ABSTRACT") or pieces[1][0].startswith("ABSTRACT"):
        raise ValueError("ENTITYincode_print: the supertype statement (ABSTRACT SUPERTYPE [OF ( … )]) is not recognised")
    cl = rd("src/exp2cxx/classes.c")
    std = _escaped_chars(_fn(cl, r"void\s+format_for_std_stringout\s*\([^)]*\)\s*\{"), "format_for_std_stringout")
    ini = _escaped_chars(_fn(cl, r"char\s*\*\s*format_for_stringout\s*\([^)]*\)\s*\{"), "format_for_stringout")

    def lstr(s):
        return '"' + s.replace("\\", "\\\\").replace('"', '\\"').replace("\n", "\\n") + '"'

    def chars(l):
        return "[" + ", ".join(f"Char.ofNat {ord(c)}" for c in l) + "]"
    text = f"""/- generated by tools/extract.d/rulegen.py from src/express/expparse.y, src/exp2cxx/rules.c, classes.c — do not edit -/
namespace StepModel.Generated

/-- label of a WHERE clause written without one (expparse.y) -/
def unnamedWhereLabel : String := {lstr(unnamed)}

/-- rules.c WHEREprint: `<label>` ++ whereOpen ++ `<expression>` ++ whereClose -/
def whereOpen : String := {lstr(w_open)}
def whereClose : String := {lstr(w_close)}

/-- rules.c UNIQUEprint: `<LABEL>` ++ uniqueLabelSep, attribute references joined by uniqueSep -/
def uniqueLabelSep : String := {lstr(u_lab)}
def uniqueSep : String := {lstr(u_sep)}
def uniqueLabelUpper : Bool := {u_upper}

/-- classes_entity.c `ENTITYincode_print`: the pieces of `AddSupertype_Stmt( … )` -/
def stmtAbstractOpen : String := {lstr(pieces[0][0])}
def stmtOpen : String := {lstr(pieces[1][0])}
def stmtClose : String := {lstr(_c_unescape(_c_unescape(pieces[0][1])))}
def stmtAbstract : String := {lstr(bare.group(1))}

/-- characters classes.c `format_for_std_stringout` writes with a backslash in front when it copies EXPRESS text into
    C++ string literals ({', '.join(str(ord(c)) for c in std)}) -/
def stdLiteralEscapes : List Char := {chars(std)}

/-- the same for `format_for_stringout` (initializer text of a derived attribute) -/
def initLiteralEscapes : List Char := {chars(ini)}

end StepModel.Generated
"""
    return {"RuleGen.lean": text}

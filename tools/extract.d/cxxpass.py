"""exp2cxx's pass decision (src/exp2cxx/multpass.c) -> Generated/CxxPassGen.lean   (C17)

* the last case of ENUMcanBeProcessed() — what it answers for a not yet visited renamed enumeration of the schema being
  processed — is recognised as one of
     inSchemaOrProcessed : if( inSchema( a, s ) || a->search_id == PROCESSED ) { return true; } return false;
     processedOnly       : return ( a->search_id == PROCESSED );
     ancestorMark        : return ( a->search_id >= CANPROCESS );
  (anything else raises); its three leading cases must be as modelled;
* every assignment of CANTPROCESS in the file must be one of the six modelled ones, identified by the condition of the
  block that encloses it (statements elsewhere may change freely).
"""
import importlib.util, os, re

_here = os.path.dirname(os.path.abspath(__file__))
_spec = importlib.util.spec_from_file_location("extract_scanner_helpers", os.path.join(_here, "scanner.py"))
_sc = importlib.util.module_from_spec(_spec)
_spec.loader.exec_module(_sc)


def extract(repo):
    src = _sc._strip_comments(_sc._read(repo, "src/exp2cxx/multpass.c"))
    eb = _sc._func_body(src, r"static\s+int\s+ENUMcanBeProcessed\s*\(\s*Type\s+e\s*,\s*Schema\s+s\s*\)\s*\{")
    flat = re.sub(r"\s+", " ", eb).strip()
    for pat in (r"if\( !inSchema\( e, s \) \) \{ return \( e->search_id == PROCESSED \); \}",
                r"if\( e->search_id != NOTKNOWN \) \{ return \( e->search_id >= CANPROCESS \); \}",
                r"if\( \( a = TYPEget_ancestor\( e \) \) == NULL \) \{ return true; \}"):
        if not re.search(pat, flat):
            raise ValueError("ENUMcanBeProcessed: a leading case is no longer as modelled: " + pat)
    tail = flat[flat.index("== NULL ) { return true; }") + len("== NULL ) { return true; }"):].strip()
    if re.fullmatch(r"if\( inSchema\( a, s \) \|\| a->search_id == PROCESSED \) \{ return true; \} return false;", tail):
        last = "inSchemaOrProcessed"
    elif re.fullmatch(r"return \( a->search_id == PROCESSED \);", tail):
        last = "processedOnly"
    elif re.fullmatch(r"return \( a->search_id >= CANPROCESS \);", tail):
        last = "ancestorMark"
    else:
        raise ValueError("ENUMcanBeProcessed: unsupported final case: " + tail[:160])
    body = _sc._blank_strings(src)
    conds = []
    for m in re.finditer(r"->search_id\s*=\s*CANTPROCESS\s*;", body):
        enc = [c for c in _sc._enclosing(body, m.start()) if c[0] in ("if", "else if", "else")]
        conds.append(enc[-1] if enc else ("", ""))
    want = [("if", "!sameSchema(i,type)&&i->search_id!=PROCESSED"),
            ("if", "(type->search_id==CANPROCESS)&&((i=TYPEget_ancestor(type))!=NULL)&&(!sameSchema(i,type))&&(i->search_id!=PROCESSED)"),
            ("", ""),                                              # markDescs: unconditional, reached from checkEnts only
            ("if", "TYPEis_enumeration(i)&&!ENUMcanBeProcessed(i,schema)"),
            ("if", "i->search_id!=PROCESSED"),
            ("if", "i->search_id==CANTPROCESS")]
    if conds != want:
        raise ValueError(f"multpass.c: the assignments of CANTPROCESS are no longer the six modelled ones: {conds}")
    ce = _sc._func_body(src, r"static\s+bool\s+checkEnts\s*\(\s*Schema\s+schema\s*\)\s*\{")
    cb = _sc._blank_strings(ce)
    md = [m.start() for m in re.finditer(r"\bmarkDescs\s*\(", cb)]
    encs = [[c for c in _sc._enclosing(cb, p) if c[0] == "if"][-1][1] for p in md]
    if encs != ["(!sameSchema(ent,super))&&(super->search_id!=PROCESSED)", "checkItem(attr->type,ent,schema,&ignore,0)"]:
        raise ValueError(f"checkEnts: markDescs is no longer called exactly for a foreign unprocessed supertype and for checkItem(attr) = true: {encs}")
    # the sweep loop of checkTypes: do { unknowncnt = 0; SCOPEdo_types … } while( <condition> );
    ct = _sc._blank_strings(_sc._func_body(src, r"static\s+bool\s+checkTypes\s*\(\s*Schema\s+schema\s*\)\s*\{"))
    m = re.search(r"\bdo\s*\{\s*unknowncnt\s*=\s*0\s*;", ct)
    w = list(re.finditer(r"\}\s*while\s*\(([^;]*)\)\s*;", ct))
    if not m or len(w) != 1 or w[0].start() < m.start():
        raise ValueError("checkTypes: the `do { unknowncnt = 0; … } while( … );` sweep loop was not found")
    cond = re.sub(r"\s+", "", w[0].group(1))
    loop_body = re.sub(r"\s+", "", ct[m.start():w[0].start()])
    stall = re.search(r"if\(\(unknowncnt>0\)&&\(unknowncnt==lastunknowncnt\)\)\{DictionaryEntryde2;SCOPEdo_types\(schema,t,de2\)if\(t->search_id==NOTKNOWN\)\{t->search_id=CANPROCESS;\}SCOPEodretval=true;break;\}lastunknowncnt=unknowncnt;$", loop_body)
    if "lastunknowncnt" in ct and not (stall and cond == "unknowncnt>0" and re.search(r"lastunknowncnt\s*=\s*-1\s*;", ct)):
        raise ValueError("checkTypes: a `lastunknowncnt` is used but the stall test at the end of the sweep loop does not have the modelled shape")
    if stall:
        loop = ".untilSettledOrStalled"
    elif cond == "unknowncnt>0":
        loop = ".untilSettled"
    else:
        mm = re.fullmatch(r"unknowncnt>0&&\+\+(\w+)<(\w+)", cond)
        if not mm:
            raise ValueError("checkTypes: unsupported sweep-loop condition: " + cond)
        bound = mm.group(2)
        if not bound.isdigit():
            d = re.search(r"#define\s+" + bound + r"\s+(\d+)", src)
            if not d:
                raise ValueError("checkTypes: cannot resolve the sweep bound " + bound)
            bound = d.group(1)
        loop = f".bounded {bound}"
    ci = re.sub(r"\s+", "", _sc._blank_strings(_sc._func_body(src, r"static\s+bool\s+checkItem\s*\(\s*Type\s+t\s*,")))
    if ci.count("if(parent->search_id==NOTKNOWN){(*unknowncnt)--;}") != 3 or ci.count("if(parent->search_id!=NOTKNOWN){parent->search_id=NOTKNOWN;(*unknowncnt)++;}") != 1:
        raise ValueError("checkItem: the unknowncnt bookkeeping (three guarded decrements, one guarded increment) changed")
    # print_schemas_separate: is a schema that can only be printed in part put back and revisited (the deferral of fix C17-5)?
    ps = re.sub(r"\s+", "", _sc._blank_strings(_sc._func_body(src, r"void\s+print_schemas_separate\s*\(\s*Express\s+express\s*,")))
    for need in ("unsetObjs(schema);schema->search_id=PROCESSED;val1=checkTypes(schema);val2=checkEnts(schema);",
                 "if(val1||val2){", "suffix=++*(int*)schema->clientData;SCHEMAprint(schema,files,complexCol,suffix);",
                 "SCHEMAprint(schema,files,complexCol,0);", "complete=complete&&(schema->search_id==PROCESSED);"):
        if need not in ps:
            raise ValueError("print_schemas_separate: no longer has " + need)
    if "resetCanProcess" not in src and "progress" not in ps:
        defer = "false"
    else:
        rc = re.sub(r"\s+", "", _sc._blank_strings(_sc._func_body(src, r"static\s+void\s+resetCanProcess\s*\(\s*Schema\s+schema\s*\)\s*\{")))
        ok = ("if((val1||val2)&&schema->search_id==UNPROCESSED&&*(int*)schema->clientData==0&&progress){resetCanProcess(schema);complete=false;continue;}" in ps
              and "boolprogress=true;" in ps and "boolprinted=false;complete=true;" in ps and "if(val1||val2){printed=true;" in ps and "progress=printed;}" in ps
              and rc.count("if(t->search_id==CANPROCESS){t->search_id=NOTKNOWN;}") == 1 and rc.count("if(ent->search_id==CANPROCESS){ent->search_id=NOTKNOWN;}") == 1)
        if not ok:
            raise ValueError("print_schemas_separate / resetCanProcess: not the modelled form of the deferral of partially printable schemas")
        defer = "true"
    text = f"""/- GENERATED by tools/extract.d/cxxpass.py from src/exp2cxx/multpass.c — do not edit. -/
namespace StepModel.Generated.CxxPass

/-- last case of `ENUMcanBeProcessed( e, s )`: `e` is in `s`, not visited yet in this sweep, and renames `a` -/
inductive EnumLastCase where
  | inSchemaOrProcessed   -- inSchema( a, s ) || a->search_id == PROCESSED
  | processedOnly         -- a->search_id == PROCESSED
  | ancestorMark          -- a->search_id >= CANPROCESS
  deriving DecidableEq, Repr

def enumLastCase : EnumLastCase := .{last}

/-- when the sweep loop of `checkTypes` (`do {{ unknowncnt = 0; … }} while( … )`) stops -/
inductive SweepLoop where
  | untilSettled            -- while( unknowncnt > 0 ): runs until a sweep leaves nothing undecided
  | untilSettledOrStalled   -- additionally: a sweep that ends with the same positive unknowncnt as the one before marks
                            -- every type still NOTKNOWN as CANPROCESS and leaves the loop
  | bounded (n : Nat)       -- additionally stops after n sweeps, whatever is still undecided
  deriving DecidableEq, Repr

def sweepLoop : SweepLoop := {loop}

/-- `print_schemas_separate`: a schema of which only a part can be printed, nothing of which has been printed yet, is put back
    (its CANPROCESS marks become NOTKNOWN again) and revisited, as long as the previous round over the schemas printed something;
    `false`: it is printed in parts `_1`, `_2`, … at once -/
def deferPartial : Bool := {defer}

end StepModel.Generated.CxxPass
"""
    return {"CxxPassGen.lean": text}


if __name__ == "__main__":
    import sys
    print(extract(sys.argv[1] if len(sys.argv) > 1 else "/repo")["CxxPassGen.lean"])

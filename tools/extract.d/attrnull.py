"""The null/derived pre-check of STEPattribute::STEPread and the strict-flag plumbing -> Generated/AttrNullGen.lean

Regenerated from src/clstepcore/STEPattribute.cc, include/clstepcore/STEPattribute.h,
include/clstepcore/sdaiApplication_instance.h, src/clstepcore/STEPcomplex.cc, src/test/p21read/p21read.cc:
  * the characters that start the pre-check (`case '$': case ',': case ')':`),
  * per base type of the lenient branch: the filler string and the reader it is handed to,
  * the severities assigned in each branch (nullable, filler failed, filler ok, default kind, strict),
  * the threshold of `err.severity() <= ...` that turns a filler failure into SEVERITY_BUG,
  * the default value of the `strict` parameters, the argument list STEPcomplex::STEPread hands to its parts, and
    whether it merges what the parts report,
  * p21read's `severity <= X -> exit(1)` threshold.
Any pattern that no longer matches raises (= broken tie).
"""
import os, re


def _strip(s):
    s = re.sub(r"//[^\n]*", "", s)
    return re.sub(r"/\*.*?\*/", "", s, flags=re.S)


def _body(text, sig, start=0):
    i = text.find(sig, start)
    if i < 0:
        raise ValueError(f"{sig} not found")
    j = text.index("{", i)
    depth, k = 0, j
    while True:
        if text[k] == "{":
            depth += 1
        elif text[k] == "}":
            depth -= 1
            if depth == 0:
                break
        k += 1
    return text[j + 1:k]


def _lean_str(s):
    return '"' + s.replace("\\", "\\\\").replace('"', '\\"') + '"'


def _sev(name):
    m = {"SEVERITY_NULL": ".null", "SEVERITY_USERMSG": ".usermsg", "SEVERITY_INCOMPLETE": ".incomplete",
         "SEVERITY_WARNING": ".warning", "SEVERITY_INPUT_ERROR": ".inputError", "SEVERITY_BUG": ".bug",
         "SEVERITY_EXIT": ".exit", "SEVERITY_DUMP": ".dump", "SEVERITY_MAX": ".max"}
    if name not in m:
        raise ValueError(f"unknown severity {name}")
    return m[name]


def extract(repo):
    cc = open(os.path.join(repo, "src/clstepcore/STEPattribute.cc")).read()
    body = _body(cc, "Severity STEPattribute::STEPread( istream & in, InstMgrBase * instances, int addFileId,")
    raw = body
    body = _strip(body)
    # --- redefined attribute: which arguments are forwarded
    rb = _body(body, "if( _redefAttr )")
    m = re.search(r"_redefAttr->STEPread\(([^;]*)\)\s*;", rb)
    if not m:
        raise ValueError("redefined-attribute forwarding not found")
    redef_args = [a.strip() for a in m.group(1).split(",")]
    # does the redeclared position take over what the redefining attribute reported?  (the instance reads
    # attributes[i].Error(), i.e. the error of the redeclared position, not the value returned from here)
    redef_reports = bool(re.search(r"_error\.AppendFromErrorArg\(\s*&\(\s*_redefAttr->Error\(\)\s*\)\s*\)\s*;\s*return\s+_error\.severity\(\)\s*;", rb))
    if not redef_reports and not re.fullmatch(r"\s*return\s+_redefAttr->STEPread\([^;]*\)\s*;\s*", rb):
        raise ValueError("redefined-attribute forwarding has an unknown shape")
    # --- the pre-check block
    m = re.search(r"switch\s*\(\s*c\s*\)\s*\{((?:\s*case\s*'.'\s*:)+)", body)
    if not m:
        raise ValueError("pre-check `switch( c )` not found")
    null_chars = re.findall(r"case\s*'(.)'", m.group(1))
    # the pre-check block = the body of that switch up to its closing brace
    pre = _body(body, m.group(0)[:m.group(0).index("{")])
    # `if( Nullable() ) { [ _error.severity( X ); ] } else if( !strict [ && c == '$' ] ) {`
    m = re.search(r"if\s*\(\s*Nullable\(\)\s*\)\s*\{\s*(?:_error\.severity\(\s*(SEVERITY_\w+)\s*\)\s*;\s*)?\}\s*"
                  r"else\s+if\s*\(\s*!strict\s*(&&\s*c\s*==\s*'(.)'\s*)?\)\s*\{", pre)
    if not m:
        raise ValueError("`if( Nullable() ) ... else if( !strict ... )` not found")
    sev_nullable = m.group(1)          # None: the severity stays what CheckRemainingInput found after the `$`
    lenient_char = m.group(3)          # None: every null character is substituted; else only this one
    # the `$` (and only it) is consumed and followed by CheckRemainingInput
    dm = re.search(r"if\s*\(\s*c\s*==\s*'(.)'\s*\)\s*\{\s*in\.ignore\(\)\s*;\s*CheckRemainingInput\(", pre)
    if not dm:
        raise ValueError("consumption of the null character not found")
    consumed_char = dm.group(1)
    lenient = pre[m.end():]
    # which accessor the filler switch dispatches on: `switch( X )` with X = NonRefType() / Type() directly, or a local
    # initialised from one of them before the pre-check
    dm2 = re.search(r"switch\s*\(\s*(\w+)\s*(\(\s*\))?\s*\)\s*\{\s*case\s+\w+_TYPE", lenient)
    if not dm2:
        raise ValueError("filler switch not found")
    if dm2.group(2):
        dispatch = dm2.group(1)
    else:
        im = re.search(r"PrimitiveType\s+" + dm2.group(1) + r"\s*=\s*(\w+)\(\)\s*;", body[:body.find(pre[:40])])
        if not im:
            raise ValueError(f"initialisation of {dm2.group(1)} before the pre-check not found")
        dispatch = im.group(1)
    if dispatch not in ("NonRefType", "Type", "BaseType"):
        raise ValueError(f"filler switch dispatches on unknown accessor {dispatch}")
    cases, errvar = [], "err"
    for cm in re.finditer(r"case\s+(\w+)_TYPE\s*:\s*\{\s*(\w+)\s*=\s*\"((?:[^\"\\]|\\.)*)\"\s*;\s*([^}]*?)break\s*;\s*\}", lenient):
        kind, var, filler, action = cm.group(1), cm.group(2), cm.group(3), cm.group(4).strip()
        rm = re.match(r"(Read\w+)\(\s*\*\(\s*ptr\.\w+\s*\)\s*,\s*" + var + r"\.c_str\(\)\s*,\s*&(\w+)\s*,\s*\"((?:[^\"\\]|\\.)*)\"\s*\)\s*;$", action)
        if rm:
            cases.append((kind, filler, rm.group(1), rm.group(3)))
            errvar = rm.group(2)
            continue
        am = re.match(r"\*\(\s*ptr\.S\s*\)\s*=\s*\"((?:[^\"\\]|\\.)*)\"\s*;$", action)
        if am:
            cases.append((kind, filler, "assign", am.group(1)))
            continue
        raise ValueError(f"unsupported filler action for {kind}: {action!r}")
    if not cases:
        raise ValueError("no filler cases found")
    m = re.search(r"default\s*:\s*\{\s*_error\.severity\(\s*(SEVERITY_\w+)\s*\)\s*;[^}]*?return\s+_error\.severity\(\)\s*;\s*\}", lenient)
    if not m:
        raise ValueError("default case of the lenient switch not found")
    sev_default = m.group(1)
    m = re.search(r"if\s*\(\s*" + errvar + r"\.severity\(\)\s*<=\s*(SEVERITY_\w+)\s*\)\s*\{\s*_error\.severity\(\s*(SEVERITY_\w+)\s*\)\s*;", lenient)
    if not m:
        raise ValueError("filler failure test not found")
    fail_thr, sev_fail = m.group(1), m.group(2)
    tail = lenient[m.end():]
    m = re.search(r"_error\.severity\(\s*(SEVERITY_\w+)\s*\)\s*;.*?\}\s*else\s*\{\s*_error\.severity\(\s*(SEVERITY_\w+)\s*\)\s*;", tail, re.S)
    if not m:
        raise ValueError("filler success / strict severities not found")
    sev_ok, sev_strict = m.group(1), m.group(2)
    # --- derived attributes
    m = re.search(r"if\s*\(\s*IsDerived\(\)\s*\)\s*\{\s*if\s*\(\s*c\s*==\s*'(.)'\s*\)\s*\{.*?_error\.severity\(\s*(SEVERITY_\w+)\s*\)\s*;\s*\}\s*else\s*\{\s*_error\.severity\(\s*(SEVERITY_\w+)\s*\)", body, re.S)
    if not m:
        raise ValueError("derived-attribute check not found")
    derived_char, sev_derived_ok, sev_derived_bad = m.group(1), m.group(2), m.group(3)
    # --- defaults of `strict`
    ah = _strip(open(os.path.join(repo, "include/clstepcore/STEPattribute.h")).read())
    m = re.search(r"Severity\s+STEPread\(\s*istream\s*&\s*in\s*=\s*cin[^;]*bool\s+strict\s*=\s*(true|false)\s*\)\s*;", ah)
    if not m:
        raise ValueError("STEPattribute::STEPread declaration not found")
    attr_default = m.group(1)
    ih = _strip(open(os.path.join(repo, "include/clstepcore/sdaiApplication_instance.h")).read())
    m = re.search(r"virtual\s+Severity\s+STEPread\([^;]*bool\s+useTechCor\s*=\s*(true|false)\s*,\s*bool\s+strict\s*=\s*(true|false)\s*\)\s*;", ih)
    if not m:
        raise ValueError("SDAI_Application_instance::STEPread declaration not found")
    inst_default = m.group(2)
    # --- instance level: severity merge in SDAI_Application_instance::STEPread
    ic = _strip(open(os.path.join(repo, "src/clstepcore/sdaiApplication_instance.cc")).read())
    ib = _body(ic, "Severity SDAI_Application_instance::STEPread( int id,  int idIncr,")
    m = re.search(r"attributes\[i\]\.STEPread\(\s*in\s*,\s*instance_set\s*,\s*idIncr\s*,\s*currSch\s*,\s*(\w+)\s*\)\s*;", ib)
    if not m:
        raise ValueError("attributes[i].STEPread call not found")
    inst_passes = m.group(1)
    # technical-corrigendum handling of redefining attributes: the `)` of a left-out last value is consumed there, and the
    # look-ahead that reports the remaining attributes advances `i` this many times per round
    m = re.search(r"else\s*\{\s*if\s*\(\s*c\s*==\s*'\)'\s*\)\s*\{\s*in\s*>>\s*c\s*;\s*\}", ib)
    if not m or not re.search(r"in\s*>>\s*ws\s*;\s*c\s*=\s*in\.peek\(\)\s*;\s*if\s*\(\s*!useTechCor\s*\)", ib):
        raise ValueError("redefining attribute: `)` handling changed")
    lm = re.search(r"else\s+if\s*\(\s*c\s*==\s*'\)'\s*\)\s*\{\s*while\s*\(\s*i\s*<\s*n\s*-\s*1\s*\)\s*\{(.*?)\}\s*return\s+_error\.severity\(\)\s*;\s*\}", ib, re.S)
    if not lm:
        raise ValueError("look-ahead for missing trailing values not found")
    la = lm.group(1)
    la_step = len(re.findall(r"\bi\+\+\s*;", la))
    mm_ = re.search(r"if\s*\(\s*!\(\s*attributes\[i\]\.aDesc->AttrType\(\)\s*==\s*AttrType_Redefining\s*\)\s*\)\s*\{.*?_error\.GreaterSeverity\(\s*(SEVERITY_\w+)\s*\)\s*;\s*return", la, re.S)
    if la_step < 1 or not mm_ or not la.strip().startswith("i++"):
        raise ValueError("look-ahead loop has an unknown shape")
    sev_missing_trailing = mm_.group(1)
    # pre-technical-corrigendum encoding (`useTechCor == false`): a redefining attribute has a value of its own, `*`
    w_ = re.sub(r"\s+", "", ib)
    pm = re.search(r"if\(!useTechCor\)\{in>>c;in>>ws;if\(c=='\*'\)\{in>>c;\}else\{severe=(SEVERITY_\w+);PrependEntityErrMsg\(\);_error\.GreaterSeverity\(severe\);", w_)
    if not pm:
        raise ValueError("pre-technical-corrigendum branch of the read loop changed")
    sev_pretc_nostar = pm.group(1)
    dm = re.search(r"if\(\(!\(attributes\[i\]\.aDesc->AttrType\(\)==AttrType_Redefining\)\|\|!useTechCor\)&&!\(\(c==','\)\|\|\(c=='\)'\)\)\)\{PrependEntityErrMsg\(\);.*?"
                   r"CheckRemainingInput\(in,&_error,\"ENTITY\",\",\)\"\);if\(!in\.good\(\)\)\{return_error\.severity\(\);\}if\(_error\.severity\(\)<=(SEVERITY_\w+)\)\{return_error\.severity\(\);\}\}elseif\(c=='\)'\)", w_)
    if not dm:
        raise ValueError("`Delimiter expected after attribute value` branch of the read loop changed")
    pretc_return_at = dm.group(1)
    sc = _strip(open(os.path.join(repo, "src/clutils/Str.cc")).read())
    cb = re.sub(r"\s+", "", _body(sc, "Severity CheckRemainingInput( istream & in, ErrorDescriptor * err,"))
    # (since C05-15 / C05-19 the skip also ends at the first `;`, quoted or not: `!endOfRecord &&`; a value of the token model has no `;`)
    gm = re.search(r"if\((?:!endOfRecord&&)?IsDelimiter\(delimiterList,c\)\)\{in\.putback\(c\);.*?err->GreaterSeverity\((SEVERITY_\w+)\);\}else\{", cb)
    if not gm or "charc=in.peek();if(!IsDelimiter(delimiterList,c)){" not in cb:
        raise ValueError("CheckRemainingInput: recovery branch changed")
    sev_garbage = gm.group(1)
    m = re.search(r"severe\s*=\s*attributes\[i\]\.Error\(\)\.severity\(\)\s*;\s*if\s*\(\s*severe\s*<=\s*(SEVERITY_\w+)\s*\)\s*\{.*?_error\.GreaterSeverity\(\s*severe\s*\)", ib, re.S)
    if not m:
        raise ValueError("attribute severity merge not found")
    merge_thr = m.group(1)
    # --- complex instances
    xc = _strip(open(os.path.join(repo, "src/clstepcore/STEPcomplex.cc")).read())
    xb = _body(xc, "Severity STEPcomplex::STEPread( int id, int addFileId, class InstMgrBase * instance_set,")
    m = re.search(r"stepc->SDAI_Application_instance::STEPread\(([^;]*)\)\s*;", xb)
    if not m:
        raise ValueError("STEPcomplex: part STEPread call not found")
    part_args = [a.strip() for a in m.group(1).split(",")]
    # how the errors of the parts reach the instance's error: not at all / the whole error of every other part / the errors of
    # the other parts' attributes except those flagged derived (a sibling part derives them)
    tail_merge = bool(re.search(r"_error\.AppendFromErrorArg\(\s*&\w+\s*\)\s*;\s*return\s+_error\.severity\(\)\s*;\s*$", xb.strip()))
    whole = re.search(r"if\s*\(\s*stepc\s*!=\s*this\s*\)\s*\{\s*(\w+)\.AppendFromErrorArg\(\s*&\(\s*stepc->Error\(\)\s*\)\s*\)\s*;\s*\}", xb)
    per_attr = re.search(r"if\s*\(\s*stepc\s*!=\s*this\s*\)\s*\{\s*int\s+n\s*=\s*stepc->attributes\.list_length\(\)\s*;\s*for\s*\(\s*int\s+i\s*=\s*0\s*;\s*i\s*<\s*n\s*;\s*i\+\+\s*\)\s*\{\s*"
                         r"STEPattribute\s*&\s*a\s*=\s*stepc->attributes\[i\]\s*;\s*if\s*\(\s*!a\.IsDerived\(\)\s*&&\s*\(\s*a\.Error\(\)\.severity\(\)\s*<=\s*(SEVERITY_\w+)\s*\)\s*\)\s*\{\s*"
                         r"(\w+)\.AppendFromErrorArg\(\s*&\(\s*a\.Error\(\)\s*\)\s*\)\s*;\s*\}\s*\}\s*\}", xb)
    if whole and tail_merge:
        cx_merge = "all"
    elif per_attr and tail_merge and per_attr.group(1) == merge_thr:
        cx_merge = "nonDerivedAttrs"
    elif not whole and not per_attr and not tail_merge and "partErrors" not in xb:
        cx_merge = "none"
    else:
        raise ValueError("STEPcomplex::STEPread: unknown way of merging the parts' errors")
    merges = cx_merge == "all"
    # --- p21read exit rule
    pr = _strip(open(os.path.join(repo, "src/test/p21read/p21read.cc")).read())
    m = re.search(r"sfile\.ReadExchangeFile\(\s*flnm\s*\)\s*;.*?if\s*\(\s*sfile\.Error\(\)\.severity\(\)\s*<=\s*(SEVERITY_\w+)\s*\)\s*\{\s*exit\(\s*1\s*\)\s*;", pr, re.S)
    if not m:
        raise ValueError("p21read: exit rule after ReadExchangeFile not found")
    exit_thr = m.group(1)
    m = re.search(r"STEPfile\s+sfile\(\s*registry\s*,\s*instance_list\s*,\s*\"\"\s*,\s*strict\s*\)\s*;", pr)
    if not m:
        raise ValueError("p21read: STEPfile construction with strict flag not found")
    # option parsing of p21read: a getopt clone that walks through EVERY letter of a flag cluster (`-ts`), stops at `--` and at
    # the first argument that is not a flag; the option letters
    gm = re.search(r"int\s+sc_getopt\s*\(", pr)
    if not gm:
        raise ValueError("p21read: sc_getopt not found (option parsing changed)")
    gb = _body(pr, "int sc_getopt(")
    cluster = bool(re.search(r"if\s*\(\s*next\s*==\s*NULL\s*\|\|\s*\*next\s*==\s*'\\0'\s*\)", gb) and re.search(r"char\s+c\s*=\s*\*next\+\+\s*;", gb))
    dashdash = bool(re.search(r"strcmp\(\s*argv\[sc_optind\]\s*,\s*\"--\"\s*\)\s*==\s*0", gb))
    stops = bool(re.search(r"argv\[sc_optind\]\[0\]\s*!=\s*'-'\s*\|\|\s*argv\[sc_optind\]\[1\]\s*==\s*'\\0'", gb))
    om = re.search(r"char\s+opts\[\]\s*=\s*\"(\w+)\"\s*;\s*while\s*\(\s*\(\s*c\s*=\s*sc_getopt\(\s*argc\s*,\s*argv\s*,\s*opts\s*\)\s*\)\s*!=\s*-1\s*\)", pr)
    if not (cluster and dashdash and stops and om):
        raise ValueError("p21read: the option loop no longer has the getopt shape (clusters / `--` / stop at first non-flag)")
    opt_letters = om.group(1)
    am = re.search(r"if\s*\(\s*argc\s*>\s*(\d+)\s*\|\|\s*argc\s*<\s*(\d+)\s*\)\s*\{\s*printUse\(\s*argv\[0\]\s*\)\s*;\s*\}\s*char\s+opts\[\]", pr)
    if not am:
        raise ValueError("p21read: argument count guard changed")
    argc_max, argc_min = int(am.group(1)), int(am.group(2))
    m = re.search(r"bool\s+strict\s*=\s*(true|false)\s*;.*?case\s*'s'\s*:\s*strict\s*=\s*(true|false)\s*;", pr, re.S)
    if not m:
        raise ValueError("p21read: -s option not found")
    p21_default, p21_dash_s = m.group(1), m.group(2)

    def strict_arg(args, default):
        """what a callee's `strict` parameter receives: the caller's flag when forwarded, else the default"""
        return "none" if "strict" in args else f"(some {default})"

    L = []
    L.append("-- GENERATED by tools/extract.d/attrnull.py from src/clstepcore/STEPattribute.cc, STEPcomplex.cc, "
             "sdaiApplication_instance.cc,\n-- include/clstepcore/{STEPattribute,sdaiApplication_instance}.h, src/test/p21read/p21read.cc")
    L.append("import StepModel.Sev")
    L.append("namespace StepModel.Generated\nopen StepModel\n")
    L.append("/-- characters at which `STEPattribute::STEPread` enters the null pre-check -/")
    L.append("def nullChars : List Char := [" + ", ".join(f"'{c}'" for c in null_chars) + "]")
    L.append("/-- lenient branch: (base type, filler string, reader / \"assign\", delimiter list or assigned text) -/")
    L.append("def fillerCases : List (String × String × String × String) := [" +
             ", ".join(f"({_lean_str(k)}, {_lean_str(f)}, {_lean_str(r)}, {_lean_str(d)})" for k, f, r, d in cases) + "]")
    L.append("/-- the null character that is consumed (followed by CheckRemainingInput); the others are delimiters left in place -/")
    L.append(f"def consumedNullChar : Char := '{consumed_char}'")
    L.append("/-- severity assigned in the Nullable() branch; `none` = left as CheckRemainingInput found it after the null character -/")
    L.append(f"def sevNullableOverride : Option Sev := {'none' if sev_nullable is None else '(some ' + _sev(sev_nullable) + ')'}")
    L.append("/-- lenient substitution only when the value is this character; `none` = for every null character (also an absent value) -/")
    L.append("def lenientOnlyFor : Option Char := " + ("none" if lenient_char is None else f"(some '{lenient_char}')"))
    L.append("/-- accessor of STEPattribute the filler switch dispatches on (`Type()` is REFERENCE_TYPE for a defined type declared on another defined type) -/")
    L.append(f"def fillerDispatch : String := {_lean_str(dispatch)}")
    L.append(f"def sevFillerFailThreshold : Sev := {_sev(fail_thr)}")
    L.append(f"def sevFillerFail : Sev := {_sev(sev_fail)}")
    L.append(f"def sevFillerOk : Sev := {_sev(sev_ok)}")
    L.append(f"def sevLenientOtherKind : Sev := {_sev(sev_default)}")
    L.append(f"def sevStrictMissing : Sev := {_sev(sev_strict)}")
    L.append(f"def derivedChar : Char := '{derived_char}'")
    L.append(f"def sevDerivedOk : Sev := {_sev(sev_derived_ok)}")
    L.append(f"def sevDerivedBad : Sev := {_sev(sev_derived_bad)}")
    L.append("/-- `strict` received by the redefining attribute: `none` = the caller's flag is forwarded -/")
    L.append(f"def redefStrict : Option Bool := {strict_arg(redef_args, attr_default)}")
    L.append("/-- does a redeclared position take over the error of its redefining attribute?  (false: whatever the redefining attribute reports is dropped, the instance looks at the redeclared position's own, untouched error) -/")
    L.append(f"def redefReportsError : Bool := {'true' if redef_reports else 'false'}")
    L.append("/-- `strict` received by `attributes[i].STEPread` inside `SDAI_Application_instance::STEPread` -/")
    L.append(f"def instAttrStrict : Option Bool := {'none' if inst_passes == 'strict' else '(some ' + attr_default + ')'}")
    L.append("/-- attribute severities at or below this one are merged into the instance's severity -/")
    L.append(f"def sevAttrMergeThreshold : Sev := {_sev(merge_thr)}")
    L.append("/-- the look-ahead after an early `)` examines every `lookAheadStep`-th remaining attribute (1 = every one) -/")
    L.append(f"def lookAheadStep : Nat := {la_step}")
    L.append(f"def sevMissingTrailing : Sev := {_sev(sev_missing_trailing)}")
    L.append("/-- pre-technical-corrigendum encoding (`useTechCor == false`): a redefining attribute reads ONE character; unless it is `*` (then the")
    L.append("    delimiter is read too) the instance gets this severity and NOTHING more is consumed -/")
    L.append(f"def sevPreTcNoStar : Sev := {_sev(sev_pretc_nostar)}")
    L.append("/-- … `CheckRemainingInput( in, &_error, \"ENTITY\", \",)\" )` then skips what is left of the value: this severity if there was anything (the delimiter stays unread) -/")
    L.append(f"def sevPreTcGarbage : Sev := {_sev(sev_garbage)}")
    L.append("/-- … and the read is given up when the instance's severity is at or below -/")
    L.append(f"def preTcGiveUpAt : Sev := {_sev(pretc_return_at)}")
    L.append("/-- `strict` received by the parts of a complex instance -/")
    L.append(f"def complexPartStrict : Option Bool := {strict_arg(part_args, inst_default)}")
    L.append("/-- does `STEPcomplex::STEPread` merge what the parts other than the head report into its result? -/")
    L.append(f"def complexMergesParts : Bool := {'true' if merges else 'false'}")
    L.append("/-- how `STEPcomplex::STEPread` merges the parts' errors: \"none\" (only the first part's error survives), \"all\" (the whole error of every part), \"nonDerivedAttrs\" (the errors of the other parts' attributes, attributes flagged derived excepted) -/")
    L.append(f"def complexMerge : String := {_lean_str(cx_merge)}")
    L.append("/-- p21read: exit status 1 when the severity after reading is at or below this one -/")
    L.append(f"def p21readExitThreshold : Sev := {_sev(exit_thr)}")
    L.append(f"def p21readStrictDefault : Bool := {p21_default}")
    L.append(f"def p21readStrictWithDashS : Bool := {p21_dash_s}")
    L.append("/-- p21read's option letters (getopt string); every letter of a flag cluster is applied, `--` and the first argument that is not a flag end the options -/")
    L.append(f"def p21readOptLetters : List Char := [" + ", ".join(f"'{c}'" for c in opt_letters) + "]")
    L.append("/-- p21read prints its usage and exits unless argc is within these bounds (`if( argc > max || argc < min )`, before the option loop) -/")
    L.append(f"def p21readArgcMin : Nat := {argc_min}")
    L.append(f"def p21readArgcMax : Nat := {argc_max}")
    L.append("\nend StepModel.Generated\n")
    return {"AttrNullGen.lean": "\n".join(L)}
